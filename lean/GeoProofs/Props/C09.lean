/-
  C09 — Simplification keeps a vertex subsequence within the tolerance.

  Property theorems only. Model: GeoModel/Simplify.lean. Helper lemmas (the `Within` relation,
  the farthest-vertex fold, the inductions over `computeRdp`, the linked-list invariants of
  Visvalingam-Whyatt): GeoProofs/Lemmas/C09Rdp.lean, GeoProofs/Lemmas/C09Vw.lean; heap order and
  entry bookkeeping of the `BinaryHeap` mirror: GeoProofs/Lemmas/C09PHeap.lean; the queue-coverage
  loop invariant of `visvalingam_indices`: GeoProofs/Lemmas/C09PExit.lean, of `visvalingam_preserve`:
  GeoProofs/Lemmas/C09PExitP.lean.

  All theorems hold for every `INITIAL_MIN` (`mn`), every coordinate list (repeated, collinear,
  back-tracking vertices, closed rings, 0-3 vertices) and every tolerance.
-/
import GeoModel.Simplify
import GeoModel.Ops.C09
import GeoProofs.Lemmas.C09Rdp
import GeoProofs.Lemmas.C09Vw
import GeoProofs.Lemmas.C09PHeap
import GeoProofs.Lemmas.C09PExit
import GeoProofs.Lemmas.C09PExitP
import GeoProofs.Lemmas.C09XGlobal
import GeoProofs.Lemmas.C09XTrace
import GeoProofs.Lemmas.TRAN2Simplify
import Mathlib.Tactic.NormNum

namespace Geo.Proofs.C09
open Geo Geo.Simp

/-! ### Ramer-Douglas-Peucker -/

/-- the kept (coordinate, index) pairs of `compute_rdp` started as `rdp` / `calculate_rdp_indices`
start it -/
private def kept (mn : Nat) (cs : List Pt) (eps : Rat) : List RI :=
  (computeRdp mn (eps * eps) cs.zipIdx.length cs.zipIdx cs.zipIdx.length).1

private theorem kept_within (mn : Nat) (cs : List Pt) (eps : Rat) :
    Within (okRI (eps * eps)) cs.zipIdx (kept mn cs eps) :=
  computeRdp_within mn (eps * eps) _ _ _

private theorem zipIdx_fst (cs : List Pt) : cs.zipIdx.map (·.1) = cs := List.zipIdx_map_fst 0 cs

/-- [T] `simplify(ε)` with `ε ≤ 0` is the identity (any `INITIAL_MIN`), and `simplify_idx` then
lists every position. -/
theorem rdp_eps_nonpos (mn : Nat) (cs : List Pt) (eps : Rat) (h : eps ≤ 0) :
    rdp mn cs eps = cs ∧ rdpIdx mn cs eps = List.range cs.length := by
  constructor
  · simp [rdp, h]
  · simp [rdpIdx, h, List.zipIdx_map_snd, List.range_eq_range']

/-- [T] every dropped vertex lies within `ε` of the retained segment that replaces it: the
output is read off the input by keeping the first and last vertex and dropping runs `mid`
between consecutive kept vertices `p`, `q` with `dist²(r, segment p q) ≤ ε²` for every dropped
`r` (`Within`, GeoProofs/Lemmas/C09Rdp.lean). For `ε ≤ 0` nothing is dropped. -/
theorem rdp_error_bound (mn : Nat) (cs : List Pt) (eps : Rat) :
    Within (fun r p q => segDist2 r p q ≤ eps * eps) cs (rdp mn cs eps) := by
  unfold rdp
  split
  · exact within_refl cs
  · have h := within_map (ok' := fun r p q => segDist2 r p q ≤ eps * eps) (fun x : RI => x.1)
      (fun r p q h => h) (kept_within mn cs eps)
    rw [zipIdx_fst] at h
    exact h

/-- [T] the same bound on the (coordinate, position) pairs: it names the positions, so it is
unambiguous for repeated vertices. -/
theorem rdp_error_bound_idx (mn : Nat) (cs : List Pt) (eps : Rat) :
    Within (okRI (eps * eps)) cs.zipIdx
      (computeRdp mn (eps * eps) cs.zipIdx.length cs.zipIdx cs.zipIdx.length).1 :=
  kept_within mn cs eps

/-- [T] the output is a subsequence of the input vertices. -/
theorem rdp_sublist (mn : Nat) (cs : List Pt) (eps : Rat) : (rdp mn cs eps).Sublist cs :=
  within_sublist (rdp_error_bound mn cs eps)

/-- [T] the first and the last vertex are kept (so a closed ring stays closed). -/
theorem rdp_first_last (mn : Nat) (cs : List Pt) (eps : Rat) :
    (rdp mn cs eps).head? = cs.head? ∧ (rdp mn cs eps).getLast? = cs.getLast? :=
  ⟨within_head (rdp_error_bound mn cs eps), within_last (rdp_error_bound mn cs eps)⟩

/-- [T] `simplify_idx` lists exactly the positions of the vertices `simplify` keeps: the
index list is an increasing list of valid positions and looking them up gives the coordinate
output. -/
theorem rdp_idx_coords (mn : Nat) (cs : List Pt) (eps : Rat) :
    (rdpIdx mn cs eps).Sublist (List.range cs.length) ∧
    rdp mn cs eps = (rdpIdx mn cs eps).filterMap (fun i => cs[i]?) := by
  have key : ∀ out : List RI, out.Sublist cs.zipIdx →
      (out.map (·.2)).Sublist (List.range cs.length) ∧
      out.map (·.1) = (out.map (·.2)).filterMap (fun i => cs[i]?) := by
    intro out hs
    constructor
    · have := hs.map (·.2)
      simpa [List.zipIdx_map_snd, List.range_eq_range'] using this
    · have hmem : ∀ x ∈ out, cs[x.2]? = some x.1 := fun x hx =>
        List.mem_zipIdx_iff_getElem?.1 (hs.subset hx)
      clear hs
      induction out with
      | nil => rfl
      | cons x t ih =>
        simp only [List.map_cons, List.filterMap_cons, hmem x (List.mem_cons_self)]
        rw [ih (fun y hy => hmem y (List.mem_cons_of_mem _ hy))]
  unfold rdp rdpIdx
  by_cases h : eps ≤ 0
  · simp only [h, if_true]
    have := key cs.zipIdx (List.Sublist.refl _)
    rw [zipIdx_fst] at this
    exact this
  · simp only [h, if_false]
    exact key _ (within_sublist (kept_within mn cs eps))

/-- [T] the minimum-size guard: an input with at least `INITIAL_MIN` coordinates keeps at least
`INITIAL_MIN` (rings: four); an input below `INITIAL_MIN` comes back unchanged. -/
theorem rdp_min_size (mn : Nat) (cs : List Pt) (eps : Rat) :
    (mn ≤ cs.length → mn ≤ (rdp mn cs eps).length) ∧ (cs.length < mn → rdp mn cs eps = cs) := by
  unfold rdp
  by_cases h : eps ≤ 0
  · simp [h]
  · simp only [h, if_false]
    constructor
    · intro hmn
      have := computeRdp_len mn (eps * eps) cs.zipIdx.length cs.zipIdx cs.zipIdx.length (le_refl _)
      have hl : cs.zipIdx.length = cs.length := List.length_zipIdx
      rw [List.length_map]
      omega
    · intro hlt
      rw [computeRdp_below_min mn (eps * eps) _ _ _ (by simpa using hlt)]
      exact zipIdx_fst cs

/-- [T] `simplified_len` never underflows and is, at the end, the length of the output
(the `debug_assert_eq!` of `rdp`). -/
theorem rdp_simplified_len (mn : Nat) (cs : List Pt) (eps : Rat) :
    (computeRdp mn (eps * eps) cs.zipIdx.length cs.zipIdx cs.zipIdx.length).2 =
      (computeRdp mn (eps * eps) cs.zipIdx.length cs.zipIdx cs.zipIdx.length).1.length := by
  have := computeRdp_len mn (eps * eps) cs.zipIdx.length cs.zipIdx cs.zipIdx.length (le_refl _)
  omega

/-- [T] the fuel of the model's recursion is never exhausted: every fuel of at least the slice
length gives the same result (termination of `compute_rdp`: `0 < farthest < len - 1`). -/
theorem rdp_fuel_irrelevant (mn : Nat) (e2 : Rat) (f : Nat) (xs : List RI) (sl : Nat)
    (h : xs.length ≤ f) : computeRdp mn e2 f xs sl = computeRdp mn e2 xs.length xs sl :=
  computeRdp_fuel mn e2 f xs.length xs sl h (le_refl _)

/-- [T] Polygon rings under `simplify`: a closed ring stays closed (so `Polygon::new` adds
nothing) and never falls below four coordinates. -/
theorem rdp_ring (r : List Pt) (eps : Rat) (hc : SM.isClosed r = true) :
    SM.close (rdp 4 r eps) = rdp 4 r eps ∧ (4 ≤ r.length → 4 ≤ (rdp 4 r eps).length) := by
  refine ⟨?_, (rdp_min_size 4 r eps).1⟩
  have ⟨h1, h2⟩ := rdp_first_last 4 r eps
  have : SM.isClosed (rdp 4 r eps) = true := by
    simp only [SM.isClosed, decide_eq_true_eq] at hc ⊢
    rw [h1, h2, hc]
  simp [SM.close, this]

/-- non-vacuity of the hypotheses above on a concrete ring -/
example : SM.isClosed ([⟨0, 0⟩, ⟨4, 0⟩, ⟨4, 4⟩, ⟨0, 0⟩] : List Pt) = true := by decide

/-- [T] witness of the defect repaired by the first `fix:` commit: the pinned `compute_rdp`
(wrapping `usize`, release build) turns the one-element slice `[x]` into `[x, x]`. -/
theorem rdp_single_pinned_witness (x : RI) :
    (computeRdpPinnedSingle 2 x 1).1 = [x, x] ∧ (computeRdp 2 1 1 [x] 1).1 = [x] := by
  constructor
  · simp [computeRdpPinnedSingle]
  · simp [computeRdp]

/-! ### the priority queue (`std::collections::BinaryHeap<VScore>` mirror) -/

/-- [T] what the heap-order invariant `HeapInv` says, on the entries themselves: every parent's
area is at most its children's (`Ord for VScore` is reversed, so the max-heap of the standard
library keeps the smallest area at the root). -/
theorem heap_inv_iff (d : Heap) :
    HeapInv d ↔ ∀ (i : Nat) (hi : i < d.length), 0 < i →
      (d[(i - 1) / 2]'(by omega)).area ≤ d[i].area := by
  constructor
  · intro h i hi h0
    have := h i h0 hi (Nat.zero_le _)
    rw [val_get (v := d[(i - 1) / 2]'(by omega)) (List.getElem?_eq_getElem (by omega)),
      val_get (v := d[i]) (List.getElem?_eq_getElem hi)] at this
    exact this
  · intro h i h0 hi _
    rw [val_get (v := d[(i - 1) / 2]'(by omega)) (List.getElem?_eq_getElem (by omega)),
      val_get (v := d[i]) (List.getElem?_eq_getElem hi)]
    exact h i hi h0

/-- [T] `BinaryHeap::from(vec)` (`rebuild`) establishes the heap order and holds exactly the
entries of `vec`. -/
theorem heap_from_inv (v : List VScore) : HeapInv (heapFrom v) ∧ (heapFrom v).Perm v :=
  ⟨(heapFrom_heap v).2, heapFrom_perm v⟩

/-- [T] `push` (`sift_up`) preserves the heap order and adds exactly the pushed entry. -/
theorem heap_push_inv (d : Heap) (item : VScore) (h : HeapInv d) :
    HeapInv (heapPush d item) ∧ (heapPush d item).Perm (item :: d) :=
  ⟨(heapPush_heap d item h).2, heapPush_perm d item⟩

/-- [T] `pop` (`sift_down_to_bottom` + `sift_up`) preserves the heap order, removes exactly the
entry it returns, and that entry has minimal area among the entries present; `pop` answers `None`
only on the empty queue. -/
theorem heap_pop_min (d : Heap) (h : HeapInv d) :
    (heapPop d = none ↔ d = []) ∧
    ∀ (s : VScore) (d' : Heap), heapPop d = some (s, d') →
      HeapInv d' ∧ d.Perm (s :: d') ∧ (∀ x ∈ d, s.area ≤ x.area) ∧ (∀ x ∈ d', s.area ≤ x.area) := by
  refine ⟨⟨heapPop_none, fun e => by rw [e]; rfl⟩, ?_⟩
  intro s d' hp
  obtain ⟨_, h1, h2⟩ := heapPop_heap h hp
  have hperm := heapPop_perm hp
  exact ⟨h1, hperm, h2, fun x hx => h2 x (hperm.mem_iff.2 (List.mem_cons_of_mem _ hx))⟩

/-- non-vacuity: a concrete queue built by `from` and one `push` satisfies the hypothesis
`HeapInv` (by the two theorems above), is not empty, and `pop` returns its entry of area 1 -/
example :
    HeapInv (heapPush (heapFrom [⟨0, 1, 2, 5, false⟩, ⟨1, 2, 3, 3, false⟩, ⟨2, 3, 4, 4, false⟩])
      ⟨3, 4, 5, 1, false⟩) ∧
    (heapPop (heapPush (heapFrom [⟨0, 1, 2, 5, false⟩, ⟨1, 2, 3, 3, false⟩, ⟨2, 3, 4, 4, false⟩])
      ⟨3, 4, 5, 1, false⟩)).map (·.1) = some ⟨3, 4, 5, 1, false⟩ :=
  ⟨(heap_push_inv _ _ (heap_from_inv _).1).1, by decide +kernel⟩

/-! ### Visvalingam-Whyatt -/

/-- [T] `simplify_vw(ε)` and `simplify_vw_idx(ε)` with `ε ≤ 0` are the identity. -/
theorem vw_eps_nonpos (cs : List Pt) (eps : Rat) (h : eps ≤ 0) :
    visvalingam cs eps = cs ∧ simplifyVwIdx cs eps = List.range cs.length := by
  simp [visvalingam, simplifyVwIdx, h]

/-- [T] `simplify_vw_idx` lists exactly the positions of the vertices `simplify_vw` keeps
(an increasing list of valid positions whose look-up is the coordinate output). -/
theorem vw_idx_coords (cs : List Pt) (eps : Rat) :
    (simplifyVwIdx cs eps).Sublist (List.range cs.length) ∧
    visvalingam cs eps = (simplifyVwIdx cs eps).filterMap (fun i => cs[i]?) := by
  by_cases h : eps ≤ 0
  · have ⟨h1, h2⟩ := vw_eps_nonpos cs eps h
    rw [h1, h2]
    refine ⟨List.Sublist.refl _, ?_⟩
    rw [filterMap_idx cs _ (List.Sublist.refl _), range_map_coordAt]
  · have hs : simplifyVwIdx cs eps = visvalingamIndices cs eps := by simp [simplifyVwIdx, h]
    rw [hs]
    refine ⟨visIdx_sublist cs eps, ?_⟩
    rw [filterMap_idx cs _ (visIdx_sublist cs eps), vis_eq cs eps h]

/-- [T] the output of `simplify_vw` is a subsequence of the input vertices. -/
theorem vw_sublist (cs : List Pt) (eps : Rat) : (visvalingam cs eps).Sublist cs := by
  by_cases h : eps ≤ 0
  · rw [(vw_eps_nonpos cs eps h).1]; exact List.Sublist.refl _
  · rw [vis_eq cs eps h]
    have := (visIdx_sublist cs eps).map (coordAt cs)
    rwa [range_map_coordAt] at this

/-- the kept positions start with `0` and end with `n - 1` (whichever minimal entries the
queue pops first: only "popped entries were pushed" is used about the heap) -/
private theorem visIdx_ends (cs : List Pt) (eps : Rat) (hn : 1 ≤ cs.length) :
    (visvalingamIndices cs eps).head? = some 0 ∧
    (visvalingamIndices cs eps).getLast? = some (cs.length - 1) := by
  unfold visvalingamIndices
  split
  · obtain ⟨m, hm⟩ : ∃ m, cs.length = m + 1 := ⟨cs.length - 1, by omega⟩
    rw [hm]
    constructor
    · rw [List.range_succ_eq_map]; rfl
    · rw [List.range_succ]; simp
  · rename_i h3
    have hinv := vwLoop_inv cs eps cs.length (vwFuel cs.length) adjInit (heapFrom (initScores cs))
      (adjInit_inv _ (by omega)) (heapFrom_allP (initScores_allP cs))
    obtain ⟨e0, e1⟩ := ainv_ends_live hn hinv
    exact ⟨filter_range_head _ _ hn e0, filter_range_last _ _ hn e1⟩

/-- [T] `simplify_vw` keeps the first and the last vertex (so a closed ring stays closed). -/
theorem vw_first_last (cs : List Pt) (eps : Rat) :
    (visvalingam cs eps).head? = cs.head? ∧ (visvalingam cs eps).getLast? = cs.getLast? := by
  by_cases h : eps ≤ 0
  · rw [(vw_eps_nonpos cs eps h).1]; exact ⟨rfl, rfl⟩
  · rw [vis_eq cs eps h]
    cases hcs : cs with
    | nil => simp [visvalingamIndices]
    | cons c0 t =>
      have hn : 1 ≤ cs.length := by rw [hcs]; simp
      obtain ⟨e0, e1⟩ := visIdx_ends cs eps hn
      rw [← hcs]
      constructor
      · rw [List.head?_map, e0]
        simp [coordAt, hcs]
      · rw [List.getLast?_map, e1]
        simp only [Option.map_some, coordAt]
        rw [List.getLast?_eq_getElem?]
        have : cs.length - 1 < cs.length := by omega
        simp [List.getElem?_eq_getElem this]

/-- [T] Polygon rings under `simplify_vw` stay closed (`Polygon::new` adds nothing). -/
theorem vw_ring_closed (r : List Pt) (eps : Rat) (hc : SM.isClosed r = true) :
    SM.close (visvalingam r eps) = visvalingam r eps := by
  have ⟨h1, h2⟩ := vw_first_last r eps
  have : SM.isClosed (visvalingam r eps) = true := by
    simp only [SM.isClosed, decide_eq_true_eq] at hc ⊢
    rw [h1, h2, hc]
  simp [SM.close, this]

/-- [T] (DESIGN §7 C09 T2) exit invariant of `visvalingam_indices`, on positions: any three
consecutive kept positions `i, j, k` span a triangle of area (`Triangle::unsigned_area`, exact)
strictly above the tolerance. Loop invariant (GeoProofs/Lemmas/C09PExit.lean, `vwLoop_exit`):
for every live vertex `v` with current proper neighbours `(l, r)` the queue holds an entry
`(l, v, r, area l v r)` (possibly beside stale entries, which the loop skips); the loop stops
only on an empty queue or when the popped entry - a minimum, by `heap_pop_min` - has area `> ε`.
Holds for every tolerance (also `ε ≤ 0`, the pinned `simplify_vw_idx`). -/
theorem vw_exit_invariant_idx (cs : List Pt) (eps : Rat) (pre post : List Nat) (i j k : Nat)
    (h : visvalingamIndices cs eps = pre ++ i :: j :: k :: post) :
    eps < triArea (coordAt cs i) (coordAt cs j) (coordAt cs k) :=
  visIdx_triple cs eps pre post i j k h

/-- [T] (DESIGN §7 C09 T2) exit invariant of `simplify_vw(ε)`, `ε > 0`, on the output: every
three consecutive retained vertices `a, b, c` span a triangle of area `> ε`. (For `ε ≤ 0` the
output is the input, `vw_eps_nonpos`.) -/
theorem vw_exit_invariant (cs : List Pt) (eps : Rat) (he : 0 < eps) (pre post : List Pt)
    (a b c : Pt) (h : visvalingam cs eps = pre ++ a :: b :: c :: post) :
    eps < triArea a b c := by
  rw [vis_eq cs eps (not_le.2 he)] at h
  obtain ⟨l1, l2, hl, _, h2⟩ := List.map_eq_append_iff.1 h
  obtain ⟨i, l3, hl3, ha, h3⟩ := List.map_eq_cons_iff.1 h2
  obtain ⟨j, l4, hl4, hb, h4⟩ := List.map_eq_cons_iff.1 h3
  obtain ⟨k, l5, hl5, hc, _⟩ := List.map_eq_cons_iff.1 h4
  rw [hl3, hl4, hl5] at hl
  rw [← ha, ← hb, ← hc]
  exact vw_exit_invariant_idx cs eps l1 l5 i j k hl

/-- non-vacuity: the documentation example of `simplify_vw` keeps three vertices (one triple) -/
example : visvalingam [⟨5, 2⟩, ⟨3, 8⟩, ⟨6, 20⟩, ⟨7, 25⟩, ⟨10, 10⟩] 30 =
    [] ++ (⟨5, 2⟩ : Pt) :: ⟨7, 25⟩ :: ⟨10, 10⟩ :: [] := by decide +kernel

example : (0 : Rat) < 30 := by norm_num

private theorem areasAbove_of_triples (eps : Rat) : ∀ (l : List Pt),
    (∀ (pre post : List Pt) (a b c : Pt), l = pre ++ a :: b :: c :: post → eps < triArea a b c) →
    Geo.Ops.C09.areasAbove eps l = true
  | [], _ => rfl
  | [_], _ => rfl
  | [_, _], _ => rfl
  | a :: b :: c :: t, h => by
    simp only [Geo.Ops.C09.areasAbove, Bool.and_eq_true, decide_eq_true_eq]
    refine ⟨h [] t a b c rfl, areasAbove_of_triples eps (b :: c :: t) ?_⟩
    intro pre post a' b' c' hl
    exact h (a :: pre) post a' b' c' (by rw [hl]; rfl)

/-- [T] the clause `vw-area-not-above-eps` that the driver's checker (`Geo.Ops.C09.areasAbove`)
evaluates on every implementation output of `simplify_vw` can never fail on the model's output. -/
theorem vw_exit_invariant_checker (cs : List Pt) (eps : Rat) (he : 0 < eps) :
    Geo.Ops.C09.areasAbove eps (visvalingam cs eps) = true :=
  areasAbove_of_triples eps _ (fun pre post a b c h => vw_exit_invariant cs eps he pre post a b c h)

/-- [T] the same for `simplify_vw_idx(ε)`, `ε > 0`. -/
theorem vw_exit_invariant_simplify_idx (cs : List Pt) (eps : Rat) (he : 0 < eps)
    (pre post : List Nat) (i j k : Nat) (h : simplifyVwIdx cs eps = pre ++ i :: j :: k :: post) :
    eps < triArea (coordAt cs i) (coordAt cs j) (coordAt cs k) := by
  have hs : simplifyVwIdx cs eps = visvalingamIndices cs eps := by
    simp [simplifyVwIdx, not_le.2 he]
  rw [hs] at h
  exact vw_exit_invariant_idx cs eps pre post i j k h

example : simplifyVwIdx [⟨5, 2⟩, ⟨3, 8⟩, ⟨6, 20⟩, ⟨7, 25⟩, ⟨10, 10⟩] 30 = [] ++ 0 :: 3 :: 4 :: [] := by
  decide +kernel

/-- [T] witness of the defect repaired by the second `fix:` commit: the pinned
`simplify_vw_idx(0)` drops the collinear middle vertex while `simplify_vw(0)` keeps it; the
fixed index variant keeps it too. -/
theorem vw_idx_pinned_witness :
    simplifyVwIdxPinned [⟨0, 0⟩, ⟨1, 0⟩, ⟨2, 0⟩] 0 = [0, 2] ∧
    simplifyVwIdx [⟨0, 0⟩, ⟨1, 0⟩, ⟨2, 0⟩] 0 = [0, 1, 2] ∧
    visvalingam [⟨0, 0⟩, ⟨1, 0⟩, ⟨2, 0⟩] 0 = [⟨0, 0⟩, ⟨1, 0⟩, ⟨2, 0⟩] := by
  refine ⟨by decide +kernel, by decide +kernel, by decide +kernel⟩

/-! ### topology-preserving Visvalingam-Whyatt -/

private theorem filterMap_keep_sublist (l : List (Pt × Nat)) (p : Nat → Bool) :
    (l.filterMap (fun x => if p x.2 then some x.1 else none)).Sublist (l.map (·.1)) := by
  induction l with
  | nil => exact List.Sublist.refl _
  | cons x t ih =>
    by_cases h : p x.2 = true
    · simp only [List.filterMap_cons, h, if_true, List.map_cons]
      exact List.Sublist.cons_cons _ ih
    · simp only [List.filterMap_cons, h, List.map_cons]
      exact List.Sublist.cons _ ih

/-- [T] `simplify_vw_preserve`: when the ring loop returns (no `assert!` fires), its output is a
subsequence of the input that keeps the first and the last vertex; `ε ≤ 0` and inputs with
fewer than three coordinates come back unchanged. Holds for every `INITIAL_MIN`, `MIN_POINTS`
and every content of the shared segment tree. -/
theorem vwp_sublist_first_last (imin mpts : Nat) (cs : List Pt) (eps : Rat) (tree : List Seg)
    (out : List Pt) (tree' : List Seg)
    (h : visvalingamPreserve imin mpts cs eps tree = some (out, tree')) :
    out.Sublist cs ∧ out.head? = cs.head? ∧ out.getLast? = cs.getLast? ∧
    ((cs.length < 3 ∨ eps ≤ 0) → out = cs) := by
  unfold visvalingamPreserve at h
  split at h
  · rename_i hc
    simp only [Option.some.injEq, Prod.mk.injEq] at h
    rw [← h.1]
    exact ⟨List.Sublist.refl _, rfl, rfl, fun _ => rfl⟩
  · rename_i hc
    split at h
    · exact absurd h (by simp)
    · rename_i adj tr hloop
      simp only [Option.some.injEq, Prod.mk.injEq] at h
      have hn3 : 3 ≤ cs.length := by omega
      have hinv := vwpLoop_inv cs eps cs.length imin mpts _ _ _ _ _ adj tr
        (adjInit_inv _ hn3) (heapFrom_allP (initScores_allP cs)) hloop
      obtain ⟨e0, e1⟩ := ainv_ends_live (by omega) hinv
      rw [← h.1]
      refine ⟨?_, ?_, ?_, fun hh => absurd hh hc⟩
      · have h2 := filterMap_keep_sublist cs.zipIdx (fun i => adj i != (0, 0))
        have e : List.map (fun p : Pt × Nat => p.1) cs.zipIdx = cs := List.zipIdx_map_fst 0 cs
        rw [e] at h2
        exact h2
      · cases hcs : cs with
        | nil => rw [hcs] at hn3; simp at hn3
        | cons c0 t =>
          have e0' : adj 0 ≠ (0, 0) := by simpa using e0
          simp [List.zipIdx_cons, List.filterMap_cons, e0']
      · obtain ⟨pre, lst, hcs⟩ : ∃ pre lst, cs = pre ++ [lst] := by
          have hne : cs ≠ [] := by intro e; rw [e] at hn3; simp at hn3
          exact ⟨cs.dropLast, cs.getLast hne, (List.dropLast_concat_getLast hne).symm⟩
        have hlen : cs.length - 1 = pre.length := by rw [hcs]; simp
        rw [hlen] at e1
        have e1' : adj pre.length ≠ (0, 0) := by simpa using e1
        rw [hcs, List.zipIdx_append, List.filterMap_append]
        simp [List.zipIdx_cons, e1']

/-- [T] `simplify_vw_preserve` never shrinks a ring (or line) below `INITIAL_MIN` coordinates
(four for polygon rings, two for line strings): `counter` is the number of live vertices and the
loop stops before it would drop below `INITIAL_MIN`; shorter inputs come back unchanged. -/
theorem vwp_min_size (imin mpts : Nat) (cs : List Pt) (eps : Rat) (tree : List Seg)
    (out : List Pt) (tree' : List Seg)
    (h : visvalingamPreserve imin mpts cs eps tree = some (out, tree')) :
    min imin cs.length ≤ out.length := by
  unfold visvalingamPreserve at h
  split at h
  · simp only [Option.some.injEq, Prod.mk.injEq] at h
    rw [← h.1]; exact Nat.min_le_right _ _
  · rename_i hc
    split at h
    · exact absurd h (by simp)
    · rename_i adj tr hloop
      simp only [Option.some.injEq, Prod.mk.injEq] at h
      have hn3 : 3 ≤ cs.length := by omega
      have hcount := vwpLoop_count cs eps cs.length imin mpts _ _ _ _ _ adj tr
        (adjInit_inv _ hn3) (heapFrom_allP (initScores_allP cs)) (liveCount_init _).symm hloop
      rw [← h.1, keep_length adj cs 0, ← List.range_eq_range']
      exact hcount

/-- [T] Polygon rings under `simplify_vw_preserve` (`INITIAL_MIN = 4`): a closed ring stays
closed (`Polygon::new` adds nothing) and never falls below four coordinates. -/
theorem vwp_ring (mpts : Nat) (r : List Pt) (eps : Rat) (tree : List Seg) (out : List Pt)
    (tree' : List Seg) (hc : SM.isClosed r = true)
    (h : visvalingamPreserve 4 mpts r eps tree = some (out, tree')) :
    SM.close out = out ∧ (4 ≤ r.length → 4 ≤ out.length) := by
  obtain ⟨_, h1, h2, _⟩ := vwp_sublist_first_last 4 mpts r eps tree out tree' h
  have hm := vwp_min_size 4 mpts r eps tree out tree' h
  constructor
  · have : SM.isClosed out = true := by
      simp only [SM.isClosed, decide_eq_true_eq] at hc ⊢
      rw [h1, h2, hc]
    simp [SM.close, this]
  · intro h4; omega

/-- [T] exit invariant of `simplify_vw_preserve(ε)`, `ε > 0`: when the loop returns (no `assert!`
fires) and the output has more than `INITIAL_MIN` and more than `MIN_POINTS` coordinates, every
three consecutive retained vertices span a triangle of area `> ε`. The two size hypotheses are the
algorithm's own stopping rules, not proof restrictions: the loop also stops when
`counter <= INITIAL_MIN`, and when the popped triangle intersects the tree and
`counter <= MIN_POINTS`; `counter` is the number of retained coordinates, so in every other case
the loop stopped on an empty queue or on a popped minimum above `ε`. Entries demoted to `-ε` by
`recompute_triangles` are covered (invariant: the live vertex's entry carries its triangle's area
or `-ε`; at exit all queued areas are `> ε > -ε`). Holds for every content of the shared segment
tree. -/
theorem vwp_exit_invariant (imin mpts : Nat) (cs : List Pt) (eps : Rat) (tree : List Seg)
    (out : List Pt) (tree' : List Seg)
    (h : visvalingamPreserve imin mpts cs eps tree = some (out, tree'))
    (he : 0 < eps) (hmin : imin < out.length) (hpts : mpts < out.length)
    (pre post : List Pt) (a b c : Pt) (hout : out = pre ++ a :: b :: c :: post) :
    eps < triArea a b c := by
  unfold visvalingamPreserve at h
  split at h
  · rename_i hc
    rcases hc with hc | hc
    · simp only [Option.some.injEq, Prod.mk.injEq] at h
      rw [← h.1] at hout
      have := congrArg List.length hout
      simp at this
      omega
    · exact absurd hc (not_le.2 he)
  · rename_i hc
    split at h
    · exact absurd h (by simp)
    · rename_i adj tr hloop
      simp only [Option.some.injEq, Prod.mk.injEq] at h
      have hn3 : 3 ≤ cs.length := by omega
      have hinv := vwpLoop_inv cs eps cs.length imin mpts _ _ _ _ _ adj tr
        (adjInit_inv _ hn3) (heapFrom_allP (initScores_allP cs)) hloop
      have hql : (heapFrom (initScores cs)).length = cs.length - 2 := by
        rw [(heapFrom_heap _).1]; simp [initScores]
      obtain ⟨hinv2, hex⟩ := vwpLoop_exit cs eps he cs.length imin mpts _ _ _ _ _ adj tr
        (adjInit_inv _ hn3) (adjInit_inv2 _) (heapFrom_allP (initScores_EP' cs eps)) (heapFrom_heap _).2
        (initScores_covered cs) (liveCount_init _).symm
        (by rw [hql, liveCount_init]; unfold vwFuel; omega) hloop
      have hlen : out.length = liveCount cs.length adj := by
        rw [← h.1, keep_length adj cs 0, ← List.range_eq_range']; rfl
      rcases hex with h1 | h1 | h1
      · omega
      · omega
      · rw [← h.1, keep_eq cs (fun i => adj i != (0, 0))] at hout
        exact triple_of_exit_coords hinv hinv2 h1 pre post a b c hout

/-- non-vacuity: a line string (`INITIAL_MIN = 2`, `MIN_POINTS = 4`) of seven coordinates from
which `simplify_vw_preserve(3)` removes one; six remain (more than both limits) -/
example : (visvalingamPreserve 2 4
    [⟨0, 0⟩, ⟨2, 1⟩, ⟨4, 0⟩, ⟨6, 3⟩, ⟨8, 0⟩, ⟨10, 4⟩, ⟨12, 0⟩] 3
    (linesOf [⟨0, 0⟩, ⟨2, 1⟩, ⟨4, 0⟩, ⟨6, 3⟩, ⟨8, 0⟩, ⟨10, 4⟩, ⟨12, 0⟩])).map (·.1) =
      some ([] ++ (⟨0, 0⟩ : Pt) :: ⟨4, 0⟩ :: ⟨6, 3⟩ :: [⟨8, 0⟩, ⟨10, 4⟩, ⟨12, 0⟩]) := by
  decide +kernel

/-- non-vacuity: the hypothesis of the `vwp_*` theorems is satisfiable on a concrete ring that
is actually simplified (six coordinates in, four out, as the real code returns) -/
example : (visvalingamPreserve 4 5
    [⟨0, 0⟩, ⟨4, 0⟩, ⟨4, 4⟩, ⟨2, 5⟩, ⟨0, 4⟩, ⟨0, 0⟩] 100
    (linesOf [⟨0, 0⟩, ⟨4, 0⟩, ⟨4, 4⟩, ⟨2, 5⟩, ⟨0, 4⟩, ⟨0, 0⟩])).map (·.1) =
      some [⟨0, 0⟩, ⟨4, 4⟩, ⟨0, 4⟩, ⟨0, 0⟩] := by
  decide +kernel

/-! ### global guarantees (C09X) -/

/-- [T] the *global* Douglas-Peucker guarantee, every input vertex against the output polyline: each
input vertex is kept, or lies within `ε` of a segment between two consecutive output vertices
(`line_segment_distance² ≤ ε²`). For every input, tolerance and `INITIAL_MIN`. -/
theorem rdp_global_bound (mn : Nat) (cs : List Pt) (eps : Rat) :
    ∀ r ∈ cs, r ∈ rdp mn cs eps ∨ ∃ s ∈ windows2 (rdp mn cs eps), segDist2 r s.1 s.2 ≤ eps * eps :=
  within_global (rdp_error_bound mn cs eps)

/-- [T] the same with the kept vertices folded in: when the output has at least two vertices (it has as
soon as the input has), every input vertex is within `ε` of some segment of the output polyline. -/
theorem rdp_global_bound_polyline (mn : Nat) (cs : List Pt) (eps : Rat)
    (h2 : 2 ≤ (rdp mn cs eps).length) :
    ∀ r ∈ cs, ∃ s ∈ windows2 (rdp mn cs eps), segDist2 r s.1 s.2 ≤ eps * eps := by
  intro r hr
  rcases rdp_global_bound mn cs eps r hr with h | h
  · obtain ⟨s, hs, h0⟩ := mem_windows2_dist0 _ h2 r h
    exact ⟨s, hs, by rw [h0]; exact mul_self_nonneg eps⟩
  · exact h

example : 2 ≤ (rdp 2 [⟨0, 0⟩, ⟨1, 1⟩, ⟨2, 0⟩, ⟨3, 1⟩] 5).length := by decide +kernel

/-- [T] the removal trace of Visvalingam-Whyatt (`visvalingam_indices`, hence `simplify_vw` and
`simplify_vw_idx` for `ε > 0`): the kept positions are what is left of the adjacency list after a
sequence `tr` of removals (`replay adjInit tr`), and every removal, in the state in which it happens
(`StepsOK`): removes a live vertex whose queue entry names its *current* neighbours, the entry's area is the
exact area of that triangle and is at most `ε`, and no live interior vertex spans a smaller triangle with
its current neighbours at that moment — the heap order is respected, stale entries never cause a
removal. Together with `vw_exit_invariant` (what is left spans areas `> ε`) this is the whole greedy
contract. -/
theorem vw_removal_trace (cs : List Pt) (eps : Rat) (hn : 3 ≤ cs.length) :
    ∃ tr : List VScore,
      visvalingamIndices cs eps =
        (List.range cs.length).filter (fun i => replay adjInit tr i != (0, 0)) ∧
      StepsOK cs eps cs.length adjInit tr :=
  visIdx_trace cs eps hn

example : 3 ≤ ([⟨0, 0⟩, ⟨1, 1⟩, ⟨2, 0⟩, ⟨3, 1⟩] : List Pt).length := by decide

/-- [T] what `StepsOK` says about the first removal, spelled out: the first vertex that is removed is an
interior vertex whose triangle with its two *input* neighbours has area `≤ ε` and is the smallest of all
such triangles of the input. -/
theorem vw_first_removal (cs : List Pt) (eps : Rat) (adj : Adj) (s : VScore) (t : List VScore)
    (h : StepsOK cs eps cs.length adj (s :: t)) :
    triArea (coordAt cs s.left) (coordAt cs s.current) (coordAt cs s.right) ≤ eps ∧
    adj s.current = ((s.left : Int), (s.right : Int)) ∧
    ∀ v l r : Nat, v < cs.length → adj v ≠ (0, 0) → adj v = ((l : Int), (r : Int)) → r < cs.length →
      triArea (coordAt cs s.left) (coordAt cs s.current) (coordAt cs s.right) ≤
        triArea (coordAt cs l) (coordAt cs v) (coordAt cs r) := by
  obtain ⟨h1, _, _, _, _, h6, h7, h8, _⟩ := h
  rw [← h6]
  exact ⟨h7, h1, h8⟩

example : StepsOK [⟨0, 0⟩, ⟨1, 1⟩, ⟨2, 0⟩] 2 3 adjInit
    [{ left := 0, current := 1, right := 2, area := 1, intersector := false }] := by
  refine ⟨by simp [adjInit], by simp [adjInit], by decide, by decide, by decide, ?_, by norm_num, ?_, trivial⟩
  · norm_num [triArea, coordAt, rabs]
  · intro v l r hv _ hav hr
    have hv1 : v = 1 := by
      rcases (by omega : v = 0 ∨ v = 1 ∨ v = 2) with rfl | rfl | rfl
      · simp [adjInit] at hav
      · rfl
      · simp [adjInit] at hav; omega
    subst hv1
    simp [adjInit] at hav
    obtain ⟨rfl, rfl⟩ : l = 0 ∧ r = 2 := by omega
    norm_num [triArea, coordAt, rabs]

/-! ### tie to the source -/

/-- [E2] (translator tie) the selection step of `compute_rdp` — the closure folded over the interior vertices, which keeps
`(index, distance)` when `distance >= farthest_distance` (so the LAST maximum wins) — and the ordering of `VScore`
(`impl Ord`: areas compared in reverse, a min-heap; `impl PartialEq`: equal areas) are, in the model, the terms
`translator/rs2lean.py` regenerates on every run from simplify.rs / simplify_vw.rs (`GeoModel/Gen/SimplifyGen.lean`): one step
of the model's `farthestGo` IS the regenerated closure, `VScore.le` / `VScore.lt` are "not Greater" / "Less" of the
regenerated `cmp`. A changed comparison or operand order changes the regenerated definition and this theorem stops
checking. (The distances are square roots in the code and squared in the model; the step does not depend on which.) -/
theorem rdpSelection_eq_source :
    (∀ (a b : Pt) (x : RI) (rest : List RI) (pos : Nat) (acc : Nat × Rat),
      farthestGo a b (x :: rest) pos acc
        = farthestGo a b rest (pos + 1) (Gen.rdpFoldStep acc.1 acc.2 pos (segDist2 x.1 a b))) ∧
    (∀ (fi : Nat) (fd : Rat) (i : Nat) (d : Rat), Gen.rdpFoldStep fi fd i d = if fd ≤ d then (i, d) else (fi, fd)) ∧
    (∀ a b : VScore, (Gen.vscoreCmp a b != .gt) = VScore.le a b ∧ (Gen.vscoreCmp a b == .lt) = VScore.lt a b ∧
      Gen.vscoreEq a b = (a.area == b.area)) :=
  ⟨Geo.Proofs.TRAN2Simplify.farthestGo_cons, Geo.Proofs.TRAN2Simplify.rdpFoldStep_eq, Geo.Proofs.TRAN2Simplify.vscoreCmp_eq⟩

end Geo.Proofs.C09

