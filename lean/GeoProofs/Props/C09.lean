/-
  C09 — Simplification keeps a vertex subsequence within the tolerance.

  Property theorems only. Model: GeoModel/Simplify.lean. Helper lemmas (the `Within` relation,
  the farthest-vertex fold, the inductions over `computeRdp`, the linked-list invariants of
  Visvalingam-Whyatt): GeoProofs/Lemmas/C09Rdp.lean, GeoProofs/Lemmas/C09Vw.lean.

  All theorems hold for every `INITIAL_MIN` (`mn`), every coordinate list (repeated, collinear,
  back-tracking vertices, closed rings, 0-3 vertices) and every tolerance.
-/
import GeoModel.Simplify
import GeoProofs.Lemmas.C09Rdp
import Mathlib.Tactic.NormNum

namespace Geo.Proofs.C09
open Geo Geo.Simp

/-! ### Ramer-Douglas-Peucker -/

/-- the kept (coordinate, index) pairs of `compute_rdp` started as `rdp` / `calculate_rdp_indices`
start it -/
private def kept (mn : Nat) (cs : List Pt) (eps : Rat) : List RI :=
  (computeRdp mn (eps * eps) cs.zipIdx.length cs.zipIdx cs.zipIdx.length).1

private theorem kept_within (mn : Nat) (cs : List Pt) (eps : Rat) :
    Within (okRI (eps * eps)) cs.zipIdx (kept mn cs eps) :=
  computeRdp_within mn (eps * eps) _ _ _

private theorem zipIdx_fst (cs : List Pt) : cs.zipIdx.map (·.1) = cs := List.zipIdx_map_fst 0 cs

/-- [T] `simplify(ε)` with `ε ≤ 0` is the identity (any `INITIAL_MIN`), and `simplify_idx` then
lists every position. -/
theorem rdp_eps_nonpos (mn : Nat) (cs : List Pt) (eps : Rat) (h : eps ≤ 0) :
    rdp mn cs eps = cs ∧ rdpIdx mn cs eps = List.range cs.length := by
  constructor
  · simp [rdp, h]
  · simp [rdpIdx, h, List.zipIdx_map_snd, List.range_eq_range']

/-- [T] every dropped vertex lies within `ε` of the retained segment that replaces it: the
output is read off the input by keeping the first and last vertex and dropping runs `mid`
between consecutive kept vertices `p`, `q` with `dist²(r, segment p q) ≤ ε²` for every dropped
`r` (`Within`, GeoProofs/Lemmas/C09Rdp.lean). For `ε ≤ 0` nothing is dropped. -/
theorem rdp_error_bound (mn : Nat) (cs : List Pt) (eps : Rat) :
    Within (fun r p q => segDist2 r p q ≤ eps * eps) cs (rdp mn cs eps) := by
  unfold rdp
  split
  · exact within_refl cs
  · have h := within_map (ok' := fun r p q => segDist2 r p q ≤ eps * eps) (fun x : RI => x.1)
      (fun r p q h => h) (kept_within mn cs eps)
    rw [zipIdx_fst] at h
    exact h

/-- [T] the same bound on the (coordinate, position) pairs: it names the positions, so it is
unambiguous for repeated vertices. -/
theorem rdp_error_bound_idx (mn : Nat) (cs : List Pt) (eps : Rat) :
    Within (okRI (eps * eps)) cs.zipIdx
      (computeRdp mn (eps * eps) cs.zipIdx.length cs.zipIdx cs.zipIdx.length).1 :=
  kept_within mn cs eps

/-- [T] the output is a subsequence of the input vertices. -/
theorem rdp_sublist (mn : Nat) (cs : List Pt) (eps : Rat) : (rdp mn cs eps).Sublist cs :=
  within_sublist (rdp_error_bound mn cs eps)

/-- [T] the first and the last vertex are kept (so a closed ring stays closed). -/
theorem rdp_first_last (mn : Nat) (cs : List Pt) (eps : Rat) :
    (rdp mn cs eps).head? = cs.head? ∧ (rdp mn cs eps).getLast? = cs.getLast? :=
  ⟨within_head (rdp_error_bound mn cs eps), within_last (rdp_error_bound mn cs eps)⟩

/-- [T] `simplify_idx` lists exactly the positions of the vertices `simplify` keeps: the
index list is an increasing list of valid positions and looking them up gives the coordinate
output. -/
theorem rdp_idx_coords (mn : Nat) (cs : List Pt) (eps : Rat) :
    (rdpIdx mn cs eps).Sublist (List.range cs.length) ∧
    rdp mn cs eps = (rdpIdx mn cs eps).filterMap (fun i => cs[i]?) := by
  have key : ∀ out : List RI, out.Sublist cs.zipIdx →
      (out.map (·.2)).Sublist (List.range cs.length) ∧
      out.map (·.1) = (out.map (·.2)).filterMap (fun i => cs[i]?) := by
    intro out hs
    constructor
    · have := hs.map (·.2)
      simpa [List.zipIdx_map_snd, List.range_eq_range'] using this
    · have hmem : ∀ x ∈ out, cs[x.2]? = some x.1 := fun x hx =>
        List.mem_zipIdx_iff_getElem?.1 (hs.subset hx)
      clear hs
      induction out with
      | nil => rfl
      | cons x t ih =>
        simp only [List.map_cons, List.filterMap_cons, hmem x (List.mem_cons_self)]
        rw [ih (fun y hy => hmem y (List.mem_cons_of_mem _ hy))]
  unfold rdp rdpIdx
  by_cases h : eps ≤ 0
  · simp only [h, if_true]
    have := key cs.zipIdx (List.Sublist.refl _)
    rw [zipIdx_fst] at this
    exact this
  · simp only [h, if_false]
    exact key _ (within_sublist (kept_within mn cs eps))

/-- [T] the minimum-size guard: an input with at least `INITIAL_MIN` coordinates keeps at least
`INITIAL_MIN` (rings: four); an input below `INITIAL_MIN` comes back unchanged. -/
theorem rdp_min_size (mn : Nat) (cs : List Pt) (eps : Rat) :
    (mn ≤ cs.length → mn ≤ (rdp mn cs eps).length) ∧ (cs.length < mn → rdp mn cs eps = cs) := by
  unfold rdp
  by_cases h : eps ≤ 0
  · simp [h]
  · simp only [h, if_false]
    constructor
    · intro hmn
      have := computeRdp_len mn (eps * eps) cs.zipIdx.length cs.zipIdx cs.zipIdx.length (le_refl _)
      have hl : cs.zipIdx.length = cs.length := List.length_zipIdx
      rw [List.length_map]
      omega
    · intro hlt
      rw [computeRdp_below_min mn (eps * eps) _ _ _ (by simpa using hlt)]
      exact zipIdx_fst cs

/-- [T] `simplified_len` never underflows and is, at the end, the length of the output
(the `debug_assert_eq!` of `rdp`). -/
theorem rdp_simplified_len (mn : Nat) (cs : List Pt) (eps : Rat) :
    (computeRdp mn (eps * eps) cs.zipIdx.length cs.zipIdx cs.zipIdx.length).2 =
      (computeRdp mn (eps * eps) cs.zipIdx.length cs.zipIdx cs.zipIdx.length).1.length := by
  have := computeRdp_len mn (eps * eps) cs.zipIdx.length cs.zipIdx cs.zipIdx.length (le_refl _)
  omega

/-- [T] the fuel of the model's recursion is never exhausted: every fuel of at least the slice
length gives the same result (termination of `compute_rdp`: `0 < farthest < len - 1`). -/
theorem rdp_fuel_irrelevant (mn : Nat) (e2 : Rat) (f : Nat) (xs : List RI) (sl : Nat)
    (h : xs.length ≤ f) : computeRdp mn e2 f xs sl = computeRdp mn e2 xs.length xs sl :=
  computeRdp_fuel mn e2 f xs.length xs sl h (le_refl _)

/-- [T] Polygon rings under `simplify`: a closed ring stays closed (so `Polygon::new` adds
nothing) and never falls below four coordinates. -/
theorem rdp_ring (r : List Pt) (eps : Rat) (hc : SM.isClosed r = true) :
    SM.close (rdp 4 r eps) = rdp 4 r eps ∧ (4 ≤ r.length → 4 ≤ (rdp 4 r eps).length) := by
  refine ⟨?_, (rdp_min_size 4 r eps).1⟩
  have ⟨h1, h2⟩ := rdp_first_last 4 r eps
  have : SM.isClosed (rdp 4 r eps) = true := by
    simp only [SM.isClosed, decide_eq_true_eq] at hc ⊢
    rw [h1, h2, hc]
  simp [SM.close, this]

/-- non-vacuity of the hypotheses above on a concrete ring -/
example : SM.isClosed ([⟨0, 0⟩, ⟨4, 0⟩, ⟨4, 4⟩, ⟨0, 0⟩] : List Pt) = true := by decide

/-- [T] witness of the defect repaired by the first `fix:` commit: the pinned `compute_rdp`
(wrapping `usize`, release build) turns the one-element slice `[x]` into `[x, x]`. -/
theorem rdp_single_pinned_witness (x : RI) :
    (computeRdpPinnedSingle 2 x 1).1 = [x, x] ∧ (computeRdp 2 1 1 [x] 1).1 = [x] := by
  constructor
  · simp [computeRdpPinnedSingle]
  · simp [computeRdp]

end Geo.Proofs.C09
