/-
  C09 — Simplification keeps a vertex subsequence within the tolerance.

  Property theorems only. Model: GeoModel/Simplify.lean. Helper lemmas: GeoProofs/Lemmas/C09*.lean.
-/
import GeoModel.Simplify

namespace Geo.Proofs.C09
open Geo Geo.Simp

/-- [T] `simplify(ε)` with `ε ≤ 0` is the identity (any `INITIAL_MIN`). -/
theorem rdp_eps_nonpos (mn : Nat) (cs : List Pt) (eps : Rat) (h : eps ≤ 0) : rdp mn cs eps = cs := by
  simp [rdp, h]

end Geo.Proofs.C09
