/-
  C20 — results are a function of the inputs alone.            LABEL: PARTIAL

  What a pure model can carry, and what is proved here:

  * Every model in this framework is a Lean function, so "equal input ⇒ equal output" is
    `congrArg`; the content of the property is where the Rust code consults something that is
    *not* input. By grep the only such place in geo / geo-types is stitch.rs (two hash maps).
    `GeoModel.Stitch.assemble it₁ it₂` makes the iteration orders of the two maps explicit.
      - `assemble_order_dep_witness`, `assemble_children_order_dep_witness`: with arbitrary
        (hash) iteration the order of the polygons / of a polygon's interiors depends on it —
        defect F9 of the pinned tree, reproduced through the harness, repaired by
        `fix: stitch_triangulation keeps ring bookkeeping in ordered maps`.
      - `assemble_ordered_iteration_unique`: with maps that iterate in key order (BTreeMap) the
        result does not depend on anything but the input.
      - `assemble_hash_perm`: whatever the iteration orders, the result is the fixed result up to
        the order of the polygons and of each polygon's interiors (so the repair changes the
        order only, never the set of polygons).
  * The bool-ops glue is a pure `map` of the engine's answer, in the engine's order
    (`multiPolygonFromShapes_*`), so for an engine whose answer is determined by its input the
    results of `boolean_op`, `clip`, `unary_union` are determined by theirs (`boolOp_functional`…).

  NOT provable here (and not claimed): that the engine (`i_overlay` on the rayon pool), `spade`,
  `earcutr`, `rstar` give the same answer under every schedule / process. That half of the
  property is *sampled* by the configuration sweep of `./check C20` (see lib/props/C20.py).
-/
import GeoModel.Stitch
import GeoModel.DetGlue
import GeoProofs.Lemmas.C20Stitch

namespace Geo.Proofs.C20
open Geo Geo.Stitch Geo.DetGlue

/-! ## stitch.rs: iteration order of the two maps -/

/-- unit square with lower-left corner `(x, y)`, as a closed ring -/
def sq (x y : Int) : Ring :=
  [⟨x, y⟩, ⟨x + 1, y⟩, ⟨x + 1, y + 1⟩, ⟨x, y + 1⟩, ⟨x, y⟩]

/-- the rings of the twelve separate squares of the F9 witness (corpus/C20.ops) -/
def twelve : List Ring :=
  (List.range 12).map (fun i => sq (2 * (i % 4 : Nat)) (2 * (i / 4 : Nat)))

/-- Pinned code (HashMap): two iteration orders of `polygons_idxs` — here the identity and the
reversal — give the twelve squares in different orders. (No square contains another: every ring
has no parents.) -/
theorem assemble_order_dep_witness :
    assemble id id twelve (fun _ => []) ≠ assemble id List.reverse twelve (fun _ => []) := by
  decide +kernel

/-- Pinned code (HashMap): the iteration order of `parents_of` decides the order of the interiors.
Ring 0 contains rings 1 and 2 (a square with two holes). -/
theorem assemble_children_order_dep_witness :
    let rings := [sq 0 0, sq 2 2, sq 4 4]
    let par : Nat → List Nat := fun i => if i = 0 then [] else [0]
    assemble id id rings par ≠ assemble List.reverse id rings par := by
  decide +kernel

/-- the same witnesses at the level of ring indices: order of the outer rings … -/
theorem buildIdxs_keys_order_witness :
    (buildIdxs (fun _ => []) 3 [0, 1, 2]).keys = [0, 1, 2] ∧
    (buildIdxs (fun _ => []) 3 [2, 0, 1]).keys = [2, 0, 1] := by
  decide

/-- an iteration discipline that visits the keys in ascending order (what `BTreeMap` guarantees) -/
def OrderedIter (it : List Nat → List Nat) : Prop :=
  ∀ ks, (it ks).Pairwise (· ≤ ·) ∧ (it ks).Perm ks

theorem sortKeys_ordered : OrderedIter sortKeys :=
  fun ks => ⟨Lemmas.C20.sortKeys_pairwise ks, Lemmas.C20.sortKeys_perm ks⟩

/-- two ordered iteration disciplines agree on every key set -/
theorem orderedIter_unique {it it' : List Nat → List Nat} (h : OrderedIter it) (h' : OrderedIter it')
    (ks : List Nat) : it ks = it' ks :=
  List.Perm.eq_of_pairwise (le := (· ≤ ·)) (fun _ _ _ _ hab hba => Nat.le_antisymm hab hba)
    (h ks).1 (h' ks).1 ((h ks).2.trans (h' ks).2.symm)

/-- After the fix: with maps that iterate in key order, nothing but the input reaches the result —
any two such maps (whatever their internal layout or insertion history) give the same polygons in
the same order, namely `assembleFixed`. -/
theorem assemble_ordered_iteration_unique {it₁ it₂ it₁' it₂' : List Nat → List Nat}
    (h₁ : OrderedIter it₁) (h₂ : OrderedIter it₂) (h₁' : OrderedIter it₁') (h₂' : OrderedIter it₂')
    (rings : List Ring) (par : Nat → List Nat) :
    assemble it₁ it₂ rings par = assemble it₁' it₂' rings par := by
  have e₁ : it₁ = it₁' := funext (orderedIter_unique h₁ h₁')
  have e₂ : it₂ = it₂' := funext (orderedIter_unique h₂ h₂')
  rw [e₁, e₂]

theorem assemble_ordered_eq_fixed {it₁ it₂ : List Nat → List Nat}
    (h₁ : OrderedIter it₁) (h₂ : OrderedIter it₂) (rings : List Ring) (par : Nat → List Nat) :
    assemble it₁ it₂ rings par = assembleFixed rings par :=
  assemble_ordered_iteration_unique h₁ h₂ sortKeys_ordered sortKeys_ordered rings par

/-- sorting removes every trace of the order the keys were in -/
theorem sortKeys_perm_invariant {l l' : List Nat} (h : l.Perm l') : sortKeys l = sortKeys l' :=
  List.Perm.eq_of_pairwise (le := (· ≤ ·)) (fun _ _ _ _ hab hba => Nat.le_antisymm hab hba)
    (Lemmas.C20.sortKeys_pairwise l) (Lemmas.C20.sortKeys_pairwise l')
    (((Lemmas.C20.sortKeys_perm l).trans h).trans (Lemmas.C20.sortKeys_perm l').symm)

/-- DESIGN §7 C20 T1 in its literal form: put *any* permutations `π`, `π'` (hash orders, insertion
histories) in front of the ordered iteration — the result is the same. -/
theorem assemble_sorted_perm {π₁ π₂ π₁' π₂' : List Nat → List Nat}
    (h₁ : ∀ ks, (π₁ ks).Perm ks) (h₂ : ∀ ks, (π₂ ks).Perm ks)
    (h₁' : ∀ ks, (π₁' ks).Perm ks) (h₂' : ∀ ks, (π₂' ks).Perm ks)
    (rings : List Ring) (par : Nat → List Nat) :
    assemble (fun ks => sortKeys (π₁ ks)) (fun ks => sortKeys (π₂ ks)) rings par =
      assemble (fun ks => sortKeys (π₁' ks)) (fun ks => sortKeys (π₂' ks)) rings par := by
  have e₁ : (fun ks => sortKeys (π₁ ks)) = (fun ks => sortKeys (π₁' ks)) :=
    funext fun ks => sortKeys_perm_invariant ((h₁ ks).trans (h₁' ks).symm)
  have e₂ : (fun ks => sortKeys (π₂ ks)) = (fun ks => sortKeys (π₂' ks)) :=
    funext fun ks => sortKeys_perm_invariant ((h₂ ks).trans (h₂' ks).symm)
  rw [e₁, e₂]

example : assemble (fun ks => sortKeys ks.reverse) (fun ks => sortKeys ks) twelve (fun _ => []) =
    assemble (fun ks => sortKeys ks) (fun ks => sortKeys ks.reverse) twelve (fun _ => []) :=
  assemble_sorted_perm (fun ks => List.reverse_perm ks) (fun _ => List.Perm.refl _)
    (fun _ => List.Perm.refl _) (fun ks => List.reverse_perm ks) _ _

example : assemble sortKeys sortKeys twelve (fun _ => []) = assembleFixed twelve (fun _ => []) :=
  assemble_ordered_eq_fixed sortKeys_ordered sortKeys_ordered _ _

/-- an arbitrary iteration discipline (what `HashMap` gives): some permutation of the keys -/
def PermIter (it : List Nat → List Nat) : Prop := ∀ ks, (it ks).Perm ks

theorem orderedIter_permIter {it : List Nat → List Nat} (h : OrderedIter it) : PermIter it :=
  fun ks => (h ks).2

/-- same exterior, same interiors up to their order -/
def PolyEquiv (p q : Poly) : Prop := p.ext = q.ext ∧ p.ints.Perm q.ints

/-- For *any* visiting order `o` of `parents_of`: ring `k` becomes a polygon iff some visited ring
names it (`keyOf`: an even ring names itself, an odd ring its direct parent), and its interiors
are the odd rings naming it, in visiting order. -/
theorem polygons_idxs_spec (par : Nat → List Nat) (n : Nat) (o : List Nat) (k : Nat) :
    (k ∈ (buildIdxs par n o).keys ↔ ∃ i, i ∈ o ∧ Lemmas.C20.keyOf par n i = some k) ∧
    (buildIdxs par n o).val k =
      o.filter (fun i => Lemmas.C20.isChild par i && Lemmas.C20.keyOf par n i == some k) :=
  Lemmas.C20.buildIdxs_spec par n o k

/-- Whatever the iteration orders of the two maps (pinned code, any hash seeds), the result is
the fixed result up to the order of the polygons and of each polygon's interiors: the defect F9
was purely one of order, and the repair changes nothing else. -/
theorem assemble_hash_perm {it₁ it₂ : List Nat → List Nat} (h₁ : PermIter it₁) (h₂ : PermIter it₂)
    (rings : List Ring) (par : Nat → List Nat) :
    ∃ l, (assemble it₁ it₂ rings par).Perm l ∧
      Lemmas.C20.Rel2 PolyEquiv l (assembleFixed rings par) := by
  let n := rings.length
  let m := buildIdxs par n (it₁ (List.range n))
  let m' := buildIdxs par n (sortKeys (List.range n))
  have ho : (it₁ (List.range n)).Perm (sortKeys (List.range n)) :=
    (h₁ _).trans (Lemmas.C20.sortKeys_perm _).symm
  have hk : (it₂ m.keys).Perm (sortKeys m'.keys) :=
    ((h₂ _).trans (Lemmas.C20.buildIdxs_keys_perm ho)).trans (Lemmas.C20.sortKeys_perm _).symm
  refine ⟨(sortKeys m'.keys).map (fun k => polyOfIdx rings k (m.val k)), hk.map _, ?_⟩
  show Lemmas.C20.Rel2 PolyEquiv _ ((sortKeys m'.keys).map (fun k => polyOfIdx rings k (m'.val k)))
  apply Lemmas.C20.rel2_map_same
  intro k _
  exact ⟨rfl, (Lemmas.C20.buildIdxs_val_perm ho k).map _⟩

/-- non-vacuity: the reversed iteration of the twelve squares is such a permutation -/
example : ∃ l, (assemble id List.reverse twelve (fun _ => [])).Perm l ∧
    Lemmas.C20.Rel2 PolyEquiv l (assembleFixed twelve (fun _ => [])) :=
  assemble_hash_perm (fun _ => List.Perm.refl _) (fun ks => List.reverse_perm ks) _ _

/-- `find_and_fix_holes_in_exterior` looks at the exterior only and appends to the interiors -/
theorem findAndFixHoles_equiv (C : Cont) {p q : Poly} (h : PolyEquiv p q) :
    PolyEquiv (findAndFixHoles C p) (findAndFixHoles C q) := by
  obtain ⟨he, hi⟩ := h
  cases hfo : findOutmost C (splitExterior q.ext) with
  | none =>
    have e1 : findAndFixHoles C p = p := by simp only [findAndFixHoles, he, hfo]
    have e2 : findAndFixHoles C q = q := by simp only [findAndFixHoles, hfo]
    rw [e1, e2]; exact ⟨he, hi⟩
  | some o =>
    have e1 : findAndFixHoles C p = ⟨P.closeRing ((splitExterior q.ext).getD o []),
        (p.ints ++ (splitExterior q.ext).eraseIdx o).map P.closeRing⟩ := by
      simp only [findAndFixHoles, he, hfo]
    have e2 : findAndFixHoles C q = ⟨P.closeRing ((splitExterior q.ext).getD o []),
        (q.ints ++ (splitExterior q.ext).eraseIdx o).map P.closeRing⟩ := by
      simp only [findAndFixHoles, hfo]
    rw [e1, e2]; exact ⟨rfl, (hi.append_right _).map _⟩

theorem stitchTriangles_eq_map (C : Cont) (tris : List Tri) :
    stitchTriangles C tris = (stitchRingsFromLines (boundaryOf tris)).map (fun rings =>
      (assembleFixed rings (fun i => (parentsTable C rings).getD i [])).map (findAndFixHoles C)) := by
  unfold stitchTriangles
  cases stitchRingsFromLines (boundaryOf tris) <;> rfl

theorem stitchTrianglesHash_eq_map (it₁ it₂ : List Nat → List Nat) (C : Cont) (tris : List Tri) :
    stitchTrianglesHash it₁ it₂ C tris = (stitchRingsFromLines (boundaryOf tris)).map (fun rings =>
      (assemble it₁ it₂ rings (fun i => (parentsTable C rings).getD i [])).map (findAndFixHoles C)) := by
  unfold stitchTrianglesHash
  cases stitchRingsFromLines (boundaryOf tris) <;> rfl

/-- The same for the whole of `stitch_triangles`: under any hash iteration orders the pinned code
returns `Err` exactly when the fixed code does, and otherwise the fixed result up to the order of
the polygons and of each polygon's interiors. -/
theorem stitchTrianglesHash_perm {it₁ it₂ : List Nat → List Nat} (h₁ : PermIter it₁) (h₂ : PermIter it₂)
    (C : Cont) (tris : List Tri) :
    (stitchTriangles C tris = none → stitchTrianglesHash it₁ it₂ C tris = none) ∧
    (∀ r', stitchTriangles C tris = some r' →
      ∃ r l, stitchTrianglesHash it₁ it₂ C tris = some r ∧ r.Perm l ∧
        Lemmas.C20.Rel2 PolyEquiv l r') := by
  rw [stitchTriangles_eq_map, stitchTrianglesHash_eq_map]
  cases stitchRingsFromLines (boundaryOf tris) with
  | none => exact ⟨fun _ => rfl, fun _ h => by simp at h⟩
  | some rings =>
    refine ⟨fun h => by simp at h, fun r' h => ?_⟩
    obtain ⟨l, hp, hr⟩ := assemble_hash_perm h₁ h₂ rings
      (fun i => (parentsTable C rings).getD i [])
    have hr' : (assembleFixed rings (fun i => (parentsTable C rings).getD i [])).map
        (findAndFixHoles C) = r' := by simpa using h
    subst hr'
    refine ⟨(assemble it₁ it₂ rings (fun i => (parentsTable C rings).getD i [])).map
      (findAndFixHoles C), l.map (findAndFixHoles C), Option.map_some .., hp.map _, ?_⟩
    exact Lemmas.C20.rel2_map (findAndFixHoles C) (findAndFixHoles C)
      (fun _ _ => findAndFixHoles_equiv C) hr

/-- non-vacuity: two unit squares as four triangles, hash maps iterated in reverse; containment
is never true for separate squares -/
example :
    let C : Cont := ⟨fun _ _ => false, fun _ _ => false⟩
    let tris : List Tri := [⟨⟨0, 0⟩, ⟨1, 0⟩, ⟨1, 1⟩⟩, ⟨⟨0, 0⟩, ⟨1, 1⟩, ⟨0, 1⟩⟩,
                            ⟨⟨2, 0⟩, ⟨3, 0⟩, ⟨3, 1⟩⟩, ⟨⟨2, 0⟩, ⟨3, 1⟩, ⟨2, 1⟩⟩]
    (stitchTrianglesHash List.reverse List.reverse C tris).map List.length = some 2 ∧
    stitchTrianglesHash id List.reverse C tris ≠ stitchTriangles C tris := by
  decide +kernel

example : PolyEquiv (findAndFixHoles ⟨fun _ _ => false, fun _ _ => false⟩ ⟨sq 0 0, [sq 2 2, sq 4 4]⟩)
    (findAndFixHoles ⟨fun _ _ => false, fun _ _ => false⟩ ⟨sq 0 0, [sq 4 4, sq 2 2]⟩) :=
  findAndFixHoles_equiv _ ⟨rfl, List.Perm.swap _ _ _⟩

/-- the whole of `stitch_triangles` after the fix is the pinned code run with key-ordered maps -/
theorem stitchTriangles_eq_hash_ordered {it₁ it₂ : List Nat → List Nat}
    (h₁ : OrderedIter it₁) (h₂ : OrderedIter it₂) (C : Cont) (tris : List Tri) :
    stitchTrianglesHash it₁ it₂ C tris = stitchTriangles C tris := by
  unfold stitchTrianglesHash stitchTriangles
  cases stitchRingsFromLines (boundaryOf tris) with
  | none => rfl
  | some rings => simp only [assemble_ordered_eq_fixed h₁ h₂]

/-! ## bool_ops glue: a pure map of the engine's answer -/

theorem multiPolygonFromShapes_length (ss : List Shape) :
    (multiPolygonFromShapes ss).length = ss.length := by
  simp [multiPolygonFromShapes]

/-- member `i` of the result is made from shape `i` of the engine's answer and nothing else -/
theorem multiPolygonFromShapes_getElem? (ss : List Shape) (i : Nat) :
    (multiPolygonFromShapes ss)[i]? = (ss[i]?).map polygonFromShape := by
  simp [multiPolygonFromShapes]

theorem multiLineStringFromPaths_eq (ps : List Path) : multiLineStringFromPaths ps = ps := by
  unfold multiLineStringFromPaths
  exact (List.map_congr_left (fun _ _ => rfl)).trans (List.map_id _)

/-- an engine whose answer is determined by its input -/
def OverlayFunctional (E : OverlayEngine) : Prop :=
  ∀ s c op f o o', E s c op f o → E s c op f o' → o = o'
def ClipFunctional (E : ClipEngine) : Prop :=
  ∀ l c inv o o', E l c inv o → E l c inv o' → o = o'

/-- `boolean_op` adds no run dependence of its own -/
theorem boolOp_functional {E : OverlayEngine} (hE : OverlayFunctional E) (toPath : Ring → Path)
    (a b : List Poly) (op : Op) (o o' : List Poly)
    (h : BoolOp E toPath a b op o) (h' : BoolOp E toPath a b op o') : o = o' := by
  obtain ⟨s, hs, rfl⟩ := h
  obtain ⟨s', hs', rfl⟩ := h'
  rw [hE _ _ _ _ _ _ hs hs']

theorem clip_functional {E : ClipEngine} (hE : ClipFunctional E) (toPath : Ring → Path)
    (a : List Poly) (mls : List (List Pt)) (inv : Bool) (o o' : List (List Pt))
    (h : Clip E toPath a mls inv o) (h' : Clip E toPath a mls inv o') : o = o' := by
  obtain ⟨s, hs, rfl⟩ := h
  obtain ⟨s', hs', rfl⟩ := h'
  rw [hE _ _ _ _ _ hs hs']

theorem unaryUnion_functional {E : OverlayEngine} (hE : OverlayFunctional E) (toPath : Ring → Path)
    (w : Ring → Option Bool) (mps : List (List Poly)) (o o' : List Poly)
    (h : UnaryUnion E toPath w mps o) (h' : UnaryUnion E toPath w mps o') : o = o' := by
  obtain ⟨s, hs, rfl⟩ := h
  obtain ⟨s', hs', rfl⟩ := h'
  rw [hE _ _ _ _ _ _ hs hs']

/-- `earcut_triangles` is determined by the engine's index list -/
theorem earcut_functional {E : EarcutEngine} (hE : ∀ v h o o', E v h o → E v h o' → o = o') (p : Poly)
    (o o' : List Tri3) (h : EarcutTriangles E p o) (h' : EarcutTriangles E p o') : o = o' := by
  obtain ⟨s, hs, rfl⟩ := h
  obtain ⟨s', hs', rfl⟩ := h'
  rw [hE _ _ _ _ hs hs']

/-- one triangle per complete index triple, nothing else -/
theorem popTriangles_length (verts : List Rat) :
    ∀ idx : List Nat, (popTriangles verts idx).length = idx.length / 3
  | [] => by simp [popTriangles]
  | [_] => by simp [popTriangles]
  | [_, _] => by simp [popTriangles]
  | _ :: _ :: _ :: r => by
    simp only [popTriangles, List.length_cons, popTriangles_length verts r]
    omega

theorem trianglesOfIndices_length (verts : List Rat) (idx : List Nat) :
    (trianglesOfIndices verts idx).length = idx.length / 3 := by
  simp [trianglesOfIndices, popTriangles_length]

/-- `constrained_triangulation` keeps the engine's order: it is a sub-sequence of the outer
triangulation -/
theorem constrainedOfOuter_sublist (inside : Tri3 → Bool) (outer : List Tri3) :
    (constrainedOfOuter inside outer).Sublist outer :=
  List.filter_sublist

theorem trianglesOfFaces_getElem? (faces : List Tri3) (i : Nat) :
    (trianglesOfFaces faces)[i]? = faces[i]? := by
  simp [trianglesOfFaces]

/-- non-vacuity: an engine that returns its subject as one shape is functional, and the glue then
returns exactly one polygon -/
example : ∃ o, BoolOp (fun s _ _ _ o => o = [s]) id [⟨sq 0 0, []⟩] [] .union o ∧ o.length = 1 :=
  ⟨_, ⟨_, rfl, rfl⟩, rfl⟩

example (a b : List Poly) (o o' : List Poly)
    (h : BoolOp (fun s _ _ _ o => o = [s]) id a b .union o)
    (h' : BoolOp (fun s _ _ _ o => o = [s]) id a b .union o') : o = o' :=
  boolOp_functional (fun _ _ _ _ _ _ h h' => h.trans h'.symm) id a b .union o o' h h'

example : ∃ o, EarcutTriangles (fun _ _ idx => idx = [0, 1, 2]) ⟨[⟨0, 0⟩, ⟨4, 0⟩, ⟨0, 4⟩, ⟨0, 0⟩], []⟩ o ∧
    o.length = 1 :=
  ⟨_, ⟨_, rfl, rfl⟩, by simp [trianglesOfIndices_length]⟩

/-- Conversely the glue hides nothing: if (under two schedules) the engine answered with the same
shapes in a different order, the results differ in exactly that order. -/
theorem multiPolygonFromShapes_reverse (ss : List Shape) :
    multiPolygonFromShapes ss.reverse = (multiPolygonFromShapes ss).reverse := by
  simp [multiPolygonFromShapes]

end Geo.Proofs.C20
