/-
  C17 — PreparedGeometry answers exactly like the plain geometry.
  Property theorems only. Model: GeoModel/Prepared.lean.
-/
import GeoModel.Prepared
import GeoProofs.Props.C11

namespace Geo.Proofs.C17
open Geo Geo.Prep

/-- [T] swapping the two label slots is an involution. -/
theorem label_swap_invol (l : Label) : l.swap.swap = l := by cases l; rfl

/-- [T] `swap_labels` on a whole graph is an involution. -/
theorem swapLabels_invol (g : Graph) : g.swapLabels.swapLabels = g := by
  cases g with
  | mk items =>
    simp only [Graph.swapLabels, List.map_map]
    congr 1
    have : ((fun x : List Pt × Label => (x.1, x.2.swap)) ∘ fun x : List Pt × Label => (x.1, x.2.swap)) = id := by
      funext x; cases x with | mk a l => simp [label_swap_invol]
    simpa using congrArg (fun f => List.map f items) this

/-- [T] the graph built for argument index 0 with its labels swapped is the graph built for
argument index 1 (self-noding never looks at the slot index except to write into it). -/
theorem swap_build (sk : List (List Pt × Pos)) : (build 0 sk).swapLabels = build 1 sk := by
  simp [build, Graph.swapLabels, Label.swap]

/-- [T] `clone_for_arg_index` of the cache equals a freshly built graph, for both operand
positions — so the prepared path hands the shared matrix computation the same graph as the
plain path. -/
theorem cloneForArg_eq_fresh (sk : List (List Pt × Pos)) (idx : Nat) (h : idx = 0 ∨ idx = 1) :
    cloneForArg (build 0 sk) idx = build idx sk := by
  rcases h with rfl | rfl
  · rfl
  · simpa [cloneForArg] using swap_build sk

/-- [T] a relate call never changes the table of prepared geometries. -/
theorem relateStep_state (s : State) (a b : Operand) : (relateStep s a b).1 = s := rfl

/-- [T] history independence: in any sequence of calls, with any mix of plain and prepared
operands in either position and any amount of reuse, the k-th answer is the matrix of the two
underlying geometries — the same as a one-shot call on a fresh state. -/
theorem runCalls_eq (s : State) (calls : List (Operand × Operand)) :
    runCalls s calls = calls.map (fun c => (relateStep s c.1 c.2).2) := by
  induction calls with
  | nil => rfl
  | cons c rest ih =>
    cases c with
    | mk a b => simp only [runCalls, List.map_cons, relateStep_state]; rw [ih]

/-- [T] a prepared operand answers like the plain geometry it was built from. -/
theorem prepared_eq_plain (s : State) (i : Nat) (p : Prepared) (h : s.table[i]? = some p) (b : Geom) :
    (relateStep s (.prepared i) (.plain b)).2 = (relateStep s (.plain p.geom) (.plain b)).2 ∧
    (relateStep s (.plain b) (.prepared i)).2 = (relateStep s (.plain b) (.plain p.geom)).2 := by
  simp [relateStep, State.geomOf, h]

/-- [T] candidate completeness: two segments that intersect have intersecting envelopes, so an
index that returns every pair with intersecting envelopes (assumption on `rstar`) misses no
intersection that the all-pairs intersector would find. -/
theorem candidates_complete (s t : Pt × Pt)
    (h : lineIntersection s.1 s.2 t.1 t.2 ≠ none) : envelopesIntersect s t = true := by
  unfold envelopesIntersect
  cases hb : rectRect (lineBBox s.1 s.2).1 (lineBBox s.1 s.2).2 (lineBBox t.1 t.2).1 (lineBBox t.1 t.2).2 with
  | true => rfl
  | false => exact absurd (Geo.Proofs.C11.li_none_of_bbox_disjoint s.1 s.2 t.1 t.2 hb) h

end Geo.Proofs.C17
