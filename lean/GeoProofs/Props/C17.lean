/-
  C17 — PreparedGeometry answers exactly like the plain geometry.
  Property theorems only. Model: GeoModel/Prepared.lean.
-/
import GeoModel.Prepared
import GeoModel.GeomGraph
import GeoProofs.Props.C11
import GeoProofs.Lemmas.C17Graph
import GeoProofs.Lemmas.TRAN2Graph
import GeoProofs.Lemmas.C05Winding

namespace Geo.Proofs.C17
open Geo

section Abstract
open Geo.Prep

/-- [T] swapping the two label slots is an involution. -/
theorem label_swap_invol (l : Label) : l.swap.swap = l := by cases l; rfl

/-- [T] `swap_labels` on a whole graph is an involution. -/
theorem swapLabels_invol (g : Graph) : g.swapLabels.swapLabels = g := by
  cases g with
  | mk items =>
    simp only [Graph.swapLabels, List.map_map]
    congr 1
    have : ((fun x : List Pt × Label => (x.1, x.2.swap)) ∘ fun x : List Pt × Label => (x.1, x.2.swap)) = id := by
      funext x; cases x with | mk a l => simp [label_swap_invol]
    simpa using congrArg (fun f => List.map f items) this

/-- [T] the graph built for argument index 0 with its labels swapped is the graph built for
argument index 1 (self-noding never looks at the slot index except to write into it). -/
theorem swap_build (sk : List (List Pt × Pos)) : (build 0 sk).swapLabels = build 1 sk := by
  simp [build, Graph.swapLabels, Label.swap]

/-- [T] `clone_for_arg_index` of the cache equals a freshly built graph, for both operand
positions — so the prepared path hands the shared matrix computation the same graph as the
plain path. -/
theorem cloneForArg_eq_fresh (sk : List (List Pt × Pos)) (idx : Nat) (h : idx = 0 ∨ idx = 1) :
    cloneForArg (build 0 sk) idx = build idx sk := by
  rcases h with rfl | rfl
  · rfl
  · simpa [cloneForArg] using swap_build sk

/-- [T] a relate call never changes the table of prepared geometries. -/
theorem relateStep_state (s : State) (a b : Operand) : (relateStep s a b).1 = s := rfl

/-- [T] history independence: in any sequence of calls, with any mix of plain and prepared
operands in either position and any amount of reuse, the k-th answer is the matrix of the two
underlying geometries — the same as a one-shot call on a fresh state. -/
theorem runCalls_eq (s : State) (calls : List (Operand × Operand)) :
    runCalls s calls = calls.map (fun c => (relateStep s c.1 c.2).2) := by
  induction calls with
  | nil => rfl
  | cons c rest ih =>
    cases c with
    | mk a b => simp only [runCalls, List.map_cons, relateStep_state]; rw [ih]

/-- [T] a prepared operand answers like the plain geometry it was built from. -/
theorem prepared_eq_plain (s : State) (i : Nat) (p : Prepared) (h : s.table[i]? = some p) (b : Geom) :
    (relateStep s (.prepared i) (.plain b)).2 = (relateStep s (.plain p.geom) (.plain b)).2 ∧
    (relateStep s (.plain b) (.prepared i)).2 = (relateStep s (.plain b) (.plain p.geom)).2 := by
  simp [relateStep, State.geomOf, h]

/-- [T] candidate completeness: two segments that intersect have intersecting envelopes, so an
index that returns every pair with intersecting envelopes (assumption on `rstar`) misses no
intersection that the all-pairs intersector would find. -/
theorem candidates_complete (s t : Pt × Pt)
    (h : lineIntersection s.1 s.2 t.1 t.2 ≠ none) : envelopesIntersect s t = true := by
  unfold envelopesIntersect
  cases hb : rectRect (lineBBox s.1 s.2).1 (lineBBox s.1 s.2).2 (lineBBox t.1 t.2).1 (lineBBox t.1 t.2).2 with
  | true => rfl
  | false => exact absurd (Geo.Proofs.C11.li_none_of_bbox_disjoint s.1 s.2 t.1 t.2 hb) h

end Abstract

/-! ## The concrete graph (`GeoModel/GeomGraph.lean`)

`buildGraph idx g` is `GeometryGraph::new(idx, g)` as the code builds it (checked against the real
code on every run through the `verif::graph_dump` hook, op `C17.graph`). -/

section Concrete
open Geo.GG Geo.Proofs.C17L Geo.Proofs.C05L

/-- [T] `Label::swap_args` is an involution. -/
theorem graph_label_swap_invol (l : GG.Label) : l.swap.swap = l := label_swap_swap l

/-- [T] `PlanarGraph::swap_labels` is an involution on the concrete graph. -/
theorem graph_swapLabels_invol (G : GG.Graph) : G.swapLabels.swapLabels = G := by
  cases G with
  | mk nodes edges rule =>
    simp only [GG.Graph.swapLabels, List.map_map]
    have hn : (Node.swap ∘ Node.swap) = id := by
      funext n; cases n; simp [Node.swap, label_swap_swap]
    have he : (Edge.swap ∘ Edge.swap) = id := by
      funext e; cases e; simp [Edge.swap, label_swap_swap]
    rw [hn, he]; simp

/-- [T] every step of graph construction for argument index 0, followed by `swap_labels`, is the
same step for argument index 1 on the swapped graph — for every geometry (mutual structural
induction over collections) and *every* starting graph. -/
theorem swap_addGeometry_any (g : Geom) (G : GG.Graph) :
    (addGeometry 0 g G).swapLabels = addGeometry 1 g G.swapLabels := swap_addGeometry g G

/-- [T] **the cached graph with its labels swapped is the graph built for argument index 1**:
`GeometryGraph::new(0, g)` after `swap_labels` equals `GeometryGraph::new(1, g)`, for every
geometry of every type — edges (coordinates, on/left/right positions), nodes (coordinates, positions)
and the boundary-determination-rule flag. -/
theorem swap_buildGraph (g : Geom) : (buildGraph 0 g).swapLabels = buildGraph 1 g := by
  unfold buildGraph
  rw [swap_addGeometry g Graph.empty, swap_empty]

/-- [T] and back: the graph for index 1 swapped is the graph for index 0. -/
theorem swap_buildGraph_back (g : Geom) : (buildGraph 1 g).swapLabels = buildGraph 0 g := by
  rw [← swap_buildGraph, graph_swapLabels_invol]

/-- [T] `clone_for_arg_index` of the (un-noded) cache equals the freshly built graph for both
operand positions. -/
theorem cloneForArg_buildGraph (g : Geom) (idx : Nat) (h : idx = 0 ∨ idx = 1) :
    GG.cloneForArg (buildGraph 0 g) idx = buildGraph idx g := by
  rcases h with rfl | rfl
  · rfl
  · simpa [GG.cloneForArg] using swap_buildGraph g

/-- [T] the node-insertion step of self-noding commutes with the label swap, whatever
intersection coordinates were recorded on the edges: `add_self_intersection_nodes` never looks at
the slot index except to read and write that slot. -/
theorem swap_selfNodes (g : Geom) (ixs : List (List Pt)) :
    (addSelfIntersectionNodes 0 ixs (buildGraph 0 g)).swapLabels =
      addSelfIntersectionNodes 1 ixs (buildGraph 1 g) := by
  unfold addSelfIntersectionNodes
  rw [swap_addSelfIntersectionItems, swap_buildGraph]
  have he : (buildGraph 1 g).edges = (buildGraph 0 g).edges.map Edge.swap := by
    rw [← swap_buildGraph]; rfl
  have key : ((buildGraph 0 g).edges.zip ixs).map (fun (x : GG.Edge × List Pt) => (x.1.label.onPos 0, x.2)) =
      ((buildGraph 1 g).edges.zip ixs).map (fun (x : GG.Edge × List Pt) => (x.1.label.onPos 1, x.2)) := by
    rw [he]; exact (items_swap ixs _).symm
  exact congrArg (fun it => addSelfIntersectionItems 1 it (buildGraph 1 g)) key

/-- [T] `clone_for_arg_index` of the *self-noded* cache equals the freshly built and self-noded
graph, for both operand positions (given the same recorded intersections — they are computed from
the edge coordinates alone, which the swap does not touch). -/
theorem cloneForArg_noded_eq_fresh (g : Geom) (ixs : List (List Pt)) (idx : Nat) (h : idx = 0 ∨ idx = 1) :
    GG.cloneForArg (addSelfIntersectionNodes 0 ixs (buildGraph 0 g)) idx =
      addSelfIntersectionNodes idx ixs (buildGraph idx g) := by
  rcases h with rfl | rfl
  · rfl
  · simpa [GG.cloneForArg] using swap_selfNodes g ixs

example : (buildGraph 0 (.collection [.lineString [⟨0, 0⟩, ⟨1, 0⟩, ⟨1, 0⟩, ⟨2, 2⟩],
      .polygon ⟨[⟨0, 0⟩, ⟨0, 4⟩, ⟨4, 4⟩, ⟨0, 0⟩], []⟩])).swapLabels =
    buildGraph 1 (.collection [.lineString [⟨0, 0⟩, ⟨1, 0⟩, ⟨1, 0⟩, ⟨2, 2⟩],
      .polygon ⟨[⟨0, 0⟩, ⟨0, 4⟩, ⟨4, 4⟩, ⟨0, 0⟩], []⟩]) := swap_buildGraph _

/-- [T] the graph built for argument index `idx` never writes the other slot: every edge label is
`Label::new(idx, ·)`-shaped. (Stated for the swap: slot contents move, nothing is lost.) -/
theorem swap_edges_coords (g : Geom) :
    (buildGraph 1 g).edges.map (·.coords) = (buildGraph 0 g).edges.map (·.coords) := by
  rw [← swap_buildGraph]
  show ((buildGraph 0 g).edges.map Edge.swap).map (·.coords) = _
  rw [List.map_map]
  rfl

/-- [T] building for argument index 0 writes slot 0 only: in `GeometryGraph::new(0, g)` the slot
of the other operand is unset on every node and every edge (and by `swap_buildGraph` slot 0 is
unset throughout `GeometryGraph::new(1, g)`). -/
theorem buildGraph_other_slot_unset (g : Geom) :
    (∀ n ∈ (buildGraph 0 g).nodes, n.label.b = .emptyLine ∨ n.label.b = .emptyArea) ∧
    (∀ e ∈ (buildGraph 0 g).edges, e.label.b = .emptyLine ∨ e.label.b = .emptyArea) :=
  inv_addGeometry g Graph.empty inv_empty

/-- [T] the node map's iteration order (lexicographic by coordinate) does not depend on labels, so
the swapped graph lists its nodes in the same order: the dumps of `clone_for_arg_index(1)` and of a
fresh graph for index 1 agree position by position. -/
theorem sortNodes_swapLabels (g : Geom) :
    sortNodes (buildGraph 1 g).nodes = (sortNodes (buildGraph 0 g).nodes).map Node.swap := by
  rw [← swap_buildGraph]
  exact sortNodes_swap _

/-! ### the mod-2 boundary rule (`insert_boundary_point` / `determine_boundary`) -/

/-- [T] **mod-2 rule.** In the graph of a `MultiLineString`, a point that no member collapses to
is a node iff it is an end point of some member, and it is labelled `OnBoundary` iff it is an end
point of an odd number of members (a closed member counts twice), `Inside` otherwise. -/
theorem mod2_rule (idx : Nat) (ls : List (List Pt)) (p : Pt)
    (h : ∀ l ∈ ls, GG.collapsesTo p l = false) :
    (buildGraph idx (.multiLineString ls)).nodeOn idx p =
      if GG.endpointCount p ls = 0 then none
      else if GG.endpointCount p ls % 2 = 1 then some .onBoundary else some .inside := by
  unfold buildGraph
  rw [addGeometry_multiLineString, nodeOn_addLineStrings idx ls p _ h, nodeOn_empty, toggleN_none]

/-- [T] the rule as an equivalence: `OnBoundary` iff an odd number of end points. -/
theorem boundary_iff_odd (idx : Nat) (ls : List (List Pt)) (p : Pt)
    (h : ∀ l ∈ ls, GG.collapsesTo p l = false) :
    (buildGraph idx (.multiLineString ls)).nodeOn idx p = some .onBoundary ↔ GG.endpointCount p ls % 2 = 1 := by
  rw [mod2_rule idx ls p h]
  by_cases h0 : GG.endpointCount p ls = 0
  · simp [h0]
  · by_cases h1 : GG.endpointCount p ls % 2 = 1 <;> simp [h0, h1]

/-- [T] the code as it is, for members that collapse to a single point ("Treating invalid
linestring as point"): such a member *resets* the node to `Inside`, and counting starts afresh with
the members after it. Together with `mod2_rule` this covers every list of members (split it at the
last member collapsing to `p`). -/
theorem mod2_rule_after_collapsed (idx : Nat) (pre post : List (List Pt)) (d : List Pt) (p : Pt)
    (hd : GG.collapsesTo p d = true) (h : ∀ l ∈ post, GG.collapsesTo p l = false) :
    (buildGraph idx (.multiLineString (pre ++ d :: post))).nodeOn idx p =
      if GG.endpointCount p post % 2 = 1 then some .onBoundary else some .inside := by
  unfold buildGraph
  rw [addGeometry_multiLineString, addLineStrings_append]
  simp only [addLineStrings]
  rw [nodeOn_addLineStrings idx post p _ h, nodeOn_addLineString_collapsed idx d p _ hd]
  exact (toggleN_some _).1

example : (buildGraph 0 (.multiLineString [[⟨0, 0⟩, ⟨1, 0⟩], [⟨1, 0⟩, ⟨1, 1⟩], [⟨1, 0⟩, ⟨2, 0⟩, ⟨2, 0⟩]])).nodeOn 0 ⟨1, 0⟩ =
    some .onBoundary := by
  rw [boundary_iff_odd]
  · decide
  · intro l hl
    simp only [List.mem_cons, List.not_mem_nil, or_false] at hl
    rcases hl with rfl | rfl | rfl <;> decide

/-- [T] a single `LineString` is the one-member case: an open one has both ends on the boundary,
a closed one has none (its end point is `Inside`). -/
theorem lineString_ends (idx : Nat) (cs : List Pt) (p : Pt) (h : GG.collapsesTo p cs = false) :
    (buildGraph idx (.lineString cs)).nodeOn idx p =
      if GG.endpointCount1 p cs = 0 then none
      else if GG.endpointCount1 p cs % 2 = 1 then some .onBoundary else some .inside := by
  have e : buildGraph idx (.lineString cs) = addLineString idx cs Graph.empty := by
    unfold buildGraph; simp only [addGeometry]
    split
    · rename_i hc
      have : cs = [] := by simpa using hc
      subst this; rfl
    · rfl
  rw [e, nodeOn_addLineString idx cs p _ h, nodeOn_empty, toggleN_none]

/-! ### polygon rings: the labelling does not depend on the ring's direction -/

/-- left and right exchanged, the edge traversed backwards: the same labelled curve -/
def reverseEdge (e : GG.Edge) : GG.Edge := ⟨e.coords.reverse, e.label.flip⟩

/-- core of the direction theorem, over what `winding_order` answers for the reversed ring -/
private theorem ringEdge_reverse_of_winding (idx : Nat) (ring : List Pt) (l r : Pos)
    (hw : windingOrder ring.reverse = (windingOrder ring).map WO.flip)
    (hs : windingOrder ring ≠ none) :
    GG.ringEdge idx ring.reverse l r = reverseEdge (GG.ringEdge idx ring l r) := by
  unfold GG.ringEdge ringSides reverseEdge
  rw [hw, dedup_reverse]
  cases hwo : windingOrder ring with
  | none => exact absurd hwo hs
  | some w =>
    cases w <;>
      (by_cases h0 : idx = 0 <;>
        simp [WO.flip, Label.new, Label.flip, Label.set, Label.emptyArea, TopoPos.flip, TopoPos.emptyArea, h0])

/-- [Tp] **ring labelling is independent of the ring's direction, up to the left/right swap**:
the edge `add_polygon_ring` inserts for the reversed ring is the reversed edge with left and right
exchanged — i.e. the same side of the curve is labelled interior whichever way the ring is
written. Full statement (every ring with a winding order) is false for pinched rings, where
`winding_order` itself does not flip under reversal (C05, `PivotOnce`); kept for reference:
  windingOrder ring ≠ none → ringEdge idx ring.reverse l r = reverseEdge (ringEdge idx ring l r) -/
theorem ring_label_reverse_partial (idx : Nat) (ring : List Pt) (l r : Pos)
    (h : PivotOnce ring) (hs : windingOrder ring ≠ none) :
    GG.ringEdge idx ring.reverse l r = reverseEdge (GG.ringEdge idx ring l r) :=
  ringEdge_reverse_of_winding idx ring l r (windingOrder_reverse' h) hs

example : GG.ringEdge 0 ([⟨1, 0⟩, ⟨2, 2⟩, ⟨0, 1⟩, ⟨1, 0⟩] : List Pt).reverse .outside .inside =
    reverseEdge (GG.ringEdge 0 [⟨1, 0⟩, ⟨2, 2⟩, ⟨0, 1⟩, ⟨1, 0⟩] .outside .inside) := by decide +kernel

/-- [Tp] a ring without a winding order (degenerate: fewer than three distinct points, or a flat
pivot) is labelled as if clockwise in *both* directions — the code's "Results are undefined"
branch: here the labelling does depend on nothing but the given `(cw_left, cw_right)`. -/
theorem ring_label_degenerate_partial (idx : Nat) (ring : List Pt) (l r : Pos)
    (h : PivotOnce ring) (hs : windingOrder ring = none) :
    GG.ringEdge idx ring.reverse l r = ⟨(GG.ringEdge idx ring l r).coords.reverse, (GG.ringEdge idx ring l r).label⟩ := by
  unfold GG.ringEdge ringSides
  rw [windingOrder_reverse' h, hs, dedup_reverse]
  rfl

/-- [T] the node `add_polygon_ring` marks (`OnBoundary` at the ring's first coordinate) is the
same for a closed ring and its reverse; with `ring_label_reverse_partial`, the graphs of a polygon
written in either direction differ only in the direction of the edge. -/
theorem ring_node_reverse (idx : Nat) (ring : List Pt) (l r : Pos) (G : GG.Graph)
    (hc : ring.head? = ring.getLast?) :
    (addPolygonRing idx ring.reverse l r G).nodes = (addPolygonRing idx ring l r G).nodes := by
  unfold addPolygonRing
  have hh : (dedup ring.reverse).head? = (dedup ring).head? := by
    rw [dedup_head?, dedup_head?, List.head?_reverse, hc]
  cases h1 : dedup ring.reverse with
  | nil =>
    cases h2 : dedup ring with
    | nil => rfl
    | cons b _ => rw [h1, h2] at hh; simp at hh
  | cons a _ =>
    cases h2 : dedup ring with
    | nil => rw [h1, h2] at hh; simp at hh
    | cons b _ =>
      rw [h1, h2] at hh
      have : a = b := by simpa using hh
      subst this; rfl

end Concrete


/-! ### tie to the source -/

/-- [E2] (translator tie) `TopologyPosition` (topology_position.rs: the four constructors, `get`, `is_empty`, `is_any_empty`,
`is_area`, `is_line`, `flip`, `set_all_positions`, `set_all_positions_if_empty`, `set_position`, `set_on_position`) and
`IntersectionMatrix::{set, set_at_least, set_at_least_if_in_both}` of the model are the terms `translator/rs2lean.py`
regenerates on every run from the Rust bodies (`GeoModel/Gen/GraphGen.lean`; `enum Direction` from its declaration): which
field each `(direction, shape)` arm reads or writes, what `flip` swaps, which positions the `if_empty` variant leaves alone, the
`panic!` arms for a direction a line position does not have (model: `none` / unchanged), the strict `<` on dimensions in
`set_at_least` and the both-`Some` test. A changed arm, field or comparison changes the regenerated definition and this
theorem stops checking. -/
theorem topologyPosition_eq_source :
    ((∀ o l r : Pos, Gen.tpArea o l r = GG.TopoPos.area (some o) (some l) (some r)) ∧ Gen.tpEmptyArea = GG.TopoPos.emptyArea ∧
      (∀ o : Pos, Gen.tpLineOrPoint o = GG.TopoPos.lineOrPoint (some o)) ∧ Gen.tpEmptyLineOrPoint = GG.TopoPos.emptyLine) ∧
    (∀ t : GG.TopoPos, Gen.tpGet t .on = t.on ∧ Gen.tpGet t .left = t.left ∧ Gen.tpGet t .right = t.right) ∧
    (∀ t : GG.TopoPos, Gen.tpIsEmpty t = t.isEmpty ∧ Gen.tpIsAnyEmpty t = t.isAnyEmpty ∧ Gen.tpIsArea t = t.isArea ∧
      Gen.tpIsLine t = t.isLine ∧ Gen.tpFlip t = t.flip) ∧
    (∀ (t : GG.TopoPos) (p : Pos), Gen.tpSetAllPositions t p = t.setAll p ∧ Gen.tpSetAllPositionsIfEmpty t p = t.setAllIfEmpty p ∧
      Gen.tpSetOnPosition t p = t.setOn p ∧ Gen.tpSetPosition t .on p = t.setOn p ∧ Gen.tpSetPosition t .left p = t.setLeft p ∧
      Gen.tpSetPosition t .right p = t.setRight p) ∧
    (∀ (m : IM) (a b : Pos) (d : Dim), Gen.imSet m a b d = m.set a b d ∧ Gen.imSetAtLeast m a b d = m.setAtLeast a b d) ∧
    (∀ (m : IM) (pa pb : Option Pos) (d : Dim), Gen.imSetAtLeastIfInBoth m pa pb d = RI.setAtLeastIfBoth m pa pb d) :=
  ⟨Geo.Proofs.TRAN2Graph.tpCtors_eq, Geo.Proofs.TRAN2Graph.tpGet_eq,
   fun t => ⟨Geo.Proofs.TRAN2Graph.tpIsEmpty_eq t, Geo.Proofs.TRAN2Graph.tpIsAnyEmpty_eq t, Geo.Proofs.TRAN2Graph.tpIsArea_eq t,
     Geo.Proofs.TRAN2Graph.tpIsLine_eq t, Geo.Proofs.TRAN2Graph.tpFlip_eq t⟩,
   fun t p => ⟨Geo.Proofs.TRAN2Graph.tpSetAll_eq t p, Geo.Proofs.TRAN2Graph.tpSetAllIfEmpty_eq t p, Geo.Proofs.TRAN2Graph.tpSetOn_eq t p,
     (Geo.Proofs.TRAN2Graph.tpSetPosition_eq t p).1, (Geo.Proofs.TRAN2Graph.tpSetPosition_eq t p).2.1,
     (Geo.Proofs.TRAN2Graph.tpSetPosition_eq t p).2.2⟩,
   fun m a b d => ⟨Geo.Proofs.TRAN2Graph.imSet_eq m a b d, Geo.Proofs.TRAN2Graph.imSetAtLeast_eq m a b d⟩,
   Geo.Proofs.TRAN2Graph.imSetAtLeastIfInBoth_eq⟩

/-- [E2] (translator tie) `Label` (label.rs: `swap_args`, `empty_line_or_point`, `empty_area`, `new`, `flip`, `position`,
`on_position`, `set_position`, `set_on_position`, `set_all_positions`, `set_all_positions_if_empty`, `geometry_count`,
`is_empty`, `is_any_empty`, `is_area`, `is_geom_area`, `is_line`) of the model is the term regenerated from the Rust bodies on
every run (`GeoModel/Gen/GraphGen.lean`), the two-element array `geometry_topologies` being the fields `a`, `b` read and
written through `Label.get` / `Label.set`: which slot each method touches, which `TopologyPosition` method it forwards to,
the shape `new` picks for the other slot, what `swap_args` exchanges and what `geometry_count` counts. -/
theorem label_eq_source (l : GG.Label) (idx : Nat) (p : Pos) (t : GG.TopoPos) :
    Gen.labelSwapArgs l = l.swap ∧ Gen.labelEmptyLineOrPoint = GG.Label.emptyLine ∧ Gen.labelEmptyArea = GG.Label.emptyArea ∧
    Gen.labelNew idx t = GG.Label.new idx t ∧ Gen.labelFlip l = l.flip ∧
    Gen.labelPosition l idx .on = l.onPos idx ∧ Gen.labelPosition l idx .left = l.leftPos idx ∧
    Gen.labelPosition l idx .right = l.rightPos idx ∧ Gen.labelOnPosition l idx = l.onPos idx ∧
    Gen.labelSetPosition l idx .on p = l.setOn idx p ∧ Gen.labelSetPosition l idx .left p = l.setLeft idx p ∧
    Gen.labelSetPosition l idx .right p = l.setRight idx p ∧ Gen.labelSetOnPosition l idx p = l.setOn idx p ∧
    Gen.labelSetAllPositions l idx p = l.setAll idx p ∧ Gen.labelSetAllPositionsIfEmpty l idx p = l.setAllIfEmpty idx p ∧
    Gen.labelGeometryCount l = l.geometryCount ∧ Gen.labelIsEmpty l idx = l.isEmptyAt idx ∧
    Gen.labelIsAnyEmpty l idx = l.isAnyEmptyAt idx ∧ Gen.labelIsArea l = l.isArea ∧ Gen.labelIsGeomArea l idx = l.isGeomArea idx ∧
    Gen.labelIsLine l idx = l.isLineAt idx := by
  have h := Geo.Proofs.TRAN2Graph.label_eq l idx p
  exact ⟨h.1, h.2.1, h.2.2.1, Geo.Proofs.TRAN2Graph.labelNew_eq idx t, h.2.2.2⟩

end Geo.Proofs.C17
