/-
  C19 — Coordinate traversal, mapping and bounding boxes are mutually consistent.

  Property theorems only. Model: GeoModel/Traverse.lean (one Lean function per separately
  written Rust impl: `coords_count` is arithmetic, `coords_iter` is the traversal, …).
-/
import GeoModel.Traverse
import GeoProofs.Props.C18
import Mathlib.Tactic.Linarith
import Mathlib.Tactic.NormNum

namespace Geo.Proofs.C19
open Geo

private theorem length_flatten' (ls : List (List Pt)) :
    ls.flatten.length = (ls.map List.length).sum := by
  induction ls with
  | nil => rfl
  | cons a t ih => simp [ih]

private theorem poly_count (p : Poly) : p.count = p.coords.length := by
  simp [Poly.count, Poly.coords]

mutual
/-- [T] `coords_count` equals the number of coordinates `coords_iter` yields, for every
geometry (every nesting of collections, every empty member). -/
theorem count_eq_length : ∀ g : Geom, coordsCount g = (coordsIter g).length
  | .point _ => rfl
  | .line _ _ => rfl
  | .lineString _ => rfl
  | .polygon p => by simp [coordsCount, coordsIter, poly_count]
  | .multiPoint _ => rfl
  | .multiLineString ls => by simp [coordsCount, coordsIter]
  | .multiPolygon ps => by
      simp only [coordsCount, coordsIter, length_flatten', List.map_map]
      congr 1; apply List.map_congr_left; intro p _; exact poly_count p
  | .rect _ _ => rfl
  | .triangle _ _ _ => rfl
  | .collection gs => by simp only [coordsCount, coordsIter]; exact count_eq_length_list gs
theorem count_eq_length_list : ∀ gs : List Geom, coordsCountList gs = (coordsIterList gs).length
  | [] => rfl
  | g :: gs => by
      simp [coordsCountList, coordsIterList, count_eq_length g, count_eq_length_list gs]
end

/-! ## 1. `exterior_coords_iter` is a sub-sequence of `coords_iter` -/

private theorem poly_ext_sublist (p : Poly) : p.ext.Sublist p.coords :=
  List.sublist_append_left _ _

private theorem mpoly_ext_sublist :
    ∀ ps : List Poly, ((ps.map Poly.ext).flatten).Sublist ((ps.map Poly.coords).flatten)
  | [] => List.Sublist.refl _
  | p :: ps => by
      simp only [List.map_cons, List.flatten_cons]
      exact List.Sublist.append (poly_ext_sublist p) (mpoly_ext_sublist ps)

mutual
/-- [T] `exterior_coords_iter` yields a sub-sequence (same order, nothing new) of what
`coords_iter` yields, for every geometry. -/
theorem exterior_sublist : ∀ g : Geom, (exteriorCoords g).Sublist (coordsIter g)
  | .point _ => List.Sublist.refl _
  | .line _ _ => List.Sublist.refl _
  | .lineString _ => List.Sublist.refl _
  | .polygon p => by simp only [exteriorCoords, coordsIter]; exact poly_ext_sublist p
  | .multiPoint _ => List.Sublist.refl _
  | .multiLineString _ => List.Sublist.refl _
  | .multiPolygon ps => by simp only [exteriorCoords, coordsIter]; exact mpoly_ext_sublist ps
  | .rect _ _ => List.Sublist.refl _
  | .triangle _ _ _ => List.Sublist.refl _
  | .collection gs => by simp only [exteriorCoords, coordsIter]; exact exterior_sublist_list gs
theorem exterior_sublist_list :
    ∀ gs : List Geom, (exteriorCoordsList gs).Sublist (coordsIterList gs)
  | [] => List.Sublist.refl _
  | g :: gs => by
      simp only [exteriorCoordsList, coordsIterList]
      exact List.Sublist.append (exterior_sublist g) (exterior_sublist_list gs)
end

/-- A polygon without interior coordinates (no holes, or only empty hole rings). -/
def polyNoInteriors (p : Poly) : Bool := p.ints.all List.isEmpty

mutual
/-- No `Polygon` / `MultiPolygon` member has an interior ring with coordinates. -/
def noInteriors : Geom → Bool
  | .polygon p => polyNoInteriors p
  | .multiPolygon ps => ps.all polyNoInteriors
  | .collection gs => noInteriorsList gs
  | .point _ | .line _ _ | .lineString _ | .multiPoint _ | .multiLineString _
  | .rect _ _ | .triangle _ _ _ => true
def noInteriorsList : List Geom → Bool
  | [] => true
  | g :: gs => noInteriors g && noInteriorsList gs
end

mutual
/-- No `Polygon` member and no non-empty `MultiPolygon` member anywhere in the tree. -/
def noPolygons : Geom → Bool
  | .polygon _ => false
  | .multiPolygon ps => ps.isEmpty
  | .collection gs => noPolygonsList gs
  | .point _ | .line _ _ | .lineString _ | .multiPoint _ | .multiLineString _
  | .rect _ _ | .triangle _ _ _ => true
def noPolygonsList : List Geom → Bool
  | [] => true
  | g :: gs => noPolygons g && noPolygonsList gs
end

private theorem flatten_all_isEmpty (ls : List (List Pt)) (h : ls.all List.isEmpty = true) :
    ls.flatten = [] := by
  induction ls with
  | nil => rfl
  | cons a t ih =>
    simp only [List.all_cons, Bool.and_eq_true, List.isEmpty_iff] at h
    simp [h.1, ih h.2]

private theorem poly_coords_of_noInteriors (p : Poly) (h : polyNoInteriors p = true) :
    p.coords = p.ext := by
  simp [Poly.coords, flatten_all_isEmpty p.ints (by simpa [polyNoInteriors] using h)]

mutual
/-- [T] for geometries whose polygons carry no interior coordinates the exterior traversal
*is* the traversal. -/
theorem exterior_eq_of_noInteriors :
    ∀ g : Geom, noInteriors g = true → exteriorCoords g = coordsIter g
  | .point _, _ => rfl
  | .line _ _, _ => rfl
  | .lineString _, _ => rfl
  | .polygon p, h => by
      simp only [noInteriors] at h
      simp only [exteriorCoords, coordsIter, poly_coords_of_noInteriors p h]
  | .multiPoint _, _ => rfl
  | .multiLineString _, _ => rfl
  | .multiPolygon ps, h => by
      simp only [noInteriors, List.all_eq_true] at h
      simp only [exteriorCoords, coordsIter]
      congr 1
      apply List.map_congr_left
      intro p hp
      exact (poly_coords_of_noInteriors p (h p hp)).symm
  | .rect _ _, _ => rfl
  | .triangle _ _ _, _ => rfl
  | .collection gs, h => by
      simp only [noInteriors] at h
      simp only [exteriorCoords, coordsIter]; exact exterior_eq_of_noInteriors_list gs h
theorem exterior_eq_of_noInteriors_list :
    ∀ gs : List Geom, noInteriorsList gs = true → exteriorCoordsList gs = coordsIterList gs
  | [], _ => rfl
  | g :: gs, h => by
      simp only [noInteriorsList, Bool.and_eq_true] at h
      simp only [exteriorCoordsList, coordsIterList, exterior_eq_of_noInteriors g h.1,
        exterior_eq_of_noInteriors_list gs h.2]
end

mutual
private theorem noInteriors_of_noPolygons : ∀ g : Geom, noPolygons g = true → noInteriors g = true
  | .point _, _ => rfl
  | .line _ _, _ => rfl
  | .lineString _, _ => rfl
  | .polygon p, h => by simp [noPolygons] at h
  | .multiPoint _, _ => rfl
  | .multiLineString _, _ => rfl
  | .multiPolygon ps, h => by
      simp only [noPolygons, List.isEmpty_iff] at h
      subst h; rfl
  | .rect _ _, _ => rfl
  | .triangle _ _ _, _ => rfl
  | .collection gs, h => by
      simp only [noPolygons] at h
      simp only [noInteriors]; exact noInteriors_of_noPolygons_list gs h
private theorem noInteriors_of_noPolygons_list :
    ∀ gs : List Geom, noPolygonsList gs = true → noInteriorsList gs = true
  | [], _ => rfl
  | g :: gs, h => by
      simp only [noPolygonsList, Bool.and_eq_true] at h
      simp only [noInteriorsList, Bool.and_eq_true]
      exact ⟨noInteriors_of_noPolygons g h.1, noInteriors_of_noPolygons_list gs h.2⟩
end

/-- [T] for geometries without polygons the exterior traversal *is* the traversal. -/
theorem exterior_eq_of_noPolygons (g : Geom) (h : noPolygons g = true) :
    exteriorCoords g = coordsIter g :=
  exterior_eq_of_noInteriors g (noInteriors_of_noPolygons g h)

example : exteriorCoords (.collection [.lineString [⟨0, 0⟩, ⟨1, 2⟩], .collection [.rect ⟨0, 0⟩ ⟨3, 4⟩]])
    = coordsIter (.collection [.lineString [⟨0, 0⟩, ⟨1, 2⟩], .collection [.rect ⟨0, 0⟩ ⟨3, 4⟩]]) :=
  exterior_eq_of_noPolygons _ (by decide)

example : exteriorCoords (.polygon ⟨[⟨0, 0⟩, ⟨1, 2⟩, ⟨5, 0⟩, ⟨0, 0⟩], [[]]⟩)
    = coordsIter (.polygon ⟨[⟨0, 0⟩, ⟨1, 2⟩, ⟨5, 0⟩, ⟨0, 0⟩], [[]]⟩) :=
  exterior_eq_of_noInteriors _ (by decide)

/-! ## 2. `lines_iter` yields the consecutive coordinate pairs -/

/-- [T] `windows(2)` is the list of consecutive pairs. -/
theorem windows2_eq_zip : ∀ cs : List Pt, windows2 cs = cs.zip cs.tail
  | [] => rfl
  | [_] => rfl
  | a :: b :: rest => by
      simp only [windows2, List.tail_cons, List.zip_cons_cons]
      rw [windows2_eq_zip (b :: rest)]; rfl

/-- [T] there is one line less than there are coordinates (none for 0 or 1 coordinates). -/
theorem windows2_length (cs : List Pt) : (windows2 cs).length = cs.length - 1 := by
  rw [windows2_eq_zip, List.length_zip, List.length_tail]; omega

/-- [T] the i-th line joins the i-th and (i+1)-th coordinate. -/
theorem windows2_getElem? : ∀ (cs : List Pt) (i : Nat),
    (windows2 cs)[i]? = (match cs[i]?, cs[i + 1]? with
      | some a, some b => some (a, b)
      | _, _ => none)
  | [], i => by simp [windows2]
  | [a], i => by cases i <;> simp [windows2]
  | a :: b :: rest, 0 => by simp [windows2]
  | a :: b :: rest, i + 1 => by
      have := windows2_getElem? (b :: rest) i
      simpa [windows2] using this

theorem mem_windows2 {cs : List Pt} {l : Pt × Pt} (h : l ∈ windows2 cs) : l.1 ∈ cs ∧ l.2 ∈ cs := by
  rw [windows2_eq_zip] at h
  obtain ⟨a, b⟩ := l
  have := List.of_mem_zip h
  exact ⟨this.1, List.mem_of_mem_tail this.2⟩

private theorem mem_rings_lines {ls : List (List Pt)} {l : Pt × Pt}
    (h : l ∈ (ls.map windows2).flatten) : l.1 ∈ ls.flatten ∧ l.2 ∈ ls.flatten := by
  simp only [List.mem_flatten, List.mem_map] at h
  obtain ⟨_, ⟨r, hr, rfl⟩, hl⟩ := h
  have := mem_windows2 hl
  exact ⟨List.mem_flatten.2 ⟨r, hr, this.1⟩, List.mem_flatten.2 ⟨r, hr, this.2⟩⟩

private theorem mem_poly_lines {p : Poly} {l : Pt × Pt} (h : l ∈ p.lines) :
    l.1 ∈ p.coords ∧ l.2 ∈ p.coords := by
  simp only [Poly.lines, List.mem_append] at h
  simp only [Poly.coords, List.mem_append]
  rcases h with h | h
  · exact ⟨Or.inl (mem_windows2 h).1, Or.inl (mem_windows2 h).2⟩
  · exact ⟨Or.inr (mem_rings_lines h).1, Or.inr (mem_rings_lines h).2⟩

/-- [T] `lines_iter` of the linear types is literally the consecutive pairs of each linear
component (ring / line string), in component order. -/
theorem lines_pairs_lineString (cs : List Pt) : linesIter (.lineString cs) = some (cs.zip cs.tail) := by
  simp [linesIter, windows2_eq_zip]

theorem lines_pairs_multiLineString (ls : List (List Pt)) :
    linesIter (.multiLineString ls) = some ((ls.map fun cs => cs.zip cs.tail).flatten) := by
  simp only [linesIter]
  congr 2
  exact List.map_congr_left fun cs _ => windows2_eq_zip cs

theorem lines_pairs_polygon (p : Poly) :
    linesIter (.polygon p) =
      some (p.ext.zip p.ext.tail ++ (p.ints.map fun cs => cs.zip cs.tail).flatten) := by
  simp only [linesIter, Poly.lines, windows2_eq_zip]
  congr 3
  exact List.map_congr_left fun cs _ => windows2_eq_zip cs

theorem lines_pairs_multiPolygon (ps : List Poly) :
    linesIter (.multiPolygon ps) =
      some ((ps.map fun p => p.ext.zip p.ext.tail ++ (p.ints.map fun cs => cs.zip cs.tail).flatten).flatten) := by
  simp only [linesIter]
  congr 2
  apply List.map_congr_left
  intro p _
  have := lines_pairs_polygon p
  simp only [linesIter, Option.some.injEq] at this
  exact this

/-- [T] the number of lines: one less than the coordinates of every linear component. -/
theorem lines_count_polygon (p : Poly) :
    p.lines.length = (p.ext.length - 1) + ((p.ints.map fun r => r.length - 1).sum) := by
  simp only [Poly.lines, List.length_append, windows2_length, List.length_flatten, List.map_map]
  congr 2
  exact List.map_congr_left fun r _ => windows2_length r

/-- [T] every line that `lines_iter` yields has both end points among the coordinates that
`coords_iter` yields (all seven types implementing `LinesIter`, Rect and Triangle included). -/
theorem lines_endpoints (g : Geom) (ls : List (Pt × Pt)) (h : linesIter g = some ls) :
    ∀ l ∈ ls, l.1 ∈ coordsIter g ∧ l.2 ∈ coordsIter g := by
  intro l hl
  cases g with
  | point _ => simp [linesIter] at h
  | multiPoint _ => simp [linesIter] at h
  | collection _ => simp [linesIter] at h
  | line a b =>
    simp only [linesIter, Option.some.injEq] at h; subst h
    simp only [List.mem_singleton] at hl; subst hl
    simp [coordsIter]
  | lineString cs =>
    simp only [linesIter, Option.some.injEq] at h; subst h
    exact mem_windows2 hl
  | multiLineString rs =>
    simp only [linesIter, Option.some.injEq] at h; subst h
    exact mem_rings_lines hl
  | polygon p =>
    simp only [linesIter, Option.some.injEq] at h; subst h
    exact mem_poly_lines hl
  | multiPolygon ps =>
    simp only [linesIter, Option.some.injEq] at h; subst h
    simp only [List.mem_flatten, List.mem_map] at hl
    obtain ⟨_, ⟨p, hp, rfl⟩, hl⟩ := hl
    have := mem_poly_lines hl
    simp only [coordsIter, List.mem_flatten, List.mem_map]
    exact ⟨⟨_, ⟨p, hp, rfl⟩, this.1⟩, ⟨_, ⟨p, hp, rfl⟩, this.2⟩⟩
  | rect mn mx =>
    simp only [linesIter, Option.some.injEq] at h; subst h
    simp only [SM.rectToLines, List.mem_cons, List.not_mem_nil, or_false] at hl
    rcases hl with rfl | rfl | rfl | rfl <;> simp [coordsIter, rectCoords]
  | triangle a b c =>
    simp only [linesIter, Option.some.injEq] at h; subst h
    simp only [List.mem_cons, List.not_mem_nil, or_false] at hl
    rcases hl with rfl | rfl | rfl <;> simp [coordsIter]

example : ∀ l ∈ [((⟨0, 0⟩ : Pt), (⟨1, 2⟩ : Pt)), (⟨1, 2⟩, ⟨5, 0⟩)],
    l.1 ∈ coordsIter (.lineString [⟨0, 0⟩, ⟨1, 2⟩, ⟨5, 0⟩]) ∧
    l.2 ∈ coordsIter (.lineString [⟨0, 0⟩, ⟨1, 2⟩, ⟨5, 0⟩]) :=
  lines_endpoints _ _ rfl

end Geo.Proofs.C19
