/-
  C19 — Coordinate traversal, mapping and bounding boxes are mutually consistent.

  Property theorems only. Model: GeoModel/Traverse.lean (one Lean function per separately
  written Rust impl: `coords_count` is arithmetic, `coords_iter` is the traversal, …).
-/
import GeoProofs.Lemmas.GenKernel
import GeoModel.Traverse
import GeoProofs.Props.C18
import Mathlib.Tactic.Linarith
import Mathlib.Tactic.NormNum

namespace Geo.Proofs.C19
open Geo

private theorem length_flatten' (ls : List (List Pt)) :
    ls.flatten.length = (ls.map List.length).sum := by
  induction ls with
  | nil => rfl
  | cons a t ih => simp [ih]

private theorem poly_count (p : Poly) : p.count = p.coords.length := by
  simp [Poly.count, Poly.coords]

mutual
/-- [T] `coords_count` equals the number of coordinates `coords_iter` yields, for every
geometry (every nesting of collections, every empty member). -/
theorem count_eq_length : ∀ g : Geom, coordsCount g = (coordsIter g).length
  | .point _ => rfl
  | .line _ _ => rfl
  | .lineString _ => rfl
  | .polygon p => by simp [coordsCount, coordsIter, poly_count]
  | .multiPoint _ => rfl
  | .multiLineString ls => by simp [coordsCount, coordsIter]
  | .multiPolygon ps => by
      simp only [coordsCount, coordsIter, length_flatten', List.map_map]
      congr 1; apply List.map_congr_left; intro p _; exact poly_count p
  | .rect _ _ => rfl
  | .triangle _ _ _ => rfl
  | .collection gs => by simp only [coordsCount, coordsIter]; exact count_eq_length_list gs
theorem count_eq_length_list : ∀ gs : List Geom, coordsCountList gs = (coordsIterList gs).length
  | [] => rfl
  | g :: gs => by
      simp [coordsCountList, coordsIterList, count_eq_length g, count_eq_length_list gs]
end

/-! ## 1. `exterior_coords_iter` is a sub-sequence of `coords_iter` -/

private theorem poly_ext_sublist (p : Poly) : p.ext.Sublist p.coords :=
  List.sublist_append_left _ _

private theorem mpoly_ext_sublist :
    ∀ ps : List Poly, ((ps.map Poly.ext).flatten).Sublist ((ps.map Poly.coords).flatten)
  | [] => List.Sublist.refl _
  | p :: ps => by
      simp only [List.map_cons, List.flatten_cons]
      exact List.Sublist.append (poly_ext_sublist p) (mpoly_ext_sublist ps)

mutual
/-- [T] `exterior_coords_iter` yields a sub-sequence (same order, nothing new) of what
`coords_iter` yields, for every geometry. -/
theorem exterior_sublist : ∀ g : Geom, (exteriorCoords g).Sublist (coordsIter g)
  | .point _ => List.Sublist.refl _
  | .line _ _ => List.Sublist.refl _
  | .lineString _ => List.Sublist.refl _
  | .polygon p => by simp only [exteriorCoords, coordsIter]; exact poly_ext_sublist p
  | .multiPoint _ => List.Sublist.refl _
  | .multiLineString _ => List.Sublist.refl _
  | .multiPolygon ps => by simp only [exteriorCoords, coordsIter]; exact mpoly_ext_sublist ps
  | .rect _ _ => List.Sublist.refl _
  | .triangle _ _ _ => List.Sublist.refl _
  | .collection gs => by simp only [exteriorCoords, coordsIter]; exact exterior_sublist_list gs
theorem exterior_sublist_list :
    ∀ gs : List Geom, (exteriorCoordsList gs).Sublist (coordsIterList gs)
  | [] => List.Sublist.refl _
  | g :: gs => by
      simp only [exteriorCoordsList, coordsIterList]
      exact List.Sublist.append (exterior_sublist g) (exterior_sublist_list gs)
end

/-- A polygon without interior coordinates (no holes, or only empty hole rings). -/
def polyNoInteriors (p : Poly) : Bool := p.ints.all List.isEmpty

mutual
/-- No `Polygon` / `MultiPolygon` member has an interior ring with coordinates. -/
def noInteriors : Geom → Bool
  | .polygon p => polyNoInteriors p
  | .multiPolygon ps => ps.all polyNoInteriors
  | .collection gs => noInteriorsList gs
  | .point _ | .line _ _ | .lineString _ | .multiPoint _ | .multiLineString _
  | .rect _ _ | .triangle _ _ _ => true
def noInteriorsList : List Geom → Bool
  | [] => true
  | g :: gs => noInteriors g && noInteriorsList gs
end

mutual
/-- No `Polygon` member and no non-empty `MultiPolygon` member anywhere in the tree. -/
def noPolygons : Geom → Bool
  | .polygon _ => false
  | .multiPolygon ps => ps.isEmpty
  | .collection gs => noPolygonsList gs
  | .point _ | .line _ _ | .lineString _ | .multiPoint _ | .multiLineString _
  | .rect _ _ | .triangle _ _ _ => true
def noPolygonsList : List Geom → Bool
  | [] => true
  | g :: gs => noPolygons g && noPolygonsList gs
end

private theorem flatten_all_isEmpty (ls : List (List Pt)) (h : ls.all List.isEmpty = true) :
    ls.flatten = [] := by
  induction ls with
  | nil => rfl
  | cons a t ih =>
    simp only [List.all_cons, Bool.and_eq_true, List.isEmpty_iff] at h
    simp [h.1, ih h.2]

private theorem poly_coords_of_noInteriors (p : Poly) (h : polyNoInteriors p = true) :
    p.coords = p.ext := by
  simp [Poly.coords, flatten_all_isEmpty p.ints (by simpa [polyNoInteriors] using h)]

mutual
/-- [T] for geometries whose polygons carry no interior coordinates the exterior traversal
*is* the traversal. -/
theorem exterior_eq_of_noInteriors :
    ∀ g : Geom, noInteriors g = true → exteriorCoords g = coordsIter g
  | .point _, _ => rfl
  | .line _ _, _ => rfl
  | .lineString _, _ => rfl
  | .polygon p, h => by
      simp only [noInteriors] at h
      simp only [exteriorCoords, coordsIter, poly_coords_of_noInteriors p h]
  | .multiPoint _, _ => rfl
  | .multiLineString _, _ => rfl
  | .multiPolygon ps, h => by
      simp only [noInteriors, List.all_eq_true] at h
      simp only [exteriorCoords, coordsIter]
      congr 1
      apply List.map_congr_left
      intro p hp
      exact (poly_coords_of_noInteriors p (h p hp)).symm
  | .rect _ _, _ => rfl
  | .triangle _ _ _, _ => rfl
  | .collection gs, h => by
      simp only [noInteriors] at h
      simp only [exteriorCoords, coordsIter]; exact exterior_eq_of_noInteriors_list gs h
theorem exterior_eq_of_noInteriors_list :
    ∀ gs : List Geom, noInteriorsList gs = true → exteriorCoordsList gs = coordsIterList gs
  | [], _ => rfl
  | g :: gs, h => by
      simp only [noInteriorsList, Bool.and_eq_true] at h
      simp only [exteriorCoordsList, coordsIterList, exterior_eq_of_noInteriors g h.1,
        exterior_eq_of_noInteriors_list gs h.2]
end

mutual
private theorem noInteriors_of_noPolygons : ∀ g : Geom, noPolygons g = true → noInteriors g = true
  | .point _, _ => rfl
  | .line _ _, _ => rfl
  | .lineString _, _ => rfl
  | .polygon p, h => by simp [noPolygons] at h
  | .multiPoint _, _ => rfl
  | .multiLineString _, _ => rfl
  | .multiPolygon ps, h => by
      simp only [noPolygons, List.isEmpty_iff] at h
      subst h; rfl
  | .rect _ _, _ => rfl
  | .triangle _ _ _, _ => rfl
  | .collection gs, h => by
      simp only [noPolygons] at h
      simp only [noInteriors]; exact noInteriors_of_noPolygons_list gs h
private theorem noInteriors_of_noPolygons_list :
    ∀ gs : List Geom, noPolygonsList gs = true → noInteriorsList gs = true
  | [], _ => rfl
  | g :: gs, h => by
      simp only [noPolygonsList, Bool.and_eq_true] at h
      simp only [noInteriorsList, Bool.and_eq_true]
      exact ⟨noInteriors_of_noPolygons g h.1, noInteriors_of_noPolygons_list gs h.2⟩
end

/-- [T] for geometries without polygons the exterior traversal *is* the traversal. -/
theorem exterior_eq_of_noPolygons (g : Geom) (h : noPolygons g = true) :
    exteriorCoords g = coordsIter g :=
  exterior_eq_of_noInteriors g (noInteriors_of_noPolygons g h)

example : exteriorCoords (.collection [.lineString [⟨0, 0⟩, ⟨1, 2⟩], .collection [.rect ⟨0, 0⟩ ⟨3, 4⟩]])
    = coordsIter (.collection [.lineString [⟨0, 0⟩, ⟨1, 2⟩], .collection [.rect ⟨0, 0⟩ ⟨3, 4⟩]]) :=
  exterior_eq_of_noPolygons _ (by decide)

example : exteriorCoords (.polygon ⟨[⟨0, 0⟩, ⟨1, 2⟩, ⟨5, 0⟩, ⟨0, 0⟩], [[]]⟩)
    = coordsIter (.polygon ⟨[⟨0, 0⟩, ⟨1, 2⟩, ⟨5, 0⟩, ⟨0, 0⟩], [[]]⟩) :=
  exterior_eq_of_noInteriors _ (by decide)

/-! ## 2. `lines_iter` yields the consecutive coordinate pairs -/

/-- [T] `windows(2)` is the list of consecutive pairs. -/
theorem windows2_eq_zip : ∀ cs : List Pt, windows2 cs = cs.zip cs.tail
  | [] => rfl
  | [_] => rfl
  | a :: b :: rest => by
      simp only [windows2, List.tail_cons, List.zip_cons_cons]
      rw [windows2_eq_zip (b :: rest)]; rfl

/-- [T] there is one line less than there are coordinates (none for 0 or 1 coordinates). -/
theorem windows2_length (cs : List Pt) : (windows2 cs).length = cs.length - 1 := by
  rw [windows2_eq_zip, List.length_zip, List.length_tail]; omega

/-- [T] the i-th line joins the i-th and (i+1)-th coordinate. -/
theorem windows2_getElem? : ∀ (cs : List Pt) (i : Nat),
    (windows2 cs)[i]? = (match cs[i]?, cs[i + 1]? with
      | some a, some b => some (a, b)
      | _, _ => none)
  | [], i => by simp [windows2]
  | [a], i => by cases i <;> simp [windows2]
  | a :: b :: rest, 0 => by simp [windows2]
  | a :: b :: rest, i + 1 => by
      have := windows2_getElem? (b :: rest) i
      simpa [windows2] using this

theorem mem_windows2 {cs : List Pt} {l : Pt × Pt} (h : l ∈ windows2 cs) : l.1 ∈ cs ∧ l.2 ∈ cs := by
  rw [windows2_eq_zip] at h
  obtain ⟨a, b⟩ := l
  have := List.of_mem_zip h
  exact ⟨this.1, List.mem_of_mem_tail this.2⟩

private theorem mem_rings_lines {ls : List (List Pt)} {l : Pt × Pt}
    (h : l ∈ (ls.map windows2).flatten) : l.1 ∈ ls.flatten ∧ l.2 ∈ ls.flatten := by
  simp only [List.mem_flatten, List.mem_map] at h
  obtain ⟨_, ⟨r, hr, rfl⟩, hl⟩ := h
  have := mem_windows2 hl
  exact ⟨List.mem_flatten.2 ⟨r, hr, this.1⟩, List.mem_flatten.2 ⟨r, hr, this.2⟩⟩

private theorem mem_poly_lines {p : Poly} {l : Pt × Pt} (h : l ∈ p.lines) :
    l.1 ∈ p.coords ∧ l.2 ∈ p.coords := by
  simp only [Poly.lines, List.mem_append] at h
  simp only [Poly.coords, List.mem_append]
  rcases h with h | h
  · exact ⟨Or.inl (mem_windows2 h).1, Or.inl (mem_windows2 h).2⟩
  · exact ⟨Or.inr (mem_rings_lines h).1, Or.inr (mem_rings_lines h).2⟩

/-- [T] `lines_iter` of the linear types is literally the consecutive pairs of each linear
component (ring / line string), in component order. -/
theorem lines_pairs_lineString (cs : List Pt) : linesIter (.lineString cs) = some (cs.zip cs.tail) := by
  simp [linesIter, windows2_eq_zip]

theorem lines_pairs_multiLineString (ls : List (List Pt)) :
    linesIter (.multiLineString ls) = some ((ls.map fun cs => cs.zip cs.tail).flatten) := by
  simp only [linesIter]
  congr 2
  exact List.map_congr_left fun cs _ => windows2_eq_zip cs

theorem lines_pairs_polygon (p : Poly) :
    linesIter (.polygon p) =
      some (p.ext.zip p.ext.tail ++ (p.ints.map fun cs => cs.zip cs.tail).flatten) := by
  simp only [linesIter, Poly.lines, windows2_eq_zip]
  congr 3
  exact List.map_congr_left fun cs _ => windows2_eq_zip cs

theorem lines_pairs_multiPolygon (ps : List Poly) :
    linesIter (.multiPolygon ps) =
      some ((ps.map fun p => p.ext.zip p.ext.tail ++ (p.ints.map fun cs => cs.zip cs.tail).flatten).flatten) := by
  simp only [linesIter]
  congr 2
  apply List.map_congr_left
  intro p _
  have := lines_pairs_polygon p
  simp only [linesIter, Option.some.injEq] at this
  exact this

/-- [T] the number of lines: one less than the coordinates of every linear component. -/
theorem lines_count_polygon (p : Poly) :
    p.lines.length = (p.ext.length - 1) + ((p.ints.map fun r => r.length - 1).sum) := by
  simp only [Poly.lines, List.length_append, windows2_length, List.length_flatten, List.map_map]
  congr 2
  exact List.map_congr_left fun r _ => windows2_length r

/-- [T] every line that `lines_iter` yields has both end points among the coordinates that
`coords_iter` yields (all seven types implementing `LinesIter`, Rect and Triangle included). -/
theorem lines_endpoints (g : Geom) (ls : List (Pt × Pt)) (h : linesIter g = some ls) :
    ∀ l ∈ ls, l.1 ∈ coordsIter g ∧ l.2 ∈ coordsIter g := by
  intro l hl
  cases g with
  | point _ => simp [linesIter] at h
  | multiPoint _ => simp [linesIter] at h
  | collection _ => simp [linesIter] at h
  | line a b =>
    simp only [linesIter, Option.some.injEq] at h; subst h
    simp only [List.mem_singleton] at hl; subst hl
    simp [coordsIter]
  | lineString cs =>
    simp only [linesIter, Option.some.injEq] at h; subst h
    exact mem_windows2 hl
  | multiLineString rs =>
    simp only [linesIter, Option.some.injEq] at h; subst h
    exact mem_rings_lines hl
  | polygon p =>
    simp only [linesIter, Option.some.injEq] at h; subst h
    exact mem_poly_lines hl
  | multiPolygon ps =>
    simp only [linesIter, Option.some.injEq] at h; subst h
    simp only [List.mem_flatten, List.mem_map] at hl
    obtain ⟨_, ⟨p, hp, rfl⟩, hl⟩ := hl
    have := mem_poly_lines hl
    simp only [coordsIter, List.mem_flatten, List.mem_map]
    exact ⟨⟨_, ⟨p, hp, rfl⟩, this.1⟩, ⟨_, ⟨p, hp, rfl⟩, this.2⟩⟩
  | rect mn mx =>
    simp only [linesIter, Option.some.injEq] at h; subst h
    simp only [SM.rectToLines, List.mem_cons, List.not_mem_nil, or_false] at hl
    rcases hl with rfl | rfl | rfl | rfl <;> simp [coordsIter, rectCoords]
  | triangle a b c =>
    simp only [linesIter, Option.some.injEq] at h; subst h
    simp only [List.mem_cons, List.not_mem_nil, or_false] at hl
    rcases hl with rfl | rfl | rfl <;> simp [coordsIter]

example : ∀ l ∈ [((⟨0, 0⟩ : Pt), (⟨1, 2⟩ : Pt)), (⟨1, 2⟩, ⟨5, 0⟩)],
    l.1 ∈ coordsIter (.lineString [⟨0, 0⟩, ⟨1, 2⟩, ⟨5, 0⟩]) ∧
    l.2 ∈ coordsIter (.lineString [⟨0, 0⟩, ⟨1, 2⟩, ⟨5, 0⟩]) :=
  lines_endpoints _ _ rfl

/-! ## 3. `map_coords` maps the traversal (Rect and re-oriented Triangles excepted) -/

/-- Every ring of the polygon is closed (the C18 invariant `SM.Inv`). -/
def polyClosed (p : Poly) : Bool := SM.isClosed p.ext && p.ints.all SM.isClosed

mutual
/-- The members of `g` that `map_coords f` rebuilds *without* re-normalising:
* no `Rect` member (the property's own exception: `Rect::new` re-sorts the mapped corners);
* every `Triangle a b c` member keeps a non-negative cross product under `f`
  (otherwise `Triangle::new` reverses the corners — known finding K8);
* every polygon ring is closed (the C18 invariant — every `Polygon` built through the API
  satisfies it; `Polygon::new` re-closes the mapped rings, which is a no-op on closed rings). -/
def mapRegular (f : Pt → Pt) : Geom → Bool
  | .rect _ _ => false
  | .triangle a b c => decide (0 ≤ crossProd (f a) (f b) (f c))
  | .polygon p => polyClosed p
  | .multiPolygon ps => ps.all polyClosed
  | .collection gs => mapRegularList f gs
  | .point _ | .line _ _ | .lineString _ | .multiPoint _ | .multiLineString _ => true
def mapRegularList (f : Pt → Pt) : List Geom → Bool
  | [] => true
  | g :: gs => mapRegular f g && mapRegularList f gs
end

private theorem isClosed_map (f : Pt → Pt) (r : List Pt) (h : SM.isClosed r = true) :
    SM.isClosed (r.map f) = true := by
  simp only [SM.isClosed, decide_eq_true_eq] at h ⊢
  rw [List.head?_map, List.getLast?_map, h]

private theorem close_map (f : Pt → Pt) (r : List Pt) (h : SM.isClosed r = true) :
    SM.close (r.map f) = r.map f :=
  C18.close_of_closed _ (isClosed_map f r h)

private theorem map_close_rings (f : Pt → Pt) (rs : List (List Pt))
    (h : rs.all SM.isClosed = true) :
    (rs.map (·.map f)).map SM.close = rs.map (·.map f) := by
  rw [List.map_map]
  apply List.map_congr_left
  intro r hr
  exact close_map f r (List.all_eq_true.1 h r hr)

/-- [T] on a polygon with closed rings `map_coords` maps ring by ring and adds nothing. -/
theorem poly_map_closed (f : Pt → Pt) (p : Poly) (h : polyClosed p = true) :
    Poly.map f p = ⟨p.ext.map f, p.ints.map (·.map f)⟩ := by
  simp only [polyClosed, Bool.and_eq_true] at h
  simp only [Poly.map, Poly.mk', close_map f _ h.1, map_close_rings f _ h.2]

private theorem poly_map_coords (f : Pt → Pt) (p : Poly) (h : polyClosed p = true) :
    (Poly.map f p).coords = p.coords.map f := by
  rw [poly_map_closed f p h]
  simp [Poly.coords, List.map_flatten]

private theorem triangleNew_of_nonneg {a b c : Pt} (h : 0 ≤ crossProd a b c) :
    triangleNew a b c = (a, b, c) := by
  simp [triangleNew, not_lt.2 h]

mutual
/-- [T] the traversal of `map_coords f g` is `f` applied to the traversal of `g`, for every
geometry tree in which nothing is re-normalised (`mapRegular`).
Full statement without the hypothesis is false: `mapCoords_rect` (the property's exception)
and `map_triangle_flip_witness` (K8). -/
theorem map_traversal (f : Pt → Pt) :
    ∀ g : Geom, mapRegular f g = true → coordsIter (mapCoords f g) = (coordsIter g).map f
  | .point _, _ => rfl
  | .line _ _, _ => rfl
  | .lineString _, _ => rfl
  | .polygon p, h => by
      simp only [mapRegular] at h
      simp only [mapCoords, coordsIter, poly_map_coords f p h]
  | .multiPoint _, _ => rfl
  | .multiLineString ls, _ => by simp [mapCoords, coordsIter, List.map_flatten]
  | .multiPolygon ps, h => by
      simp only [mapRegular, List.all_eq_true] at h
      simp only [mapCoords, coordsIter, List.map_flatten, List.map_map]
      congr 1
      apply List.map_congr_left
      intro p hp
      exact poly_map_coords f p (h p hp)
  | .rect _ _, h => by simp [mapRegular] at h
  | .triangle a b c, h => by
      simp only [mapRegular, decide_eq_true_eq] at h
      simp [mapCoords, coordsIter, triangleNew_of_nonneg h]
  | .collection gs, h => by
      simp only [mapRegular] at h
      simp only [mapCoords, coordsIter]; exact map_traversal_list f gs h
theorem map_traversal_list (f : Pt → Pt) :
    ∀ gs : List Geom, mapRegularList f gs = true →
      coordsIterList (mapCoordsList f gs) = (coordsIterList gs).map f
  | [], _ => rfl
  | g :: gs, h => by
      simp only [mapRegularList, Bool.and_eq_true] at h
      simp only [mapCoordsList, coordsIterList, List.map_append, map_traversal f g h.1,
        map_traversal_list f gs h.2]
end

/-- Non-vacuity: a nested collection with a polygon with a hole, a triangle and an
orientation-preserving affine map (x,y) ↦ (2x+1, 3y-2). -/
example :
    let f : Pt → Pt := fun p => ⟨2 * p.x + 1, 3 * p.y - 2⟩
    let g : Geom := .collection [.polygon ⟨[⟨0, 0⟩, ⟨4, 0⟩, ⟨0, 4⟩, ⟨0, 0⟩], [[⟨1, 1⟩, ⟨2, 1⟩, ⟨1, 2⟩, ⟨1, 1⟩]]⟩,
      .collection [.triangle ⟨0, 0⟩ ⟨1, 0⟩ ⟨0, 1⟩, .multiPoint []]]
    coordsIter (mapCoords f g) = (coordsIter g).map f := by
  intro f g
  apply map_traversal
  simp [g, f, mapRegular, mapRegularList, polyClosed, SM.isClosed, crossProd]

/-- [T] the Rect exception of the property: `map_coords` on a `Rect` maps the two stored
corners and rebuilds through `Rect::new`, which re-sorts them component-wise. -/
theorem mapCoords_rect (f : Pt → Pt) (mn mx : Pt) :
    mapCoords f (.rect mn mx) = (let r := SM.rectNew (f mn) (f mx); .rect r.mn r.mx) := rfl

/-- `Rect::new` on corners that are already ordered returns them unchanged. -/
theorem rectNew_of_le {a b : Pt} (hx : a.x ≤ b.x) (hy : a.y ≤ b.y) : SM.rectNew a b = ⟨a, b⟩ := by
  obtain ⟨ax, ay⟩ := a; obtain ⟨bx, by'⟩ := b
  simp only at hx hy
  unfold SM.rectNew
  rcases lt_or_eq_of_le hx with h | h <;> rcases lt_or_eq_of_le hy with h' | h' <;> simp [h, h']

/-- [T] … and when `f` acts component-wise and keeps the corner order (`f mn ≤ f mx`, e.g. a
translation or a positive axis-aligned scaling) the Rect traversal is mapped like every other. -/
theorem map_traversal_rect_monotone (f : Pt → Pt) (mn mx : Pt)
    (hx : (f mn).x ≤ (f mx).x) (hy : (f mn).y ≤ (f mx).y)
    (hf : ∀ p q : Pt, f ⟨p.x, q.y⟩ = ⟨(f p).x, (f q).y⟩) :
    coordsIter (mapCoords f (.rect mn mx)) = (coordsIter (.rect mn mx)).map f := by
  simp only [mapCoords, rectNewPts, rectNew_of_le hx hy, coordsIter, rectCoords, List.map,
    hf mx mn, hf mn mx]

example : coordsIter (mapCoords (fun p => ⟨2 * p.x + 1, 3 * p.y - 2⟩) (.rect ⟨0, 0⟩ ⟨1, 2⟩)) =
    (coordsIter (.rect ⟨0, 0⟩ ⟨1, 2⟩)).map (fun p => ⟨2 * p.x + 1, 3 * p.y - 2⟩) :=
  map_traversal_rect_monotone _ _ _ (by norm_num) (by norm_num) (fun _ _ => rfl)

/-- [T] K8 witness: for the counter-clockwise triangle (1,1),(6,3),(3,5), under the axis swap
`f (x,y) = (y,x)` the traversal of `map_coords f` is the *reverse* of `f` applied to the
original traversal, so `map_traversal` cannot hold for triangles without `mapRegular`. -/
theorem map_triangle_flip_witness :
    let f : Pt → Pt := fun p => ⟨p.y, p.x⟩
    let t : Geom := .triangle ⟨1, 1⟩ ⟨6, 3⟩ ⟨3, 5⟩
    coordsIter (mapCoords f t) = ((coordsIter t).map f).reverse ∧
    coordsIter (mapCoords f t) ≠ (coordsIter t).map f := by
  intro f t
  have h : crossProd (f ⟨1, 1⟩) (f ⟨6, 3⟩) (f ⟨3, 5⟩) < 0 := by
    simp only [f, crossProd]; norm_num
  have e : coordsIter (mapCoords f t) = [f ⟨3, 5⟩, f ⟨6, 3⟩, f ⟨1, 1⟩] := by
    simp only [t, mapCoords, triangleNew, h, if_true, coordsIter]
  rw [e]
  constructor
  · simp [t, coordsIter]
  · simp only [t, coordsIter, List.map, f]
    intro hh
    have := congrArg (fun l => (l.headD ⟨0, 0⟩).x) hh
    norm_num at this

mutual
/-- Every polygon ring in the tree is closed (C18 invariant); no condition on Rect/Triangle. -/
def ringsClosed : Geom → Bool
  | .polygon p => polyClosed p
  | .multiPolygon ps => ps.all polyClosed
  | .collection gs => ringsClosedList gs
  | .point _ | .line _ _ | .lineString _ | .multiPoint _ | .multiLineString _
  | .rect _ _ | .triangle _ _ _ => true
def ringsClosedList : List Geom → Bool
  | [] => true
  | g :: gs => ringsClosed g && ringsClosedList gs
end

private theorem poly_map_count (f : Pt → Pt) (p : Poly) (h : polyClosed p = true) :
    (Poly.map f p).count = p.count := by
  rw [poly_count, poly_map_coords f p h, List.length_map, ← poly_count]

mutual
/-- [T] shape preservation: `map_coords` keeps the number of coordinates (Rect and Triangle
included: re-normalising permutes, never adds) whenever the polygon rings are closed. -/
theorem map_count_closed (f : Pt → Pt) :
    ∀ g : Geom, ringsClosed g = true → coordsCount (mapCoords f g) = coordsCount g
  | .point _, _ => rfl
  | .line _ _, _ => rfl
  | .lineString _, _ => by simp [mapCoords, coordsCount]
  | .polygon p, h => by
      simp only [ringsClosed] at h
      simp only [mapCoords, coordsCount, poly_map_count f p h]
  | .multiPoint _, _ => by simp [mapCoords, coordsCount]
  | .multiLineString ls, _ => by
      simp only [mapCoords, coordsCount, List.map_map]
      congr 1; apply List.map_congr_left; intro r _; simp
  | .multiPolygon ps, h => by
      simp only [ringsClosed, List.all_eq_true] at h
      simp only [mapCoords, coordsCount, List.map_map]
      congr 1; apply List.map_congr_left; intro p hp
      exact poly_map_count f p (h p hp)
  | .rect _ _, _ => rfl
  | .triangle _ _ _, _ => rfl
  | .collection gs, h => by
      simp only [ringsClosed] at h
      simp only [mapCoords, coordsCount]; exact map_count_closed_list f gs h
theorem map_count_closed_list (f : Pt → Pt) :
    ∀ gs : List Geom, ringsClosedList gs = true →
      coordsCountList (mapCoordsList f gs) = coordsCountList gs
  | [], _ => rfl
  | g :: gs, h => by
      simp only [ringsClosedList, Bool.and_eq_true] at h
      simp only [mapCoordsList, coordsCountList, map_count_closed f g h.1,
        map_count_closed_list f gs h.2]
end

/-- [T] `coords_count` is preserved by `map_coords` under the hypothesis of `map_traversal`. -/
theorem map_count (f : Pt → Pt) (g : Geom) (h : mapRegular f g = true) :
    coordsCount (mapCoords f g) = coordsCount g := by
  rw [count_eq_length, map_traversal f g h, List.length_map, ← count_eq_length]

example : coordsCount (mapCoords (fun p => ⟨p.y, p.x⟩)
      (.collection [.rect ⟨0, 0⟩ ⟨1, 2⟩, .polygon ⟨[⟨0, 0⟩, ⟨4, 0⟩, ⟨0, 4⟩, ⟨0, 0⟩], []⟩])) =
    coordsCount (.collection [.rect ⟨0, 0⟩ ⟨1, 2⟩, .polygon ⟨[⟨0, 0⟩, ⟨4, 0⟩, ⟨0, 4⟩, ⟨0, 0⟩], []⟩]) :=
  map_count_closed _ _ (by decide)

/-- [T] why the closed-ring hypothesis is needed: on an *open* ring (which no constructor
produces, but the model type admits) `Polygon::new` inside `map_coords` appends a coordinate. -/
theorem map_open_ring_witness :
    coordsCount (mapCoords id (.polygon ⟨[⟨0, 0⟩, ⟨1, 0⟩, ⟨0, 1⟩], []⟩)) = 4 := by
  decide

/-! ## 4. `try_map_coords`: all-`Ok` agrees with `map_coords`; the first failure wins -/

/-- [T] `collect::<Result<Vec<_>, _>>()` over a function that never fails is `map`. -/
theorem tryMapList_ok {α β ε} (f : α → Except ε β) (h : α → β) (hf : ∀ a, f a = .ok (h a)) :
    ∀ l : List α, tryMapList f l = .ok (l.map h)
  | [] => rfl
  | a :: as => by simp [tryMapList, hf a, tryMapList_ok f h hf as]

private theorem poly_tryMap_ok {ε} (f : Pt → Except ε Pt) (h : Pt → Pt) (hf : ∀ p, f p = .ok (h p))
    (p : Poly) : Poly.tryMap f p = .ok (Poly.map h p) := by
  have h2 := tryMapList_ok (tryMapList f) (fun r : List Pt => r.map h) (tryMapList_ok f h hf) p.ints
  simp only [Poly.tryMap, tryMapList_ok f h hf p.ext, h2, Poly.map]

mutual
/-- [T] if the fallible function never fails, `try_map_coords` returns `Ok` of exactly what
`map_coords` returns with the underlying total function — for every geometry, Rect and
Triangle re-normalisation included. -/
theorem tryMap_ok {ε} (f : Pt → Except ε Pt) (h : Pt → Pt) (hf : ∀ p, f p = .ok (h p)) :
    ∀ g : Geom, tryMapCoords f g = .ok (mapCoords h g)
  | .point p => by simp [tryMapCoords, mapCoords, hf]
  | .line a b => by simp [tryMapCoords, mapCoords, hf]
  | .lineString cs => by simp [tryMapCoords, mapCoords, tryMapList_ok f h hf]
  | .polygon p => by simp [tryMapCoords, mapCoords, poly_tryMap_ok f h hf]
  | .multiPoint ps => by simp [tryMapCoords, mapCoords, tryMapList_ok f h hf]
  | .multiLineString ls => by
      have h2 := tryMapList_ok (tryMapList f) (fun r : List Pt => r.map h) (tryMapList_ok f h hf) ls
      simp [tryMapCoords, mapCoords, h2]
  | .multiPolygon ps => by
      have h2 := tryMapList_ok (Poly.tryMap f) (Poly.map h) (poly_tryMap_ok f h hf) ps
      simp [tryMapCoords, mapCoords, h2]
  | .rect mn mx => by simp [tryMapCoords, mapCoords, hf]
  | .triangle a b c => by simp [tryMapCoords, mapCoords, hf]
  | .collection gs => by simp [tryMapCoords, mapCoords, tryMap_ok_list f h hf gs]
theorem tryMap_ok_list {ε} (f : Pt → Except ε Pt) (h : Pt → Pt) (hf : ∀ p, f p = .ok (h p)) :
    ∀ gs : List Geom, tryMapCoordsList f gs = .ok (mapCoordsList h gs)
  | [] => rfl
  | g :: gs => by
      simp [tryMapCoordsList, mapCoordsList, tryMap_ok f h hf g, tryMap_ok_list f h hf gs]
end

example : tryMapCoords (ε := String) (fun p => .ok ⟨p.y, p.x⟩)
      (.collection [.triangle ⟨1, 1⟩ ⟨6, 3⟩ ⟨3, 5⟩, .rect ⟨0, 0⟩ ⟨1, 2⟩]) =
    .ok (mapCoords (fun p => ⟨p.y, p.x⟩) (.collection [.triangle ⟨1, 1⟩ ⟨6, 3⟩ ⟨3, 5⟩, .rect ⟨0, 0⟩ ⟨1, 2⟩])) :=
  tryMap_ok _ _ (fun _ => rfl) _

/-- [T] `try_map` over a sequence fails with `e` exactly when some element fails with `e` and
every element before it succeeds: the first failure in iteration order wins. -/
theorem tryMapList_first_err {α β ε} (f : α → Except ε β) (e : ε) :
    ∀ l : List α, tryMapList f l = .error e ↔
      ∃ pre x post, l = pre ++ x :: post ∧ (∀ y ∈ pre, ∃ z, f y = .ok z) ∧ f x = .error e
  | [] => by simp [tryMapList]
  | a :: as => by
      have ih := tryMapList_first_err f e as
      constructor
      · intro h
        simp only [tryMapList] at h
        cases hfa : f a with
        | error e' =>
          simp only [hfa] at h
          cases h
          exact ⟨[], a, as, rfl, by simp, hfa⟩
        | ok b =>
          simp only [hfa] at h
          cases hr : tryMapList f as with
          | ok bs => simp [hr] at h
          | error e' =>
            simp only [hr] at h
            cases h
            obtain ⟨pre, x, post, rfl, hpre, hx⟩ := ih.1 hr
            refine ⟨a :: pre, x, post, rfl, ?_, hx⟩
            intro y hy
            rcases List.mem_cons.1 hy with rfl | hy
            · exact ⟨b, hfa⟩
            · exact hpre y hy
      · rintro ⟨pre, x, post, hl, hpre, hx⟩
        cases pre with
        | nil =>
          simp only [List.nil_append, List.cons.injEq] at hl
          obtain ⟨rfl, rfl⟩ := hl
          simp [tryMapList, hx]
        | cons p pre =>
          simp only [List.cons_append, List.cons.injEq] at hl
          obtain ⟨rfl, rfl⟩ := hl
          obtain ⟨z, hz⟩ := hpre a (List.mem_cons_self ..)
          have : tryMapList f (pre ++ x :: post) = .error e :=
            ih.2 ⟨pre, x, post, rfl, fun y hy => hpre y (List.mem_cons_of_mem _ hy), hx⟩
          simp [tryMapList, hz, this]

/-- [T] on success nothing failed and the result has the same length. -/
theorem tryMapList_ok_iff {α β ε} (f : α → Except ε β) :
    ∀ (l : List α) (r : List β), tryMapList f l = .ok r ↔ List.Forall₂ (fun a b => f a = .ok b) l r
  | [], r => by
      simp only [tryMapList, Except.ok.injEq]
      constructor
      · rintro rfl; exact .nil
      · intro h; cases h; rfl
  | a :: as, r => by
      simp only [tryMapList]
      cases hfa : f a with
      | error e' =>
        simp only [reduceCtorEq, false_iff]
        intro h; cases h with | cons h1 _ => simp [hfa] at h1
      | ok b =>
        cases hr : tryMapList f as with
        | error e' =>
          simp only [reduceCtorEq, false_iff]
          intro h
          cases h with
          | cons h1 h2 =>
            have := (tryMapList_ok_iff f as _).2 h2
            simp [hr] at this
        | ok bs =>
          simp only [Except.ok.injEq]
          constructor
          · rintro rfl
            exact .cons hfa ((tryMapList_ok_iff f as bs).1 hr)
          · intro h
            cases h with
            | cons h1 h2 =>
              have := (tryMapList_ok_iff f as _).2 h2
              rw [hr] at this
              rw [hfa] at h1
              cases this; cases h1; rfl

mutual
/-- The coordinates that `try_map_coords` feeds to the function, in order: the traversal, except
for `Rect`, which feeds its two stored corners `min`, `max`. -/
def fed : Geom → List Pt
  | .collection gs => fedList gs
  | .rect mn mx => [mn, mx]
  | .point p => [p]
  | .line a b => [a, b]
  | .lineString cs => cs
  | .polygon p => p.coords
  | .multiPoint ps => ps
  | .multiLineString ls => ls.flatten
  | .multiPolygon ps => (ps.map Poly.coords).flatten
  | .triangle a b c => [a, b, c]
def fedList : List Geom → List Pt
  | [] => []
  | g :: gs => fed g ++ fedList gs
end

private theorem tryMapList_err_mem {α β ε} {f : α → Except ε β} {e : ε} {l : List α}
    (h : tryMapList f l = .error e) : ∃ x ∈ l, f x = .error e := by
  obtain ⟨pre, x, post, rfl, _, hx⟩ := (tryMapList_first_err f e l).1 h
  exact ⟨x, by simp, hx⟩

private theorem tryMapRings_err_mem {ε} {f : Pt → Except ε Pt} {e : ε} {ls : List (List Pt)}
    (h : tryMapList (tryMapList f) ls = .error e) : ∃ x ∈ ls.flatten, f x = .error e := by
  obtain ⟨r, hr, hx⟩ := tryMapList_err_mem h
  obtain ⟨x, hx', hfx⟩ := tryMapList_err_mem hx
  exact ⟨x, List.mem_flatten.2 ⟨r, hr, hx'⟩, hfx⟩

private theorem poly_tryMap_err_mem {ε} {f : Pt → Except ε Pt} {e : ε} {p : Poly}
    (h : Poly.tryMap f p = .error e) : ∃ x ∈ p.coords, f x = .error e := by
  simp only [Poly.tryMap] at h
  cases h1 : tryMapList f p.ext with
  | error e' =>
    simp only [h1] at h; cases h
    obtain ⟨x, hx, hfx⟩ := tryMapList_err_mem h1
    exact ⟨x, by simp [Poly.coords, hx], hfx⟩
  | ok e' =>
    simp only [h1] at h
    cases h2 : tryMapList (tryMapList f) p.ints with
    | error e'' =>
      simp only [h2] at h; cases h
      obtain ⟨x, hx, hfx⟩ := tryMapRings_err_mem h2
      exact ⟨x, by simp only [Poly.coords, List.mem_append]; exact Or.inr hx, hfx⟩
    | ok is' => simp [h2] at h

mutual
/-- [T] an `Err` of `try_map_coords` is the `Err` the function returned on one of the
coordinates it was fed (no error is invented, none is replaced). -/
theorem tryMap_err_mem {ε} (f : Pt → Except ε Pt) (e : ε) :
    ∀ g : Geom, tryMapCoords f g = .error e → ∃ p ∈ fed g, f p = .error e
  | .point p, h => by
      simp only [tryMapCoords] at h
      cases hp : f p with
      | error e' => simp only [hp] at h; cases h; exact ⟨p, by simp [fed], hp⟩
      | ok q => simp [hp] at h
  | .line a b, h => by
      simp only [tryMapCoords] at h
      cases ha : f a with
      | error e' => simp only [ha] at h; cases h; exact ⟨a, by simp [fed], ha⟩
      | ok a' =>
        simp only [ha] at h
        cases hb : f b with
        | error e' => simp only [hb] at h; cases h; exact ⟨b, by simp [fed], hb⟩
        | ok b' => simp [hb] at h
  | .lineString cs, h => by
      simp only [tryMapCoords] at h
      cases hc : tryMapList f cs with
      | error e' => simp only [hc] at h; cases h; simpa [fed] using tryMapList_err_mem hc
      | ok r => simp [hc] at h
  | .polygon p, h => by
      simp only [tryMapCoords] at h
      cases hc : Poly.tryMap f p with
      | error e' => simp only [hc] at h; cases h; simpa [fed] using poly_tryMap_err_mem hc
      | ok r => simp [hc] at h
  | .multiPoint cs, h => by
      simp only [tryMapCoords] at h
      cases hc : tryMapList f cs with
      | error e' => simp only [hc] at h; cases h; simpa [fed] using tryMapList_err_mem hc
      | ok r => simp [hc] at h
  | .multiLineString ls, h => by
      simp only [tryMapCoords] at h
      cases hc : tryMapList (tryMapList f) ls with
      | error e' =>
        simp only [hc] at h; cases h
        simpa only [fed] using tryMapRings_err_mem hc
      | ok r => simp [hc] at h
  | .multiPolygon ps, h => by
      simp only [tryMapCoords] at h
      cases hc : tryMapList (Poly.tryMap f) ps with
      | error e' =>
        simp only [hc] at h; cases h
        obtain ⟨p, hp, hpe⟩ := tryMapList_err_mem hc
        obtain ⟨x, hx, hfx⟩ := poly_tryMap_err_mem hpe
        exact ⟨x, by simp only [fed, List.mem_flatten, List.mem_map]; exact ⟨_, ⟨p, hp, rfl⟩, hx⟩, hfx⟩
      | ok r => simp [hc] at h
  | .rect mn mx, h => by
      simp only [tryMapCoords] at h
      cases ha : f mn with
      | error e' => simp only [ha] at h; cases h; exact ⟨mn, by simp [fed], ha⟩
      | ok a' =>
        simp only [ha] at h
        cases hb : f mx with
        | error e' => simp only [hb] at h; cases h; exact ⟨mx, by simp [fed], hb⟩
        | ok b' => simp [hb] at h
  | .triangle a b c, h => by
      simp only [tryMapCoords] at h
      cases ha : f a with
      | error e' => simp only [ha] at h; cases h; exact ⟨a, by simp [fed], ha⟩
      | ok a' =>
        simp only [ha] at h
        cases hb : f b with
        | error e' => simp only [hb] at h; cases h; exact ⟨b, by simp [fed], hb⟩
        | ok b' =>
          simp only [hb] at h
          cases hc : f c with
          | error e' => simp only [hc] at h; cases h; exact ⟨c, by simp [fed], hc⟩
          | ok c' => simp [hc] at h
  | .collection gs, h => by
      simp only [tryMapCoords] at h
      cases hc : tryMapCoordsList f gs with
      | error e' =>
        simp only [hc] at h; cases h
        simpa only [fed] using tryMap_err_mem_list f e gs hc
      | ok r => simp [hc] at h
theorem tryMap_err_mem_list {ε} (f : Pt → Except ε Pt) (e : ε) :
    ∀ gs : List Geom, tryMapCoordsList f gs = .error e → ∃ p ∈ fedList gs, f p = .error e
  | [], h => by simp [tryMapCoordsList] at h
  | g :: gs, h => by
      simp only [tryMapCoordsList] at h
      cases hg : tryMapCoords f g with
      | error e' =>
        simp only [hg] at h; cases h
        obtain ⟨p, hp, hfp⟩ := tryMap_err_mem f e g hg
        exact ⟨p, by simp [fedList, hp], hfp⟩
      | ok g' =>
        simp only [hg] at h
        cases hgs : tryMapCoordsList f gs with
        | error e' =>
          simp only [hgs] at h; cases h
          obtain ⟨p, hp, hfp⟩ := tryMap_err_mem_list f e gs hgs
          exact ⟨p, by simp [fedList, hp], hfp⟩
        | ok gs' => simp [hgs] at h
end

/-- Non-vacuity: a function failing on negative x; the first failing coordinate in traversal
order, (-1, 0), determines the error, not the later (-2, 5). -/
example : tryMapCoords (fun p => if p.x < 0 then .error p else .ok p)
      (.collection [.point ⟨1, 1⟩, .lineString [⟨2, 0⟩, ⟨-1, 0⟩, ⟨-2, 5⟩]]) = .error ⟨-1, 0⟩ := by
  norm_num [tryMapCoords, tryMapCoordsList, tryMapList]

/-! ### the first failure in traversal order wins, on the whole tree -/

/-- The error of a `Result`, if any. -/
def errOf {ε α} : Except ε α → Option ε
  | .error e => some e
  | .ok _ => none

private theorem errOf_tryMapList_cons {α β ε} (f : α → Except ε β) (a : α) (as : List α) :
    errOf (tryMapList f (a :: as)) = (errOf (f a)).or (errOf (tryMapList f as)) := by
  simp only [tryMapList]
  cases f a <;> cases tryMapList f as <;> simp [errOf]

private theorem errOf_tryMapList_append {α β ε} (f : α → Except ε β) :
    ∀ l1 l2 : List α,
      errOf (tryMapList f (l1 ++ l2)) = (errOf (tryMapList f l1)).or (errOf (tryMapList f l2))
  | [], l2 => by simp [tryMapList, errOf]
  | a :: l1, l2 => by
      rw [List.cons_append, errOf_tryMapList_cons, errOf_tryMapList_cons,
        errOf_tryMapList_append f l1 l2, Option.or_assoc]

private theorem errOf_tryMapRings {ε} (f : Pt → Except ε Pt) :
    ∀ ls : List (List Pt), errOf (tryMapList (tryMapList f) ls) = errOf (tryMapList f ls.flatten)
  | [] => rfl
  | r :: ls => by
      rw [errOf_tryMapList_cons, List.flatten_cons, errOf_tryMapList_append, errOf_tryMapRings f ls]

private theorem errOf_poly_tryMap {ε} (f : Pt → Except ε Pt) (p : Poly) :
    errOf (Poly.tryMap f p) = errOf (tryMapList f p.coords) := by
  rw [Poly.coords, errOf_tryMapList_append, ← errOf_tryMapRings]
  simp only [Poly.tryMap]
  cases tryMapList f p.ext <;> cases tryMapList (tryMapList f) p.ints <;> simp [errOf]

private theorem errOf_tryMapPolys {ε} (f : Pt → Except ε Pt) :
    ∀ ps : List Poly,
      errOf (tryMapList (Poly.tryMap f) ps) = errOf (tryMapList f (ps.map Poly.coords).flatten)
  | [] => rfl
  | p :: ps => by
      rw [errOf_tryMapList_cons, List.map_cons, List.flatten_cons, errOf_tryMapList_append,
        errOf_tryMapPolys f ps, errOf_poly_tryMap]

mutual
/-- [T] `try_map_coords` fails exactly like the plain left-to-right `try_map` over the
coordinates it feeds (`fed g`: the traversal; the two stored corners for `Rect`): same error,
or no error — for every geometry and nesting. -/
theorem tryMap_err_eq {ε} (f : Pt → Except ε Pt) :
    ∀ g : Geom, errOf (tryMapCoords f g) = errOf (tryMapList f (fed g))
  | .point p => by
      simp only [tryMapCoords, fed, tryMapList]
      cases f p <;> simp [errOf]
  | .line a b => by
      simp only [tryMapCoords, fed, tryMapList]
      cases f a <;> cases f b <;> simp [errOf]
  | .lineString cs => by
      simp only [tryMapCoords, fed]; cases tryMapList f cs <;> rfl
  | .polygon p => by
      simp only [tryMapCoords, fed]; rw [← errOf_poly_tryMap]; cases Poly.tryMap f p <;> rfl
  | .multiPoint ps => by
      simp only [tryMapCoords, fed]; cases tryMapList f ps <;> rfl
  | .multiLineString ls => by
      simp only [tryMapCoords, fed]; rw [← errOf_tryMapRings]
      cases tryMapList (tryMapList f) ls <;> rfl
  | .multiPolygon ps => by
      simp only [tryMapCoords, fed]; rw [← errOf_tryMapPolys]
      cases tryMapList (Poly.tryMap f) ps <;> rfl
  | .rect mn mx => by
      simp only [tryMapCoords, fed, tryMapList]
      cases f mn <;> cases f mx <;> simp [errOf]
  | .triangle a b c => by
      simp only [tryMapCoords, fed, tryMapList]
      cases f a <;> cases f b <;> cases f c <;> simp [errOf]
  | .collection gs => by
      simp only [tryMapCoords, fed]; rw [← tryMap_err_eq_list f gs]
      cases tryMapCoordsList f gs <;> rfl
theorem tryMap_err_eq_list {ε} (f : Pt → Except ε Pt) :
    ∀ gs : List Geom, errOf (tryMapCoordsList f gs) = errOf (tryMapList f (fedList gs))
  | [] => rfl
  | g :: gs => by
      rw [fedList, errOf_tryMapList_append, ← tryMap_err_eq f g, ← tryMap_err_eq_list f gs]
      simp only [tryMapCoordsList]
      cases tryMapCoords f g <;> cases tryMapCoordsList f gs <;> simp [errOf]
end

/-- [T] the first failure in traversal order wins: `try_map_coords f g` is `Err e` exactly when
some fed coordinate fails with `e` and every coordinate fed before it succeeds. -/
theorem tryMap_first_err {ε} (f : Pt → Except ε Pt) (g : Geom) (e : ε) :
    tryMapCoords f g = .error e ↔
      ∃ pre x post, fed g = pre ++ x :: post ∧ (∀ y ∈ pre, ∃ z, f y = .ok z) ∧ f x = .error e := by
  rw [← tryMapList_first_err]
  have := tryMap_err_eq f g
  cases h1 : tryMapCoords f g <;> cases h2 : tryMapList f (fed g) <;>
    simp [h1, h2, errOf] at this ⊢
  rw [this]

example : tryMapCoords (fun p => if p.x < 0 then .error p else .ok p)
      (.collection [.point ⟨1, 1⟩, .lineString [⟨2, 0⟩, ⟨-1, 0⟩, ⟨-2, 5⟩]]) = .error ⟨-1, 0⟩ :=
  (tryMap_first_err _ _ _).2 ⟨[⟨1, 1⟩, ⟨2, 0⟩], ⟨-1, 0⟩, [⟨-2, 5⟩], rfl,
    by intro y hy; simp at hy; rcases hy with rfl | rfl <;> norm_num,
    by norm_num⟩

/-! ## 5. `bounding_rect` is the component-wise minimum and maximum of the (exterior) traversal -/

/-- `lo` / `hi` are the minimum / maximum of the non-empty list `vs`: they bound every member
and are members. -/
def IsMinMax (vs : List Rat) (lo hi : Rat) : Prop :=
  (∀ v ∈ vs, lo ≤ v ∧ v ≤ hi) ∧ lo ∈ vs ∧ hi ∈ vs

/-- `(mn, mx)` is the component-wise minimum and maximum of the coordinates `cs`. -/
def IsBBox (cs : List Pt) (mn mx : Pt) : Prop :=
  IsMinMax (cs.map Pt.x) mn.x mx.x ∧ IsMinMax (cs.map Pt.y) mn.y mx.y

theorem IsMinMax.le {vs lo hi} (h : IsMinMax vs lo hi) : lo ≤ hi := (h.1 lo h.2.1).2

theorem IsMinMax.ne_nil {vs lo hi} (h : IsMinMax vs lo hi) : vs ≠ [] :=
  List.ne_nil_of_mem h.2.1

/-- [T] minimum and maximum are unique: `IsMinMax` determines `lo` and `hi`. -/
theorem IsMinMax.unique {vs lo hi lo' hi'} (h : IsMinMax vs lo hi) (h' : IsMinMax vs lo' hi') :
    lo = lo' ∧ hi = hi' :=
  ⟨le_antisymm (h.1 lo' h'.2.1).1 (h'.1 lo h.2.1).1, le_antisymm (h'.1 hi h.2.2).2 (h.1 hi' h'.2.2).2⟩

/-- [T] `IsBBox` spelled out on coordinates: every coordinate is inside, every bound is attained. -/
theorem isBBox_iff (cs : List Pt) (mn mx : Pt) :
    IsBBox cs mn mx ↔
      (∀ p ∈ cs, mn.x ≤ p.x ∧ p.x ≤ mx.x ∧ mn.y ≤ p.y ∧ p.y ≤ mx.y) ∧
      (∃ p ∈ cs, p.x = mn.x) ∧ (∃ p ∈ cs, p.x = mx.x) ∧
      (∃ p ∈ cs, p.y = mn.y) ∧ (∃ p ∈ cs, p.y = mx.y) := by
  simp only [IsBBox, IsMinMax, List.mem_map, forall_exists_index, and_imp,
    forall_apply_eq_imp_iff₂]
  constructor
  · rintro ⟨⟨hx, hx1, hx2⟩, ⟨hy, hy1, hy2⟩⟩
    exact ⟨fun p hp => ⟨(hx p hp).1, (hx p hp).2, (hy p hp).1, (hy p hp).2⟩, hx1, hx2, hy1, hy2⟩
  · rintro ⟨h, hx1, hx2, hy1, hy2⟩
    exact ⟨⟨fun p hp => ⟨(h p hp).1, (h p hp).2.1⟩, hx1, hx2⟩,
      ⟨fun p hp => ⟨(h p hp).2.2.1, (h p hp).2.2.2⟩, hy1, hy2⟩⟩

/-! ### the running `get_min_max` fold -/

private def mmStep (acc : Rat × Rat) (v : Rat) : Rat × Rat := getMinMax v acc.1 acc.2

private theorem getMinMax_spec (v mn mx : Rat) (h : mn ≤ mx) :
    (getMinMax v mn mx).1 ≤ (getMinMax v mn mx).2 ∧
    (getMinMax v mn mx).1 ≤ mn ∧ mx ≤ (getMinMax v mn mx).2 ∧
    (getMinMax v mn mx).1 ≤ v ∧ v ≤ (getMinMax v mn mx).2 ∧
    ((getMinMax v mn mx).1 = mn ∨ (getMinMax v mn mx).1 = v) ∧
    ((getMinMax v mn mx).2 = mx ∨ (getMinMax v mn mx).2 = v) := by
  by_cases h1 : v > mx
  · have e : getMinMax v mn mx = (mn, v) := by simp [getMinMax, h1]
    rw [e]
    exact ⟨le_of_lt (lt_of_le_of_lt h h1), le_refl _, le_of_lt h1, le_of_lt (lt_of_le_of_lt h h1),
      le_refl _, Or.inl rfl, Or.inr rfl⟩
  · by_cases h2 : v < mn
    · have e : getMinMax v mn mx = (v, mx) := by simp [getMinMax, h1, h2]
      rw [e]
      exact ⟨le_trans (le_of_lt h2) h, le_of_lt h2, le_refl _, le_refl _, le_trans (le_of_lt h2) h,
        Or.inr rfl, Or.inl rfl⟩
    · have e : getMinMax v mn mx = (mn, mx) := by simp [getMinMax, h1, h2]
      rw [e]
      exact ⟨h, le_refl _, le_refl _, not_lt.1 h2, not_lt.1 h1, Or.inl rfl, Or.inl rfl⟩

/-- Invariant of the fold (this is where `min ≤ max` is needed: the `else if` skips the
`p < min` test after `p > max`, which is sound only because `min ≤ max`). -/
private theorem mmFold_spec : ∀ (vs : List Rat) (acc : Rat × Rat), acc.1 ≤ acc.2 →
    (vs.foldl mmStep acc).1 ≤ (vs.foldl mmStep acc).2 ∧
    (vs.foldl mmStep acc).1 ≤ acc.1 ∧ acc.2 ≤ (vs.foldl mmStep acc).2 ∧
    (∀ v ∈ vs, (vs.foldl mmStep acc).1 ≤ v ∧ v ≤ (vs.foldl mmStep acc).2) ∧
    ((vs.foldl mmStep acc).1 = acc.1 ∨ (vs.foldl mmStep acc).1 ∈ vs) ∧
    ((vs.foldl mmStep acc).2 = acc.2 ∨ (vs.foldl mmStep acc).2 ∈ vs)
  | [], acc, h => by simp [h]
  | v :: vs, acc, h => by
      obtain ⟨s1, s2, s3, s4, s5, s6, s7⟩ := getMinMax_spec v acc.1 acc.2 h
      obtain ⟨i1, i2, i3, i4, i5, i6⟩ := mmFold_spec vs (mmStep acc v) s1
      simp only [List.foldl_cons, List.mem_cons, forall_eq_or_imp]
      simp only [mmStep] at i2 i3 i5 i6
      refine ⟨i1, le_trans i2 s2, le_trans s3 i3, ⟨⟨le_trans i2 s4, le_trans s5 i3⟩, i4⟩, ?_, ?_⟩
      · rcases i5 with e | m
        · rcases s6 with e' | e'
          · exact Or.inl (e.trans e')
          · exact Or.inr (Or.inl (e.trans e'))
        · exact Or.inr (Or.inr m)
      · rcases i6 with e | m
        · rcases s7 with e' | e'
          · exact Or.inl (e.trans e')
          · exact Or.inr (Or.inl (e.trans e'))
        · exact Or.inr (Or.inr m)

private theorem mmFold_isMinMax (v0 : Rat) (vs : List Rat) :
    IsMinMax (v0 :: vs) (vs.foldl mmStep (v0, v0)).1 (vs.foldl mmStep (v0, v0)).2 := by
  obtain ⟨_, i2, i3, i4, i5, i6⟩ := mmFold_spec vs (v0, v0) (le_refl _)
  refine ⟨?_, ?_, ?_⟩
  · intro v hv
    rcases List.mem_cons.1 hv with rfl | hv
    · exact ⟨i2, i3⟩
    · exact i4 v hv
  · rcases i5 with e | m
    · rw [e]; exact List.mem_cons_self ..
    · exact List.mem_cons_of_mem _ m
  · rcases i6 with e | m
    · rw [e]; exact List.mem_cons_self ..
    · exact List.mem_cons_of_mem _ m

private theorem bbFold_split (rest : List Pt) : ∀ (a b : Rat × Rat),
    rest.foldl (fun (acc : (Rat × Rat) × (Rat × Rat)) q =>
      (getMinMax q.x acc.1.1 acc.1.2, getMinMax q.y acc.2.1 acc.2.2)) (a, b)
    = ((rest.map Pt.x).foldl mmStep a, (rest.map Pt.y).foldl mmStep b) := by
  induction rest with
  | nil => intro a b; rfl
  | cons q rest ih => intro a b; simp only [List.foldl_cons, List.map_cons, ih]; rfl

private theorem rectNewPts_of_le {a b : Pt} (hx : a.x ≤ b.x) (hy : a.y ≤ b.y) :
    rectNewPts a b = (a, b) := by
  simp [rectNewPts, rectNew_of_le hx hy]

private theorem rectNewPts_mk {ax ay bx by' : Rat} (hx : ax ≤ bx) (hy : ay ≤ by') :
    rectNewPts ⟨ax, ay⟩ ⟨bx, by'⟩ = (⟨ax, ay⟩, ⟨bx, by'⟩) :=
  rectNewPts_of_le (a := ⟨ax, ay⟩) (b := ⟨bx, by'⟩) hx hy

/-- Closed form of `get_bounding_rect` on a non-empty slice: the final `Rect::new` is the
identity because the fold keeps `min ≤ max`. -/
private theorem getBoundingRect_cons (p : Pt) (rest : List Pt) :
    getBoundingRect (p :: rest) =
      some (⟨((rest.map Pt.x).foldl mmStep (p.x, p.x)).1, ((rest.map Pt.y).foldl mmStep (p.y, p.y)).1⟩,
            ⟨((rest.map Pt.x).foldl mmStep (p.x, p.x)).2, ((rest.map Pt.y).foldl mmStep (p.y, p.y)).2⟩) := by
  have hx := (mmFold_isMinMax p.x (rest.map Pt.x)).le
  have hy := (mmFold_isMinMax p.y (rest.map Pt.y)).le
  simp only [getBoundingRect, bbFold_split]
  rw [rectNewPts_mk hx hy]

/-- [T] `get_bounding_rect` is `None` exactly on the empty slice. -/
theorem getBoundingRect_none_iff (cs : List Pt) : getBoundingRect cs = none ↔ cs = [] := by
  cases cs with
  | nil => simp [getBoundingRect]
  | cons p rest => simp [getBoundingRect_cons]

/-- The specification of an optional bounding box of the coordinates `cs`. -/
def BBoxSpec (o : Option (Pt × Pt)) (cs : List Pt) : Prop :=
  match o with
  | none => cs = []
  | some r => IsBBox cs r.1 r.2

private theorem getBoundingRect_spec (cs : List Pt) : BBoxSpec (getBoundingRect cs) cs := by
  cases cs with
  | nil => simp [getBoundingRect, BBoxSpec]
  | cons p rest =>
    rw [getBoundingRect_cons]
    exact ⟨mmFold_isMinMax p.x (rest.map Pt.x), mmFold_isMinMax p.y (rest.map Pt.y)⟩

/-- [T] `get_bounding_rect` returns the component-wise minimum and maximum: every coordinate is
inside, and each of the four bounds is attained by some coordinate. -/
theorem getBoundingRect_bounds (cs : List Pt) (mn mx : Pt) (h : getBoundingRect cs = some (mn, mx)) :
    (∀ p ∈ cs, mn.x ≤ p.x ∧ p.x ≤ mx.x ∧ mn.y ≤ p.y ∧ p.y ≤ mx.y) ∧
    (∃ p ∈ cs, p.x = mn.x) ∧ (∃ p ∈ cs, p.x = mx.x) ∧
    (∃ p ∈ cs, p.y = mn.y) ∧ (∃ p ∈ cs, p.y = mx.y) := by
  have := getBoundingRect_spec cs
  rw [h] at this
  exact (isBBox_iff cs mn mx).1 this

example : getBoundingRect [⟨3, 1⟩, ⟨-2, 5⟩, ⟨0, -7⟩, ⟨3, 5⟩] = some (⟨-2, -7⟩, ⟨3, 5⟩) := by
  simp only [getBoundingRect, List.foldl, getMinMax, rectNewPts, SM.rectNew]
  norm_num

/-! ### lifting through the geometry tree -/

private theorem partialMin_spec (a b : Rat) :
    partialMin a b ≤ a ∧ partialMin a b ≤ b ∧ (partialMin a b = a ∨ partialMin a b = b) := by
  by_cases h : a < b
  · have e : partialMin a b = a := by simp [partialMin, h]
    rw [e]; exact ⟨le_refl _, le_of_lt h, Or.inl rfl⟩
  · have e : partialMin a b = b := by simp [partialMin, h]
    rw [e]; exact ⟨not_lt.1 h, le_refl _, Or.inr rfl⟩

private theorem partialMax_spec (a b : Rat) :
    a ≤ partialMax a b ∧ b ≤ partialMax a b ∧ (partialMax a b = a ∨ partialMax a b = b) := by
  by_cases h : a > b
  · have e : partialMax a b = a := by simp [partialMax, h]
    rw [e]; exact ⟨le_refl _, le_of_lt h, Or.inl rfl⟩
  · have e : partialMax a b = b := by simp [partialMax, h]
    rw [e]; exact ⟨not_lt.1 h, le_refl _, Or.inr rfl⟩

private theorem isMinMax_append {l1 l2 : List Rat} {a1 b1 a2 b2 : Rat}
    (h1 : IsMinMax l1 a1 b1) (h2 : IsMinMax l2 a2 b2) :
    IsMinMax (l1 ++ l2) (partialMin a1 a2) (partialMax b1 b2) := by
  obtain ⟨m1, m2, m3⟩ := partialMin_spec a1 a2
  obtain ⟨x1, x2, x3⟩ := partialMax_spec b1 b2
  refine ⟨?_, ?_, ?_⟩
  · intro v hv
    rcases List.mem_append.1 hv with hv | hv
    · exact ⟨le_trans m1 (h1.1 v hv).1, le_trans (h1.1 v hv).2 x1⟩
    · exact ⟨le_trans m2 (h2.1 v hv).1, le_trans (h2.1 v hv).2 x2⟩
  · rcases m3 with e | e <;> rw [e]
    · exact List.mem_append_left _ h1.2.1
    · exact List.mem_append_right _ h2.2.1
  · rcases x3 with e | e <;> rw [e]
    · exact List.mem_append_left _ h1.2.2
    · exact List.mem_append_right _ h2.2.2

/-- [T] `bounding_rect_merge` of the boxes of two coordinate sets is the box of their union. -/
theorem bboxMerge_spec {l1 l2 : List Pt} {r1 r2 : Pt × Pt}
    (h1 : IsBBox l1 r1.1 r1.2) (h2 : IsBBox l2 r2.1 r2.2) :
    IsBBox (l1 ++ l2) (bboxMerge r1 r2).1 (bboxMerge r1 r2).2 := by
  have hx := isMinMax_append h1.1 h2.1
  have hy := isMinMax_append h1.2 h2.2
  unfold bboxMerge
  rw [rectNewPts_mk hx.le hy.le]
  simp only [IsBBox, List.map_append]
  exact ⟨hx, hy⟩

private theorem bboxFoldStep_spec {l1 l2 : List Pt} {a o : Option (Pt × Pt)}
    (h1 : BBoxSpec a l1) (h2 : BBoxSpec o l2) : BBoxSpec (bboxFoldStep a o) (l1 ++ l2) := by
  cases a with
  | none =>
    cases o with
    | none => simp only [BBoxSpec] at h1 h2 ⊢; simp [bboxFoldStep, h1, h2]
    | some r => simp only [BBoxSpec] at h1 h2 ⊢; simpa [bboxFoldStep, h1] using h2
  | some r1 =>
    cases o with
    | none => simp only [BBoxSpec] at h1 h2 ⊢; simpa [bboxFoldStep, h2] using h1
    | some r2 => exact bboxMerge_spec h1 h2

mutual
/-- Every `Rect` member satisfies `min ≤ max` (the C18 invariant `rect_new_le`: every `Rect`
built through the API satisfies it; the model type admits others). -/
def rectsValid : Geom → Bool
  | .rect mn mx => decide (mn.x ≤ mx.x) && decide (mn.y ≤ mx.y)
  | .collection gs => rectsValidList gs
  | .point _ | .line _ _ | .lineString _ | .polygon _ | .multiPoint _ | .multiLineString _
  | .multiPolygon _ | .triangle _ _ _ => true
def rectsValidList : List Geom → Bool
  | [] => true
  | g :: gs => rectsValid g && rectsValidList gs
end

private theorem isMinMax_pair (u v : Rat) :
    IsMinMax [u, v] (if u < v then (u, v) else (v, u)).1 (if u < v then (u, v) else (v, u)).2 := by
  by_cases h : u < v
  · rw [if_pos h]
    refine ⟨?_, by simp, by simp⟩
    intro w hw
    simp only [List.mem_cons, List.not_mem_nil, or_false] at hw
    rcases hw with rfl | rfl
    · exact ⟨le_refl _, le_of_lt h⟩
    · exact ⟨le_of_lt h, le_refl _⟩
  · rw [if_neg h]
    refine ⟨?_, by simp, by simp⟩
    intro w hw
    simp only [List.mem_cons, List.not_mem_nil, or_false] at hw
    rcases hw with rfl | rfl
    · exact ⟨not_lt.1 h, le_refl _⟩
    · exact ⟨le_refl _, not_lt.1 h⟩

private theorem rectNewPts_isBBox (a b : Pt) : IsBBox [a, b] (rectNewPts a b).1 (rectNewPts a b).2 := by
  have hx := isMinMax_pair a.x b.x
  have hy := isMinMax_pair a.y b.y
  simp only [IsBBox, rectNewPts, SM.rectNew, List.map]
  exact ⟨hx, hy⟩

private theorem rect_isBBox (mn mx : Pt) (hx : mn.x ≤ mx.x) (hy : mn.y ≤ mx.y) :
    IsBBox (rectCoords mn mx) mn mx := by
  simp only [IsBBox, rectCoords, List.map]
  refine ⟨⟨?_, by simp, by simp⟩, ⟨?_, by simp, by simp⟩⟩
  · intro w hw
    simp only [List.mem_cons, List.not_mem_nil, or_false] at hw
    rcases hw with rfl | rfl | rfl | rfl
    exacts [⟨hx, le_refl _⟩, ⟨hx, le_refl _⟩, ⟨le_refl _, hx⟩, ⟨le_refl _, hx⟩]
  · intro w hw
    simp only [List.mem_cons, List.not_mem_nil, or_false] at hw
    rcases hw with rfl | rfl | rfl | rfl
    exacts [⟨le_refl _, hy⟩, ⟨hy, le_refl _⟩, ⟨hy, le_refl _⟩, ⟨le_refl _, hy⟩]

mutual
/-- [T] the bounding box the code computes is `None` when the exterior traversal is empty and
otherwise the component-wise min/max of the exterior traversal — every geometry, every nesting
(collections merge with `bounding_rect_merge`, skipping empty members). -/
theorem bbox_spec : ∀ g : Geom, rectsValid g = true → BBoxSpec (boundingRect g) (exteriorCoords g)
  | .point p, _ => by
      have := rectNewPts_isBBox p p
      simp only [boundingRect, exteriorCoords, BBoxSpec]
      simp only [IsBBox, IsMinMax, List.map, List.mem_cons, List.not_mem_nil, or_false, or_self,
        forall_eq] at this ⊢
      exact this
  | .line a b, _ => rectNewPts_isBBox a b
  | .lineString cs, _ => getBoundingRect_spec cs
  | .polygon p, _ => getBoundingRect_spec p.ext
  | .multiPoint ps, _ => getBoundingRect_spec ps
  | .multiLineString ls, _ => getBoundingRect_spec ls.flatten
  | .multiPolygon ps, _ => getBoundingRect_spec _
  | .rect mn mx, h => by
      simp only [rectsValid, Bool.and_eq_true, decide_eq_true_eq] at h
      exact rect_isBBox mn mx h.1 h.2
  | .triangle a b c, _ => getBoundingRect_spec [a, b, c]
  | .collection gs, h => by
      simp only [rectsValid] at h
      have := bbox_spec_list gs none [] rfl h
      simpa only [boundingRect, exteriorCoords, List.nil_append] using this
theorem bbox_spec_list : ∀ (gs : List Geom) (acc : Option (Pt × Pt)) (pre : List Pt),
    BBoxSpec acc pre → rectsValidList gs = true →
      BBoxSpec (boundingRectList acc gs) (pre ++ exteriorCoordsList gs)
  | [], acc, pre, ha, _ => by simpa [boundingRectList, exteriorCoordsList] using ha
  | g :: gs, acc, pre, ha, h => by
      simp only [rectsValidList, Bool.and_eq_true] at h
      have hs := bboxFoldStep_spec ha (bbox_spec g h.1)
      have := bbox_spec_list gs _ _ hs h.2
      simpa only [boundingRectList, exteriorCoordsList, List.append_assoc] using this
end

/-- [T] `bounding_rect` is the component-wise minimum and maximum of the *exterior* traversal
(that it ranges over the exterior only is known finding K6; see `bbox_bounds_coords` and
`bbox_ignores_hole_witness`): every exterior coordinate is inside and every bound is attained.
Hypothesis: Rect members are valid (`min ≤ max`, the C18 invariant) — `Rect::bounding_rect`
returns the stored corners as they are. -/
theorem bbox_bounds (g : Geom) (hv : rectsValid g = true) (mn mx : Pt)
    (h : boundingRect g = some (mn, mx)) :
    (∀ p ∈ exteriorCoords g, mn.x ≤ p.x ∧ p.x ≤ mx.x ∧ mn.y ≤ p.y ∧ p.y ≤ mx.y) ∧
    (∃ p ∈ exteriorCoords g, p.x = mn.x) ∧ (∃ p ∈ exteriorCoords g, p.x = mx.x) ∧
    (∃ p ∈ exteriorCoords g, p.y = mn.y) ∧ (∃ p ∈ exteriorCoords g, p.y = mx.y) := by
  have := bbox_spec g hv
  rw [h] at this
  exact (isBBox_iff _ mn mx).1 this

/-- [T] … and it is the only such pair: any `(mn', mx')` bounding the exterior traversal and
attained by it equals the computed box. -/
theorem bbox_unique (g : Geom) (hv : rectsValid g = true) (mn mx mn' mx' : Pt)
    (h : boundingRect g = some (mn, mx)) (h' : IsBBox (exteriorCoords g) mn' mx') :
    mn = mn' ∧ mx = mx' := by
  have := bbox_spec g hv
  rw [h] at this
  have hx := this.1.unique h'.1
  have hy := this.2.unique h'.2
  obtain ⟨a, b⟩ := mn; obtain ⟨c, d⟩ := mx; obtain ⟨a', b'⟩ := mn'; obtain ⟨c', d'⟩ := mx'
  simp only at hx hy
  simp [hx.1, hx.2, hy.1, hy.2]

example : (∀ p ∈ exteriorCoords (.collection [.point ⟨3, 1⟩, .multiPoint [], .lineString [⟨-2, 5⟩, ⟨0, -7⟩]]),
      (-2 : Rat) ≤ p.x ∧ p.x ≤ 3 ∧ (-7 : Rat) ≤ p.y ∧ p.y ≤ 5) := by
  have h : boundingRect (.collection [.point ⟨3, 1⟩, .multiPoint [], .lineString [⟨-2, 5⟩, ⟨0, -7⟩]])
      = some (⟨-2, -7⟩, ⟨3, 5⟩) := by
    simp only [boundingRect, boundingRectList, bboxFoldStep, bboxMerge, getBoundingRect, List.foldl,
      getMinMax, rectNewPts, SM.rectNew, partialMin, partialMax]
    norm_num
  exact (bbox_bounds _ (by decide) _ _ h).1

private theorem bboxFoldStep_none_iff (a o : Option (Pt × Pt)) :
    bboxFoldStep a o = none ↔ a = none ∧ o = none := by
  cases a <;> cases o <;> simp [bboxFoldStep]

mutual
/-- [T] `bounding_rect` is `None` exactly when the exterior traversal is empty (Point, Line,
Rect, Triangle — whose Rust return type is not optional — are never `None`, and never empty). -/
theorem bbox_none_iff : ∀ g : Geom, boundingRect g = none ↔ exteriorCoords g = []
  | .point _ => by simp [boundingRect, exteriorCoords]
  | .line _ _ => by simp [boundingRect, exteriorCoords]
  | .lineString cs => getBoundingRect_none_iff cs
  | .polygon p => getBoundingRect_none_iff p.ext
  | .multiPoint ps => getBoundingRect_none_iff ps
  | .multiLineString ls => getBoundingRect_none_iff ls.flatten
  | .multiPolygon ps => getBoundingRect_none_iff _
  | .rect _ _ => by simp [boundingRect, exteriorCoords, rectCoords]
  | .triangle a b c => by simp [boundingRect, exteriorCoords, getBoundingRect_none_iff]
  | .collection gs => by
      have := bbox_none_iff_list gs none
      simpa only [boundingRect, exteriorCoords, true_and] using this
theorem bbox_none_iff_list : ∀ (gs : List Geom) (acc : Option (Pt × Pt)),
    boundingRectList acc gs = none ↔ acc = none ∧ exteriorCoordsList gs = []
  | [], acc => by simp [boundingRectList, exteriorCoordsList]
  | g :: gs, acc => by
      simp only [boundingRectList, exteriorCoordsList, bbox_none_iff_list gs, bboxFoldStep_none_iff,
        bbox_none_iff g, List.append_eq_nil_iff, and_assoc]
end

/-- [T] for geometries whose polygons have no interior coordinates (in particular: without
polygons) the property's wording holds literally: `None` exactly when `coords_iter` is empty … -/
theorem bbox_none_iff_coords (g : Geom) (h : noInteriors g = true) :
    boundingRect g = none ↔ coordsIter g = [] := by
  rw [bbox_none_iff, exterior_eq_of_noInteriors g h]

theorem bbox_none_iff_coords_of_noPolygons (g : Geom) (h : noPolygons g = true) :
    boundingRect g = none ↔ coordsIter g = [] :=
  bbox_none_iff_coords g (noInteriors_of_noPolygons g h)

/-- [T] … and the box is the component-wise min/max of all traversed coordinates. -/
theorem bbox_bounds_coords (g : Geom) (hv : rectsValid g = true) (hn : noInteriors g = true)
    (mn mx : Pt) (h : boundingRect g = some (mn, mx)) :
    (∀ p ∈ coordsIter g, mn.x ≤ p.x ∧ p.x ≤ mx.x ∧ mn.y ≤ p.y ∧ p.y ≤ mx.y) ∧
    (∃ p ∈ coordsIter g, p.x = mn.x) ∧ (∃ p ∈ coordsIter g, p.x = mx.x) ∧
    (∃ p ∈ coordsIter g, p.y = mn.y) ∧ (∃ p ∈ coordsIter g, p.y = mx.y) := by
  rw [← exterior_eq_of_noInteriors g hn]
  exact bbox_bounds g hv mn mx h

example : boundingRect (.collection [.multiPoint [], .collection [.lineString []]]) = none :=
  (bbox_none_iff_coords_of_noPolygons _ (by decide)).2 rfl

/-- [T] K6 witness: a polygon whose hole leaves the shell — the computed box, (0,0)–(1,1), does
not contain the traversed hole coordinate (6,5), so "min/max of the traversed coordinates"
fails for polygons with interior rings outside the exterior's box. -/
theorem bbox_ignores_hole_witness :
    let g : Geom := .polygon ⟨[⟨0, 0⟩, ⟨1, 0⟩, ⟨1, 1⟩, ⟨0, 0⟩], [[⟨5, 5⟩, ⟨6, 5⟩, ⟨6, 6⟩, ⟨5, 5⟩]]⟩
    boundingRect g = some (⟨0, 0⟩, ⟨1, 1⟩) ∧ (⟨6, 5⟩ : Pt) ∈ coordsIter g := by
  intro g
  constructor
  · simp only [g, boundingRect, getBoundingRect, List.foldl, getMinMax, rectNewPts, SM.rectNew]
    norm_num
  · simp [g, coordsIter, Poly.coords]

/-! ## 6. `extremes` reports the first coordinates attaining the bounds -/

/-- `e` names the *first* coordinate of `l` that minimises the key `k`: the coordinate sits at
the index, no coordinate has a smaller key, every earlier one has a strictly larger key. -/
def FirstMin (k : Pt → Rat) (l : List Pt) (e : Extreme) : Prop :=
  l[e.index]? = some e.coord ∧ (∀ p ∈ l, k e.coord ≤ k p) ∧
    (∀ j q, j < e.index → l[j]? = some q → k e.coord < k q)

private def upd (k : Pt → Rat) (e : Extreme) (i : Nat) (c : Pt) : Extreme :=
  if k c < k e.coord then ⟨i, c⟩ else e

private theorem firstMin_step (k : Pt → Rat) (l : List Pt) (e : Extreme) (c : Pt)
    (h : FirstMin k l e) : FirstMin k (l ++ [c]) (upd k e l.length c) := by
  obtain ⟨h1, h2, h3⟩ := h
  have hlt : e.index < l.length := by
    rcases Nat.lt_or_ge e.index l.length with h | h
    · exact h
    · rw [List.getElem?_eq_none h] at h1; cases h1
  unfold upd
  by_cases hc : k c < k e.coord
  · rw [if_pos hc]
    refine ⟨by simp, ?_, ?_⟩
    · intro p hp
      rcases List.mem_append.1 hp with hp | hp
      · exact le_of_lt (lt_of_lt_of_le hc (h2 p hp))
      · simp only [List.mem_singleton] at hp; subst hp; exact le_refl _
    · intro j q hj hq
      simp only at hj
      rw [List.getElem?_append_left hj] at hq
      exact lt_of_lt_of_le hc (h2 q (List.mem_of_getElem? hq))
  · rw [if_neg hc]
    refine ⟨by rw [List.getElem?_append_left hlt]; exact h1, ?_, ?_⟩
    · intro p hp
      rcases List.mem_append.1 hp with hp | hp
      · exact h2 p hp
      · simp only [List.mem_singleton] at hp; subst hp; exact not_lt.1 hc
    · intro j q hj hq
      rw [List.getElem?_append_left (lt_trans hj hlt)] at hq
      exact h3 j q hj hq

private def AllFirst (l : List Pt) (o : Outcome) : Prop :=
  FirstMin Pt.x l o.xMin ∧ FirstMin Pt.y l o.yMin ∧
  FirstMin (fun p => -p.x) l o.xMax ∧ FirstMin (fun p => -p.y) l o.yMax

private theorem extremesStep_eq (o : Outcome) (i : Nat) (c : Pt) :
    extremesStep o (i, c) =
      ⟨upd Pt.x o.xMin i c, upd Pt.y o.yMin i c,
       upd (fun p => -p.x) o.xMax i c, upd (fun p => -p.y) o.yMax i c⟩ := by
  simp only [extremesStep, upd, neg_lt_neg_iff, gt_iff_lt]
  by_cases h1 : c.x < o.xMin.coord.x <;> by_cases h2 : c.y < o.yMin.coord.y <;>
    by_cases h3 : o.xMax.coord.x < c.x <;> by_cases h4 : o.yMax.coord.y < c.y <;>
    simp [h1, h2, h3, h4]

private theorem allFirst_step (l : List Pt) (o : Outcome) (c : Pt) (h : AllFirst l o) :
    AllFirst (l ++ [c]) (extremesStep o (l.length, c)) := by
  rw [extremesStep_eq]
  exact ⟨firstMin_step _ l _ c h.1, firstMin_step _ l _ c h.2.1,
    firstMin_step _ l _ c h.2.2.1, firstMin_step _ l _ c h.2.2.2⟩

private theorem allFirst_fold : ∀ (rest pre : List Pt) (o : Outcome), AllFirst pre o →
    AllFirst (pre ++ rest) ((enumFrom' pre.length rest).foldl extremesStep o)
  | [], pre, o, h => by simpa [enumFrom'] using h
  | c :: rest, pre, o, h => by
      have := allFirst_fold rest (pre ++ [c]) _ (allFirst_step pre o c h)
      simpa [enumFrom'] using this

private theorem firstMin_singleton (k : Pt → Rat) (p : Pt) : FirstMin k [p] ⟨0, p⟩ := by
  refine ⟨rfl, ?_, ?_⟩
  · intro q hq; simp only [List.mem_singleton] at hq; subst hq; exact le_refl _
  · intro j q hj; simp at hj

private theorem extremesOf_allFirst (cs : List Pt) (o : Outcome) (h : extremesOf cs = some o) :
    AllFirst cs o := by
  cases cs with
  | nil => simp [extremesOf] at h
  | cons p rest =>
    simp only [extremesOf, Option.some.injEq] at h
    have := allFirst_fold rest [p] ⟨⟨0, p⟩, ⟨0, p⟩, ⟨0, p⟩, ⟨0, p⟩⟩
      ⟨firstMin_singleton _ p, firstMin_singleton _ p, firstMin_singleton _ p, firstMin_singleton _ p⟩
    simp only [List.length_singleton, List.singleton_append] at this
    rw [← h]; exact this

/-- [T] `extremes` is `None` exactly when there are no coordinates. -/
theorem extremesOf_none_iff (cs : List Pt) : extremesOf cs = none ↔ cs = [] := by
  cases cs <;> simp [extremesOf]

/-- [T] each of the four reported extremes sits at the index it names, attains the bound
(no coordinate is smaller / larger in that component), and its index is the *first* one
attaining it (every earlier coordinate is strictly inside). -/
theorem extremes_attain (cs : List Pt) (o : Outcome) (h : extremesOf cs = some o) :
    (cs[o.xMin.index]? = some o.xMin.coord ∧ (∀ p ∈ cs, o.xMin.coord.x ≤ p.x) ∧
      (∀ j q, j < o.xMin.index → cs[j]? = some q → o.xMin.coord.x < q.x)) ∧
    (cs[o.yMin.index]? = some o.yMin.coord ∧ (∀ p ∈ cs, o.yMin.coord.y ≤ p.y) ∧
      (∀ j q, j < o.yMin.index → cs[j]? = some q → o.yMin.coord.y < q.y)) ∧
    (cs[o.xMax.index]? = some o.xMax.coord ∧ (∀ p ∈ cs, p.x ≤ o.xMax.coord.x) ∧
      (∀ j q, j < o.xMax.index → cs[j]? = some q → q.x < o.xMax.coord.x)) ∧
    (cs[o.yMax.index]? = some o.yMax.coord ∧ (∀ p ∈ cs, p.y ≤ o.yMax.coord.y) ∧
      (∀ j q, j < o.yMax.index → cs[j]? = some q → q.y < o.yMax.coord.y)) := by
  obtain ⟨hx, hy, hX, hY⟩ := extremesOf_allFirst cs o h
  refine ⟨hx, hy, ⟨hX.1, ?_, ?_⟩, ⟨hY.1, ?_, ?_⟩⟩
  · intro p hp; exact neg_le_neg_iff.1 (hX.2.1 p hp)
  · intro j q hj hq; exact neg_lt_neg_iff.1 (hX.2.2 j q hj hq)
  · intro p hp; exact neg_le_neg_iff.1 (hY.2.1 p hp)
  · intro j q hj hq; exact neg_lt_neg_iff.1 (hY.2.2 j q hj hq)

/-- Non-vacuity, with ties: (0,0),(4,0),(4,3),(0,3),(0,0) — x-min is index 0 (not 3 or 4),
x-max index 1 (not 2), y-max index 2 (not 3). -/
example : ∃ o, extremesOf [⟨0, 0⟩, ⟨4, 0⟩, ⟨4, 3⟩, ⟨0, 3⟩, ⟨0, 0⟩] = some o ∧
    o.xMin.index = 0 ∧ o.yMin.index = 0 ∧ o.xMax.index = 1 ∧ o.yMax.index = 2 := by
  refine ⟨_, rfl, ?_⟩
  simp only [enumFrom', List.foldl, extremesStep]
  norm_num

/-- [T] for a geometry: `extremes` works on the exterior traversal, is `None` exactly when
`bounding_rect` is, … -/
theorem extremes_none_iff (g : Geom) : extremes g = none ↔ boundingRect g = none := by
  rw [extremes, extremesOf_none_iff, bbox_none_iff]

/-- [T] … and the four reported coordinates attain exactly the bounds `bounding_rect` reports. -/
theorem extremes_eq_bbox (g : Geom) (hv : rectsValid g = true) (o : Outcome) (mn mx : Pt)
    (ho : extremes g = some o) (hb : boundingRect g = some (mn, mx)) :
    o.xMin.coord.x = mn.x ∧ o.yMin.coord.y = mn.y ∧ o.xMax.coord.x = mx.x ∧ o.yMax.coord.y = mx.y := by
  obtain ⟨⟨a1, a2, _⟩, ⟨b1, b2, _⟩, ⟨c1, c2, _⟩, ⟨d1, d2, _⟩⟩ := extremes_attain _ o ho
  have hs := bbox_spec g hv
  rw [hb] at hs
  have mx' : IsMinMax ((exteriorCoords g).map Pt.x) o.xMin.coord.x o.xMax.coord.x := by
    refine ⟨?_, List.mem_map.2 ⟨_, List.mem_of_getElem? a1, rfl⟩,
      List.mem_map.2 ⟨_, List.mem_of_getElem? c1, rfl⟩⟩
    intro v hv
    obtain ⟨p, hp, rfl⟩ := List.mem_map.1 hv
    exact ⟨a2 p hp, c2 p hp⟩
  have my' : IsMinMax ((exteriorCoords g).map Pt.y) o.yMin.coord.y o.yMax.coord.y := by
    refine ⟨?_, List.mem_map.2 ⟨_, List.mem_of_getElem? b1, rfl⟩,
      List.mem_map.2 ⟨_, List.mem_of_getElem? d1, rfl⟩⟩
    intro v hv
    obtain ⟨p, hp, rfl⟩ := List.mem_map.1 hv
    exact ⟨b2 p hp, d2 p hp⟩
  have ux := mx'.unique hs.1
  have uy := my'.unique hs.2
  exact ⟨ux.1, uy.1, ux.2, uy.2⟩

example : ∀ o, extremes (.polygon ⟨[⟨0, 0⟩, ⟨4, 0⟩, ⟨4, 3⟩, ⟨0, 3⟩, ⟨0, 0⟩], []⟩) = some o →
    ∀ mn mx, boundingRect (.polygon ⟨[⟨0, 0⟩, ⟨4, 0⟩, ⟨4, 3⟩, ⟨0, 3⟩, ⟨0, 0⟩], []⟩) = some (mn, mx) →
    o.xMin.coord.x = mn.x :=
  fun o ho mn mx hb => (extremes_eq_bbox _ (by decide) o mn mx ho hb).1

/-- [T] (translator tie) the running-fold step and the merge helpers of the bounding-box model equal the
definitions regenerated from the Rust bodies on this run (`get_min_max` in geo-types/src/private_utils.rs,
`partial_min` / `partial_max` in geo/src/utils.rs). -/
theorem minmax_eq_source :
    (∀ p mn mx, getMinMax p mn mx = Gen.getMinMax p mn mx) ∧
    (∀ a b, partialMin a b = Gen.partialMin a b) ∧ (∀ a b, partialMax a b = Gen.partialMax a b) :=
  ⟨Geo.Proofs.GenKernel.getMinMax_eq, Geo.Proofs.GenKernel.partialMin_eq, Geo.Proofs.GenKernel.partialMax_eq⟩

end Geo.Proofs.C19
