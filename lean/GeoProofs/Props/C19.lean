/-
  C19 — Coordinate traversal, mapping and bounding boxes are mutually consistent.

  Property theorems only. Model: GeoModel/Traverse.lean (one Lean function per separately
  written Rust impl: `coords_count` is arithmetic, `coords_iter` is the traversal, …).
-/
import GeoModel.Traverse

namespace Geo.Proofs.C19
open Geo

private theorem length_flatten' (ls : List (List Pt)) :
    ls.flatten.length = (ls.map List.length).sum := by
  induction ls with
  | nil => rfl
  | cons a t ih => simp [ih]

private theorem poly_count (p : Poly) : p.count = p.coords.length := by
  simp [Poly.count, Poly.coords]

mutual
/-- [T] `coords_count` equals the number of coordinates `coords_iter` yields, for every
geometry (every nesting of collections, every empty member). -/
theorem count_eq_length : ∀ g : Geom, coordsCount g = (coordsIter g).length
  | .point _ => rfl
  | .line _ _ => rfl
  | .lineString _ => rfl
  | .polygon p => by simp [coordsCount, coordsIter, poly_count]
  | .multiPoint _ => rfl
  | .multiLineString ls => by simp [coordsCount, coordsIter]
  | .multiPolygon ps => by
      simp only [coordsCount, coordsIter, length_flatten', List.map_map]
      congr 1; apply List.map_congr_left; intro p _; exact poly_count p
  | .rect _ _ => rfl
  | .triangle _ _ _ => rfl
  | .collection gs => by simp only [coordsCount, coordsIter]; exact count_eq_length_list gs
theorem count_eq_length_list : ∀ gs : List Geom, coordsCountList gs = (coordsIterList gs).length
  | [] => rfl
  | g :: gs => by
      simp [coordsCountList, coordsIterList, count_eq_length g, count_eq_length_list gs]
end

end Geo.Proofs.C19
