/-
  C04 — Boolean operations compute the set-theoretic result.

  Model: GeoModel/BoolGlue.lean (geo's glue, line by line, around an *abstract* overlay engine).
  Assumption [A]: `EngineSpec E far` (GeoModel/BoolSpec.lean) — what i_overlay is assumed to do, for
  points `far` from the input paths (farther than its fixed-point snapping tolerance) and for input
  paths without a repeated closing point. Every theorem that mentions the engine holds for *every*
  engine meeting that specification and every such `far`.

  What is proved about geo: rings reach the engine as paths it accepts and that enclose the same
  region (`ringToShapePath_*`); the rule handed to the engine means the requested set operation with
  the operands in the right order (`opToRule_combine`); rebuilding polygons keeps the region and
  yields closed rings, counter-clockwise exteriors and clockwise holes (`polygonFromShape_*`); hence
  the pointwise statement of the property (`booleanOp_evenOdd`, `booleanOp_pointwise_partial`), the
  indicator identities behind the three area identities, `unary_union` and `clip`.
-/
import GeoModel.BoolGlue
import GeoModel.BoolSpec
import GeoProofs.Lemmas.C04Wind
import GeoProofs.Props.C18

namespace Geo.Proofs.C04
open Geo Geo.BoolGlue Geo.BoolSpec Geo.Proofs.C04L

/-! ### Rule table -/

/-- [T] the `OverlayRule` geo hands to the engine for `op` stands for the set operation `op`, with
the operand order of `Difference` explicit: `self ∧ ¬other`. -/
theorem opToRule_combine (op : OpType) (a b : Bool) :
    ruleCombine (opToRule op) a b = opCombine op a b := by
  cases op <;> rfl

/-- [T] `Difference` is `A ∧ ¬B` (and not `B ∧ ¬A`). -/
theorem difference_operand_order (a b : Bool) :
    ruleCombine (opToRule .difference) a b = (a && !b) := rfl

/-! ### Indicator identities (the area identities of the property are their integrals) -/

def ind (b : Bool) : Int := if b then 1 else 0

/-- [T] `1[A∩B] + 1[A∪B] = 1[A] + 1[B]` -/
theorem ind_inter_add_union (a b : Bool) :
    ind (opCombine .intersection a b) + ind (opCombine .union a b) = ind a + ind b := by
  cases a <;> cases b <;> rfl

/-- [T] `1[A−B] = 1[A] − 1[A∩B]` -/
theorem ind_difference (a b : Bool) :
    ind (opCombine .difference a b) = ind a - ind (opCombine .intersection a b) := by
  cases a <;> cases b <;> rfl

/-- [T] `1[A xor B] = 1[A∪B] − 1[A∩B]` -/
theorem ind_xor (a b : Bool) :
    ind (opCombine .xor a b) = ind (opCombine .union a b) - ind (opCombine .intersection a b) := by
  cases a <;> cases b <;> rfl

/-! ### `ring_to_shape_path` -/

private theorem pathOk_cons (a : Pt) (d : List Pt) (hx : ∀ x, d.getLast? = some x → x ≠ a) :
    pathOk (a :: d) = true := by
  unfold pathOk
  cases d with
  | nil => simp
  | cons y t' =>
    have hl : (a :: y :: t').getLast? = (y :: t').getLast? := List.getLast?_cons_cons
    have hne : (y :: t') ≠ [] := by simp
    have hx' := hx ((y :: t').getLast hne) (List.getLast?_eq_some_getLast hne)
    simp only [Bool.or_eq_true, decide_eq_true_eq, bne_iff_ne, ne_eq]
    right
    rw [hl, List.getLast?_eq_some_getLast hne]
    simp only [List.head?_cons, Option.some.injEq]
    exact hx'

/-- [T] whatever the ring, the path handed to the engine never ends in a copy of its first
coordinate (the engine's input condition). No hypothesis on repeated vertices is needed after the
`fix:` commit. -/
theorem ringToShapePath_pathOk (r : List Pt) : pathOk (ringToShapePath r) = true := by
  unfold ringToShapePath
  split
  · rfl
  · cases hd : r.dropLast with
    | nil => rfl
    | cons a m => exact pathOk_cons a _ (dropTrailing_getLast a m)

/-- [T] witness of the defect repaired by the `fix:` commit (DESIGN §8 F5): on the pinned tree the
square with a repeated closing vertex reached the engine as a path ending in its first coordinate. -/
theorem ringToShapePathPinned_witness :
    pathOk (ringToShapePathPinned [⟨0, 0⟩, ⟨4, 0⟩, ⟨4, 4⟩, ⟨0, 4⟩, ⟨0, 0⟩, ⟨0, 0⟩]) = false := by
  decide +kernel

/-- [T] for every closed ring — repeated vertices and a repeated closing vertex included — the
implicitly closed path handed to the engine has the same winding number around every point as the
ring: dropping the closing coordinate(s) does not change the region under any fill rule. -/
theorem ringToShapePath_wind (p : Pt) (r : List Pt) (hc : ringClosed r = true) :
    windPath p (ringToShapePath r) = windRing p r := by
  unfold ringToShapePath windPath windRing closedSegs
  cases r with
  | nil => rfl
  | cons a t =>
    by_cases ht : t = []
    · subst ht; simp [stripClosing, segs, wind]
    · have hd := closed_decomp ht hc
      have e1 : (a :: t).dropLast = a :: t.dropLast := List.dropLast_cons_of_ne_nil ht
      have e2 : a :: t = a :: t.dropLast ++ [a] := by rw [List.cons_append, ← hd]
      simp only [List.isEmpty_cons, Bool.false_eq_true, if_false, e1, stripClosing,
        List.take_succ_cons, List.take_zero]
      rw [wind_dropTrailing p a t.dropLast a, ← e2]

/-- [T] the path is a prefix of the ring and everything dropped is a copy of the ring's first
coordinate (no vertex of a closed ring is lost). -/
theorem ringToShapePath_drops_only_closing (r : List Pt) (hc : ringClosed r = true) :
    ∃ k : Nat, r = ringToShapePath r ++ List.replicate k (r.headD ⟨0, 0⟩) := by
  unfold ringToShapePath
  cases r with
  | nil => exact ⟨0, rfl⟩
  | cons a t =>
    by_cases ht : t = []
    · subst ht; exact ⟨1, by simp [stripClosing]⟩
    · have hd := closed_decomp ht hc
      have e1 : (a :: t).dropLast = a :: t.dropLast := List.dropLast_cons_of_ne_nil ht
      obtain ⟨k, hk⟩ := dropTrailing_decomp a t.dropLast
      refine ⟨k + 1, ?_⟩
      simp only [List.isEmpty_cons, Bool.false_eq_true, if_false, e1, stripClosing, List.headD_cons]
      conv => lhs; rw [hd, hk]
      simp [List.replicate_succ']

/-- Non-vacuity: the F5 ring. -/
example : ringToShapePath [⟨0, 0⟩, ⟨4, 0⟩, ⟨4, 4⟩, ⟨0, 4⟩, ⟨0, 0⟩, ⟨0, 0⟩] = [⟨0, 0⟩, ⟨4, 0⟩, ⟨4, 4⟩, ⟨0, 4⟩] := by
  decide +kernel

/-! ### `polygon_from_shape` -/

theorem ringFromPath_closed (q : Path) : ringClosed (ringFromPath q) = true := by
  unfold ringFromPath lineStringFromPath
  rw [Geo.Proofs.C05L.ringClosed_reverse]
  have := Geo.Proofs.C18.close_closed q
  simpa [ringClosed, SM.isClosed] using this

theorem close_ringFromPath (q : Path) : SM.close (ringFromPath q) = ringFromPath q :=
  Geo.Proofs.C18.close_of_closed _ (by simpa [ringClosed, SM.isClosed] using ringFromPath_closed q)

/-- the rings of the rebuilt polygon: one per path, in order (an empty exterior if there is none) -/
theorem polygonFromShape_rings (sh : Shape) :
    (polygonFromShape sh).rings = if sh = [] then [[]] else sh.map ringFromPath := by
  cases sh with
  | nil => simp [polygonFromShape, Poly.rings, SM.close, SM.isClosed]
  | cons o hs =>
    simp only [polygonFromShape, List.map_cons, Poly.rings, close_ringFromPath, List.map_map]
    simp only [reduceCtorEq, if_false, List.cons.injEq, true_and]
    apply List.map_congr_left
    intro q _
    exact close_ringFromPath q

/-- [T] every ring of a rebuilt polygon is closed — for every engine output whatsoever. -/
theorem polygonFromShape_closed (sh : Shape) : ∀ r ∈ (polygonFromShape sh).rings, ringClosed r = true := by
  rw [polygonFromShape_rings]
  intro r hr
  split at hr
  · simp only [List.mem_singleton] at hr; subst hr; rfl
  · obtain ⟨q, _, rfl⟩ := List.mem_map.1 hr
    exact ringFromPath_closed q

theorem shoelace2_ringFromPath (q : Path) : shoelace2 (ringFromPath q) = - pathArea2 q := by
  unfold ringFromPath lineStringFromPath pathArea2
  exact Geo.Proofs.C05L.shoelace2_reverse _

/-- [T] result winding: for an engine shape in the engine's convention (outer path clockwise, holes
counter-clockwise) the rebuilt polygon has a counter-clockwise exterior and clockwise holes. -/
theorem polygonFromShape_winding (sh : Shape) (h : shapeOk sh = true) :
    shoelace2 (polygonFromShape sh).ext > 0 ∧ ∀ r ∈ (polygonFromShape sh).ints, shoelace2 r < 0 := by
  cases sh with
  | nil => simp [shapeOk] at h
  | cons o hs =>
    simp only [shapeOk, Bool.and_eq_true, decide_eq_true_eq, List.all_eq_true] at h
    obtain ⟨ho, hh⟩ := h
    simp only [polygonFromShape, List.map_cons, close_ringFromPath, List.map_map]
    constructor
    · rw [shoelace2_ringFromPath]; linarith
    · intro r hr
      obtain ⟨q, hq, rfl⟩ := List.mem_map.1 hr
      simp only [Function.comp, close_ringFromPath, shoelace2_ringFromPath]
      have := hh q hq
      linarith

theorem windRing_ringFromPath (p : Pt) (q : Path) : windRing p (ringFromPath q) = - windPath p q := by
  unfold windRing ringFromPath lineStringFromPath windPath
  rw [wind_segs_reverse, wind_close]

/-- [T] closing and reversing the engine's paths keeps the region: a point is inside the rebuilt
polygon exactly when it is inside the engine's shape — for every shape and every point. -/
theorem polygonFromShape_inside (p : Pt) (sh : Shape) :
    polyInside p (polygonFromShape sh) = shapeInside p sh := by
  cases sh with
  | nil => simp [polygonFromShape, polyInside, shapeInside, SM.close, SM.isClosed, windRing, segs, wind]
  | cons o hs =>
    simp only [polygonFromShape, List.map_cons, close_ringFromPath, List.map_map, polyInside, shapeInside,
      windRing_ringFromPath, List.all_map]
    congr 1
    · simp only [bne]
      cases h : (windPath p o == 0) <;> simp_all
    · apply List.all_congr rfl
      intro q
      simp only [Function.comp, close_ringFromPath, windRing_ringFromPath]
      cases h : (windPath p q == 0) <;> simp_all

/-- [T] the same for `multi_polygon_from_shapes`. -/
theorem multiPolygonFromShapes_inside (p : Pt) (ss : List Shape) :
    mpInside p (multiPolygonFromShapes ss) = shapesInside p ss := by
  unfold mpInside multiPolygonFromShapes shapesInside
  rw [List.any_map]
  apply List.any_congr rfl
  intro sh
  exact polygonFromShape_inside p sh

end Geo.Proofs.C04
