/-
  C04 — Boolean operations compute the set-theoretic result.

  Model: GeoModel/BoolGlue.lean (geo's glue, line by line, around an *abstract* overlay engine).
  Assumption [A]: `EngineSpec E far` (GeoModel/BoolSpec.lean) — what i_overlay is assumed to do, for
  points `far` from the input paths (farther than its fixed-point snapping tolerance) and for input
  paths without a repeated closing point. Every theorem that mentions the engine holds for *every*
  engine meeting that specification and every such `far`.

  What is proved about geo: rings reach the engine as paths it accepts and that enclose the same
  region (`ringToShapePath_*`); the rule handed to the engine means the requested set operation with
  the operands in the right order (`opToRule_combine`); rebuilding polygons keeps the region and
  yields closed rings, counter-clockwise exteriors and clockwise holes (`polygonFromShape_*`); hence
  the pointwise statement of the property (`booleanOp_evenOdd`, `booleanOp_pointwise_partial`), the
  indicator identities behind the three area identities, `unary_union` and `clip`.

  C04X additions: the Jordan-type assumption S2 is *proved* from `polyValid` at every point off the
  rings (`evenOdd_eq_inside_valid`) and member disjointness from `multiPolyValid` (`members_apart`),
  hence the full statements `booleanOp_pointwise` (valid MultiPolygon operands),
  `booleanOp_pointwise_polygon` (valid Polygon operands) and `unaryUnion_region_valid`; the
  behaviour of `unary_union` on *every* closed-ring collection, consistently wound or not
  (`unaryUnion_fill_region`, witness `unaryUnion_inconsistent_witness`); the area identities for every
  finitely additive measure on regions and for the results of the four operations
  (`area_identities`, `area_eq_expectedArea`, `booleanOp_area_identities`), the oracle's fan carries
  the exact area (`oracle_fan_area`), `clip` length conservation (`clip_length_conserved`); the glue
  round trip (`glue_roundTrip`, `glue_roundTrip_valid`, `glue_roundTrip_region`).
-/
import GeoModel.BoolGlue
import GeoModel.BoolSpec
import GeoProofs.Lemmas.C04Wind
import GeoProofs.Lemmas.C04Locate
import GeoProofs.Lemmas.C04XRound
import GeoProofs.Lemmas.C04XMeasure
import GeoProofs.Lemmas.C04XLayer
import GeoProofs.Lemmas.C04XGeneric
import GeoProofs.Lemmas.C04XMulti
import GeoProofs.Lemmas.C04XMembers
import GeoProofs.Props.C18
import GeoProofs.Props.C05

namespace Geo.Proofs.C04
open Geo Geo.BoolGlue Geo.BoolSpec Geo.Proofs.C04L Geo.Proofs.C04X

/-! ### Rule table -/

/-- [T] the `OverlayRule` geo hands to the engine for `op` stands for the set operation `op`, with
the operand order of `Difference` explicit: `self ∧ ¬other`. -/
theorem opToRule_combine (op : OpType) (a b : Bool) :
    ruleCombine (opToRule op) a b = opCombine op a b := by
  cases op <;> rfl

/-- [T] `Difference` is `A ∧ ¬B` (and not `B ∧ ¬A`). -/
theorem difference_operand_order (a b : Bool) :
    ruleCombine (opToRule .difference) a b = (a && !b) := rfl

/-! ### Indicator identities (the area identities of the property are their integrals) -/

def ind (b : Bool) : Int := if b then 1 else 0

/-- [T] `1[A∩B] + 1[A∪B] = 1[A] + 1[B]` -/
theorem ind_inter_add_union (a b : Bool) :
    ind (opCombine .intersection a b) + ind (opCombine .union a b) = ind a + ind b := by
  cases a <;> cases b <;> rfl

/-- [T] `1[A−B] = 1[A] − 1[A∩B]` -/
theorem ind_difference (a b : Bool) :
    ind (opCombine .difference a b) = ind a - ind (opCombine .intersection a b) := by
  cases a <;> cases b <;> rfl

/-- [T] `1[A xor B] = 1[A∪B] − 1[A∩B]` -/
theorem ind_xor (a b : Bool) :
    ind (opCombine .xor a b) = ind (opCombine .union a b) - ind (opCombine .intersection a b) := by
  cases a <;> cases b <;> rfl

/-! ### `ring_to_shape_path` -/

private theorem pathOk_cons (a : Pt) (d : List Pt) (hx : ∀ x, d.getLast? = some x → x ≠ a) :
    pathOk (a :: d) = true := by
  unfold pathOk
  cases d with
  | nil => simp
  | cons y t' =>
    have hl : (a :: y :: t').getLast? = (y :: t').getLast? := List.getLast?_cons_cons
    have hne : (y :: t') ≠ [] := by simp
    have hx' := hx ((y :: t').getLast hne) (List.getLast?_eq_some_getLast hne)
    simp only [Bool.or_eq_true, decide_eq_true_eq, bne_iff_ne, ne_eq]
    right
    rw [hl, List.getLast?_eq_some_getLast hne]
    simp only [List.head?_cons, Option.some.injEq]
    exact hx'

/-- [T] whatever the ring, the path handed to the engine never ends in a copy of its first
coordinate (the engine's input condition). No hypothesis on repeated vertices is needed after the
`fix:` commit. -/
theorem ringToShapePath_pathOk (r : List Pt) : pathOk (ringToShapePath r) = true := by
  unfold ringToShapePath
  split
  · rfl
  · cases hd : r.dropLast with
    | nil => rfl
    | cons a m => exact pathOk_cons a _ (dropTrailing_getLast a m)

/-- [T] witness of the defect repaired by the `fix:` commit (DESIGN §8 F5): on the pinned tree the
square with a repeated closing vertex reached the engine as a path ending in its first coordinate. -/
theorem ringToShapePathPinned_witness :
    pathOk (ringToShapePathPinned [⟨0, 0⟩, ⟨4, 0⟩, ⟨4, 4⟩, ⟨0, 4⟩, ⟨0, 0⟩, ⟨0, 0⟩]) = false := by
  decide +kernel

/-- [T] for every closed ring — repeated vertices and a repeated closing vertex included — the
implicitly closed path handed to the engine has the same winding number around every point as the
ring: dropping the closing coordinate(s) does not change the region under any fill rule. -/
theorem ringToShapePath_wind (p : Pt) (r : List Pt) (hc : ringClosed r = true) :
    windPath p (ringToShapePath r) = windRing p r := by
  unfold ringToShapePath windPath windRing closedSegs
  cases r with
  | nil => rfl
  | cons a t =>
    by_cases ht : t = []
    · subst ht; simp [stripClosing, segs, wind]
    · have hd := closed_decomp ht hc
      have e1 : (a :: t).dropLast = a :: t.dropLast := List.dropLast_cons_of_ne_nil ht
      have e2 : a :: t = a :: t.dropLast ++ [a] := by rw [List.cons_append, ← hd]
      simp only [List.isEmpty_cons, Bool.false_eq_true, if_false, e1, stripClosing,
        List.take_succ_cons, List.take_zero]
      rw [wind_dropTrailing p a t.dropLast a, ← e2]

/-- [T] the path is a prefix of the ring and everything dropped is a copy of the ring's first
coordinate (no vertex of a closed ring is lost). -/
theorem ringToShapePath_drops_only_closing (r : List Pt) (hc : ringClosed r = true) :
    ∃ k : Nat, r = ringToShapePath r ++ List.replicate k (r.headD ⟨0, 0⟩) := by
  unfold ringToShapePath
  cases r with
  | nil => exact ⟨0, rfl⟩
  | cons a t =>
    by_cases ht : t = []
    · subst ht; exact ⟨1, by simp [stripClosing]⟩
    · have hd := closed_decomp ht hc
      have e1 : (a :: t).dropLast = a :: t.dropLast := List.dropLast_cons_of_ne_nil ht
      obtain ⟨k, hk⟩ := dropTrailing_decomp a t.dropLast
      refine ⟨k + 1, ?_⟩
      simp only [List.isEmpty_cons, Bool.false_eq_true, if_false, e1, stripClosing, List.headD_cons]
      conv => lhs; rw [hd, hk]
      simp [List.replicate_succ']

/-- Non-vacuity: the F5 ring. -/
example : ringToShapePath [⟨0, 0⟩, ⟨4, 0⟩, ⟨4, 4⟩, ⟨0, 4⟩, ⟨0, 0⟩, ⟨0, 0⟩] = [⟨0, 0⟩, ⟨4, 0⟩, ⟨4, 4⟩, ⟨0, 4⟩] := by
  decide +kernel

/-! ### `polygon_from_shape` -/

private theorem ringFromPath_closed (q : Path) : ringClosed (ringFromPath q) = true := by
  unfold ringFromPath lineStringFromPath
  rw [Geo.Proofs.C05L.ringClosed_reverse]
  have := Geo.Proofs.C18.close_closed q
  simpa [ringClosed, SM.isClosed] using this

private theorem close_ringFromPath (q : Path) : SM.close (ringFromPath q) = ringFromPath q :=
  Geo.Proofs.C18.close_of_closed _ (by simpa [ringClosed, SM.isClosed] using ringFromPath_closed q)

/-- the rings of the rebuilt polygon: one per path, in order (an empty exterior if there is none) -/
private theorem polygonFromShape_rings (sh : Shape) :
    (polygonFromShape sh).rings = if sh = [] then [[]] else sh.map ringFromPath := by
  cases sh with
  | nil => simp [polygonFromShape, Poly.rings, SM.close, SM.isClosed]
  | cons o hs =>
    simp only [polygonFromShape, List.map_cons, Poly.rings, close_ringFromPath, List.map_map]
    simp only [reduceCtorEq, if_false, List.cons.injEq, true_and]
    apply List.map_congr_left
    intro q _
    exact close_ringFromPath q

/-- [T] every ring of a rebuilt polygon is closed — for every engine output whatsoever. -/
theorem polygonFromShape_closed (sh : Shape) : ∀ r ∈ (polygonFromShape sh).rings, ringClosed r = true := by
  rw [polygonFromShape_rings]
  intro r hr
  split at hr
  · simp only [List.mem_singleton] at hr; subst hr; rfl
  · obtain ⟨q, _, rfl⟩ := List.mem_map.1 hr
    exact ringFromPath_closed q

private theorem shoelace2_ringFromPath (q : Path) : shoelace2 (ringFromPath q) = - pathArea2 q := by
  unfold ringFromPath lineStringFromPath pathArea2
  exact Geo.Proofs.C05L.shoelace2_reverse _

/-- [T] result winding: for an engine shape in the engine's convention (outer path clockwise, holes
counter-clockwise) the rebuilt polygon has a counter-clockwise exterior and clockwise holes. -/
theorem polygonFromShape_winding (sh : Shape) (h : shapeOk sh = true) :
    shoelace2 (polygonFromShape sh).ext > 0 ∧ ∀ r ∈ (polygonFromShape sh).ints, shoelace2 r < 0 := by
  cases sh with
  | nil => simp [shapeOk] at h
  | cons o hs =>
    simp only [shapeOk, Bool.and_eq_true, decide_eq_true_eq, List.all_eq_true] at h
    obtain ⟨ho, hh⟩ := h
    simp only [polygonFromShape, List.map_cons, close_ringFromPath, List.map_map]
    constructor
    · rw [shoelace2_ringFromPath]; linarith
    · intro r hr
      obtain ⟨q, hq, rfl⟩ := List.mem_map.1 hr
      simp only [Function.comp, close_ringFromPath, shoelace2_ringFromPath]
      have := hh q hq
      linarith

private theorem windRing_ringFromPath (p : Pt) (q : Path) : windRing p (ringFromPath q) = - windPath p q := by
  unfold windRing ringFromPath lineStringFromPath windPath
  rw [wind_segs_reverse, wind_close]

/-- [T] closing and reversing the engine's paths keeps the region: a point is inside the rebuilt
polygon exactly when it is inside the engine's shape — for every shape and every point. -/
theorem polygonFromShape_inside (p : Pt) (sh : Shape) :
    polyInside p (polygonFromShape sh) = shapeInside p sh := by
  cases sh with
  | nil => simp [polygonFromShape, polyInside, shapeInside, SM.close, SM.isClosed, windRing, segs, wind]
  | cons o hs =>
    simp only [polygonFromShape, List.map_cons, close_ringFromPath, List.map_map, polyInside, shapeInside,
      windRing_ringFromPath, List.all_map]
    congr 1
    · simp only [bne]
      cases h : (windPath p o == 0) <;> simp_all
    · apply List.all_congr rfl
      intro q
      simp only [Function.comp, close_ringFromPath, windRing_ringFromPath]
      cases h : (windPath p q == 0) <;> simp_all

/-- [T] the same for `multi_polygon_from_shapes`. -/
theorem multiPolygonFromShapes_inside (p : Pt) (ss : List Shape) :
    mpInside p (multiPolygonFromShapes ss) = shapesInside p ss := by
  unfold mpInside multiPolygonFromShapes shapesInside
  rw [List.any_map]
  apply List.any_congr rfl
  intro sh
  exact polygonFromShape_inside p sh

/-! ### `boolean_op` — for every engine meeting the specification -/

private theorem windRings_append (p : Pt) (r1 r2 : List (List Pt)) :
    windRings p (r1 ++ r2) = windRings p r1 + windRings p r2 := by
  induction r1 with
  | nil => simp [windRings]
  | cons r t ih => simp only [List.cons_append, windRings, ih]; omega

/-- the paths of an operand carry the winding number of its rings -/
private theorem windPaths_rings (p : Pt) (rs : List (List Pt)) (hc : ∀ r ∈ rs, ringClosed r = true) :
    windPaths p (rs.map ringToShapePath) = windRings p rs := by
  induction rs with
  | nil => rfl
  | cons r t ih =>
    simp only [List.map_cons, windPaths, windRings]
    rw [ringToShapePath_wind p r (hc r (by simp)), ih (fun r' hr' => hc r' (by simp [hr']))]

/-- [T] what `FillRule::EvenOdd` makes of an operand is the even-odd region of its rings -/
theorem fillRegion_evenOdd_rings (p : Pt) (rs : List (List Pt)) (hc : ∀ r ∈ rs, ringClosed r = true) :
    fillRegion .evenOdd (rs.map ringToShapePath) p = evenOddRings p rs := by
  unfold fillRegion evenOddRings
  rw [windPaths_rings p rs hc]
  have : (-(windRings p rs)) % 2 = windRings p rs % 2 := by omega
  show ((-(windRings p rs)) % 2 != 0) = (windRings p rs % 2 != 0)
  rw [this]

private theorem paths_ok (ra rb : List (List Pt)) :
    ∀ q ∈ ra.map ringToShapePath ++ rb.map ringToShapePath, pathOk q = true := by
  intro q hq
  rcases List.mem_append.1 hq with h | h <;>
  · obtain ⟨r, _, rfl⟩ := List.mem_map.1 h
    exact ringToShapePath_pathOk r

/-- [T] **pointwise statement, even-odd form** (no topological assumption): for every engine meeting
`EngineSpec`, operands with closed rings (C18) — repeated vertices, repeated closing vertices, either
winding, empty operands included — and every point far from the input boundaries,
`inside (A op B) ⇔ op (evenOdd A, evenOdd B)`, with `Difference = A ∧ ¬B`. -/
theorem booleanOp_evenOdd {E : Engine} {far : Pt → List Path → Prop} (hE : EngineSpec E far)
    (a b : List Poly) (op : OpType) (p : Pt)
    (ha : ∀ r ∈ rings a, ringClosed r = true) (hb : ∀ r ∈ rings b, ringClosed r = true)
    (hfar : far p ((rings a).map ringToShapePath ++ (rings b).map ringToShapePath)) :
    mpInside p (booleanOp E a b op) =
      opCombine op (evenOddRings p (rings a)) (evenOddRings p (rings b)) := by
  unfold booleanOp
  simp only []
  rw [multiPolygonFromShapes_inside, hE.overlay_region _ _ _ _ p (paths_ok _ _) hfar, opToRule_combine,
    fillRegion_evenOdd_rings p _ ha, fillRegion_evenOdd_rings p _ hb]

/-- [Tp] **pointwise statement of the property**: `inside (A op B) ⇔ op (inside A, inside B)`.
Extra hypotheses `hSA`, `hSB` = spec adequacy S2 (DESIGN §6.6): for a *valid* (multi)polygon the
even-odd parity over all its rings is its interior (Jordan curve theorem + holes inside the shell,
members with disjoint interiors). C04X: `hSA`/`hSB` are now *theorems* for every valid operand:
`evenOdd_eq_inside_valid` (one polygon) and `members_apart` (members of a valid MultiPolygon).
Full statement: the same without `hSA`/`hSB` but with `validGeom (.multiPolygon a)`, `… b` —
**proved below as `booleanOp_pointwise`** (and `booleanOp_pointwise_polygon` for Polygon operands).
This form stays useful for operands that are not valid but for which `hSA`/`hSB` can be checked. -/
theorem booleanOp_pointwise_partial {E : Engine} {far : Pt → List Path → Prop} (hE : EngineSpec E far)
    (a b : List Poly) (op : OpType) (p : Pt)
    (ha : ∀ r ∈ rings a, ringClosed r = true) (hb : ∀ r ∈ rings b, ringClosed r = true)
    (hfar : far p ((rings a).map ringToShapePath ++ (rings b).map ringToShapePath))
    (hSA : evenOddRings p (rings a) = mpInside p a) (hSB : evenOddRings p (rings b) = mpInside p b) :
    mpInside p (booleanOp E a b op) = opCombine op (mpInside p a) (mpInside p b) := by
  rw [booleanOp_evenOdd hE a b op p ha hb hfar, hSA, hSB]

/-- [T] the three identities of the property, pointwise, for the results of the four operations on
the same operands: `1[A∩B]+1[A∪B] = 1[A]+1[B]`, `1[A−B] = 1[A]−1[A∩B]`, `1[A xor B] = 1[A∪B]−1[A∩B]`
(`1[A]`, `1[B]` in even-odd form). The area identities are their integrals. -/
theorem booleanOp_identities {E : Engine} {far : Pt → List Path → Prop} (hE : EngineSpec E far)
    (a b : List Poly) (p : Pt)
    (ha : ∀ r ∈ rings a, ringClosed r = true) (hb : ∀ r ∈ rings b, ringClosed r = true)
    (hfar : far p ((rings a).map ringToShapePath ++ (rings b).map ringToShapePath)) :
    let i := ind (mpInside p (booleanOp E a b .intersection))
    let u := ind (mpInside p (booleanOp E a b .union))
    let d := ind (mpInside p (booleanOp E a b .difference))
    let x := ind (mpInside p (booleanOp E a b .xor))
    let ia := ind (evenOddRings p (rings a))
    let ib := ind (evenOddRings p (rings b))
    i + u = ia + ib ∧ d = ia - i ∧ x = u - i := by
  simp only [booleanOp_evenOdd hE a b _ p ha hb hfar]
  exact ⟨ind_inter_add_union _ _, ind_difference _ _, ind_xor _ _⟩

/-- [T] result winding of `boolean_op`: every ring closed, exteriors counter-clockwise, holes
clockwise — for every engine whose shapes follow its documented convention. -/
theorem booleanOp_winding {E : Engine} {far : Pt → List Path → Prop} (hE : EngineSpec E far)
    (a b : List Poly) (op : OpType) :
    ∀ poly ∈ booleanOp E a b op,
      (∀ r ∈ poly.rings, ringClosed r = true) ∧ shoelace2 poly.ext > 0 ∧ ∀ r ∈ poly.ints, shoelace2 r < 0 := by
  intro poly hp
  unfold booleanOp multiPolygonFromShapes at hp
  obtain ⟨sh, hsh, rfl⟩ := List.mem_map.1 hp
  have hok := hE.overlay_shape _ _ _ _ (paths_ok _ _) sh hsh
  exact ⟨polygonFromShape_closed sh, polygonFromShape_winding sh hok⟩

/-! ### `unary_union` -/

/-- "Consistently wound", in the form the fill rules need it (hypothesis of the theorem below):
`σ = -1` when the first ring with a winding order is clockwise, `σ = 1` otherwise, and each member's
winding function is `σ` times its indicator at `p`. -/
structure WindingValid (ms : List Poly) (σ : Int) (p : Pt) : Prop where
  sigma : σ = 1 ∨ σ = -1
  first : firstWinding (ms.flatMap Poly.rings) = some .cw ↔ σ = -1
  member : ∀ m ∈ ms, windRings p m.rings = if polyInside p m = true then σ else 0
  closed : ∀ m ∈ ms, ∀ r ∈ m.rings, ringClosed r = true

private theorem windRings_members (p : Pt) (σ : Int) (ms : List Poly)
    (hm : ∀ m ∈ ms, windRings p m.rings = if polyInside p m = true then σ else 0) :
    windRings p (ms.flatMap Poly.rings) = σ * (ms.countP (polyInside p) : Nat) := by
  induction ms with
  | nil => simp [windRings]
  | cons m t ih =>
    rw [List.flatMap_cons, windRings_append, ih (fun m' h' => hm m' (by simp [h'])), hm m (by simp),
      List.countP_cons]
    by_cases h : polyInside p m = true
    · simp only [h, if_true]; push_cast; ring
    · simp only [h]; simp

private theorem rings_singletons (ms : List Poly) : (ms.map (fun m => [m])).flatMap rings = ms.flatMap Poly.rings := by
  induction ms with
  | nil => rfl
  | cons m t ih =>
    rw [List.map_cons, List.flatMap_cons, List.flatMap_cons, ih]
    simp [rings]

/-- [Tp] `unary_union` of a consistently wound collection covers exactly the union of its members,
for both windings of the first ring (Positive fill for clockwise, Negative otherwise) and every
engine meeting the specification.
Extra hypothesis `WindingValid` (each member's winding function is ±its indicator, the sign agreeing
with `winding_order` of the first ring — a Jordan-type fact about valid polygons).
Full statement: the same with `WindingValid` replaced by: every member valid, every exterior wound
the same way and every hole the opposite way — **proved below as `unaryUnion_region_valid`**
(`windingValid_of_valid` derives `WindingValid` from `polyValid` and the orientation). What happens
outside that class: `unaryUnion_fill_region`, `unaryUnion_inconsistent_witness`. -/
theorem unaryUnion_region_partial {E : Engine} {far : Pt → List Path → Prop} (hE : EngineSpec E far)
    (ms : List Poly) (σ : Int) (p : Pt) (hw : WindingValid ms σ p)
    (hfar : far p ((ms.flatMap Poly.rings).map ringToShapePath)) :
    mpInside p (unaryUnion E (ms.map (fun m => [m]))) = ms.any (polyInside p) := by
  unfold unaryUnion
  simp only [rings_singletons]
  have hok : ∀ q ∈ (ms.flatMap Poly.rings).map ringToShapePath, pathOk q = true := by
    intro q hq
    obtain ⟨r, _, rfl⟩ := List.mem_map.1 hq
    exact ringToShapePath_pathOk r
  have hcl : ∀ r ∈ ms.flatMap Poly.rings, ringClosed r = true := by
    intro r hr
    obtain ⟨m, hm, hr'⟩ := List.mem_flatMap.1 hr
    exact hw.closed m hm r hr'
  rw [multiPolygonFromShapes_inside, hE.single_region _ _ p hok hfar]
  unfold fillRegion
  rw [windPaths_rings p _ hcl, windRings_members p σ ms hw.member]
  have hany : ms.any (polyInside p) = decide (0 < ms.countP (polyInside p)) := by
    rw [Bool.eq_iff_iff]
    simp [List.countP_pos_iff]
  rw [hany]
  unfold unaryFillRule
  rcases hw.sigma with h1 | h1
  · have hn : ¬ firstWinding (ms.flatMap Poly.rings) = some WO.cw := by
      intro h; have := hw.first.1 h; omega
    simp only [hn, if_false, filled, h1]
    rw [Bool.eq_iff_iff]; simp only [decide_eq_true_eq]; omega
  · have hy : firstWinding (ms.flatMap Poly.rings) = some WO.cw := hw.first.2 h1
    simp only [hy, if_true, filled, h1]
    rw [Bool.eq_iff_iff]; simp only [decide_eq_true_eq]; omega

/-! ### polygons for the examples -/

def sq : Poly := ⟨[⟨0, 0⟩, ⟨4, 0⟩, ⟨4, 4⟩, ⟨0, 4⟩, ⟨0, 0⟩], []⟩
/-- the F5 square: clockwise, one repeated vertex, closing vertex repeated -/
def sqRep : Poly := ⟨[⟨0, 0⟩, ⟨0, 4⟩, ⟨0, 4⟩, ⟨4, 4⟩, ⟨4, 0⟩, ⟨0, 0⟩, ⟨0, 0⟩], []⟩

/-! ### S2 from validity (C04X): the hypotheses of the two `_partial` theorems above, proved -/

/-- a valid polygon with a hole, for the examples -/
def sqHole : Poly :=
  ⟨[⟨0, 0⟩, ⟨6, 0⟩, ⟨6, 6⟩, ⟨0, 6⟩, ⟨0, 0⟩], [[⟨2, 2⟩, ⟨2, 4⟩, ⟨4, 4⟩, ⟨4, 2⟩, ⟨2, 2⟩]]⟩

/-- `p` lies on no ring of the (multi)polygon -/
def offRings (p : Pt) (ps : List Poly) : Prop := ∀ r ∈ rings ps, onAnySeg p (segs r) = false

instance (p : Pt) (ps : List Poly) : Decidable (offRings p ps) := by unfold offRings; infer_instance

/-- [T] **spec adequacy S2 for one valid polygon, proved**: at every point off its rings the even-odd
parity over all its rings is its interior. Each simple ring winds `0` or by the sign of its area
(`simple_wind_level`), where a hole winds the shell winds (`hole_in_shell_level`), two holes never
wind together (`rings_apart_level`) — Lemmas/C04XScan.lean, from the WIND / SMLX Jordan lemmas, on
levels that avoid the coordinates; every other point off the rings has such a point just above it
with the same winding numbers (`exists_generic`, Lemmas/C04XGeneric.lean). -/
theorem evenOdd_eq_inside_valid (q : Poly) (p : Pt) (hv : polyValid q = true)
    (hoff : ∀ r ∈ q.rings, onAnySeg p (segs r) = false) : evenOddRings p q.rings = polyInside p q :=
  evenOdd_of_layered (layered_of_valid_off hv hoff)

/-- on the level of the hole's lower edge and of no coordinate-free line: (3, 1) is level-free, (1, 2) is not -/
example : evenOddRings ⟨1, 2⟩ sqHole.rings = polyInside ⟨1, 2⟩ sqHole :=
  evenOdd_eq_inside_valid sqHole ⟨1, 2⟩ (by decide +kernel) (by decide +kernel)
example : polyInside ⟨3, 1⟩ sqHole = true ∧ polyInside ⟨3, 3⟩ sqHole = false := by decide +kernel

private theorem valid_rings_closed (a : List Poly) (ha : ∀ q ∈ a, polyValid q = true) :
    ∀ r ∈ rings a, ringClosed r = true := by
  intro r hr
  obtain ⟨q, hq, hrq⟩ := List.mem_flatMap.1 hr
  obtain ⟨hse, hsimple, _⟩ := Geo.Proofs.C02Q.polyValid_unpack (ha q hq)
  have hs : ringSimple r = true := by
    unfold Poly.rings at hrq
    rcases List.mem_cons.1 hrq with rfl | h
    · exact hse
    · exact hsimple r h
  have := Geo.Proofs.C12.closed_of_simple hs
  simp [ringClosed, this]

private theorem offRings_member {p : Pt} {ps : List Poly} (h : offRings p ps) {q : Poly} (hq : q ∈ ps) :
    ∀ r ∈ q.rings, onAnySeg p (segs r) = false :=
  fun r hr => h r (List.mem_flatMap.2 ⟨q, hq, hr⟩)

/-- [Tp] **pointwise statement of the property for valid MultiPolygon operands**:
`inside (A op B) ⇔ op (inside A, inside B)` for every engine meeting the specification and every
point off the rings and far from them.
Extra hypotheses `hda`, `hdb`: at most one member of each operand contains `p` (members that are
valid one by one but may overlap each other elsewhere). For a valid MultiPolygon they are theorems
(`members_apart`).
Full statement: `multiPolyValid a`, `multiPolyValid b` instead of `ha`, `hb`, `hda`, `hdb` —
**proved below as `booleanOp_pointwise`**. -/
theorem booleanOp_pointwise_multi_partial {E : Engine} {far : Pt → List Path → Prop} (hE : EngineSpec E far)
    (a b : List Poly) (op : OpType) (p : Pt)
    (ha : ∀ q ∈ a, polyValid q = true) (hb : ∀ q ∈ b, polyValid q = true)
    (hoa : offRings p a) (hob : offRings p b)
    (hda : a.Pairwise (fun m1 m2 => polyInside p m1 = false ∨ polyInside p m2 = false))
    (hdb : b.Pairwise (fun m1 m2 => polyInside p m1 = false ∨ polyInside p m2 = false))
    (hfar : far p ((rings a).map ringToShapePath ++ (rings b).map ringToShapePath)) :
    mpInside p (booleanOp E a b op) = opCombine op (mpInside p a) (mpInside p b) :=
  booleanOp_pointwise_partial hE a b op p (valid_rings_closed a ha) (valid_rings_closed b hb) hfar
    (evenOdd_multi p a (fun q hq => layered_of_valid_off (ha q hq) (offRings_member hoa hq)) hda)
    (evenOdd_multi p b (fun q hq => layered_of_valid_off (hb q hq) (offRings_member hob hq)) hdb)

/-- [T] **pointwise statement of the property for valid Polygon operands, at full strength** (S2 no
longer assumed): for every engine meeting the specification, all four operations, polygons with
holes, either winding, repeated vertices and repeated closing vertices, and every point off the rings
and far from them: `inside (A op B) ⇔ op (inside A, inside B)`, `Difference = A ∧ ¬B`. -/
theorem booleanOp_pointwise_polygon {E : Engine} {far : Pt → List Path → Prop} (hE : EngineSpec E far)
    (a b : Poly) (op : OpType) (p : Pt)
    (ha : polyValid a = true) (hb : polyValid b = true)
    (hoa : offRings p [a]) (hob : offRings p [b])
    (hfar : far p ((rings [a]).map ringToShapePath ++ (rings [b]).map ringToShapePath)) :
    mpInside p (booleanOp E [a] [b] op) = opCombine op (polyInside p a) (polyInside p b) := by
  have h := booleanOp_pointwise_multi_partial hE [a] [b] op p
    (fun q hq => by rw [List.mem_singleton.1 hq]; exact ha)
    (fun q hq => by rw [List.mem_singleton.1 hq]; exact hb)
    hoa hob
    (List.pairwise_singleton _ _) (List.pairwise_singleton _ _) hfar
  rw [h]
  simp [mpInside]

/-- "consistently wound" in terms of exact areas: `σ = 1` every exterior counter-clockwise and every
hole clockwise, `σ = -1` the other way round -/
def ConsistentlyWound (ms : List Poly) (σ : Int) : Prop :=
  (σ = 1 ∨ σ = -1) ∧
  ∀ m ∈ ms, 0 < (σ : Rat) * shoelace2 m.ext ∧ ∀ h ∈ m.ints, (σ : Rat) * shoelace2 h < 0

private theorem firstWinding_of_valid (m : Poly) (t : List Poly) (hv : polyValid m = true) :
    (firstWinding ((m :: t).flatMap Poly.rings) = some .cw ↔ shoelace2 m.ext < 0) ∧
    (0 < shoelace2 m.ext ∨ shoelace2 m.ext < 0) := by
  obtain ⟨hse, _, _⟩ := Geo.Proofs.C02Q.polyValid_unpack hv
  have hc := Geo.Proofs.C12.closed_of_simple hse
  obtain ⟨h1, h2, h3, h4⟩ := Geo.Proofs.C05.windingOrder_eq_sign_area_simple m.ext hse
  rw [Geo.Proofs.C05L.twice_closed m.ext hc] at h1 h2 h4
  have hr : (m :: t).flatMap Poly.rings = m.ext :: (m.ints ++ t.flatMap Poly.rings) := by
    simp [Poly.rings]
  rw [hr]
  cases hw : windingOrder m.ext with
  | none => exact absurd hw h3
  | some w =>
    have hf : firstWinding (m.ext :: (m.ints ++ t.flatMap Poly.rings)) = some w := by
      simp [firstWinding, hw]
    rw [hf]
    cases w with
    | cw =>
      have := h2.1 hw
      exact ⟨⟨fun _ => this, fun _ => rfl⟩, Or.inr this⟩
    | ccw =>
      have := h1.1 hw
      refine ⟨⟨fun h => (by cases h), fun h => absurd h (not_lt.2 (le_of_lt this))⟩, Or.inl this⟩

/-- [T] `WindingValid`, the hypothesis of `unaryUnion_region_partial`, holds for every non-empty
consistently wound collection of valid polygons at every point off the rings: each member's winding
function is `σ ·` its indicator (`windRings_of_layered`) and the first ring's `winding_order` is the
sign of its area (C05 `windingOrder_eq_sign_area_simple`). -/
theorem windingValid_of_valid (ms : List Poly) (σ : Int) (p : Pt) (hne : ms ≠ [])
    (hv : ∀ m ∈ ms, polyValid m = true) (hw : ConsistentlyWound ms σ)
    (hoff : offRings p ms) : WindingValid ms σ p := by
  obtain ⟨hσ, hor⟩ := hw
  refine ⟨hσ, ?_, ?_, ?_⟩
  · cases ms with
    | nil => exact absurd rfl hne
    | cons m t =>
      obtain ⟨hf, _⟩ := firstWinding_of_valid m t (hv m List.mem_cons_self)
      have he := (hor m List.mem_cons_self).1
      rw [hf]
      rcases hσ with rfl | rfl
      · push_cast at he
        constructor
        · intro h; linarith
        · intro h; cases h
      · push_cast at he
        constructor
        · intro _; rfl
        · intro _; linarith
  · intro m hm
    exact windRings_of_layered (layered_of_valid_off (hv m hm) (offRings_member hoff hm)) hσ
      (hor m hm).1 (hor m hm).2
  · intro m hm r hr
    exact valid_rings_closed [m] (fun q hq => by rw [List.mem_singleton.1 hq]; exact hv m hm) r
      (by simp [rings, hr])

/-- [T] **`unary_union` of a consistently wound collection of valid polygons covers exactly the union
of its members, at full strength** (overlapping, edge-sharing, nested members included; `WindingValid`
no longer assumed): the Positive rule for a clockwise first ring, the Negative rule otherwise, select
`{p | ∃ member, inside member p}` — for every engine meeting the specification and every point off
the rings and far from them. With `foldUnion_region`: the same region as the fold of pairwise unions. -/
theorem unaryUnion_region_valid {E : Engine} {far : Pt → List Path → Prop} (hE : EngineSpec E far)
    (ms : List Poly) (σ : Int) (p : Pt)
    (hv : ∀ m ∈ ms, polyValid m = true) (hw : ConsistentlyWound ms σ)
    (hoff : offRings p ms)
    (hfar : far p ((ms.flatMap Poly.rings).map ringToShapePath)) :
    mpInside p (unaryUnion E (ms.map (fun m => [m]))) = ms.any (polyInside p) := by
  by_cases hne : ms = []
  · subst hne
    exact unaryUnion_region_partial hE [] 1 p
      ⟨Or.inl rfl, by simp [firstWinding], by simp, by simp⟩ hfar
  · exact unaryUnion_region_partial hE ms σ p (windingValid_of_valid ms σ p hne hv hw hoff) hfar

/-- [T] **what `unary_union` computes on every collection, consistently wound or not**: the
Positive / Negative region of the *summed* winding numbers of all rings, the rule taken from the
first ring that has a winding order. No validity, no orientation hypothesis. For an inconsistently
wound collection the members wound against the first ring count with the wrong sign: alone they are
dropped, over another member they cut a hole (next theorem; the driver records the same behaviour of
the real code, tag `mixed … region=fill-rule`). -/
theorem unaryUnion_fill_region {E : Engine} {far : Pt → List Path → Prop} (hE : EngineSpec E far)
    (ms : List Poly) (p : Pt) (hc : ∀ r ∈ ms.flatMap Poly.rings, ringClosed r = true)
    (hfar : far p ((ms.flatMap Poly.rings).map ringToShapePath)) :
    mpInside p (unaryUnion E (ms.map (fun m => [m]))) =
      filled (unaryFillRule (ms.flatMap Poly.rings)) (-(windRings p (ms.flatMap Poly.rings))) := by
  unfold unaryUnion
  simp only [rings_singletons]
  have hok : ∀ q ∈ (ms.flatMap Poly.rings).map ringToShapePath, pathOk q = true := by
    intro q hq
    obtain ⟨r, _, rfl⟩ := List.mem_map.1 hq
    exact ringToShapePath_pathOk r
  rw [multiPolygonFromShapes_inside, hE.single_region _ _ p hok hfar]
  unfold fillRegion
  rw [windPaths_rings p _ hc]

/-- a clockwise square away from `sq` -/
def sqFarCw : Poly := ⟨[⟨10, 0⟩, ⟨10, 4⟩, ⟨14, 4⟩, ⟨14, 0⟩, ⟨10, 0⟩], []⟩
/-- a clockwise square overlapping `sq` -/
def sqOverCw : Poly := ⟨[⟨2, 2⟩, ⟨2, 6⟩, ⟨6, 6⟩, ⟨6, 2⟩, ⟨2, 2⟩], []⟩

/-- [T] **witness for inconsistently wound input**: a counter-clockwise square followed by a
clockwise one. For every engine meeting the specification the clockwise member is *not* part of the
result although it is part of the union (the Negative rule, chosen from the first ring, does not
fill winding number −1); and where a clockwise member overlaps the first one the overlap is cut out
(winding number 0). `unary_union` is the union only on its stated domain. -/
theorem unaryUnion_inconsistent_witness {E : Engine} {far : Pt → List Path → Prop} (hE : EngineSpec E far) :
    (far ⟨11, 1⟩ (([sq, sqFarCw].flatMap Poly.rings).map ringToShapePath) →
      mpInside ⟨11, 1⟩ (unaryUnion E ([sq, sqFarCw].map (fun m => [m]))) = false ∧
      [sq, sqFarCw].any (polyInside ⟨11, 1⟩) = true) ∧
    (far ⟨3, 3⟩ (([sq, sqOverCw].flatMap Poly.rings).map ringToShapePath) →
      mpInside ⟨3, 3⟩ (unaryUnion E ([sq, sqOverCw].map (fun m => [m]))) = false ∧
      [sq, sqOverCw].any (polyInside ⟨3, 3⟩) = true) := by
  constructor
  · intro hfar
    rw [unaryUnion_fill_region hE _ _ (by decide +kernel) hfar]
    decide +kernel
  · intro hfar
    rw [unaryUnion_fill_region hE _ _ (by decide +kernel) hfar]
    decide +kernel

private theorem consistentlyWound_ex : ConsistentlyWound [sqHole, sq] 1 :=
  ⟨Or.inl rfl, by
    intro m hm
    simp only [List.mem_cons, List.not_mem_nil, or_false] at hm
    rcases hm with rfl | rfl
    · refine ⟨by norm_num [sqHole, shoelace2, det], ?_⟩
      intro h hh
      simp only [sqHole, List.mem_singleton] at hh
      subst hh
      norm_num [shoelace2, det]
    · exact ⟨by norm_num [sq, shoelace2, det], by intro h hh; simp [sq] at hh⟩⟩

/-- [Tp] **pointwise statement of the property for valid MultiPolygon operands whose members have no
holes**: member disjointness is proved from `multiPolyValid` (`II = F`, `dim BB ≤ 0` per pair is then
the ring-level statement `rings_apart_level`), so nothing topological is assumed.
Extra hypotheses `hha`, `hhb`: no member has a hole (then member disjointness is the ring-level
statement `rings_apart_level`; kept as the short route).
Full statement: the same without `hha`, `hhb` — **proved below as `booleanOp_pointwise`**. -/
theorem booleanOp_pointwise_multi_holefree_partial {E : Engine} {far : Pt → List Path → Prop}
    (hE : EngineSpec E far) (a b : List Poly) (op : OpType) (p : Pt)
    (ha : multiPolyValid a = true) (hb : multiPolyValid b = true)
    (hha : ∀ m ∈ a, m.ints = []) (hhb : ∀ m ∈ b, m.ints = [])
    (hoa : offRings p a) (hob : offRings p b)
    (hfar : far p ((rings a).map ringToShapePath ++ (rings b).map ringToShapePath)) :
    mpInside p (booleanOp E a b op) = opCombine op (mpInside p a) (mpInside p b) :=
  booleanOp_pointwise_multi_partial hE a b op p (multiPolyValid_members ha) (multiPolyValid_members hb)
    hoa hob (members_apart_holefree ha hha p hoa) (members_apart_holefree hb hhb p hob) hfar

/-- [T] **the pointwise statement of the property, at full strength, for valid MultiPolygon operands**:
for every engine meeting the specification, all four operations, members with holes, either winding,
repeated vertices, and every point off the rings and far from them,
`inside (A op B) ⇔ op (inside A, inside B)` with `Difference = A ∧ ¬B`. Nothing topological is assumed:
S2 for each member is `evenOdd_eq_inside_valid`, and at most one member of a valid MultiPolygon
contains the point (`members_apart`, Lemmas/C04XMembers.lean: from `II = F`, `dim BB ≤ 0` of
`multiPolyValid` by a scan to the nearest crossing and the atoms of the DE-9IM specification). -/
theorem booleanOp_pointwise {E : Engine} {far : Pt → List Path → Prop} (hE : EngineSpec E far)
    (a b : List Poly) (op : OpType) (p : Pt)
    (ha : multiPolyValid a = true) (hb : multiPolyValid b = true)
    (hoa : offRings p a) (hob : offRings p b)
    (hfar : far p ((rings a).map ringToShapePath ++ (rings b).map ringToShapePath)) :
    mpInside p (booleanOp E a b op) = opCombine op (mpInside p a) (mpInside p b) :=
  booleanOp_pointwise_multi_partial hE a b op p (multiPolyValid_members ha) (multiPolyValid_members hb)
    hoa hob (members_apart ha p hoa) (members_apart hb p hob) hfar

/-- two members, one with a hole, the other inside that hole -/
def sqInHole : Poly := ⟨[⟨5/2, 5/2⟩, ⟨7/2, 5/2⟩, ⟨7/2, 7/2⟩, ⟨5/2, 7/2⟩, ⟨5/2, 5/2⟩], []⟩

example : multiPolyValid [sqHole, sqInHole] = true ∧ offRings ⟨1, 1⟩ [sqHole, sqInHole] := by
  decide +kernel

/-- a counter-clockwise square away from `sq` -/
def sqFar : Poly := ⟨[⟨10, 0⟩, ⟨14, 0⟩, ⟨14, 4⟩, ⟨10, 4⟩, ⟨10, 0⟩], []⟩

example : multiPolyValid [sq, sqFar] = true ∧ (∀ m ∈ [sq, sqFar], m.ints = []) ∧
    offRings ⟨1, 1⟩ [sq, sqFar] := by decide +kernel

/-- `sqHole` clockwise, with a repeated vertex and repeated closing vertices -/
def sqHoleRep : Poly :=
  ⟨[⟨0, 0⟩, ⟨6, 0⟩, ⟨6, 0⟩, ⟨6, 6⟩, ⟨0, 6⟩, ⟨0, 0⟩, ⟨0, 0⟩],
   [[⟨2, 2⟩, ⟨2, 4⟩, ⟨4, 4⟩, ⟨4, 2⟩, ⟨2, 2⟩, ⟨2, 2⟩, ⟨2, 2⟩]]⟩

/-! ### The glue round trip (C04X) -/

/-- [T] **`polygon_from_shape ∘ ring_to_shape_path`, for every polygon**: the polygon rebuilt from the
paths of a polygon's own rings has one ring per ring, exterior first, holes after in the same order;
each is the path closed once and reversed (`coreRing r = close (ring_to_shape_path r)`; the engine's
shapes are wound the other way round, which `polygon_from_shape` undoes). -/
theorem glue_roundTrip (q : Poly) :
    polygonFromShape (q.rings.map ringToShapePath) =
      ⟨(coreRing q.ext).reverse, q.ints.map (fun h => (coreRing h).reverse)⟩ :=
  roundTrip_poly q

/-- [T] **… reproduces a valid polygon's rings up to the dropped closing coordinates**: for every
ring `r` of a valid polygon, `coreRing r` is the path plus one closing coordinate, and `r` is
`coreRing r` followed by `k ≥ 0` further copies of the closing coordinate — nothing else is lost,
for all valid polygons (repeated vertices and repeated closing vertices included). -/
theorem glue_roundTrip_valid (q : Poly) (hv : polyValid q = true) :
    ∀ r ∈ q.rings, ∃ k : Nat, r = coreRing r ++ List.replicate k (r.headD ⟨0, 0⟩) ∧
      coreRing r = ringToShapePath r ++ [r.headD ⟨0, 0⟩] := by
  intro r hr
  obtain ⟨hse, hsimple, _⟩ := Geo.Proofs.C02Q.polyValid_unpack hv
  have hs : ringSimple r = true := by
    unfold Poly.rings at hr
    rcases List.mem_cons.1 hr with rfl | h
    · exact hse
    · exact hsimple r h
  have hc := Geo.Proofs.C12.closed_of_simple hs
  obtain ⟨a, b, ha, hb, hab⟩ := Geo.Proofs.SMLX.simple_two_coords hs
  apply coreRing_decomp r (by simp [ringClosed, hc])
  by_cases h1 : a = r.headD ⟨0, 0⟩
  · exact ⟨b, hb, fun h => hab (h1.trans h.symm)⟩
  · exact ⟨a, ha, h1⟩

/-- [T] a ring whose last-but-one coordinate is not the closing coordinate comes back exactly
(reversed twice = itself): `coreRing r = r`. -/
theorem glue_roundTrip_exact (r : List Pt) (hc : ringClosed r = true)
    (h2 : ∃ v ∈ r, v ≠ r.headD ⟨0, 0⟩) (hl : r.dropLast.getLast? ≠ r.head?) : coreRing r = r :=
  coreRing_eq_self r hc h2 hl

/-- [T] the round trip keeps the region, for every polygon with closed rings. -/
theorem glue_roundTrip_region (p : Pt) (q : Poly) (hc : ∀ r ∈ q.rings, ringClosed r = true) :
    polyInside p (polygonFromShape (q.rings.map ringToShapePath)) = polyInside p q := by
  rw [polygonFromShape_inside]
  simp only [Poly.rings, List.map_cons, shapeInside, polyInside, List.all_map]
  rw [ringToShapePath_wind p q.ext (hc _ (by simp [Poly.rings]))]
  have hall : ∀ l : List (List Pt), (∀ h ∈ l, ringClosed h = true) →
      l.all ((fun h => windPath p h == 0) ∘ ringToShapePath) = l.all (fun h => windRing p h == 0) := by
    intro l hl
    induction l with
    | nil => rfl
    | cons h t ih =>
      simp only [List.all_cons, Function.comp] at ih ⊢
      rw [ringToShapePath_wind p h (hl h (by simp)), ih (fun g hg => hl g (by simp [hg]))]
  rw [hall q.ints (fun h hh => hc h (by simp [Poly.rings, hh]))]

example : polygonFromShape (sqHoleRep.rings.map ringToShapePath) =
    ⟨[⟨0, 0⟩, ⟨0, 6⟩, ⟨6, 6⟩, ⟨6, 0⟩, ⟨6, 0⟩, ⟨0, 0⟩], [[⟨2, 2⟩, ⟨4, 2⟩, ⟨4, 4⟩, ⟨2, 4⟩, ⟨2, 2⟩]]⟩ := by
  decide +kernel
example : polyValid sqHoleRep = true := by decide +kernel
example : coreRing sq.ext = sq.ext :=
  glue_roundTrip_exact _ (by decide +kernel) ⟨⟨4, 0⟩, by simp [sq], by decide +kernel⟩ (by decide +kernel)

/-- [T] the region of the fold of pairwise unions (each step `acc ∪ m`, pointwise `acc ∨ inside m` by
`booleanOp_pointwise_partial`) is the union of the members: the same region as `unary_union`. -/
theorem foldUnion_region (p : Pt) (ms : List Poly) :
    ms.foldl (fun acc m => opCombine .union acc (polyInside p m)) false = ms.any (polyInside p) := by
  have key : ∀ (l : List Poly) (acc : Bool),
      l.foldl (fun acc m => opCombine .union acc (polyInside p m)) acc = (acc || l.any (polyInside p)) := by
    intro l
    induction l with
    | nil => intro acc; simp
    | cons m t ih =>
      intro acc
      rw [List.foldl_cons, ih, List.any_cons]
      simp only [opCombine, Bool.or_assoc]
  simpa using key ms false

/-! ### `clip` -/

private theorem multiLineStringFromPaths_id (ps : List Path) : multiLineStringFromPaths ps = ps := by
  unfold multiLineStringFromPaths lineStringFromPath
  exact List.map_id' ps

/-- [T] `clip(ls, false)` and `clip(ls, true)` partition the line string: a point of `ls` far from
the polygon's boundary lies on the first exactly when it is in the polygon (even-odd form), on the
second exactly when it is not — so it lies on exactly one of them, and the lengths add up. -/
theorem clip_partition {E : Engine} {far : Pt → List Path → Prop} (hE : EngineSpec E far)
    (a : List Poly) (ls : List (List Pt)) (p : Pt)
    (ha : ∀ r ∈ rings a, ringClosed r = true)
    (hfar : far p ((rings a).map ringToShapePath)) (hon : onLines p ls = true) :
    onLines p (clip E a ls false) = evenOddRings p (rings a) ∧
    onLines p (clip E a ls true) = !(evenOddRings p (rings a)) := by
  have hok : ∀ q ∈ (rings a).map ringToShapePath, pathOk q = true := by
    intro q hq
    obtain ⟨r, _, rfl⟩ := List.mem_map.1 hq
    exact ringToShapePath_pathOk r
  unfold clip
  simp only [multiLineStringFromPaths_id]
  rw [hE.clip_region ls _ _ false p hok hfar hon, hE.clip_region ls _ _ true p hok hfar hon,
    fillRegion_evenOdd_rings p _ ha]
  constructor
  · cases evenOddRings p (rings a) <;> rfl
  · cases evenOddRings p (rings a) <;> rfl

/-- [T] every clipped piece is part of the line string. -/
theorem clip_subset {E : Engine} {far : Pt → List Path → Prop} (hE : EngineSpec E far)
    (a : List Poly) (ls : List (List Pt)) (invert : Bool) (p : Pt)
    (hfar : far p ((rings a).map ringToShapePath)) (h : onLines p (clip E a ls invert) = true) :
    onLines p ls = true := by
  unfold clip at h
  simp only [multiLineStringFromPaths_id] at h
  exact hE.clip_subset ls _ _ invert true p hfar h

/-! ### The area identities and length conservation at the level of the specification (C04X) -/

/-- [T] **the three area identities of the property, for the region semantics of BoolSpec and every
measure**: `μ` any functional on regions that is finitely additive and ignores what happens outside
`dom` (`AdditiveOn dom μ`; the exact area restricted to the points off the tolerance band is one,
every weighted finite sample is one — `sampleMeasure_additive`). -/
theorem area_identities {dom : Pt → Prop} {μ : Region → Rat} (hμ : AdditiveOn dom μ) (A B : Region) :
    μ (opRegion .union A B) + μ (opRegion .intersection A B) = μ A + μ B ∧
    μ (opRegion .difference A B) = μ A - μ (opRegion .intersection A B) ∧
    μ (opRegion .xor A B) = μ (opRegion .union A B) - μ (opRegion .intersection A B) :=
  ⟨measure_union_add_inter hμ A B, measure_difference hμ A B, measure_xor hμ A B⟩

/-- [T] the expected areas the driver's oracle demands of the four results are forced by additivity:
`μ(A op B) = expectedArea op μ(A) μ(B) μ(A∩B)` for every measure. -/
theorem area_eq_expectedArea {dom : Pt → Prop} {μ : Region → Rat} (hμ : AdditiveOn dom μ)
    (op : OpType) (A B : Region) :
    μ (opRegion op A B) = expectedArea op (μ A) (μ B) (μ (opRegion .intersection A B)) :=
  measure_eq_expectedArea hμ op A B

/-- [T] **the area identities for the results of the four operations**: for every engine meeting the
specification, operands with closed rings and every measure that lives on the points far from the
input boundaries (the identities hold "up to the tolerance": whatever the engine does inside the
tolerance band is not measured),
`area(A∩B) + area(A∪B) = area(A) + area(B)`, `area(A−B) = area(A) − area(A∩B)`,
`area(A xor B) = area(A∪B) − area(A∩B)`, and each result has the area the oracle expects. -/
theorem booleanOp_area_identities {E : Engine} {far : Pt → List Path → Prop} (hE : EngineSpec E far)
    (a b : List Poly)
    (ha : ∀ r ∈ rings a, ringClosed r = true) (hb : ∀ r ∈ rings b, ringClosed r = true)
    {μ : Region → Rat}
    (hμ : AdditiveOn (fun p => far p ((rings a).map ringToShapePath ++ (rings b).map ringToShapePath)) μ) :
    let R : OpType → Region := fun op p => mpInside p (booleanOp E a b op)
    let A : Region := fun p => evenOddRings p (rings a)
    let B : Region := fun p => evenOddRings p (rings b)
    (μ (R .union) + μ (R .intersection) = μ A + μ B ∧
     μ (R .difference) = μ A - μ (R .intersection) ∧
     μ (R .xor) = μ (R .union) - μ (R .intersection)) ∧
    ∀ op, μ (R op) = expectedArea op (μ A) (μ B) (μ (R .intersection)) := by
  intro R A B
  have hR : ∀ op, μ (R op) = μ (opRegion op A B) := by
    intro op
    apply hμ.congr
    intro p hp
    exact booleanOp_evenOdd hE a b op p ha hb hp
  refine ⟨?_, ?_⟩
  · rw [hR .union, hR .intersection, hR .difference, hR .xor]
    exact area_identities hμ A B
  · intro op
    rw [hR op, hR .intersection]
    exact measure_eq_expectedArea hμ op A B

/-- [T] the identities hold for the expected areas themselves (what the oracle compares the
implementation's areas with). -/
theorem expectedArea_identities (aA aB aI : Rat) :
    expectedArea .union aA aB aI + expectedArea .intersection aA aB aI = aA + aB ∧
    expectedArea .difference aA aB aI = aA - expectedArea .intersection aA aB aI ∧
    expectedArea .xor aA aB aI = expectedArea .union aA aB aI - expectedArea .intersection aA aB aI :=
  ⟨expectedArea_union_add_inter aA aB aI, expectedArea_difference aA aB aI, expectedArea_xor aA aB aI⟩

/-- [T] **the driver's exact area functional**: the signed fan triangles from which the oracle computes
`|A∩B| = Σ wᵢwⱼ·|Tᵢ∩Tⱼ|` carry exactly the shoelace area, `Σ wᵢ·|Tᵢ| = |A|`, from any apex and for
every (multi)polygon with closed rings. -/
theorem oracle_fan_area (o : Pt) (ps : List Poly) (hc : ∀ p ∈ ps, ∀ r ∈ p.rings, ringClosed r = true) :
    fanArea (mpFan o ps) = mpArea ps :=
  mpFan_area o ps (fun p hp r hr => by simpa [ringClosed] using hc p hp r hr)

/-- [T] **`clip` conserves length**: for every engine meeting the specification and every measure `ν`
on the points far from the polygon's boundary (arc length restricted to them; any weighted sample of
the line), the part kept by `clip(ls, false)` and the part kept by `clip(ls, true)` add up to the line:
`ν(inside) + ν(outside) = ν(total)`. -/
theorem clip_length_conserved {E : Engine} {far : Pt → List Path → Prop} (hE : EngineSpec E far)
    (a : List Poly) (ls : List (List Pt)) (ha : ∀ r ∈ rings a, ringClosed r = true)
    {ν : Region → Rat} (hν : AdditiveOn (fun p => far p ((rings a).map ringToShapePath)) ν) :
    ν (fun p => onLines p (clip E a ls false)) + ν (fun p => onLines p (clip E a ls true)) =
      ν (fun p => onLines p ls) := by
  have key : ∀ p, far p ((rings a).map ringToShapePath) →
      (onLines p (clip E a ls false) || onLines p (clip E a ls true)) = onLines p ls ∧
      (onLines p (clip E a ls false) && onLines p (clip E a ls true)) = false := by
    intro p hp
    cases hon : onLines p ls with
    | true =>
      obtain ⟨h1, h2⟩ := clip_partition hE a ls p ha hp hon
      rw [h1, h2]
      cases evenOddRings p (rings a) <;> exact ⟨rfl, rfl⟩
    | false =>
      have f1 : onLines p (clip E a ls false) = false := by
        cases h : onLines p (clip E a ls false) with
        | false => rfl
        | true => rw [clip_subset hE a ls false p hp h] at hon; cases hon
      have f2 : onLines p (clip E a ls true) = false := by
        cases h : onLines p (clip E a ls true) with
        | false => rfl
        | true => rw [clip_subset hE a ls true p hp h] at hon; cases hon
      rw [f1, f2]; exact ⟨rfl, rfl⟩
  exact measure_partition hν _ _ _ (fun p hp => (key p hp).1) (fun p hp => (key p hp).2)

/-! ### S2 for MultiPolygons, `clip` and the area identities in terms of the operands' interiors (C04X) -/

/-- [T] **spec adequacy S2 for a valid MultiPolygon, proved**: at every point off the rings the
even-odd parity over all rings of all members is membership in some member. -/
theorem evenOdd_eq_inside_multi (a : List Poly) (p : Pt) (ha : multiPolyValid a = true)
    (hoa : offRings p a) : evenOddRings p (rings a) = mpInside p a :=
  evenOdd_multi p a
    (fun q hq => layered_of_valid_off (multiPolyValid_members ha q hq) (offRings_member hoa hq))
    (members_apart ha p hoa)

/-- [T] **`clip` keeps exactly the parts of the line inside the polygon** (inverted: outside), for a
valid (Multi)Polygon, every engine meeting the specification and every point of the line off the rings
and far from them: it lies on `clip(ls, false)` iff it is inside, on `clip(ls, true)` iff it is not. -/
theorem clip_partition_valid {E : Engine} {far : Pt → List Path → Prop} (hE : EngineSpec E far)
    (a : List Poly) (ls : List (List Pt)) (p : Pt) (ha : multiPolyValid a = true) (hoa : offRings p a)
    (hfar : far p ((rings a).map ringToShapePath)) (hon : onLines p ls = true) :
    onLines p (clip E a ls false) = mpInside p a ∧ onLines p (clip E a ls true) = !(mpInside p a) := by
  have h := clip_partition hE a ls p (valid_rings_closed a (multiPolyValid_members ha)) hfar hon
  rw [evenOdd_eq_inside_multi a p ha hoa] at h
  exact h

/-- [T] **the area identities for the results of the four operations on valid operands, in terms of
the operands' interiors**: as `booleanOp_area_identities`, with `area(A)`, `area(B)` the measures of
`{p | inside A p}`, `{p | inside B p}`; `hfo`: a far point is off the rings. -/
theorem booleanOp_area_identities_valid {E : Engine} {far : Pt → List Path → Prop} (hE : EngineSpec E far)
    (a b : List Poly) (ha : multiPolyValid a = true) (hb : multiPolyValid b = true)
    (hfo : ∀ p, far p ((rings a).map ringToShapePath ++ (rings b).map ringToShapePath) →
      offRings p a ∧ offRings p b)
    {μ : Region → Rat}
    (hμ : AdditiveOn (fun p => far p ((rings a).map ringToShapePath ++ (rings b).map ringToShapePath)) μ) :
    let R : OpType → Region := fun op p => mpInside p (booleanOp E a b op)
    let A : Region := fun p => mpInside p a
    let B : Region := fun p => mpInside p b
    (μ (R .union) + μ (R .intersection) = μ A + μ B ∧
     μ (R .difference) = μ A - μ (R .intersection) ∧
     μ (R .xor) = μ (R .union) - μ (R .intersection)) ∧
    ∀ op, μ (R op) = expectedArea op (μ A) (μ B) (μ (R .intersection)) := by
  intro R A B
  have h := booleanOp_area_identities hE a b (valid_rings_closed a (multiPolyValid_members ha))
    (valid_rings_closed b (multiPolyValid_members hb)) hμ
  have eA : μ (fun p => evenOddRings p (rings a)) = μ A :=
    hμ.congr _ _ (fun p hp => evenOdd_eq_inside_multi a p ha (hfo p hp).1)
  have eB : μ (fun p => evenOddRings p (rings b)) = μ B :=
    hμ.congr _ _ (fun p hp => evenOdd_eq_inside_multi b p hb (hfo p hp).2)
  simp only [eA, eB] at h
  exact h

/-! ### The oracle's membership test is the region of the theorems -/

private theorem locateParts_areal (ps : List Poly) (p : Pt) :
    (locateParts ⟨[], [], ps⟩ p == Pos.inside) =
      ps.any (fun poly => !(onAnySeg p (poly.rings.flatMap segs)) && insidePolyE (EPt.ofPt p) poly) := by
  unfold locateParts
  split
  · next h => rw [h]; rfl
  · next h =>
    have hf := Bool.eq_false_iff.2 h
    rw [hf]
    split
    · rfl
    · split
      · next h3 => exact absurd h3 (by simp [Parts.curveSegs, onAnySeg])
      · split
        · next h4 => exact absurd h4 (by simp)
        · rfl

private theorem parts_multiPolygon (ps : List Poly) : parts (.multiPolygon ps) = ⟨[], [], ps⟩ := by
  simp [parts]

/-- [T] at a point off the rings, `Geo.locate … = Inside` (the C01 specification the driver's oracle
evaluates on the implementation's result) is `mpInside`, the region the theorems above speak about. -/
theorem insideSpec_eq_mpInside (ps : List Poly) (p : Pt)
    (hoff : ∀ poly ∈ ps, onAnySeg p (poly.rings.flatMap segs) = false) :
    insideSpec ps p = mpInside p ps := by
  have hA : ps.any (fun poly => !(onAnySeg p (poly.rings.flatMap segs)) && insidePolyE (EPt.ofPt p) poly)
      = mpInside p ps := by
    unfold mpInside
    induction ps with
    | nil => rfl
    | cons a t ih =>
      rw [List.any_cons, List.any_cons, ih (fun poly h => hoff poly (by simp [h])), hoff a (by simp),
        insidePolyE_eq]
      rfl
  unfold insideSpec locate
  rw [parts_multiPolygon, locateParts_areal, hA]

/-! ### Non-vacuity -/


example : windPath ⟨1, 1⟩ (ringToShapePath sqRep.ext) = -1 := by decide +kernel
example : ringClosed sqRep.ext = true := by decide +kernel
example : WindingValid [sq] 1 ⟨1, 1⟩ := ⟨Or.inl rfl, by decide +kernel, by decide +kernel, by decide +kernel⟩
example : WindingValid [sqRep, sqRep] (-1) ⟨1, 1⟩ := ⟨Or.inr rfl, by decide +kernel, by decide +kernel, by decide +kernel⟩
example : insideSpec [sq] ⟨1, 1⟩ = true := by decide +kernel

/-- An engine that answers one question correctly: the 4×4 square against the empty operand, judged
at the point (1, 1). `EngineSpec` is satisfiable with a non-empty `far` (the real validation of the
assumption is numerical: every run instantiates the engine parameter with i_overlay's recorded answers). -/
def sqPath : Path := [⟨0, 0⟩, ⟨4, 0⟩, ⟨4, 4⟩, ⟨0, 4⟩]
def sqShape : Shape := [[⟨0, 0⟩, ⟨0, 4⟩, ⟨4, 4⟩, ⟨4, 0⟩]]
def E1 : Engine :=
  { overlay := fun s c r f => if ruleCombine r (fillRegion f s ⟨1, 1⟩) (fillRegion f c ⟨1, 1⟩) then [sqShape] else []
    single := fun s f => if fillRegion f s ⟨1, 1⟩ then [sqShape] else []
    clip := fun l c f invert _ =>
      if onLines ⟨1, 1⟩ l && (fillRegion f c ⟨1, 1⟩ != invert) then [[⟨1, 1⟩]] else [] }
def far1 (p : Pt) (_ : List Path) : Prop := p = ⟨1, 1⟩

private theorem sqShape_inside : shapesInside ⟨1, 1⟩ [sqShape] = true := by decide +kernel
private theorem sqShape_ok : shapeOk sqShape = true := by decide +kernel
private theorem pt_onLines : onLines ⟨1, 1⟩ [[⟨1, 1⟩]] = true := by decide +kernel

theorem E1_spec : EngineSpec E1 far1 where
  overlay_region := by
    intro s c r f p _ hp
    rw [show p = ⟨1, 1⟩ from hp]
    simp only [E1]
    cases ruleCombine r (fillRegion f s ⟨1, 1⟩) (fillRegion f c ⟨1, 1⟩)
    · rfl
    · exact sqShape_inside
  overlay_shape := by
    intro s c r f _ sh hsh
    simp only [E1] at hsh
    split at hsh
    · rw [List.mem_singleton.1 hsh]; exact sqShape_ok
    · simp at hsh
  single_region := by
    intro s f p _ hp
    rw [show p = ⟨1, 1⟩ from hp]
    simp only [E1]
    cases fillRegion f s ⟨1, 1⟩
    · rfl
    · exact sqShape_inside
  single_shape := by
    intro s f _ sh hsh
    simp only [E1] at hsh
    split at hsh
    · rw [List.mem_singleton.1 hsh]; exact sqShape_ok
    · simp at hsh
  clip_region := by
    intro l c f invert p _ hp hon
    rw [show p = ⟨1, 1⟩ from hp] at hon ⊢
    simp only [E1, hon, Bool.true_and]
    cases (fillRegion f c ⟨1, 1⟩ != invert)
    · rfl
    · exact pt_onLines
  clip_subset := by
    intro l c f invert incl p hp h
    rw [show p = ⟨1, 1⟩ from hp] at h ⊢
    simp only [E1] at h
    cases hl : onLines ⟨1, 1⟩ l
    · rw [hl] at h; simp [onLines] at h
    · rfl

/-- Non-vacuity of the engine theorems: the F5 square (clockwise, repeated vertex, repeated closing
vertex) united with the empty polygon contains (1, 1). -/
example : mpInside ⟨1, 1⟩ (booleanOp E1 [sqRep] [⟨[], []⟩] .union) = true := by
  rw [booleanOp_evenOdd E1_spec [sqRep] [⟨[], []⟩] .union ⟨1, 1⟩ (by decide +kernel) (by decide +kernel) rfl]
  decide +kernel

example : mpInside ⟨1, 1⟩ (unaryUnion E1 ([sqRep, sqRep].map (fun m => [m]))) = true := by
  rw [unaryUnion_region_partial E1_spec [sqRep, sqRep] (-1) ⟨1, 1⟩
    ⟨Or.inr rfl, by decide +kernel, by decide +kernel, by decide +kernel⟩ rfl]
  decide +kernel

example : onLines ⟨1, 1⟩ (clip E1 [sq] [[⟨0, 1⟩, ⟨5, 1⟩]] false) = true ∧
    onLines ⟨1, 1⟩ (clip E1 [sq] [[⟨0, 1⟩, ⟨5, 1⟩]] true) = false := by
  have h := clip_partition E1_spec [sq] [[⟨0, 1⟩, ⟨5, 1⟩]] ⟨1, 1⟩ (by decide +kernel) rfl (by decide +kernel)
  rw [h.1, h.2]
  constructor <;> decide +kernel

/-- Non-vacuity of the C04X theorems with the engine `E1`: a measure that lives on `far1`; the proved
S2 form of the pointwise statement; `unary_union` of a consistently wound valid collection; the area
identities and length conservation for that measure. -/
theorem sample_far1 (ps : List Path) : AdditiveOn (fun p => far1 p ps) (sampleMeasure [(⟨1, 1⟩, 3)]) :=
  sampleMeasure_additive _ _ (by intro s hs; simp only [List.mem_singleton] at hs; subst hs; rfl)

example : mpInside ⟨1, 1⟩ (booleanOp E1 [sq] [sqHole] .intersection) = true := by
  rw [booleanOp_pointwise_polygon E1_spec sq sqHole .intersection ⟨1, 1⟩ (by decide +kernel)
    (by decide +kernel) (by decide +kernel) (by decide +kernel) rfl]
  decide +kernel

example : mpInside ⟨1, 1⟩ (booleanOp E1 [sq, sqFar] [sq] .intersection) = true := by
  rw [booleanOp_pointwise_multi_holefree_partial E1_spec [sq, sqFar] [sq] .intersection ⟨1, 1⟩
    (by decide +kernel) (by decide +kernel) (by decide +kernel) (by decide +kernel) (by decide +kernel)
    (by decide +kernel) rfl]
  decide +kernel

example : mpInside ⟨1, 1⟩ (booleanOp E1 [sqHole, sqInHole] [sq] .intersection) = true := by
  rw [booleanOp_pointwise E1_spec [sqHole, sqInHole] [sq] .intersection ⟨1, 1⟩
    (by decide +kernel) (by decide +kernel) (by decide +kernel) (by decide +kernel) rfl]
  decide +kernel

example : mpInside ⟨1, 1⟩ (unaryUnion E1 ([sqHole, sq].map (fun m => [m]))) = true := by
  rw [unaryUnion_region_valid E1_spec [sqHole, sq] 1 ⟨1, 1⟩ (by decide +kernel)
    consistentlyWound_ex (by decide +kernel) rfl]
  decide +kernel

example :
    sampleMeasure [(⟨1, 1⟩, 3)] (fun p => mpInside p (booleanOp E1 [sq] [sqHole] .union)) +
    sampleMeasure [(⟨1, 1⟩, 3)] (fun p => mpInside p (booleanOp E1 [sq] [sqHole] .intersection)) =
    sampleMeasure [(⟨1, 1⟩, 3)] (fun p => evenOddRings p (rings [sq])) +
    sampleMeasure [(⟨1, 1⟩, 3)] (fun p => evenOddRings p (rings [sqHole])) :=
  (booleanOp_area_identities E1_spec [sq] [sqHole] (by decide +kernel) (by decide +kernel)
    (sample_far1 _)).1.1

example :
    sampleMeasure [(⟨1, 1⟩, 3)] (fun p => onLines p (clip E1 [sq] [[⟨0, 1⟩, ⟨5, 1⟩]] false)) +
    sampleMeasure [(⟨1, 1⟩, 3)] (fun p => onLines p (clip E1 [sq] [[⟨0, 1⟩, ⟨5, 1⟩]] true)) =
    sampleMeasure [(⟨1, 1⟩, 3)] (fun p => onLines p [[⟨0, 1⟩, ⟨5, 1⟩]]) :=
  clip_length_conserved E1_spec [sq] [[⟨0, 1⟩, ⟨5, 1⟩]] (by decide +kernel) (sample_far1 _)

example : fanArea (mpFan ⟨-1, -1⟩ [sqHole]) = 32 := by
  rw [oracle_fan_area _ _ (by decide +kernel)]
  norm_num [mpArea, polyArea, sumR, sqHole, shoelace2, det, rabs]

/-! ### Non-vacuity, continued: an engine that answers about an arbitrary point -/

/-- the engine `E1` for an arbitrary point `c` and a shape `sh` that contains it -/
def Ec (c : Pt) (sh : Shape) : Engine :=
  { overlay := fun s c' r f => if ruleCombine r (fillRegion f s c) (fillRegion f c' c) then [sh] else []
    single := fun s f => if fillRegion f s c then [sh] else []
    clip := fun l c' f invert _ =>
      if onLines c l && (fillRegion f c' c != invert) then [[c]] else [] }
def farc (c : Pt) (p : Pt) (_ : List Path) : Prop := p = c

private theorem pt_onLines_c (c : Pt) : onLines c [[c]] = true := by
  simp [onLines]

theorem Ec_spec (c : Pt) (sh : Shape) (hin : shapesInside c [sh] = true) (hok : shapeOk sh = true) :
    EngineSpec (Ec c sh) (farc c) where
  overlay_region := by
    intro s c' r f p _ hp
    rw [show p = c from hp]
    simp only [Ec]
    cases ruleCombine r (fillRegion f s c) (fillRegion f c' c)
    · rfl
    · exact hin
  overlay_shape := by
    intro s c' r f _ sh' hsh
    simp only [Ec] at hsh
    split at hsh
    · rw [List.mem_singleton.1 hsh]; exact hok
    · simp at hsh
  single_region := by
    intro s f p _ hp
    rw [show p = c from hp]
    simp only [Ec]
    cases fillRegion f s c
    · rfl
    · exact hin
  single_shape := by
    intro s f _ sh' hsh
    simp only [Ec] at hsh
    split at hsh
    · rw [List.mem_singleton.1 hsh]; exact hok
    · simp at hsh
  clip_region := by
    intro l c' f invert p _ hp hon
    rw [show p = c from hp] at hon ⊢
    simp only [Ec, hon, Bool.true_and]
    cases (fillRegion f c' c != invert)
    · rfl
    · exact pt_onLines_c c
  clip_subset := by
    intro l c' f invert incl p hp h
    rw [show p = c from hp] at h ⊢
    simp only [Ec] at h
    cases hl : onLines c l
    · rw [hl] at h; simp [onLines] at h
    · rfl

/-- the witness for inconsistently wound input is not vacuous: an engine meeting the specification with
(11, 1), resp. (3, 3), far; `unary_union` of the counter-clockwise and the clockwise square misses the
point although a member contains it. -/
example : mpInside ⟨11, 1⟩ (unaryUnion (Ec ⟨11, 1⟩ [[⟨10, 0⟩, ⟨10, 4⟩, ⟨14, 4⟩, ⟨14, 0⟩]])
      ([sq, sqFarCw].map (fun m => [m]))) = false ∧
    [sq, sqFarCw].any (polyInside ⟨11, 1⟩) = true :=
  (unaryUnion_inconsistent_witness
    (Ec_spec ⟨11, 1⟩ [[⟨10, 0⟩, ⟨10, 4⟩, ⟨14, 4⟩, ⟨14, 0⟩]] (by decide +kernel) (by decide +kernel))).1 rfl
example : mpInside ⟨3, 3⟩ (unaryUnion (Ec ⟨3, 3⟩ sqShape) ([sq, sqOverCw].map (fun m => [m]))) = false ∧
    [sq, sqOverCw].any (polyInside ⟨3, 3⟩) = true :=
  (unaryUnion_inconsistent_witness (Ec_spec ⟨3, 3⟩ sqShape (by decide +kernel) (by decide +kernel))).2 rfl

example : mpInside ⟨1, 1⟩ (booleanOp E1 [sq, sqFar] [sqHole] .union) = true := by
  rw [booleanOp_pointwise_multi_partial E1_spec [sq, sqFar] [sqHole] .union ⟨1, 1⟩ (by decide +kernel)
    (by decide +kernel) (by decide +kernel) (by decide +kernel) (by decide +kernel) (by decide +kernel) rfl]
  decide +kernel

example : WindingValid [sqHole, sq] 1 ⟨1, 2⟩ :=
  windingValid_of_valid [sqHole, sq] 1 ⟨1, 2⟩ (by simp) (by decide +kernel) consistentlyWound_ex
    (by decide +kernel)

example : ∀ r ∈ sqHoleRep.rings, ∃ k : Nat, r = coreRing r ++ List.replicate k (r.headD ⟨0, 0⟩) ∧
    coreRing r = ringToShapePath r ++ [r.headD ⟨0, 0⟩] :=
  glue_roundTrip_valid sqHoleRep (by decide +kernel)

example : polyInside ⟨1, 1⟩ (polygonFromShape (sqHoleRep.rings.map ringToShapePath)) = true := by
  rw [glue_roundTrip_region ⟨1, 1⟩ sqHoleRep (by decide +kernel)]
  decide +kernel

example : sampleMeasure [(⟨1, 1⟩, 3), (⟨3, 3⟩, 1 / 2)] (opRegion .xor (fun p => polyInside p sq) (fun p => polyInside p sqHole)) =
    sampleMeasure [(⟨1, 1⟩, 3), (⟨3, 3⟩, 1 / 2)] (opRegion .union (fun p => polyInside p sq) (fun p => polyInside p sqHole)) -
    sampleMeasure [(⟨1, 1⟩, 3), (⟨3, 3⟩, 1 / 2)] (opRegion .intersection (fun p => polyInside p sq) (fun p => polyInside p sqHole)) :=
  (area_identities (sampleMeasure_additive (fun _ => True) _ (fun _ _ => trivial)) _ _).2.2

example : evenOddRings ⟨3, 3⟩ (rings [sqHole, sqInHole]) = mpInside ⟨3, 3⟩ [sqHole, sqInHole] :=
  evenOdd_eq_inside_multi [sqHole, sqInHole] ⟨3, 3⟩ (by decide +kernel) (by decide +kernel)
example : mpInside ⟨3, 3⟩ [sqHole, sqInHole] = true ∧ mpInside ⟨9/4, 9/4⟩ [sqHole, sqInHole] = false := by
  decide +kernel

example : onLines ⟨1, 1⟩ (clip E1 [sq] [[⟨0, 1⟩, ⟨5, 1⟩]] false) = mpInside ⟨1, 1⟩ [sq] :=
  (clip_partition_valid E1_spec [sq] [[⟨0, 1⟩, ⟨5, 1⟩]] ⟨1, 1⟩ (by decide +kernel) (by decide +kernel) rfl
    (by decide +kernel)).1

example :
    sampleMeasure [(⟨1, 1⟩, 3)] (fun p => mpInside p (booleanOp E1 [sqHole, sqInHole] [sq] .difference)) =
    sampleMeasure [(⟨1, 1⟩, 3)] (fun p => mpInside p [sqHole, sqInHole]) -
    sampleMeasure [(⟨1, 1⟩, 3)] (fun p => mpInside p (booleanOp E1 [sqHole, sqInHole] [sq] .intersection)) :=
  (booleanOp_area_identities_valid E1_spec [sqHole, sqInHole] [sq] (by decide +kernel) (by decide +kernel)
    (by intro p hp; rw [show p = ⟨1, 1⟩ from hp]; decide +kernel) (sample_far1 _)).1.2.1

end Geo.Proofs.C04
