/-
  C10 — Triangulations and monotone subdivision tile the polygon exactly.

  Property theorems only. Models: GeoModel/Triangulate.lean (ear-cut glue, the constrained
  Delaunay inside filter, `find_boundary_lines`), GeoModel/MonoPoly.lean (point location in a
  monotone piece, after the `fix:` commit), GeoModel/Tiling.lean (the exact tiling checker).
  The engines (earcutr, spade) are parameters: no theorem is about them; their outputs are decided
  per case by `Tiling.tiles`. The builder of the monotone pieces is modelled (GeoModel/MonoBuildSweep.lean,
  MonoBuild.lean, compared with the code by `C10.monobuild`); the last section is about that model.
-/
import GeoModel.Triangulate
import GeoModel.MonoPoly
import GeoModel.Tiling
import GeoProofs.Lemmas.C10Earcut
import GeoProofs.Lemmas.C10Stitch
import GeoProofs.Lemmas.C10Mono
import GeoProofs.Lemmas.MONOInit
import GeoProofs.Lemmas.MONOSweepC
import GeoProofs.Lemmas.MONOFuelD
import GeoProofs.Lemmas.MONOAtPoint
import GeoProofs.Lemmas.MONOChain
import GeoProofs.Lemmas.MONO2Glue
import GeoProofs.Lemmas.MONO3Glue
import GeoProofs.Lemmas.MONO3Run
import GeoProofs.Lemmas.MONO3Cmp
import GeoProofs.Props.C19
import Mathlib.Tactic.NormNum

namespace Geo.Proofs.C10
open Geo Geo.Tri Geo.Mono Geo.Tiling

/-! ### ear-cut glue (`earcut_indices`) -/

/-- [T] the vertex array handed to the ear-cut routine is the flattened `coords_iter` of the
polygon with every run of repeated consecutive coordinates of a ring written once (`dedupRings`,
the `fix:` for repeated vertices): exterior first, then the interiors in order, `x` then `y` of
every coordinate. -/
theorem earcut_vertices (p : Poly) : (polygonToEarcutInput p).vertices = flat (dedupRings p).coords := by
  have := earcut_fold (dedupRings p).ext [] (dedupRings p).ints []
  simp only [List.flatten_nil, List.append_nil, List.nil_append] at this
  unfold polygonToEarcutInput earcutInputOf
  rw [flatInto_eq, List.nil_append, this]
  rfl

/-- [T] for a polygon without repeated consecutive coordinates nothing is dropped. -/
theorem dedupRuns_id (cs : List Pt) (h : cs.IsChain (· ≠ ·)) : dedupRuns cs = cs := by
  induction cs with
  | nil => rfl
  | cons a t ih =>
    cases t with
    | nil => rfl
    | cons b rest =>
      rw [List.isChain_cons_cons] at h
      have hab : (a == b) = false := by simpa using h.1
      simp only [dedupRuns, hab, Bool.false_eq_true, if_false]
      rw [ih h.2]

/-- [T] every coordinate of a ring survives in the pushed ring, and nothing else is pushed. -/
theorem dedupRuns_mem (cs : List Pt) (c : Pt) : c ∈ dedupRuns cs ↔ c ∈ cs := by
  induction cs with
  | nil => simp [dedupRuns]
  | cons a t ih =>
    cases t with
    | nil => simp [dedupRuns]
    | cons b rest =>
      simp only [dedupRuns]
      split
      · rename_i hab
        have : a = b := by simpa using hab
        subst this
        rw [ih]; simp
      · rw [List.mem_cons, ih]; simp

/-- [T] `vertices.length = 2 · coords_count` of the pushed rings (at most `2 · coords_count`). -/
theorem earcut_vertices_length (p : Poly) :
    (polygonToEarcutInput p).vertices.length = 2 * coordsCount (.polygon (dedupRings p)) := by
  rw [earcut_vertices, flat_length]
  simp [coordsCount, Poly.count, Poly.coords, List.length_flatten]

/-- [T] hole start indices: `interior_indexes[k] = |exterior| + Σ_{j<k} |interior_j|` (lengths of
the pushed rings), one per interior ring. -/
theorem earcut_interior_indexes (p : Poly) :
    (polygonToEarcutInput p).interiorIndexes =
      (List.range p.ints.length).map (fun k =>
        (dedupRings p).ext.length + (((dedupRings p).ints.take k).map List.length).sum) := by
  have := earcut_fold (dedupRings p).ext [] (dedupRings p).ints []
  simp only [List.flatten_nil, List.append_nil, List.nil_append, List.map_nil, List.sum_nil,
    Nat.add_zero] at this
  unfold polygonToEarcutInput earcutInputOf
  rw [flatInto_eq, List.nil_append, this]
  simp [dedupRings]

example : (polygonToEarcutInput ⟨[⟨0,0⟩,⟨4,0⟩,⟨4,4⟩,⟨0,0⟩], [[⟨1,1⟩,⟨2,1⟩,⟨2,2⟩,⟨1,1⟩], [⟨3,1⟩,⟨3,2⟩,⟨2,3⟩,⟨3,1⟩]]⟩).interiorIndexes
    = [4, 8] := by decide

/-- a repeated vertex is pushed once: the hole of the example starts at 4, not 5 -/
example : (polygonToEarcutInput ⟨[⟨0,0⟩,⟨0,0⟩,⟨4,0⟩,⟨4,4⟩,⟨0,0⟩], [[⟨1,1⟩,⟨2,1⟩,⟨2,1⟩,⟨2,2⟩,⟨1,1⟩]]⟩) =
    ⟨[0,0,4,0,4,4,0,0,1,1,2,1,2,2,1,1], [4]⟩ := by decide

/-- [T] `triangle_index_to_coord i` is the `i`-th coordinate of `coords_iter` of the pushed rings
(and out of range exactly when `i` is at least their `coords_count`). -/
theorem earcut_index_to_coord (p : Poly) (i : Nat) :
    indexToCoord (polygonToEarcutInput p).vertices i = (dedupRings p).coords[i]? := by
  rw [earcut_vertices, indexToCoord_flat]

/-- [T] for every index vector with in-range indices (whatever the engine returns) decoding does
not panic, yields `indices.length / 3` triangles, and every triangle corner is a polygon
coordinate. -/
theorem earcut_corners_are_vertices (p : Poly) (idx : List Nat)
    (h : ∀ i ∈ idx, i < (dedupRings p).coords.length) :
    ∃ ts, earcutTriangles (polygonToEarcutInput p).vertices idx = some ts ∧
      ts.length = idx.length / 3 ∧ ∀ t ∈ ts, t.1 ∈ p.coords ∧ t.2.1 ∈ p.coords ∧ t.2.2 ∈ p.coords := by
  unfold earcutTriangles
  rw [earcut_vertices]
  have := decodeRev_spec (dedupRings p).coords idx.length idx.reverse (by simp)
    (fun i hi => h i (by simpa using hi))
  have hsub : ∀ c, c ∈ (dedupRings p).coords → c ∈ p.coords := by
    intro c hc
    simp only [Poly.coords, dedupRings, List.mem_append, List.mem_flatten, List.mem_map] at hc ⊢
    rcases hc with hc | ⟨l, ⟨r, hr, rfl⟩, hc⟩
    · exact Or.inl ((dedupRuns_mem _ _).1 hc)
    · exact Or.inr ⟨r, hr, (dedupRuns_mem _ _).1 hc⟩
  obtain ⟨ts, h1, h2, h3⟩ := this
  refine ⟨ts, h1, by simpa using h2, fun t ht => ?_⟩
  exact ⟨hsub _ (h3 t ht).1, hsub _ (h3 t ht).2.1, hsub _ (h3 t ht).2.2⟩

/-- [T] the triangles come out in reverse: the first triangle is made of the *last* three
indices, last index first. -/
theorem earcut_pops_from_back (v : List Rat) (idx : List Nat) (i3 i2 i1 : Nat) :
    earcutTriangles v (idx ++ [i3, i2, i1]) =
      (match indexToCoord v i1, indexToCoord v i2, indexToCoord v i3, earcutTriangles v idx with
       | some a, some b, some c, some ts => some ((a, b, c) :: ts)
       | _, _, _, _ => none) := by
  simp [earcutTriangles, decodeRev]
  cases indexToCoord v i1 <;> cases indexToCoord v i2 <;> cases indexToCoord v i3 <;>
    cases decodeRev v idx.reverse <;> rfl

example : earcutTriangles [0, 0, 10, 0, 10, 10, 0, 10, 0, 0] [3, 0, 1, 1, 2, 3] =
    some [(⟨0, 10⟩, ⟨10, 10⟩, ⟨10, 0⟩), (⟨10, 0⟩, ⟨0, 0⟩, ⟨0, 10⟩)] := by decide +kernel

/-! ### constrained Delaunay: inside filter -/

/-- [T] `constrained_triangulation` keeps a sub-list of the outer triangulation, namely exactly
the faces whose centroid the geometry contains. -/
theorem constrained_filter_spec (contains : Pt → Bool) (outer : List Tri) (t : Tri) :
    t ∈ constrainedFilter contains outer ↔ t ∈ outer ∧ contains (centroid t) = true := by
  simp [constrainedFilter]

theorem constrained_filter_sublist (contains : Pt → Bool) (outer : List Tri) :
    (constrainedFilter contains outer).Sublist outer := List.filter_sublist

/-! ### stitching: `find_boundary_lines` -/

/-- [T] `stitch_boundary_lines`: for every line `l`, the number of lines kept by
`find_boundary_lines` that are `l` or its inverse is the parity of the number of such lines in
the input — exactly the edges used by an odd number of triangles survive, once each. -/
theorem stitch_boundary_lines (lines : List Ln) (l : Ln) :
    cnt l (findBoundaryLines lines) = cnt l lines % 2 := by
  have := foldl_boundary_parity lines [] [] (by intro l; simp [cnt]) l
  simpa [findBoundaryLines] using this

/-- [T] an edge shared by two triangles (used twice) disappears, an edge used once stays. -/
theorem stitch_shared_edge_removed (lines : List Ln) (l : Ln) (h : cnt l lines = 2) :
    cnt l (findBoundaryLines lines) = 0 := by
  rw [stitch_boundary_lines, h]

theorem stitch_unshared_edge_kept (lines : List Ln) (l : Ln) (h : cnt l lines = 1) :
    cnt l (findBoundaryLines lines) = 1 := by
  rw [stitch_boundary_lines, h]

example : findBoundaryLines (stitchLines [(⟨0,0⟩, ⟨1,0⟩, ⟨1,1⟩), (⟨0,0⟩, ⟨1,1⟩, ⟨0,1⟩)]) =
    [(⟨0,0⟩, ⟨1,0⟩), (⟨1,0⟩, ⟨1,1⟩), (⟨1,1⟩, ⟨0,1⟩), (⟨0,1⟩, ⟨0,0⟩)] := by decide +kernel

/-- the ear-cut triangulation (real output) of the 6×6 square with collinear edge vertices and the
holes `(5,5),(3,3),(5,3)` and `(4,1),(4,2),(3,2),(3,1)` — open finding C10-K1 -/
def tJunctionTris : List Tri :=
  [(⟨5,3⟩,⟨6,0⟩,⟨4,2⟩), (⟨4,2⟩,⟨3,2⟩,⟨5,3⟩), (⟨5,3⟩,⟨5,5⟩,⟨6,0⟩), (⟨6,0⟩,⟨4,1⟩,⟨4,2⟩), (⟨3,2⟩,⟨0,3⟩,⟨5,3⟩),
   (⟨5,5⟩,⟨6,6⟩,⟨6,0⟩), (⟨6,0⟩,⟨0,0⟩,⟨4,1⟩), (⟨3,2⟩,⟨3,1⟩,⟨0,3⟩), (⟨5,5⟩,⟨0,3⟩,⟨6,6⟩), (⟨0,0⟩,⟨3,1⟩,⟨4,1⟩),
   (⟨3,1⟩,⟨0,0⟩,⟨0,3⟩), (⟨5,5⟩,⟨3,3⟩,⟨0,3⟩), (⟨0,3⟩,⟨0,6⟩,⟨6,6⟩)]

/-- [T] `stitch_t_junction_witness` (open finding C10-K1, reproduced on the real code): in a
triangulation that is not conforming — the edge `(0,3)-(5,3)` of one triangle passes through the
hole vertex `(3,3)`, its neighbour across has the edge `(0,3)-(3,3)` — no two of these lines are
identical, so `find_boundary_lines` keeps the long interior edge and the short interior edge as
"boundary" lines (13 lines instead of the 15 boundary edges of the polygon); the rings built from
them do not have the polygon's area. -/
theorem stitch_t_junction_witness :
    cnt (⟨0,3⟩, ⟨5,3⟩) (findBoundaryLines (stitchLines tJunctionTris)) = 1 ∧
    cnt (⟨0,3⟩, ⟨3,3⟩) (findBoundaryLines (stitchLines tJunctionTris)) = 1 ∧
    (findBoundaryLines (stitchLines tJunctionTris)).length = 13 := by
  decide +kernel

/-! ### MonoPoly point location ↔ between the chains -/

/-- [T] outside the bounding box of the chains (where the code returns early) the specification
does not claim the coordinate either — for arbitrary chains. -/
theorem spec_outside_of_not_inBounds (m : MonoPoly) (p : Pt) (hb : inBounds m p = false) :
    specPos m p = .outside := by
  unfold inBounds at hb
  cases hr : getBoundingRect (m.top ++ m.bot) with
  | none =>
    have h0 : m.top ++ m.bot = [] := (C19.getBoundingRect_none_iff _).1 hr
    have ht : m.top = [] := (List.append_eq_nil_iff.1 h0).1
    have hbt : m.bot = [] := (List.append_eq_nil_iff.1 h0).2
    simp [specPos, onChain, below, above, sideAny, ht, hbt, segs]
  | some r =>
    obtain ⟨mn, mx⟩ := r
    rw [hr] at hb
    have hbox := (C19.getBoundingRect_bounds _ mn mx hr).1
    have boxT : ∀ q ∈ m.top, InBox mn mx q := fun q hq => hbox q (List.mem_append_left _ hq)
    have boxB : ∀ q ∈ m.bot, InBox mn mx q := fun q hq => hbox q (List.mem_append_right _ hq)
    simp only [rectCoord, Bool.and_eq_false_iff, decide_eq_false_iff_not, not_le, ge_iff_le] at hb
    rcases hb with ((hx | hy) | hx) | hy
    · simp [specPos, onChain, below, above, side_x_out boxT (Or.inl hx), side_x_out boxB (Or.inl hx)]
    · obtain ⟨t1, _⟩ := side_y_low boxT hy
      obtain ⟨b1, b2⟩ := side_y_low boxB hy
      simp [specPos, onChain, below, above, t1, b1, b2]
    · simp [specPos, onChain, below, above, side_x_out boxT (Or.inr hx), side_x_out boxB (Or.inr hx)]
    · obtain ⟨t1, t2⟩ := side_y_high boxT hy
      obtain ⟨b1, _⟩ := side_y_high boxB hy
      simp [specPos, onChain, below, above, t1, t2, b1]

/-- [T] `monoPoly_position_spec`: for chains that are strictly increasing in the lexicographic
order (vertical segments allowed), share their end points and are ordered at `p` (top above
bottom), `MonoPoly::coordinate_position` (after the fix) is the between-the-chains
classification. -/
theorem monoPoly_position_spec (m : MonoPoly) (p : Pt) (hw : wellFormed m = true)
    (ho : orderedAt m p = true) : monoPos m p = specPos m p := by
  rw [monoPos_eq_core]
  by_cases hb : inBounds m p = true
  · simp only [hb, if_true]
    obtain ⟨top, bot⟩ := m
    simp only [wellFormed, Bool.and_eq_true, decide_eq_true_eq] at hw
    obtain ⟨⟨⟨⟨⟨hs1, hs2⟩, hl1⟩, hl2⟩, hh⟩, hlast⟩ := hw
    match top, bot, hl1, hl2 with
    | a :: b :: t1, a' :: b' :: t2, _, _ =>
      have ha : a = a' := by simpa using hh
      subst ha
      have hl : (a :: b :: t1).getLast (by simp) = (a :: b' :: t2).getLast (by simp) := by
        have h1 := List.getLast?_eq_some_getLast (l := a :: b :: t1) (by simp)
        have h2 := List.getLast?_eq_some_getLast (l := a :: b' :: t2) (by simp)
        rw [h1, h2] at hlast
        exact Option.some.inj hlast
      exact core_eq_spec a b t1 b' t2 p hs1 hs2 hl ho
  · have hb' : inBounds m p = false := by simpa using hb
    simp only [hb', Bool.false_eq_true, if_false]
    exact (spec_outside_of_not_inBounds m p hb').symm

/-- [T] `monoPoly_position_iff`: Inside ⇔ strictly below the top chain and strictly above the
bottom chain; OnBoundary ⇔ on one of the chains; Outside otherwise. -/
theorem monoPoly_position_iff (m : MonoPoly) (p : Pt) (hw : wellFormed m = true)
    (ho : orderedAt m p = true) :
    (monoPos m p = .inside ↔
      (onChain m.top p = false ∧ onChain m.bot p = false) ∧ below m.top p = true ∧ above m.bot p = true) ∧
    (monoPos m p = .onBoundary ↔ onChain m.top p = true ∨ onChain m.bot p = true) ∧
    (monoIntersects m p = true ↔
      (onChain m.top p = true ∨ onChain m.bot p = true) ∨ (below m.top p = true ∧ above m.bot p = true)) := by
  unfold monoIntersects
  rw [monoPoly_position_spec m p hw ho]
  unfold specPos
  cases h1 : onChain m.top p <;> cases h2 : onChain m.bot p <;> cases h3 : below m.top p <;>
    cases h4 : above m.bot p <;> simp

/-- [T] along a lexicographically increasing chain a coordinate is on at most one side: the
three classes `above` / `onChain` / `below` exclude one another. -/
theorem chain_side_unique (c : List Pt) (p : Pt) (hs : lexSorted c = true) :
    ¬ (above c p = true ∧ onChain c p = true) ∧ ¬ (above c p = true ∧ below c p = true) ∧
    ¬ (onChain c p = true ∧ below c p = true) := by
  obtain ⟨h1, h2⟩ := sel_spec c p hs
  unfold above onChain below
  cases hsel : sel c p with
  | none => simp [h2 hsel]
  | some s =>
    obtain ⟨u, v⟩ := s
    have := h1 u v hsel
    simp only [this]
    cases orient u v p <;> simp

/-- [T] `MonotonicPolygons::intersects` is "some piece does not report Outside". -/
theorem monotonic_intersects_iff (ms : List MonoPoly) (p : Pt) :
    monotonicIntersects ms p = true ↔ ∃ m ∈ ms, monoPos m p ≠ .outside := by
  simp [monotonicIntersects, monoIntersects]

/-- the monotone piece of the L-shaped polygon `(0,2),(0,4),(3,4),(3,0),(1,0),(1,2)` (F7) -/
def lPiece : MonoPoly := ⟨[⟨0, 2⟩, ⟨0, 4⟩, ⟨3, 4⟩], [⟨0, 2⟩, ⟨1, 2⟩, ⟨3, 0⟩, ⟨3, 4⟩]⟩

/-- [T] `monoPoly_vertical_witness` (F7, reproduced on the real code before the fix): selecting the
bounding segments by `x` alone (`bounding_segment`, the pinned behaviour) and applying the same
orientation tests puts `(0,1)` on the boundary of the piece, although the piece is well formed,
ordered there, and the specification — and the fixed code — say Outside. -/
theorem monoPoly_vertical_witness :
    wellFormed lPiece = true ∧ orderedAt lPiece ⟨0, 1⟩ = true ∧
    (match boundingSegment lPiece 0 with
      | some ((ts, te), (bs, be)) => (classify ts te bs be ⟨0, 1⟩ ⟨false, 0⟩).result
      | none => Pos.outside) = .onBoundary ∧
    specPos lPiece ⟨0, 1⟩ = .outside ∧ monoPos lPiece ⟨0, 1⟩ = .outside := by
  decide +kernel

example : monoPos lPiece ⟨3, 2⟩ = .onBoundary ∧ monoPos lPiece ⟨2, 2⟩ = .inside ∧
    monoPos lPiece ⟨0, 3⟩ = .onBoundary := by decide +kernel

/-! ### the tiling checker: what `tiles` establishes -/

/-- [T] the checker accepts exactly when its five clauses hold. -/
theorem tiles_iff (rule : VertexRule) (pieces : List (List Pt)) (target : Geom) :
    tiles rule pieces target = true ↔
      (pieces.all (fun r => decide (r.length ≥ 4) && r.head? == r.getLast?) = true ∧
       pieces.all (verticesOk rule target) = true ∧
       pieces.all (pieceInside target) = true ∧
       pairwiseDisjoint pieces = true ∧
       areaSum pieces = specUnsigned target) := by
  unfold tiles tilesClause
  by_cases h1 : pieces.all (fun r => decide (r.length ≥ 4) && r.head? == r.getLast?) = true
  · by_cases h2 : pieces.all (verticesOk rule target) = true
    · by_cases h3 : pieces.all (pieceInside target) = true
      · by_cases h4 : pairwiseDisjoint pieces = true
        · by_cases h5 : areaSum pieces = specUnsigned target
          · simp [h1, h2, h3, h4, h5]
          · simp only [h1, h2, h3, h4, h5, Bool.not_true, Bool.false_eq_true, if_false, bne_iff_ne, ne_eq,
              not_false_eq_true, if_true, and_false, iff_false]
            split <;> simp
        · simp [h1, h2, h3, h4]
      · simp [h1, h2, h3]
    · simp only [h1, h2, Bool.not_true, Bool.false_eq_true, if_false, Bool.not_false, if_true, false_and,
        and_false, iff_false]
      cases rule <;> simp
  · simp [h1]

/-- [T] clause 2 is the shoelace sum: the area of a triangle piece is `|cross| / 2`. -/
theorem pieceArea_triangle (a b c : Pt) :
    pieceArea (triRing a b c) = rabs (cross a b c) / 2 := by
  have h : specRing (triRing a b c) = cross a b c / 2 := by
    simp only [specRing, triRing, shoelace2, det, cross]
    grind
  unfold pieceArea
  rw [h]
  unfold rabs
  split <;> split <;> grind

/-! ### the builder of the monotone pieces (`monotone_subdivision`, model `MonoBuild.monotoneSubdivision`) -/

open Geo.MonoBuild Geo.Proofs.MONO in
/-- [T] every coordinate of every piece that `monotone_subdivision` emits is a coordinate of an input polygon —
for all inputs, valid or not (sweep-state invariant `InvV`: the end points of all segments, including the ones
made by `split_at`, the points of all queued events and the coordinates of all chains are input coordinates). -/
theorem monotone_pieces_vertices_are_input (ps : List Poly) (ms : List MonoPoly)
    (h : monotoneSubdivision ps = some ms) :
    ∀ m ∈ ms, ∀ p ∈ m.top ++ m.bot, p ∈ inputCoords ps := by
  unfold monotoneSubdivision at h
  cases hb : buildState ps with
  | none => rw [hb] at h; cases h
  | some st =>
    rw [hb] at h
    simp only [Option.map_some, Option.some.injEq] at h
    subst h
    intro m hm p hp
    have := (buildState_inv hb).outs m hm
    rcases List.mem_append.1 hp with g | g
    · exact this.1.1 p g
    · exact this.2.1.1 p g

open Geo.MonoBuild Geo.Proofs.MONO in
/-- [T] every emitted piece is closed by `Chain::finish_with`: both chains have at least two coordinates, start at
the same coordinate and end at the same coordinate (the four non-order clauses of `wellFormed`) — for all inputs. -/
theorem monotone_pieces_closed (ps : List Poly) (ms : List MonoPoly)
    (h : monotoneSubdivision ps = some ms) :
    ∀ m ∈ ms, 2 ≤ m.top.length ∧ 2 ≤ m.bot.length ∧ m.top.head? = m.bot.head? ∧
      m.top.getLast? = m.bot.getLast? := by
  unfold monotoneSubdivision at h
  cases hb : buildState ps with
  | none => rw [hb] at h; cases h
  | some st =>
    rw [hb] at h
    simp only [Option.map_some, Option.some.injEq] at h
    subst h
    intro m hm
    have := (buildState_inv hb).outs m hm
    exact ⟨this.1.2, this.2.1.2, this.2.2.2.2.1, this.2.2.2.2.2⟩

/-- the L shape of F7: two pieces -/
def lShape : Poly := ⟨[⟨0,2⟩,⟨0,4⟩,⟨3,4⟩,⟨3,0⟩,⟨1,0⟩,⟨1,2⟩,⟨0,2⟩], []⟩

example : MonoBuild.monotoneSubdivision [lShape] =
    some [⟨[⟨1,0⟩,⟨1,2⟩,⟨3,0⟩], [⟨1,0⟩,⟨3,0⟩]⟩,
          ⟨[⟨0,2⟩,⟨0,4⟩,⟨3,4⟩], [⟨0,2⟩,⟨1,2⟩,⟨3,0⟩,⟨3,4⟩]⟩] := by decide +kernel

open Geo.MonoBuild Geo.Proofs.MONO in
/-- [T] the sweep visits its event points in strictly increasing lexicographic order, each point once — for all
inputs. `sweepPoints ps` is the sequence of points handled by the successive calls of `process_next_pt`
(`MONOSweepC.sweepTrace`); the invariant `SInv` behind it: the event queue is a heap in the sweep order
(`Event::cmp` reversed), every segment is a proper line, a `LineLeft` event sits at its segment's left end, and
`handle_event` only ever queues events at or after the point being handled (split points are end points of the
segment being inserted or lie strictly to its right). -/
theorem monotone_sweep_points_increasing (ps : List Poly) : lexSorted (sweepPoints ps) = true :=
  (sweepTrace_sorted _ _ _ (initState_sinv ps)).1

example : Geo.Proofs.MONO.sweepPoints [lShape] = [⟨0,2⟩, ⟨0,4⟩, ⟨1,0⟩, ⟨1,2⟩, ⟨3,0⟩, ⟨3,4⟩] := by decide +kernel

open Geo.MonoBuild Geo.Proofs.MONO in
/-- [T] the model is total by fuel, and the fuel is irrelevant: with any fuel `F ≥ fuelFor n` (`n` input lines) the
model gives the same answer as with `fuelFor n` — so `none` always stands for a panic of the code (`unwrap`,
`assert!`, `expect`, index out of range), never for an exhausted bound. Termination measure
`mu = #queued events + 3·Σ_segments #(end points of input lines strictly inside the segment)`: `split_at` cuts at such
an end point strictly inside (−1 in the sum, +3 events), every popped event is −1, nothing else touches it; each
popped event costs at most three levels of the nested recursion `handle_event` → round → `while`. -/
theorem monotone_fuel_irrelevant (ps : List Poly) (F : Nat) (hF : fuelFor (initState ps).segs.length ≤ F) :
    (buildLoop F F (initState ps)).map (·.outputs) = monotoneSubdivision ps := by
  unfold monotoneSubdivision
  rw [buildState_fuel ps F hF]

example : (MonoBuild.buildLoop 100000 100000 (MonoBuild.initState [lShape])).map (·.outputs) =
    MonoBuild.monotoneSubdivision [lShape] := monotone_fuel_irrelevant _ _ (by decide +kernel)

open Geo.MonoBuild Geo.Proofs.MONO in
/-- [T] the contract of `SimpleSweep::next_point` that `process_next_pt` relies on, for all inputs: in every state of a
run (the sweep invariant `SInv` holds initially and after every `process_next_pt`), when `next_point`, called with empty
`incoming` / `outgoing`, returns the point `pt`, every segment it handed over as ending has its right end at `pt`
(so `fix_top` sets the tip of its chain to `pt`) and every segment handed over as starting has its left end at `pt`
(so the chains started by `from_segment_pair(pt, ..)` are increasing). Splits made while the events of `pt` are handled
never cut a segment that ended at `pt`, and never move a left end. -/
theorem monotone_next_point_contract (ps : List Poly) :
    SInv (initState ps) ∧
    (∀ (fuel : Nat) (st st' : St), SInv st → processNextPt fuel st = some (st', true) → SInv st') ∧
    (∀ (fuel : Nat) (st st' : St) (pt : Pt), SInv st → st.incoming = [] → st.outgoing = [] →
      nextPoint fuel st = some (st', some pt) →
      (∀ i ∈ st'.incoming, (st'.lineOf i).map LoP.right = some pt) ∧
      (∀ o ∈ st'.outgoing, (st'.lineOf o).map LoP.left = some pt)) := by
  refine ⟨initState_sinv ps, ?_, ?_⟩
  · intro fuel st st' hi h
    obtain ⟨_, _, i1, _⟩ := processNextPt_sinv hi h
    exact i1
  · intro fuel st st' pt hi h1 h2 h
    have io := nextPoint_io hi ⟨h1, h2⟩ h
    refine ⟨?_, ?_⟩
    · intro i hi'
      obtain ⟨l, hl, e⟩ := io.inc i hi'
      rw [hl]; simp [e]
    · intro o ho
      obtain ⟨l, hl, e⟩ := io.out o ho
      rw [hl]; simp [e]

/-- the first `next_point` on the L shape: the two segments starting at `(0,2)` -/
example : (MonoBuild.nextPoint 1000 (MonoBuild.initState [lShape])).map (fun r => (r.1.incoming, r.1.outgoing, r.2)) =
    some ([], [0, 5], some ⟨0, 2⟩) := by decide +kernel

open Geo.MonoBuild Geo.Proofs.MONO in
/-- [T] the chain operations of the builder keep a chain lexicographically increasing under explicit conditions on the
chain's last coordinates, and `finish_with` of two increasing chains is a `wellFormed` piece:
`from_segment_pair(pt, r, _)` needs `pt < r` (given by `monotone_next_point_contract`: the segment starts at `pt`);
`push(p)` needs tip `< p`; `fix_top(rt)` and `swap_at_top(pt)` need the coordinate *before* the tip to lie before the new
coordinate. NOT proved: that the builder only ever pushes onto chains whose tip satisfies these conditions — i.e. that
every emitted piece is `wellFormed`. That is an ownership invariant (no chain index is held at the same time by two of: the
`chain_idx` of a segment that has started and not ended, a registered `help`); the condition is decided on the
implementation's output of every generated case by the clause `piece-chains-not-lexicographically-increasing`, and the
model's own pieces were well formed on all 400 000 generated inputs of an offline run, arbitrary vertex sequences
included. -/
theorem monotone_chain_ops_keep_order :
    (∀ pt r : Pt, lexLt pt r = true → lexSorted [pt, r] = true) ∧
    (∀ (c : List Pt) (p : Pt), lexSorted c = true → (∀ t, c.getLast? = some t → lexLt t p = true) →
      lexSorted (c ++ [p]) = true) ∧
    (∀ (c c' : List Pt) (rt : Pt), fixTop c rt = some c' → lexSorted c = true →
      (∀ t, c.dropLast.getLast? = some t → lexLt t rt = true) → lexSorted c' = true) ∧
    (∀ (c s n0 n1 : List Pt) (pt : Pt), swapAtTop c pt = some (s, n0, n1) → lexSorted c = true →
      (∀ t, c.dropLast.getLast? = some t → lexLt t pt = true) →
      lexSorted s = true ∧ lexSorted n0 = true ∧ lexSorted n1 = true ∧
        n0.getLast? = some pt ∧ n1.getLast? = some pt) ∧
    (∀ (a b : List Pt) (m : MonoPoly), finishWith a b = some m → lexSorted a = true → lexSorted b = true →
      2 ≤ a.length → 2 ≤ b.length → wellFormed m = true) :=
  ⟨fun pt r h => by simp [lexSorted, h], lexSorted_append,
   fun _ _ _ h hs hb => fixTop_sorted h hs hb,
   fun _ _ _ _ _ h hs hb => swapAtTop_sorted h hs hb,
   fun _ _ _ h ha hb la lb => finishWith_wellFormed h ha hb la lb⟩

/-- the split vertex `(2,2)` above a chain `(0,0),(1,0),(4,1)` whose tip `(4,1)` is the right end of the segment below -/
example : MonoBuild.swapAtTop [⟨0,0⟩, ⟨1,0⟩, ⟨4,1⟩] ⟨2,2⟩ =
    some ([⟨1,0⟩, ⟨4,1⟩], [⟨1,0⟩, ⟨2,2⟩], [⟨0,0⟩, ⟨1,0⟩, ⟨2,2⟩]) := by decide +kernel

/-- the pieces of the model as closed rings (`MonoPoly::into_polygon`) -/
def monoRings (ps : List Poly) : List (List Pt) :=
  ((MonoBuild.monotoneSubdivision ps).getD []).map (fun m => (intoPolygon m).ext)

/-- the first witness of the former finding C10-K2: a vertex of the second member in the interior of an edge of the
first one -/
def k2Witness1 : List Poly :=
  [⟨[⟨0,3⟩,⟨1,2⟩,⟨1,1⟩,⟨3,1⟩,⟨3,2⟩,⟨2,2⟩,⟨2,3⟩,⟨0,3⟩], []⟩, ⟨[⟨2,0⟩,⟨3,0⟩,⟨2,1⟩,⟨2,0⟩], []⟩]

/-- the second witness: a hole touching the shell at a hole vertex inside a shell edge, a second hole further left -/
def k2Witness2 : List Poly :=
  [⟨[⟨-22,25⟩,⟨-30,0⟩,⟨0,0⟩,⟨0,30⟩,⟨-22,25⟩],
    [[⟨-4,7⟩,⟨-11,0⟩,⟨-1,2⟩,⟨-4,7⟩], [⟨-20,15⟩,⟨-22,14⟩,⟨-22,15⟩,⟨-20,15⟩]]⟩]

/-- [T] (witness lemma for the repaired finding C10-K2) on both witnesses the builder, as fixed by geo d3134ab7
(helper cells cleared at a segment's `LineLeft` event) and mirrored by the model, does not panic, and its pieces pass
the exact tiling checker against the input. Before the fix the code panicked on both (a pending `help` copied by
`split_at` was served twice) and so did the model. -/
theorem monotone_k2_witnesses_tile :
    (MonoBuild.monotoneSubdivision k2Witness1).isSome = true ∧
    tiles .notOutside (monoRings k2Witness1) (.multiPolygon k2Witness1) = true ∧
    (MonoBuild.monotoneSubdivision k2Witness2).isSome = true ∧
    tiles .notOutside (monoRings k2Witness2) (.multiPolygon k2Witness2) = true := by
  decide +kernel


/-! ### ownership of the chain references: every emitted piece is `wellFormed` (MONO2) -/

open Geo.MonoBuild Geo.Proofs.MONO Geo.Proofs.MONO2 in
/-- [T] `monotone_pieces_wellFormed` under the ownership hypothesis. Full statement (not proved):
`∀ ps ms, monotoneSubdivision ps = some ms → ∀ m ∈ ms, wellFormed m = true`.

Proved here: it holds for every input whose run is *owned* — the decidable check `ownedSteps ps` (MONO2Defs): in the state
returned by every `next_point` of the run, for the segments whose payload `process_next_pt` is about to read (the segments
reported as ending at the point, and the active segment just below it): every ending segment is reported once and is not
the segment below; the segment below is not reported as starting; the chain indices they hold as `chain_idx` or as a
component of a registered `help` are in range and pairwise different (no chain index is held twice), a `helper_chain` of
the segment below is in range, and a live chain held as `help` has its tip strictly before the point.
From that, with no further hypothesis and for valid and invalid inputs alike, the chain invariant `WInv` is carried through
the whole run: every live chain is increasing, has at least two coordinates, and all its coordinates but the tip lie
before every queued event (`next_point`: `fix_top` only ever replaces a tip by the current point, MONO2Next; steps 3–5:
`push` / `finish_with` / `swap_at_top` / `from_segment_pair`, MONO2Step, StepB, StepC), so `Chain::finish_with` only ever
closes increasing chains (`monotone_chain_ops_keep_order`).

What is missing for the unconditional statement is that ownership is itself an invariant of the run (the transfer of a
chain index from an ending segment to a starting one / to a `help` cell and back, through `split_at`, which copies the
payload). It is decided on every generated case instead: `ownedSteps` (and the stronger between-steps check `ownedRun`)
held on all 31 500 inputs of an offline run of the `C10.monobuild` generator (valid polygons, multipolygons with touching
rings, arbitrary vertex sequences; 10 567 of them panic), so no input violating it is known; on an input that did violate
it the code could push onto a chain that is also closed as `help`, i.e. emit a piece whose chain is not increasing —
which the clause `piece-chains-not-lexicographically-increasing` of `C10.monobuild` would report. -/
theorem monotone_pieces_wellFormed_partial (ps : List Poly) (ms : List MonoPoly)
    (hown : ownedSteps ps = true) (h : monotoneSubdivision ps = some ms) :
    ∀ m ∈ ms, wellFormed m = true := by
  unfold monotoneSubdivision at h
  cases hb : buildState ps with
  | none => rw [hb] at h; cases h
  | some st =>
    rw [hb] at h
    simp only [Option.map_some, Option.some.injEq] at h
    subst h
    unfold buildState at hb
    unfold ownedSteps at hown
    simp only [List.all_eq_true] at hown
    exact (buildLoop_winv _ _ _ _ (initState_sinv ps) (initState_winv ps) (fun r hr => hown r hr) hb).outs

example : Geo.Proofs.MONO2.ownedSteps [lShape] = true ∧ Geo.Proofs.MONO2.ownedRun [lShape] = true := by decide +kernel

/-- the repaired C10-K2 witnesses (a vertex inside another ring's edge: `split_at` copies a payload) are owned runs -/
example : Geo.Proofs.MONO2.ownedSteps k2Witness1 = true ∧ Geo.Proofs.MONO2.ownedSteps k2Witness2 = true := by
  decide +kernel

example : ∀ m ∈ (MonoBuild.monotoneSubdivision k2Witness2).getD [], wellFormed m = true := by
  cases h : MonoBuild.monotoneSubdivision k2Witness2 with
  | none => simp
  | some ms => exact monotone_pieces_wellFormed_partial _ ms (by decide +kernel) h

open Geo.MonoBuild Geo.Proofs.MONO2 in
/-- [T] point location in the emitted pieces is the chain specification (corollary of `monotone_pieces_wellFormed_partial`,
`monoPoly_position_spec` and `monotonic_intersects_iff`): for every piece `m` that the model emits on an owned run and every
coordinate `p` at which the chains of `m` are ordered (top above bottom — the second documented precondition of
`MonoPoly::new`, a geometric fact about non-crossing chains that is not part of `wellFormed`),
`MonoPoly::coordinate_position` is the between-the-chains classification; and `MonotonicPolygons::intersects(p)` says
that `p` lies on a chain of some piece or strictly between the chains of some piece. -/
theorem monotone_pieces_location_spec_partial (ps : List Poly) (ms : List MonoPoly)
    (hown : ownedSteps ps = true) (h : monotoneSubdivision ps = some ms) (p : Pt) :
    (∀ m ∈ ms, orderedAt m p = true → monoPos m p = specPos m p) ∧
    ((∀ m ∈ ms, orderedAt m p = true) →
      (monotonicIntersects ms p = true ↔
        ∃ m ∈ ms, (onChain m.top p = true ∨ onChain m.bot p = true) ∨ (below m.top p = true ∧ above m.bot p = true))) := by
  have hwf := monotone_pieces_wellFormed_partial ps ms hown h
  refine ⟨fun m hm ho => monoPoly_position_spec m p (hwf m hm) ho, ?_⟩
  intro hord
  rw [monotonic_intersects_iff]
  constructor
  · rintro ⟨m, hm, hne⟩
    refine ⟨m, hm, ?_⟩
    have := (monoPoly_position_iff m p (hwf m hm) (hord m hm)).2.2
    apply this.1
    unfold monoIntersects
    simpa using hne
  · rintro ⟨m, hm, hc⟩
    refine ⟨m, hm, ?_⟩
    have := ((monoPoly_position_iff m p (hwf m hm) (hord m hm)).2.2).2 hc
    unfold monoIntersects at this
    simpa using this

example : monoPos lPiece ⟨2, 2⟩ = specPos lPiece ⟨2, 2⟩ :=
  (monotone_pieces_location_spec_partial [lShape] [⟨[⟨1,0⟩,⟨1,2⟩,⟨3,0⟩], [⟨1,0⟩,⟨3,0⟩]⟩, lPiece]
    (by decide +kernel) (by decide +kernel) ⟨2, 2⟩).1 lPiece
    (List.mem_cons_of_mem _ (List.mem_cons_self ..)) (by decide +kernel)

/-! ### the structural part of ownership holds on every run (MONO3) -/

open Geo.MonoBuild Geo.Proofs.MONO Geo.Proofs.MONO2 Geo.Proofs.MONO3 in
/-- [T] for ALL inputs (valid or not, panicking or not): in the state returned by every `next_point` of the run, the
segments reported as ending at the point are pairwise different (each segment has, at any time, at most one queued
`LineRight` event at its current right end: `split_at` moves a right end strictly to the left and queues exactly one such
event there, the older ones become the spurious events that `handle_event` drops — invariant `NInv`, MONO3Once/OnceB), and
the active segment just below the point (`prev_active_from_geom`) is none of the segments reported as ending or as
starting there (`LineOrPoint::partial_cmp(line, point) = Less` means the point is strictly to the left of the directed
line, while an end point is collinear — MONO3Bot). These are the first two clauses of `handsB`. -/
theorem monotone_hand_segments_distinct (ps : List Poly) :
    ∀ r ∈ midStates (fuelFor (initState ps).segs.length) (fuelFor (initState ps).segs.length) (initState ps),
      r.2.incoming.Nodup ∧ ∀ b, r.2.prevActive r.1 = some b → b ∉ r.2.incoming ∧ b ∉ r.2.outgoing :=
  midStates_incoming_nodup _ _ _ (initState_sinv ps) (initState_einv ps)

open Geo.MonoBuild Geo.Proofs.MONO2 Geo.Proofs.MONO3 in
/-- [T] `monotone_pieces_wellFormed` under the chain-reference part of the ownership hypothesis only. Full statement (not
proved): `∀ ps ms, monotoneSubdivision ps = some ms → ∀ m ∈ ms, wellFormed m = true`.

`ownedRefs ps` (MONO3Glue) is `ownedSteps ps` without its structural clauses, which `monotone_hand_segments_distinct`
proves for every input: what is left is that, for the segments whose payload `process_next_pt` reads, the chain indices
held as `chain_idx` / as a component of a registered `help` are in range and pairwise different, a live chain held as
`help` has its tip strictly before the point, and the `helper_chain` of the segment below is in range. -/
theorem monotone_pieces_wellFormed_refs_partial (ps : List Poly) (ms : List MonoPoly)
    (hown : ownedRefs ps = true) (h : monotoneSubdivision ps = some ms) :
    ∀ m ∈ ms, wellFormed m = true :=
  monotone_pieces_wellFormed_partial ps ms (ownedSteps_of_ownedRefs ps hown) h

example : Geo.Proofs.MONO3.ownedRefs k2Witness1 = true ∧ Geo.Proofs.MONO3.ownedRefs k2Witness2 = true := by
  decide +kernel

example : ∀ m ∈ (MonoBuild.monotoneSubdivision k2Witness1).getD [], wellFormed m = true := by
  cases h : MonoBuild.monotoneSubdivision k2Witness1 with
  | none => simp
  | some ms => exact monotone_pieces_wellFormed_refs_partial _ ms (by decide +kernel) h

/-! ### chain-index ownership is an invariant of the run (MONO3) -/

open Geo.MonoBuild Geo.Proofs.MONO2 Geo.Proofs.MONO3 in
/-- [T] chain-index ownership, for ALL inputs (valid or not, panicking or not): in the state returned by every
`next_point` of the run, for the segments whose payload `process_next_pt` is about to read (the segments reported as ending
at the point, and the active segment just below it), every chain index held as `chain_idx` or as a component of a
registered `help` is in range, no chain index is held twice (two references to one slot are the same role of the same
segment), and the `helper_chain` of the segment below is in range.

Invariant between two calls of `process_next_pt` (`RunInv`, MONO3Own): over the segments that have started and not ended
(their `LineLeft` event is no longer queued, a queued event lies at or before their right end) the references are in range
and pairwise different (`OwnB`). Through `next_point` (`AInv`, MONO3Keep/KeepB/KeepC): the payload of a segment that
started before the point is not written (`split_at` keeps the payload of the cut segment; the copy it gives to the new
segment is not counted before that segment's own `LineLeft` event, where the fix 99aa98a0 clears `help` / `helper_chain`
and step 4 or 5 overwrites `chain_idx`), segments created by `split_at` start at or after the point, every segment whose
left end is the point has been reported as starting. Through steps 3–5 (token view `Tok`, MONO3Tok/TokB/Steps/StepsB): the
chain indices of the ending segments and a consumed `help` of the segment below become free tokens, `in_chains` is made of
two different tokens (`inChains_own`), a starting segment takes a fresh index or a token, a `help` registered on the
segment below takes both tokens; no token is handed out twice. -/
theorem monotone_chain_ownership_invariant (ps : List Poly) :
    ∀ r ∈ midStates (fuelFor (initState ps).segs.length) (fuelFor (initState ps).segs.length) (initState ps),
      (∀ i ∈ handSegs r.1 r.2, ∀ (s : Seg) (a k : Nat), r.2.segs[i]? = some s → refOf s.info a = some k →
        k < r.2.chains.length) ∧
      (∀ i ∈ handSegs r.1 r.2, ∀ j ∈ handSegs r.1 r.2, ∀ (s t : Seg) (a b k : Nat), r.2.segs[i]? = some s →
        r.2.segs[j]? = some t → refOf s.info a = some k → refOf t.info b = some k → i = j ∧ a = b) ∧
      (∀ (b : Nat) (sb : Seg) (k : Nat), r.2.prevActive r.1 = some b → r.2.segs[b]? = some sb →
        sb.info.helperChain = some k → k < r.2.chains.length) :=
  midStates_owned ps

/-- the second C10-K2 witness (a segment carrying a `help` is split): the decidable form of the same facts -/
example : Geo.Proofs.MONO3.ownedRefs k2Witness2 = true := by decide +kernel

open Geo.MonoBuild Geo.Proofs.MONO2 Geo.Proofs.MONO3 in
/-- [T] `monotone_pieces_wellFormed` under the last remaining clause of the ownership hypothesis. Full statement (not
proved): `∀ ps ms, monotoneSubdivision ps = some ms → ∀ m ∈ ms, wellFormed m = true`.

`ownedTips ps` (MONO3Run) is the one clause of `ownedSteps ps` that is not proved as an invariant: in the state returned by
every `next_point`, a LIVE chain held as a component of a registered `help` (by a segment ending at the point or by the
segment below it) has its tip strictly before the point — i.e. a chain parked in a `help` cell is closed. All the other
clauses (indices in range, no index held twice, `helper_chain` in range, ending segments reported once, the segment below
neither ending nor starting) hold on every run by `monotone_chain_ownership_invariant` and
`monotone_hand_segments_distinct`. What is missing for the tips is the chain-content side of the same argument (every
live chain is closed or is the `chain_idx` chain of a started-and-not-ended segment; with no index held twice a chain held
as `help` is then closed): steps 3–5 would have to be followed slot by slot. -/
theorem monotone_pieces_wellFormed_tips_partial (ps : List Poly) (ms : List MonoPoly)
    (hown : ownedTips ps = true) (h : monotoneSubdivision ps = some ms) :
    ∀ m ∈ ms, wellFormed m = true :=
  monotone_pieces_wellFormed_partial ps ms (ownedSteps_of_ownedTips ps hown) h

example : Geo.Proofs.MONO3.ownedTips k2Witness1 = true ∧ Geo.Proofs.MONO3.ownedTips k2Witness2 = true := by
  decide +kernel

example : ∀ m ∈ (MonoBuild.monotoneSubdivision k2Witness2).getD [], wellFormed m = true := by
  cases h : MonoBuild.monotoneSubdivision k2Witness2 with
  | none => simp
  | some ms => exact monotone_pieces_wellFormed_tips_partial _ ms (by decide +kernel) h

open Geo.MonoBuild Geo.Proofs.MONO3 in
/-- [T] (item 3 of MONO2, first part) `LineOrPoint::partial_cmp` never fails on two proper lines that both span a common
sweep position (`left ≤ p < right`), nor on a proper line with `left ≤ p ≤ right` and the point `p`: the panic
"unable to compare active segments!" of `Active::cmp` needs a segment in the active set that does not span the position at
which it is compared. What item 3 still needs is the ORDER part (transitivity / antisymmetry of these answers for pairwise
non-crossing segments), see the comment below. -/
theorem active_cmp_defined_on_spanning {la ra lb rb l r p : Pt}
    (ha1 : lexLt p la = false) (ha2 : lexLt p ra = true) (hb1 : lexLt p lb = false) (hb2 : lexLt p rb = true)
    (h1 : lexLt p l = false) (h2 : lexLt r p = false) :
    ((LoP.line la ra).cmp? (LoP.line lb rb)).isSome = true ∧
    ((LoP.line l r).cmp? (LoP.point p)).isSome = true ∧ ((LoP.point p).cmp? (LoP.line l r)).isSome = true :=
  ⟨cmp?_isSome_of_span ha1 ha2 hb1 hb2, cmp?_point_isSome_of_span h1 h2⟩

example : ((MonoBuild.LoP.line ⟨0, 0⟩ ⟨4, 1⟩).cmp? (MonoBuild.LoP.line ⟨1, 2⟩ ⟨3, 5⟩)).isSome = true :=
  (active_cmp_defined_on_spanning (p := ⟨1, 2⟩) (l := ⟨0, 0⟩) (r := ⟨4, 1⟩)
    (by decide +kernel) (by decide +kernel) (by decide +kernel) (by decide +kernel) (by decide +kernel)
    (by decide +kernel)).1

/- NOT proved (item 3 of MONO2): for a `polyValid` polygon without holes the model does not return `none`. The
panics of the model are: (a) `Active::cmp` on two segments that `LineOrPoint::partial_cmp` cannot order (`indexOf`,
`indexNotOf`, the `sort_by` of `incoming` / `outgoing`), (b) `unwrap` on an empty chain slot / the `assert!`s of
`process_next_pt` / `finish_with`, (c) `idx -= 1` at 0 in `handle_event`. The precise lemma that is missing for (a) is

    ∀ a b ∈ st.active, ∀ la lb, st.lineOf a = some la → st.lineOf b = some lb →
      (segments la, lb share no point other than a common end point) →
      (both contain a point with the abscissa-then-ordinate position of the sweep point between their ends) →
      ∃ o, la.cmp? lb = some o ∧ (o = .eq → a = b), and `cmp?` is transitive on such segments,

i.e. that pairwise non-crossing proper lines that all span the current sweep position are totally (pre)ordered by
`lineLineCmp` — from which `binarySearchBy` finds exactly the segment (`indexOf`) or its insertion position (`indexNotOf`)
in a sorted active list, the active list stays sorted, and `prev_active` is the segment geometrically below. It needs the
sub-segment invariant (every stored segment is a piece of an input edge, two pieces of one edge share at most an end
point) and the non-crossing of the edges of a valid ring; (b) then needs the parity argument (`next_is_inside` alternates
along the active list), which is what makes `help` / `helper_chain` exist when they are unwrapped. -/

end Geo.Proofs.C10
