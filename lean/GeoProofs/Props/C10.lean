/-
  C10 — Triangulations and monotone subdivision tile the polygon exactly.

  Property theorems only. Models: GeoModel/Triangulate.lean (ear-cut glue, the constrained
  Delaunay inside filter, `find_boundary_lines`), GeoModel/MonoPoly.lean (point location in a
  monotone piece, after the `fix:` commit), GeoModel/Tiling.lean (the exact tiling checker).
  The engines (earcutr, spade, the sweep builder) are parameters: no theorem is about them; their
  outputs are decided per case by `Tiling.tiles`.
-/
import GeoModel.Triangulate
import GeoModel.MonoPoly
import GeoModel.Tiling
import GeoProofs.Lemmas.C10Earcut
import GeoProofs.Lemmas.C10Stitch
import Mathlib.Tactic.NormNum

namespace Geo.Proofs.C10
open Geo Geo.Tri Geo.Mono Geo.Tiling

/-! ### ear-cut glue (`earcut_indices`) -/

/-- [T] the vertex array handed to the ear-cut routine is the flattened `coords_iter` of the
polygon: exterior first, then the interiors in order, `x` then `y` of every coordinate. -/
theorem earcut_vertices (p : Poly) : (polygonToEarcutInput p).vertices = flat p.coords := by
  have := earcut_fold p.ext [] p.ints []
  simp only [List.flatten_nil, List.append_nil, List.nil_append] at this
  unfold polygonToEarcutInput
  rw [flatInto_eq, List.nil_append, this]
  rfl

/-- [T] `vertices.length = 2 · coords_count`. -/
theorem earcut_vertices_length (p : Poly) :
    (polygonToEarcutInput p).vertices.length = 2 * coordsCount (.polygon p) := by
  rw [earcut_vertices, flat_length]
  simp [coordsCount, Poly.count, Poly.coords, List.length_flatten]

/-- [T] hole start indices: `interior_indexes[k] = |exterior| + Σ_{j<k} |interior_j|`, one per
interior ring. -/
theorem earcut_interior_indexes (p : Poly) :
    (polygonToEarcutInput p).interiorIndexes =
      (List.range p.ints.length).map (fun k => p.ext.length + ((p.ints.take k).map List.length).sum) := by
  have := earcut_fold p.ext [] p.ints []
  simp only [List.flatten_nil, List.append_nil, List.nil_append, List.map_nil, List.sum_nil,
    Nat.add_zero] at this
  unfold polygonToEarcutInput
  rw [flatInto_eq, List.nil_append, this]

example : (polygonToEarcutInput ⟨[⟨0,0⟩,⟨4,0⟩,⟨4,4⟩,⟨0,0⟩], [[⟨1,1⟩,⟨2,1⟩,⟨2,2⟩,⟨1,1⟩], [⟨3,1⟩,⟨3,2⟩,⟨2,3⟩,⟨3,1⟩]]⟩).interiorIndexes
    = [4, 8] := by decide

/-- [T] `triangle_index_to_coord i` is the `i`-th coordinate of `coords_iter` (and out of range
exactly when `i ≥ coords_count`). -/
theorem earcut_index_to_coord (p : Poly) (i : Nat) :
    indexToCoord (polygonToEarcutInput p).vertices i = p.coords[i]? := by
  rw [earcut_vertices, indexToCoord_flat]

/-- [T] for every index vector with in-range indices (whatever the engine returns) decoding does
not panic, yields `indices.length / 3` triangles, and every triangle corner is a polygon
coordinate. -/
theorem earcut_corners_are_vertices (p : Poly) (idx : List Nat) (h : ∀ i ∈ idx, i < p.coords.length) :
    ∃ ts, earcutTriangles (polygonToEarcutInput p).vertices idx = some ts ∧
      ts.length = idx.length / 3 ∧ ∀ t ∈ ts, t.1 ∈ p.coords ∧ t.2.1 ∈ p.coords ∧ t.2.2 ∈ p.coords := by
  unfold earcutTriangles
  rw [earcut_vertices]
  have := decodeRev_spec p.coords idx.length idx.reverse (by simp) (fun i hi => h i (by simpa using hi))
  simpa using this

/-- [T] the triangles come out in reverse: the first triangle is made of the *last* three
indices, last index first. -/
theorem earcut_pops_from_back (v : List Rat) (idx : List Nat) (i3 i2 i1 : Nat) :
    earcutTriangles v (idx ++ [i3, i2, i1]) =
      (match indexToCoord v i1, indexToCoord v i2, indexToCoord v i3, earcutTriangles v idx with
       | some a, some b, some c, some ts => some ((a, b, c) :: ts)
       | _, _, _, _ => none) := by
  simp [earcutTriangles, decodeRev]
  cases indexToCoord v i1 <;> cases indexToCoord v i2 <;> cases indexToCoord v i3 <;>
    cases decodeRev v idx.reverse <;> rfl

example : earcutTriangles [0, 0, 10, 0, 10, 10, 0, 10, 0, 0] [3, 0, 1, 1, 2, 3] =
    some [(⟨0, 10⟩, ⟨10, 10⟩, ⟨10, 0⟩), (⟨10, 0⟩, ⟨0, 0⟩, ⟨0, 10⟩)] := by decide +kernel

/-! ### constrained Delaunay: inside filter -/

/-- [T] `constrained_triangulation` keeps a sub-list of the outer triangulation, namely exactly
the faces whose centroid the geometry contains. -/
theorem constrained_filter_spec (contains : Pt → Bool) (outer : List Tri) (t : Tri) :
    t ∈ constrainedFilter contains outer ↔ t ∈ outer ∧ contains (centroid t) = true := by
  simp [constrainedFilter]

theorem constrained_filter_sublist (contains : Pt → Bool) (outer : List Tri) :
    (constrainedFilter contains outer).Sublist outer := List.filter_sublist

/-! ### stitching: `find_boundary_lines` -/

/-- [T] `stitch_boundary_lines`: for every line `l`, the number of lines kept by
`find_boundary_lines` that are `l` or its inverse is the parity of the number of such lines in
the input — exactly the edges used by an odd number of triangles survive, once each. -/
theorem stitch_boundary_lines (lines : List Ln) (l : Ln) :
    cnt l (findBoundaryLines lines) = cnt l lines % 2 := by
  have := foldl_boundary_parity lines [] [] (by intro l; simp [cnt]) l
  simpa [findBoundaryLines] using this

/-- [T] an edge shared by two triangles (used twice) disappears, an edge used once stays. -/
theorem stitch_shared_edge_removed (lines : List Ln) (l : Ln) (h : cnt l lines = 2) :
    cnt l (findBoundaryLines lines) = 0 := by
  rw [stitch_boundary_lines, h]

theorem stitch_unshared_edge_kept (lines : List Ln) (l : Ln) (h : cnt l lines = 1) :
    cnt l (findBoundaryLines lines) = 1 := by
  rw [stitch_boundary_lines, h]

example : findBoundaryLines (stitchLines [(⟨0,0⟩, ⟨1,0⟩, ⟨1,1⟩), (⟨0,0⟩, ⟨1,1⟩, ⟨0,1⟩)]) =
    [(⟨0,0⟩, ⟨1,0⟩), (⟨1,0⟩, ⟨1,1⟩), (⟨1,1⟩, ⟨0,1⟩), (⟨0,1⟩, ⟨0,0⟩)] := by decide +kernel

/-! ### the tiling checker: what `tiles` establishes -/

/-- [T] the checker accepts exactly when its five clauses hold. -/
theorem tiles_iff (rule : VertexRule) (pieces : List (List Pt)) (target : Geom) :
    tiles rule pieces target = true ↔
      (pieces.all (fun r => decide (r.length ≥ 4) && r.head? == r.getLast?) = true ∧
       pieces.all (verticesOk rule target) = true ∧
       pieces.all (pieceInside target) = true ∧
       pairwiseDisjoint pieces = true ∧
       areaSum pieces = specUnsigned target) := by
  unfold tiles tilesClause
  by_cases h1 : pieces.all (fun r => decide (r.length ≥ 4) && r.head? == r.getLast?) = true
  · by_cases h2 : pieces.all (verticesOk rule target) = true
    · by_cases h3 : pieces.all (pieceInside target) = true
      · by_cases h4 : pairwiseDisjoint pieces = true
        · by_cases h5 : areaSum pieces = specUnsigned target
          · simp [h1, h2, h3, h4, h5]
          · simp only [h1, h2, h3, h4, h5, Bool.not_true, Bool.false_eq_true, if_false, bne_iff_ne, ne_eq,
              not_false_eq_true, if_true, and_false, iff_false]
            split <;> simp
        · simp [h1, h2, h3, h4]
      · simp [h1, h2, h3]
    · simp only [h1, h2, Bool.not_true, Bool.false_eq_true, if_false, Bool.not_false, if_true, false_and,
        and_false, iff_false]
      cases rule <;> simp
  · simp [h1]

/-- [T] clause 2 is the shoelace sum: the area of a triangle piece is `|cross| / 2`. -/
theorem pieceArea_triangle (a b c : Pt) :
    pieceArea (triRing a b c) = rabs (cross a b c) / 2 := by
  have h : specRing (triRing a b c) = cross a b c / 2 := by
    simp only [specRing, triRing, shoelace2, det, cross]
    grind
  unfold pieceArea
  rw [h]
  unfold rabs
  split <;> split <;> grind

end Geo.Proofs.C10
