/-
  C16 — Haversine, Geodesic and Rhumb measures are mutually consistent.   (label: PARTIAL)

  Model: GeoModel/Geodesy.lean.  Proved here, for the model:
    * the bearing normalisation `(deg + 360) % 360` lands in [0, 360) whenever the raw angle is in
      [-180, 180] (the only property of `atan2` / of Karney's azimuth that is used), in exact
      arithmetic and under any monotone rounding;
    * `normalize_longitude` (after the `fix:` commit) lands in [-180, 180) for EVERY input and is the
      identity on [-180, 180); the old formula escapes the range below -540 (witness);
    * `Length` is the sum of the segment distances (0 for 0/1-point lines), for line strings and
      multi line strings;
    * `point_at_ratio_between` returns the end points bit-for-bit for ratio 0 / 1 / equal points
      (Haversine, Geodesic);
    * `points_along_line`: short-circuit, end points, every emitted ratio is < 1;
    * Geodesic: lon/lat argument order of the delegation; if the engine's `direct` inverts its
      `inverse` and is 360-periodic in the azimuth, the round trip through geo's wrapper
      (argument swaps + azimuth normalisation) returns exactly `b`;
    * over the reals (Mathlib `Real.sin`, `Real.cos`, …): the Haversine and Rhumb distance
      expressions are symmetric, non-negative and zero for identical points.
    * the rational engine of the driver (GeoModel/GeodesyNum.lean) against Mathlib's real functions
      (helpers in GeoProofs/Lemmas/C16Q*.lean): `piQ` within 2e-40 of π; `sinQ`/`cosQ` within 2^-92 on
      the reduced range [-piQ, piQ), 2^-91 up to |x| = 1000, for every x with the reduction multiple
      explicit; `sqrtQ` within one grid step; `asinQ` (and `atan2Q` against `Complex.arg`) a posteriori
      from the certificate `asinCert` that the driver evaluates on every Haversine pair; hence the driver's Haversine distance is within
      `R·2^-40` (6 µm on the mean Earth) of the real-number formula.
  NOT proved (see lib/props/C16.py): the inverse relationship itself and the ratio division —
  they are checked on the implementation's values by the Lean checker in GeoModel/Ops/C16.lean;
  convergence of the Newton arcsine (replaced by the certificate, also inside `atan2Q`).
-/
import GeoModel.Geodesy
import GeoProofs.Lemmas.C16QAtan2
import Mathlib.Tactic.Linarith
import Mathlib.Tactic.Ring
import Mathlib.Tactic.NormNum
import Mathlib.Tactic.FieldSimp
import Mathlib.Tactic.Positivity
import Mathlib.Analysis.SpecialFunctions.Trigonometric.Inverse
import Mathlib.Analysis.SpecialFunctions.Log.Basic
import Mathlib.Analysis.SpecialFunctions.Sqrt

namespace Geo.Proofs.C16
open Geo Geo.Geodesy

/-! ### `%` with the sign of the dividend -/

private theorem floor_bounds (q : Rat) : ((q.floor : Int) : Rat) ≤ q ∧ q < ((q.floor : Int) : Rat) + 1 := by
  refine ⟨Rat.floor_le q, ?_⟩
  have h := Rat.lt_floor_add_one q
  push_cast at h
  exact h

/-- [T] `x % m` for `x ≥ 0`, `m > 0` lies in `[0, m)`. -/
theorem fmodT_range_nonneg (x m : Rat) (hx : 0 ≤ x) (hm : 0 < m) :
    0 ≤ fmodT x m ∧ fmodT x m < m := by
  have hq : ¬ (x / m < 0) := not_lt.mpr (div_nonneg hx hm.le)
  obtain ⟨h1, h2⟩ := floor_bounds (x / m)
  have e1 : x = (x / m) * m := by field_simp
  simp only [fmodT, truncI, hq, if_false]
  constructor <;> nlinarith

/-- [T] `x % m` for `x < 0`, `m > 0` lies in `(-m, 0]` (Rust keeps the sign of the dividend). -/
theorem fmodT_range_neg (x m : Rat) (hx : x < 0) (hm : 0 < m) :
    -m < fmodT x m ∧ fmodT x m ≤ 0 := by
  have hq : x / m < 0 := div_neg_of_neg_of_pos hx hm
  obtain ⟨h1, h2⟩ := floor_bounds (-(x / m))
  have e1 : x = (x / m) * m := by field_simp
  simp only [fmodT, truncI, hq, if_true]
  push_cast
  constructor <;> nlinarith

/-! ### Bearings lie in [0, 360) -/

/-- [T] the bearing normalisation in exact arithmetic: a raw angle in [-180, 180] (all that is
used of `atan2(..).to_degrees()`, of `theta().to_degrees()` and of Karney's `azi1`) is mapped into
[0, 360). -/
theorem bearing_range (deg : Rat) (h1 : -180 ≤ deg) (_h2 : deg ≤ 180) :
    0 ≤ normBearing id deg ∧ normBearing id deg < 360 := by
  unfold normBearing
  exact fmodT_range_nonneg _ _ (by simp only [id]; linarith) (by norm_num)

/-- [T] the same under ANY monotone rounding of the addition that represents 180 exactly (IEEE
binary64 round-to-nearest is one): the edge `deg = -1e-20`, where `deg + 360` rounds to `360.0`,
is covered (`360 % 360 = 0`). -/
theorem bearing_range_rounded (rnd : Rat → Rat) (hmono : ∀ a b, a ≤ b → rnd a ≤ rnd b)
    (h180 : rnd 180 = 180) (deg : Rat) (h1 : -180 ≤ deg) (_h2 : deg ≤ 180) :
    0 ≤ normBearing rnd deg ∧ normBearing rnd deg < 360 := by
  unfold normBearing
  have : (180 : Rat) ≤ rnd (deg + 360) := by
    have := hmono 180 (deg + 360) (by linarith)
    rw [h180] at this; exact this
  exact fmodT_range_nonneg _ _ (by linarith) (by norm_num)

example : normBearing id (-90) = 270 := by decide +kernel
/-- [T] the edges named in DESIGN.md: `atan2° = ±180` and `0`. -/
theorem bearing_edges : normBearing id (-180) = 180 ∧ normBearing id 180 = 180 ∧ normBearing id 0 = 0 := by
  decide +kernel

/-- [T] what the model's range theorem gives for each metric space: Haversine and Rhumb with any
engine whose raw angle is in range. -/
theorem hav_bearing_range (T : Trig Rat) (a b : P2 Rat)
    (h : -180 ≤ havBearingRaw T a b ∧ havBearingRaw T a b ≤ 180) :
    0 ≤ normBearing id (havBearingRaw T a b) ∧ normBearing id (havBearingRaw T a b) < 360 :=
  bearing_range _ h.1 h.2

/-- [T] Rhumb, under the hypothesis that the raw angle is a number in [-180, 180]. Known finding
K16c (open): with both points at latitude -90 the binary64 code computes `ln(tan 0 / tan 0) = NaN`
for `delta_psi`, `atan2(_, NaN) = NaN`, and the hypothesis (hence the conclusion) fails; the exact
model has no NaN, the class is pinned down by the driver clause
`rhumb-bearing-nan-both-at-south-pole`. -/
theorem rhumb_bearing_range_partial (T : Trig Rat) (a b : P2 Rat)
    (h : -180 ≤ rhumbBearingRaw T a b ∧ rhumbBearingRaw T a b ≤ 180) :
    0 ≤ normBearing id (rhumbBearingRaw T a b) ∧ normBearing id (rhumbBearingRaw T a b) < 360 :=
  bearing_range _ h.1 h.2
-- full statement: 0 ≤ Rhumb.bearing a b < 360 for all latitudes in [-90, 90] (fails on the real
-- code exactly when a.y = b.y = -90).

/-! ### `normalize_longitude` -/

/-- [T] (after the fix) every input is mapped into [-180, 180). -/
theorem normalize_longitude_range (x : Rat) :
    -180 ≤ normalizeLongitude id x ∧ normalizeLongitude id x < 180 := by
  unfold normalizeLongitude
  simp only [id]
  by_cases hx : 0 ≤ x + 540
  · obtain ⟨h1, h2⟩ := fmodT_range_nonneg (x + 540) 360 hx (by norm_num)
    have : ¬ (fmodT (x + 540) 360 < 0) := not_lt.mpr h1
    simp only [this, if_false]
    constructor <;> linarith
  · obtain ⟨h1, h2⟩ := fmodT_range_neg (x + 540) 360 (not_le.mp hx) (by norm_num)
    by_cases h0 : fmodT (x + 540) 360 < 0
    · simp only [h0, if_true]; constructor <;> linarith
    · simp only [h0, if_false]
      have : fmodT (x + 540) 360 = 0 := le_antisymm h2 (not_lt.mp h0)
      rw [this]; norm_num

/-- [T] the identity on [-180, 180): a longitude already in range is returned unchanged. -/
theorem normalize_longitude_id (x : Rat) (h1 : -180 ≤ x) (h2 : x < 180) :
    normalizeLongitude id x = x := by
  have hq : ¬ ((x + 540) / 360 < 0) := not_lt.mpr (div_nonneg (by linarith) (by norm_num))
  have hfl : ((x + 540) / 360).floor = 1 := by
    apply le_antisymm
    · have : ((x + 540) / 360).floor < 2 := by
        rw [Rat.floor_lt_iff]; rw [div_lt_iff₀ (by norm_num)]; push_cast; linarith
      omega
    · rw [Rat.le_floor_iff]; rw [le_div_iff₀ (by norm_num)]; push_cast; linarith
  have hf : fmodT (x + 540) 360 = x + 180 := by
    simp only [fmodT, truncI, hq, if_false, hfl]; push_cast; ring
  unfold normalizeLongitude
  simp only [id, hf]
  have : ¬ (x + 180 < 0) := by linarith
  simp only [this, if_false]; ring

/-- [T] under any monotone rounding that represents ±180 exactly the result stays in [-180, 180]. -/
theorem normalize_longitude_range_rounded (rnd : Rat → Rat) (hmono : ∀ a b, a ≤ b → rnd a ≤ rnd b)
    (h180 : rnd 180 = 180) (hm180 : rnd (-180) = -180) (x : Rat) :
    -180 ≤ normalizeLongitude rnd x ∧ normalizeLongitude rnd x ≤ 180 := by
  unfold normalizeLongitude
  have key : ∀ y : Rat, -180 ≤ y → y ≤ 180 → -180 ≤ rnd y ∧ rnd y ≤ 180 := by
    intro y h1 h2
    have a := hmono _ _ h1; have b := hmono _ _ h2
    rw [hm180] at a; rw [h180] at b; exact ⟨a, b⟩
  by_cases hx : 0 ≤ rnd (x + 540)
  · obtain ⟨h1, h2⟩ := fmodT_range_nonneg (rnd (x + 540)) 360 hx (by norm_num)
    have : ¬ (fmodT (rnd (x + 540)) 360 < 0) := not_lt.mpr h1
    simp only [this, if_false]
    exact key _ (by linarith) (by linarith)
  · obtain ⟨h1, h2⟩ := fmodT_range_neg (rnd (x + 540)) 360 (not_le.mp hx) (by norm_num)
    by_cases h0 : fmodT (rnd (x + 540)) 360 < 0
    · simp only [h0, if_true]; exact key _ (by linarith) (by linarith)
    · simp only [h0, if_false]; exact key _ (by linarith) (by linarith)

/-- [T] the formula before the fix, `((x + 540) % 360) - 180`, is in range only from -540 upwards … -/
theorem normalizeLongitudeOld_range_partial (x : Rat) (hx : -540 ≤ x) :
    -180 ≤ normalizeLongitudeOld x ∧ normalizeLongitudeOld x < 180 := by
  unfold normalizeLongitudeOld
  obtain ⟨h1, h2⟩ := fmodT_range_nonneg (x + 540) 360 (by linarith) (by norm_num)
  constructor <;> linarith
-- full statement (false for the old code, true for the repaired one: `normalize_longitude_range`):
--   ∀ x, -180 ≤ normalizeLongitudeOld x ∧ normalizeLongitudeOld x < 180

/-- … and escapes below it (known finding K16b, fixed): -548 ↦ -188. -/
theorem normalizeLongitudeOld_escapes :
    normalizeLongitudeOld (-548) = -188 ∧ normalizeLongitude id (-548) = 172 := by
  decide +kernel

/-! ### Length = Σ segment distances -/

private theorem foldl_add_eq (f : Pt × Pt → Rat) (l : List (Pt × Pt)) (acc : Rat) :
    l.foldl (fun a s => id (a + f s)) acc = acc + (l.map f).sum := by
  induction l generalizing acc with
  | nil => simp
  | cons h t ih => simp only [List.foldl_cons, List.map_cons, List.sum_cons, id] at *; rw [ih]; ring

/-- [T] `LineString::length` is the sum of the distances of its consecutive point pairs. -/
theorem length_sum (dist : Pt → Pt → Rat) (ls : List Pt) :
    lengthLS id dist ls = ((segs ls).map (fun s => dist s.1 s.2)).sum := by
  unfold lengthLS
  rw [foldl_add_eq (fun s => dist s.1 s.2)]; ring

/-- [T] 0- and 1-point line strings have length 0, under any rounding. -/
theorem length_degenerate (rnd : Rat → Rat) (dist : Pt → Pt → Rat) (p : Pt) :
    lengthLS rnd dist [] = 0 ∧ lengthLS rnd dist [p] = 0 := by
  simp [lengthLS, segs]

/-- [T] a two-point line string has the length of its only segment; a `Line` likewise. -/
theorem length_two (dist : Pt → Pt → Rat) (a b : Pt) :
    lengthLS id dist [a, b] = dist a b ∧ lengthLine dist a b = dist a b := by
  simp [lengthLS, segs, lengthLine]

private theorem foldl_add_eq' (f : List Pt → Rat) (l : List (List Pt)) (acc : Rat) :
    l.foldl (fun a s => id (a + f s)) acc = acc + (l.map f).sum := by
  induction l generalizing acc with
  | nil => simp
  | cons h t ih => simp only [List.foldl_cons, List.map_cons, List.sum_cons, id] at *; rw [ih]; ring

/-- [T] `MultiLineString::length` is the sum of its members' lengths, hence of all segment distances. -/
theorem lengthMLS_sum (dist : Pt → Pt → Rat) (mls : List (List Pt)) :
    lengthMLS id dist mls = (mls.map (fun ls => ((segs ls).map (fun s => dist s.1 s.2)).sum)).sum := by
  unfold lengthMLS
  rw [foldl_add_eq' (lengthLS id dist)]
  simp only [zero_add]
  congr 1
  exact List.map_congr_left (fun ls _ => length_sum dist ls)

example : lengthLS id (fun a b => rabs (a.x - b.x)) [⟨0, 0⟩, ⟨3, 0⟩, ⟨1, 0⟩] = 5 := by decide +kernel

/-! ### `point_at_ratio_between`: end points bit-for-bit -/

/-- [T] ratio 0, ratio 1 and equal points short-circuit to the end points themselves, whatever the
interpolation formula is (Haversine, Geodesic). -/
theorem pointAtRatio_endpoints (a b : Pt) (calcAt : Rat → Pt) :
    pointAtRatioSC a b 0 calcAt = a ∧ pointAtRatioSC a b 1 calcAt = b ∧
    (∀ r, a = b → pointAtRatioSC a b r calcAt = a) := by
  refine ⟨by simp [pointAtRatioSC], ?_, fun r h => by simp [pointAtRatioSC, h]⟩
  unfold pointAtRatioSC
  by_cases h : a = b
  · simp [h]
  · simp [h]

/-- [T] strictly inside, the formula is what is evaluated. -/
theorem pointAtRatio_inner (a b : Pt) (r : Rat) (calcAt : Rat → Pt) (hab : a ≠ b) (h0 : r ≠ 0) (h1 : r ≠ 1) :
    pointAtRatioSC a b r calcAt = calcAt r := by
  simp [pointAtRatioSC, hab, h0, h1]

/-- [T] the Geodesic instance. -/
theorem geodesic_pointAtRatio_endpoints (E : GeodEngine) (rnd : Rat → Rat) (a b : Pt) :
    Geodesic.pointAtRatio E rnd a b 0 = a ∧ Geodesic.pointAtRatio E rnd a b 1 = b :=
  ⟨(pointAtRatio_endpoints a b _).1, (pointAtRatio_endpoints a b _).2.1⟩

/-! ### `points_along_line` -/

/-- [T] `total ≤ max`: only the end points (or nothing). -/
theorem pointsAlong_short (rnd : Rat → Rat) (total max : Rat) (incl : Bool) (a b : Pt) (pAt : Rat → Pt)
    (h : total ≤ max) : pointsAlong rnd total max incl a b pAt = if incl then [a, b] else [] := by
  simp [pointsAlong, h]

/-- [T] with `include_ends` the list starts at `start` and ends at `end`, bit-for-bit. -/
theorem pointsAlong_ends (rnd : Rat → Rat) (total max : Rat) (a b : Pt) (pAt : Rat → Pt) :
    (pointsAlong rnd total max true a b pAt).head? = some a ∧
    (pointsAlong rnd total max true a b pAt).getLast? = some b := by
  unfold pointsAlong
  by_cases h : total ≤ max
  · simp [h]
  · simp only [h, if_false, if_true, List.singleton_append]
    exact ⟨rfl, List.getLast?_concat⟩

/-- [T] every ratio the loop emits is `< 1` (the loop guard), so no interior point is requested
at or beyond the end. -/
theorem stepLoop_lt_one (rnd : Rat → Rat) (interval : Rat) (fuel : Nat) (cur : Rat) :
    ∀ r ∈ stepLoop rnd interval fuel cur, r < 1 := by
  induction fuel generalizing cur with
  | zero => simp [stepLoop]
  | succ n ih =>
    intro r hr
    unfold stepLoop at hr
    by_cases h : cur < 1
    · simp only [h, if_true, List.mem_cons] at hr
      rcases hr with rfl | hr
      · exact h
      · exact ih _ r hr
    · simp [h] at hr

/-- [T] number of points: the interior ones are exactly the loop's ratios. -/
theorem pointsAlong_length (rnd : Rat → Rat) (total max : Rat) (incl : Bool) (a b : Pt) (pAt : Rat → Pt)
    (h : ¬ total ≤ max) :
    (pointsAlong rnd total max incl a b pAt).length =
      (stepRatios rnd total max).length + (if incl then 2 else 0) := by
  unfold pointsAlong
  cases incl <;> simp [h]

/-! ### Geodesic: delegation to the Karney solver -/

/-- [T] argument order: geo passes (lat, lon) = (y, x) to `inverse`/`direct` and builds the result
point as (lon, lat). -/
theorem geodesic_argument_order (E : GeodEngine) (a b : Pt) (brg d : Rat) :
    Geodesic.distance E a b = (E.inverse a.y a.x b.y b.x).1 ∧
    (Geodesic.destination E a brg d).x = (E.direct a.y a.x brg d).2 ∧
    (Geodesic.destination E a brg d).y = (E.direct a.y a.x brg d).1 := ⟨rfl, rfl, rfl⟩

/-- [T] bearing range from Karney's azimuth range. -/
theorem geodesic_bearing_range (E : GeodEngine) (a b : Pt)
    (h : -180 ≤ (E.inverse a.y a.x b.y b.x).2.1 ∧ (E.inverse a.y a.x b.y b.x).2.1 ≤ 180) :
    0 ≤ Geodesic.bearing E id a b ∧ Geodesic.bearing E id a b < 360 :=
  bearing_range _ h.1 h.2

/-- [T, engine assumption A] symmetry / sign / zero are inherited from the engine. -/
theorem geodesic_distance_inherits (E : GeodEngine)
    (hsym : ∀ la lo la' lo', (E.inverse la lo la' lo').1 = (E.inverse la' lo' la lo).1)
    (hnn : ∀ la lo la' lo', 0 ≤ (E.inverse la lo la' lo').1)
    (hz : ∀ la lo, (E.inverse la lo la lo).1 = 0) (a b : Pt) :
    Geodesic.distance E a b = Geodesic.distance E b a ∧ 0 ≤ Geodesic.distance E a b ∧
    Geodesic.distance E a a = 0 :=
  ⟨hsym _ _ _ _, hnn _ _ _ _, hz _ _⟩

private theorem normBearing_cases (az : Rat) (h1 : -180 ≤ az) (h2 : az ≤ 180) :
    normBearing id az = az ∨ normBearing id az = az + 360 := by
  have hq : ¬ ((az + 360) / 360 < 0) := not_lt.mpr (div_nonneg (by linarith) (by norm_num))
  by_cases h : 0 ≤ az
  · left
    have hfl : ((az + 360) / 360).floor = 1 := by
      apply le_antisymm
      · have : ((az + 360) / 360).floor < 2 := by
          rw [Rat.floor_lt_iff]; rw [div_lt_iff₀ (by norm_num)]; push_cast; linarith
        omega
      · rw [Rat.le_floor_iff]; rw [le_div_iff₀ (by norm_num)]; push_cast; linarith
    simp only [normBearing, id, fmodT, truncI, hq, if_false, hfl]; push_cast; ring
  · right
    have hfl : ((az + 360) / 360).floor = 0 := by
      apply le_antisymm
      · have : ((az + 360) / 360).floor < 1 := by
          rw [Rat.floor_lt_iff]; rw [div_lt_iff₀ (by norm_num)]; push_cast; linarith
        omega
      · rw [Rat.le_floor_iff]; rw [le_div_iff₀ (by norm_num)]; push_cast; linarith
    simp only [normBearing, id, fmodT, truncI, hq, if_false, hfl]; push_cast; ring

/-- [T, engine assumption A] the round trip *through geo's wrapper*: if the engine's `direct`
undoes its `inverse` and does not distinguish azimuths 360 apart, then
`destination(a, bearing(a,b), distance(a,b)) = b` exactly — the lon/lat swaps on the way in and
out and the azimuth normalisation cancel. (That the real engine satisfies the hypothesis to a
nanometre is observed each run, not proved.) -/
theorem geodesic_roundtrip_partial (E : GeodEngine)
    (hinv : ∀ la lo la' lo', E.direct la lo (E.inverse la lo la' lo').2.1 (E.inverse la lo la' lo').1 = (la', lo'))
    (hper : ∀ la lo az s, E.direct la lo (az + 360) s = E.direct la lo az s)
    (haz : ∀ la lo la' lo', -180 ≤ (E.inverse la lo la' lo').2.1 ∧ (E.inverse la lo la' lo').2.1 ≤ 180)
    (a b : Pt) :
    Geodesic.destination E a (Geodesic.bearing E id a b) (Geodesic.distance E a b) = b := by
  unfold Geodesic.destination Geodesic.bearing Geodesic.distance Geodesic.inv
  rcases normBearing_cases _ (haz a.y a.x b.y b.x).1 (haz a.y a.x b.y b.x).2 with h | h
  · rw [h, hinv]
  · rw [h, hper, hinv]
-- full statement (not provable here): the same for the real geographiclib-rs within 1e-3 m.

/-! ### The distance expressions over the reals -/

/-- The engine instantiated with Mathlib's real functions (`atan2` is not used by the distance
expressions and stays a parameter). -/
noncomputable def realTrig (atan2 : ℝ → ℝ → ℝ) : Trig ℝ :=
  { sin := Real.sin, cos := Real.cos, tan := Real.tan, asin := Real.arcsin, atan2 := atan2,
    sqrt := Real.sqrt, hypot := fun x y => Real.sqrt (x * x + y * y), ln := Real.log,
    abs := fun x => |x|, toRad := fun d => d * (Real.pi / 180), toDeg := fun r => r * (180 / Real.pi),
    pi := Real.pi, lt := fun a b => decide (a < b), ofRat := fun q => (q : ℝ) }

/-- [T] the Haversine expression is invariant under swapping the two points
(`sin(-x)² = sin(x)²`, the cosine product commutes). -/
theorem haversine_symm (at2 : ℝ → ℝ → ℝ) (R : ℝ) (a b : P2 ℝ) :
    havDistance (realTrig at2) R a b = havDistance (realTrig at2) R b a := by
  simp only [havDistance, realTrig, Geodesy.sq]
  have e1 : Real.sin ((a.2 - b.2) * (Real.pi / 180) / (1 + 1)) =
      - Real.sin ((b.2 - a.2) * (Real.pi / 180) / (1 + 1)) := by
    rw [← Real.sin_neg]; congr 1; ring
  have e2 : Real.sin ((a.1 - b.1) * (Real.pi / 180) / (1 + 1)) =
      - Real.sin ((b.1 - a.1) * (Real.pi / 180) / (1 + 1)) := by
    rw [← Real.sin_neg]; congr 1; ring
  rw [e1, e2]
  congr 3
  ring_nf

/-- [T] it is non-negative for a non-negative radius … -/
theorem haversine_nonneg (at2 : ℝ → ℝ → ℝ) (R : ℝ) (hR : 0 ≤ R) (a b : P2 ℝ) :
    0 ≤ havDistance (realTrig at2) R a b := by
  simp only [havDistance, realTrig]
  exact mul_nonneg hR (mul_nonneg (by norm_num) (Real.arcsin_nonneg.2 (Real.sqrt_nonneg _)))

/-- [T] … and zero for identical points. -/
theorem haversine_self (at2 : ℝ → ℝ → ℝ) (R : ℝ) (a : P2 ℝ) :
    havDistance (realTrig at2) R a a = 0 := by
  simp [havDistance, realTrig, Geodesy.sq]

/-- [T] Rhumb: non-negative for a non-negative radius. -/
theorem rhumb_nonneg (at2 : ℝ → ℝ → ℝ) (R : ℝ) (hR : 0 ≤ R) (a b : P2 ℝ) :
    0 ≤ rhumbDistance (realTrig at2) R a b := by
  simp only [rhumbDistance, rhumbDelta, realTrig]
  exact mul_nonneg (Real.sqrt_nonneg _) hR

/-- [T] Rhumb: zero for identical points. -/
theorem rhumb_self (at2 : ℝ → ℝ → ℝ) (R : ℝ) (a : P2 ℝ) :
    rhumbDistance (realTrig at2) R a a = 0 := by
  have hpi := Real.pi_pos
  have h1 : ¬ (Real.pi < 0) := by linarith
  have h2 : ¬ ((0 : ℝ) < -Real.pi) := by linarith
  simp [rhumbDistance, rhumbDelta, rhumbCalc, rhumbWrap, realTrig, h1, h2]

/-! ### The rational engine of the driver against the real functions

`GeoModel/GeodesyNum.lean`: Taylor series with 33 terms, every term rounded down to the 2^-100 grid,
after reduction to `[-piQ, piQ)`; grid square root; Newton arcsine. Helper lemmas:
`GeoProofs/Lemmas/C16Q{Series,Taylor,Trig,Asin,Hav}.lean`. -/

open Geo.GeodesyNum in
/-- [T] the engine's π: `piQ < π < piQ + 2·10^-40` (from the degree-65 Taylor polynomial of the sine
evaluated exactly at `piQ` and `piQ + 2·10^-40` by the kernel). -/
theorem piQ_close : (piQ : ℝ) < Real.pi ∧ Real.pi < (piQ : ℝ) + 2 / 10 ^ 40 :=
  ⟨C16Q.piQ_lt_pi, C16Q.pi_lt_piQ_add⟩

open Geo.GeodesyNum in
/-- [T] the range reduction lands in `[-piQ, piQ)` and is the identity there; the argument handed to
the series (rounded to the grid) satisfies `|y| ≤ 3.15`. -/
theorem reduce_range (x : ℚ) :
    (-piQ ≤ reduce x ∧ reduce x < piQ) ∧ |rd (reduce x)| ≤ 63 / 20 ∧
    (-piQ ≤ x → x < piQ → reduce x = x) := by
  refine ⟨C16Q.reduce_range x, C16Q.reduced_arg_range x, fun h1 h2 => ?_⟩
  rw [C16Q.reduce_eq, C16Q.redK_zero x h1 h2]; simp

open Geo.GeodesyNum in
/-- [T] the rounded series themselves, on the reduced range: 64 grid steps of accumulated rounding
(2 per term) plus a truncation error below 2^-190. -/
theorem ratSeries_close (y : ℚ) (hy : |y| ≤ 63 / 20) :
    |((series (y * y) 1 32 0 y y : ℚ) : ℝ) - Real.sin (y : ℝ)| ≤ 1 / 2 ^ 93 ∧
    |((series (y * y) 0 32 0 1 1 : ℚ) : ℝ) - Real.cos (y : ℝ)| ≤ 1 / 2 ^ 93 :=
  ⟨C16Q.sinSeries_close y hy, C16Q.cosSeries_close y hy⟩

example : |(3 : ℚ)| ≤ 63 / 20 := by norm_num

open Geo.GeodesyNum in
/-- [T] `sinQ` for EVERY rational argument: 2^-92 (series 2^-93 + rounding of the reduced argument
2^-100) plus the error of `piQ` times the multiple of `2·piQ` that the reduction removed. -/
theorem ratSin_close (x : ℚ) :
    |((sinQ x : ℚ) : ℝ) - Real.sin (x : ℝ)| ≤
      1 / 2 ^ 92 + |(((x / (2 * piQ) + 1 / 2).floor : ℤ) : ℝ)| * (4 / 10 ^ 40) :=
  C16Q.ratSin_close x

open Geo.GeodesyNum in
/-- [T] `cosQ` likewise. -/
theorem ratCos_close (x : ℚ) :
    |((cosQ x : ℚ) : ℝ) - Real.cos (x : ℝ)| ≤
      1 / 2 ^ 92 + |(((x / (2 * piQ) + 1 / 2).floor : ℤ) : ℝ)| * (4 / 10 ^ 40) :=
  C16Q.ratCos_close x

open Geo.GeodesyNum in
/-- [T] on the interval the reduction maps to, `[-piQ, piQ)`: 2^-92 (about 2e-28; the configuration
claims 2^-60). -/
theorem ratSinCos_close_reduced (x : ℚ) (h1 : -piQ ≤ x) (h2 : x < piQ) :
    |((sinQ x : ℚ) : ℝ) - Real.sin (x : ℝ)| ≤ 1 / 2 ^ 92 ∧
    |((cosQ x : ℚ) : ℝ) - Real.cos (x : ℝ)| ≤ 1 / 2 ^ 92 :=
  ⟨C16Q.ratSin_close_reduced x h1 h2, C16Q.ratCos_close_reduced x h1 h2⟩

example : -Geo.GeodesyNum.piQ ≤ (-3 : ℚ) ∧ (-3 : ℚ) < Geo.GeodesyNum.piQ := by
  norm_num [Geo.GeodesyNum.piQ]

open Geo.GeodesyNum in
/-- [T] for every argument up to 1000 in absolute value (the driver's stay below 20): 2^-91. -/
theorem ratSinCos_close_1000 (x : ℚ) (hx : |x| ≤ 1000) :
    |((sinQ x : ℚ) : ℝ) - Real.sin (x : ℝ)| ≤ 1 / 2 ^ 91 ∧
    |((cosQ x : ℚ) : ℝ) - Real.cos (x : ℝ)| ≤ 1 / 2 ^ 91 :=
  ⟨C16Q.ratSin_close_1000 x hx, C16Q.ratCos_close_1000 x hx⟩

example : |(-720 : ℚ)| ≤ 1000 := by norm_num

open Geo.GeodesyNum in
/-- [T] the grid square root, in rational arithmetic: `r ≥ 0`, `r² ≤ q < (r + 2^-100)²`, hence
`|r² − q| ≤ 2·r·2^-100 + 2^-200`; and `sqrtQ q = 0` for `q ≤ 0`. -/
theorem ratSqrt_close (q : ℚ) :
    (0 ≤ q → 0 ≤ sqrtQ q ∧ sqrtQ q ^ 2 ≤ q ∧ q < (sqrtQ q + 1 / 2 ^ 100) ^ 2 ∧
      |sqrtQ q ^ 2 - q| ≤ 2 * sqrtQ q * (1 / 2 ^ 100) + (1 / 2 ^ 100) ^ 2) ∧
    (q ≤ 0 → sqrtQ q = 0) := by
  refine ⟨fun hq => ?_, C16Q.sqrtQ_nonpos q⟩
  obtain ⟨h0, h1, h2⟩ := C16Q.ratSqrt_close q hq
  exact ⟨h0, h1, h2, C16Q.ratSqrt_residual q hq⟩

example : Geo.GeodesyNum.sqrtQ 2 = 896364335596578238699711011639 / 633825300114114700748351602688 := by
  decide +kernel

open Geo.GeodesyNum in
/-- [T] against the real square root: `r ≤ √q < r + 2^-100`. -/
theorem ratSqrt_real (q : ℚ) (hq : 0 ≤ q) :
    ((sqrtQ q : ℚ) : ℝ) ≤ Real.sqrt (q : ℝ) ∧ Real.sqrt (q : ℝ) < ((sqrtQ q : ℚ) : ℝ) + 1 / 2 ^ 100 :=
  C16Q.ratSqrt_real q hq

open Geo.GeodesyNum in
/-- [T] inverting the cosine a posteriori (what the next two theorems rest on): `A` within `t` of
`[0, π]`, `|cos A − x| ≤ η` ⟹ `|A − arccos x| ≤ 2t + π·√(η/2)`. -/
theorem arccos_a_posteriori (A x t η : ℝ) (ht : 0 ≤ t) (hA1 : -t ≤ A) (hA2 : A ≤ Real.pi + t)
    (hx1 : -1 ≤ x) (hx2 : x ≤ 1) (h : |Real.cos A - x| ≤ η) :
    |A - Real.arccos x| ≤ 2 * t + Real.pi * Real.sqrt (η / 2) :=
  C16Q.arccos_post A x t η ht hA1 hA2 hx1 hx2 h

example : (0 : ℝ) ≤ 0 ∧ |Real.cos 0 - 1| ≤ 0 := by simp

open Geo.GeodesyNum in
/-- [T] (a posteriori) the Newton arcsine against `Real.arcsin`, GIVEN the certificate `asinCert x`
(result within 2^-44 of the right quarter turn; the engine's own sine of the result within 2^-90 of `x`):
`2^-42` rad — the true error is about 1e-14 next to `|x| = 1` (where the result can overshoot π/2 by
that much) and 1e-29 elsewhere. -/
theorem ratAsin_close_partial (x : ℚ) (hx : |x| ≤ 1) (hc : asinCert x = true) :
    |((asinQ x : ℚ) : ℝ) - Real.arcsin (x : ℝ)| ≤ 1 / 2 ^ 42 :=
  C16Q.ratAsin_close_partial x hx hc
-- full statement (not proved: the convergence of the Newton iteration with rounded steps is not):
--   ∀ x, |x| ≤ 1 → |asinQ x − arcsin x| ≤ 2^-42, i.e. `asinCert x = true` for every grid point x.
-- The certificate is a computable check; the driver evaluates it on every Haversine pair.
-- It FAILS for some off-grid x within 2^-190 of ±1 (the iteration divides by a cosine of 1–2 grid
-- steps); `sqrtQ` only produces grid points, which is what `havDistance` feeds it.

example : |(1 / 2 : ℚ)| ≤ 1 ∧ Geo.GeodesyNum.asinCert (1 / 2) = true :=
  ⟨by norm_num, by decide +kernel⟩

open Geo.GeodesyNum in
/-- [T] (a posteriori) `atan2Q y x` against Mathlib's two-argument arctangent `Complex.arg (x + y·i)`
(range (-π, π], the convention of libm's `atan2` away from the signed zeros): within `2^-41` when the
grid root of `x² + y²` is at least `2^-40`, GIVEN the certificate of the one arcsine the branch calls
(on the smaller of `y/r`, `x/r`, so `|·| ≤ 0.71`: there the true error is about 1e-27). -/
theorem ratAtan2_close_partial (y x : ℚ) (hr : 1 / 2 ^ 40 ≤ sqrtQ (x * x + y * y))
    (hc : asinCert ((if rabs y ≤ rabs x then y else x) / sqrtQ (x * x + y * y)) = true) :
    |((atan2Q y x : ℚ) : ℝ) - Complex.arg ⟨(x : ℝ), (y : ℝ)⟩| ≤ 1 / 2 ^ 41 :=
  C16Q.ratAtan2_close y x hr hc
-- full statement (not proved): without the certificate, and for every (x, y) ≠ (0, 0) (for a tiny root the
-- division by the grid root loses relative accuracy: the bound is `2^-100 / r`).
-- The driver does NOT evaluate this certificate (bearing / destination comparisons); only `havCert`.

example : (1 : ℚ) / 2 ^ 40 ≤ Geo.GeodesyNum.sqrtQ ((-4) * (-4) + 3 * 3) ∧
    Geo.GeodesyNum.asinCert ((if rabs (3 : ℚ) ≤ rabs (-4 : ℚ) then (3 : ℚ) else -4) /
      Geo.GeodesyNum.sqrtQ ((-4) * (-4) + 3 * 3)) = true := by
  decide +kernel

/-- the point with real coordinates -/
abbrev castP (a : P2 ℚ) : P2 ℝ := C16Q.castP a

open Geo.GeodesyNum in
theorem havDistance_rat_eq (R : ℚ) (a b : P2 ℚ) :
    havDistance ratTrig R a b = R * ((1 + 1) * asinQ (sqrtQ (havH ratTrig a b))) := rfl

theorem havDistance_real_eq (at2 : ℝ → ℝ → ℝ) (R : ℝ) (a b : P2 ℝ) :
    havDistance (realTrig at2) R a b = R * ((1 + 1) * Real.arcsin (Real.sqrt (C16Q.hReal a b))) := rfl

open Geo.GeodesyNum in
/-- [T] the engine's `h` is within 2^-87 of the real one, and the real one is in `[0, 1]`. -/
theorem haversine_h_close (at2 : ℝ → ℝ → ℝ) (a b : P2 ℚ) (ha : |a.2| ≤ 90) (hb : |b.2| ≤ 90)
    (hl : |b.1 - a.1| ≤ 1000) :
    |((havH ratTrig a b : ℚ) : ℝ) - havH (realTrig at2) (castP a) (castP b)| ≤ 1 / 2 ^ 87 ∧
    0 ≤ havH (realTrig at2) (castP a) (castP b) ∧ havH (realTrig at2) (castP a) (castP b) ≤ 1 :=
  ⟨C16Q.h_close a b ha hb hl, C16Q.hReal_range a b ha hb⟩

open Geo.GeodesyNum in
/-- [T] the driver's rational Haversine distance against the real-number formula (Mathlib's `Real.sin`,
`Real.cos`, `Real.sqrt`, `Real.arcsin`, `Real.pi`): within `R·2^-40` for latitudes in [-90, 90] and a
longitude difference up to 1000 degrees, GIVEN the arcsine certificate `havCert a b` that the driver
evaluates on every pair (a failure is reported as a model mismatch). -/
theorem haversine_distance_engine_close_partial (at2 : ℝ → ℝ → ℝ) (R : ℚ) (hR : 0 ≤ R) (a b : P2 ℚ)
    (ha : |a.2| ≤ 90) (hb : |b.2| ≤ 90) (hl : |b.1 - a.1| ≤ 1000) (hc : havCert a b = true) :
    |((havDistance ratTrig R a b : ℚ) : ℝ) - havDistance (realTrig at2) (R : ℝ) (castP a) (castP b)|
      ≤ (R : ℝ) / 2 ^ 40 := by
  rw [havDistance_rat_eq, havDistance_real_eq]
  have h := C16Q.central_angle_close a b ha hb hl hc
  have hRR : (0 : ℝ) ≤ (R : ℝ) := by exact_mod_cast hR
  rw [Rat.cast_mul, ← mul_sub, abs_mul, abs_of_nonneg hRR, div_eq_mul_one_div]
  exact mul_le_mul_of_nonneg_left h hRR
-- full statement (not proved): the same without `havCert a b = true` (needs convergence of the Newton
-- arcsine on grid points).

example : |((10 : ℚ), (50 : ℚ)).2| ≤ 90 ∧ |((-170 : ℚ), (-35 : ℚ)).2| ≤ 90 ∧
    |((-170 : ℚ), (-35 : ℚ)).1 - ((10 : ℚ), (50 : ℚ)).1| ≤ 1000 ∧
    Geo.GeodesyNum.havCert ((10 : ℚ), (50 : ℚ)) ((-170 : ℚ), (-35 : ℚ)) = true :=
  ⟨by norm_num, by norm_num, by norm_num, by decide +kernel⟩

open Geo.GeodesyNum in
/-- [T] in general position the single inversion is Lipschitz too: if the engine's `h` stays
`δ²/4 + 2^-87` away from 0 and 1 and its arcsine `δ/2` away from 0 and `piQ/2` (four rational
comparisons on model values, `δ` about the angular distance from coincidence / antipodality), the
engine is within `R·2^-84/δ` of the real formula — e.g. `δ = 2^-20` (6 m on the Earth): 4e-13 m. -/
theorem haversine_distance_engine_close_interior_partial (at2 : ℝ → ℝ → ℝ) (R : ℚ) (hR : 0 ≤ R)
    (δ : ℚ) (hδ0 : 0 < δ) (hδ1 : δ ≤ 1) (a b : P2 ℚ)
    (ha : |a.2| ≤ 90) (hb : |b.2| ≤ 90) (hl : |b.1 - a.1| ≤ 1000) (hc : havCert a b = true)
    (hh1 : δ ^ 2 / 4 + 1 / 2 ^ 87 ≤ havH ratTrig a b) (hh2 : havH ratTrig a b ≤ 1 - δ ^ 2 / 4 - 1 / 2 ^ 87)
    (ha1 : δ / 2 ≤ asinQ (sqrtQ (havH ratTrig a b))) (ha2 : asinQ (sqrtQ (havH ratTrig a b)) ≤ piQ / 2 - δ / 2) :
    |((havDistance ratTrig R a b : ℚ) : ℝ) - havDistance (realTrig at2) (R : ℝ) (castP a) (castP b)|
      ≤ (R : ℝ) / ((δ : ℝ) * 2 ^ 84) := by
  rw [havDistance_rat_eq, havDistance_real_eq]
  have h := C16Q.central_angle_close_interior δ hδ0 hδ1 a b ha hb hl hc hh1 hh2 ha1 ha2
  have hRR : (0 : ℝ) ≤ (R : ℝ) := by exact_mod_cast hR
  rw [Rat.cast_mul, ← mul_sub, abs_mul, abs_of_nonneg hRR, div_eq_mul_one_div]
  exact mul_le_mul_of_nonneg_left h hRR
-- full statement (not proved): the same without `havCert a b = true`.

example :
    let a : P2 ℚ := (10, 50); let b : P2 ℚ := (-170, -35); let δ : ℚ := 1 / 1000
    δ ^ 2 / 4 + 1 / 2 ^ 87 ≤ havH Geo.GeodesyNum.ratTrig a b ∧
    havH Geo.GeodesyNum.ratTrig a b ≤ 1 - δ ^ 2 / 4 - 1 / 2 ^ 87 ∧
    δ / 2 ≤ Geo.GeodesyNum.asinQ (Geo.GeodesyNum.sqrtQ (havH Geo.GeodesyNum.ratTrig a b)) ∧
    Geo.GeodesyNum.asinQ (Geo.GeodesyNum.sqrtQ (havH Geo.GeodesyNum.ratTrig a b)) ≤
      Geo.GeodesyNum.piQ / 2 - δ / 2 := by
  decide +kernel

open Geo.GeodesyNum in
/-- [T] on the mean Earth radius: 6 micrometres. -/
theorem haversine_distance_engine_close_mean_earth_partial (at2 : ℝ → ℝ → ℝ) (a b : P2 ℚ)
    (ha : |a.2| ≤ 90) (hb : |b.2| ≤ 90) (hl : |b.1 - a.1| ≤ 1000) (hc : havCert a b = true) :
    |((havDistance ratTrig (63710088 / 10) a b : ℚ) : ℝ) -
      havDistance (realTrig at2) ((63710088 / 10 : ℚ) : ℝ) (castP a) (castP b)| ≤ 6 / 10 ^ 6 := by
  refine le_trans (haversine_distance_engine_close_partial at2 (63710088 / 10) (by norm_num) a b ha hb hl hc) ?_
  norm_num

end Geo.Proofs.C16
