/-
  C07 — Euclidean distance is the true minimum distance: theorems about the model
  GeoModel/Distance.lean (squared distances; see that file for the conventions).

  Layers:
   1. the point–segment kernel `psd2` (= `line_segment_distance²`) is the exact minimum over the
      closed segment, is attained, vanishes exactly on the segment;
   2. `Line × Line`: zero ⇔ the segments share a point; symmetric; otherwise one of the four
      end-point distances and below all four; **T2** `segseg_min_at_endpoint`: for disjoint segments
      the smallest end-point distance is the minimum of `|a(s) − c(t)|²` over the whole unit square,
      hence `Line × Line` is the true minimum over all pairs of points (`IsMinDist`);
   3. `fold(max_value, min)`: result attained by an element, lower bound of all, zero ⇔ an element is;
   4. `nearest_neighbour_distance`: symmetric, the minimum over all vertex–segment pairs (both ways)
      and — for line strings whose segments do not meet — over all pairs of points; `Line × LineString`
      and `LineString × LineString` are the true minimum over all pairs of points;
   5. every kernel is non-negative and does not panic on operands with at least one segment;
      the short-circuits give zero; dispatch (`calls`) lifts 3 to `distG`; between operands of
      dimension ≤ 1 (Point, Line, LineString and their Multi*/collections) `distG` is the true minimum
      over all pairs of points of all pairs of parts (Point × LineString: where K4 does not strike);
   6. symmetry by construction of the mixed pairs, wrapper invariance (Rect/Triangle as Polygon,
      singleton Multi*, collection of one);
   7. finding K4: `Point × LineString` is zero exactly on the line string *only* where the
      tolerance test has no false positive (`…_partial`, with a witness of the excluded class);
   8. areal operands (OGC-valid polygons, Rect / Triangle through `to_polygon`): every `intersects`
      short-circuit fires exactly when the closed point sets share a point; Point / Line / LineString /
      Polygon × Polygon return the true minimum distance to the closed polygon as a point set (a point
      outside a valid polygon is nearest to its boundary; the containment branches measure the right hole
      rings); all 36 single-part pairs and, through the dispatch, all geometries with linear and valid
      areal parts; `distance(a, b) = distance(b, a)` for all of them.
-/
import GeoProofs.Lemmas.C07Kernels
import GeoProofs.Lemmas.C07Dispatch
import GeoProofs.Lemmas.C07Bbox
import GeoProofs.Lemmas.C07PBase
import GeoProofs.Lemmas.C07PParts
import GeoProofs.Lemmas.C07PRings
import GeoProofs.Lemmas.TRANDist
import GeoProofs.Lemmas.C07XDisp

namespace Geo.Proofs.C07
open Geo Geo.Proofs.Kernel

/-! ### 1. point × segment -/

/-- **T1** `line_segment_distance(p, a, b)² ≤ |p − (a + t(b−a))|²` for every `t ∈ [0,1]`
(all three branches: `r ≤ 0`, `r ≥ 1`, perpendicular foot) -/
theorem psd2_min (p a b : Pt) (t : Rat) (h0 : 0 ≤ t) (h1 : t ≤ 1) :
    psd2 p a b ≤ dist2 p ⟨a.x + t * (b.x - a.x), a.y + t * (b.y - a.y)⟩ :=
  psd2_le_segPt p a b t h0 h1

example : psd2 ⟨2, 3⟩ ⟨0, 0⟩ ⟨5, 0⟩ ≤ dist2 ⟨2, 3⟩ ⟨0 + (1/5) * (5 - 0), 0 + (1/5) * (0 - 0)⟩ :=
  psd2_min _ _ _ (1/5) (by norm_num) (by norm_num)

/-- **T1** the bound is attained on the segment -/
theorem psd2_min_attained (p a b : Pt) :
    ∃ t : Rat, 0 ≤ t ∧ t ≤ 1 ∧ psd2 p a b = dist2 p ⟨a.x + t * (b.x - a.x), a.y + t * (b.y - a.y)⟩ :=
  ⟨projT p a b, (projT_mem p a b).1, (projT_mem p a b).2, psd2_eq_projT p a b⟩

/-- **T1** zero exactly when the code's exact predicate `Line: Intersects<Coord>` holds, i.e. for
the points of the closed segment -/
theorem psd2_zero_iff (p a b : Pt) : psd2 p a b = 0 ↔ lineCoord a b p = true :=
  psd2_eq_zero_iff p a b

theorem psd2_zero_iff_on_segment (p a b : Pt) :
    psd2 p a b = 0 ↔ ∃ t : Rat, 0 ≤ t ∧ t ≤ 1 ∧ p.x = a.x + t * (b.x - a.x) ∧ p.y = a.y + t * (b.y - a.y) :=
  psd2_eq_zero_iff_SegMem p a b

theorem psd2_nonnegative (p a b : Pt) : 0 ≤ psd2 p a b := psd2_nonneg p a b

/-- the direction of the segment does not matter (ring start / direction variants) -/
theorem psd2_reverse (p a b : Pt) : psd2 p a b = psd2 p b a := psd2_rev p a b

/-- `Point × Point` -/
theorem ptPt2_symm (p q : Pt) : ptPt2 p q = ptPt2 q p := by
  unfold ptPt2; rw [dist2_symm]

theorem ptPt2_zero_iff (p q : Pt) : ptPt2 p q = .fin 0 ↔ p = q := by
  unfold ptPt2
  constructor
  · intro h; exact (dist2_eq_zero_iff p q).mp (DV.fin.inj h)
  · intro h; rw [(dist2_eq_zero_iff p q).mpr h]

/-! ### 2. Line × Line -/

/-- **T1** zero ⇔ `Line: Intersects<Line>` ⇔ the closed segments share a point -/
theorem lineLine_dist_zero_iff (a b c d : Pt) :
    lineLine2 a b c d = .fin 0 ↔ lineLine a b c d = true :=
  lineLine2_zero_iff a b c d

theorem lineLine_dist_zero_iff_common_point (a b c d : Pt) :
    lineLine2 a b c d = .fin 0 ↔ ∃ x, SegMem x a b ∧ SegMem x c d :=
  lineLine2_zero_iff_common a b c d

/-- **T1** symmetric -/
theorem lineLine_dist_symm (a b c d : Pt) : lineLine2 a b c d = lineLine2 c d a b :=
  lineLine2_symm a b c d

/-- a positive result is the distance from an end point to a point of the other segment, and no
end point is closer to the other segment -/
theorem lineLine_dist_endpoint (a b c d : Pt) (h : lineLine a b c d = false) :
    ∃ m, lineLine2 a b c d = .fin m ∧
      (m = psd2 a c d ∨ m = psd2 b c d ∨ m = psd2 c a b ∨ m = psd2 d a b) ∧
      m ≤ psd2 a c d ∧ m ≤ psd2 b c d ∧ m ≤ psd2 c a b ∧ m ≤ psd2 d a b := by
  rcases lineLine2_cases a b c d h with h1 | h1 | h1 | h1
  all_goals
    refine ⟨_, h1, ?_, lineLine2_Lb_inv a b c d (by rw [h1]; exact le_refl _) h⟩
    simp

example : lineLine ⟨0, 0⟩ ⟨5, 0⟩ ⟨2, 1⟩ ⟨7, 2⟩ = false := by decide +kernel

/-- **T2 `segseg_min_at_endpoint`**: for two closed segments without a common point the minimum of
`|a + s(b−a) − (c + t(d−c))|²` over `(s,t) ∈ [0,1]²` is the smallest of the four end-point–to–segment
distances `psd2` — it bounds every value from below, is attained on the square, and is what
`Line × Line` returns. (A convex quadratic without a zero on the square has no interior minimum:
about the meeting point of the carrier lines it is homogeneous of degree 2, and for parallel
directions it is constant along `s − k·t = const`; both paths reach the boundary of the square, where
the function is a point–segment distance.) -/
theorem segseg_min_at_endpoint (a b c d : Pt) (h : lineLine a b c d = false) :
    (∀ s t : Rat, 0 ≤ s → s ≤ 1 → 0 ≤ t → t ≤ 1 →
      min (min (psd2 a c d) (psd2 b c d)) (min (psd2 c a b) (psd2 d a b)) ≤
        dist2 ⟨a.x + s * (b.x - a.x), a.y + s * (b.y - a.y)⟩ ⟨c.x + t * (d.x - c.x), c.y + t * (d.y - c.y)⟩) ∧
    (∃ s t : Rat, 0 ≤ s ∧ s ≤ 1 ∧ 0 ≤ t ∧ t ≤ 1 ∧
      min (min (psd2 a c d) (psd2 b c d)) (min (psd2 c a b) (psd2 d a b)) =
        dist2 ⟨a.x + s * (b.x - a.x), a.y + s * (b.y - a.y)⟩ ⟨c.x + t * (d.x - c.x), c.y + t * (d.y - c.y)⟩) ∧
    lineLine2 a b c d = .fin (min (min (psd2 a c d) (psd2 b c d)) (min (psd2 c a b) (psd2 d a b))) := by
  have hno : ¬ ∃ p, SegMem p a b ∧ SegMem p c d := by
    intro hc
    have := (lineLine_iff a b c d).mpr hc
    rw [h] at this; cases this
  refine ⟨fun s t s0 s1 t0 t1 => segseg_min4_le_param hno ⟨s0, s1⟩ ⟨t0, t1⟩, ?_, lineLine2_eq_min4 h⟩
  obtain ⟨x, y, hx, hy, e⟩ := min4_attained a b c d
  obtain ⟨s, s0, s1, rfl⟩ := (SegMem_iff_segPt x a b).mp hx
  obtain ⟨t, t0, t1, rfl⟩ := (SegMem_iff_segPt y c d).mp hy
  exact ⟨s, t, s0, s1, t0, t1, e⟩

example : min (min (psd2 ⟨0, 0⟩ ⟨2, 1⟩ ⟨7, 2⟩) (psd2 ⟨5, 0⟩ ⟨2, 1⟩ ⟨7, 2⟩))
      (min (psd2 ⟨2, 1⟩ ⟨0, 0⟩ ⟨5, 0⟩) (psd2 ⟨7, 2⟩ ⟨0, 0⟩ ⟨5, 0⟩)) ≤
    dist2 ⟨0 + (1/2) * (5 - 0), 0 + (1/2) * (0 - 0)⟩ ⟨2 + (1/3) * (7 - 2), 1 + (1/3) * (2 - 1)⟩ :=
  (segseg_min_at_endpoint ⟨0, 0⟩ ⟨5, 0⟩ ⟨2, 1⟩ ⟨7, 2⟩ (by decide +kernel)).1 (1/2) (1/3)
    (by norm_num) (by norm_num) (by norm_num) (by norm_num)

/-- **Line × Line is the true minimum distance** of the two closed segments (intersecting or not):
`IsMinDist A B m` = `m ≤ |x − y|²` for all `x ∈ A`, `y ∈ B`, with equality for some pair -/
theorem lineLine_dist_is_min (a b c d : Pt) :
    ∃ m, lineLine2 a b c d = .fin m ∧ IsMinDist (fun x => SegMem x a b) (fun y => SegMem y c d) m := by
  obtain ⟨m, hm⟩ := lineLine2_finite a b c d
  exact ⟨m, hm, lineLine2_IsMinDist a b c d hm⟩

/-! ### 3. the `fold(max_value, min)` idiom -/

/-- **min-fold**: over non-negative (non-panicking) values the fold is zero iff an element is -/
theorem foldMin_zero_iff {α} {f : α → DV} {l : List α} (h : ∀ x ∈ l, (f x).Ge0) :
    foldMin f l = .fin 0 ↔ ∃ x ∈ l, f x = .fin 0 :=
  foldMin_eq_zero_iff h

/-- **min-fold**: a finite result is the value of an element and a lower bound for all elements -/
theorem foldMin_is_min {α} {f : α → DV} {l : List α} (h : ∀ x ∈ l, (f x).Ge0) {m : Rat}
    (hm : foldMin f l = .fin m) : (∃ x ∈ l, f x = .fin m) ∧ ∀ x ∈ l, DV.Lb m (f x) :=
  foldMin_fin h hm

/-- the fold is `max_value` exactly for an empty iterator or all-`max_value` members -/
theorem foldMin_empty {α} (f : α → DV) : foldMin f [] = .inf := rfl

/-- nested folds (Multi* over Multi*) are one fold over all member pairs -/
theorem foldMin_nested {α β} (f : β → DV) (g : α → List β) (l : List α) :
    foldMin f (l.flatMap g) = foldMin (fun x => foldMin f (g x)) l :=
  foldMin_flatMap f g l

/-! ### 4. nearest_neighbour_distance -/

theorem nn_symm (g1 g2 : List Pt) : nnDist2 g1 g2 = nnDist2 g2 g1 := nnDist2_symm g1 g2

/-- **the minimum over all vertex–segment pairs, in both directions** -/
theorem nn_is_min {g1 g2 : List Pt} (h1 : segs g1 ≠ []) (h2 : segs g2 ≠ []) {m : Rat}
    (hm : nnDist2 g1 g2 = .fin m) :
    ((∀ q ∈ g2, ∀ se ∈ segs g1, ∀ x, SegMem x se.1 se.2 → m ≤ dist2 q x) ∧
     (∀ q ∈ g1, ∀ se ∈ segs g2, ∀ x, SegMem x se.1 se.2 → m ≤ dist2 q x)) ∧
    ((∃ q ∈ g2, ∃ se ∈ segs g1, ∃ x, SegMem x se.1 se.2 ∧ m = dist2 q x) ∨
     (∃ q ∈ g1, ∃ se ∈ segs g2, ∃ x, SegMem x se.1 se.2 ∧ m = dist2 q x)) :=
  ⟨nnDist2_le h1 h2 hm, nnDist2_attained h1 h2 hm⟩

example : segs [(⟨0, 0⟩ : Pt), ⟨1, 0⟩] ≠ [] := by simp [segs]

/-- **nearest_neighbour_distance is the true minimum** over all pairs of points (not only vertex–segment
pairs) of two line strings none of whose segments meet — by `segseg_min_at_endpoint`.
`LsPts cs x` = `x` lies on a segment of `cs`. -/
theorem nn_is_true_min {g1 g2 : List Pt} (h1 : segs g1 ≠ []) (h2 : segs g2 ≠ [])
    (hno : ∀ s ∈ segs g1, ∀ t ∈ segs g2, lineLine s.1 s.2 t.1 t.2 = false) :
    ∃ m, nnDist2 g1 g2 = .fin m ∧ IsMinDist (LsPts g1) (LsPts g2) m := by
  obtain ⟨m, hm⟩ := nnDist2_finite h1 h2
  refine ⟨m, hm, nnDist2_IsMinDist h1 h2 (fun s hs t ht hc => ?_) hm⟩
  have := (lineLine_iff _ _ _ _).mpr hc
  rw [hno s hs t ht] at this; cases this

example : ∀ s ∈ segs [(⟨0, 0⟩ : Pt), ⟨1, 0⟩, ⟨1, 1⟩], ∀ t ∈ segs [(⟨3, 0⟩ : Pt), ⟨4, 2⟩],
    lineLine s.1 s.2 t.1 t.2 = false := by decide +kernel

/-- **LineString × LineString is the true minimum** over all pairs of points of the two line strings
(zero through the `intersects` short-circuit exactly when they share a point) -/
theorem lsLs_dist_is_min {as bs : List Pt} (h1 : segs as ≠ []) (h2 : segs bs ≠ []) :
    ∃ m, lsLs2 as bs = .fin m ∧ IsMinDist (LsPts as) (LsPts bs) m := by
  obtain ⟨m, hm⟩ := lsLs2_finite h1 h2
  exact ⟨m, hm, lsLs2_IsMinDist h1 h2 hm⟩

/-- **Line × LineString is the true minimum** over all pairs of points -/
theorem lineLs_dist_is_min (a b : Pt) {cs : List Pt} (h : segs cs ≠ []) :
    ∃ m, lineLs2 a b cs = .fin m ∧ IsMinDist (fun x => SegMem x a b) (LsPts cs) m := by
  obtain ⟨m, hm⟩ := lineLs2_finite a b h
  exact ⟨m, hm, lineLs2_IsMinDist a b cs hm⟩

theorem nn_zero_iff {g1 g2 : List Pt} (h1 : segs g1 ≠ []) (h2 : segs g2 ≠ []) :
    nnDist2 g1 g2 = .fin 0 ↔ (∃ q ∈ g2, OnLs q g1) ∨ (∃ q ∈ g1, OnLs q g2) :=
  nnDist2_zero_iff h1 h2

/-! ### 5. kernels: short-circuits, non-negativity, dispatch -/

/-- the `intersects` short-circuits return exactly zero (then C02/C03 carry the meaning of
`intersects`, including "one inside the other") -/
theorem zero_when_intersects :
    (∀ p poly, polyCoordIntersects poly p = true → ptPoly2 p poly = .fin 0) ∧
    (∀ a b poly, polyLineIntersects poly a b = true → linePoly2 a b poly = .fin 0) ∧
    (∀ as bs, lsLsIntersects as bs = true → lsLs2 as bs = .fin 0) ∧
    (∀ cs poly, lsPolyIntersects cs poly = true → lsPoly2 cs poly = .fin 0) ∧
    (∀ a b, polyPolyIntersects a b = true → polyPoly2 a b = .fin 0) := by
  refine ⟨fun p poly h => ptPoly2_zero_of_intersects h, fun a b poly h => ?_,
    fun as bs h => lsLs2_zero_of_intersects h, fun cs poly h => lsPoly2_zero_of_intersects h,
    fun a b h => polyPoly2_zero_of_intersects h⟩
  unfold linePoly2; simp [h]

theorem linePoly_zero_iff (a b : Pt) (poly : Poly) :
    linePoly2 a b poly = .fin 0 ↔
      polyLineIntersects poly a b = true ∨
        ∃ r ∈ poly.ext :: poly.ints, ∃ se ∈ segs r, lineLine a b se.1 se.2 = true :=
  linePoly2_zero_iff a b poly

theorem lsLs_zero_iff {as bs : List Pt} (h1 : segs as ≠ []) (h2 : segs bs ≠ []) :
    lsLs2 as bs = .fin 0 ↔ lsLsIntersects as bs = true ∨ (∃ q ∈ bs, OnLs q as) ∨ (∃ q ∈ as, OnLs q bs) :=
  lsLs2_zero_iff h1 h2

/-! areal kernels once `intersects` has not fired: the value is the true minimum distance (all pairs
of points) to the rings that the branch measures. (`RingsPts rs y` = `y` lies on a ring of `rs`. That
the distance to a disjoint valid polygon *is* the distance to these rings is proved in section 8.) -/

/-- **Line × Polygon**, not intersecting: the minimum over all points of the line and of all rings -/
theorem linePoly_dist_is_ring_min {a b : Pt} {poly : Poly} (hi : polyLineIntersects poly a b = false)
    (hr : ∀ r ∈ poly.ext :: poly.ints, segs r ≠ []) {m : Rat} (hm : linePoly2 a b poly = .fin m) :
    IsMinDist (fun x => SegMem x a b) (RingsPts (poly.ext :: poly.ints)) m :=
  linePoly2_IsMinDist hi hr hm

example : polyLineIntersects ⟨[⟨0, 0⟩, ⟨4, 0⟩, ⟨0, 4⟩, ⟨0, 0⟩], []⟩ ⟨5, 5⟩ ⟨6, 8⟩ = false ∧
    ∀ r ∈ (⟨[⟨0, 0⟩, ⟨4, 0⟩, ⟨0, 4⟩, ⟨0, 0⟩], []⟩ : Poly).ext :: (⟨[⟨0, 0⟩, ⟨4, 0⟩, ⟨0, 4⟩, ⟨0, 0⟩], []⟩ : Poly).ints,
      segs r ≠ [] := by
  refine ⟨by decide +kernel, ?_⟩
  intro r hr
  simp only [List.mem_cons, List.mem_nil_iff, or_false] at hr
  subst hr
  simp [segs]

/-- **LineString × Polygon**, exterior branch: the minimum over all points of the line string and of
the exterior ring -/
theorem lsPoly_dist_is_ext_min {cs : List Pt} {poly : Poly} (hi : lsPolyIntersects cs poly = false)
    (hc : segs cs ≠ []) (he : segs poly.ext ≠ [])
    (hB : (!poly.ints.isEmpty && ringContainsCoord poly.ext (cs.headD ⟨0, 0⟩)) = false)
    {m : Rat} (hm : lsPoly2 cs poly = .fin m) : IsMinDist (LsPts cs) (LsPts poly.ext) m :=
  lsPoly2_ext_IsMinDist hi hc he hB hm

example : lsPolyIntersects [⟨5, 5⟩, ⟨6, 8⟩, ⟨9, 9⟩] ⟨[⟨0, 0⟩, ⟨4, 0⟩, ⟨0, 4⟩, ⟨0, 0⟩], []⟩ = false ∧
    (!(⟨[⟨0, 0⟩, ⟨4, 0⟩, ⟨0, 4⟩, ⟨0, 0⟩], []⟩ : Poly).ints.isEmpty &&
      ringContainsCoord [⟨0, 0⟩, ⟨4, 0⟩, ⟨0, 4⟩, ⟨0, 0⟩] (([⟨5, 5⟩, ⟨6, 8⟩, ⟨9, 9⟩] : List Pt).headD ⟨0, 0⟩)) = false := by
  decide +kernel

/- full statement (without `hbb`; it follows from `hB` for a closed exterior ring — a point with
non-zero winding number lies in the ring's bounding box): proved in section 8, `lsPoly_dist_is_hole_min`. -/
/-- **LineString × Polygon**, containment branch: the minimum over all points of the line string and of
the hole rings -/
theorem lsPoly_dist_is_hole_min_partial {cs : List Pt} {poly : Poly} (hi : lsPolyIntersects cs poly = false)
    (hc : segs cs ≠ []) (hr : RingsOk poly.ints)
    (hbb : bboxDisjoint (getBoundingRect cs) (getBoundingRect poly.ext) = false)
    (hB : (!poly.ints.isEmpty && ringContainsCoord poly.ext (cs.headD ⟨0, 0⟩)) = true)
    {m : Rat} (hm : lsPoly2 cs poly = .fin m) : IsMinDist (LsPts cs) (RingsPts poly.ints) m :=
  lsPoly2_holes_IsMinDist hi hc hr hbb hB hm

example :
    let poly : Poly := ⟨[⟨0, 0⟩, ⟨9, 0⟩, ⟨9, 9⟩, ⟨0, 9⟩, ⟨0, 0⟩], [[⟨2, 2⟩, ⟨2, 7⟩, ⟨7, 7⟩, ⟨7, 2⟩, ⟨2, 2⟩]]⟩
    let cs : List Pt := [⟨4, 4⟩, ⟨5, 5⟩]
    lsPolyIntersects cs poly = false ∧
    bboxDisjoint (getBoundingRect cs) (getBoundingRect poly.ext) = false ∧
    (!poly.ints.isEmpty && ringContainsCoord poly.ext (cs.headD ⟨0, 0⟩)) = true := by
  decide +kernel

/-- **Polygon × Polygon**, exterior branch: the minimum over all points of the two exterior rings -/
theorem polyPoly_dist_is_ext_min {a b : Poly} (hi : polyPolyIntersects a b = false)
    (ha : segs a.ext ≠ []) (hb : segs b.ext ≠ [])
    (hA : (!a.ints.isEmpty && ringContainsCoord a.ext (b.ext.headD ⟨0, 0⟩)) = false)
    (hB : (!b.ints.isEmpty && ringContainsCoord b.ext (a.ext.headD ⟨0, 0⟩)) = false)
    {m : Rat} (hm : polyPoly2 a b = .fin m) : IsMinDist (LsPts a.ext) (LsPts b.ext) m :=
  polyPoly2_ext_IsMinDist hi ha hb hA hB hm

example : polyPolyIntersects ⟨[⟨0, 0⟩, ⟨1, 0⟩, ⟨0, 1⟩, ⟨0, 0⟩], []⟩ ⟨[⟨3, 3⟩, ⟨4, 3⟩, ⟨3, 4⟩, ⟨3, 3⟩], []⟩ = false := by
  decide +kernel

/-- operands on which the code cannot panic: line strings and rings with at least one segment -/
def baseOk : Base → Prop
  | .ls cs => segs cs ≠ []
  | .pg p => segs p.ext ≠ [] ∧ RingsOk p.ints
  | _ => True

theorem dRectPoly_ok (mn mx : Pt) : segs (dRectPoly mn mx).ext ≠ [] ∧ RingsOk (dRectPoly mn mx).ints := by
  constructor
  · simp [dRectPoly, SM.rectToPolygon, segs]
  · intro r hr; simp [dRectPoly] at hr

theorem dTriPoly_ok (a b c : Pt) : segs (dTriPoly a b c).ext ≠ [] ∧ RingsOk (dTriPoly a b c).ints := by
  constructor
  · simp [dTriPoly, SM.triangleToPolygon, SM.close, SM.isClosed, segs]
  · intro r hr; simp [dTriPoly] at hr

/-- **dist2_nonneg** for every pair of single-part types: no panic, and a non-negative value -/
theorem baseD_nonneg : ∀ {x y : Base}, baseOk x → baseOk y → (baseD x y).Ge0
  | .pt _, .pt _, _, _ => ptPt2_Ge0 _ _
  | .pt _, .ln _ _, _, _ => ptLine2_Ge0 _ _ _
  | .pt _, .ls _, _, _ => ptLs2_Ge0 _ _
  | .pt _, .pg _, _, _ => ptPoly2_Ge0 _ _
  | .pt _, .rc _ _, _, _ => ptPoly2_Ge0 _ _
  | .pt _, .tr _ _ _, _, _ => ptPoly2_Ge0 _ _
  | .ln _ _, .pt _, _, _ => ptLine2_Ge0 _ _ _
  | .ln _ _, .ln _ _, _, _ => lineLine2_Ge0 _ _ _ _
  | .ln _ _, .ls _, _, _ => lineLs2_Ge0 _ _ _
  | .ln _ _, .pg _, _, _ => linePoly2_Ge0 _ _ _
  | .ln _ _, .rc _ _, _, _ => linePoly2_Ge0 _ _ _
  | .ln _ _, .tr _ _ _, _, _ => linePoly2_Ge0 _ _ _
  | .ls _, .pt _, _, _ => ptLs2_Ge0 _ _
  | .ls _, .ln _ _, _, _ => lineLs2_Ge0 _ _ _
  | .ls _, .ls _, hx, hy => lsLs2_Ge0 hx hy
  | .ls _, .pg _, hx, hy => lsPoly2_Ge0 hx hy.1 hy.2
  | .ls _, .rc _ _, hx, _ => lsPoly2_Ge0 hx (dRectPoly_ok _ _).1 (dRectPoly_ok _ _).2
  | .ls _, .tr _ _ _, hx, _ => lsPoly2_Ge0 hx (dTriPoly_ok _ _ _).1 (dTriPoly_ok _ _ _).2
  | .pg _, .pt _, _, _ => ptPoly2_Ge0 _ _
  | .pg _, .ln _ _, _, _ => linePoly2_Ge0 _ _ _
  | .pg _, .ls _, hx, hy => lsPoly2_Ge0 hy hx.1 hx.2
  | .pg _, .pg _, hx, hy => polyPoly2_Ge0 hx.1 hy.1 hx.2 hy.2
  | .pg _, .rc _ _, hx, _ => polyPoly2_Ge0 (dRectPoly_ok _ _).1 hx.1 (dRectPoly_ok _ _).2 hx.2
  | .pg _, .tr _ _ _, hx, _ => polyPoly2_Ge0 (dTriPoly_ok _ _ _).1 hx.1 (dTriPoly_ok _ _ _).2 hx.2
  | .rc _ _, .pt _, _, _ => ptPoly2_Ge0 _ _
  | .rc _ _, .ln _ _, _, _ => linePoly2_Ge0 _ _ _
  | .rc _ _, .ls _, _, hy => lsPoly2_Ge0 hy (dRectPoly_ok _ _).1 (dRectPoly_ok _ _).2
  | .rc _ _, .pg _, _, hy => polyPoly2_Ge0 (dRectPoly_ok _ _).1 hy.1 (dRectPoly_ok _ _).2 hy.2
  | .rc _ _, .rc _ _, _, _ =>
    polyPoly2_Ge0 (dRectPoly_ok _ _).1 (dRectPoly_ok _ _).1 (dRectPoly_ok _ _).2 (dRectPoly_ok _ _).2
  | .rc _ _, .tr _ _ _, _, _ =>
    polyPoly2_Ge0 (dRectPoly_ok _ _).1 (dTriPoly_ok _ _ _).1 (dRectPoly_ok _ _).2 (dTriPoly_ok _ _ _).2
  | .tr _ _ _, .pt _, _, _ => ptPoly2_Ge0 _ _
  | .tr _ _ _, .ln _ _, _, _ => linePoly2_Ge0 _ _ _
  | .tr _ _ _, .ls _, _, hy => lsPoly2_Ge0 hy (dTriPoly_ok _ _ _).1 (dTriPoly_ok _ _ _).2
  | .tr _ _ _, .pg _, _, hy => polyPoly2_Ge0 (dTriPoly_ok _ _ _).1 hy.1 (dTriPoly_ok _ _ _).2 hy.2
  | .tr _ _ _, .rc _ _, _, _ =>
    polyPoly2_Ge0 (dRectPoly_ok _ _).1 (dTriPoly_ok _ _ _).1 (dRectPoly_ok _ _).2 (dTriPoly_ok _ _ _).2
  | .tr _ _ _, .tr _ _ _, _, _ =>
    polyPoly2_Ge0 (dTriPoly_ok _ _ _).1 (dTriPoly_ok _ _ _).1 (dTriPoly_ok _ _ _).2 (dTriPoly_ok _ _ _).2

/-- all single-part calls of `distance(a, b)` are on operands that cannot panic -/
def CallsOk (a b : Geom) : Prop := ∀ xy ∈ calls a b, baseOk xy.1 ∧ baseOk xy.2

/-- **dist2_nonneg** for every pair of geometries (Multi*, collections, nested) -/
theorem distG_nonneg {a b : Geom} (h : CallsOk a b) : (distG a b).Ge0 :=
  foldMin_Ge0 (fun xy hxy => baseD_nonneg (h xy hxy).1 (h xy hxy).2)

/-- **zero lifted through the min folds**: the distance of two geometries is zero iff one of the
single-part calls the dispatch makes is zero -/
theorem distG_zero_iff {a b : Geom} (h : CallsOk a b) :
    distG a b = .fin 0 ↔ ∃ xy ∈ calls a b, baseD xy.1 xy.2 = .fin 0 :=
  foldMin_eq_zero_iff (fun xy hxy => baseD_nonneg (h xy hxy).1 (h xy hxy).2)

/-- **minimum lifted through the min folds**: a finite distance is the value of one single-part
call and a lower bound of all of them; `max_value` iff there is no call with a finite value -/
theorem distG_is_min {a b : Geom} (h : CallsOk a b) {m : Rat} (hm : distG a b = .fin m) :
    (∃ xy ∈ calls a b, baseD xy.1 xy.2 = .fin m) ∧ ∀ xy ∈ calls a b, DV.Lb m (baseD xy.1 xy.2) :=
  foldMin_fin (fun xy hxy => baseD_nonneg (h xy hxy).1 (h xy hxy).2) hm

/-- **true minimum, single-part operands of dimension ≤ 1** (Point, Line, LineString with a segment):
every one of the nine pairs returns the minimum of `|x − y|²` over all pairs of points of the two
operands. `tolOk` is vacuous except for Point × LineString, where it excludes finding K4.
   full statement (false on the pinned tree for Point × LineString, `tolerance_false_positive_witness`):
   theorem baseD_linear_is_min (hx : linOk x) (hy : linOk y) : ∃ m, baseD x y = .fin m ∧ IsMinDist … m -/
theorem baseD_linear_is_min_partial {x y : Base} (hx : linOk x) (hy : linOk y) (ht : tolOk x y) :
    ∃ m, baseD x y = .fin m ∧ IsMinDist (linPts x) (linPts y) m :=
  baseD_lin_IsMinDist hx hy ht

example : linOk (.ls [⟨0, 0⟩, ⟨2, 2⟩]) ∧ linOk (.pt ⟨1, 2⟩) ∧ tolOk (.ls [⟨0, 0⟩, ⟨2, 2⟩]) (.pt ⟨1, 2⟩) := by
  refine ⟨by simp [linOk, segs], trivial, ?_⟩
  intro h; exact absurd h (by decide +kernel)

/-- **true minimum lifted through the dispatch**: when all single-part calls of `distance(a, b)` are
between operands of dimension ≤ 1 (Point, Line, LineString, MultiPoint, MultiLineString and
collections of these), a finite distance is the minimum of `|x − y|²` over all pairs of points of all
pairs of parts the dispatch visits: a lower bound for every such pair, attained by one.
(`_partial`: `tolOk` excludes finding K4 on the Point × LineString calls.) -/
theorem distG_linear_is_min_partial {a b : Geom}
    (h : ∀ xy ∈ calls a b, linOk xy.1 ∧ linOk xy.2 ∧ tolOk xy.1 xy.2) {m : Rat} (hm : distG a b = .fin m) :
    (∀ xy ∈ calls a b, ∀ x y, linPts xy.1 x → linPts xy.2 y → m ≤ dist2 x y) ∧
    ∃ xy ∈ calls a b, ∃ x y, linPts xy.1 x ∧ linPts xy.2 y ∧ m = dist2 x y :=
  callFold_IsMinDist h hm

example : ∀ xy ∈ calls (.multiLineString [[⟨0, 0⟩, ⟨1, 0⟩], [⟨0, 2⟩, ⟨1, 3⟩]]) (.line ⟨5, 5⟩ ⟨6, 7⟩),
    linOk xy.1 ∧ linOk xy.2 ∧ tolOk xy.1 xy.2 := by
  intro xy hxy
  have hc : calls (.multiLineString [[⟨0, 0⟩, ⟨1, 0⟩], [⟨0, 2⟩, ⟨1, 3⟩]]) (.line ⟨5, 5⟩ ⟨6, 7⟩) =
      [(.ls [⟨0, 0⟩, ⟨1, 0⟩], .ln ⟨5, 5⟩ ⟨6, 7⟩), (.ls [⟨0, 2⟩, ⟨1, 3⟩], .ln ⟨5, 5⟩ ⟨6, 7⟩)] := by
    simp [calls, callsFuel, callsF, expand, kindOf, multiMembers, geomW, Base.ofGeom?]
  rw [hc] at hxy
  simp only [List.mem_cons, List.mem_nil_iff, or_false] at hxy
  rcases hxy with rfl | rfl <;> exact ⟨by simp [linOk, segs], trivial, trivial⟩

/-! ### 6. symmetry by construction, wrapper invariance -/

/-- dimension class of a single-part operand: point, line, line string, areal -/
def baseRank : Base → Nat
  | .pt _ => 0
  | .ln _ _ => 1
  | .ls _ => 2
  | _ => 3

/-- **true minimum** (see `baseD_linear_is_min_partial`): without a Point × LineString pair no hypothesis about the tolerance test is needed -/
theorem baseD_linear_is_min {x y : Base} (hx : linOk x) (hy : linOk y)
    (hk : baseRank x + baseRank y ≠ 2 ∨ baseRank x = 1) :
    ∃ m, baseD x y = .fin m ∧ IsMinDist (linPts x) (linPts y) m := by
  apply baseD_lin_IsMinDist hx hy
  cases x <;> cases y <;> simp [baseRank] at hk <;> trivial

example : linOk (.ln ⟨0, 0⟩ ⟨1, 1⟩) ∧ linOk (.ls [⟨0, 3⟩, ⟨2, 2⟩]) ∧
    (baseRank (.ln ⟨0, 0⟩ ⟨1, 1⟩) + baseRank (.ls [⟨0, 3⟩, ⟨2, 2⟩]) ≠ 2 ∨ baseRank (.ln ⟨0, 0⟩ ⟨1, 1⟩) = 1) :=
  ⟨trivial, by simp [linOk, segs], Or.inr rfl⟩

/-- **the dispatch visits exactly the pairs of parts**: every single-part call of `distance(a, b)` is
between a part of `a` and a part of `b` (in one of the two orders), and every such pair is visited.
`parts g` = the single-part members of `g`, collections flattened. -/
theorem calls_are_part_pairs (a b : Geom) :
    (∀ xy ∈ calls a b, (xy.1 ∈ parts a ∧ xy.2 ∈ parts b) ∨ (xy.1 ∈ parts b ∧ xy.2 ∈ parts a)) ∧
    (∀ x ∈ parts a, ∀ y ∈ parts b, (x, y) ∈ calls a b ∨ (y, x) ∈ calls a b) :=
  calls_cover _ a b (le_refl _)

/-- **`distance(a, b)` is the true minimum distance of two linear geometries**: for geometries whose
parts are Points, Lines and LineStrings with at least one segment (Point, Line, LineString, MultiPoint,
MultiLineString and arbitrarily nested collections of these), the result is finite and equals the
minimum of `|x − y|²` over all points `x` of `a` and `y` of `b` (`GeomPts g x` = `x` lies on a part of
`g`): it bounds all pairs from below and is attained.
(`_partial`: `tolOk` excludes finding K4 on the Point × LineString pairs; the full statement without
`ht` is false on the pinned tree, `tolerance_false_positive_witness`.) -/
theorem distG_is_true_min_partial {a b : Geom} (ha : ∀ p ∈ parts a, linOk p) (hb : ∀ q ∈ parts b, linOk q)
    (ht : ∀ p ∈ parts a, ∀ q ∈ parts b, tolOk p q) (na : parts a ≠ []) (nb : parts b ≠ []) :
    ∃ m, distG a b = .fin m ∧ IsMinDist (GeomPts a) (GeomPts b) m := by
  obtain ⟨m, hm⟩ := distG_lin_finite ha hb ht na nb
  exact ⟨m, hm, distG_IsMinDist ha hb ht hm⟩

/-- the same at full strength when no Point × LineString pair occurs (e.g. Line / LineString /
MultiLineString operands on both sides, or Points against Points and Lines) -/
theorem distG_is_true_min {a b : Geom} (ha : ∀ p ∈ parts a, linOk p) (hb : ∀ q ∈ parts b, linOk q)
    (hk : ∀ p ∈ parts a, ∀ q ∈ parts b, baseRank p + baseRank q ≠ 2 ∨ baseRank p = 1)
    (na : parts a ≠ []) (nb : parts b ≠ []) :
    ∃ m, distG a b = .fin m ∧ IsMinDist (GeomPts a) (GeomPts b) m := by
  apply distG_is_true_min_partial ha hb _ na nb
  intro p hp q hq
  have h := hk p hp q hq
  revert h
  cases p <;> cases q <;> simp [baseRank, tolOk]

example :
    let a : Geom := .collection [.multiLineString [[⟨0, 0⟩, ⟨1, 0⟩], [⟨0, 2⟩, ⟨1, 3⟩]], .line ⟨0, 5⟩ ⟨1, 5⟩]
    let b : Geom := .lineString [⟨5, 5⟩, ⟨6, 7⟩, ⟨8, 7⟩]
    (∀ p ∈ parts a, linOk p) ∧ (∀ q ∈ parts b, linOk q) ∧
    (∀ p ∈ parts a, ∀ q ∈ parts b, baseRank p + baseRank q ≠ 2 ∨ baseRank p = 1) ∧
    parts a ≠ [] ∧ parts b ≠ [] := by
  simp [parts, partsList, linOk, segs, baseRank]

/-- **dist2_symm**, mixed pairs: the `symmetric_distance_impl!` pairs are symmetric by construction -/
theorem baseD_symm_mixed (x y : Base) (h : baseRank x ≠ baseRank y) : baseD x y = baseD y x := by
  cases x <;> cases y <;> simp [baseRank] at h <;> rfl

/-- **dist2_symm**, `Point × Point` and `Line × Line` -/
theorem baseD_symm_pt_ln :
    (∀ p q, baseD (.pt p) (.pt q) = baseD (.pt q) (.pt p)) ∧
    (∀ a b c d, baseD (.ln a b) (.ln c d) = baseD (.ln c d) (.ln a b)) :=
  ⟨fun p q => ptPt2_symm p q, fun a b c d => lineLine2_symm a b c d⟩

/-- `LineString: Intersects<LineString>` (with its two nested bounding-box rejections) holds exactly
when a segment of one intersects a segment of the other -/
theorem lsLs_intersects_iff (as bs : List Pt) :
    lsLsIntersects as bs = true ↔ ∃ s ∈ segs as, ∃ t ∈ segs bs, lineLine t.1 t.2 s.1 s.2 = true :=
  lsLsIntersects_iff as bs

/-- **dist2_symm**, `LineString × LineString` -/
theorem lsLs_dist_symm (as bs : List Pt) : lsLs2 as bs = lsLs2 bs as := by
  unfold lsLs2; rw [lsLsIntersects_symm, nnDist2_symm]

/- **dist2_symm**, areal pairs: `nearest_neighbour_distance` is symmetric (`nn_symm`); the
`Polygon: Intersects<Polygon>` short-circuit and the two containment branches of `Polygon × Polygon`
are not written symmetrically — their agreement for exchanged operands rests on validity and is also
what the correspondence checks bit for bit on every case (`FAIL:asymmetric`).
   theorem polyPoly_symm (a b) : polyPoly2 a b = polyPoly2 b a       -- full statement: FALSE without
   validity (`polyPoly_symm_invalid_witness`). For OGC-valid operands it is `polyPoly_symm_valid`
   (section 8: both orders are the minimum over the same pairs of points of the two closed polygons).
   Proved unconditionally: polygons without holes (`polyPoly_symm_noholes`), which covers all
   Rect / Triangle pairs (`baseD_symm_rect_triangle`). The conditional form below is kept. -/
theorem polyPoly_symm_partial (a b : Poly) (hI : polyPolyIntersects a b = polyPolyIntersects b a)
    (hA : (!a.ints.isEmpty && ringContainsCoord a.ext (b.ext.headD ⟨0, 0⟩)) = false)
    (hB : (!b.ints.isEmpty && ringContainsCoord b.ext (a.ext.headD ⟨0, 0⟩)) = false)
    (ha : a.ext.isEmpty = false) (hb : b.ext.isEmpty = false) :
    polyPoly2 a b = polyPoly2 b a := by
  unfold polyPoly2
  rw [hI, hA, hB, ha, hb, nnDist2_symm]
  simp

example : polyPolyIntersects ⟨[⟨0, 0⟩, ⟨1, 0⟩, ⟨0, 1⟩, ⟨0, 0⟩], []⟩ ⟨[⟨3, 3⟩, ⟨4, 3⟩, ⟨3, 4⟩, ⟨3, 3⟩], []⟩ =
    polyPolyIntersects ⟨[⟨3, 3⟩, ⟨4, 3⟩, ⟨3, 4⟩, ⟨3, 3⟩], []⟩ ⟨[⟨0, 0⟩, ⟨1, 0⟩, ⟨0, 1⟩, ⟨0, 0⟩], []⟩ := by
  decide +kernel

/-- **dist2_symm**, `Polygon × Polygon` for polygons without holes: unconditional (no validity, empty
exteriors included) -/
theorem polyPoly_symm_noholes (a b : Poly) (ha : a.ints = []) (hb : b.ints = []) :
    polyPoly2 a b = polyPoly2 b a :=
  polyPoly2_symm_noholes ha hb

example : (⟨[⟨0, 0⟩, ⟨1, 0⟩, ⟨0, 1⟩, ⟨0, 0⟩], []⟩ : Poly).ints = [] := rfl

/-- **dist2_symm**, all pairs of Rect / Triangle operands (they are hole-free polygons) -/
theorem baseD_symm_rect_triangle (mn mx mn' mx' a b c x y z : Pt) :
    baseD (.rc mn mx) (.rc mn' mx') = baseD (.rc mn' mx') (.rc mn mx) ∧
    baseD (.tr a b c) (.tr x y z) = baseD (.tr x y z) (.tr a b c) ∧
    baseD (.rc mn mx) (.tr a b c) = baseD (.tr a b c) (.rc mn mx) :=
  ⟨polyPoly2_symm_noholes rfl rfl, polyPoly2_symm_noholes rfl rfl, rfl⟩

/-- the hypothesis-free `polyPoly_symm` is false: for an *invalid* second operand (a "hole" ring
outside its exterior ring, lying inside the first operand) `Polygon: Intersects<Polygon>` answers
differently for the two orders, so the distance is 0 one way and positive the other way. (Outside the
domain of the property — valid operands — but it shows that any proof must use validity.) -/
theorem polyPoly_symm_invalid_witness :
    let a : Poly := ⟨[⟨0, 0⟩, ⟨4, 0⟩, ⟨0, 4⟩, ⟨0, 0⟩], []⟩
    let b : Poly := ⟨[⟨3, 3⟩, ⟨4, 3⟩, ⟨4, 4⟩, ⟨3, 3⟩], [[⟨1, 1⟩, ⟨2, 1⟩, ⟨1, 2⟩, ⟨1, 1⟩]]⟩
    polyPoly2 a b = .fin 0 ∧ polyPoly2 b a = .fin 2 := by
  decide +kernel

/-- **wrapper invariance**: a Rect / Triangle behaves as its `to_polygon()`; against another areal
operand the macros exchange the operands of `Polygon × Polygon` in the listed cases -/
theorem rect_triangle_as_polygon (mn mx a b c : Pt) :
    (∀ y, baseRank y < 3 → baseD (.rc mn mx) y = baseD (.pg (dRectPoly mn mx)) y ∧
                        baseD y (.rc mn mx) = baseD y (.pg (dRectPoly mn mx)) ∧
                        baseD (.tr a b c) y = baseD (.pg (dTriPoly a b c)) y ∧
                        baseD y (.tr a b c) = baseD y (.pg (dTriPoly a b c))) ∧
    (∀ h, baseD (.rc mn mx) (.pg h) = baseD (.pg (dRectPoly mn mx)) (.pg h) ∧
          baseD (.tr a b c) (.pg h) = baseD (.pg (dTriPoly a b c)) (.pg h) ∧
          baseD (.pg h) (.rc mn mx) = baseD (.pg (dRectPoly mn mx)) (.pg h) ∧
          baseD (.pg h) (.tr a b c) = baseD (.pg (dTriPoly a b c)) (.pg h)) ∧
    (∀ mn' mx', baseD (.rc mn mx) (.rc mn' mx') = baseD (.pg (dRectPoly mn' mx')) (.pg (dRectPoly mn mx))) ∧
    (∀ x y z, baseD (.tr a b c) (.tr x y z) = baseD (.pg (dTriPoly x y z)) (.pg (dTriPoly a b c))) ∧
    baseD (.rc mn mx) (.tr a b c) = baseD (.pg (dRectPoly mn mx)) (.pg (dTriPoly a b c)) ∧
    baseD (.tr a b c) (.rc mn mx) = baseD (.pg (dRectPoly mn mx)) (.pg (dTriPoly a b c)) := by
  refine ⟨fun y hy => ?_, fun h => ⟨rfl, rfl, rfl, rfl⟩, fun _ _ => rfl, fun _ _ _ => rfl, rfl, rfl⟩
  cases y <;> simp [baseRank] at hy <;> exact ⟨rfl, rfl, rfl, rfl⟩

/-- **dispatch = the folds of the macros**: when a dispatch step of `distance(a, b)` delegates to
the operand pairs `subs`, the list of single-part calls is the concatenation of theirs (fuel
independence, `callsF_fuel`), and the distance is the `min` fold of the delegated distances -/
theorem distG_step {a b : Geom} {subs : List (Geom × Geom)} (h : expand a b = .inr subs) :
    calls a b = subs.flatMap (fun xy => calls xy.1 xy.2) ∧
    distG a b = foldMin (fun xy => distG xy.1 xy.2) subs := by
  have hc : calls a b = subs.flatMap (fun xy => calls xy.1 xy.2) := by
    have hd := expand_decreases h
    unfold calls callsFuel
    have pa := geomW_pos a; have pb := geomW_pos b
    obtain ⟨k, hk⟩ : ∃ k, geomW a + geomW b = k + 1 := ⟨geomW a + geomW b - 1, by omega⟩
    rw [hk, callsF, h]
    simp only
    apply flatMap_congr'
    intro xy hxy
    exact callsF_fuel k xy.1 xy.2 (by have := hd xy hxy; omega)
  refine ⟨hc, ?_⟩
  unfold distG
  rw [hc, foldMin_flatMap]

/-- a single-part pair is one call (the `Geometry` enum impls only `match` and delegate: in the
model an operand *is* its enum value) -/
theorem distG_base {a b : Geom} {x y : Base} (ha : Base.ofGeom? a = some x) (hb : Base.ofGeom? b = some y) :
    calls a b = [(x, y)] ∧ distG a b = baseD x y := by
  have hc : calls a b = [(x, y)] := by
    unfold calls callsFuel
    cases a <;> simp [Base.ofGeom?] at ha <;> cases b <;> simp [Base.ofGeom?] at hb <;>
      subst ha <;> subst hb <;> simp [callsF, expand, kindOf, Base.ofGeom?, geomW]
  refine ⟨hc, ?_⟩
  unfold distG
  rw [hc, foldMin_singleton]

/-- **wrapper invariance**: a Multi* of one member is its member, whatever the other operand (of a
different Multi* kind or not a Multi*; for two Multi* of the same kind the member pair is exchanged,
`multi_same_kind_singleton`) -/
theorem multi_singleton (b : Geom) (p : Pt) (cs : List Pt) (g : Poly) :
    (kindOf b ≠ .mpt → distG (.multiPoint [p]) b = distG (.point p) b) ∧
    (kindOf b ≠ .mpt → kindOf b ≠ .mls → distG (.multiLineString [cs]) b = distG (.lineString cs) b) ∧
    (kindOf b ≠ .mpt → kindOf b ≠ .mls → kindOf b ≠ .mpg →
      distG (.multiPolygon [g]) b = distG (.polygon g) b) := by
  refine ⟨fun h => ?_, fun h1 h2 => ?_, fun h1 h2 h3 => ?_⟩
  · have he : expand (.multiPoint [p]) b = .inr [(.point p, b)] := by
      cases hb : kindOf b <;> simp_all [expand, kindOf, multiMembers]
    rw [(distG_step he).2, foldMin_singleton]
  · have he : expand (.multiLineString [cs]) b = .inr [(.lineString cs, b)] := by
      cases hb : kindOf b <;> simp_all [expand, kindOf, multiMembers]
    rw [(distG_step he).2, foldMin_singleton]
  · have he : expand (.multiPolygon [g]) b = .inr [(.polygon g, b)] := by
      cases hb : kindOf b <;> simp_all [expand, kindOf, multiMembers]
    rw [(distG_step he).2, foldMin_singleton]

theorem multi_same_kind_singleton (p q : Pt) (g h : Poly) :
    distG (.multiPoint [p]) (.multiPoint [q]) = distG (.point q) (.point p) ∧
    distG (.multiPolygon [g]) (.multiPolygon [h]) = distG (.polygon h) (.polygon g) := by
  constructor
  · have he : expand (.multiPoint [p]) (.multiPoint [q]) = .inr [(.point q, .point p)] := by
      simp [expand, kindOf, multiMembers]
    rw [(distG_step he).2, foldMin_singleton]
  · have he : expand (.multiPolygon [g]) (.multiPolygon [h]) = .inr [(.polygon h, .polygon g)] := by
      simp [expand, kindOf, multiMembers]
    rw [(distG_step he).2, foldMin_singleton]

/-- **wrapper invariance**: a collection of one member against a single-part operand or another
collection is `distance(b, member)` (the `Geometry` impls exchange the operands; by
`baseD_symm_mixed` / `baseD_symm_pt_ln` that is immaterial except between two areal operands), and
a single-part operand against a collection of one member is `distance(a, member)` -/
theorem collection_singleton (g b : Geom) :
    ((kindOf b = .base ∨ kindOf b = .gc) → distG (.collection [g]) b = distG b g) ∧
    (kindOf b = .base → distG b (.collection [g]) = distG b g) := by
  constructor
  · intro h
    have he : expand (.collection [g]) b = .inr [(b, g)] := by
      rcases h with h | h <;> cases b <;> simp [kindOf] at h <;> simp [expand, kindOf, collMembers]
    rw [(distG_step he).2, foldMin_singleton]
  · intro h
    have he : expand b (.collection [g]) = .inr [(b, g)] := by
      cases b <;> simp [kindOf] at h <;> simp [expand, kindOf, collMembers]
    rw [(distG_step he).2, foldMin_singleton]

/-- an empty Multi* / collection yields `max_value` (the fold start value) -/
theorem empty_multi (b : Geom) (h : kindOf b = .base) :
    distG (.multiPoint []) b = .inf ∧ distG (.collection []) b = .inf := by
  constructor
  · have he : expand (.multiPoint []) b = .inr [] := by
      cases b <;> simp [kindOf] at h <;> simp [expand, kindOf, multiMembers]
    rw [(distG_step he).2]; rfl
  · have he : expand (.collection []) b = .inr [] := by
      cases b <;> simp [kindOf] at h <;> simp [expand, kindOf, collMembers]
    rw [(distG_step he).2]; rfl

/-! ### 7. Point × LineString and finding K4 -/

/-- zero for every point of the line string -/
theorem ptLs_zero_of_on {p : Pt} {cs : List Pt} (h : OnLs p cs) : ptLs2 p cs = .fin 0 :=
  ptLs2_zero_of_on h

/- full statement (false on the pinned tree, finding K4):
   theorem ptLs_zero_iff (hne : cs ≠ []) : ptLs2 p cs = .fin 0 ↔ OnLs p cs -/
/-- zero *only* on the line string, where the tolerance test `|t_x − t_y| ≤ ε` of
`line_string_contains_point` has no false positive -/
theorem ptLs_zero_iff_partial {p : Pt} {cs : List Pt} (hne : cs ≠ [])
    (hT : lsContainsPointTol cs p = true → OnLs p cs) : ptLs2 p cs = .fin 0 ↔ OnLs p cs :=
  ⟨ptLs2_zero_imp_on hne hT, ptLs2_zero_of_on⟩

example : (lsContainsPointTol [⟨0, 0⟩, ⟨2, 2⟩] ⟨1, 2⟩ = true → OnLs ⟨1, 2⟩ [⟨0, 0⟩, ⟨2, 2⟩]) := by
  intro h; exact absurd h (by decide +kernel)

/-- the excluded class is inhabited (K4): the point `(3500, −6500 + 2^-40)` is not on the segment
`(−2000, −1000)–(6000, −9000)`, the tolerance test accepts it, and the model (like the code) returns 0 -/
theorem tolerance_false_positive_witness :
    let p : Pt := ⟨3500, -6500 + 1 / 1099511627776⟩
    let cs : List Pt := [⟨-2000, -1000⟩, ⟨6000, -9000⟩]
    lsContainsPointTol cs p = true ∧ ptLs2 p cs = .fin 0 ∧ ¬ OnLs p cs := by
  refine ⟨by decide +kernel, by decide +kernel, ?_⟩
  rintro ⟨se, hse, h⟩
  simp [segs] at hse
  subst hse
  revert h
  decide +kernel

/-! ### findings K14a / K14b: empty members -/

/-- K14a: an empty polygon member makes the distance of a far away collection zero (the early
return `polygon.exterior().0.is_empty() ⇒ 0` inside the `min` fold) -/
theorem empty_member_zero_witness :
    distG (.collection [.polygon ⟨[], []⟩, .polygon ⟨[⟨5, 5⟩, ⟨6, 5⟩, ⟨6, 6⟩, ⟨5, 6⟩, ⟨5, 5⟩], []⟩]) (.point ⟨0, 0⟩)
      = .fin 0 := by
  decide +kernel

/-- K14b: `nearest_neighbour_distance` panics on an empty line string against a non-empty one -/
theorem empty_linestring_panic_witness : lsLs2 [] [⟨0, 0⟩, ⟨1, 0⟩] = .panic := by
  decide +kernel

/-! ### 8. areal operands: OGC-valid polygons (`polyValid`), Rect / Triangle through `to_polygon`

The point set of a polygon is `PolyPts q` = the specification (`locate`, C01/C02) does not put the point
outside = the closed polygon. What is proved rests on three facts about winding numbers: they are constant
along a segment that misses the ring (C02 `windingE_const`), a valid polygon's points are within the closed
shell and not strictly inside a hole (cells `BE`, `IE` of the hole/shell clause and `II` of the hole-pair
clause of `polyValid`, with the Jordan property `edgeJordan` of simple rings), and two disjoint closed
rings are nested or mutually exterior (`nested_rings`, `exterior_rings`: first point of the rings on a
segment to a far point). `coordinate_position = locate` for valid polygons is C02
`coordPos_polygon_eq_locate_valid`. -/

/-- **the closed polygon**: a point of a valid polygon is on a ring, or has non-zero winding number about
the shell and zero winding number about every hole -/
theorem closed_polygon_iff {q : Poly} (hv : polyValid q = true) (x : Pt) :
    PolyPts q x ↔ RingsPts (q.ext :: q.ints) x ∨
      (windingE (EPt.ofPt x) q.ext ≠ 0 ∧ ∀ h ∈ q.ints, windingE (EPt.ofPt x) h = 0) :=
  PolyPts_iff (RingsOK_of_valid hv) x

example : polyValid ⟨[⟨0, 0⟩, ⟨9, 0⟩, ⟨9, 9⟩, ⟨0, 9⟩, ⟨0, 0⟩], [[⟨2, 2⟩, ⟨2, 7⟩, ⟨7, 7⟩, ⟨7, 2⟩, ⟨2, 2⟩]]⟩ = true := by
  decide +kernel

/-- **a segment from a point outside a valid polygon to a point of the polygon meets a ring** -/
theorem segment_into_polygon_crosses_ring {q : Poly} (hv : polyValid q = true) {x y : Pt}
    (hx : ¬ PolyPts q x) (hy : PolyPts q y) : ∃ z, SegMem z x y ∧ RingsPts (q.ext :: q.ints) z :=
  poly_cross (RingsOK_of_valid hv) hx hy

example :
    let q : Poly := ⟨[⟨0, 0⟩, ⟨9, 0⟩, ⟨9, 9⟩, ⟨0, 9⟩, ⟨0, 0⟩], [[⟨2, 2⟩, ⟨2, 7⟩, ⟨7, 7⟩, ⟨7, 2⟩, ⟨2, 2⟩]]⟩
    polyValid q = true ∧ ¬ PolyPts q ⟨4, 4⟩ ∧ PolyPts q ⟨1, 8⟩ := by
  refine ⟨by decide +kernel, ?_, ?_⟩ <;> unfold PolyPts <;> decide +kernel

/-- `Polygon: Intersects<Coord>` of a valid polygon answers "the point is in the closed polygon" -/
theorem polyCoord_intersects_iff {q : Poly} (hv : polyValid q = true) (p : Pt) :
    polyCoordIntersects q p = true ↔ PolyPts q p :=
  polyCoordIntersects_iff (PolyOk_of_valid hv) p

example : polyCoordIntersects ⟨[⟨0, 0⟩, ⟨9, 0⟩, ⟨9, 9⟩, ⟨0, 9⟩, ⟨0, 0⟩], [[⟨2, 2⟩, ⟨2, 7⟩, ⟨7, 7⟩, ⟨7, 2⟩, ⟨2, 2⟩]]⟩ ⟨1, 8⟩ = true ↔
    PolyPts ⟨[⟨0, 0⟩, ⟨9, 0⟩, ⟨9, 9⟩, ⟨0, 9⟩, ⟨0, 0⟩], [[⟨2, 2⟩, ⟨2, 7⟩, ⟨7, 7⟩, ⟨7, 2⟩, ⟨2, 2⟩]]⟩ ⟨1, 8⟩ :=
  polyCoord_intersects_iff (by decide +kernel) _

/-- **a point outside a valid polygon is nearest to its boundary**: the minimum distance to the rings
is the minimum distance to the closed polygon as a point set -/
theorem outside_point_nearest_to_boundary {q : Poly} (hv : polyValid q = true) {p : Pt} (hp : ¬ PolyPts q p)
    {m : Rat} (h : IsMinDist (· = p) (RingsPts (q.ext :: q.ints)) m) : IsMinDist (· = p) (PolyPts q) m :=
  outside_nearest_boundary (RingsOK_of_valid hv) (fun x hx => by rw [hx]; exact hp) h

example (m : Rat) (h : IsMinDist (· = (⟨4, 5⟩ : Pt))
      (RingsPts [[⟨0, 0⟩, ⟨9, 0⟩, ⟨9, 9⟩, ⟨0, 9⟩, ⟨0, 0⟩], [⟨2, 2⟩, ⟨2, 7⟩, ⟨7, 7⟩, ⟨7, 2⟩, ⟨2, 2⟩]]) m) :
    IsMinDist (· = (⟨4, 5⟩ : Pt)) (PolyPts ⟨[⟨0, 0⟩, ⟨9, 0⟩, ⟨9, 9⟩, ⟨0, 9⟩, ⟨0, 0⟩], [[⟨2, 2⟩, ⟨2, 7⟩, ⟨7, 7⟩, ⟨7, 2⟩, ⟨2, 2⟩]]⟩) m :=
  outside_point_nearest_to_boundary (q := ⟨[⟨0, 0⟩, ⟨9, 0⟩, ⟨9, 9⟩, ⟨0, 9⟩, ⟨0, 0⟩], [[⟨2, 2⟩, ⟨2, 7⟩, ⟨7, 7⟩, ⟨7, 2⟩, ⟨2, 2⟩]]⟩) (by decide +kernel) (by unfold PolyPts; decide +kernel) h

/- full statements (without `hT`): false on the pinned tree, `ptPoly_hole_tolerance_witness` (K4 on a hole ring):
   theorem ptPoly_dist_is_ring_min (hv) (hp) : ∃ m, ptPoly2 p q = .fin m ∧ IsMinDist (· = p) (RingsPts …) m
   theorem ptPoly_zero_iff (hv) : ptPoly2 p q = .fin 0 ↔ PolyPts q p
   theorem ptPoly_dist_is_min (hv) : ∃ m, ptPoly2 p q = .fin m ∧ IsMinDist (· = p) (PolyPts q) m -/
/-- **Point × Polygon**, point outside the polygon: the value is the minimum distance to the rings
(`HolesTolOk`: the tolerance test of `line_string_contains_point`, which the code applies to the hole rings
only, has no false positive — finding K4) -/
theorem ptPoly_dist_is_ring_min_partial {p : Pt} {q : Poly} (hv : polyValid q = true) (hT : HolesTolOk p q)
    (hp : ¬ PolyPts q p) : ∃ m, ptPoly2 p q = .fin m ∧ IsMinDist (· = p) (RingsPts (q.ext :: q.ints)) m := by
  have hok := RingsOK_of_valid hv
  obtain ⟨m, hm⟩ := ptPoly2_finite p hok
  have hi : polyCoordIntersects q p = false := by
    cases h : polyCoordIntersects q p with
    | false => rfl
    | true => exact absurd ((polyCoord_intersects_iff hv p).mp h) hp
  exact ⟨m, hm, ptPoly2_rings_IsMinDist hok hT hi hm⟩

/-- **Point × Polygon is zero exactly for the points of the closed polygon** -/
theorem ptPoly_zero_iff_partial {p : Pt} {q : Poly} (hv : polyValid q = true) (hT : HolesTolOk p q) :
    ptPoly2 p q = .fin 0 ↔ PolyPts q p :=
  ptPoly2_zero_iff (PolyOk_of_valid hv) hT

/-- **Point × Polygon is the true minimum distance** between the point and the closed polygon -/
theorem ptPoly_dist_is_min_partial {p : Pt} {q : Poly} (hv : polyValid q = true) (hT : HolesTolOk p q) :
    ∃ m, ptPoly2 p q = .fin m ∧ IsMinDist (· = p) (PolyPts q) m :=
  ptPoly2_IsMinDist (PolyOk_of_valid hv) hT

example :
    let q : Poly := ⟨[⟨0, 0⟩, ⟨9, 0⟩, ⟨9, 9⟩, ⟨0, 9⟩, ⟨0, 0⟩], [[⟨2, 2⟩, ⟨2, 7⟩, ⟨7, 7⟩, ⟨7, 2⟩, ⟨2, 2⟩]]⟩
    polyValid q = true ∧ HolesTolOk ⟨4, 5⟩ q ∧ ¬ PolyPts q ⟨4, 5⟩ := by
  refine ⟨by decide +kernel, ?_, by unfold PolyPts; decide +kernel⟩
  intro r hr h
  simp only [List.mem_singleton] at hr
  subst hr
  exact absurd h (by decide +kernel)

/-- at full strength for a polygon without holes (the exterior ring is measured without the tolerance test) -/
theorem ptPoly_dist_is_min_noholes {p : Pt} {q : Poly} (hv : polyValid q = true) (hn : q.ints = []) :
    (ptPoly2 p q = .fin 0 ↔ PolyPts q p) ∧ ∃ m, ptPoly2 p q = .fin m ∧ IsMinDist (· = p) (PolyPts q) m := by
  have hT : HolesTolOk p q := fun r hr => by rw [hn] at hr; cases hr
  exact ⟨ptPoly_zero_iff_partial hv hT, ptPoly_dist_is_min_partial hv hT⟩

example : polyValid ⟨[⟨0, 0⟩, ⟨4, 0⟩, ⟨0, 4⟩, ⟨0, 0⟩], []⟩ = true ∧
    (⟨[⟨0, 0⟩, ⟨4, 0⟩, ⟨0, 4⟩, ⟨0, 0⟩], []⟩ : Poly).ints = [] := ⟨by decide +kernel, rfl⟩

/-- the excluded class is inhabited (K4 seen through a hole ring): the point `(3500, −6500 + 2^-40)` lies
strictly inside the triangular hole, just off its slanted edge; the tolerance test accepts it, the model
(like the code) returns 0, and the point is not a point of the (valid) polygon -/
theorem ptPoly_hole_tolerance_witness :
    let p : Pt := ⟨3500, -6500 + 1 / 1099511627776⟩
    let q : Poly := ⟨[⟨-10000, -10000⟩, ⟨10000, -10000⟩, ⟨10000, 10000⟩, ⟨-10000, 10000⟩, ⟨-10000, -10000⟩],
      [[⟨-2000, -1000⟩, ⟨6000, -9000⟩, ⟨6000, -1000⟩, ⟨-2000, -1000⟩]]⟩
    polyValid q = true ∧ ptPoly2 p q = .fin 0 ∧ ¬ PolyPts q p ∧ ¬ HolesTolOk p q := by
  refine ⟨by decide +kernel, by decide +kernel, by unfold PolyPts; decide +kernel, ?_⟩
  intro hT
  have h := hT [⟨-2000, -1000⟩, ⟨6000, -9000⟩, ⟨6000, -1000⟩, ⟨-2000, -1000⟩] (by simp) (by decide +kernel)
  obtain ⟨se, hse, h⟩ := h
  simp only [segs, List.mem_cons, List.mem_nil_iff, or_false] at hse
  rcases hse with rfl | rfl | rfl <;> revert h <;> decide +kernel

/-- `Polygon: Intersects<Line>` of a valid polygon: the closed segment has a point in the closed polygon -/
theorem polyLine_intersects_iff {q : Poly} (hv : polyValid q = true) (a b : Pt) :
    polyLineIntersects q a b = true ↔ ∃ x, SegMem x a b ∧ PolyPts q x :=
  polyLineIntersects_iff (PolyOk_of_valid hv) a b

example : polyLineIntersects ⟨[⟨0, 0⟩, ⟨9, 0⟩, ⟨9, 9⟩, ⟨0, 9⟩, ⟨0, 0⟩], [[⟨2, 2⟩, ⟨2, 7⟩, ⟨7, 7⟩, ⟨7, 2⟩, ⟨2, 2⟩]]⟩ ⟨4, 4⟩ ⟨5, 5⟩ = true ↔
    ∃ x, SegMem x ⟨4, 4⟩ ⟨5, 5⟩ ∧ PolyPts ⟨[⟨0, 0⟩, ⟨9, 0⟩, ⟨9, 9⟩, ⟨0, 9⟩, ⟨0, 0⟩], [[⟨2, 2⟩, ⟨2, 7⟩, ⟨7, 7⟩, ⟨7, 2⟩, ⟨2, 2⟩]]⟩ x :=
  polyLine_intersects_iff (by decide +kernel) _ _

/-- **Line × Polygon is the true minimum distance** between the closed segment and the closed polygon
(zero exactly when they share a point) -/
theorem linePoly_dist_is_min {a b : Pt} {q : Poly} (hv : polyValid q = true) :
    (∃ m, linePoly2 a b q = .fin m ∧ IsMinDist (fun x => SegMem x a b) (PolyPts q) m) ∧
    (linePoly2 a b q = .fin 0 ↔ ∃ x, SegMem x a b ∧ PolyPts q x) :=
  ⟨linePoly2_poly_IsMinDist (PolyOk_of_valid hv), linePoly2_zero_iff_common (PolyOk_of_valid hv)⟩

example : ∃ m, linePoly2 ⟨4, 4⟩ ⟨5, 5⟩ ⟨[⟨0, 0⟩, ⟨9, 0⟩, ⟨9, 9⟩, ⟨0, 9⟩, ⟨0, 0⟩], [[⟨2, 2⟩, ⟨2, 7⟩, ⟨7, 7⟩, ⟨7, 2⟩, ⟨2, 2⟩]]⟩ = .fin m ∧
    IsMinDist (fun x => SegMem x ⟨4, 4⟩ ⟨5, 5⟩) (PolyPts ⟨[⟨0, 0⟩, ⟨9, 0⟩, ⟨9, 9⟩, ⟨0, 9⟩, ⟨0, 0⟩], [[⟨2, 2⟩, ⟨2, 7⟩, ⟨7, 7⟩, ⟨7, 2⟩, ⟨2, 2⟩]]⟩) m :=
  (linePoly_dist_is_min (by decide +kernel)).1

/-- `LineString: Intersects<Polygon>` of a valid polygon (bounding-box rejection included): the line
string has a point in the closed polygon -/
theorem lsPoly_intersects_iff {q : Poly} (hv : polyValid q = true) (cs : List Pt) :
    lsPolyIntersects cs q = true ↔ ∃ x, LsPts cs x ∧ PolyPts q x :=
  lsPolyIntersects_iff (PolyOk_of_valid hv) cs

example : lsPolyIntersects [⟨4, 4⟩, ⟨5, 5⟩, ⟨5, 3⟩] ⟨[⟨0, 0⟩, ⟨9, 0⟩, ⟨9, 9⟩, ⟨0, 9⟩, ⟨0, 0⟩], [[⟨2, 2⟩, ⟨2, 7⟩, ⟨7, 7⟩, ⟨7, 2⟩, ⟨2, 2⟩]]⟩ = true ↔
    ∃ x, LsPts [⟨4, 4⟩, ⟨5, 5⟩, ⟨5, 3⟩] x ∧ PolyPts ⟨[⟨0, 0⟩, ⟨9, 0⟩, ⟨9, 9⟩, ⟨0, 9⟩, ⟨0, 0⟩], [[⟨2, 2⟩, ⟨2, 7⟩, ⟨7, 7⟩, ⟨7, 2⟩, ⟨2, 2⟩]]⟩ x :=
  lsPoly_intersects_iff (by decide +kernel) _

/-- **LineString × Polygon is the true minimum distance** between the line string and the closed
polygon: zero exactly when they share a point; otherwise the exterior ring, or — line string inside the
exterior ring of a polygon with holes — the hole rings carry the minimum -/
theorem lsPoly_dist_is_min {cs : List Pt} {q : Poly} (hv : polyValid q = true) (hc : segs cs ≠ []) :
    (∃ m, lsPoly2 cs q = .fin m ∧ IsMinDist (LsPts cs) (PolyPts q) m) ∧
    (lsPoly2 cs q = .fin 0 ↔ ∃ x, LsPts cs x ∧ PolyPts q x) :=
  ⟨lsPoly2_poly_IsMinDist (PolyOk_of_valid hv) hc, lsPoly2_zero_iff_common (PolyOk_of_valid hv) hc⟩

example : polyValid ⟨[⟨0, 0⟩, ⟨9, 0⟩, ⟨9, 9⟩, ⟨0, 9⟩, ⟨0, 0⟩], [[⟨2, 2⟩, ⟨2, 7⟩, ⟨7, 7⟩, ⟨7, 2⟩, ⟨2, 2⟩]]⟩ = true ∧
    segs [(⟨4, 4⟩ : Pt), ⟨5, 5⟩, ⟨5, 3⟩] ≠ [] := ⟨by decide +kernel, by simp [segs]⟩

/-- **LineString × Polygon, containment branch** — the full statement of `lsPoly_dist_is_hole_min_partial`:
the bounding-box hypothesis follows from the containment test for a closed exterior ring (a point with
non-zero winding number lies in the ring's bounding box, `winding_in_bbox`) -/
theorem lsPoly_dist_is_hole_min {cs : List Pt} {poly : Poly} (hi : lsPolyIntersects cs poly = false)
    (hc : segs cs ≠ []) (hr : RingsOk poly.ints)
    (hcl : poly.ext.head? = poly.ext.getLast? ∧ 2 ≤ poly.ext.length)
    (hB : (!poly.ints.isEmpty && ringContainsCoord poly.ext (cs.headD ⟨0, 0⟩)) = true)
    {m : Rat} (hm : lsPoly2 cs poly = .fin m) : IsMinDist (LsPts cs) (RingsPts poly.ints) m := by
  apply lsPoly_dist_is_hole_min_partial hi hc hr _ hB hm
  simp only [Bool.and_eq_true] at hB
  have hin : ringPos (cs.headD ⟨0, 0⟩) poly.ext = .inside := by
    have := hB.2; unfold ringContainsCoord at this; simpa using this
  rw [Geo.Proofs.Loc.ringPos_eq_ringLoc _ _ hcl, Geo.Proofs.Loc.ringLoc_inside_iff] at hin
  exact not_bboxDisjoint_of_common (x := cs.headD ⟨0, 0⟩) (LsPts_in_bbox (LsPts_head hc))
    (winding_in_bbox hcl.1 hin.2)

example :
    let poly : Poly := ⟨[⟨0, 0⟩, ⟨9, 0⟩, ⟨9, 9⟩, ⟨0, 9⟩, ⟨0, 0⟩], [[⟨2, 2⟩, ⟨2, 7⟩, ⟨7, 7⟩, ⟨7, 2⟩, ⟨2, 2⟩]]⟩
    let cs : List Pt := [⟨4, 4⟩, ⟨5, 5⟩]
    lsPolyIntersects cs poly = false ∧ (poly.ext.head? = poly.ext.getLast? ∧ 2 ≤ poly.ext.length) ∧
    (!poly.ints.isEmpty && ringContainsCoord poly.ext (cs.headD ⟨0, 0⟩)) = true := by
  decide +kernel

/-- **`Polygon: Intersects<Polygon>` of two valid polygons: the closed polygons share a point.** (The body
looks at `b`'s rings against `a` and only at `a`'s exterior ring against `b`; if neither exterior ring has a
point in the other polygon the exterior rings are disjoint closed curves, nested in a hole or mutually
exterior, and the closed polygons are disjoint.) -/
theorem polyPoly_intersects_iff {a b : Poly} (hva : polyValid a = true) (hvb : polyValid b = true) :
    polyPolyIntersects a b = true ↔ ∃ x, PolyPts a x ∧ PolyPts b x :=
  polyPolyIntersects_iff (PolyOk_of_valid hva) (PolyOk_of_valid hvb)

example : polyPolyIntersects ⟨[⟨0, 0⟩, ⟨9, 0⟩, ⟨9, 9⟩, ⟨0, 9⟩, ⟨0, 0⟩], [[⟨2, 2⟩, ⟨2, 7⟩, ⟨7, 7⟩, ⟨7, 2⟩, ⟨2, 2⟩]]⟩ ⟨[⟨3, 3⟩, ⟨6, 3⟩, ⟨6, 6⟩, ⟨3, 6⟩, ⟨3, 3⟩], []⟩ = true ↔
    ∃ x, PolyPts ⟨[⟨0, 0⟩, ⟨9, 0⟩, ⟨9, 9⟩, ⟨0, 9⟩, ⟨0, 0⟩], [[⟨2, 2⟩, ⟨2, 7⟩, ⟨7, 7⟩, ⟨7, 2⟩, ⟨2, 2⟩]]⟩ x ∧ PolyPts ⟨[⟨3, 3⟩, ⟨6, 3⟩, ⟨6, 6⟩, ⟨3, 6⟩, ⟨3, 3⟩], []⟩ x :=
  polyPoly_intersects_iff (by decide +kernel) (by decide +kernel)

/-- **Polygon × Polygon is the true minimum distance** between the two closed polygons (zero exactly
when they share a point; otherwise in each of the three branches — `b` in a hole of `a`, `a` in a hole of
`b`, exterior to exterior — the rings that are measured carry the minimum over all pairs of points) -/
theorem polyPoly_dist_is_min {a b : Poly} (hva : polyValid a = true) (hvb : polyValid b = true) :
    (∃ m, polyPoly2 a b = .fin m ∧ IsMinDist (PolyPts a) (PolyPts b) m) ∧
    (polyPoly2 a b = .fin 0 ↔ ∃ x, PolyPts a x ∧ PolyPts b x) :=
  ⟨polyPoly2_poly_IsMinDist (PolyOk_of_valid hva) (PolyOk_of_valid hvb),
   polyPoly2_zero_iff_common (PolyOk_of_valid hva) (PolyOk_of_valid hvb)⟩

example : ∃ m, polyPoly2 ⟨[⟨0, 0⟩, ⟨9, 0⟩, ⟨9, 9⟩, ⟨0, 9⟩, ⟨0, 0⟩], [[⟨2, 2⟩, ⟨2, 7⟩, ⟨7, 7⟩, ⟨7, 2⟩, ⟨2, 2⟩]]⟩ ⟨[⟨3, 3⟩, ⟨6, 3⟩, ⟨6, 6⟩, ⟨3, 6⟩, ⟨3, 3⟩], []⟩ = .fin m ∧
    IsMinDist (PolyPts ⟨[⟨0, 0⟩, ⟨9, 0⟩, ⟨9, 9⟩, ⟨0, 9⟩, ⟨0, 0⟩], [[⟨2, 2⟩, ⟨2, 7⟩, ⟨7, 7⟩, ⟨7, 2⟩, ⟨2, 2⟩]]⟩) (PolyPts ⟨[⟨3, 3⟩, ⟨6, 3⟩, ⟨6, 6⟩, ⟨3, 6⟩, ⟨3, 3⟩], []⟩) m :=
  (polyPoly_dist_is_min (by decide +kernel) (by decide +kernel)).1

/-- **dist2_symm, Polygon × Polygon for valid polygons, with or without holes** (the full statement
behind `polyPoly_symm_partial`: both orders return the minimum over the same pairs of points) -/
theorem polyPoly_symm_valid {a b : Poly} (hva : polyValid a = true) (hvb : polyValid b = true) :
    polyPoly2 a b = polyPoly2 b a :=
  polyPoly2_symm_valid (PolyOk_of_valid hva) (PolyOk_of_valid hvb)

example :
    polyValid ⟨[⟨0, 0⟩, ⟨9, 0⟩, ⟨9, 9⟩, ⟨0, 9⟩, ⟨0, 0⟩], [[⟨2, 2⟩, ⟨2, 7⟩, ⟨7, 7⟩, ⟨7, 2⟩, ⟨2, 2⟩]]⟩ = true ∧
    polyValid ⟨[⟨3, 3⟩, ⟨6, 3⟩, ⟨6, 6⟩, ⟨3, 6⟩, ⟨3, 3⟩], [[⟨4, 4⟩, ⟨4, 5⟩, ⟨5, 5⟩, ⟨5, 4⟩, ⟨4, 4⟩]]⟩ = true := by
  decide +kernel

/-- **Rect operand = its polygon form**: the point set of `Rect::to_polygon()` is the closed rectangle -/
theorem rect_pts_iff (mn mx x : Pt) (hx : mn.x < mx.x) (hy : mn.y < mx.y) :
    PolyPts (dRectPoly mn mx) x ↔ rectCoord mn mx x = true := by
  have h1 : locate (.polygon (dRectPoly mn mx)) x = locate (.rect mn mx) x := rfl
  unfold PolyPts
  rw [h1, ← Geo.Proofs.Loc.coordPos_rect_eq_locate mn mx x hx hy, Geo.Proofs.Loc.rectCoord_eq_pos]
  simp

example : PolyPts (dRectPoly ⟨0, 0⟩ ⟨2, 3⟩) ⟨2, 1⟩ := (rect_pts_iff _ _ _ (by norm_num) (by norm_num)).mpr (by decide +kernel)

/-- **Triangle operand = its polygon form**: the point set of `Triangle::to_polygon()` is what the
specification locates in the triangle -/
theorem triangle_pts_iff (a b c x : Pt) :
    PolyPts (dTriPoly a b c) x ↔ locate (.triangle a b c) x ≠ .outside := by
  have h1 : dTriPoly a b c = ⟨[a, b, c, a], []⟩ := by
    simp [dTriPoly, SM.triangleToPolygon, SM.close, SM.isClosed]
  unfold PolyPts
  rw [h1]
  exact Iff.rfl

/- full statement (without `ht`): false on the pinned tree for Point × LineString and Point × Polygon-with-holes
   (`tolerance_false_positive_witness`, `ptPoly_hole_tolerance_witness`) -/
/-- **true minimum, all 36 pairs of single-part operands** (`partOk`: LineStrings with a segment, Polygons
OGC-valid; Rect / Triangle are their polygon forms; `basePts`: the operand's point set, closed polygons for
areal operands): the value is the minimum of `|x − y|²` over all pairs of points, and is zero exactly when
the operands share a point -/
theorem baseD_is_true_min_partial {x y : Base} (hx : partOk x) (hy : partOk y) (ht : tolOkX x y) :
    (∃ m, baseD x y = .fin m ∧ IsMinDist (basePts x) (basePts y) m) ∧
    (baseD x y = .fin 0 ↔ ∃ z, basePts x z ∧ basePts y z) :=
  ⟨baseD_IsMinDist hx hy ht, baseD_zero_iff_common hx hy ht⟩

example : partOk (.tr ⟨0, 0⟩ ⟨4, 0⟩ ⟨0, 4⟩) ∧
    partOk (.pg ⟨[⟨5, 5⟩, ⟨9, 5⟩, ⟨9, 9⟩, ⟨5, 9⟩, ⟨5, 5⟩], [[⟨6, 6⟩, ⟨6, 8⟩, ⟨8, 8⟩, ⟨8, 6⟩, ⟨6, 6⟩]]⟩) ∧
    tolOkX (.tr ⟨0, 0⟩ ⟨4, 0⟩ ⟨0, 4⟩)
      (.pg ⟨[⟨5, 5⟩, ⟨9, 5⟩, ⟨9, 9⟩, ⟨5, 9⟩, ⟨5, 5⟩], [[⟨6, 6⟩, ⟨6, 8⟩, ⟨8, 8⟩, ⟨8, 6⟩, ⟨6, 6⟩]]⟩) :=
  ⟨trivial, by show polyValid _ = true; decide +kernel, trivial⟩

/-- no pair on which finding K4 can strike: no Point × LineString and no Point × Polygon-with-holes -/
def noK4 : Base → Base → Prop
  | .pt _, .ls _ => False
  | .ls _, .pt _ => False
  | .pt _, .pg q => q.ints = []
  | .pg q, .pt _ => q.ints = []
  | _, _ => True

theorem tolOkX_of_noK4 {x y : Base} (h : noK4 x y) : tolOkX x y := by
  cases x <;> cases y <;> first
    | exact h.elim
    | exact trivial
    | (intro r hr; rw [show _ = [] from h] at hr; cases hr)

example : noK4 (.pt ⟨1, 1⟩) (.pg ⟨[⟨5, 5⟩, ⟨9, 5⟩, ⟨9, 9⟩, ⟨5, 5⟩], []⟩) := rfl

/-- the same at full strength for the pairs without a tolerance test -/
theorem baseD_is_true_min {x y : Base} (hx : partOk x) (hy : partOk y) (hk : noK4 x y) :
    (∃ m, baseD x y = .fin m ∧ IsMinDist (basePts x) (basePts y) m) ∧
    (baseD x y = .fin 0 ↔ ∃ z, basePts x z ∧ basePts y z) :=
  baseD_is_true_min_partial hx hy (tolOkX_of_noK4 hk)

example : partOk (.ls [⟨0, 0⟩, ⟨1, 3⟩]) ∧ partOk (.rc ⟨2, 2⟩ ⟨4, 5⟩) ∧ noK4 (.ls [⟨0, 0⟩, ⟨1, 3⟩]) (.rc ⟨2, 2⟩ ⟨4, 5⟩) :=
  ⟨by simp [partOk, segs], trivial, trivial⟩

/-- **`distance(a, b)` is the true minimum distance of two geometries with linear and areal parts**
(extends `distG_is_true_min_partial` from `linOk` parts to `partOk` parts: Points, Lines, LineStrings with a
segment, OGC-valid Polygons, Rects, Triangles, their Multi* and arbitrarily nested collections):
`GeomPtsX g x` = `x` is a point of a part of `g`; the result is finite, bounds `|x − y|²` from below for
all points `x` of `a`, `y` of `b`, and is attained.
(`_partial`: `tolOkX` excludes finding K4 on the Point × LineString and Point × Polygon-with-holes pairs; the
member-against-member validity of a MultiPolygon is not needed.) -/
theorem distG_is_true_min_areal_partial {a b : Geom} (ha : ∀ p ∈ parts a, partOk p) (hb : ∀ q ∈ parts b, partOk q)
    (ht : ∀ p ∈ parts a, ∀ q ∈ parts b, tolOkX p q) (na : parts a ≠ []) (nb : parts b ≠ []) :
    ∃ m, distG a b = .fin m ∧ IsMinDist (GeomPtsX a) (GeomPtsX b) m :=
  distG_IsMinDist_gen ha hb ht na nb

example :
    let a : Geom := .polygon ⟨[⟨0, 0⟩, ⟨9, 0⟩, ⟨9, 9⟩, ⟨0, 9⟩, ⟨0, 0⟩], [[⟨2, 2⟩, ⟨2, 7⟩, ⟨7, 7⟩, ⟨7, 2⟩, ⟨2, 2⟩]]⟩
    let b : Geom := .multiPoint [⟨4, 5⟩, ⟨20, 20⟩]
    (∀ p ∈ parts a, partOk p) ∧ (∀ q ∈ parts b, partOk q) ∧ (∀ p ∈ parts a, ∀ q ∈ parts b, tolOkX p q) ∧
    parts a ≠ [] ∧ parts b ≠ [] := by
  refine ⟨?_, ?_, ?_, by simp [parts], by simp [parts]⟩
  · intro p hp
    simp only [parts, List.mem_singleton] at hp
    subst hp; show polyValid _ = true; decide +kernel
  · intro q hq
    simp only [parts, List.map_cons, List.map_nil, List.mem_cons, List.mem_nil_iff, or_false] at hq
    rcases hq with rfl | rfl <;> trivial
  · intro p hp q hq
    simp only [parts, List.mem_singleton] at hp
    simp only [parts, List.map_cons, List.map_nil, List.mem_cons, List.mem_nil_iff, or_false] at hq
    subst hp
    rcases hq with rfl | rfl <;>
      (intro r hr h
       simp only [List.mem_singleton] at hr
       subst hr
       exact absurd h (by decide +kernel))

/-- …at full strength when no pair of parts carries a tolerance test -/
theorem distG_is_true_min_areal {a b : Geom} (ha : ∀ p ∈ parts a, partOk p) (hb : ∀ q ∈ parts b, partOk q)
    (hk : ∀ p ∈ parts a, ∀ q ∈ parts b, noK4 p q) (na : parts a ≠ []) (nb : parts b ≠ []) :
    ∃ m, distG a b = .fin m ∧ IsMinDist (GeomPtsX a) (GeomPtsX b) m :=
  distG_is_true_min_areal_partial ha hb (fun p hp q hq => tolOkX_of_noK4 (hk p hp q hq)) na nb

example :
    let a : Geom := .multiPolygon [⟨[⟨0, 0⟩, ⟨4, 0⟩, ⟨0, 4⟩, ⟨0, 0⟩], []⟩,
      ⟨[⟨5, 5⟩, ⟨9, 5⟩, ⟨9, 9⟩, ⟨5, 9⟩, ⟨5, 5⟩], [[⟨6, 6⟩, ⟨6, 8⟩, ⟨8, 8⟩, ⟨8, 6⟩, ⟨6, 6⟩]]⟩]
    let b : Geom := .collection [.lineString [⟨7, 7⟩, ⟨7, 15 / 2⟩], .rect ⟨10, 0⟩ ⟨12, 3⟩]
    (∀ p ∈ parts a, partOk p) ∧ (∀ q ∈ parts b, partOk q) ∧ (∀ p ∈ parts a, ∀ q ∈ parts b, noK4 p q) ∧
    parts a ≠ [] ∧ parts b ≠ [] := by
  refine ⟨?_, ?_, ?_, by simp [parts], by simp [parts, partsList]⟩
  · intro p hp
    simp only [parts, List.map_cons, List.map_nil, List.mem_cons, List.mem_nil_iff, or_false] at hp
    rcases hp with rfl | rfl <;> (show polyValid _ = true) <;> decide +kernel
  · intro q hq
    simp only [parts, partsList, List.cons_append, List.nil_append, List.append_nil, List.mem_cons,
      List.mem_nil_iff, or_false] at hq
    rcases hq with rfl | rfl
    · simp [partOk, segs]
    · trivial
  · intro p hp q hq
    simp only [parts, List.map_cons, List.map_nil, List.mem_cons, List.mem_nil_iff, or_false] at hp
    simp only [parts, partsList, List.cons_append, List.nil_append, List.append_nil, List.mem_cons,
      List.mem_nil_iff, or_false] at hq
    rcases hp with rfl | rfl <;> rcases hq with rfl | rfl <;> trivial

theorem baseOk_of_partOk {x : Base} (h : partOk x) : baseOk x := by
  cases x with
  | ls cs => exact h
  | pg q => exact ⟨RingsOK_ext (RingsOK_of_valid h), RingsOK_ints (RingsOK_of_valid h)⟩
  | _ => trivial

example : partOk (.pg ⟨[⟨0, 0⟩, ⟨4, 0⟩, ⟨0, 4⟩, ⟨0, 0⟩], []⟩) := by show polyValid _ = true; decide +kernel

/-- **dist2_symm, every pair of single-part operands in the domain** (all 36; the only pair whose two
orders run different code is Polygon × Polygon, `polyPoly_symm_valid`) -/
theorem baseD_symm_valid {x y : Base} (hx : partOk x) (hy : partOk y) : baseD x y = baseD y x :=
  baseD_symm_ok hx hy

example : baseD (.pg ⟨[⟨0, 0⟩, ⟨9, 0⟩, ⟨9, 9⟩, ⟨0, 9⟩, ⟨0, 0⟩], [[⟨2, 2⟩, ⟨2, 7⟩, ⟨7, 7⟩, ⟨7, 2⟩, ⟨2, 2⟩]]⟩) (.pg ⟨[⟨3, 3⟩, ⟨6, 3⟩, ⟨6, 6⟩, ⟨3, 6⟩, ⟨3, 3⟩], []⟩) =
    baseD (.pg ⟨[⟨3, 3⟩, ⟨6, 3⟩, ⟨6, 6⟩, ⟨3, 6⟩, ⟨3, 3⟩], []⟩) (.pg ⟨[⟨0, 0⟩, ⟨9, 0⟩, ⟨9, 9⟩, ⟨0, 9⟩, ⟨0, 0⟩], [[⟨2, 2⟩, ⟨2, 7⟩, ⟨7, 7⟩, ⟨7, 2⟩, ⟨2, 2⟩]]⟩) :=
  baseD_symm_valid (by show polyValid _ = true; decide +kernel) (by show polyValid _ = true; decide +kernel)

/-- **dist2_symm, `distance(a, b) = distance(b, a)` for all geometries with parts in the domain**
(Multi*, nested collections: the two dispatches fold `min` over the same part pairs, in a different order
and with the operands of some calls exchanged) -/
theorem distG_symm_valid {a b : Geom} (ha : ∀ p ∈ parts a, partOk p) (hb : ∀ q ∈ parts b, partOk q) :
    distG a b = distG b a := by
  obtain ⟨c1, _⟩ := calls_cover _ a b (le_refl _)
  obtain ⟨d1, _⟩ := calls_cover _ b a (le_refl _)
  obtain ⟨_, c2⟩ := calls_cover _ a b (le_refl _)
  obtain ⟨_, d2⟩ := calls_cover _ b a (le_refl _)
  unfold distG
  apply foldMin_eq_of_values
  · intro xy hxy
    rcases c1 xy hxy with ⟨h1, h2⟩ | ⟨h1, h2⟩
    · exact baseD_nonneg (baseOk_of_partOk (ha _ h1)) (baseOk_of_partOk (hb _ h2))
    · exact baseD_nonneg (baseOk_of_partOk (hb _ h1)) (baseOk_of_partOk (ha _ h2))
  · intro xy hxy
    rcases d1 xy hxy with ⟨h1, h2⟩ | ⟨h1, h2⟩
    · exact baseD_nonneg (baseOk_of_partOk (hb _ h1)) (baseOk_of_partOk (ha _ h2))
    · exact baseD_nonneg (baseOk_of_partOk (ha _ h1)) (baseOk_of_partOk (hb _ h2))
  · intro xy hxy
    rcases c1 xy hxy with ⟨h1, h2⟩ | ⟨h1, h2⟩
    · rcases d2 xy.2 h2 xy.1 h1 with h | h
      · exact ⟨_, h, baseD_symm_ok (hb _ h2) (ha _ h1)⟩
      · exact ⟨_, h, rfl⟩
    · rcases d2 xy.1 h1 xy.2 h2 with h | h
      · exact ⟨_, h, rfl⟩
      · exact ⟨_, h, baseD_symm_ok (ha _ h2) (hb _ h1)⟩
  · intro xy hxy
    rcases d1 xy hxy with ⟨h1, h2⟩ | ⟨h1, h2⟩
    · rcases c2 xy.2 h2 xy.1 h1 with h | h
      · exact ⟨_, h, baseD_symm_ok (ha _ h2) (hb _ h1)⟩
      · exact ⟨_, h, rfl⟩
    · rcases c2 xy.1 h1 xy.2 h2 with h | h
      · exact ⟨_, h, rfl⟩
      · exact ⟨_, h, baseD_symm_ok (hb _ h2) (ha _ h1)⟩

example :
    let a : Geom := .multiPolygon [⟨[⟨0, 0⟩, ⟨9, 0⟩, ⟨9, 9⟩, ⟨0, 9⟩, ⟨0, 0⟩], [[⟨2, 2⟩, ⟨2, 7⟩, ⟨7, 7⟩, ⟨7, 2⟩, ⟨2, 2⟩]]⟩]
    let b : Geom := .polygon ⟨[⟨3, 3⟩, ⟨6, 3⟩, ⟨6, 6⟩, ⟨3, 6⟩, ⟨3, 3⟩], [[⟨4, 4⟩, ⟨4, 5⟩, ⟨5, 5⟩, ⟨5, 4⟩, ⟨4, 4⟩]]⟩
    (∀ p ∈ parts a, partOk p) ∧ (∀ q ∈ parts b, partOk q) := by
  constructor
  · intro p hp
    simp only [parts, List.map_cons, List.map_nil, List.mem_singleton] at hp
    subst hp; show polyValid _ = true; decide +kernel
  · intro q hq
    simp only [parts, List.mem_singleton] at hq
    subst hq; show polyValid _ = true; decide +kernel

/-! ### TRAN: the point–segment kernel is the term read off geo-types/src/private_utils.rs (sqrt-free form) -/

/-- [T] (translator tie) `line_segment_distance` (with `line_euclidean_length`, `Line::{delta, dx, dy}`) regenerated from
the Rust bodies on this run, `f64::hypot` being a parameter `hyp`: whenever the square of `hyp` is `x² + y²` at the three
argument pairs the code can evaluate (point→start, point→end, start→end: `HypOk`), the square of the regenerated result
is the model's `psd2` — the degenerate-segment test, the projection parameter `r`, the `r ≤ 0` / `r ≥ 1` clamps and the
perpendicular term `|s| · hypot(dx, dy)` are those of the source. Full statement (`hyp = √(x² + y²)` for all arguments) has
no model over the rationals; the hypotheses are instantiated below. -/
theorem lineSegmentDistance_sq_eq_source_partial (hyp : Rat → Rat → Rat) (p a b : Pt)
    (H : Geo.Proofs.TRANDist.HypOk hyp p a b) :
    Gen.lineSegmentDistance hyp p a b * Gen.lineSegmentDistance hyp p a b = psd2 p a b ∧
    Gen.pointLineEuclideanDistance hyp p (a, b) * Gen.pointLineEuclideanDistance hyp p (a, b) = psd2 p a b :=
  ⟨Geo.Proofs.TRANDist.lineSegmentDistance_sq hyp p a b H, Geo.Proofs.TRANDist.pointLineEuclideanDistance_sq hyp p a b H⟩

example : Gen.lineSegmentDistance (fun x y => if y = 0 then rabs x else 5) ⟨3, 4⟩ ⟨0, 0⟩ ⟨6, 0⟩ *
    Gen.lineSegmentDistance (fun x y => if y = 0 then rabs x else 5) ⟨3, 4⟩ ⟨0, 0⟩ ⟨6, 0⟩ = psd2 ⟨3, 4⟩ ⟨0, 0⟩ ⟨6, 0⟩ :=
  (lineSegmentDistance_sq_eq_source_partial _ _ _ _
    ⟨by decide +kernel, by decide +kernel, by decide +kernel⟩).1

end Geo.Proofs.C07
