/-
  C11 — line_intersection classifies and locates segment crossings exactly.
  Property theorems only. Model: GeoModel/LineIntersection.lean, GeoModel/Segment.lean.
-/
import GeoModel.LineIntersection
import Mathlib.Tactic.NormNum

namespace Geo.Proofs.C11
open Geo

/-- [T] envelope rejection: segments whose bounding boxes are disjoint have no intersection. -/
theorem li_none_of_bbox_disjoint (p1 p2 q1 q2 : Pt)
    (h : rectRect (lineBBox p1 p2).1 (lineBBox p1 p2).2 (lineBBox q1 q2).1 (lineBBox q1 q2).2 = false) :
    lineIntersection p1 p2 q1 q2 = none := by
  unfold lineIntersection
  simp [h]

/-- [T] both end points of `q` strictly on the same side of `p` ⇒ no intersection. -/
theorem li_none_of_same_side (p1 p2 q1 q2 : Pt)
    (h : (orient p1 p2 q1 = .cw ∧ orient p1 p2 q2 = .cw) ∨ (orient p1 p2 q1 = .ccw ∧ orient p1 p2 q2 = .ccw)) :
    lineIntersection p1 p2 q1 q2 = none := by
  unfold lineIntersection
  rcases h with ⟨h1, h2⟩ | ⟨h1, h2⟩ <;> simp [h1, h2]

example : lineIntersection ⟨0, 0⟩ ⟨1, 0⟩ ⟨0, 1⟩ ⟨1, 2⟩ = none :=
  li_none_of_same_side _ _ _ _ (Or.inr ⟨by norm_num [orient, cross], by norm_num [orient, cross]⟩)

end Geo.Proofs.C11
