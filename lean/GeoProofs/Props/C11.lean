/-
  C11 — line_intersection classifies and locates segment crossings exactly.
  Property theorems only. Model: GeoModel/LineIntersection.lean, GeoModel/Segment.lean.
  Specification of a segment: `Geo.Proofs.Kernel.SegMem` (GeoProofs/Lemmas/SegmentSpec.lean);
  case structure of the model: GeoProofs/Lemmas/LISpec.lean.
-/
import GeoModel.Gen.CollinearTable
import GeoModel.LineIntersection
import GeoProofs.Lemmas.SegmentSpec
import GeoProofs.Lemmas.LISpec
import Mathlib.Tactic.NormNum

namespace Geo.Proofs.C11
open Geo Geo.Proofs.Kernel

/-! concrete evaluations used by the non-vacuity examples -/

private theorem ex_improper :
    lineIntersection ⟨0, 0⟩ ⟨2, 0⟩ ⟨1, 0⟩ ⟨1, 1⟩ = some (.single ⟨1, 0⟩ false) := by
  norm_num [lineIntersection, lineBBox, SM.rectNew, rectRect, orient, cross]
  simp

private theorem ex_proper :
    lineIntersection ⟨0, 0⟩ ⟨2, 2⟩ ⟨0, 2⟩ ⟨2, 0⟩ = some (.single ⟨1, 1⟩ true) := by
  norm_num [lineIntersection, lineBBox, SM.rectNew, rectRect, orient, cross, properPoint]
  simp

private theorem ex_collinear :
    lineIntersection ⟨0, 0⟩ ⟨2, 2⟩ ⟨1, 1⟩ ⟨3, 3⟩ = some (.collinear ⟨1, 1⟩ ⟨2, 2⟩) := by
  norm_num [lineIntersection, lineBBox, SM.rectNew, rectRect, orient, cross, collinearIntersection,
    rectCoord]
  simp

/-- [T] envelope rejection: segments whose bounding boxes are disjoint have no intersection. -/
theorem li_none_of_bbox_disjoint (p1 p2 q1 q2 : Pt)
    (h : rectRect (lineBBox p1 p2).1 (lineBBox p1 p2).2 (lineBBox q1 q2).1 (lineBBox q1 q2).2 = false) :
    lineIntersection p1 p2 q1 q2 = none :=
  li_none_of_box h

example : lineIntersection ⟨0, 0⟩ ⟨1, 0⟩ ⟨2, 1⟩ ⟨3, 2⟩ = none :=
  li_none_of_bbox_disjoint _ _ _ _ (by norm_num [rectRect, lineBBox, SM.rectNew])

/-- [T] both end points of `q` strictly on the same side of `p` ⇒ no intersection. -/
theorem li_none_of_same_side (p1 p2 q1 q2 : Pt)
    (h : (orient p1 p2 q1 = .cw ∧ orient p1 p2 q2 = .cw) ∨ (orient p1 p2 q1 = .ccw ∧ orient p1 p2 q2 = .ccw)) :
    lineIntersection p1 p2 q1 q2 = none := by
  apply li_none_of_sameStrict_p
  simp only [orient_cw_iff, orient_ccw_iff] at h
  exact h

example : lineIntersection ⟨0, 0⟩ ⟨1, 0⟩ ⟨0, 1⟩ ⟨1, 2⟩ = none :=
  li_none_of_same_side _ _ _ _ (Or.inr ⟨by norm_num [orient, cross], by norm_num [orient, cross]⟩)

/-- [T] `line_intersection` answers `Some` exactly when the two closed segments share a point. -/
theorem li_isSome_iff (p1 p2 q1 q2 : Pt) :
    (lineIntersection p1 p2 q1 q2).isSome = true ↔ ∃ x, SegMem x p1 p2 ∧ SegMem x q1 q2 := by
  refine li_cases p1 p2 q1 q2 (fun r => r.isSome = true ↔ ∃ x, SegMem x p1 p2 ∧ SegMem x q1 q2)
    ?_ ?_ ?_ ?_ ?_ ?_
  · intro hb
    constructor
    · intro h; cases h
    · rintro ⟨x, h1, h2⟩
      rw [boxMeet_of_common h1 h2] at hb; cases hb
  · intro _ hs
    constructor
    · intro h; cases h
    · intro h; exact absurd h (no_common_of_sameStrict hs)
  · intro _ hs
    constructor
    · intro h; cases h
    · intro h; exact absurd h (no_common_of_sameStrict' hs)
  · intro _ hq1 hq2 hp1 hp2
    rw [collinearIntersection_def, colTable_isSome]
    constructor
    · intro h
      simp only [Bool.or_eq_true, Bool.and_eq_true] at h
      have ha := fun h => (inRect_iff_SegMem hq1).mp h
      have hb := fun h => (inRect_iff_SegMem hq2).mp h
      have hc := fun h => (inRect_iff_SegMem hp1).mp h
      rcases h with ((((h | h) | h) | h) | h) | h
      · exact ⟨q1, ha h.1, SegMem_left _ _⟩
      · exact ⟨p1, SegMem_left _ _, hc h.1⟩
      · exact ⟨q1, ha h.1, SegMem_left _ _⟩
      · exact ⟨q1, ha h.1, SegMem_left _ _⟩
      · exact ⟨q2, hb h.1, SegMem_right _ _⟩
      · exact ⟨q2, hb h.1, SegMem_right _ _⟩
    · exact col_two_bits hq1 hq2 hp1 hp2
  · intro _ h1 h2 h3 h4
    constructor
    · intro _; exact ⟨_, cascadePt_mem h1 h2 h3 h4⟩
    · intro _; rfl
  · intro _ h1 h2 a _ _ _
    constructor
    · intro _; exact ⟨_, properPoint_mem h1 h2 a⟩
    · intro _; rfl

/-- [T] `line_intersection(p, q).is_some() = p.intersects(q)` (`Line: Intersects<Line>`). -/
theorem li_agrees_intersects (p1 p2 q1 q2 : Pt) :
    (lineIntersection p1 p2 q1 q2).isSome = lineLine p1 p2 q1 q2 := by
  rw [Bool.eq_iff_iff, li_isSome_iff, lineLine_iff]

/-- [T] `None` exactly when the two closed segments have no common point. -/
theorem li_none_iff (p1 p2 q1 q2 : Pt) :
    lineIntersection p1 p2 q1 q2 = none ↔ ¬ ∃ x, SegMem x p1 p2 ∧ SegMem x q1 q2 := by
  rw [← li_isSome_iff]
  cases lineIntersection p1 p2 q1 q2 <;> simp

example : lineIntersection ⟨0, 0⟩ ⟨2, 2⟩ ⟨0, 2⟩ ⟨2, 0⟩ ≠ none := by
  rw [Ne, li_none_iff, not_not]
  exact ⟨⟨1, 1⟩, ⟨1/2, by norm_num, by norm_num, by norm_num, by norm_num⟩,
    ⟨1/2, by norm_num, by norm_num, by norm_num, by norm_num⟩⟩

/-- [T] an improper single point is (a copy of) one of the four end points. -/
theorem li_improper_endpoint (p1 p2 q1 q2 x : Pt)
    (h : lineIntersection p1 p2 q1 q2 = some (.single x false)) :
    x = p1 ∨ x = p2 ∨ x = q1 ∨ x = q2 := by
  revert h
  refine li_cases p1 p2 q1 q2 (fun r => r = some (.single x false) → x = p1 ∨ x = p2 ∨ x = q1 ∨ x = q2)
    ?_ ?_ ?_ ?_ ?_ ?_
  · intro _ h; cases h
  · intro _ _ h; cases h
  · intro _ _ h; cases h
  · intro _ _ _ _ _ h
    rw [collinearIntersection_def] at h
    obtain ⟨_, _, h2⟩ := colTable_single h
    rcases h2 with ⟨h, _⟩ | ⟨h, _⟩
    · exact Or.inl h
    · exact Or.inr (Or.inl h)
  · intro _ _ _ _ _ h
    injection h with h; injection h with h _
    rw [← h]; exact cascadePt_endpoint _ _ _ _
  · intro _ _ _ _ _ _ _ h
    injection h with h; injection h with _ h; cases h

example : (⟨1, 0⟩ : Pt) = ⟨0, 0⟩ ∨ (⟨1, 0⟩ : Pt) = ⟨2, 0⟩ ∨ (⟨1, 0⟩ : Pt) = ⟨1, 0⟩ ∨ (⟨1, 0⟩ : Pt) = ⟨1, 1⟩ :=
  li_improper_endpoint _ _ _ _ _ ex_improper

/-- [T] a single point answer lies on both segments (for the proper case this is
`proper_point_on_both`: the exact Cramer point satisfies both parametrisations with parameters in
`[0,1]`, hence lies in both envelopes). -/
theorem li_single_on_both (p1 p2 q1 q2 x : Pt) (f : Bool)
    (h : lineIntersection p1 p2 q1 q2 = some (.single x f)) :
    lineCoord p1 p2 x = true ∧ lineCoord q1 q2 x = true := by
  rw [lineCoord_iff, lineCoord_iff]
  revert h
  refine li_cases p1 p2 q1 q2 (fun r => r = some (.single x f) → SegMem x p1 p2 ∧ SegMem x q1 q2)
    ?_ ?_ ?_ ?_ ?_ ?_
  · intro _ h; cases h
  · intro _ _ h; cases h
  · intro _ _ h; cases h
  · intro _ hq1 hq2 hp1 hp2 h
    rw [collinearIntersection_def] at h
    obtain ⟨_, h1, h2⟩ := colTable_single h
    constructor
    · rcases h1 with ⟨e, hb⟩ | ⟨e, hb⟩
      · rw [e]; exact (inRect_iff_SegMem hq1).mp hb
      · rw [e]; exact (inRect_iff_SegMem hq2).mp hb
    · rcases h2 with ⟨e, hb⟩ | ⟨e, hb⟩
      · rw [e]; exact (inRect_iff_SegMem hp1).mp hb
      · rw [e]; exact (inRect_iff_SegMem hp2).mp hb
  · intro _ h1 h2 h3 h4 h
    injection h with h; injection h with h _
    rw [← h]; exact cascadePt_mem h1 h2 h3 h4
  · intro _ h1 h2 a _ _ _ h
    injection h with h; injection h with h _
    rw [← h]; exact properPoint_mem h1 h2 a

/-- [T] the exact intersection point of the proper case lies on both segments. -/
theorem proper_point_on_both (p1 p2 q1 q2 x : Pt)
    (h : lineIntersection p1 p2 q1 q2 = some (.single x true)) :
    SegMem x p1 p2 ∧ SegMem x q1 q2 := by
  have := li_single_on_both p1 p2 q1 q2 x true h
  rwa [lineCoord_iff, lineCoord_iff] at this

example : SegMem ⟨1, 1⟩ ⟨0, 0⟩ ⟨2, 2⟩ ∧ SegMem ⟨1, 1⟩ ⟨0, 2⟩ ⟨2, 0⟩ :=
  proper_point_on_both _ _ _ _ _ ex_proper

example : lineCoord ⟨0, 0⟩ ⟨2, 0⟩ ⟨1, 0⟩ = true ∧ lineCoord ⟨1, 0⟩ ⟨1, 1⟩ ⟨1, 0⟩ = true :=
  li_single_on_both _ _ _ _ _ _ ex_improper

/-- [T] the `is_proper` flag is set exactly when none of the four orientations is collinear. -/
theorem li_proper_iff (p1 p2 q1 q2 x : Pt) (f : Bool)
    (h : lineIntersection p1 p2 q1 q2 = some (.single x f)) :
    f = true ↔ (orient p1 p2 q1 ≠ .col ∧ orient p1 p2 q2 ≠ .col ∧ orient q1 q2 p1 ≠ .col ∧
      orient q1 q2 p2 ≠ .col) := by
  simp only [Ne, orient_col_iff]
  revert h
  refine li_cases p1 p2 q1 q2 (fun r => r = some (.single x f) → (f = true ↔
    (¬ cross p1 p2 q1 = 0 ∧ ¬ cross p1 p2 q2 = 0 ∧ ¬ cross q1 q2 p1 = 0 ∧ ¬ cross q1 q2 p2 = 0)))
    ?_ ?_ ?_ ?_ ?_ ?_
  · intro _ h; cases h
  · intro _ _ h; cases h
  · intro _ _ h; cases h
  · intro _ hq1 _ _ _ h
    rw [collinearIntersection_def] at h
    obtain ⟨hf, _, _⟩ := colTable_single h
    rw [hf]
    constructor
    · intro h; cases h
    · intro h; exact absurd hq1 h.1
  · intro _ _ _ _ h4 h
    injection h with h; injection h with _ hf
    rw [← hf]
    constructor
    · intro h; cases h
    · rintro ⟨a, b, c, d⟩
      rcases h4 with h | h | h | h
      · exact absurd h a
      · exact absurd h b
      · exact absurd h c
      · exact absurd h d
  · intro _ _ _ a b c d h
    injection h with h; injection h with _ hf
    rw [← hf]
    exact ⟨fun _ => ⟨a, b, c, d⟩, fun _ => rfl⟩

example : orient ⟨0, 0⟩ ⟨2, 2⟩ ⟨0, 2⟩ ≠ .col ∧ orient ⟨0, 0⟩ ⟨2, 2⟩ ⟨2, 0⟩ ≠ .col ∧
    orient ⟨0, 2⟩ ⟨2, 0⟩ ⟨0, 0⟩ ≠ .col ∧ orient ⟨0, 2⟩ ⟨2, 0⟩ ⟨2, 2⟩ ≠ .col :=
  (li_proper_iff _ _ _ _ _ _ ex_proper).mp rfl

/-- [T] both ends of a collinear overlap lie on both segments. -/
theorem li_collinear_sub (p1 p2 q1 q2 x y : Pt)
    (h : lineIntersection p1 p2 q1 q2 = some (.collinear x y)) :
    lineCoord p1 p2 x = true ∧ lineCoord p1 p2 y = true ∧ lineCoord q1 q2 x = true ∧
      lineCoord q1 q2 y = true := by
  simp only [lineCoord_iff]
  revert h
  refine li_cases p1 p2 q1 q2 (fun r => r = some (.collinear x y) →
    SegMem x p1 p2 ∧ SegMem y p1 p2 ∧ SegMem x q1 q2 ∧ SegMem y q1 q2) ?_ ?_ ?_ ?_ ?_ ?_
  · intro _ h; cases h
  · intro _ _ h; cases h
  · intro _ _ h; cases h
  · intro _ hq1 hq2 hp1 hp2 h
    rw [collinearIntersection_def] at h
    have ha := fun h => (inRect_iff_SegMem hq1).mp h
    have hb := fun h => (inRect_iff_SegMem hq2).mp h
    have hc := fun h => (inRect_iff_SegMem hp1).mp h
    have hd := fun h => (inRect_iff_SegMem hp2).mp h
    rcases colTable_collinear h with ⟨ex, ey, b1, b2⟩ | ⟨ex, ey, b1, b2⟩ | ⟨ex, ey, b1, b2, _⟩ |
      ⟨ex, ey, b1, b2, _⟩ | ⟨ex, ey, b1, b2, _⟩ | ⟨ex, ey, b1, b2, _⟩ <;> rw [ex, ey]
    · exact ⟨ha b1, hb b2, SegMem_left _ _, SegMem_right _ _⟩
    · exact ⟨SegMem_left _ _, SegMem_right _ _, hc b1, hd b2⟩
    · exact ⟨ha b1, SegMem_left _ _, SegMem_left _ _, hc b2⟩
    · exact ⟨ha b1, SegMem_right _ _, SegMem_left _ _, hd b2⟩
    · exact ⟨hb b1, SegMem_left _ _, SegMem_right _ _, hc b2⟩
    · exact ⟨hb b1, SegMem_right _ _, SegMem_right _ _, hd b2⟩
  · intro _ _ _ _ _ h
    injection h with h; cases h
  · intro _ _ _ _ _ _ _ h
    injection h with h; cases h

example : lineCoord ⟨0, 0⟩ ⟨2, 2⟩ ⟨1, 1⟩ = true ∧ lineCoord ⟨0, 0⟩ ⟨2, 2⟩ ⟨2, 2⟩ = true ∧
    lineCoord ⟨1, 1⟩ ⟨3, 3⟩ ⟨1, 1⟩ = true ∧ lineCoord ⟨1, 1⟩ ⟨3, 3⟩ ⟨2, 2⟩ = true :=
  li_collinear_sub _ _ _ _ _ _ ex_collinear

/-- [T] a collinear answer happens only when all four end points are on one line. -/
theorem li_collinear_all_collinear (p1 p2 q1 q2 x y : Pt)
    (h : lineIntersection p1 p2 q1 q2 = some (.collinear x y)) :
    orient p1 p2 q1 = .col ∧ orient p1 p2 q2 = .col ∧ orient q1 q2 p1 = .col ∧ orient q1 q2 p2 = .col := by
  simp only [orient_col_iff]
  revert h
  refine li_cases p1 p2 q1 q2 (fun r => r = some (.collinear x y) →
    cross p1 p2 q1 = 0 ∧ cross p1 p2 q2 = 0 ∧ cross q1 q2 p1 = 0 ∧ cross q1 q2 p2 = 0) ?_ ?_ ?_ ?_ ?_ ?_
  · intro _ h; cases h
  · intro _ _ h; cases h
  · intro _ _ h; cases h
  · intro _ a b c d _; exact ⟨a, b, c, d⟩
  · intro _ _ _ _ _ h
    injection h with h; cases h
  · intro _ _ _ _ _ _ _ h
    injection h with h; cases h

example : orient ⟨0, 0⟩ ⟨2, 2⟩ ⟨1, 1⟩ = .col ∧ orient ⟨0, 0⟩ ⟨2, 2⟩ ⟨3, 3⟩ = .col ∧
    orient ⟨1, 1⟩ ⟨3, 3⟩ ⟨0, 0⟩ = .col ∧ orient ⟨1, 1⟩ ⟨3, 3⟩ ⟨2, 2⟩ = .col :=
  li_collinear_all_collinear _ _ _ _ _ _ ex_collinear

/-- [T] For two segments of positive length a collinear overlap is never a single point.
Full statement (no hypothesis on the operands): `= some (.collinear x y) → x ≠ y`; it is false on
the pinned code for a zero-length operand lying on the other segment (known finding K12, witness
`li_zero_length_witness`). -/
theorem li_collinear_nondegenerate_partial (p1 p2 q1 q2 x y : Pt) (hp : p1 ≠ p2) (hq : q1 ≠ q2)
    (h : lineIntersection p1 p2 q1 q2 = some (.collinear x y)) : x ≠ y := by
  revert h
  refine li_cases p1 p2 q1 q2 (fun r => r = some (.collinear x y) → x ≠ y) ?_ ?_ ?_ ?_ ?_ ?_
  · intro _ h; cases h
  · intro _ _ h; cases h
  · intro _ _ h; cases h
  · intro _ _ _ _ _ h
    rw [collinearIntersection_def] at h
    rcases colTable_collinear h with ⟨ex, ey, _, _⟩ | ⟨ex, ey, _, _⟩ | ⟨ex, ey, _, _, ne⟩ |
      ⟨ex, ey, _, _, ne⟩ | ⟨ex, ey, _, _, ne⟩ | ⟨ex, ey, _, _, ne⟩ <;> rw [ex, ey]
    · exact hq
    · exact hp
    all_goals exact ne
  · intro _ _ _ _ _ h
    injection h with h; cases h
  · intro _ _ _ _ _ _ _ h
    injection h with h; cases h

example : (⟨1, 1⟩ : Pt) ≠ ⟨2, 2⟩ :=
  li_collinear_nondegenerate_partial _ _ _ _ _ _ (by simp) (by simp) ex_collinear

/-- [T] witness of known finding K12: a zero-length operand lying on the other segment yields a
degenerate `Collinear` answer instead of an improper `SinglePoint`. -/
theorem li_zero_length_witness :
    lineIntersection ⟨1, 1⟩ ⟨1, 1⟩ ⟨0, 0⟩ ⟨2, 2⟩ = some (.collinear ⟨1, 1⟩ ⟨1, 1⟩) := by
  norm_num [lineIntersection, lineBBox, SM.rectNew, rectRect, orient, cross, collinearIntersection,
    rectCoord]
  simp

/-- [T] both hypotheses of `li_collinear_nondegenerate_partial` are needed, each on its own: a zero-length *first*
operand on a proper second one, and a proper first operand with a zero-length *second* one on it, both give
`Collinear` with `x = y`. Both inputs run through the real code (`C11.li 1 1 1 1 0 0 2 2`, `C11.li 0 0 2 2 1 1 1 1`,
in `corpus/C11.ops`): `collinear 1 1 1 1` in either operand order, as the model says — a defect of geo
(`collinear_intersection` does not special-case a degenerate operand), recorded as open known finding K12;
the full statement `… = some (.collinear x y) → x ≠ y` is false on the pinned code. -/
theorem li_collinear_nondegenerate_partial_witness :
    lineIntersection ⟨1, 1⟩ ⟨1, 1⟩ ⟨0, 0⟩ ⟨2, 2⟩ = some (.collinear ⟨1, 1⟩ ⟨1, 1⟩) ∧
    lineIntersection ⟨0, 0⟩ ⟨2, 2⟩ ⟨1, 1⟩ ⟨1, 1⟩ = some (.collinear ⟨1, 1⟩ ⟨1, 1⟩) := by
  refine ⟨li_zero_length_witness, ?_⟩
  norm_num [lineIntersection, lineBBox, SM.rectNew, rectRect, orient, cross, collinearIntersection,
    rectCoord]
  simp

/-- [T] a single point answer is the *only* common point of the two segments
(`S p ∩ S q = {x}`). -/
theorem li_single_exact (p1 p2 q1 q2 x : Pt) (f : Bool)
    (h : lineIntersection p1 p2 q1 q2 = some (.single x f)) (z : Pt) :
    (SegMem z p1 p2 ∧ SegMem z q1 q2) ↔ z = x := by
  obtain ⟨hx1, hx2⟩ := li_single_on_both p1 p2 q1 q2 x f h
  rw [lineCoord_iff] at hx1 hx2
  refine ⟨?_, fun e => by rw [e]; exact ⟨hx1, hx2⟩⟩
  rintro ⟨hz1, hz2⟩
  revert h
  refine li_cases p1 p2 q1 q2 (fun r => r = some (.single x f) → z = x) ?_ ?_ ?_ ?_ ?_ ?_
  · intro _ h; cases h
  · intro _ _ h; cases h
  · intro _ _ h; cases h
  · intro _ a b c d h; exact col_single_exact a b c d h z hz1 hz2
  · intro _ h1 h2 h3 _ _
    exact unique_common (nonparallel h1 h2 h3).1 hz1.cross_eq_zero hz2.cross_eq_zero
      hx1.cross_eq_zero hx2.cross_eq_zero
  · intro _ h1 h2 a _ _ _ _
    exact unique_common (nonparallel h1 h2 (fun h => a h.1)).1 hz1.cross_eq_zero hz2.cross_eq_zero
      hx1.cross_eq_zero hx2.cross_eq_zero

example (z : Pt) (h1 : SegMem z ⟨0, 0⟩ ⟨2, 0⟩) (h2 : SegMem z ⟨1, 0⟩ ⟨1, 1⟩) : z = ⟨1, 0⟩ :=
  (li_single_exact _ _ _ _ _ _ ex_improper z).mp ⟨h1, h2⟩

/-- [T] a collinear answer is *exactly* the common part of the two segments
(`S p ∩ S q = S (x, y)`); together with `li_collinear_nondegenerate_partial` this is the
`→` direction of DESIGN's `li_collinear_iff`. -/
theorem li_collinear_exact (p1 p2 q1 q2 x y : Pt)
    (h : lineIntersection p1 p2 q1 q2 = some (.collinear x y)) (z : Pt) :
    (SegMem z p1 p2 ∧ SegMem z q1 q2) ↔ SegMem z x y := by
  revert h
  refine li_cases p1 p2 q1 q2 (fun r => r = some (.collinear x y) →
    ((SegMem z p1 p2 ∧ SegMem z q1 q2) ↔ SegMem z x y)) ?_ ?_ ?_ ?_ ?_ ?_
  · intro _ h; cases h
  · intro _ _ h; cases h
  · intro _ _ h; cases h
  · intro _ a b c d h; exact col_overlap_exact a b c d h z
  · intro _ _ _ _ _ h
    injection h with h; cases h
  · intro _ _ _ _ _ _ _ h
    injection h with h; cases h

example : SegMem ⟨3/2, 3/2⟩ ⟨0, 0⟩ ⟨2, 2⟩ ∧ SegMem ⟨3/2, 3/2⟩ ⟨1, 1⟩ ⟨3, 3⟩ :=
  (li_collinear_exact _ _ _ _ _ _ ex_collinear _).mpr
    ⟨1/2, by norm_num, by norm_num, by norm_num, by norm_num⟩

/-- [T] the `is_proper` flag is set exactly when the point is none of the four end points
(interior to both segments). -/
theorem li_proper_iff_not_endpoint (p1 p2 q1 q2 x : Pt) (f : Bool)
    (h : lineIntersection p1 p2 q1 q2 = some (.single x f)) :
    f = true ↔ (x ≠ p1 ∧ x ≠ p2 ∧ x ≠ q1 ∧ x ≠ q2) := by
  obtain ⟨hx1, hx2⟩ := li_single_on_both p1 p2 q1 q2 x f h
  rw [lineCoord_iff] at hx1 hx2
  constructor
  · intro hf
    have hp := (li_proper_iff p1 p2 q1 q2 x f h).mp hf
    simp only [Ne, orient_col_iff] at hp
    obtain ⟨a, b, c, d⟩ := hp
    refine ⟨?_, ?_, ?_, ?_⟩ <;> intro e <;> rw [e] at hx1 hx2
    · exact c hx2.cross_eq_zero
    · exact d hx2.cross_eq_zero
    · exact a hx1.cross_eq_zero
    · exact b hx1.cross_eq_zero
  · intro hne
    cases f with
    | true => rfl
    | false =>
      rcases li_improper_endpoint p1 p2 q1 q2 x h with e | e | e | e
      · exact absurd e hne.1
      · exact absurd e hne.2.1
      · exact absurd e hne.2.2.1
      · exact absurd e hne.2.2.2

example : (⟨1, 1⟩ : Pt) ≠ ⟨0, 0⟩ ∧ (⟨1, 1⟩ : Pt) ≠ ⟨2, 2⟩ ∧ (⟨1, 1⟩ : Pt) ≠ ⟨0, 2⟩ ∧ (⟨1, 1⟩ : Pt) ≠ ⟨2, 0⟩ :=
  (li_proper_iff_not_endpoint _ _ _ _ _ _ ex_proper).mp rfl

/-- [T] `line_intersection(p, q)` and `line_intersection(q, p)` agree: same class, equal single
points (same flag), collinear overlaps equal up to direction (`LIEquiv`). -/
theorem li_symm (p1 p2 q1 q2 : Pt) :
    LIEquiv (lineIntersection p1 p2 q1 q2) (lineIntersection q1 q2 p1 p2) := by
  refine li_cases p1 p2 q1 q2 (fun r => LIEquiv r (lineIntersection q1 q2 p1 p2)) ?_ ?_ ?_ ?_ ?_ ?_
  · intro hb
    rw [boxMeet_symm] at hb
    rw [li_none_of_box hb]; trivial
  · intro _ hs
    rw [li_none_of_sameStrict_q hs]; trivial
  · intro _ hs
    rw [li_none_of_sameStrict_p hs]; trivial
  · intro hb hq1 hq2 hp1 hp2
    rw [boxMeet_symm] at hb
    rw [li_eq_col hb hp1 hp2 hq1 hq2, collinearIntersection_def, collinearIntersection_def]
    by_cases hall : pointInRect q1 p1 p2 = true ∧ pointInRect q2 p1 p2 = true ∧
        pointInRect p1 q1 q2 = true ∧ pointInRect p2 q1 q2 = true
    · obtain ⟨ha, hb', hc, hd⟩ := hall
      have := col_all_bits hq1 hq2 hp1 hp2 ha hb' hc hd
      rw [ha, hb', hc, hd, colTable_all, colTable_all]
      exact this
    · exact colTable_symm _ _ _ _ _ _ _ _ hall
  · intro hb h1 h2 h3 h4
    rw [boxMeet_symm] at hb
    have h3' : ¬ (cross q1 q2 p1 = 0 ∧ cross q1 q2 p2 = 0 ∧ cross p1 p2 q1 = 0 ∧ cross p1 p2 q2 = 0) :=
      fun h => h3 ⟨h.2.2.1, h.2.2.2, h.1, h.2.1⟩
    have h4' : cross q1 q2 p1 = 0 ∨ cross q1 q2 p2 = 0 ∨ cross p1 p2 q1 = 0 ∨ cross p1 p2 q2 = 0 := by
      rcases h4 with h | h | h | h
      · exact Or.inr (Or.inr (Or.inl h))
      · exact Or.inr (Or.inr (Or.inr h))
      · exact Or.inl h
      · exact Or.inr (Or.inl h)
    rw [li_eq_improper hb h2 h1 h3' h4']
    obtain ⟨m1, m2⟩ := cascadePt_mem h1 h2 h3 h4
    obtain ⟨m3, m4⟩ := cascadePt_mem h2 h1 h3' h4'
    exact ⟨unique_common (nonparallel h1 h2 h3).1 m1.cross_eq_zero m2.cross_eq_zero
      m4.cross_eq_zero m3.cross_eq_zero, rfl⟩
  · intro hb h1 h2 a b c d
    rw [boxMeet_symm] at hb
    rw [li_eq_proper hb h2 h1 c d a b]
    obtain ⟨m1, m2⟩ := properPoint_mem h1 h2 a
    obtain ⟨m3, m4⟩ := properPoint_mem h2 h1 c
    exact ⟨unique_common (nonparallel h1 h2 (fun h => a h.1)).1 m1.cross_eq_zero m2.cross_eq_zero
      m4.cross_eq_zero m3.cross_eq_zero, rfl⟩

/-- [T] (translator tie) the hand-written model of `collinear_intersection` equals the table regenerated
from the Rust source on this run (`translator/rs2lean.py` → `GeoModel/Gen/CollinearTable.lean`: the ten rows of
the match, in source order, with their guards). If the source's rows, order or guards change, this theorem
stops checking. -/
theorem collinearIntersection_eq_source_table (p1 p2 q1 q2 : Pt) :
    collinearIntersection p1 p2 q1 q2 =
      Gen.collinearTable
        (rectCoord (lineBBox p1 p2).1 (lineBBox p1 p2).2 q1) (rectCoord (lineBBox p1 p2).1 (lineBBox p1 p2).2 q2)
        (rectCoord (lineBBox q1 q2).1 (lineBBox q1 q2).2 p1) (rectCoord (lineBBox q1 q2).1 (lineBBox q1 q2).2 p2)
        p1 p2 q1 q2 := by
  unfold collinearIntersection Gen.collinearTable
  rfl

end Geo.Proofs.C11
