/-
  C18 — Structural invariants of the geometry types survive every API history.

  Property theorems only (helper lemmas are local `private` facts about lists).
  Model: GeoModel/PolygonSM.lean.  Every theorem quantifies over an arbitrary coordinate type
  with decidable equality and over *arbitrary* mutator closures (`RingFn`, `RingsFn`), including
  closures that report `Err`.
-/
import GeoModel.PolygonSM
import GeoModel.Traverse
import GeoModel.Gen.RectGen
import GeoProofs.Lemmas.TRANPolygonSM
import GeoModel.Area
import GeoModel.Affine
import Mathlib.Tactic.NormNum

namespace Geo.Proofs.C18
open Geo Geo.SM

variable {α : Type} [DecidableEq α]

/-! ### LineString::close -/

/-- [T] closing a ring yields a closed ring. -/
theorem close_closed (r : List α) : isClosed (close r) = true := by
  unfold close
  split
  · assumption
  · cases r with
    | nil => simp [isClosed]
    | cons a t =>
      have : (a :: (t ++ [a])).getLast? = some a := by
        rw [← List.cons_append]; exact List.getLast?_concat
      simp [isClosed, this]

/-- [T] a closed ring is left untouched (no coordinate is added). -/
theorem close_of_closed (r : List α) (h : isClosed r = true) : close r = r := by
  simp [close, h]

/-- [T] `close` is idempotent. -/
theorem close_idem (r : List α) : close (close r) = close r :=
  close_of_closed _ (close_closed r)

/-- [T] `close` only ever appends: the original coordinates and their order are kept. -/
theorem close_prefix (r : List α) : r <+: close r := by
  unfold close
  split
  · exact List.prefix_refl r
  · cases r with
    | nil => exact List.prefix_refl _
    | cons a t => exact List.prefix_append _ _

/-! ### The closed-ring invariant over every history -/

private theorem all_closed_map_close (rs : List (List α)) : ∀ r ∈ rs.map close, isClosed r = true := by
  intro r hr
  rcases List.mem_map.1 hr with ⟨r', _, rfl⟩
  exact close_closed r'

/-- [T] `Polygon::new` establishes the invariant for every input (open, empty, any rings). -/
theorem inv_new (e : List α) (is : List (List α)) : SM.Inv (mkNew e is) :=
  ⟨close_closed e, all_closed_map_close is⟩

/-- [T] every API call preserves the invariant, for every closure and on both the `Ok` and the
`Err` exit of the fallible mutators. -/
theorem inv_step (s : State α) (op : Op α) (h : SM.Inv s) : SM.Inv (step s op).1 := by
  cases op with
  | new e is => exact inv_new e is
  | exteriorMut f => exact ⟨close_closed _, h.2⟩
  | tryExteriorMut f => exact ⟨close_closed _, h.2⟩
  | interiorsMut f => exact ⟨h.1, all_closed_map_close _⟩
  | tryInteriorsMut f => exact ⟨h.1, all_closed_map_close _⟩
  | interiorsPush r =>
    refine ⟨h.1, ?_⟩
    intro r' hr'
    simp only [step, List.mem_append, List.mem_singleton] at hr'
    rcases hr' with hr' | rfl
    · exact h.2 r' hr'
    · exact close_closed r

/-- [T] the invariant holds in every state reachable by any finite history, from any
constructor call. -/
theorem inv_run (e : List α) (is : List (List α)) (ops : List (Op α)) :
    SM.Inv (run (mkNew e is) ops) := by
  have key : ∀ (ops : List (Op α)) (s : State α), SM.Inv s → SM.Inv (run s ops) := by
    intro ops
    induction ops with
    | nil => intro s h; exact h
    | cons op ops ih => intro s h; exact ih _ (inv_step s op h)
  exact key ops _ (inv_new e is)

/-- [T] the executable checker used by the driver decides the invariant. -/
theorem invB_iff (s : State α) : invB s = true ↔ SM.Inv s := by
  unfold SM.Inv
  simp [invB, List.all_eq_true]

/-- Non-vacuity: a concrete history with an `Err` exit after a `pop`, over `Nat` coordinates. -/
example : SM.Inv (run (mkNew [1, 2, 3] [[4, 5, 6]])
    [Op.tryExteriorMut (fun r => (r.dropLast, false)),
     Op.tryInteriorsMut (fun rs => (rs.map List.dropLast, false))]) :=
  inv_run _ _ _

/-- [T] witness of the defect that the `fix:` commit repaired: with the *pinned* step function
(error exit returns before `close()`), a closure that pops and returns `Err` leaves an open
exterior ring. -/
theorem try_mut_err_witness :
    ¬ SM.Inv (stepPinned (mkNew [1, 2, 3] ([] : List (List Nat)))
      (Op.tryExteriorMut (fun r => (r.dropLast, false)))).1 := by
  rw [← invB_iff]; decide

/-! ### Rect -/

/-- [T] `Rect::new` yields `min ≤ max` in both components whatever the corner order. -/
theorem rect_new_le (c1 c2 : Pt) :
    (rectNew c1 c2).mn.x ≤ (rectNew c1 c2).mx.x ∧ (rectNew c1 c2).mn.y ≤ (rectNew c1 c2).mx.y := by
  unfold rectNew
  constructor
  · by_cases hx : c1.x < c2.x <;> by_cases hy : c1.y < c2.y <;> simp [hx, hy]
    all_goals first | exact Rat.le_of_lt hx | exact Rat.not_lt.1 hx
  · by_cases hx : c1.x < c2.x <;> by_cases hy : c1.y < c2.y <;> simp [hx, hy]
    all_goals first | exact Rat.le_of_lt hy | exact Rat.not_lt.1 hy

theorem rect_new_valid (c1 c2 : Pt) : rectValid (rectNew c1 c2) = true := by
  have h := rect_new_le c1 c2
  simp [rectValid, h.1, h.2]

/-- [T] `Rect::new` keeps the corner coordinates: its corners are component-wise the two inputs. -/
theorem rect_new_components (c1 c2 : Pt) :
    ((rectNew c1 c2).mn.x = c1.x ∧ (rectNew c1 c2).mx.x = c2.x ∨
     (rectNew c1 c2).mn.x = c2.x ∧ (rectNew c1 c2).mx.x = c1.x) ∧
    ((rectNew c1 c2).mn.y = c1.y ∧ (rectNew c1 c2).mx.y = c2.y ∨
     (rectNew c1 c2).mn.y = c2.y ∧ (rectNew c1 c2).mx.y = c1.y) := by
  unfold rectNew
  by_cases hx : c1.x < c2.x <;> by_cases hy : c1.y < c2.y <;> simp [hx, hy]

/-- [T] a setter that does not panic leaves a valid rectangle. -/
theorem rect_set_ok (r r' : RectS) (op : RectOp) (h : rectStep r op = some r') :
    rectValid r' = true := by
  cases op with
  | setMin c =>
    simp only [rectStep, rectSetMin] at h
    split at h
    · cases h; assumption
    · cases h
  | setMax c =>
    simp only [rectStep, rectSetMax] at h
    split at h
    · cases h; assumption
    · cases h

/-- [T] every state observed along any setter history (up to the first panic) is valid. -/
theorem rect_run_valid (r : RectS) (ops : List RectOp) :
    ∀ r' ∈ (rectRun r ops).1, rectValid r' = true := by
  induction ops generalizing r with
  | nil => intro r' h; simp [rectRun] at h
  | cons op ops ih =>
    intro r' h
    simp only [rectRun] at h
    cases hs : rectStep r op with
    | none => simp [hs] at h
    | some r1 =>
      simp only [hs, List.mem_cons] at h
      rcases h with rfl | h
      · exact rect_set_ok r _ op hs
      · exact ih r1 r' h

/-! ### Conversions keep the coordinates and their order -/

/-- [T] `Polygon::from(Rect)`: the five coordinates, already closed (so `Polygon::new` adds none). -/
theorem rectToPolygonFrom_closed (r : RectS) : close (rectToPolygonFrom r) = rectToPolygonFrom r :=
  close_of_closed _ (by simp [rectToPolygonFrom, isClosed])

theorem rectToPolygon_closed (r : RectS) : close (rectToPolygon r) = rectToPolygon r :=
  close_of_closed _ (by simp [rectToPolygon, isClosed])

/-- [T] `Rect::to_polygon` is `Rect::coords_iter` (the traversal of C19) followed by the closing
coordinate. -/
theorem rectToPolygon_coords (r : RectS) :
    rectToPolygon r = rectCoords r.mn r.mx ++ (rectCoords r.mn r.mx).take 1 := by
  simp [rectToPolygon, rectCoords]

/-- [T] both Rect→Polygon entry points visit the same cyclic sequence of corners (they differ
only in the starting corner). -/
theorem rect_polygons_same_cycle (r : RectS) :
    (rectToPolygon r).dropLast = ((rectToPolygonFrom r).dropLast).rotateLeft 1 := by
  simp [rectToPolygon, rectToPolygonFrom, List.rotateLeft]

/-- [T] `Polygon::from(Triangle)` is exactly `[a, b, c, a]`. -/
theorem triangleToPolygon_coords (a b c : Pt) : triangleToPolygon a b c = [a, b, c, a] := by
  unfold triangleToPolygon
  exact close_of_closed _ (by simp [isClosed])

/-- [T] `LineString::from(Line)` is `[start, end]`. -/
theorem lineToLineString_coords (a b : Pt) : lineToLineString a b = [a, b] := rfl

/-- [T] `Rect::to_lines` are the consecutive pairs of `Rect::to_polygon`. -/
theorem rectToLines_windows (r : RectS) : rectToLines r = windows2 (rectToPolygon r) := by
  simp [rectToLines, rectToPolygon, windows2]

/-! ### tie to the source: `Rect` kernels regenerated from geo-types -/

/-- [E2] The hand-written `Rect` kernels are the terms `translator/rs2lean.py` regenerates on every
run from the bodies of `Rect::new`, `Rect::has_valid_bounds` (the check behind the panics of
`set_min` / `set_max`), `width`, `height` and `center` in geo-types/src/geometry/rect.rs: a changed
comparison, a swapped component or operand in those bodies changes the regenerated definition and
this theorem stops checking. (`width`·`height` is the `Area` of a `Rect`, property C05; `center` is
the origin of the `Scale` / `Skew` / `Rotate` trait layers, property C13.) -/
theorem rect_kernels_eq_source :
    (∀ a b : Pt, rectNew a b = Gen.rectNew a b) ∧
    (∀ r : RectS, rectValid r = Gen.rectHasValidBounds r) ∧
    (∀ r : RectS, rectArea r.mn r.mx = Gen.rectWidth r * Gen.rectHeight r) ∧
    (∀ r : RectS, rectCenter (r.mn, r.mx) = Gen.rectCenter r) := by
  refine ⟨fun a b => ?_, fun _ => rfl, fun _ => rfl, fun r => ?_⟩
  · unfold rectNew Gen.rectNew
    by_cases h1 : a.x < b.x <;> by_cases h2 : a.y < b.y <;> simp [h1, h2]
  · unfold rectCenter Gen.rectCenter
    norm_num

/-! ### tie to the source: the `Polygon` state machine regenerated from geo-types (TRAN) -/

/-- [E2] `LineString::close` (`if !self.is_closed() { self.0.push(self.0[0]) }`), `Polygon::new` (close the exterior, close
every interior in place, build the struct) and the five mutators — `exterior_mut`, `try_exterior_mut` (result saved, ring
re-closed, result returned: the code after the `fix:` commit), `interiors_mut`, `try_interiors_mut`, `interiors_push` — are
regenerated from geo-types/src/geometry/{line_string,polygon}.rs on every run (`Vec::push` = append, `for r in &mut v` =
map, a closure parameter = `RingFn` / `RingsFn`, a `&mut [_]` closure cannot change the length = `fitLen`) and equal
`close`, `mkNew` and every clause of `step`: the invariant theorems above are theorems about terms read off the source. -/
theorem polygon_sm_eq_source {α : Type} [DecidableEq α] [Inhabited α] :
    (∀ r : List α, close r = Gen.lineStringClose r) ∧
    (∀ (e : List α) is, mkNew e is = Gen.polygonNew e is) ∧
    (∀ (s : State α) e is, step s (.new e is) = (Gen.polygonNew e is, true)) ∧
    (∀ (s : State α) f, step s (.exteriorMut f) = (Gen.polygonExteriorMut s f, true)) ∧
    (∀ (s : State α) f, step s (.tryExteriorMut f) = Gen.polygonTryExteriorMut s f) ∧
    (∀ (s : State α) f, step s (.interiorsMut f) = (Gen.polygonInteriorsMut s f, true)) ∧
    (∀ (s : State α) f, step s (.tryInteriorsMut f) = Gen.polygonTryInteriorsMut s f) ∧
    (∀ (s : State α) r, step s (.interiorsPush r) = (Gen.polygonInteriorsPush s r, true)) :=
  ⟨Geo.Proofs.TRANPolygonSM.close_eq, Geo.Proofs.TRANPolygonSM.mkNew_eq,
   fun s => (Geo.Proofs.TRANPolygonSM.step_eq s).1, fun s => (Geo.Proofs.TRANPolygonSM.step_eq s).2.1,
   fun s => (Geo.Proofs.TRANPolygonSM.step_eq s).2.2.1, fun s => (Geo.Proofs.TRANPolygonSM.step_eq s).2.2.2.1,
   fun s => (Geo.Proofs.TRANPolygonSM.step_eq s).2.2.2.2.1, fun s => (Geo.Proofs.TRANPolygonSM.step_eq s).2.2.2.2.2⟩

end Geo.Proofs.C18
