/-
  C02 — Intersects / Contains / Within / coordinate_position agree with DE-9IM.
  Property theorems only. Models: GeoModel/Intersects.lean, GeoModel/Contains.lean,
  GeoModel/Locate.lean; masks: GeoModel/Gen/Masks.lean (regenerated from the Rust source on
  every run by translator/rs2lean.py, so these theorems are re-checked against what the code
  says now); specification: GeoModel/RelateSpec.lean.
-/
import GeoModel.Contains
import GeoModel.Gen.Masks
import GeoModel.Gen.Enums
import GeoProofs.Lemmas.SegmentSpec

namespace Geo.Proofs.C02
open Geo

/-! ### the documented masks (translated from `intersection_matrix.rs`) -/

/-- [T] `is_contains` is the mask `T*****FF*`. -/
theorem isContains_mask (m : IM) :
    Gen.isContains m = true ↔ m.ii ≠ .empty ∧ m.ei = .empty ∧ m.eb = .empty := by
  simp [Gen.isContains, and_assoc]

/-- [T] `is_within` is the mask `T*F**F***`. -/
theorem isWithin_mask (m : IM) :
    Gen.isWithin m = true ↔ m.ii ≠ .empty ∧ m.ie = .empty ∧ m.be = .empty := by
  simp [Gen.isWithin, and_assoc]

/-- [T] `is_intersects` is "not `FF*FF****`". -/
theorem isIntersects_mask (m : IM) :
    Gen.isIntersects m = true ↔ ¬ (m.ii = .empty ∧ m.ib = .empty ∧ m.bi = .empty ∧ m.bb = .empty) := by
  simp only [Gen.isIntersects, Gen.isDisjoint, Bool.not_eq_true', Bool.and_eq_false_iff,
    beq_eq_false_iff_ne, ne_eq, beq_iff_eq]
  by_cases h1 : m.ii = .empty <;> by_cases h2 : m.ib = .empty <;> by_cases h3 : m.bi = .empty <;>
    by_cases h4 : m.bb = .empty <;> simp [h1, h2, h3, h4]

/-- [T] within is contains on the transposed matrix. -/
theorem isWithin_transpose (m : IM) : Gen.isWithin m = Gen.isContains m.transpose := by
  cases m; rfl

/-- [T] intersects is invariant under transposition (so the *specification* is symmetric). -/
theorem isIntersects_transpose (m : IM) : Gen.isIntersects m.transpose = Gen.isIntersects m := by
  cases m
  simp only [Gen.isIntersects, Gen.isDisjoint, IM.transpose]
  rw [Bool.and_right_comm (_ == Dim.empty) (_ == Dim.empty) (_ == Dim.empty)]

/-- [T] the enum declaration orders the model relies on (`derive(Ord)` makes them semantics) are
the ones in the source today. -/
theorem enum_orders :
    Gen.orientationOrder = ["CounterClockwise", "Clockwise", "Collinear"] ∧
    Gen.dimensionsOrder = ["Empty", "ZeroDimensional", "OneDimensional", "TwoDimensional"] ∧
    Gen.coordPosOrder = ["OnBoundary", "Inside", "Outside"] := by
  exact ⟨rfl, rfl, rfl⟩

/-! ### `Within` -/

/-- [T] `within(a, b)` is `contains(b, a)` (the blanket impl). -/
theorem within_def (a b : Geom) : withinM a b = containsM b a := rfl

/-! ### symmetry of the kernels -/

/-- [T] `Line × Line` intersects is symmetric (through the point-set characterisation). -/
theorem lineLine_symm (a b c d : Pt) : lineLine a b c d = lineLine c d a b :=
  Geo.Proofs.Kernel.lineLine_symm a b c d

/-- [T] `Rect × Rect` intersects is symmetric. -/
theorem rectRect_symm (amn amx bmn bmx : Pt) : rectRect amn amx bmn bmx = rectRect bmn bmx amn amx := by
  unfold rectRect
  by_cases h1 : amx.x < bmn.x <;> by_cases h2 : amx.y < bmn.y <;> by_cases h3 : amn.x > bmx.x <;>
    by_cases h4 : amn.y > bmx.y <;> simp [h1, h2, h3, h4]

/-- [T] point-on-segment is the point-set statement. -/
theorem lineCoord_iff (a b p : Pt) : lineCoord a b p = true ↔ Geo.Proofs.Kernel.SegMem p a b :=
  Geo.Proofs.Kernel.lineCoord_iff a b p

/-- [T] `Line × Line` intersects ⇔ the two segments share a point. -/
theorem lineLine_iff (a b c d : Pt) :
    lineLine a b c d = true ↔ ∃ p, Geo.Proofs.Kernel.SegMem p a b ∧ Geo.Proofs.Kernel.SegMem p c d :=
  Geo.Proofs.Kernel.lineLine_iff a b c d

end Geo.Proofs.C02
