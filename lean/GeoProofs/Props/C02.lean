/-
  C02 — Intersects / Contains / Within / coordinate_position agree with DE-9IM.
  Property theorems only. Models: GeoModel/Intersects.lean, GeoModel/Contains.lean,
  GeoModel/Locate.lean; masks: GeoModel/Gen/Masks.lean (regenerated from the Rust source on
  every run by translator/rs2lean.py, so these theorems are re-checked against what the code
  says now); specification: GeoModel/RelateSpec.lean.
-/
import GeoProofs.Lemmas.GenKernel
import GeoProofs.Lemmas.TRANCoordPos
import GeoProofs.Lemmas.TRANArea
import GeoModel.Contains
import GeoModel.Gen.Masks
import GeoModel.Gen.Enums
import GeoProofs.Lemmas.SegmentSpec
import GeoProofs.Lemmas.LocateLemmas
import GeoProofs.Lemmas.C02QContains
import GeoProofs.Lemmas.C02QWinding
import GeoProofs.Lemmas.C02QHoles
import GeoProofs.Lemmas.C02QPerturb
import GeoProofs.Lemmas.WINDHoles
import GeoProofs.Lemmas.C02XTable
import GeoProofs.Lemmas.C02XAreal
import GeoProofs.Lemmas.C02YPairs
import GeoProofs.Lemmas.C02YContains
import GeoProofs.Lemmas.C02YPointSpec
import GeoProofs.Lemmas.C02YLinear
import GeoProofs.Lemmas.C02YRect
import GeoProofs.Lemmas.C02YLoop
import GeoProofs.Lemmas.C02ZPairs
import GeoProofs.Lemmas.C02ZRectPoly

namespace Geo.Proofs.C02
open Geo

/-! ### the documented masks (translated from `intersection_matrix.rs`) -/

/-- [T] `is_contains` is the mask `T*****FF*`. -/
theorem isContains_mask (m : IM) :
    Gen.isContains m = true ↔ m.ii ≠ .empty ∧ m.ei = .empty ∧ m.eb = .empty := by
  simp [Gen.isContains, and_assoc]

/-- [T] `is_within` is the mask `T*F**F***`. -/
theorem isWithin_mask (m : IM) :
    Gen.isWithin m = true ↔ m.ii ≠ .empty ∧ m.ie = .empty ∧ m.be = .empty := by
  simp [Gen.isWithin, and_assoc]

/-- [T] `is_intersects` is "not `FF*FF****`". -/
theorem isIntersects_mask (m : IM) :
    Gen.isIntersects m = true ↔ ¬ (m.ii = .empty ∧ m.ib = .empty ∧ m.bi = .empty ∧ m.bb = .empty) := by
  simp only [Gen.isIntersects, Gen.isDisjoint, Bool.not_eq_true', Bool.and_eq_false_iff,
    beq_eq_false_iff_ne, ne_eq, beq_iff_eq]
  by_cases h1 : m.ii = .empty <;> by_cases h2 : m.ib = .empty <;> by_cases h3 : m.bi = .empty <;>
    by_cases h4 : m.bb = .empty <;> simp [h1, h2, h3, h4]

/-- [T] within is contains on the transposed matrix. -/
theorem isWithin_transpose (m : IM) : Gen.isWithin m = Gen.isContains m.transpose := by
  cases m; rfl

/-- [T] intersects is invariant under transposition (so the *specification* is symmetric). -/
theorem isIntersects_transpose (m : IM) : Gen.isIntersects m.transpose = Gen.isIntersects m := by
  cases m
  simp only [Gen.isIntersects, Gen.isDisjoint, IM.transpose]
  rw [Bool.and_right_comm (_ == Dim.empty) (_ == Dim.empty) (_ == Dim.empty)]

/-- [T] the enum declaration orders the model relies on (`derive(Ord)` makes them semantics) are
the ones in the source today. -/
theorem enum_orders :
    Gen.orientationOrder = ["CounterClockwise", "Clockwise", "Collinear"] ∧
    Gen.dimensionsOrder = ["Empty", "ZeroDimensional", "OneDimensional", "TwoDimensional"] ∧
    Gen.coordPosOrder = ["OnBoundary", "Inside", "Outside"] := by
  exact ⟨rfl, rfl, rfl⟩

/-! ### `Within` -/

/-- [T] `within(a, b)` is `contains(b, a)` (the blanket impl). -/
theorem within_def (a b : Geom) : withinM a b = containsM b a := rfl

/-! ### symmetry of the kernels -/

/-- [T] `Line × Line` intersects is symmetric (through the point-set characterisation). -/
theorem lineLine_symm (a b c d : Pt) : lineLine a b c d = lineLine c d a b :=
  Geo.Proofs.Kernel.lineLine_symm a b c d

/-- [T] `Rect × Rect` intersects is symmetric. -/
theorem rectRect_symm (amn amx bmn bmx : Pt) : rectRect amn amx bmn bmx = rectRect bmn bmx amn amx := by
  unfold rectRect
  by_cases h1 : amx.x < bmn.x <;> by_cases h2 : amx.y < bmn.y <;> by_cases h3 : amn.x > bmx.x <;>
    by_cases h4 : amn.y > bmx.y <;> simp [h1, h2, h3, h4]

/-- [T] point-on-segment is the point-set statement. -/
theorem lineCoord_iff (a b p : Pt) : lineCoord a b p = true ↔ Geo.Proofs.Kernel.SegMem p a b :=
  Geo.Proofs.Kernel.lineCoord_iff a b p

/-- [T] `Line × Line` intersects ⇔ the two segments share a point. -/
theorem lineLine_iff (a b c d : Pt) :
    lineLine a b c d = true ↔ ∃ p, Geo.Proofs.Kernel.SegMem p a b ∧ Geo.Proofs.Kernel.SegMem p c d :=
  Geo.Proofs.Kernel.lineLine_iff a b c d

/-! ### the two winding computations agree -/

/-- [T] geo's winding loop (`coord_pos_relative_to_ring`), when it does not stop at a boundary hit,
adds up exactly the increments of the specification's `windingE` (both are Sunday's algorithm: the
branch conditions `s.y ≤ p.y`, `e.y ≥ p.y ∧ e.y ≠ p.y`, orientation sign coincide edge by edge). -/
theorem ringWinding_eq (p : Pt) (es : List (Pt × Pt)) (w w' : Int)
    (h : ringWinding p es w = some w') :
    w' = w + (es.map (fun se => Loc.specInc (EPt.ofPt p) se.1 se.2)).sum :=
  Loc.ringWinding_eq p es w w' h

example : (12 : Int) = 11 + ([((⟨0, 0⟩ : Pt), (⟨4, 0⟩ : Pt)), (⟨4, 0⟩, ⟨0, 4⟩), (⟨0, 4⟩, ⟨0, 0⟩)].map
    (fun se => Loc.specInc (EPt.ofPt ⟨1, 1⟩) se.1 se.2)).sum :=
  ringWinding_eq ⟨1, 1⟩ _ 11 12 (by decide +kernel)

/-- [T] the specification's winding number is the sum of these increments. -/
theorem windingE_eq_sum (p : EPt) (ring : List Pt) :
    windingE p ring = ((segs ring).map (fun se => Loc.specInc p se.1 se.2)).sum :=
  Loc.windingE_eq_sum p ring

/-- [T] off the ring, `coord_pos_relative_to_ring` answers `Inside` exactly when the
specification's winding number is non-zero. -/
theorem ringPos_eq_spec (p : Pt) (ring : List Pt) (h2 : 2 ≤ ring.length)
    (hb : ringPos p ring ≠ .onBoundary) :
    ringPos p ring = .inside ↔ windingE (EPt.ofPt p) ring ≠ 0 :=
  Loc.ringPos_eq_spec p ring h2 hb

example : ringPos ⟨1, 1⟩ [⟨0, 0⟩, ⟨4, 0⟩, ⟨0, 4⟩, ⟨0, 0⟩] = .inside ↔
    windingE (EPt.ofPt ⟨1, 1⟩) [⟨0, 0⟩, ⟨4, 0⟩, ⟨0, 4⟩, ⟨0, 0⟩] ≠ 0 :=
  ringPos_eq_spec _ _ (by simp) (by decide +kernel)

/-! ### `coordinate_position` is the specification's point location -/

/-- [T] Point. -/
theorem coordPos_point_eq_locate (q p : Pt) : coordPos (.point q) p = locate (.point q) p :=
  Loc.coordPos_point_eq_locate q p

/-- [T] MultiPoint. -/
theorem coordPos_multiPoint_eq_locate (qs : List Pt) (p : Pt) :
    coordPos (.multiPoint qs) p = locate (.multiPoint qs) p :=
  Loc.coordPos_multiPoint_eq_locate qs p

/-- [T] Line: end points are boundary, other points of the segment interior (a zero-length line is
its point). -/
theorem coordPos_line_eq_locate (a b p : Pt) : coordPos (.line a b) p = locate (.line a b) p :=
  Loc.coordPos_line_eq_locate a b p

/-- [T] LineString, open or closed, any number of coordinates; includes soundness of the
bounding-box early return (a point outside the bounding box lies on no segment). -/
theorem coordPos_lineString_eq_locate (cs : List Pt) (p : Pt) :
    coordPos (.lineString cs) p = locate (.lineString cs) p :=
  Loc.coordPos_lineString_eq_locate cs p

/-- [T] `LineString: Intersects<Coord>` with its bounding-box rejection is "on some segment". -/
theorem lineStringCoord_eq (cs : List Pt) (p : Pt) : lineStringCoord cs p = onAnySeg p (segs cs) :=
  Loc.lineStringCoord_eq cs p

/-- [T] Rect with positive width and height: the four comparisons are the location relative to the
ring of `Rect::to_polygon`. -/
theorem coordPos_rect_eq_locate (mn mx p : Pt) (hx : mn.x < mx.x) (hy : mn.y < mx.y) :
    coordPos (.rect mn mx) p = locate (.rect mn mx) p :=
  Loc.coordPos_rect_eq_locate mn mx p hx hy

example : coordPos (.rect ⟨0, 0⟩ ⟨2, 3⟩) ⟨2, 1⟩ = locate (.rect ⟨0, 0⟩ ⟨2, 3⟩) ⟨2, 1⟩ :=
  coordPos_rect_eq_locate _ _ _ (by norm_num) (by norm_num)

/-- [T] Triangle (after the fix), for every vertex order, degenerate or not: the strict same-sign
test of the three edge orientations is "winding number of `[a, b, c, a]` non-zero" off the edges. -/
theorem coordPos_triangle_eq_locate (a b c p : Pt) :
    coordPos (.triangle a b c) p = locate (.triangle a b c) p :=
  Loc.coordPos_triangle_eq_locate a b c p

/-- [T] Polygon with closed rings, at a query point `p` for which (H1) if `p` is on a hole ring it
is not outside the shell ring, and (H2) if `p` is strictly inside a hole it is on no hole ring.
Both hold at every point of an OGC-valid polygon (holes lie in the closed shell; hole rings do not
enter each other's interior). Full statement (no H1/H2): false, the Rust loop returns at the shell
/ first containing hole without looking at the remaining rings. -/
theorem coordPos_polygon_eq_locate_partial (poly : Poly) (p : Pt)
    (hext : poly.ext.head? = poly.ext.getLast? ∧ 2 ≤ poly.ext.length)
    (hints : ∀ h ∈ poly.ints, h.head? = h.getLast? ∧ 2 ≤ h.length)
    (H1 : ∀ h ∈ poly.ints, onAnySeg p (segs h) = true → ringPos p poly.ext ≠ .outside)
    (H2 : ∀ h ∈ poly.ints, ∀ h' ∈ poly.ints, ringPos p h = .inside → onAnySeg p (segs h') = false) :
    coordPos (.polygon poly) p = locate (.polygon poly) p :=
  Loc.coordPos_polygon_eq_locate_at poly p hext hints H1 H2

example : coordPos (.polygon ⟨[⟨0, 0⟩, ⟨10, 0⟩, ⟨10, 10⟩, ⟨0, 10⟩, ⟨0, 0⟩],
      [[⟨2, 2⟩, ⟨4, 2⟩, ⟨4, 4⟩, ⟨2, 4⟩, ⟨2, 2⟩], [⟨6, 6⟩, ⟨8, 6⟩, ⟨8, 8⟩, ⟨6, 8⟩, ⟨6, 6⟩]]⟩) ⟨4, 3⟩ =
    locate (.polygon ⟨[⟨0, 0⟩, ⟨10, 0⟩, ⟨10, 10⟩, ⟨0, 10⟩, ⟨0, 0⟩],
      [[⟨2, 2⟩, ⟨4, 2⟩, ⟨4, 4⟩, ⟨2, 4⟩, ⟨2, 2⟩], [⟨6, 6⟩, ⟨8, 6⟩, ⟨8, 8⟩, ⟨6, 8⟩, ⟨6, 6⟩]]⟩) ⟨4, 3⟩ :=
  coordPos_polygon_eq_locate_partial _ _ (by decide +kernel) (by decide +kernel) (by decide +kernel)
    (by decide +kernel)

/-- [T] MultiPolygon (after the fix: one boundary hit when any member reports boundary): if the
members' positions are the specification's and no point is interior to one member and on the
boundary of another (valid MultiPolygon), the collection's position is the specification's. -/
theorem coordPos_multiPolygon_eq_locate_partial (ps : List Poly) (p : Pt)
    (hm : ∀ m ∈ ps, coordPos (.polygon m) p = locate (.polygon m) p)
    (hd : ∀ m ∈ ps, ∀ m' ∈ ps, locate (.polygon m) p = .inside → locate (.polygon m') p ≠ .onBoundary) :
    coordPos (.multiPolygon ps) p = locate (.multiPolygon ps) p :=
  Loc.coordPos_multiPolygon_eq_locate_of ps p hm hd

example : coordPos (.multiPolygon [⟨[⟨0, 0⟩, ⟨4, 0⟩, ⟨4, 4⟩, ⟨0, 4⟩, ⟨0, 0⟩], []⟩,
      ⟨[⟨4, 4⟩, ⟨8, 4⟩, ⟨8, 8⟩, ⟨4, 8⟩, ⟨4, 4⟩], []⟩]) ⟨4, 4⟩ =
    locate (.multiPolygon [⟨[⟨0, 0⟩, ⟨4, 0⟩, ⟨4, 4⟩, ⟨0, 4⟩, ⟨0, 0⟩], []⟩,
      ⟨[⟨4, 4⟩, ⟨8, 4⟩, ⟨8, 8⟩, ⟨4, 8⟩, ⟨4, 4⟩], []⟩]) ⟨4, 4⟩ :=
  coordPos_multiPolygon_eq_locate_partial _ _ (by decide +kernel) (by decide +kernel)

/-- [T] witness of known finding K9: the end point shared by two open members is interior by the
mod-2 rule, the MultiLineString clause (members add to one shared counter) answers `Outside`. -/
theorem coordPos_mls_ne_locate_witness :
    coordPos (.multiLineString [[⟨0, 0⟩, ⟨1, 0⟩], [⟨1, 0⟩, ⟨2, 0⟩]]) ⟨1, 0⟩ = .outside ∧
    locate (.multiLineString [[⟨0, 0⟩, ⟨1, 0⟩], [⟨1, 0⟩, ⟨2, 0⟩]]) ⟨1, 0⟩ = .inside := by
  decide +kernel

/-- [T] MultiLineString away from K9: when `p` is an end point of at most one open member, the
position is the specification's. Full statement (no hypothesis): false, see
`coordPos_mls_ne_locate_witness`. -/
theorem coordPos_mls_eq_locate_partial (ls : List (List Pt)) (p : Pt)
    (h : endpointCount p ls ≤ 1) :
    coordPos (.multiLineString ls) p = locate (.multiLineString ls) p :=
  Loc.coordPos_mls_eq_locate_of_count ls p h

example : coordPos (.multiLineString [[⟨0, 0⟩, ⟨1, 0⟩], [⟨1, 0⟩, ⟨2, 0⟩]]) ⟨2, 0⟩ =
    locate (.multiLineString [[⟨0, 0⟩, ⟨1, 0⟩], [⟨1, 0⟩, ⟨2, 0⟩]]) ⟨2, 0⟩ :=
  coordPos_mls_eq_locate_partial _ _ (by decide +kernel)

/-! ### folds, bounding-box rejection, symmetry of the dispatch -/

/-- [T] `has_disjoint_bboxes` is sound for the segment kernel: if the bounding boxes of two
LineStrings do not intersect, no segment of one meets a segment of the other. -/
theorem disjointBB_lineString_sound (cs ds : List Pt)
    (h : disjointBB (.lineString cs) (.lineString ds) = true) :
    ∀ s ∈ segs cs, ∀ t ∈ segs ds, lineLine s.1 s.2 t.1 t.2 = false :=
  Loc.disjointBB_lineString_sound cs ds h

example : lineLine ⟨0, 0⟩ ⟨1, 1⟩ ⟨3, 0⟩ ⟨4, 5⟩ = false :=
  disjointBB_lineString_sound [⟨0, 0⟩, ⟨1, 1⟩] [⟨3, 0⟩, ⟨4, 5⟩] (by decide +kernel)
    (⟨0, 0⟩, ⟨1, 1⟩) (by simp [segs]) (⟨3, 0⟩, ⟨4, 5⟩) (by simp [segs])

/-- [T] `LineString: Intersects<Line>`: the bounding-box early return loses nothing — the result
is `any` of the segment kernel. -/
theorem lsLine_eq (cs : List Pt) (a b : Pt) :
    lsLine cs a b = (segs cs).any (fun s => lineLine s.1 s.2 a b) :=
  Loc.lsLine_eq cs a b

/-- [T] `MultiPoint: Intersects<G>` is `any` over its points. -/
theorem intersectsM_multiPoint (cs : List Pt) (b : Geom) :
    intersectsM (.multiPoint cs) b = cs.any (fun c => intersectsM (.point c) b) :=
  Loc.intersectsM_multiPoint cs b

/-- [T] `LineString: Intersects<G>`: bounding-box test, then `any` over its segments. -/
theorem intersectsM_lineString (cs : List Pt) (b : Geom) :
    intersectsM (.lineString cs) b =
      (!disjointBB (.lineString cs) b && (segs cs).any (fun s => intersectsM (.line s.1 s.2) b)) :=
  Loc.intersectsM_lineString cs b

/-- [T] `MultiPolygon: Intersects<G>`: bounding-box test, then `any` over its polygons. -/
theorem intersectsM_multiPolygon (ps : List Poly) (b : Geom) :
    intersectsM (.multiPolygon ps) b =
      (!disjointBB (.multiPolygon ps) b && ps.any (fun p => intersectsM (.polygon p) b)) :=
  Loc.intersectsM_multiPolygon ps b

/-- [T] `GeometryCollection: Intersects<G>`: bounding-box test, then `any` over its members. -/
theorem intersectsM_collection (gs : List Geom) (b : Geom) :
    intersectsM (.collection gs) b =
      (!disjointBB (.collection gs) b && gs.any (fun g => intersectsM g b)) :=
  Loc.intersectsM_collection gs b

/-- [T] `intersects` is symmetric on every pair of primitives (Point, Line, Rect, Triangle,
Polygon) except Triangle × Triangle and Polygon × Polygon (`Loc.kernelPair`): both dispatch orders
reach the same kernel term, up to the proved symmetry of Coord × Coord, Line × Line and Rect × Rect.
Full statement (all pairs): the two excluded pairs run the asymmetric `Polygon × Polygon` body
([C] only). -/
theorem intersectsM_symm_partial (a b : Geom) (h : Loc.kernelPair a b = true) :
    intersectsM a b = intersectsM b a :=
  Loc.intersectsM_symm_kernel a b h

example : intersectsM (.line ⟨0, 0⟩ ⟨2, 2⟩) (.rect ⟨1, 1⟩ ⟨3, 3⟩) =
    intersectsM (.rect ⟨1, 1⟩ ⟨3, 3⟩) (.line ⟨0, 0⟩ ⟨2, 2⟩) :=
  intersectsM_symm_partial _ _ rfl

/-- [T] `MultiPoint × primitive` is symmetric. -/
theorem intersectsM_symm_multiPoint (cs : List Pt) (b : Geom) (h : Loc.prim b = true) :
    intersectsM (.multiPoint cs) b = intersectsM b (.multiPoint cs) :=
  Loc.intersectsM_symm_multiPoint cs b h

example : intersectsM (.multiPoint [⟨0, 0⟩, ⟨1, 1⟩]) (.triangle ⟨0, 0⟩ ⟨4, 0⟩ ⟨0, 4⟩) =
    intersectsM (.triangle ⟨0, 0⟩ ⟨4, 0⟩ ⟨0, 4⟩) (.multiPoint [⟨0, 0⟩, ⟨1, 1⟩]) :=
  intersectsM_symm_multiPoint _ _ rfl

/-! ### masks on the DE-9IM specification against a Point, and the hand-written bodies -/

/-- [T] For every geometry `A` (collections included): the mask `T*****FF*` on the DE-9IM
specification of `(A, Point c)` holds exactly when `c` is located in the interior of `A` — the only
atoms of the arrangement in the Interior/Boundary columns of a point are located at the point. -/
theorem isContains_relate_point (a : Geom) (c : Pt) :
    Gen.isContains (relateSpec a (.point c)) = (locate a c == .inside) :=
  Loc.isContains_relate_point a c

/-- [T] … and "not `FF*FF****`" holds exactly when `c` is not in the exterior of `A`. -/
theorem isIntersects_relate_point (a : Geom) (c : Pt) :
    Gen.isIntersects (relateSpec a (.point c)) = (locate a c != .outside) :=
  Loc.isIntersects_relate_point a c

/-- [T] hand-written `Contains`, Point × Point = the mask on the specification. -/
theorem containsM_point_point (p q : Pt) :
    containsM (.point p) (.point q) = Gen.isContains (relateSpec (.point p) (.point q)) :=
  Loc.containsM_point_point p q

/-- [T] MultiPoint × Point. -/
theorem containsM_multiPoint_point (ps : List Pt) (q : Pt) :
    containsM (.multiPoint ps) (.point q) = Gen.isContains (relateSpec (.multiPoint ps) (.point q)) :=
  Loc.containsM_multiPoint_point ps q

/-- [T] Line × Point (`lineContainsCoord`; degenerate lines included). -/
theorem containsM_line_point (a b c : Pt) :
    containsM (.line a b) (.point c) = Gen.isContains (relateSpec (.line a b) (.point c)) :=
  Loc.containsM_line_point a b c

/-- [T] Rect × Point (strict comparisons), Rect of positive width and height. Full statement
(degenerate Rect): candidate finding K7 of DESIGN.md, outside the stream. -/
theorem containsM_rect_point_partial (mn mx c : Pt) (hx : mn.x < mx.x) (hy : mn.y < mx.y) :
    containsM (.rect mn mx) (.point c) = Gen.isContains (relateSpec (.rect mn mx) (.point c)) :=
  Loc.containsM_rect_point mn mx c hx hy

example : containsM (.rect ⟨0, 0⟩ ⟨2, 3⟩) (.point ⟨1, 1⟩) =
    Gen.isContains (relateSpec (.rect ⟨0, 0⟩ ⟨2, 3⟩) (.point ⟨1, 1⟩)) :=
  containsM_rect_point_partial _ _ _ (by norm_num) (by norm_num)

/-- [T] Triangle × Point (every vertex order, degenerate or not). -/
theorem containsM_triangle_point (a b c p : Pt) :
    containsM (.triangle a b c) (.point p) = Gen.isContains (relateSpec (.triangle a b c) (.point p)) :=
  Loc.containsM_triangle_point a b c p

/-- [T] Polygon × Point under the hypotheses of `coordPos_polygon_eq_locate_partial`. -/
theorem containsM_polygon_point_partial (poly : Poly) (p : Pt)
    (hext : poly.ext.head? = poly.ext.getLast? ∧ 2 ≤ poly.ext.length)
    (hints : ∀ h ∈ poly.ints, h.head? = h.getLast? ∧ 2 ≤ h.length)
    (H1 : ∀ h ∈ poly.ints, onAnySeg p (segs h) = true → ringPos p poly.ext ≠ .outside)
    (H2 : ∀ h ∈ poly.ints, ∀ h' ∈ poly.ints, ringPos p h = .inside → onAnySeg p (segs h') = false) :
    containsM (.polygon poly) (.point p) = Gen.isContains (relateSpec (.polygon poly) (.point p)) :=
  Loc.containsM_polygon_point poly p (coordPos_polygon_eq_locate_partial poly p hext hints H1 H2)

example : containsM (.polygon ⟨[⟨0, 0⟩, ⟨10, 0⟩, ⟨10, 10⟩, ⟨0, 10⟩, ⟨0, 0⟩],
      [[⟨2, 2⟩, ⟨4, 2⟩, ⟨4, 4⟩, ⟨2, 4⟩, ⟨2, 2⟩]]⟩) (.point ⟨3, 3⟩) =
    Gen.isContains (relateSpec (.polygon ⟨[⟨0, 0⟩, ⟨10, 0⟩, ⟨10, 10⟩, ⟨0, 10⟩, ⟨0, 0⟩],
      [[⟨2, 2⟩, ⟨4, 2⟩, ⟨4, 4⟩, ⟨2, 4⟩, ⟨2, 2⟩]]⟩) (.point ⟨3, 3⟩)) :=
  containsM_polygon_point_partial _ _ (by decide +kernel) (by decide +kernel) (by decide +kernel)
    (by decide +kernel)

/-- [T] `Intersects`, Point × Point = the mask on the specification. -/
theorem intersectsM_point_point (q c : Pt) :
    intersectsM (.point q) (.point c) = Gen.isIntersects (relateSpec (.point q) (.point c)) :=
  Loc.intersectsM_point_point q c

/-- [T] MultiPoint × Point. -/
theorem intersectsM_multiPoint_point (qs : List Pt) (c : Pt) :
    intersectsM (.multiPoint qs) (.point c) = Gen.isIntersects (relateSpec (.multiPoint qs) (.point c)) :=
  Loc.intersectsM_multiPoint_point qs c

/-- [T] Line × Point. -/
theorem intersectsM_line_point (a b c : Pt) :
    intersectsM (.line a b) (.point c) = Gen.isIntersects (relateSpec (.line a b) (.point c)) :=
  Loc.intersectsM_line_point a b c

/-- [T] LineString × Point (bounding-box rejection included). -/
theorem intersectsM_lineString_point (cs : List Pt) (c : Pt) :
    intersectsM (.lineString cs) (.point c) = Gen.isIntersects (relateSpec (.lineString cs) (.point c)) :=
  Loc.intersectsM_lineString_point cs c

/-- [T] Rect × Point, Rect of positive width and height. -/
theorem intersectsM_rect_point_partial (mn mx c : Pt) (hx : mn.x < mx.x) (hy : mn.y < mx.y) :
    intersectsM (.rect mn mx) (.point c) = Gen.isIntersects (relateSpec (.rect mn mx) (.point c)) :=
  Loc.intersectsM_rect_point mn mx c hx hy

example : intersectsM (.rect ⟨0, 0⟩ ⟨2, 3⟩) (.point ⟨2, 1⟩) =
    Gen.isIntersects (relateSpec (.rect ⟨0, 0⟩ ⟨2, 3⟩) (.point ⟨2, 1⟩)) :=
  intersectsM_rect_point_partial _ _ _ (by norm_num) (by norm_num)

/-- [T] Polygon × Point wherever the Polygon position is the specification's (e.g. under the
hypotheses of `coordPos_polygon_eq_locate_partial`). -/
theorem intersectsM_polygon_point_partial (poly : Poly) (p : Pt)
    (h : coordPos (.polygon poly) p = locate (.polygon poly) p) :
    intersectsM (.polygon poly) (.point p) = Gen.isIntersects (relateSpec (.polygon poly) (.point p)) :=
  Loc.intersectsM_polygon_point poly p h

example : intersectsM (.polygon ⟨[⟨0, 0⟩, ⟨4, 0⟩, ⟨0, 4⟩, ⟨0, 0⟩], []⟩) (.point ⟨2, 2⟩) =
    Gen.isIntersects (relateSpec (.polygon ⟨[⟨0, 0⟩, ⟨4, 0⟩, ⟨0, 4⟩, ⟨0, 0⟩], []⟩) (.point ⟨2, 2⟩)) :=
  intersectsM_polygon_point_partial _ _ (by decide +kernel)

/-- [T] Triangle × Point (sorted-orientation window test), non-degenerate triangle. Full statement
(collinear vertices): false — the window test accepts every point of the supporting line. -/
theorem intersectsM_triangle_point_partial (a b c p : Pt) (hD : cross a b c ≠ 0) :
    intersectsM (.triangle a b c) (.point p) =
      Gen.isIntersects (relateSpec (.triangle a b c) (.point p)) :=
  Loc.intersectsM_triangle_point a b c p hD

example : intersectsM (.triangle ⟨0, 0⟩ ⟨4, 0⟩ ⟨0, 4⟩) (.point ⟨2, 2⟩) =
    Gen.isIntersects (relateSpec (.triangle ⟨0, 0⟩ ⟨4, 0⟩ ⟨0, 4⟩) (.point ⟨2, 2⟩)) :=
  intersectsM_triangle_point_partial _ _ _ _ (by norm_num [cross])

/-- [T] witness for the excluded class: on a degenerate triangle the window test accepts a point
of the supporting line that is on no edge. -/
theorem triCoord_degenerate_witness :
    triCoord ⟨0, 0⟩ ⟨1, 0⟩ ⟨2, 0⟩ ⟨5, 0⟩ = true ∧
    locate (.triangle ⟨0, 0⟩ ⟨1, 0⟩ ⟨2, 0⟩) ⟨5, 0⟩ = .outside := by
  decide +kernel

/-- [T] For every geometry `A`: the mask `T*F**F***` on the specification of `(Point c, A)` holds
exactly when `c` is located in the interior of `A`. -/
theorem isWithin_relate_point (a : Geom) (c : Pt) :
    Gen.isWithin (relateSpec (.point c) a) = (locate a c == .inside) :=
  Loc.isWithin_relate_point a c

/-- [T] `Point.is_within(A)` returns what its own mask gives on the specification whenever
`A.contains(Point)` does (so for every `A` of the `containsM_*_point` theorems above). -/
theorem withinM_point_of_contains (a : Geom) (c : Pt)
    (h : containsM a (.point c) = Gen.isContains (relateSpec a (.point c))) :
    withinM (.point c) a = Gen.isWithin (relateSpec (.point c) a) :=
  Loc.withinM_point_of_contains a c h

example : withinM (.point ⟨1, 1⟩) (.triangle ⟨0, 0⟩ ⟨4, 0⟩ ⟨0, 4⟩) =
    Gen.isWithin (relateSpec (.point ⟨1, 1⟩) (.triangle ⟨0, 0⟩ ⟨4, 0⟩ ⟨0, 4⟩)) :=
  withinM_point_of_contains _ _ (containsM_triangle_point _ _ _ _)

/-- [T] (translator tie) the Rect kernels of the model equal the definitions regenerated from the Rust
bodies on this run (`Rect: Intersects<Coord>`, `Rect: Intersects<Rect>`, `Rect: Contains<Coord>`,
`Rect: Contains<Rect>`). -/
theorem rect_kernels_eq_source :
    (∀ mn mx p, rectCoord mn mx p = Gen.rectCoord mn mx p) ∧
    (∀ a b c d, rectRect a b c d = Gen.rectRect a b c d) ∧
    (∀ mn mx p, rectContainsCoord mn mx p = Gen.rectContainsCoord mn mx p) ∧
    (∀ a b c d, rectContainsRect a b c d = Gen.rectContainsRect a b c d) :=
  ⟨Geo.Proofs.GenKernel.rectCoord_eq, Geo.Proofs.GenKernel.rectRect_eq,
   Geo.Proofs.GenKernel.rectContainsCoord_eq, Geo.Proofs.GenKernel.rectContainsRect_eq⟩

/-! ### C02Q: validity discharges H1; LineString / MultiLineString `contains(Point)`; Rect × Rect and
Line × Line `contains` as point-set statements -/

/-- [T] the specification's winding number is constant along a segment `m p` that has no point in
common with any edge of a closed ring (per edge the two increments differ by a potential difference
`φ(start) − φ(end)`, which telescopes along the closed ring). -/
theorem windingE_const (ring : List Pt) (hc : ring.head? = ring.getLast?) (m p : Pt)
    (hdis : ∀ s ∈ segs ring, ¬ ∃ x, Geo.Proofs.Kernel.SegMem x s.1 s.2 ∧ Geo.Proofs.Kernel.SegMem x m p) :
    windingE (EPt.ofPt m) ring = windingE (EPt.ofPt p) ring :=
  Geo.Proofs.C02Q.windingE_const ring hc m p hdis

example : windingE (EPt.ofPt ⟨1, 1⟩) [⟨0, 0⟩, ⟨4, 0⟩, ⟨0, 4⟩, ⟨0, 0⟩] =
    windingE (EPt.ofPt ⟨2, 1⟩) [⟨0, 0⟩, ⟨4, 0⟩, ⟨0, 4⟩, ⟨0, 0⟩] := by decide +kernel

/-- [T] H1 of `coordPos_polygon_eq_locate_partial` from validity: in an OGC-valid polygon
(`polyValid`: simple rings, `BE = F` for every hole against the shell) no point of a hole ring is
`Outside` the shell ring for `coord_pos_relative_to_ring` — vertices of the arrangement and all the
points strictly inside the elementary sub-segments of the hole edges. -/
theorem hole_ring_in_shell (poly : Poly) (hv : polyValid poly = true) (h : List Pt) (hh : h ∈ poly.ints)
    (p : Pt) (hp : onAnySeg p (segs h) = true) : ringPos p poly.ext ≠ .outside :=
  Geo.Proofs.C02Q.hole_ring_in_shell hv hh hp

example : ringPos ⟨4, 3⟩ [⟨0, 0⟩, ⟨10, 0⟩, ⟨10, 10⟩, ⟨0, 10⟩, ⟨0, 0⟩] ≠ .outside :=
  hole_ring_in_shell ⟨[⟨0, 0⟩, ⟨10, 0⟩, ⟨10, 10⟩, ⟨0, 10⟩, ⟨0, 0⟩],
    [[⟨2, 2⟩, ⟨4, 2⟩, ⟨4, 4⟩, ⟨2, 4⟩, ⟨2, 2⟩]]⟩ (by decide +kernel)
    [⟨2, 2⟩, ⟨4, 2⟩, ⟨4, 4⟩, ⟨2, 4⟩, ⟨2, 2⟩] (by simp) ⟨4, 3⟩ (by decide +kernel)

/-- [T] Polygon, OGC-valid (`polyValid`; closed rings and H1 are consequences), at a query point
`p` satisfying H2: if `p` is strictly inside a hole it is on no hole ring. Full statement (no H2):
needs "`II = F` between two holes ⇒ no boundary point of one is interior to the other", which goes
through the *face* atoms (points perturbed by a symbolic infinitesimal) of the specification; not
proved. -/
theorem coordPos_polygon_eq_locate_valid_partial (poly : Poly) (p : Pt) (hv : polyValid poly = true)
    (H2 : ∀ h ∈ poly.ints, ∀ h' ∈ poly.ints, ringPos p h = .inside → onAnySeg p (segs h') = false) :
    coordPos (.polygon poly) p = locate (.polygon poly) p :=
  Geo.Proofs.C02Q.coordPos_polygon_valid poly p hv H2

example : coordPos (.polygon ⟨[⟨0, 0⟩, ⟨10, 0⟩, ⟨10, 10⟩, ⟨0, 10⟩, ⟨0, 0⟩],
      [[⟨2, 2⟩, ⟨4, 2⟩, ⟨4, 4⟩, ⟨2, 4⟩, ⟨2, 2⟩]]⟩) ⟨4, 3⟩ =
    locate (.polygon ⟨[⟨0, 0⟩, ⟨10, 0⟩, ⟨10, 10⟩, ⟨0, 10⟩, ⟨0, 0⟩],
      [[⟨2, 2⟩, ⟨4, 2⟩, ⟨4, 4⟩, ⟨2, 4⟩, ⟨2, 2⟩]]⟩) ⟨4, 3⟩ :=
  coordPos_polygon_eq_locate_valid_partial _ _ (by decide +kernel) (by decide +kernel)

/-- [T] … in particular an OGC-valid polygon with at most one hole needs no hypothesis at all. -/
theorem coordPos_polygon_eq_locate_one_hole (poly : Poly) (p : Pt) (hv : polyValid poly = true)
    (h1 : poly.ints.length ≤ 1) : coordPos (.polygon poly) p = locate (.polygon poly) p := by
  apply coordPos_polygon_eq_locate_valid_partial poly p hv
  intro h hh h' hh' hin
  have hok := (Geo.Proofs.C02Q.polyValid_unpack hv).2.1
  have e : h' = h := by
    match hi : poly.ints, h1 with
    | [], _ => rw [hi] at hh; cases hh
    | [x], _ =>
      rw [hi] at hh hh'
      rw [List.mem_singleton.mp hh, List.mem_singleton.mp hh']
  subst e
  rw [Loc.ringPos_eq_ringLoc p h' (Geo.Proofs.C02Q.ringOK_of_simple (hok h' hh)), Loc.ringLoc_inside_iff] at hin
  exact hin.1

example : coordPos (.polygon ⟨[⟨0, 0⟩, ⟨10, 0⟩, ⟨10, 10⟩, ⟨0, 10⟩, ⟨0, 0⟩],
      [[⟨2, 2⟩, ⟨4, 2⟩, ⟨4, 4⟩, ⟨2, 4⟩, ⟨2, 2⟩]]⟩) ⟨3, 3⟩ =
    locate (.polygon ⟨[⟨0, 0⟩, ⟨10, 0⟩, ⟨10, 10⟩, ⟨0, 10⟩, ⟨0, 0⟩],
      [[⟨2, 2⟩, ⟨4, 2⟩, ⟨4, 4⟩, ⟨2, 4⟩, ⟨2, 2⟩]]⟩) ⟨3, 3⟩ :=
  coordPos_polygon_eq_locate_one_hole _ _ (by decide +kernel) (by decide)

/-- [T] Polygon × Point for an OGC-valid polygon, same hypothesis H2. -/
theorem containsM_polygon_point_valid_partial (poly : Poly) (p : Pt) (hv : polyValid poly = true)
    (H2 : ∀ h ∈ poly.ints, ∀ h' ∈ poly.ints, ringPos p h = .inside → onAnySeg p (segs h') = false) :
    containsM (.polygon poly) (.point p) = Gen.isContains (relateSpec (.polygon poly) (.point p)) :=
  Loc.containsM_polygon_point poly p (coordPos_polygon_eq_locate_valid_partial poly p hv H2)

example : containsM (.polygon ⟨[⟨0, 0⟩, ⟨10, 0⟩, ⟨10, 10⟩, ⟨0, 10⟩, ⟨0, 0⟩],
      [[⟨2, 2⟩, ⟨4, 2⟩, ⟨4, 4⟩, ⟨2, 4⟩, ⟨2, 2⟩]]⟩) (.point ⟨1, 1⟩) =
    Gen.isContains (relateSpec (.polygon ⟨[⟨0, 0⟩, ⟨10, 0⟩, ⟨10, 10⟩, ⟨0, 10⟩, ⟨0, 0⟩],
      [[⟨2, 2⟩, ⟨4, 2⟩, ⟨4, 4⟩, ⟨2, 4⟩, ⟨2, 2⟩]]⟩) (.point ⟨1, 1⟩)) :=
  containsM_polygon_point_valid_partial _ _ (by decide +kernel) (by decide +kernel)

/-- [T] `LineString: Contains<Coord>` with at least two coordinates (open or closed, simple or
not; the `enumerate()` index argument): on some segment and not an end point of the open curve —
the mask on the specification. Full statement (any length): false for a single coordinate, see
`lsContainsCoord_single_witness`. -/
theorem containsM_lineString_point_partial (cs : List Pt) (c : Pt) (h2 : 2 ≤ cs.length) :
    containsM (.lineString cs) (.point c) = Gen.isContains (relateSpec (.lineString cs) (.point c)) := by
  rw [isContains_relate_point]
  exact Geo.Proofs.C02Q.containsM_lineString_point cs c h2

example : containsM (.lineString [⟨0, 0⟩, ⟨2, 0⟩, ⟨2, 2⟩]) (.point ⟨2, 0⟩) =
    Gen.isContains (relateSpec (.lineString [⟨0, 0⟩, ⟨2, 0⟩, ⟨2, 2⟩]) (.point ⟨2, 0⟩)) :=
  containsM_lineString_point_partial _ _ (by simp)

/-- [T] witness for the excluded class: a one-coordinate LineString (invalid) "contains" its
coordinate, the specification locates every point outside it. -/
theorem lsContainsCoord_single_witness :
    containsM (.lineString [⟨1, 1⟩]) (.point ⟨1, 1⟩) = true ∧
    locate (.lineString [⟨1, 1⟩]) ⟨1, 1⟩ = .outside := by
  decide +kernel

/-- [T] the fixed `MultiLineString: Contains<Point>` (mod-2 rule over the open members), for every
member list: the mask on the specification. -/
theorem containsM_mls_point (ls : List (List Pt)) (c : Pt) :
    containsM (.multiLineString ls) (.point c) =
      Gen.isContains (relateSpec (.multiLineString ls) (.point c)) := by
  rw [isContains_relate_point]
  exact Geo.Proofs.C02Q.containsM_mls_point ls c

/-- [T] `Rect: Contains<Rect>` (inner rect with `min ≤ max`, as `Rect::new` guarantees): every
point of the inner closed rect is a point of the outer closed rect. -/
theorem rectContainsRect_iff (amn amx bmn bmx : Pt) (hx : bmn.x ≤ bmx.x) (hy : bmn.y ≤ bmx.y) :
    rectContainsRect amn amx bmn bmx = true ↔
      ∀ p, rectCoord bmn bmx p = true → rectCoord amn amx p = true :=
  Geo.Proofs.C02Q.rectContainsRect_iff amn amx bmn bmx hx hy

example : rectContainsRect ⟨0, 0⟩ ⟨4, 4⟩ ⟨1, 1⟩ ⟨4, 2⟩ = true :=
  (rectContainsRect_iff _ _ _ _ (by norm_num) (by norm_num)).mpr (fun p h => by
    simp only [rectCoord, Bool.and_eq_true, decide_eq_true_eq] at h ⊢
    obtain ⟨⟨⟨h1, h2⟩, h3⟩, h4⟩ := h
    exact ⟨⟨⟨by linarith, by linarith⟩, by linarith⟩, by linarith⟩)

/-- [T] … which is not the DE-9IM mask `T*****FF*` when the operands are degenerate (candidate
finding K7): a zero-width Rect is contained in itself as a point set, but its interior is empty, so
`II = F`. -/
theorem rectContainsRect_degenerate_witness :
    containsM (.rect ⟨0, 0⟩ ⟨0, 2⟩) (.rect ⟨0, 0⟩ ⟨0, 2⟩) = true ∧
    Gen.isContains (relateSpec (.rect ⟨0, 0⟩ ⟨0, 2⟩) (.rect ⟨0, 0⟩ ⟨0, 2⟩)) = false := by
  decide +kernel

/-- [T] `Line: Contains<Line>`, inner line with two different end points: both end points lie on
the outer segment … -/
theorem lineContainsLine_iff_ends (a b c d : Pt) (hcd : c ≠ d) :
    lineContainsLine a b c d = true ↔
      Geo.Proofs.Kernel.SegMem c a b ∧ Geo.Proofs.Kernel.SegMem d a b :=
  Geo.Proofs.C02Q.lineContainsLine_iff_ends a b c d hcd

/-- [T] … equivalently (convexity of the closed segment) every point of the inner segment is a point
of the outer one. -/
theorem lineContainsLine_iff_subset (a b c d : Pt) (hcd : c ≠ d) :
    lineContainsLine a b c d = true ↔
      ∀ p, Geo.Proofs.Kernel.SegMem p c d → Geo.Proofs.Kernel.SegMem p a b :=
  Geo.Proofs.C02Q.lineContainsLine_iff_subset a b c d hcd

example : lineContainsLine ⟨0, 0⟩ ⟨4, 4⟩ ⟨1, 1⟩ ⟨4, 4⟩ = true :=
  (lineContainsLine_iff_ends _ _ _ _ (by simp)).mpr
    ⟨⟨1/4, by norm_num, by norm_num, by norm_num, by norm_num⟩,
     ⟨1, by norm_num, by norm_num, by norm_num, by norm_num⟩⟩

/-- [T] `Line: Contains<Line>`, inner line a single point: the point is located in the interior of
the outer line (its end points are boundary when the outer line is not degenerate). -/
theorem lineContainsLine_degenerate (a b c : Pt) :
    lineContainsLine a b c c = (locate (.line a b) c == .inside) :=
  Geo.Proofs.C02Q.lineContainsLine_degenerate a b c

/-- [T] off a closed ring, the winding number of the point perturbed by the symbolic infinitesimal
in any direction (the face samples of the DE-9IM specification) is the winding number of the point
(the half-open conventions differ per edge by a potential difference). First half of what H2 needs
from validity; the second half ("the winding number jumps by one across an edge of a simple ring")
is `windingE_jump` below. -/
theorem windingE_perturb (ring : List Pt) (hc : ring.head? = ring.getLast?) (m : Pt) (x1 y1 : Rat)
    (hoff : onAnySeg m (segs ring) = false) :
    windingE ⟨m.x, x1, m.y, y1⟩ ring = windingE (EPt.ofPt m) ring :=
  Geo.Proofs.C02Q.windingE_perturb ring hc m x1 y1 hoff

example : windingE ⟨1, 2, 1, -5⟩ [⟨0, 0⟩, ⟨4, 0⟩, ⟨0, 4⟩, ⟨0, 0⟩] =
    windingE (EPt.ofPt ⟨1, 1⟩) [⟨0, 0⟩, ⟨4, 0⟩, ⟨0, 4⟩, ⟨0, 0⟩] :=
  windingE_perturb _ rfl ⟨1, 1⟩ 2 (-5) (by decide +kernel)

/-- [T] `Intersects`, Polygon × Point for an OGC-valid polygon (hypothesis H2 as above). -/
theorem intersectsM_polygon_point_valid_partial (poly : Poly) (p : Pt) (hv : polyValid poly = true)
    (H2 : ∀ h ∈ poly.ints, ∀ h' ∈ poly.ints, ringPos p h = .inside → onAnySeg p (segs h') = false) :
    intersectsM (.polygon poly) (.point p) = Gen.isIntersects (relateSpec (.polygon poly) (.point p)) :=
  Loc.intersectsM_polygon_point poly p (coordPos_polygon_eq_locate_valid_partial poly p hv H2)

example : intersectsM (.polygon ⟨[⟨0, 0⟩, ⟨10, 0⟩, ⟨10, 10⟩, ⟨0, 10⟩, ⟨0, 0⟩],
      [[⟨2, 2⟩, ⟨4, 2⟩, ⟨4, 4⟩, ⟨2, 4⟩, ⟨2, 2⟩]]⟩) (.point ⟨4, 3⟩) =
    Gen.isIntersects (relateSpec (.polygon ⟨[⟨0, 0⟩, ⟨10, 0⟩, ⟨10, 10⟩, ⟨0, 10⟩, ⟨0, 0⟩],
      [[⟨2, 2⟩, ⟨4, 2⟩, ⟨4, 4⟩, ⟨2, 4⟩, ⟨2, 2⟩]]⟩) (.point ⟨4, 3⟩)) :=
  intersectsM_polygon_point_valid_partial _ _ (by decide +kernel) (by decide +kernel)

/-- [T] `Point.is_within(LineString)` (≥ 2 coordinates) and `Point.is_within(MultiLineString)` are
their own mask `T*F**F***` on the specification. -/
theorem withinM_point_lineString_partial (cs : List Pt) (c : Pt) (h2 : 2 ≤ cs.length) :
    withinM (.point c) (.lineString cs) = Gen.isWithin (relateSpec (.point c) (.lineString cs)) :=
  withinM_point_of_contains _ _ (containsM_lineString_point_partial cs c h2)

theorem withinM_point_mls (ls : List (List Pt)) (c : Pt) :
    withinM (.point c) (.multiLineString ls) = Gen.isWithin (relateSpec (.point c) (.multiLineString ls)) :=
  withinM_point_of_contains _ _ (containsM_mls_point ls c)

example : withinM (.point ⟨1, 0⟩) (.lineString [⟨0, 0⟩, ⟨2, 0⟩]) =
    Gen.isWithin (relateSpec (.point ⟨1, 0⟩) (.lineString [⟨0, 0⟩, ⟨2, 0⟩])) :=
  withinM_point_lineString_partial _ _ (by simp)

/-! ### WIND: H2 discharged — the winding number jumps across an edge; valid polygons at every point -/

/-- [T] the specification's winding number jumps by exactly one across an edge: `m` strictly inside
the edge `(a, b)` of a closed ring and on no other edge occurrence of the ring; the face sample on
the left of `a → b` (`m + δ·n`) winds once more than the one on the right (`m − δ·n`). -/
theorem windingE_jump (ring : List Pt) (hc : ring.head? = ring.getLast?) (a b m : Pt)
    (hone : (segs ring).filter (fun se => lineCoord se.1 se.2 m) = [(a, b)]) (hab : a ≠ b)
    (hm : Geo.Proofs.Kernel.SegMem m a b) (hma : m ≠ a) (hmb : m ≠ b) :
    windingE ⟨m.x, -(b.y - a.y), m.y, b.x - a.x⟩ ring =
      windingE ⟨m.x, - -(b.y - a.y), m.y, -(b.x - a.x)⟩ ring + 1 :=
  Geo.Proofs.WIND.windingE_jump ring hc hone hab hm hma hmb

example : windingE ⟨2, -(0 - 0), 0, 4 - 0⟩ [⟨0, 0⟩, ⟨4, 0⟩, ⟨0, 4⟩, ⟨0, 0⟩] =
    windingE ⟨2, - -(0 - 0), 0, -(4 - 0)⟩ [⟨0, 0⟩, ⟨4, 0⟩, ⟨0, 4⟩, ⟨0, 0⟩] + 1 :=
  windingE_jump _ rfl ⟨0, 0⟩ ⟨4, 0⟩ ⟨2, 0⟩ (by decide +kernel) (by decide)
    ⟨1 / 2, by norm_num, by norm_num, by norm_num, by norm_num⟩ (by decide) (by decide)

/-- [T] a point of a simple ring that is not one of its coordinates lies on exactly one edge
occurrence of the ring as written. -/
theorem ringSimple_unique_edge (r : List Pt) (hs : ringSimple r = true) (a b m : Pt)
    (hab : (a, b) ∈ segs r) (hm : Geo.Proofs.Kernel.SegMem m a b) (hnv : m ∉ r) :
    (segs r).filter (fun se => lineCoord se.1 se.2 m) = [(a, b)] :=
  Geo.Proofs.WIND.simple_unique_edge hs hab hm hnv

example : (segs [⟨0, 0⟩, ⟨4, 0⟩, ⟨0, 4⟩, (⟨0, 0⟩ : Pt)]).filter (fun se => lineCoord se.1 se.2 ⟨2, 0⟩) =
    [(⟨0, 0⟩, ⟨4, 0⟩)] :=
  ringSimple_unique_edge _ (by decide +kernel) ⟨0, 0⟩ ⟨4, 0⟩ ⟨2, 0⟩ (by simp [segs])
    ⟨1 / 2, by norm_num, by norm_num, by norm_num, by norm_num⟩ (by decide)

/-- [T] two simple rings whose DE-9IM matrix (as hole-free polygons) has `II = F`: no point of one
ring is strictly inside the other (both directions). -/
theorem rings_apart_of_ii_empty (ra rb : List Pt) (hsa : ringSimple ra = true) (hsb : ringSimple rb = true)
    (hii : (relateParts (polyOf ra) (polyOf rb)).ii = .empty) (p : Pt) :
    (onAnySeg p (segs ra) = true → locateParts (polyOf rb) p ≠ .inside) ∧
    (onAnySeg p (segs rb) = true → locateParts (polyOf ra) p ≠ .inside) :=
  Geo.Proofs.WIND.ii_empty_rings_apart hsa hsb hii p

example : locateParts (polyOf [⟨6, 6⟩, ⟨8, 6⟩, ⟨8, 8⟩, ⟨6, 8⟩, ⟨6, 6⟩]) ⟨4, 3⟩ ≠ .inside :=
  (rings_apart_of_ii_empty [⟨2, 2⟩, ⟨4, 2⟩, ⟨4, 4⟩, ⟨2, 4⟩, ⟨2, 2⟩] [⟨6, 6⟩, ⟨8, 6⟩, ⟨8, 8⟩, ⟨6, 8⟩, ⟨6, 6⟩]
    (by decide +kernel) (by decide +kernel) (by decide +kernel) ⟨4, 3⟩).1 (by decide +kernel)

/-- [T] H2 of `coordPos_polygon_eq_locate_partial` from validity: in an OGC-valid polygon
(`polyValid`: simple rings, `II = F` for every pair of different holes) a point strictly inside one
hole for `coord_pos_relative_to_ring` is on no hole ring. -/
theorem hole_interior_off_rings (poly : Poly) (hv : polyValid poly = true) (p : Pt) :
    ∀ h ∈ poly.ints, ∀ h' ∈ poly.ints, ringPos p h = .inside → onAnySeg p (segs h') = false :=
  Geo.Proofs.WIND.hole_inside_off_rings hv p

example : onAnySeg ⟨3, 3⟩ (segs [⟨4, 4⟩, ⟨8, 6⟩, ⟨8, 8⟩, ⟨6, 8⟩, (⟨4, 4⟩ : Pt)]) = false :=
  hole_interior_off_rings ⟨[⟨0, 0⟩, ⟨10, 0⟩, ⟨10, 10⟩, ⟨0, 10⟩, ⟨0, 0⟩],
      [[⟨2, 2⟩, ⟨4, 2⟩, ⟨4, 4⟩, ⟨2, 4⟩, ⟨2, 2⟩], [⟨4, 4⟩, ⟨8, 6⟩, ⟨8, 8⟩, ⟨6, 8⟩, ⟨4, 4⟩]]⟩
    (by decide +kernel) ⟨3, 3⟩ [⟨2, 2⟩, ⟨4, 2⟩, ⟨4, 4⟩, ⟨2, 4⟩, ⟨2, 2⟩] (by simp)
    [⟨4, 4⟩, ⟨8, 6⟩, ⟨8, 8⟩, ⟨6, 8⟩, ⟨4, 4⟩] (by simp) (by decide +kernel)

/-- [T] **Polygon, OGC-valid: `coordinate_position` is the specification's point location at every
point** (closed rings, H1 and H2 are consequences of `polyValid`; no further hypothesis). -/
theorem coordPos_polygon_eq_locate_valid (poly : Poly) (p : Pt) (hv : polyValid poly = true) :
    coordPos (.polygon poly) p = locate (.polygon poly) p :=
  coordPos_polygon_eq_locate_valid_partial poly p hv (hole_interior_off_rings poly hv p)

example : coordPos (.polygon ⟨[⟨0, 0⟩, ⟨10, 0⟩, ⟨10, 10⟩, ⟨0, 10⟩, ⟨0, 0⟩],
      [[⟨2, 2⟩, ⟨4, 2⟩, ⟨4, 4⟩, ⟨2, 4⟩, ⟨2, 2⟩], [⟨4, 4⟩, ⟨8, 6⟩, ⟨8, 8⟩, ⟨6, 8⟩, ⟨4, 4⟩]]⟩) ⟨4, 4⟩ =
    locate (.polygon ⟨[⟨0, 0⟩, ⟨10, 0⟩, ⟨10, 10⟩, ⟨0, 10⟩, ⟨0, 0⟩],
      [[⟨2, 2⟩, ⟨4, 2⟩, ⟨4, 4⟩, ⟨2, 4⟩, ⟨2, 2⟩], [⟨4, 4⟩, ⟨8, 6⟩, ⟨8, 8⟩, ⟨6, 8⟩, ⟨4, 4⟩]]⟩) ⟨4, 4⟩ :=
  coordPos_polygon_eq_locate_valid _ _ (by decide +kernel)

/-- [T] `Contains`, Polygon × Point for every OGC-valid polygon: the hand-written body is its own
mask `T*****FF*` on the specification. -/
theorem containsM_polygon_point_valid (poly : Poly) (p : Pt) (hv : polyValid poly = true) :
    containsM (.polygon poly) (.point p) = Gen.isContains (relateSpec (.polygon poly) (.point p)) :=
  containsM_polygon_point_valid_partial poly p hv (hole_interior_off_rings poly hv p)

example : containsM (.polygon ⟨[⟨0, 0⟩, ⟨10, 0⟩, ⟨10, 10⟩, ⟨0, 10⟩, ⟨0, 0⟩],
      [[⟨2, 2⟩, ⟨4, 2⟩, ⟨4, 4⟩, ⟨2, 4⟩, ⟨2, 2⟩], [⟨4, 4⟩, ⟨8, 6⟩, ⟨8, 8⟩, ⟨6, 8⟩, ⟨4, 4⟩]]⟩) (.point ⟨5, 5⟩) =
    Gen.isContains (relateSpec (.polygon ⟨[⟨0, 0⟩, ⟨10, 0⟩, ⟨10, 10⟩, ⟨0, 10⟩, ⟨0, 0⟩],
      [[⟨2, 2⟩, ⟨4, 2⟩, ⟨4, 4⟩, ⟨2, 4⟩, ⟨2, 2⟩], [⟨4, 4⟩, ⟨8, 6⟩, ⟨8, 8⟩, ⟨6, 8⟩, ⟨4, 4⟩]]⟩) (.point ⟨5, 5⟩)) :=
  containsM_polygon_point_valid _ _ (by decide +kernel)

/-- [T] `Intersects`, Polygon × Point for every OGC-valid polygon. -/
theorem intersectsM_polygon_point_valid (poly : Poly) (p : Pt) (hv : polyValid poly = true) :
    intersectsM (.polygon poly) (.point p) = Gen.isIntersects (relateSpec (.polygon poly) (.point p)) :=
  intersectsM_polygon_point_valid_partial poly p hv (hole_interior_off_rings poly hv p)

example : intersectsM (.polygon ⟨[⟨0, 0⟩, ⟨10, 0⟩, ⟨10, 10⟩, ⟨0, 10⟩, ⟨0, 0⟩],
      [[⟨2, 2⟩, ⟨4, 2⟩, ⟨4, 4⟩, ⟨2, 4⟩, ⟨2, 2⟩], [⟨4, 4⟩, ⟨8, 6⟩, ⟨8, 8⟩, ⟨6, 8⟩, ⟨4, 4⟩]]⟩) (.point ⟨4, 4⟩) =
    Gen.isIntersects (relateSpec (.polygon ⟨[⟨0, 0⟩, ⟨10, 0⟩, ⟨10, 10⟩, ⟨0, 10⟩, ⟨0, 0⟩],
      [[⟨2, 2⟩, ⟨4, 2⟩, ⟨4, 4⟩, ⟨2, 4⟩, ⟨2, 2⟩], [⟨4, 4⟩, ⟨8, 6⟩, ⟨8, 8⟩, ⟨6, 8⟩, ⟨4, 4⟩]]⟩) (.point ⟨4, 4⟩)) :=
  intersectsM_polygon_point_valid _ _ (by decide +kernel)

/-- [T] `Point.is_within(Polygon)` for every OGC-valid polygon is its own mask `T*F**F***`. -/
theorem withinM_point_polygon_valid (poly : Poly) (c : Pt) (hv : polyValid poly = true) :
    withinM (.point c) (.polygon poly) = Gen.isWithin (relateSpec (.point c) (.polygon poly)) :=
  withinM_point_of_contains _ _ (containsM_polygon_point_valid poly c hv)

example : withinM (.point ⟨1, 1⟩) (.polygon ⟨[⟨0, 0⟩, ⟨10, 0⟩, ⟨10, 10⟩, ⟨0, 10⟩, ⟨0, 0⟩],
      [[⟨2, 2⟩, ⟨4, 2⟩, ⟨4, 4⟩, ⟨2, 4⟩, ⟨2, 2⟩]]⟩) =
    Gen.isWithin (relateSpec (.point ⟨1, 1⟩) (.polygon ⟨[⟨0, 0⟩, ⟨10, 0⟩, ⟨10, 10⟩, ⟨0, 10⟩, ⟨0, 0⟩],
      [[⟨2, 2⟩, ⟨4, 2⟩, ⟨4, 4⟩, ⟨2, 4⟩, ⟨2, 2⟩]]⟩)) :=
  withinM_point_polygon_valid _ _ (by decide +kernel)

/-- [T] MultiPolygon with OGC-valid members: the members' positions are the specification's (no
hypothesis on them any more); what remains is the member-against-member hypothesis (no point interior
to one member and on the boundary of another). Full statement (`multiPolyValid ps` only): needs the
ring argument of `rings_apart_of_ii_empty` for polygons with holes; not proved. -/
theorem coordPos_multiPolygon_eq_locate_valid_partial (ps : List Poly) (p : Pt)
    (hv : ∀ m ∈ ps, polyValid m = true)
    (hd : ∀ m ∈ ps, ∀ m' ∈ ps, locate (.polygon m) p = .inside → locate (.polygon m') p ≠ .onBoundary) :
    coordPos (.multiPolygon ps) p = locate (.multiPolygon ps) p :=
  coordPos_multiPolygon_eq_locate_partial ps p (fun m hm => coordPos_polygon_eq_locate_valid m p (hv m hm)) hd

example : coordPos (.multiPolygon [⟨[⟨0, 0⟩, ⟨4, 0⟩, ⟨4, 4⟩, ⟨0, 4⟩, ⟨0, 0⟩], []⟩,
      ⟨[⟨4, 4⟩, ⟨8, 4⟩, ⟨8, 8⟩, ⟨4, 8⟩, ⟨4, 4⟩], []⟩]) ⟨4, 4⟩ =
    locate (.multiPolygon [⟨[⟨0, 0⟩, ⟨4, 0⟩, ⟨4, 4⟩, ⟨0, 4⟩, ⟨0, 0⟩], []⟩,
      ⟨[⟨4, 4⟩, ⟨8, 4⟩, ⟨8, 8⟩, ⟨4, 8⟩, ⟨4, 4⟩], []⟩]) ⟨4, 4⟩ :=
  coordPos_multiPolygon_eq_locate_valid_partial _ _ (by decide +kernel) (by decide +kernel)

/-! ### C02X: valid MultiPolygon with no hypothesis left; bounding-box shortcut for every pair; the mask "not `FF*FF****`"
as a point-set statement; the nine linear pairs; every geometry of the domain against a Point (see the table of the
100 type pairs in GeoProofs/Lemmas/C02XTable.lean) -/

/-- [T] beside every boundary point of an OGC-valid polygon that is not a ring coordinate, the left or the right face
sample (the point perturbed by the symbolic infinitesimal across the edge) is interior to the polygon: winding number
about the shell non-zero, about every hole zero. (Shell edge: the winding number jumps across the edge and no hole
contains or touches the point, `IE = F` / `BE = F` / `BB ≤ 0` of `polyValid`; hole edge: one side of every edge of a
simple ring is outside the ring.) -/
theorem valid_polygon_side_inside (q : Poly) (hv : polyValid q = true) (r : List Pt) (hr : r ∈ q.rings)
    (a b x : Pt) (hab : (a, b) ∈ segs r) (hx : Geo.Proofs.Kernel.SegMem x a b) (hnv : ∀ r' ∈ q.rings, x ∉ r') :
    insidePolyE (Geo.Proofs.Spec.faceL a b x) q = true ∨ insidePolyE (Geo.Proofs.Spec.faceR a b x) q = true :=
  Geo.Proofs.C02X.valid_side_inside hv hr hab hx hnv

example : insidePolyE (Geo.Proofs.Spec.faceL ⟨2, 2⟩ ⟨4, 2⟩ ⟨3, 2⟩)
      ⟨[⟨0, 0⟩, ⟨10, 0⟩, ⟨10, 10⟩, ⟨0, 10⟩, ⟨0, 0⟩], [[⟨2, 2⟩, ⟨4, 2⟩, ⟨4, 4⟩, ⟨2, 4⟩, ⟨2, 2⟩]]⟩ = true ∨
    insidePolyE (Geo.Proofs.Spec.faceR ⟨2, 2⟩ ⟨4, 2⟩ ⟨3, 2⟩)
      ⟨[⟨0, 0⟩, ⟨10, 0⟩, ⟨10, 10⟩, ⟨0, 10⟩, ⟨0, 0⟩], [[⟨2, 2⟩, ⟨4, 2⟩, ⟨4, 4⟩, ⟨2, 4⟩, ⟨2, 2⟩]]⟩ = true :=
  valid_polygon_side_inside _ (by decide +kernel) [⟨2, 2⟩, ⟨4, 2⟩, ⟨4, 4⟩, ⟨2, 4⟩, ⟨2, 2⟩] (by simp [Poly.rings])
    ⟨2, 2⟩ ⟨4, 2⟩ ⟨3, 2⟩ (by simp [segs]) ⟨1 / 2, by norm_num, by norm_num, by norm_num, by norm_num⟩
    (by decide)

/-- [T] two OGC-valid polygons whose DE-9IM matrix has `II = F`: no point is interior to the first and on the boundary
of the second (a face atom beside the boundary point, or beside the midpoint of an adjacent elementary sub-segment of the
arrangement, would be interior to both). -/
theorem valid_polygons_apart (m m' : Poly) (hv : polyValid m = true) (hv' : polyValid m' = true)
    (hii : (relateParts (partsOfPoly m) (partsOfPoly m')).ii = .empty) (p : Pt)
    (hin : locate (.polygon m) p = .inside) : locate (.polygon m') p ≠ .onBoundary :=
  Geo.Proofs.C02X.valid_polys_apart hv hv' hii p hin

example : locate (.polygon ⟨[⟨4, 4⟩, ⟨8, 4⟩, ⟨8, 8⟩, ⟨4, 8⟩, ⟨4, 4⟩], []⟩) ⟨2, 2⟩ ≠ .onBoundary :=
  valid_polygons_apart ⟨[⟨0, 0⟩, ⟨4, 0⟩, ⟨4, 4⟩, ⟨0, 4⟩, ⟨0, 0⟩], []⟩ ⟨[⟨4, 4⟩, ⟨8, 4⟩, ⟨8, 8⟩, ⟨4, 8⟩, ⟨4, 4⟩], []⟩
    (by decide +kernel) (by decide +kernel) (by decide +kernel) ⟨2, 2⟩ (by decide +kernel)

/-- [T] the member-against-member hypothesis of `coordPos_multiPolygon_eq_locate_valid_partial` from validity: in a valid
MultiPolygon (`multiPolyValid`: valid members, `II = F` and `BB` of dimension ≤ 0 for every pair) no point is interior to
one member and on the boundary of another. -/
theorem multiPolygon_members_apart (ps : List Poly) (hv : multiPolyValid ps = true) (p : Pt) :
    ∀ m ∈ ps, ∀ m' ∈ ps, locate (.polygon m) p = .inside → locate (.polygon m') p ≠ .onBoundary :=
  Geo.Proofs.C02X.multiPolyValid_apart hv p

example : locate (.polygon ⟨[⟨4, 4⟩, ⟨8, 4⟩, ⟨8, 8⟩, ⟨4, 8⟩, ⟨4, 4⟩], []⟩) ⟨1, 1⟩ ≠ .onBoundary :=
  multiPolygon_members_apart [⟨[⟨0, 0⟩, ⟨4, 0⟩, ⟨4, 4⟩, ⟨0, 4⟩, ⟨0, 0⟩], []⟩, ⟨[⟨4, 4⟩, ⟨8, 4⟩, ⟨8, 8⟩, ⟨4, 8⟩, ⟨4, 4⟩], []⟩]
    (by decide +kernel) ⟨1, 1⟩ ⟨[⟨0, 0⟩, ⟨4, 0⟩, ⟨4, 4⟩, ⟨0, 4⟩, ⟨0, 0⟩], []⟩ (by simp)
    ⟨[⟨4, 4⟩, ⟨8, 4⟩, ⟨8, 8⟩, ⟨4, 8⟩, ⟨4, 4⟩], []⟩ (by simp) (by decide +kernel)

/-- [T] **MultiPolygon, OGC-valid: `coordinate_position` is the specification's point location at every point** — no
hypothesis left (members' positions by `coordPos_polygon_eq_locate_valid`, member against member by
`multiPolygon_members_apart`). -/
theorem coordPos_multiPolygon_eq_locate_valid (ps : List Poly) (p : Pt) (hv : multiPolyValid ps = true) :
    coordPos (.multiPolygon ps) p = locate (.multiPolygon ps) p :=
  Geo.Proofs.C02X.coordPos_multiPolygon_valid ps p hv

example : coordPos (.multiPolygon [⟨[⟨0, 0⟩, ⟨4, 0⟩, ⟨4, 4⟩, ⟨0, 4⟩, ⟨0, 0⟩], [[⟨1, 1⟩, ⟨2, 1⟩, ⟨2, 2⟩, ⟨1, 1⟩]]⟩,
      ⟨[⟨4, 4⟩, ⟨8, 4⟩, ⟨8, 8⟩, ⟨4, 8⟩, ⟨4, 4⟩], []⟩]) ⟨4, 4⟩ =
    locate (.multiPolygon [⟨[⟨0, 0⟩, ⟨4, 0⟩, ⟨4, 4⟩, ⟨0, 4⟩, ⟨0, 0⟩], [[⟨1, 1⟩, ⟨2, 1⟩, ⟨2, 2⟩, ⟨1, 1⟩]]⟩,
      ⟨[⟨4, 4⟩, ⟨8, 4⟩, ⟨8, 8⟩, ⟨4, 8⟩, ⟨4, 4⟩], []⟩]) ⟨4, 4⟩ :=
  coordPos_multiPolygon_eq_locate_valid _ _ (by decide +kernel)

/-- [T] **`has_disjoint_bboxes` is sound for every pair of geometries of the validity domain, point form**: disjoint
bounding boxes ⇒ no point is located in the interior or on the boundary of both (`bounding_rect` only ranges over the
exterior traversal — K6 of C19 —, but on the domain hole coordinates lie in the shell's box by `BE = F`, Rects have
`min ≤ max` and all rings are closed). Covers every early return of the `Intersects` dispatch: LineString / MultiLineString /
MultiPolygon / GeometryCollection × anything, the inner per-member tests, and `Polygon × Polygon` (hence the Rect and Triangle
pairs that go through `to_polygon`). -/
theorem disjointBB_sound_point (a b : Geom) (ha : inDomain a = true) (hb : inDomain b = true)
    (h : disjointBB a b = true) (p : Pt) : locate a p = .outside ∨ locate b p = .outside :=
  Geo.Proofs.C02X.disjointBB_no_common_point ha hb h p

example : locate (.rect ⟨0, 0⟩ ⟨2, 2⟩) ⟨1, 1⟩ = .outside ∨
    locate (.polygon ⟨[⟨3, 0⟩, ⟨5, 0⟩, ⟨5, 5⟩, ⟨3, 0⟩], []⟩) ⟨1, 1⟩ = .outside :=
  disjointBB_sound_point _ _ (by decide +kernel) (by decide +kernel) (by decide +kernel) ⟨1, 1⟩

/-- [T] … **matrix form**: the DE-9IM specification of a pair with disjoint bounding boxes has the shape `FF*FF****`, so
`is_intersects` is `false` on it — the value the shortcut returns. -/
theorem disjointBB_sound_spec (a b : Geom) (ha : inDomain a = true) (hb : inDomain b = true)
    (h : disjointBB a b = true) : Gen.isIntersects (relateSpec a b) = false :=
  Geo.Proofs.C02X.disjointBB_spec ha hb h

example : Gen.isIntersects (relateSpec (.triangle ⟨0, 0⟩ ⟨2, 0⟩ ⟨0, 2⟩)
    (.multiLineString [[⟨3, 0⟩, ⟨5, 0⟩], [⟨3, 1⟩, ⟨5, 5⟩]])) = false :=
  disjointBB_sound_spec _ _ (by decide +kernel) (by decide +kernel) (by decide +kernel)

/-- [T] **the mask "not `FF*FF****`" on the DE-9IM specification is "the operands have a common point"**, for all operands
with closed rings (every geometry of the validity domain): (⇒) vertex and midpoint atoms are points, a face atom inside
a polygon sits beside a point on or inside it; (⇐) a common point on the arrangement has an atom with the same locations
(`Geo.Proofs.C02X.locate_const`: the location is constant on every elementary sub-segment), a common point off the arrangement is moved along a segment to the first ring it meets. -/
theorem isIntersects_iff_common_point (a b : Geom) (ca : Geo.Proofs.C02X.ClosedRings (parts a))
    (cb : Geo.Proofs.C02X.ClosedRings (parts b)) :
    Gen.isIntersects (relateSpec a b) = true ↔ ∃ p, locate a p ≠ .outside ∧ locate b p ≠ .outside :=
  Geo.Proofs.C02X.isIntersects_iff_common_point_closed ca cb

example : Gen.isIntersects (relateSpec (.line ⟨1, 1⟩ ⟨1, 1⟩) (.lineString [⟨0, 0⟩, ⟨2, 2⟩, ⟨2, 0⟩, ⟨0, 2⟩])) = true :=
  (isIntersects_iff_common_point _ _ (Geo.Proofs.C02X.closedRings_of_noAreas rfl)
    (Geo.Proofs.C02X.closedRings_of_noAreas rfl)).mpr ⟨⟨1, 1⟩, by decide +kernel, by decide +kernel⟩

/-- [T] … in particular on the validity domain. -/
theorem isIntersects_iff_common_point_dom (a b : Geom) (ha : inDomain a = true) (hb : inDomain b = true) :
    Gen.isIntersects (relateSpec a b) = true ↔ ∃ p, locate a p ≠ .outside ∧ locate b p ≠ .outside :=
  Geo.Proofs.C02X.isIntersects_iff_common_point_closed (Geo.Proofs.C02X.dom_facts a ha).closed
    (Geo.Proofs.C02X.dom_facts b hb).closed

example : Gen.isIntersects (relateSpec (.rect ⟨0, 0⟩ ⟨4, 4⟩) (.polygon ⟨[⟨1, 1⟩, ⟨2, 1⟩, ⟨2, 2⟩, ⟨1, 1⟩], []⟩)) = true :=
  (isIntersects_iff_common_point_dom _ _ (by decide +kernel) (by decide +kernel)).mpr
    ⟨⟨7 / 4, 5 / 4⟩, by decide +kernel, by decide +kernel⟩

/-- [T] `Line × Line`: `intersects` ⇔ the two segments share a point (degenerate lines included). -/
theorem intersectsM_line_line_iff (a b c d : Pt) :
    intersectsM (.line a b) (.line c d) = true ↔
      ∃ p, Geo.Proofs.Kernel.SegMem p a b ∧ Geo.Proofs.Kernel.SegMem p c d := by
  rw [Geo.Proofs.C02X.intersectsM_linear_iff _ _ rfl rfl]
  unfold Geo.Proofs.C02X.SegsMeet
  simp only [Geo.Proofs.C02X.curveSegs_line, List.mem_singleton, exists_eq_left]

/-- [T] **the nine pairs of Line / LineString / MultiLineString, all inputs**: `intersects` holds exactly when a segment
of the first operand and a segment of the second have a common point — every bounding-box early return on the way
(outer, per member, `LineString × Line`) loses nothing. -/
theorem intersectsM_linear_iff (a b : Geom) (ha : Geo.Proofs.C02X.isLinear a = true)
    (hb : Geo.Proofs.C02X.isLinear b = true) :
    intersectsM a b = true ↔
      ∃ s ∈ (parts a).curveSegs, ∃ t ∈ (parts b).curveSegs, ∃ p,
        Geo.Proofs.Kernel.SegMem p s.1 s.2 ∧ Geo.Proofs.Kernel.SegMem p t.1 t.2 :=
  Geo.Proofs.C02X.intersectsM_linear_iff a b ha hb

example : intersectsM (.lineString [⟨0, 0⟩, ⟨2, 2⟩, ⟨4, 0⟩]) (.multiLineString [[⟨5, 5⟩, ⟨6, 6⟩], [⟨3, 0⟩, ⟨3, 3⟩]]) = true :=
  (intersectsM_linear_iff _ _ rfl rfl).mpr ⟨(⟨2, 2⟩, ⟨4, 0⟩), by simp [parts, Parts.curveSegs, segs],
    (⟨3, 0⟩, ⟨3, 3⟩), by simp [parts, Parts.curveSegs, segs], ⟨3, 1⟩,
    ⟨1 / 2, by norm_num, by norm_num, by norm_num, by norm_num⟩,
    ⟨1 / 3, by norm_num, by norm_num, by norm_num, by norm_num⟩⟩

/-- [T] … **and that is the mask "not `FF*FF****`" on the DE-9IM specification of the pair**, for all inputs (one-coordinate,
closed and non-simple line strings, degenerate lines). -/
theorem intersectsM_linear_eq_spec (a b : Geom) (ha : Geo.Proofs.C02X.isLinear a = true)
    (hb : Geo.Proofs.C02X.isLinear b = true) : intersectsM a b = Gen.isIntersects (relateSpec a b) :=
  Geo.Proofs.C02X.intersectsM_linear_eq_spec a b ha hb

example : intersectsM (.line ⟨0, 0⟩ ⟨2, 2⟩) (.lineString [⟨0, 2⟩, ⟨2, 0⟩, ⟨5, 5⟩]) =
    Gen.isIntersects (relateSpec (.line ⟨0, 0⟩ ⟨2, 2⟩) (.lineString [⟨0, 2⟩, ⟨2, 0⟩, ⟨5, 5⟩])) :=
  intersectsM_linear_eq_spec _ _ rfl rfl

/-- [T] `intersects` is symmetric on the nine linear pairs. -/
theorem intersectsM_linear_symm (a b : Geom) (ha : Geo.Proofs.C02X.isLinear a = true)
    (hb : Geo.Proofs.C02X.isLinear b = true) : intersectsM a b = intersectsM b a :=
  Geo.Proofs.C02X.intersectsM_linear_symm a b ha hb

example : intersectsM (.multiLineString [[⟨0, 0⟩, ⟨1, 1⟩]]) (.line ⟨0, 1⟩ ⟨1, 0⟩) =
    intersectsM (.line ⟨0, 1⟩ ⟨1, 0⟩) (.multiLineString [[⟨0, 0⟩, ⟨1, 1⟩]]) :=
  intersectsM_linear_symm _ _ rfl rfl

/-- [T] every clause of `calculate_coordinate_position` (all ten types, nested collections) is additive in the
accumulator: it ORs its own `is_inside` into the flag and adds its own boundary hits to the counter. -/
theorem calcPos_additive (g : Geom) (p : Pt) (acc : PosAcc) :
    calcPos g p acc = ⟨acc.inside || (calcPos g p ⟨false, 0⟩).inside, acc.bcount + (calcPos g p ⟨false, 0⟩).bcount⟩ :=
  Geo.Proofs.C02X.calcPos_add g p acc

/-- [T] members of a collection of the domain are disjoint as point sets: at every point at most one member is not
`Outside` (from `II = IB = BI = BB = F` of `collectionOk` through `isIntersects_iff_common_point`). -/
theorem collection_members_apart (gs : List Geom) (hd : inDomain (.collection gs) = true) (p : Pt) :
    gs.Pairwise (fun g1 g2 => locate g1 p = .outside ∨ locate g2 p = .outside) :=
  Geo.Proofs.C02X.collection_apart (Geo.Proofs.C02X.inDomain_collection hd).1
    (Geo.Proofs.C02X.inDomain_collection hd).2 p

example : [Geom.lineString [⟨0, 0⟩, ⟨4, 0⟩], .line ⟨0, 1⟩ ⟨4, 1⟩].Pairwise
    (fun g1 g2 => locate g1 ⟨2, 0⟩ = .outside ∨ locate g2 ⟨2, 0⟩ = .outside) :=
  collection_members_apart _ (by decide +kernel) _

/-- [T] **`coordinate_position(g, p)` is the specification's point location for every geometry `g` of the validity domain**
(`inDomain`: all ten types, collections — also nested — with pairwise disjoint members), at every point `p` that is an end
point of at most one open member of each MultiLineString inside `g` (`noK9`). Full statement (no `noK9`): false — open
known finding K9, witness `coordPos_mls_ne_locate_witness`. -/
theorem coordPos_eq_locate_dom_partial (g : Geom) (p : Pt) (hd : inDomain g = true)
    (hk : Geo.Proofs.C02X.noK9 p g = true) : coordPos g p = locate g p :=
  Geo.Proofs.C02X.coordPos_dom g p hd hk

example : coordPos (.collection [.polygon ⟨[⟨0, 0⟩, ⟨4, 0⟩, ⟨4, 4⟩, ⟨0, 4⟩, ⟨0, 0⟩], []⟩,
      .collection [.rect ⟨6, 0⟩ ⟨8, 2⟩, .triangle ⟨6, 4⟩ ⟨8, 4⟩ ⟨6, 6⟩]]) ⟨8, 1⟩ =
    locate (.collection [.polygon ⟨[⟨0, 0⟩, ⟨4, 0⟩, ⟨4, 4⟩, ⟨0, 4⟩, ⟨0, 0⟩], []⟩,
      .collection [.rect ⟨6, 0⟩ ⟨8, 2⟩, .triangle ⟨6, 4⟩ ⟨8, 4⟩ ⟨6, 6⟩]]) ⟨8, 1⟩ :=
  coordPos_eq_locate_dom_partial _ _ (by decide +kernel) (by decide +kernel)

/-- [T] **`intersects(g, Point)` = "not `FF*FF****`" on the DE-9IM specification for every geometry `g` of the validity
domain** (no K9 clause: the `Intersects` paths do not go through the boundary counter). -/
theorem intersectsM_geom_point (g : Geom) (c : Pt) (hd : inDomain g = true) :
    intersectsM g (.point c) = Gen.isIntersects (relateSpec g (.point c)) :=
  Geo.Proofs.C02X.intersectsM_dom_point g c hd

example : intersectsM (.multiPolygon [⟨[⟨0, 0⟩, ⟨4, 0⟩, ⟨4, 4⟩, ⟨0, 4⟩, ⟨0, 0⟩], []⟩,
      ⟨[⟨4, 4⟩, ⟨8, 4⟩, ⟨8, 8⟩, ⟨4, 8⟩, ⟨4, 4⟩], []⟩]) (.point ⟨4, 4⟩) =
    Gen.isIntersects (relateSpec (.multiPolygon [⟨[⟨0, 0⟩, ⟨4, 0⟩, ⟨4, 4⟩, ⟨0, 4⟩, ⟨0, 0⟩], []⟩,
      ⟨[⟨4, 4⟩, ⟨8, 4⟩, ⟨8, 8⟩, ⟨4, 8⟩, ⟨4, 4⟩], []⟩]) (.point ⟨4, 4⟩)) :=
  intersectsM_geom_point _ _ (by decide +kernel)

/-- [T] `Point.intersects(g) = g.intersects(Point)` for every `g` (all inputs, collections included). -/
theorem intersectsM_point_symm (g : Geom) (c : Pt) : intersectsM (.point c) g = intersectsM g (.point c) :=
  Geo.Proofs.C02X.intersectsM_point_symm g c

/-- [T] **`intersects(Point, g)` = its mask on the specification of `(Point, g)`**, every `g` of the domain. -/
theorem intersectsM_point_geom (g : Geom) (c : Pt) (hd : inDomain g = true) :
    intersectsM (.point c) g = Gen.isIntersects (relateSpec (.point c) g) := by
  rw [intersectsM_point_symm, intersectsM_geom_point g c hd]
  have : relateSpec g (.point c) = (relateSpec (.point c) g).transpose :=
    Geo.Proofs.Spec.relateParts_transpose (parts (.point c)) (parts g)
  rw [this, isIntersects_transpose]

example : intersectsM (.point ⟨1, 1⟩) (.collection [.line ⟨0, 0⟩ ⟨2, 2⟩, .lineString [⟨0, 3⟩, ⟨3, 3⟩]]) =
    Gen.isIntersects (relateSpec (.point ⟨1, 1⟩) (.collection [.line ⟨0, 0⟩ ⟨2, 2⟩, .lineString [⟨0, 3⟩, ⟨3, 3⟩]])) :=
  intersectsM_point_geom _ _ (by decide +kernel)

/-- [T] **`contains(g, Point)` = `T*****FF*` on the DE-9IM specification for every geometry `g` of the validity domain**
(MultiPolygon: any member contains; collections: any member contains, members being disjoint). -/
theorem containsM_geom_point (g : Geom) (c : Pt) (hd : inDomain g = true) :
    containsM g (.point c) = Gen.isContains (relateSpec g (.point c)) :=
  Geo.Proofs.C02X.containsM_dom_point g c hd

example : containsM (.collection [.polygon ⟨[⟨0, 0⟩, ⟨4, 0⟩, ⟨4, 4⟩, ⟨0, 4⟩, ⟨0, 0⟩], []⟩, .rect ⟨6, 0⟩ ⟨8, 2⟩]) (.point ⟨7, 1⟩) =
    Gen.isContains (relateSpec (.collection [.polygon ⟨[⟨0, 0⟩, ⟨4, 0⟩, ⟨4, 4⟩, ⟨0, 4⟩, ⟨0, 0⟩], []⟩, .rect ⟨6, 0⟩ ⟨8, 2⟩])
      (.point ⟨7, 1⟩)) :=
  containsM_geom_point _ _ (by decide +kernel)

/-- [T] **`Point.is_within(g)` = `T*F**F***` on the specification of `(Point, g)`, every `g` of the domain.** -/
theorem withinM_point_geom (g : Geom) (c : Pt) (hd : inDomain g = true) :
    withinM (.point c) g = Gen.isWithin (relateSpec (.point c) g) :=
  withinM_point_of_contains g c (containsM_geom_point g c hd)

example : withinM (.point ⟨5, 5⟩) (.multiPolygon [⟨[⟨0, 0⟩, ⟨4, 0⟩, ⟨4, 4⟩, ⟨0, 4⟩, ⟨0, 0⟩], []⟩,
      ⟨[⟨4, 4⟩, ⟨8, 4⟩, ⟨8, 8⟩, ⟨4, 8⟩, ⟨4, 4⟩], []⟩]) =
    Gen.isWithin (relateSpec (.point ⟨5, 5⟩) (.multiPolygon [⟨[⟨0, 0⟩, ⟨4, 0⟩, ⟨4, 4⟩, ⟨0, 4⟩, ⟨0, 0⟩], []⟩,
      ⟨[⟨4, 4⟩, ⟨8, 4⟩, ⟨8, 8⟩, ⟨4, 8⟩, ⟨4, 4⟩], []⟩])) :=
  withinM_point_geom _ _ (by decide +kernel)

/-! ### C02X (continued): the segment-against-area kernels as point-set statements; every pair with an operand without
areal members; the shortcut of `Polygon × Polygon`; `contains` through `relate` -/

/-- [T] `Polygon: Intersects<Line>` (ring tests, then `coordinate_position` of the two end points) for a polygon of the
validity domain: true exactly when the segment has a point in the polygon (interior ∪ boundary) — if the segment misses
every ring, the winding numbers are constant along it. -/
theorem polyLine_iff_point_set (q : Poly) (hd : inDomain (.polygon q) = true) (x y : Pt) :
    polyLine q x y = true ↔ ∃ p, Geo.Proofs.Kernel.SegMem p x y ∧ locate (.polygon q) p ≠ .outside :=
  Geo.Proofs.C02X.polyLine_dom q hd x y

example : polyLine ⟨[⟨0, 0⟩, ⟨10, 0⟩, ⟨10, 10⟩, ⟨0, 10⟩, ⟨0, 0⟩], [[⟨2, 2⟩, ⟨8, 2⟩, ⟨8, 8⟩, ⟨2, 8⟩, ⟨2, 2⟩]]⟩ ⟨3, 3⟩ ⟨1, 1⟩ = true :=
  (polyLine_iff_point_set _ (by decide +kernel) _ _).mpr
    ⟨⟨1, 1⟩, ⟨1, by norm_num, by norm_num, by norm_num, by norm_num⟩, by decide +kernel⟩

/-- [T] `Rect: Intersects<Line>` (two corner tests, four side tests), Rect of positive width and height. -/
theorem rectLine_iff_point_set (mn mx x y : Pt) (hx : mn.x < mx.x) (hy : mn.y < mx.y) :
    rectLine mn mx x y = true ↔ ∃ p, Geo.Proofs.Kernel.SegMem p x y ∧ locate (.rect mn mx) p ≠ .outside :=
  Geo.Proofs.C02X.rectLine_iff mn mx x y hx hy

example : rectLine ⟨0, 0⟩ ⟨2, 2⟩ ⟨-1, 1⟩ ⟨3, 1⟩ = true :=
  (rectLine_iff_point_set _ _ _ _ (by norm_num) (by norm_num)).mpr
    ⟨⟨1, 1⟩, ⟨1 / 2, by norm_num, by norm_num, by norm_num, by norm_num⟩, by decide +kernel⟩

/-- [T] `Triangle: Intersects<Line>` (through `to_polygon`), any triangle. -/
theorem triLine_iff_point_set (a b c x y : Pt) :
    polyLine (triPoly a b c) x y = true ↔
      ∃ p, Geo.Proofs.Kernel.SegMem p x y ∧ locate (.triangle a b c) p ≠ .outside :=
  Geo.Proofs.C02X.triLine_iff a b c x y

/-- [T] `Rect: Intersects<Rect>`, both of positive width and height: not separated along an axis ⇔ a common point. -/
theorem rectRect_iff_point_set (amn amx bmn bmx : Pt) (hax : amn.x < amx.x) (hay : amn.y < amx.y)
    (hbx : bmn.x < bmx.x) (hby : bmn.y < bmx.y) :
    rectRect amn amx bmn bmx = true ↔
      ∃ p, locate (.rect amn amx) p ≠ .outside ∧ locate (.rect bmn bmx) p ≠ .outside :=
  Geo.Proofs.C02X.rectRect_iff amn amx bmn bmx hax hay hbx hby

example : rectRect ⟨0, 0⟩ ⟨2, 2⟩ ⟨2, 2⟩ ⟨3, 3⟩ = true :=
  (rectRect_iff_point_set _ _ _ _ (by norm_num) (by norm_num) (by norm_num) (by norm_num)).mpr
    ⟨⟨2, 2⟩, by decide +kernel, by decide +kernel⟩

/-- [T] **`intersects(a, b)` ⇔ `a` and `b` have a common point, for every pair of geometries of the validity domain in
which one operand has no areal member** (`thin`: Point, Line, LineString, MultiPoint, MultiLineString, collections of
these; the other operand is arbitrary — Polygon with holes, MultiPolygon, Rect, Triangle, nested collections). Every impl on
the path is covered: the blanket impls with their bounding-box early returns, the symmetric impls, the kernels.
Full statement (no `thin` hypothesis, all pairs of the domain): open for the pairs of areal operands, which run the
`Polygon × Polygon` body — see `intersectsM_areal_sound` and `intersectsM_polygon_polygon_partial`. -/
theorem intersectsM_iff_common_partial (a b : Geom) (ha : inDomain a = true) (hb : inDomain b = true)
    (ht : Geo.Proofs.C02X.thin a = true ∨ Geo.Proofs.C02X.thin b = true) :
    intersectsM a b = true ↔ ∃ p, locate a p ≠ .outside ∧ locate b p ≠ .outside :=
  Geo.Proofs.C02X.intersectsM_common a b ha hb ht

example : intersectsM (.polygon ⟨[⟨0, 0⟩, ⟨4, 0⟩, ⟨4, 4⟩, ⟨0, 4⟩, ⟨0, 0⟩], []⟩) (.line ⟨1, 1⟩ ⟨2, 2⟩) = true :=
  (intersectsM_iff_common_partial _ _ (by decide +kernel) (by decide +kernel) (Or.inr rfl)).mpr
    ⟨⟨1, 1⟩, by decide +kernel, by decide +kernel⟩

/-- [T] … **hence `intersects(a, b)` is the mask "not `FF*FF****`" on the DE-9IM specification of the pair** (76 of the
100 ordered type pairs; see the table in GeoProofs/Lemmas/C02XTable.lean). Full statement (no `thin` hypothesis): as above. -/
theorem intersectsM_eq_spec_partial (a b : Geom) (ha : inDomain a = true) (hb : inDomain b = true)
    (ht : Geo.Proofs.C02X.thin a = true ∨ Geo.Proofs.C02X.thin b = true) :
    intersectsM a b = Gen.isIntersects (relateSpec a b) :=
  Geo.Proofs.C02X.intersectsM_thin_eq_spec a b ha hb ht

example : intersectsM (.multiPolygon [⟨[⟨0, 0⟩, ⟨10, 0⟩, ⟨10, 10⟩, ⟨0, 10⟩, ⟨0, 0⟩], [[⟨2, 2⟩, ⟨8, 2⟩, ⟨8, 8⟩, ⟨2, 8⟩, ⟨2, 2⟩]]⟩])
      (.multiLineString [[⟨3, 3⟩, ⟨7, 7⟩], [⟨12, 0⟩, ⟨12, 5⟩]]) =
    Gen.isIntersects (relateSpec
      (.multiPolygon [⟨[⟨0, 0⟩, ⟨10, 0⟩, ⟨10, 10⟩, ⟨0, 10⟩, ⟨0, 0⟩], [[⟨2, 2⟩, ⟨8, 2⟩, ⟨8, 8⟩, ⟨2, 8⟩, ⟨2, 2⟩]]⟩])
      (.multiLineString [[⟨3, 3⟩, ⟨7, 7⟩], [⟨12, 0⟩, ⟨12, 5⟩]])) :=
  intersectsM_eq_spec_partial _ _ (by decide +kernel) (by decide +kernel) (Or.inr rfl)

example : intersectsM (.lineString [⟨-1, 1⟩, ⟨1, 1⟩, ⟨1, 5⟩]) (.collection [.rect ⟨0, 0⟩ ⟨2, 2⟩, .triangle ⟨4, 0⟩ ⟨6, 0⟩ ⟨4, 2⟩]) =
    Gen.isIntersects (relateSpec (.lineString [⟨-1, 1⟩, ⟨1, 1⟩, ⟨1, 5⟩])
      (.collection [.rect ⟨0, 0⟩ ⟨2, 2⟩, .triangle ⟨4, 0⟩ ⟨6, 0⟩ ⟨4, 2⟩])) :=
  intersectsM_eq_spec_partial _ _ (by decide +kernel) (by decide +kernel) (Or.inl rfl)

/-- [T] … and `intersects` is symmetric on these pairs. Full statement (all pairs): the areal pairs run the asymmetric
`Polygon × Polygon` body ([C] only), cf. `intersectsM_symm_partial`. -/
theorem intersectsM_symm_thin_partial (a b : Geom) (ha : inDomain a = true) (hb : inDomain b = true)
    (ht : Geo.Proofs.C02X.thin a = true ∨ Geo.Proofs.C02X.thin b = true) :
    intersectsM a b = intersectsM b a :=
  Geo.Proofs.C02X.intersectsM_thin_symm a b ha hb ht

example : intersectsM (.triangle ⟨0, 0⟩ ⟨4, 0⟩ ⟨0, 4⟩) (.multiPoint [⟨1, 1⟩, ⟨9, 9⟩]) =
    intersectsM (.multiPoint [⟨1, 1⟩, ⟨9, 9⟩]) (.triangle ⟨0, 0⟩ ⟨4, 0⟩ ⟨0, 4⟩) :=
  intersectsM_symm_thin_partial _ _ (by decide +kernel) (by decide +kernel) (Or.inr rfl)

/-- [T] Rect × Rect, both of positive width and height: the mask on the specification. -/
theorem intersectsM_rect_rect_eq_spec (amn amx bmn bmx : Pt) (ha : inDomain (.rect amn amx) = true)
    (hb : inDomain (.rect bmn bmx) = true) :
    intersectsM (.rect amn amx) (.rect bmn bmx) = Gen.isIntersects (relateSpec (.rect amn amx) (.rect bmn bmx)) :=
  Geo.Proofs.C02X.intersectsM_rect_rect_eq_spec amn amx bmn bmx ha hb

example : intersectsM (.rect ⟨0, 0⟩ ⟨2, 2⟩) (.rect ⟨2, 1⟩ ⟨3, 3⟩) =
    Gen.isIntersects (relateSpec (.rect ⟨0, 0⟩ ⟨2, 2⟩) (.rect ⟨2, 1⟩ ⟨3, 3⟩)) :=
  intersectsM_rect_rect_eq_spec _ _ _ _ (by decide +kernel) (by decide +kernel)

/-- [T] the fifteen remaining `intersects` cells — the pairs of areal types other than Rect × Rect — all run the
`Polygon × Polygon` body, through `to_polygon` for Rect and Triangle ([C] only beyond the shortcut below). -/
theorem intersectsM_areal_dispatch (p q : Poly) (mn mx t0 t1 t2 u0 u1 u2 : Pt) :
    intersectsM (.polygon p) (.polygon q) = polyPoly q p ∧
    intersectsM (.polygon p) (.rect mn mx) = polyPoly p (rectPoly mn mx) ∧
    intersectsM (.polygon p) (.triangle t0 t1 t2) = polyPoly p (triPoly t0 t1 t2) ∧
    intersectsM (.rect mn mx) (.polygon p) = polyPoly p (rectPoly mn mx) ∧
    intersectsM (.rect mn mx) (.triangle t0 t1 t2) = polyPoly (triPoly t0 t1 t2) (rectPoly mn mx) ∧
    intersectsM (.triangle t0 t1 t2) (.polygon p) = polyPoly p (triPoly t0 t1 t2) ∧
    intersectsM (.triangle t0 t1 t2) (.rect mn mx) = polyPoly (triPoly t0 t1 t2) (rectPoly mn mx) ∧
    intersectsM (.triangle t0 t1 t2) (.triangle u0 u1 u2) = polyPoly (triPoly u0 u1 u2) (triPoly t0 t1 t2) := by
  obtain ⟨h1, h2, h3, h4, h5, _, h7, h8, h9⟩ := Geo.Proofs.C02X.dispatch_areal p q mn mx mn mx t0 t1 t2 u0 u1 u2
  exact ⟨h1, h2, h3, h4, h5, h7, h8, h9⟩

/-- [T] **the early return of `Polygon: Intersects<Polygon>` loses nothing**, also through `to_polygon`: when the
bounding boxes are disjoint `polyPoly` is `false` and the two polygons have no common point. Operands: any two of
{polygon of the domain, `Rect::to_polygon`, `Triangle::to_polygon`} (`DomFacts`: Rects valid, hole coordinates inside the
shell's box, rings closed). -/
theorem polyPoly_shortcut_sound (p q : Poly) (fp : Geo.Proofs.C02X.DomFacts (.polygon p))
    (fq : Geo.Proofs.C02X.DomFacts (.polygon q)) (h : disjointBB (.polygon p) (.polygon q) = true) :
    polyPoly p q = false ∧ ∀ x, locate (.polygon p) x = .outside ∨ locate (.polygon q) x = .outside :=
  Geo.Proofs.C02X.polyPoly_shortcut p q fp fq h

example : polyPoly (triPoly ⟨0, 0⟩ ⟨2, 0⟩ ⟨0, 2⟩) (rectPoly ⟨3, 3⟩ ⟨5, 5⟩) = false :=
  (polyPoly_shortcut_sound _ _ (Geo.Proofs.C02X.domFacts_triPoly _ _ _) (Geo.Proofs.C02X.domFacts_rectPoly _ _)
    (by decide +kernel)).1

/-- [T] the 66 pairs whose `Contains` impl is `impl_contains_from_relate!` (`Geo.Proofs.C02X.viaRelate`): the mask
`T*****FF*` on the matrix, by definition (that `relate` computes the specification's matrix is C01). -/
theorem containsM_via_relate (a b : Geom) (h : Geo.Proofs.C02X.viaRelate a b = true) :
    containsM a b = Gen.isContains (relateSpec a b) :=
  Geo.Proofs.C02X.containsM_via_relate a b h

example : containsM (.polygon ⟨[⟨0, 0⟩, ⟨4, 0⟩, ⟨4, 4⟩, ⟨0, 4⟩, ⟨0, 0⟩], []⟩) (.lineString [⟨1, 1⟩, ⟨2, 2⟩]) =
    Gen.isContains (relateSpec (.polygon ⟨[⟨0, 0⟩, ⟨4, 0⟩, ⟨4, 4⟩, ⟨0, 4⟩, ⟨0, 0⟩], []⟩) (.lineString [⟨1, 1⟩, ⟨2, 2⟩])) :=
  containsM_via_relate _ _ rfl

/-- [T] `MultiPolygon: Contains<X>` for linear / areal `X` (`rhs.relate(self).is_within()`): the mask `T*****FF*` on the
matrix of `(self, rhs)`. -/
theorem containsM_multiPolygon_via_relate (ps : List Poly) (b : Geom)
    (hb : match b with | .point _ | .multiPoint _ => false | _ => true) :
    containsM (.multiPolygon ps) b = Gen.isContains (relateSpec (.multiPolygon ps) b) :=
  Geo.Proofs.C02X.containsM_multiPolygon_via_relate ps b hb

example : containsM (.multiPolygon [⟨[⟨0, 0⟩, ⟨4, 0⟩, ⟨4, 4⟩, ⟨0, 4⟩, ⟨0, 0⟩], []⟩]) (.line ⟨1, 1⟩ ⟨2, 2⟩) =
    Gen.isContains (relateSpec (.multiPolygon [⟨[⟨0, 0⟩, ⟨4, 0⟩, ⟨4, 4⟩, ⟨0, 4⟩, ⟨0, 0⟩], []⟩]) (.line ⟨1, 1⟩ ⟨2, 2⟩)) :=
  containsM_multiPolygon_via_relate _ _ rfl

/-- [T] **what `Polygon: Intersects<Polygon>` computes, exactly** (bounding-box early returns of the body and of its
`LineString × Polygon` calls included): some ring point of `q` lies in `p`, or some shell point of `p` lies in `q`.
Operands: polygons of the domain, or `to_polygon` of a Rect / Triangle (`PieceFacts`, see `pieceFacts_polygon`,
`pieceFacts_rectPoly`, `pieceFacts_triPoly`). -/
theorem polyPoly_iff_boundary (p q : Poly) (pfp : Geo.Proofs.C02X.PieceFacts (.polygon p))
    (pfq : Geo.Proofs.C02X.PieceFacts (.polygon q)) :
    polyPoly p q = true ↔
      (∃ r ∈ q.rings, ∃ s ∈ segs r, ∃ x, Geo.Proofs.Kernel.SegMem x s.1 s.2 ∧ locate (.polygon p) x ≠ .outside) ∨
      (∃ s ∈ segs p.ext, ∃ x, Geo.Proofs.Kernel.SegMem x s.1 s.2 ∧ locate (.polygon q) x ≠ .outside) :=
  Geo.Proofs.C02X.polyPoly_iff p q pfp pfq

example : polyPoly (rectPoly ⟨0, 0⟩ ⟨4, 4⟩) (triPoly ⟨1, 1⟩ ⟨2, 1⟩ ⟨1, 2⟩) = true :=
  (polyPoly_iff_boundary _ _ (Geo.Proofs.C02X.pieceFacts_rectPoly _ _) (Geo.Proofs.C02X.pieceFacts_triPoly _ _ _)).mpr
    (Or.inl ⟨[⟨1, 1⟩, ⟨2, 1⟩, ⟨1, 2⟩, ⟨1, 1⟩], by simp [triPoly, Poly.rings], (⟨1, 1⟩, ⟨2, 1⟩), by simp [segs],
      ⟨1, 1⟩, ⟨0, by norm_num, by norm_num, by norm_num, by norm_num⟩, by decide +kernel⟩)

/-- [T] **no false positive on the nine pairs of Polygon / Rect / Triangle**: `intersects(a, b) = true` implies the mask
"not `FF*FF****`" on the specification (every point the `Polygon × Polygon` body finds is a common point). -/
theorem intersectsM_areal_sound (a b : Geom) (ha : inDomain a = true) (hb : inDomain b = true)
    (pa : Geo.Proofs.C02X.arealPrim a = true) (pb : Geo.Proofs.C02X.arealPrim b = true)
    (h : intersectsM a b = true) : Gen.isIntersects (relateSpec a b) = true :=
  Geo.Proofs.C02X.intersectsM_arealPrim_sound a b ha hb pa pb h

example : Gen.isIntersects (relateSpec (.triangle ⟨0, 0⟩ ⟨4, 0⟩ ⟨0, 4⟩) (.rect ⟨1, 1⟩ ⟨5, 5⟩)) = true :=
  intersectsM_areal_sound _ _ (by decide +kernel) (by decide +kernel) rfl rfl (by decide +kernel)

/-- [T] Polygon × Polygon, both of the domain: `intersects` is the mask on the specification, given the one step that is
not proved here. Full statement (no `hgap`): needs "two valid polygons with a common point have a ring point of one in the
other or a shell point of the other in the first" — if the boundaries do not meet, one polygon lies inside the other
(connectedness of a valid polygon). [C] decides these pairs meanwhile. -/
theorem intersectsM_polygon_polygon_partial (p q : Poly) (hp : inDomain (.polygon p) = true)
    (hq : inDomain (.polygon q) = true)
    (hgap : (∃ x, locate (.polygon q) x ≠ .outside ∧ locate (.polygon p) x ≠ .outside) →
      Geo.Proofs.C02X.BoundaryMeets q p) :
    intersectsM (.polygon p) (.polygon q) = Gen.isIntersects (relateSpec (.polygon p) (.polygon q)) := by
  have e : intersectsM (.polygon p) (.polygon q) = polyPoly q p := by
    simp only [intersectsM, vsPiece, isxFlat, polyX]
  rw [e, Bool.eq_iff_iff, Geo.Proofs.C02X.polyPoly_common_partial q p (Geo.Proofs.C02X.pieceFacts_polygon q hq)
    (Geo.Proofs.C02X.pieceFacts_polygon p hp) hgap]
  have hs := isIntersects_iff_common_point_dom (.polygon p) (.polygon q) hp hq
  rw [hs]
  exact ⟨Geo.Proofs.C02X.Common.symm, Geo.Proofs.C02X.Common.symm⟩

example : intersectsM (.polygon ⟨[⟨0, 0⟩, ⟨4, 0⟩, ⟨4, 4⟩, ⟨0, 4⟩, ⟨0, 0⟩], []⟩)
      (.polygon ⟨[⟨2, 2⟩, ⟨6, 2⟩, ⟨6, 6⟩, ⟨2, 2⟩], []⟩) =
    Gen.isIntersects (relateSpec (.polygon ⟨[⟨0, 0⟩, ⟨4, 0⟩, ⟨4, 4⟩, ⟨0, 4⟩, ⟨0, 0⟩], []⟩)
      (.polygon ⟨[⟨2, 2⟩, ⟨6, 2⟩, ⟨6, 6⟩, ⟨2, 2⟩], []⟩)) :=
  intersectsM_polygon_polygon_partial _ _ (by decide +kernel) (by decide +kernel)
    (fun _ => Or.inl ⟨[⟨0, 0⟩, ⟨4, 0⟩, ⟨4, 4⟩, ⟨0, 4⟩, ⟨0, 0⟩], by simp [Poly.rings], (⟨4, 0⟩, ⟨4, 4⟩), by simp [segs],
      ⟨4, 2⟩, ⟨1 / 2, by norm_num, by norm_num, by norm_num, by norm_num⟩, by decide +kernel⟩)

/-! ### C02Y: the areal × areal pairs of `intersects`, and hand-written `contains` pairs -/

/-- [T] **the connectedness step** (`hgap` of `intersectsM_polygon_polygon_partial`, from validity): two OGC-valid polygons
with a common point — some ring point of `q` lies in `p`, or some shell point of `p` lies in `q`. Contrapositive of
`Geo.Proofs.C07.disjoint_of_ext_disjoint` (C07X: exterior rings without a point in the other polygon are disjoint closed
curves, outside each other or one inside a hole of the other polygon; `nested_rings`, `exterior_rings`). -/
theorem valid_polygons_boundary_meets (p q : Poly) (hp : polyValid p = true) (hq : polyValid q = true)
    (h : ∃ x, locate (.polygon p) x ≠ .outside ∧ locate (.polygon q) x ≠ .outside) :
    Geo.Proofs.C02X.BoundaryMeets p q :=
  Geo.Proofs.C02Y.boundaryMeets_of_common (Geo.Proofs.C07.PolyOk_of_valid hp) (Geo.Proofs.C07.PolyOk_of_valid hq) h

example : Geo.Proofs.C02X.BoundaryMeets ⟨[⟨0, 0⟩, ⟨10, 0⟩, ⟨10, 10⟩, ⟨0, 10⟩, ⟨0, 0⟩], []⟩
    ⟨[⟨2, 2⟩, ⟨4, 2⟩, ⟨4, 4⟩, ⟨2, 2⟩], []⟩ :=
  valid_polygons_boundary_meets _ _ (by decide +kernel) (by decide +kernel) ⟨⟨3, 2⟩, by decide +kernel, by decide +kernel⟩

/-- [T] **`Polygon: Intersects<Polygon>` ⇔ the closed polygons share a point** — operands: polygons of the domain (the empty
polygon included), `Rect::to_polygon`, `Triangle::to_polygon` (`arealFacts_polygon`, `arealFacts_rectPoly`,
`arealFacts_triPoly`). -/
theorem polyPoly_iff_common (p q : Poly) (fp : Geo.Proofs.C02Y.ArealFacts p) (fq : Geo.Proofs.C02Y.ArealFacts q) :
    polyPoly p q = true ↔ ∃ x, locate (.polygon p) x ≠ .outside ∧ locate (.polygon q) x ≠ .outside :=
  Geo.Proofs.C02Y.polyPoly_common p q fp fq

example : polyPoly (rectPoly ⟨0, 0⟩ ⟨10, 10⟩) (triPoly ⟨2, 2⟩ ⟨4, 2⟩ ⟨2, 4⟩) = true :=
  (polyPoly_iff_common _ _ (Geo.Proofs.C02Y.arealFacts_rectPoly _ _) (Geo.Proofs.C02Y.arealFacts_triPoly _ _ _)).mpr
    ⟨⟨3, 2⟩, by decide +kernel, by decide +kernel⟩

/-- [T] **`intersects(a, b)` ⇔ the operands have a common point, for EVERY pair of geometries of the validity domain** — all
100 ordered type pairs, the 15 areal × areal pairs and collections with areal members included. -/
theorem intersectsM_iff_common (a b : Geom) (ha : inDomain a = true) (hb : inDomain b = true) :
    intersectsM a b = true ↔ ∃ x, locate a x ≠ .outside ∧ locate b x ≠ .outside :=
  Geo.Proofs.C02Y.intersectsM_common_all a b ha hb

example : intersectsM (.polygon ⟨[⟨0, 0⟩, ⟨10, 0⟩, ⟨10, 10⟩, ⟨0, 10⟩, ⟨0, 0⟩], []⟩) (.triangle ⟨2, 2⟩ ⟨4, 2⟩ ⟨2, 4⟩) = true :=
  (intersectsM_iff_common _ _ (by decide +kernel) (by decide +kernel)).mpr ⟨⟨3, 2⟩, by decide +kernel, by decide +kernel⟩

/-- [T] **`intersects` is the mask "not `FF*FF****`" on the DE-9IM specification, for EVERY pair of the validity domain**
(removes the `thin` hypothesis of `intersectsM_eq_spec_partial` and the `hgap` of `intersectsM_polygon_polygon_partial`). -/
theorem intersectsM_eq_spec (a b : Geom) (ha : inDomain a = true) (hb : inDomain b = true) :
    intersectsM a b = Gen.isIntersects (relateSpec a b) :=
  Geo.Proofs.C02Y.intersectsM_all_eq_spec a b ha hb

example : intersectsM (.multiPolygon [⟨[⟨0, 0⟩, ⟨10, 0⟩, ⟨10, 10⟩, ⟨0, 10⟩, ⟨0, 0⟩], [[⟨2, 2⟩, ⟨8, 2⟩, ⟨8, 8⟩, ⟨2, 8⟩, ⟨2, 2⟩]]⟩])
      (.rect ⟨3, 3⟩ ⟨5, 5⟩) =
    Gen.isIntersects (relateSpec (.multiPolygon [⟨[⟨0, 0⟩, ⟨10, 0⟩, ⟨10, 10⟩, ⟨0, 10⟩, ⟨0, 0⟩], [[⟨2, 2⟩, ⟨8, 2⟩, ⟨8, 8⟩, ⟨2, 8⟩, ⟨2, 2⟩]]⟩])
      (.rect ⟨3, 3⟩ ⟨5, 5⟩)) :=
  intersectsM_eq_spec _ _ (by decide +kernel) (by decide +kernel)

/-- [T] … and `intersects` is symmetric on the whole domain. -/
theorem intersectsM_symm (a b : Geom) (ha : inDomain a = true) (hb : inDomain b = true) :
    intersectsM a b = intersectsM b a :=
  Geo.Proofs.C02Y.intersectsM_all_symm a b ha hb

example : intersectsM (.triangle ⟨0, 0⟩ ⟨4, 0⟩ ⟨0, 4⟩) (.polygon ⟨[⟨1, 1⟩, ⟨2, 1⟩, ⟨2, 2⟩, ⟨1, 1⟩], []⟩) =
    intersectsM (.polygon ⟨[⟨1, 1⟩, ⟨2, 1⟩, ⟨2, 2⟩, ⟨1, 1⟩], []⟩) (.triangle ⟨0, 0⟩ ⟨4, 0⟩ ⟨0, 4⟩) :=
  intersectsM_symm _ _ (by decide +kernel) (by decide +kernel)

/-- [T] **the mask `T*****FF*` on the specification as a point-set statement**, second operand without areal member
(points and curves), first operand with closed rings: some point is interior to both, and every point of `B` is a
point of `A`. -/
theorem isContains_iff_point_set (pa pb : Parts) (ca : Geo.Proofs.C02X.ClosedRings pa) (hb : pb.areas = []) :
    Gen.isContains (relateParts pa pb) = true ↔
      (∃ x, locateParts pa x = .inside ∧ locateParts pb x = .inside) ∧
      (∀ x, locateParts pb x ≠ .outside → locateParts pa x ≠ .outside) :=
  Geo.Proofs.C02Y.isContains_iff_thin_right ca hb

example : Gen.isContains (relateSpec (.line ⟨0, 0⟩ ⟨4, 0⟩) (.multiPoint [⟨1, 0⟩])) = true :=
  (isContains_iff_point_set _ _ (Geo.Proofs.C02X.closedRings_of_noAreas rfl) rfl).mpr
    ⟨⟨⟨1, 0⟩, by decide +kernel, by decide +kernel⟩, fun x hx => by
      have : x = ⟨1, 0⟩ := by
        have := (Geo.Proofs.C02X.located_multiPoint [⟨1, 0⟩] x).mp hx
        simpa using this
      subst this
      decide +kernel⟩

/-- [T] **`Point: Contains<X>` (9 hand-written bodies: "X not empty and every coordinate is the point") is the mask
`T*****FF*` on the specification, for every `X` of the validity domain**, nested collections included. Outside the domain
it is false: a one-coordinate LineString `[p]` is "contained" by the code and has no point in the specification
(`pointContains_one_coordinate_witness`). -/
theorem containsM_point_geom (p : Pt) (b : Geom) (hb : inDomain b = true) :
    containsM (.point p) b = Gen.isContains (relateSpec (.point p) b) :=
  Geo.Proofs.C02Y.containsM_point_geom p b hb

example : containsM (.point ⟨1, 1⟩) (.collection [.multiPoint [⟨1, 1⟩, ⟨1, 1⟩], .lineString []]) =
    Gen.isContains (relateSpec (.point ⟨1, 1⟩) (.collection [.multiPoint [⟨1, 1⟩, ⟨1, 1⟩], .lineString []])) :=
  containsM_point_geom _ _ (by decide +kernel)

/-- [T] the exclusion is necessary: `Point(1,1).contains(LineString[(1,1)])` is `true`, the mask on the specification is
`false` (the one-coordinate LineString is not valid). -/
theorem pointContains_one_coordinate_witness :
    containsM (.point ⟨1, 1⟩) (.lineString [⟨1, 1⟩]) = true ∧
    Gen.isContains (relateSpec (.point ⟨1, 1⟩) (.lineString [⟨1, 1⟩])) = false ∧
    inDomain (.lineString [⟨1, 1⟩]) = false := by
  decide +kernel

/-- [T] **`MultiPolygon: Contains<MultiPoint>` (no point `Outside`, one `Inside`) is the mask on the specification** (valid
MultiPolygon, any MultiPoint). -/
theorem containsM_multiPolygon_multiPoint (ps : List Poly) (cs : List Pt) (hd : inDomain (.multiPolygon ps) = true) :
    containsM (.multiPolygon ps) (.multiPoint cs) =
      Gen.isContains (relateSpec (.multiPolygon ps) (.multiPoint cs)) :=
  Geo.Proofs.C02Y.containsM_multiPolygon_multiPoint ps cs hd

example : containsM (.multiPolygon [⟨[⟨0, 0⟩, ⟨4, 0⟩, ⟨4, 4⟩, ⟨0, 4⟩, ⟨0, 0⟩], []⟩]) (.multiPoint [⟨2, 2⟩, ⟨4, 2⟩]) =
    Gen.isContains (relateSpec (.multiPolygon [⟨[⟨0, 0⟩, ⟨4, 0⟩, ⟨4, 4⟩, ⟨0, 4⟩, ⟨0, 0⟩], []⟩]) (.multiPoint [⟨2, 2⟩, ⟨4, 2⟩])) :=
  containsM_multiPolygon_multiPoint _ _ (by decide +kernel)

/-- [T] **`Line: Contains<Line>` is the mask on the specification** (both lines non-degenerate). -/
theorem containsM_line_line (a b c d : Pt) (ha : inDomain (.line a b) = true) (hb : inDomain (.line c d) = true) :
    containsM (.line a b) (.line c d) = Gen.isContains (relateSpec (.line a b) (.line c d)) :=
  Geo.Proofs.C02Y.containsM_line_line a b c d ha hb

example : containsM (.line ⟨0, 0⟩ ⟨4, 4⟩) (.line ⟨3, 3⟩ ⟨0, 0⟩) =
    Gen.isContains (relateSpec (.line ⟨0, 0⟩ ⟨4, 4⟩) (.line ⟨3, 3⟩ ⟨0, 0⟩)) :=
  containsM_line_line _ _ _ _ (by decide +kernel) (by decide +kernel)

/-- [T] **`Line: Contains<LineString>` (all coordinates on the line, not all equal or the first one interior) is the mask on
the specification** (valid operands: non-degenerate line; empty or simple line string). -/
theorem containsM_line_lineString (a b : Pt) (cs : List Pt) (ha : inDomain (.line a b) = true)
    (hb : inDomain (.lineString cs) = true) :
    containsM (.line a b) (.lineString cs) = Gen.isContains (relateSpec (.line a b) (.lineString cs)) :=
  Geo.Proofs.C02Y.containsM_line_lineString a b cs ha hb

example : containsM (.line ⟨0, 0⟩ ⟨4, 0⟩) (.lineString [⟨1, 0⟩, ⟨2, 0⟩, ⟨3, 0⟩]) =
    Gen.isContains (relateSpec (.line ⟨0, 0⟩ ⟨4, 0⟩) (.lineString [⟨1, 0⟩, ⟨2, 0⟩, ⟨3, 0⟩])) :=
  containsM_line_lineString _ _ _ (by decide +kernel) (by decide +kernel)

/-- [T] **the mask on the specification of `(LineString, Line)`** (non-degenerate line, ANY line string): every point of the
segment is a point of the line string. -/
theorem isContains_lineString_line (cs : List Pt) (c d : Pt) (hcd : c ≠ d) :
    Gen.isContains (relateSpec (.lineString cs) (.line c d)) = true ↔
      ∀ x, Geo.Proofs.Kernel.SegMem x c d → ∃ s ∈ segs cs, Geo.Proofs.Kernel.SegMem x s.1 s.2 :=
  Geo.Proofs.C02Y.isContains_lineString_line cs c d hcd

example : Gen.isContains (relateSpec (.lineString [⟨0, 0⟩, ⟨4, 0⟩]) (.line ⟨1, 0⟩ ⟨5, 0⟩)) = false := by
  cases h : Gen.isContains (relateSpec (.lineString [⟨0, 0⟩, ⟨4, 0⟩]) (.line ⟨1, 0⟩ ⟨5, 0⟩)) with
  | false => rfl
  | true =>
    exfalso
    obtain ⟨s, hs, t, _, _, hx, _⟩ := (isContains_lineString_line _ _ _ (by decide)).mp h ⟨5, 0⟩
      ⟨1, by norm_num, by norm_num, by norm_num, by norm_num⟩
    simp only [segs, List.mem_singleton] at hs
    subst hs
    simp only at hx
    nlinarith

/-- [T] `LineString: Contains<Line>` (the two-pass truncation loop `lsContainsLine`) is the mask on the specification, given
the point-set statement about the loop. Full statement (no `hloop`; valid line string, non-degenerate line): needs the loop
invariant of `cutStep` — "what is left of the query segment is `[s, e]`, the rest is covered" — and that two passes over the
segments of a simple line string always suffice; not proved, [C] decides `LineString × Line` and `LineString × LineString`
meanwhile. -/
theorem containsM_lineString_line_partial (cs : List Pt) (c d : Pt) (hb : inDomain (.line c d) = true)
    (hloop : lsContainsLine cs c d = true ↔
      ∀ x, Geo.Proofs.Kernel.SegMem x c d → ∃ s ∈ segs cs, Geo.Proofs.Kernel.SegMem x s.1 s.2) :
    containsM (.lineString cs) (.line c d) = Gen.isContains (relateSpec (.lineString cs) (.line c d)) :=
  Geo.Proofs.C02Y.containsM_lineString_line_of_loop cs c d hb hloop

example : containsM (.lineString [⟨0, 0⟩, ⟨4, 0⟩]) (.line ⟨1, 0⟩ ⟨3, 0⟩) =
    Gen.isContains (relateSpec (.lineString [⟨0, 0⟩, ⟨4, 0⟩]) (.line ⟨1, 0⟩ ⟨3, 0⟩)) :=
  containsM_lineString_line_partial _ _ _ (by decide +kernel)
    ⟨fun _ x hx => ⟨(⟨0, 0⟩, ⟨4, 0⟩), by simp [segs], by
        obtain ⟨t, t0, t1, hx1, hx2⟩ := hx
        exact ⟨1 / 4 + t / 2, by linarith, by linarith, by rw [hx1]; ring, by rw [hx2]; ring⟩⟩,
      fun _ => by decide +kernel⟩

/-- [T] **the truncation loop has no false positive**: `LineString.contains(Line) = true` (non-degenerate line, ANY line
string) implies the mask `T*****FF*` on the specification. Loop invariant of `cutStep` (`Geo.Proofs.C02Y.Inv`): every point of
the query segment is on the line string or on what is left of the query, `[s, e]`; after `return true` every point is on the
line string (`Geo.Proofs.C02Y.lsContainsLine_sound`). The converse (two passes always suffice on a simple line string) is the
open half of `containsM_lineString_line_partial`. -/
theorem containsM_lineString_line_sound (cs : List Pt) (c d : Pt) (hb : inDomain (.line c d) = true)
    (h : containsM (.lineString cs) (.line c d) = true) :
    Gen.isContains (relateSpec (.lineString cs) (.line c d)) = true :=
  Geo.Proofs.C02Y.containsM_lineString_line_sound cs c d hb h

example : Gen.isContains (relateSpec (.lineString [⟨0, 0⟩, ⟨2, 0⟩, ⟨4, 0⟩, ⟨4, 4⟩]) (.line ⟨3, 0⟩ ⟨1, 0⟩)) = true :=
  containsM_lineString_line_sound _ _ _ (by decide +kernel) (by decide +kernel)

/-- [T] **`Rect: Contains<Rect>` (four non-strict comparisons) is the mask on the specification**, both Rects of positive width
and height (for a degenerate operand it is not: K7, `rectContainsRect_degenerate_witness`). Both operands are areal: the
face samples of the specification are located exactly (`Geo.Proofs.C02Y.rect_windingE`: winding number of `Rect::to_polygon`
about a point perturbed by the symbolic infinitesimal). -/
theorem containsM_rect_rect (amn amx bmn bmx : Pt) (ha : inDomain (.rect amn amx) = true)
    (hb : inDomain (.rect bmn bmx) = true) :
    containsM (.rect amn amx) (.rect bmn bmx) = Gen.isContains (relateSpec (.rect amn amx) (.rect bmn bmx)) :=
  Geo.Proofs.C02Y.containsM_rect_rect amn amx bmn bmx ha hb

example : containsM (.rect ⟨0, 0⟩ ⟨4, 4⟩) (.rect ⟨0, 1⟩ ⟨2, 4⟩) =
    Gen.isContains (relateSpec (.rect ⟨0, 0⟩ ⟨4, 4⟩) (.rect ⟨0, 1⟩ ⟨2, 4⟩)) :=
  containsM_rect_rect _ _ _ _ (by decide +kernel) (by decide +kernel)

/-! ### C02Z: the last three hand-written `contains` pairs — LineString × Line (completeness of the truncation loop),
LineString × LineString, Rect × Polygon -/

/-- [T] **completeness of the truncation loop of `LineString: Contains<Line>`** — with `containsM_lineString_line_sound`:
on a valid line string the loop answers `true` exactly when every point of the (non-degenerate) query segment is on the line
string, PROVIDED the query does not run through the closure point of a closed line string (`Geo.Proofs.C02Z.noWrap`:
`cs` open, or the first coordinate of `cs` not strictly inside `[a, b]`). Then the FIRST pass over the segments already
answers (`Geo.Proofs.C02Z.sweep`): in the parameter of the query line every segment has an interval as trace
(`trace_cases`); an iteration leaves the query alone, cuts it at an end point of the segment, or returns `true`, and what
is left is covered by the later segments (finitely many segments are closed: `covered_plus` / `covered_minus`; a segment in
the middle of the query is impossible on a simple path: `SimpleChain`, from `lineStringSimple` by `simpleChain_of_simple`).
Full statement (no `hnw`): the excluded inputs are exactly the closed line strings whose first edge continues the last one
with the query passing through the closure point — there the first pass leaves `[closure point, first cut]` and only the
second pass (`i < num_lines + first_cut`) removes it; not proved ([C] decides those; `lineString_line_wrap_witness`). -/
theorem lsContainsLine_iff_partial (cs : List Pt) (a b : Pt) (hd : inDomain (.lineString cs) = true) (hab : a ≠ b)
    (hnw : Geo.Proofs.C02Z.noWrap cs a b = true) :
    lsContainsLine cs a b = true ↔
      ∀ x, Geo.Proofs.Kernel.SegMem x a b → ∃ s ∈ segs cs, Geo.Proofs.Kernel.SegMem x s.1 s.2 :=
  Geo.Proofs.C02Z.lsContainsLine_iff_noWrap cs a b hd hab hnw

example : lsContainsLine [⟨0, 0⟩, ⟨2, 0⟩, ⟨2, 0⟩, ⟨4, 0⟩, ⟨4, 4⟩, ⟨0, 4⟩, ⟨0, 0⟩] ⟨3, 0⟩ ⟨1, 0⟩ = true :=
  (lsContainsLine_iff_partial _ _ _ (by decide +kernel) (by decide) (by decide +kernel)).mpr (fun x hx => by
    obtain ⟨t, t0, t1, hx1, hx2⟩ := hx
    by_cases ht : t ≤ 1 / 2
    · exact ⟨(⟨2, 0⟩, ⟨4, 0⟩), by simp [segs], 1 / 2 - t, by linarith, by linarith, by rw [hx1]; ring, by rw [hx2]; ring⟩
    · exact ⟨(⟨0, 0⟩, ⟨2, 0⟩), by simp [segs], 3 / 2 - t, by linarith, by linarith, by rw [hx1]; ring, by rw [hx2]; ring⟩)

/-- [T] **`LineString: Contains<Line>` is the mask `T*****FF*` on the specification** (valid line string, non-degenerate
line, the line not running through the closure point of a closed line string — every open line string qualifies,
`Geo.Proofs.C02Z.noWrap_of_open`). Full statement: without `hnw` (see `lsContainsLine_iff_partial`). -/
theorem containsM_lineString_line_noWrap_partial (cs : List Pt) (c d : Pt) (ha : inDomain (.lineString cs) = true)
    (hb : inDomain (.line c d) = true) (hnw : Geo.Proofs.C02Z.noWrap cs c d = true) :
    containsM (.lineString cs) (.line c d) = Gen.isContains (relateSpec (.lineString cs) (.line c d)) :=
  Geo.Proofs.C02Z.containsM_lineString_line_noWrap cs c d ha hb hnw

example : containsM (.lineString [⟨0, 0⟩, ⟨2, 0⟩, ⟨4, 0⟩, ⟨4, 4⟩, ⟨0, 4⟩, ⟨0, 0⟩]) (.line ⟨3, 0⟩ ⟨1, 0⟩) =
    Gen.isContains (relateSpec (.lineString [⟨0, 0⟩, ⟨2, 0⟩, ⟨4, 0⟩, ⟨4, 4⟩, ⟨0, 4⟩, ⟨0, 0⟩]) (.line ⟨3, 0⟩ ⟨1, 0⟩)) :=
  containsM_lineString_line_noWrap_partial _ _ _ (by decide +kernel) (by decide +kernel) (by decide +kernel)

/-- [T] … in particular for every OPEN valid line string (one pass suffices; full strength on that part of the domain). -/
theorem containsM_lineString_line_open_partial (cs : List Pt) (c d : Pt) (ha : inDomain (.lineString cs) = true)
    (hb : inDomain (.line c d) = true) (hop : isClosedLS cs = false) :
    containsM (.lineString cs) (.line c d) = Gen.isContains (relateSpec (.lineString cs) (.line c d)) :=
  Geo.Proofs.C02Z.containsM_lineString_line_noWrap cs c d ha hb (Geo.Proofs.C02Z.noWrap_of_open hop c d)

example : containsM (.lineString [⟨0, 0⟩, ⟨2, 0⟩, ⟨4, 0⟩, ⟨4, 4⟩]) (.line ⟨3, 0⟩ ⟨5, 0⟩) =
    Gen.isContains (relateSpec (.lineString [⟨0, 0⟩, ⟨2, 0⟩, ⟨4, 0⟩, ⟨4, 4⟩]) (.line ⟨3, 0⟩ ⟨5, 0⟩)) :=
  containsM_lineString_line_open_partial _ _ _ (by decide +kernel) (by decide +kernel) (by decide +kernel)

/-- [T] the excluded class is not empty, and on this member of it the code is right all the same (the second pass does its
work): a closed ring whose first edge continues the last one, the query through the closure point `(2, 0)`. -/
theorem lineString_line_wrap_witness :
    Geo.Proofs.C02Z.noWrap [⟨2, 0⟩, ⟨4, 0⟩, ⟨4, 4⟩, ⟨0, 4⟩, ⟨0, 0⟩, ⟨2, 0⟩] ⟨1, 0⟩ ⟨3, 0⟩ = false ∧
    inDomain (.lineString [⟨2, 0⟩, ⟨4, 0⟩, ⟨4, 4⟩, ⟨0, 4⟩, ⟨0, 0⟩, ⟨2, 0⟩]) = true ∧
    containsM (.lineString [⟨2, 0⟩, ⟨4, 0⟩, ⟨4, 4⟩, ⟨0, 4⟩, ⟨0, 0⟩, ⟨2, 0⟩]) (.line ⟨1, 0⟩ ⟨3, 0⟩) = true ∧
    Gen.isContains (relateSpec (.lineString [⟨2, 0⟩, ⟨4, 0⟩, ⟨4, 4⟩, ⟨0, 4⟩, ⟨0, 0⟩, ⟨2, 0⟩]) (.line ⟨1, 0⟩ ⟨3, 0⟩)) = true := by
  decide +kernel

/-- [T] **`LineString: Contains<LineString>` (every proper segment of the argument asked of the truncation loop; zero-length
segments only when there is no proper one — after fix f55ddeac) is the mask `T*****FF*` on the specification**, both
operands valid, given the completeness of the loop on the proper segments of the argument (its soundness is
`containsM_lineString_line_sound`). Specification side: the mask is "some point interior to both, every point of `ds` on
`cs`" (`isContains_iff_point_set`); a valid non-empty argument has a proper segment, every coordinate of it is an end point of
a proper segment (`Geo.Proofs.C02Z.coord_proper_end`), a proper segment carries a point interior to both operands. Full
statement: without `hloop`. -/
theorem containsM_lineString_lineString_loop_partial (cs ds : List Pt)
    (ha : inDomain (.lineString cs) = true) (hb : inDomain (.lineString ds) = true)
    (hloop : ∀ s ∈ segs ds, s.1 ≠ s.2 →
      (∀ x, Geo.Proofs.Kernel.SegMem x s.1 s.2 → ∃ t ∈ segs cs, Geo.Proofs.Kernel.SegMem x t.1 t.2) →
      lsContainsLine cs s.1 s.2 = true) :
    containsM (.lineString cs) (.lineString ds) = Gen.isContains (relateSpec (.lineString cs) (.lineString ds)) :=
  Geo.Proofs.C02Z.containsM_lineString_lineString_of_loop cs ds ha hb hloop

example : containsM (.lineString [⟨0, 0⟩, ⟨2, 0⟩, ⟨4, 0⟩, ⟨4, 4⟩]) (.lineString [⟨3, 0⟩, ⟨1, 0⟩, ⟨1, 0⟩]) =
    Gen.isContains (relateSpec (.lineString [⟨0, 0⟩, ⟨2, 0⟩, ⟨4, 0⟩, ⟨4, 4⟩]) (.lineString [⟨3, 0⟩, ⟨1, 0⟩, ⟨1, 0⟩])) := by
  refine containsM_lineString_lineString_loop_partial _ _ (by decide +kernel) (by decide +kernel) ?_
  intro s hs hne _
  simp only [segs, List.mem_cons, List.not_mem_nil, or_false] at hs
  rcases hs with rfl | rfl
  · decide +kernel
  · exact absurd rfl hne

/-- [T] **`LineString: Contains<LineString>` is the mask on the specification**, both operands valid, no proper segment of the
argument running through the closure point of a closed first operand (`Geo.Proofs.C02Z.noWrapLs`; every open first operand
qualifies, `noWrapLs_of_open`). Full statement: without `hnw` (see `lsContainsLine_iff_partial`). -/
theorem containsM_lineString_lineString_noWrap_partial (cs ds : List Pt)
    (ha : inDomain (.lineString cs) = true) (hb : inDomain (.lineString ds) = true)
    (hnw : Geo.Proofs.C02Z.noWrapLs cs ds = true) :
    containsM (.lineString cs) (.lineString ds) = Gen.isContains (relateSpec (.lineString cs) (.lineString ds)) :=
  Geo.Proofs.C02Z.containsM_lineString_lineString_noWrap cs ds ha hb hnw

example : containsM (.lineString [⟨0, 0⟩, ⟨2, 0⟩, ⟨4, 0⟩, ⟨4, 4⟩, ⟨0, 4⟩, ⟨0, 0⟩]) (.lineString [⟨3, 0⟩, ⟨4, 0⟩, ⟨4, 0⟩, ⟨4, 2⟩]) =
    Gen.isContains (relateSpec (.lineString [⟨0, 0⟩, ⟨2, 0⟩, ⟨4, 0⟩, ⟨4, 4⟩, ⟨0, 4⟩, ⟨0, 0⟩])
      (.lineString [⟨3, 0⟩, ⟨4, 0⟩, ⟨4, 0⟩, ⟨4, 2⟩])) :=
  containsM_lineString_lineString_noWrap_partial _ _ (by decide +kernel) (by decide +kernel) (by decide +kernel)

/-- [T] the winding number of a closed ring about a face sample (a point perturbed by the symbolic infinitesimal) is zero
unless the sample lies in the half-open coordinate box of the ring, in the lexicographic order of `a + b·δ` — the
infinitesimal version of `locateFace_outside_bbox` (samples beside the boundary of the box are decided by their `δ` part). -/
theorem windingE_in_box (e : EPt) (ring : List Pt) (hc : ring.head? = ring.getLast?) (mn mx : Pt)
    (hbox : ∀ c ∈ ring, mn.x ≤ c.x ∧ c.x ≤ mx.x ∧ mn.y ≤ c.y ∧ c.y ≤ mx.y) (hw : windingE e ring ≠ 0) :
    Geo.Proofs.C02Y.ELe mn.y 0 e.y0 e.y1 ∧ Geo.Proofs.C02Y.ELt e.y0 e.y1 mx.y 0 ∧
      Geo.Proofs.C02Y.ELt e.x0 e.x1 mx.x 0 ∧ ¬ Geo.Proofs.C02Y.ELt e.x0 e.x1 mn.x 0 :=
  Geo.Proofs.C02Z.windingE_box e ring hc mn mx hbox hw

example : Geo.Proofs.C02Y.ELt 4 (-1) 4 0 :=
  (windingE_in_box ⟨4, -1, 2, 0⟩ [⟨0, 0⟩, ⟨4, 0⟩, ⟨4, 4⟩, ⟨0, 4⟩, ⟨0, 0⟩] rfl ⟨0, 0⟩ ⟨4, 4⟩
    (by intro c hc; simp only [List.mem_cons, List.not_mem_nil, or_false] at hc
        rcases hc with rfl | rfl | rfl | rfl | rfl <;> norm_num) (by decide +kernel)).2.2.1

/-- [T] **`Rect: Contains<Polygon>` (every exterior coordinate in the closed Rect, and one strictly inside or
`signed_area ≠ 0`) is the mask `T*****FF*` on the specification**: Rect of positive width and height (K7 excluded), polygon of
the validity domain (empty, or OGC-valid — holes included: `BE = F` keeps them in the box of the shell). Code `false`: the
empty polygon has `II = F`; an exterior coordinate outside the Rect is a vertex located in `B` and outside `A`. Code `true`:
every point and every face sample located in the polygon lies in the Rect (`windingE_in_box`), and one of the two face
samples beside an exterior edge is interior to the polygon (`valid_polygon_side_inside`), hence to both. The one hypothesis
left, `harea`, is only needed when NO exterior coordinate is strictly inside the Rect (all of them on its boundary):
"an OGC-valid polygon has non-zero signed area". Full statement: without `harea`; the shoelace sum of a simple ring is not
zero — not proved here (C05 has it for convex rings only); [C] decides those cases. -/
theorem containsM_rect_polygon_partial (mn mx : Pt) (p : Poly)
    (ha : inDomain (.rect mn mx) = true) (hb : inDomain (.polygon p) = true)
    (harea : polyValid p = true → (p.ext.filter (fun c => rectContainsCoord mn mx c)).length = 0 → p.signedArea ≠ 0) :
    containsM (.rect mn mx) (.polygon p) = Gen.isContains (relateSpec (.rect mn mx) (.polygon p)) :=
  Geo.Proofs.C02Z.containsM_rect_polygon_partial' mn mx p ha hb harea

example : containsM (.rect ⟨0, 0⟩ ⟨4, 4⟩) (.polygon ⟨[⟨0, 0⟩, ⟨4, 0⟩, ⟨4, 4⟩, ⟨0, 0⟩], []⟩) =
    Gen.isContains (relateSpec (.rect ⟨0, 0⟩ ⟨4, 4⟩) (.polygon ⟨[⟨0, 0⟩, ⟨4, 0⟩, ⟨4, 4⟩, ⟨0, 0⟩], []⟩)) :=
  containsM_rect_polygon_partial _ _ _ (by decide +kernel) (by decide +kernel)
    (fun _ _ => by norm_num [Poly.signedArea, ringArea, twiceSignedRingArea, shiftedDets, det, rabs])

/-- [T] … with no hypothesis on the area when some exterior coordinate of the polygon is strictly inside the Rect (full strength
on that part of the domain; polygons with holes included). -/
theorem containsM_rect_polygon_inner_partial (mn mx : Pt) (p : Poly)
    (ha : inDomain (.rect mn mx) = true) (hb : inDomain (.polygon p) = true)
    (hin : p.ext.any (fun c => rectContainsCoord mn mx c) = true) :
    containsM (.rect mn mx) (.polygon p) = Gen.isContains (relateSpec (.rect mn mx) (.polygon p)) :=
  Geo.Proofs.C02Z.containsM_rect_polygon_partial' mn mx p ha hb (fun _ h0 => by
    exfalso
    obtain ⟨c, hc, hcc⟩ := List.any_eq_true.mp hin
    have : c ∈ p.ext.filter (fun c => rectContainsCoord mn mx c) := List.mem_filter.mpr ⟨hc, hcc⟩
    rw [List.length_eq_zero_iff.mp h0] at this
    cases this)

example : containsM (.rect ⟨0, 0⟩ ⟨10, 10⟩) (.polygon ⟨[⟨0, 0⟩, ⟨10, 0⟩, ⟨9, 9⟩, ⟨0, 10⟩, ⟨0, 0⟩],
      [[⟨2, 2⟩, ⟨4, 2⟩, ⟨4, 4⟩, ⟨2, 2⟩]]⟩) =
    Gen.isContains (relateSpec (.rect ⟨0, 0⟩ ⟨10, 10⟩) (.polygon ⟨[⟨0, 0⟩, ⟨10, 0⟩, ⟨9, 9⟩, ⟨0, 10⟩, ⟨0, 0⟩],
      [[⟨2, 2⟩, ⟨4, 2⟩, ⟨4, 4⟩, ⟨2, 2⟩]]⟩)) :=
  containsM_rect_polygon_inner_partial _ _ _ (by decide +kernel) (by decide +kernel) (by decide +kernel)

/-! ### TRAN: the `CoordinatePosition` accumulator, clause by clause, is the term read off the Rust bodies -/

/-- [T] (translator tie) `coord_pos_relative_to_ring` as a whole — the empty / one-coordinate prologue, the winding loop
over `lines()` with its early `return CoordPos::OnBoundary`, and the final `winding_number == 0` test — regenerated from
the Rust body on this run, equals `ringPos`. -/
theorem ringPos_eq_source (p : Pt) (ring : List Pt) : ringPos p ring = Gen.coordPosRelativeToRing p ring :=
  Geo.Proofs.TRANCoordPos.ringPos_eq p ring

/-- [T] (translator tie) every `calculate_coordinate_position` body of coordinate_position.rs (Coord, Point, Line,
LineString, Triangle, Rect, MultiPoint, Polygon with its loop over the interiors, MultiLineString, MultiPolygon,
GeometryCollection — the recursive call through the `Geometry` enum being `calcPos` itself),
regenerated on this run as a state transformer `PosAcc → PosAcc` (`*is_inside = true`, `*boundary_count += 1`, `return;`,
nested calls on the same accumulator), equals the clause of the hand-written model `calcPos`. -/
theorem calculateCoordinatePosition_eq_source :
    (∀ q p acc, calcPoint q p acc = Gen.coordCalc q p acc) ∧
    (∀ q p acc, calcPoint q p acc = Gen.pointCalc q p acc) ∧
    (∀ a b p acc, calcLine a b p acc = Gen.lineCalc a b p acc) ∧
    (∀ cs p acc, calcLineString cs p acc = Gen.lineStringCalc cs p acc) ∧
    (∀ a b c p acc, calcTriangle a b c p acc = Gen.triangleCalc a b c p acc) ∧
    (∀ mn mx p acc, calcRect mn mx p acc = Gen.rectCalc mn mx p acc) ∧
    (∀ qs p acc, calcPos (.multiPoint qs) p acc = Gen.multiPointCalc qs p acc) ∧
    (∀ poly p acc, calcPolygon poly p acc = Gen.polygonCalc poly p acc) ∧
    (∀ ls p acc, calcPos (.multiLineString ls) p acc = Gen.multiLineStringCalc ls p acc) ∧
    (∀ ps p acc, calcMultiPolygon ps p acc = Gen.multiPolygonCalc ps p acc) ∧
    (∀ gs p acc, calcPos (.collection gs) p acc = Gen.geometryCollectionCalc calcPos gs p acc) :=
  ⟨Geo.Proofs.TRANCoordPos.calcPoint_eq, Geo.Proofs.TRANCoordPos.calcPoint_eq_point,
   Geo.Proofs.TRANCoordPos.calcLine_eq, Geo.Proofs.TRANCoordPos.calcLineString_eq,
   Geo.Proofs.TRANCoordPos.calcTriangle_eq, Geo.Proofs.TRANCoordPos.calcRect_eq,
   fun qs p acc => by simp only [calcPos]; exact Geo.Proofs.TRANCoordPos.calcMultiPoint_eq qs p acc,
   Geo.Proofs.TRANCoordPos.calcPolygon_eq,
   fun ls p acc => by simp only [calcPos]; exact Geo.Proofs.TRANCoordPos.calcMultiLineString_eq ls p acc,
   Geo.Proofs.TRANCoordPos.calcMultiPolygon_eq,
   fun gs p acc => by simp only [calcPos]; exact Geo.Proofs.TRANCoordPos.calcPosList_eq gs p acc⟩

/-- [T] (translator tie) the provided trait method `coordinate_position` (fresh accumulator, mod-2 rule on the
boundary count, then `is_inside`) regenerated from its Rust body, applied to the model's accumulator pass. -/
theorem coordinatePosition_eq_source (g : Geom) (p : Pt) :
    coordPos g p = Gen.coordinatePosition (calcPos g) p :=
  Geo.Proofs.TRANCoordPos.coordPos_eq g p

/-- [T] (translator tie) the hand-written `contains` bodies `Line: Contains<Coord>`, `Line: Contains<Line>`,
`Rect: Contains<Polygon>` (loop over the exterior coordinates with early `return false` and the `points_inside` counter)
and `Triangle: Intersects<Coord>` (orientations of `to_lines()`, `sort()`, the `windows(2).any(..)` test), regenerated
from the Rust bodies on this run, equal the model functions. -/
theorem contains_kernels_eq_source :
    (∀ a b c, lineContainsCoord a b c = Gen.lineContainsCoord a b c) ∧
    (∀ a b c d, lineContainsLine a b c d = Gen.lineContainsLine a b c d) ∧
    (∀ mn mx q, rectContainsPolygon mn mx q = Gen.rectContainsPolygon mn mx q) ∧
    (∀ a b c p, triCoord a b c p = Gen.triangleCoord a b c p) :=
  ⟨Geo.Proofs.TRANArea.lineContainsCoord_eq, Geo.Proofs.TRANArea.lineContainsLine_eq,
   Geo.Proofs.TRANArea.rectContainsPolygon_eq, Geo.Proofs.TRANArea.triCoord_eq⟩

end Geo.Proofs.C02
