/-
  C15 — Interpolation, location and densification agree along a line.
-/
import GeoModel.Interp

namespace Geo.Proofs.C15
open Geo Geo.Interp

/-- [T] the ratio form of a LineString is the distance form at `r · length` (definitional). -/
theorem ratio_distance (len : Len) (cs : List Pt) (r : Rat) :
    lsPointAtRatioFromStart len cs r = lsPointAtDistanceFromStart len cs (r * lsLength len cs) := rfl

end Geo.Proofs.C15
