/-
  C15 — Interpolation, location and densification agree along a line.

  Property theorems only (helper lemmas: GeoProofs/Lemmas/C15.lean, C15PSimple.lean, C15POn.lean,
  C15PDensify.lean; `segs` is written `Interp.segs` because `Geo.segs` of GeoModel/Segment.lean is in
  scope through the `lineCoord` kernel). Model: GeoModel/Interp.lean.
  Segment lengths enter through an abstract `len`; what a theorem needs of it is the hypothesis
  `LenAx len` (non-negative, symmetric, zero only between equal points) — all true of the Euclidean
  length — or is stated explicitly.
-/
import GeoModel.Interp
import GeoModel.Gen.InterpGen
import GeoProofs.Lemmas.C15
import GeoProofs.Lemmas.C15PSimple
import GeoProofs.Lemmas.C15POn
import GeoProofs.Lemmas.C15PDensify

namespace Geo.Proofs.C15
open Geo Geo.Interp

/-! ### ratio form, distance form, clamping -/

/-- [T] the ratio form of a LineString is the distance form at `r · length` (definitional). -/
theorem ratio_distance (len : Len) (cs : List Pt) (r : Rat) :
    lsPointAtRatioFromStart len cs r = lsPointAtDistanceFromStart len cs (r * lsLength len cs) := rfl

theorem ratio_distance_end (len : Len) (cs : List Pt) (r : Rat) :
    lsPointAtRatioFromEnd len cs r = lsPointAtDistanceFromEnd len cs (r * lsLength len cs) := rfl

/-- [T] Line: a ratio `≤ 0` gives the start, `≥ 1` the end (and mirrored from the end). -/
theorem line_ratio_clamp (a b : Pt) (r : Rat) :
    (r ≤ 0 → linePointAtRatioFromStart a b r = a ∧ linePointAtRatioFromEnd a b r = b) ∧
    (1 ≤ r → linePointAtRatioFromStart a b r = b ∧ linePointAtRatioFromEnd a b r = a) := by
  constructor
  · intro h; simp [linePointAtRatioFromStart, linePointAtRatioFromEnd, h]
  · intro h
    have h' : ¬ r ≤ 0 := by linarith
    simp [linePointAtRatioFromStart, linePointAtRatioFromEnd, h, h']

/-- [T] Line: a distance `≤ 0` gives the start, `≥ length` the end (as points of the plane). -/
theorem line_distance_clamp {len : Len} (hl : LenAx len) (a b : Pt) (d : Rat) :
    (d ≤ 0 → linePointAtDistanceFromStart len a b d = a ∧ linePointAtDistanceFromEnd len a b d = b) ∧
    (len a b ≤ d → linePointAtDistanceFromStart len a b d = b ∧ linePointAtDistanceFromEnd len a b d = a) := by
  constructor
  · intro h; simp [linePointAtDistanceFromStart, linePointAtDistanceFromEnd, h]
  · intro h
    by_cases h0 : d ≤ 0
    · have hz : len a b = 0 := by have := hl.nonneg a b; linarith
      have := hl.eq_of_zero a b hz; subst this
      simp [linePointAtDistanceFromStart, linePointAtDistanceFromEnd, h0]
    · simp [linePointAtDistanceFromStart, linePointAtDistanceFromEnd, h0, h]

/-- [T] Line: strictly inside, the distance form never divides by a zero length. -/
theorem line_distance_inside_pos (len : Len) (a b : Pt) (d : Rat) (h0 : 0 < d) (h1 : d < len a b) :
    0 < len a b ∧ linePointAtDistanceFromStart len a b d = pointAtDistanceBetween len a b d := by
  refine ⟨by linarith, ?_⟩
  simp [linePointAtDistanceFromStart, not_le.2 h0, not_le.2 h1]

/-- [T] Line: ratio form and distance form coincide, `r ↦ r · length`. -/
theorem line_ratio_distance {len : Len} (hl : LenAx len) (a b : Pt) (r : Rat) :
    linePointAtRatioFromStart a b r = linePointAtDistanceFromStart len a b (r * len a b) := by
  by_cases h0 : len a b = 0
  · have := hl.eq_of_zero a b h0; subst this
    simp only [linePointAtRatioFromStart, linePointAtDistanceFromStart, h0, mul_zero, le_refl, if_true]
    split
    · rfl
    · split
      · rfl
      · apply Pt.ext' <;> simp [lerp]
  · have hp : 0 < len a b := lt_of_le_of_ne (hl.nonneg a b) (Ne.symm h0)
    simp only [linePointAtRatioFromStart, linePointAtDistanceFromStart]
    by_cases hr0 : r ≤ 0
    · have : r * len a b ≤ 0 := mul_nonpos_of_nonpos_of_nonneg hr0 (le_of_lt hp)
      simp [hr0, this]
    · have hr0' : 0 < r := not_le.1 hr0
      have : ¬ r * len a b ≤ 0 := not_le.2 (mul_pos hr0' hp)
      simp only [hr0, this, if_false]
      by_cases hr1 : r ≥ 1
      · have : r * len a b ≥ len a b := by nlinarith
        simp [hr1, this]
      · have : ¬ r * len a b ≥ len a b := by
          intro h; apply hr1; have := not_le.1 hr1; nlinarith
        simp only [hr1, this, if_false]
        apply Pt.ext' <;> simp only [lerp, pointAtDistanceBetween] <;> field_simp

/-- [T] Line: `from_start(r)` and `from_end(1 − r)` are the same point, for every `r`. -/
theorem line_ratio_start_end (a b : Pt) (r : Rat) :
    linePointAtRatioFromStart a b r = linePointAtRatioFromEnd a b (1 - r) := by
  simp only [linePointAtRatioFromStart, linePointAtRatioFromEnd]
  by_cases h0 : r ≤ 0
  · have : 1 - r ≥ 1 := by linarith
    have h' : ¬ (1 - r ≤ 0) := by linarith
    simp [h0, this, h']
  · by_cases h1 : r ≥ 1
    · have : 1 - r ≤ 0 := by linarith
      simp [h0, h1, this]
    · have h2 : ¬ (1 - r ≤ 0) := by linarith
      have h3 : ¬ (1 - r ≥ 1) := by intro h; apply h0; linarith
      simp only [h0, h1, h2, h3, if_false]
      apply Pt.ext' <;> simp only [lerp] <;> ring

/-- [T] LineString: a distance `≤ 0` gives the first coordinate (from the end: the last). -/
theorem ls_distance_clamp_lo (len : Len) (cs : List Pt) (d : Rat) (h : d ≤ 0) :
    lsPointAtDistanceFromStart len cs d = cs.head? ∧ lsPointAtDistanceFromEnd len cs d = cs.getLast? := by
  simp [lsPointAtDistanceFromStart, lsPointAtDistanceFromEnd, h]

/-! ### the walk -/

/-- [T] `walk_arclength`: for `0 < d` the walk stops on the segment `(a,b)` whose cumulative
interval contains `d` — `Σ pre < d ≤ Σ pre + len a b` — with remaining distance
`d − Σ pre`; that segment has positive length (a zero-length segment is skipped, never divided
by). -/
theorem walk_arclength (len : Len) (ss : List (Pt × Pt)) (d : Rat) (a b : Pt) (r : Rat) (hd : 0 < d)
    (h : walk len ss d = some (a, b, r)) :
    ∃ pre post, ss = pre ++ (a, b) :: post ∧ r = d - sumLen len pre ∧
      sumLen len pre < d ∧ d ≤ sumLen len pre + len a b ∧ 0 < len a b := by
  obtain ⟨pre, post, e, hr, hpos, hle⟩ := walk_some ss d hd h
  exact ⟨pre, post, e, hr, by linarith, by linarith, by linarith⟩

/-- [T] the walk runs off the end exactly when `d` exceeds the total length. -/
theorem walk_off_end {len : Len} (hl : LenAx len) (ss : List (Pt × Pt)) (d : Rat) (hd : 0 < d) :
    walk len ss d = none ↔ sumLen len ss < d :=
  ⟨walk_none ss d hd, walk_eq_none hl ss d⟩

/-- [T] `from_end` is `from_start` of the reversed line string (same walk over `rev_lines`). -/
theorem from_end_eq_reverse (len : Len) (cs : List Pt) (d : Rat) :
    lsPointAtDistanceFromEnd len cs d = lsPointAtDistanceFromStart len cs.reverse d := by
  simp only [lsPointAtDistanceFromEnd, lsPointAtDistanceFromStart, revSegs_eq_flipRev, segs_reverse,
    List.head?_reverse, List.getLast?_reverse]

/-! ### arc-length characterisation and the start/end symmetry -/

private theorem segs_head {cs : List Pt} {a b : Pt} {rest : List (Pt × Pt)}
    (h : Interp.segs cs = (a, b) :: rest) : cs.head? = some a := by
  match cs, h with
  | x :: y :: t, h => simp only [Interp.segs, List.cons.injEq, Prod.mk.injEq] at h; simp [h.1.1]

private theorem segs_last : ∀ {cs : List Pt} {init : List (Pt × Pt)} {a b : Pt},
    Interp.segs cs = init ++ [(a, b)] → cs.getLast? = some b
  | [], init, a, b, h => by simp [Interp.segs] at h
  | [_], init, a, b, h => by simp [Interp.segs] at h
  | [x, y], init, a, b, h => by
    cases init with
    | nil => simp only [Interp.segs, List.nil_append, List.cons.injEq, Prod.mk.injEq, and_true] at h; simp [h.2]
    | cons i is => simp [Interp.segs] at h
  | x :: y :: z :: t, init, a, b, h => by
    cases init with
    | nil => simp [Interp.segs] at h
    | cons i is =>
      simp only [Interp.segs, List.cons_append, List.cons.injEq] at h
      have := segs_last (cs := y :: z :: t) (init := is) (a := a) (b := b) (by simpa [Interp.segs] using h.2)
      simpa using this

/-- [T] `lies on the line at arc length d`: for `0 ≤ d ≤ length` (and at least one segment) the
distance form returns a point that is at arc length `d` on the chain of segments (`OnSegs`: on
a segment whose cumulative interval contains `d`, at `len`-distance `d − Σ before` from its
start); by `onSegs_unique` that point is unique. -/
theorem ls_distance_onSegs {len : Len} (hl : LenAx len) (cs : List Pt) (d : Rat) (hne : Interp.segs cs ≠ [])
    (h0 : 0 ≤ d) (h1 : d ≤ lsLength len cs) :
    ∃ p, lsPointAtDistanceFromStart len cs d = some p ∧ OnSegs len (Interp.segs cs) d p := by
  unfold lsPointAtDistanceFromStart
  by_cases hd : d ≤ 0
  · have hd0 : d = 0 := le_antisymm hd h0
    rw [if_pos hd]
    match hs : Interp.segs cs, hne with
    | (a, b) :: rest, _ =>
      exact ⟨a, segs_head hs, Or.inl ⟨h0, by rw [hd0]; exact hl.nonneg a b, by rw [hd0, pdb_zero]⟩⟩
  · rw [if_neg hd]
    have hpos : 0 < d := not_le.1 hd
    match hw : walk len (Interp.segs cs) d with
    | some (a, b, r) => exact ⟨_, rfl, walk_onSegs (Interp.segs cs) d hpos hw⟩
    | none =>
      have := walk_none (Interp.segs cs) d hpos hw
      unfold lsLength at h1
      linarith

/-- [T] LineString: a distance `≥ length` gives the last coordinate, as a point of the plane
(for `d = length` the walk stops at the end of the last segment of positive length, which is
the last coordinate because everything after it has zero length). -/
theorem ls_distance_clamp_hi {len : Len} (hl : LenAx len) (cs : List Pt) (d : Rat)
    (h : lsLength len cs ≤ d) : lsPointAtDistanceFromStart len cs d = cs.getLast? := by
  by_cases hne : Interp.segs cs = []
  · -- no segment: at most one coordinate
    unfold lsPointAtDistanceFromStart
    rw [hne]
    match cs, hne with
    | [], _ => simp [walk]
    | [a], _ => simp [walk]
  · have hL : 0 ≤ lsLength len cs := sumLen_nonneg hl _
    by_cases hgt : lsLength len cs < d
    · unfold lsPointAtDistanceFromStart
      have hd : ¬ d ≤ 0 := by linarith
      rw [if_neg hd, walk_eq_none hl _ _ hgt]
    · have hd : d = lsLength len cs := le_antisymm (not_lt.1 hgt) h
      obtain ⟨p, hp, hon⟩ := ls_distance_onSegs hl cs d hne (by linarith) (le_of_eq hd)
      rw [hp]
      -- the last coordinate is also at arc length `length`
      obtain ⟨init, s, hs⟩ : ∃ init s, Interp.segs cs = init ++ [s] :=
        ⟨(Interp.segs cs).dropLast, (Interp.segs cs).getLast hne, (List.dropLast_append_getLast hne).symm⟩
      obtain ⟨a, b⟩ := s
      have hlast : OnSegs len (Interp.segs cs) d b := by
        rw [hs, onSegs_append]
        right
        have : d - sumLen len init = len a b := by
          rw [hd]; unfold lsLength; rw [hs, sumLen_append]; simp [sumLen]
        rw [this]
        exact Or.inl ⟨hl.nonneg a b, le_refl _, (pdb_full hl a b).symm⟩
      rw [segs_last hs, onSegs_unique hl _ d p b (chain_segs cs) hon hlast]

/-- [T] `from_start(d)` and `from_end(length − d)` are the same point of the plane, for every
`0 ≤ d ≤ length` — including `d` exactly at a vertex, repeated vertices and zero-length
segments. -/
theorem distance_start_end {len : Len} (hl : LenAx len) (cs : List Pt) (d : Rat)
    (h0 : 0 ≤ d) (h1 : d ≤ lsLength len cs) :
    lsPointAtDistanceFromStart len cs d = lsPointAtDistanceFromEnd len cs (lsLength len cs - d) := by
  rw [from_end_eq_reverse]
  by_cases hne : Interp.segs cs = []
  · match cs, hne with
    | [], _ => simp [lsPointAtDistanceFromStart, walk, Interp.segs]
    | [a], _ => simp [lsPointAtDistanceFromStart, walk, Interp.segs]
  · have hrev : Interp.segs cs.reverse = flipRev (Interp.segs cs) := segs_reverse cs
    have hLrev : lsLength len cs.reverse = lsLength len cs := by
      unfold lsLength; rw [hrev, sumLen_flipRev hl]
    have hne' : Interp.segs cs.reverse ≠ [] := by
      rw [hrev]; unfold flipRev; simpa using hne
    obtain ⟨p, hp, hon⟩ := ls_distance_onSegs hl cs d hne h0 h1
    obtain ⟨q, hq, hon'⟩ := ls_distance_onSegs hl cs.reverse (lsLength len cs - d) hne'
      (by linarith) (by rw [hLrev]; linarith)
    rw [hp, hq]
    have := onSegs_flipRev hl (Interp.segs cs) d p hon
    rw [← hrev] at this
    rw [onSegs_unique hl _ _ p q (chain_segs cs.reverse) this hon']

/-- [T] `point_at_ratio_from_start(line, r)` coincides with `point_at_ratio_from_end(line, 1 − r)`
as a point of the plane, for **every** ratio `r` (negative and beyond 1 included: both clamp). -/
theorem ratio_start_end {len : Len} (hl : LenAx len) (cs : List Pt) (r : Rat) :
    lsPointAtRatioFromStart len cs r = lsPointAtRatioFromEnd len cs (1 - r) := by
  have hL : 0 ≤ lsLength len cs := sumLen_nonneg hl _
  have hLrev : lsLength len cs.reverse = lsLength len cs := by
    unfold lsLength; rw [segs_reverse, sumLen_flipRev hl]
  unfold lsPointAtRatioFromStart lsPointAtRatioFromEnd
  by_cases h0 : r < 0
  · -- start side clamps to the first coordinate; end side is at ≥ length from the end
    rw [(ls_distance_clamp_lo len cs _ (by nlinarith)).1, from_end_eq_reverse,
      ls_distance_clamp_hi hl cs.reverse _ (by rw [hLrev]; nlinarith)]
    simp
  · by_cases h1 : 1 < r
    · rw [ls_distance_clamp_hi hl cs _ (by nlinarith),
        (ls_distance_clamp_lo len cs _ (by nlinarith)).2]
    · have e : (1 - r) * lsLength len cs = lsLength len cs - r * lsLength len cs := by ring
      rw [e]
      exact distance_start_end hl cs _ (by nlinarith [not_lt.1 h0]) (by nlinarith [not_lt.1 h1])

/-- [T] clamping of the ratio form: `r ≤ 0` gives the first coordinate, `r ≥ 1` the last. -/
theorem ls_ratio_clamp {len : Len} (hl : LenAx len) (cs : List Pt) (r : Rat) :
    (r ≤ 0 → lsPointAtRatioFromStart len cs r = cs.head?) ∧
    (1 ≤ r → lsPointAtRatioFromStart len cs r = cs.getLast?) := by
  have hL : 0 ≤ lsLength len cs := sumLen_nonneg hl _
  exact ⟨fun h => (ls_distance_clamp_lo len cs _ (by nlinarith)).1,
    fun h => ls_distance_clamp_hi hl cs _ (by nlinarith)⟩

/-! ### locate inverts interpolate (Line) -/

private theorem clamp01_eq (t : Rat) : clamp01 t = if t ≤ 0 then 0 else if 1 ≤ t then 1 else t := by
  unfold clamp01 rmin rmax
  by_cases h0 : t ≤ 0
  · simp [h0]
  · have h0' : 0 < t := not_le.1 h0
    by_cases h1 : 1 ≤ t
    · by_cases h2 : t ≤ 1
      · have : t = 1 := le_antisymm h2 h1
        subst this; simp
      · simp [h0, h1, h2]
    · have h2 : t ≤ 1 := le_of_lt (not_le.1 h1)
      simp [h0, h1, h2]

private theorem sq_sum_ne_zero {a b : Pt} (h : a ≠ b) :
    (b.x - a.x) * (b.x - a.x) + (b.y - a.y) * (b.y - a.y) ≠ 0 := by
  intro h0
  apply h
  have hx : b.x - a.x = 0 := by nlinarith [mul_self_nonneg (b.x - a.x), mul_self_nonneg (b.y - a.y)]
  have hy : b.y - a.y = 0 := by nlinarith [mul_self_nonneg (b.x - a.x), mul_self_nonneg (b.y - a.y)]
  apply Pt.ext' <;> linarith

/-- [T] on a non-degenerate Line the projection parameter of `lerp a b t` is `t` clamped. -/
theorem locate_lerp (a b : Pt) (h : a ≠ b) (t : Rat) : lineLocatePoint a b (lerp a b t) = clamp01 t := by
  have hv := sq_sum_ne_zero h
  unfold lineLocatePoint
  simp only [lerp]
  rw [if_neg hv]
  congr 1
  rw [div_eq_iff hv]
  ring

/-- [T] `locate_interpolate_line`: for a non-degenerate `Line`, `line_locate_point` maps
`point_at_ratio_from_start(line, r)` back to `r` clamped to `[0,1]` — for every `r`. -/
theorem locate_interpolate_line (a b : Pt) (h : a ≠ b) (r : Rat) :
    lineLocatePoint a b (linePointAtRatioFromStart a b r) = clamp01 r := by
  have e : linePointAtRatioFromStart a b r = lerp a b (clamp01 r) := by
    rw [clamp01_eq]; unfold linePointAtRatioFromStart
    by_cases h0 : r ≤ 0
    · simp [h0, lerp_zero]
    · by_cases h1 : 1 ≤ r
      · simp [h0, h1, lerp_one]
      · simp [h0, h1]
  rw [e, locate_lerp a b h]
  rw [clamp01_eq (clamp01 r), clamp01_eq r]
  by_cases h0 : r ≤ 0
  · simp [h0]
  · by_cases h1 : 1 ≤ r
    · simp [h0, h1]
    · simp [h0, h1]

/-- [T] a zero-length Line locates every point at 0 (no division). -/
theorem locate_degenerate (a p : Pt) : lineLocatePoint a a p = 0 := by
  simp [lineLocatePoint]

example : lineLocatePoint ⟨0, 0⟩ ⟨3, 4⟩ (linePointAtRatioFromStart ⟨0, 0⟩ ⟨3, 4⟩ (1 / 4)) = 1 / 4 := by
  rw [locate_interpolate_line _ _ (by decide)]; rw [clamp01_eq]; norm_num

/-! ### densify -/

/-- [T] the `i`-th inserted point of `densify_between` is the `lerp` point of parameter
`(i+1)/n`, `n = ⌈d/max⌉`, and there are exactly `n − 1` of them: only points of the original
segment are inserted, with strictly increasing parameter in `(0,1)`. -/
theorem densify_between_get (len : Len) (a b : Pt) (mx : Rat) (i : Nat) :
    (densifyBetween len a b mx)[i]? =
      if i + 1 < numSegments len a b mx
      then some (lerp a b (((i + 1 : Nat) : Rat) / (numSegments len a b mx : Rat))) else none := by
  unfold densifyBetween
  simp only [List.getElem?_map]
  by_cases h : i + 1 < numSegments len a b mx
  · have h' : i < numSegments len a b mx - 1 := by omega
    rw [List.getElem?_range' h', if_pos h]
    simp only [Option.map_some]
    congr 2
    push_cast
    ring
  · have h' : numSegments len a b mx - 1 ≤ i := by omega
    rw [if_neg h, List.getElem?_eq_none (by simpa using h')]
    rfl

/-- [T] the `ceil` lemma: with `n = ⌈d/max⌉` pieces (`d > 0`, `max > 0`) each piece has length
`d/n ≤ max`, and `n` is the least such count (`n − 1` pieces would be longer than `max`). -/
theorem densify_piece_bound {len : Len} (hl : LenAx len) (a b : Pt) (mx : Rat) (hmx : 0 < mx)
    (hpos : 0 < len a b) :
    0 < numSegments len a b mx ∧ len a b / (numSegments len a b mx : Rat) ≤ mx ∧
      ((numSegments len a b mx : Rat) - 1) * mx < len a b := by
  obtain ⟨h1, h2⟩ := numSegments_cast hl a b mx hmx
  have hq : 0 < len a b / mx := div_pos hpos hmx
  have hn : (0 : Rat) < (numSegments len a b mx : Rat) := lt_of_lt_of_le hq h1
  refine ⟨by exact_mod_cast hn, ?_, ?_⟩
  · rw [div_le_iff₀ hn]
    rw [div_le_iff₀ hmx] at h1
    linarith
  · have : (numSegments len a b mx : Rat) - 1 < len a b / mx := by linarith
    rw [lt_div_iff₀ hmx] at this
    exact this

/-- [T] a zero-length segment gets no inserted points (`d = 0 ⇒ n = 0`, nothing divided). -/
theorem densify_between_zero (len : Len) (a b : Pt) (mx : Rat) (h : len a b = 0) :
    densifyBetween len a b mx = [] := by
  have : Rat.ceil (0 : Rat) = 0 := by simpa using Rat.ceil_intCast 0
  simp [densifyBetween, numSegments, h, this]

/-- [T] a segment no longer than `max` gets no inserted points. -/
theorem densify_between_short {len : Len} (hl : LenAx len) (a b : Pt) (mx : Rat) (hmx : 0 < mx)
    (h : len a b ≤ mx) : densifyBetween len a b mx = [] := by
  obtain ⟨_, h2⟩ := numSegments_cast hl a b mx hmx
  have : len a b / mx ≤ 1 := by rw [div_le_iff₀ hmx]; linarith
  have hn : (numSegments len a b mx : Rat) < 2 := by linarith
  have hn' : numSegments len a b mx < 2 := by exact_mod_cast hn
  have : numSegments len a b mx - 1 = 0 := by omega
  simp [densifyBetween, this]

private theorem densifyLS_cons2 (len : Len) (a b : Pt) (rest : List Pt) (mx : Rat) :
    densifyLS len (a :: b :: rest) mx =
      a :: (densifyBetween len a b mx ++ densifyLS len (b :: rest) mx) := by
  unfold densifyLS
  rw [List.getLast?_cons_cons]
  cases h : (b :: rest).getLast? with
  | none => simp at h
  | some z => simp [Interp.segs, densifySegs]

private theorem densifyLS_head (len : Len) (b : Pt) (rest : List Pt) (mx : Rat) :
    ∃ Y, densifyLS len (b :: rest) mx = b :: Y := by
  cases rest with
  | nil => exact ⟨[], by simp [densifyLS, Interp.segs, densifySegs]⟩
  | cons c rest => exact ⟨_, densifyLS_cons2 len b c rest mx⟩

/-- [T] `densify_sublist`: every original vertex is kept, in order. -/
theorem densify_sublist (len : Len) (mx : Rat) : ∀ cs : List Pt, cs.Sublist (densifyLS len cs mx)
  | [] => by simp [densifyLS]
  | [a] => by simp [densifyLS, Interp.segs, densifySegs]
  | a :: b :: rest => by
    rw [densifyLS_cons2]
    exact List.Sublist.cons_cons a
      (List.Sublist.trans (densify_sublist len mx (b :: rest)) (List.sublist_append_right _ _))

/-- [T] first and last coordinate are unchanged, so a closed ring stays closed and
`Polygon::new` adds nothing after densifying. -/
theorem densify_ends (len : Len) (mx : Rat) : ∀ cs : List Pt,
    (densifyLS len cs mx).head? = cs.head? ∧ (densifyLS len cs mx).getLast? = cs.getLast?
  | [] => by simp [densifyLS]
  | [a] => by simp [densifyLS, Interp.segs, densifySegs]
  | a :: b :: rest => by
    obtain ⟨Y, hY⟩ := densifyLS_head len b rest mx
    have ih := (densify_ends len mx (b :: rest)).2
    rw [densifyLS_cons2, hY]
    refine ⟨rfl, ?_⟩
    rw [hY] at ih
    have e : a :: (densifyBetween len a b mx ++ b :: Y) = (a :: densifyBetween len a b mx) ++ (b :: Y) := rfl
    rw [e, List.getLast?_append, ih, List.getLast?_cons_cons]
    cases hlast : (b :: rest).getLast? with
    | none => simp at hlast
    | some z => rfl

theorem densify_ring_closed (len : Len) (mx : Rat) (cs : List Pt) (h : SM.isClosed cs = true) :
    SM.close (densifyLS len cs mx) = densifyLS len cs mx := by
  have e := densify_ends len mx cs
  have : SM.isClosed (densifyLS len cs mx) = true := by
    unfold SM.isClosed at *
    rw [e.1, e.2]; exact h
  simp [SM.close, this]

/-! ### piece lengths and total length (needs `len` homogeneous along a segment) -/

private theorem densifyLine_eq_map (len : Len) (a b : Pt) (mx : Rat) (hn : 0 < numSegments len a b mx) :
    densifyLine len a b mx = (List.range' 0 (numSegments len a b mx + 1)).map
      (fun (k : Nat) => lerp a b ((k : Rat) / (numSegments len a b mx : Rat))) := by
  obtain ⟨m, hm⟩ : ∃ m, numSegments len a b mx = m + 1 := ⟨numSegments len a b mx - 1, by omega⟩
  have hne : ((m + 1 : Nat) : Rat) ≠ 0 := by positivity
  unfold densifyLine densifyBetween
  rw [hm]
  have e1 : List.range' 0 (m + 1 + 1) = 0 :: (List.range' 1 m ++ [1 + m]) := by
    rw [List.range'_succ, List.range'_concat]; simp
  rw [e1]
  simp only [List.map_cons, List.map_append, List.map_nil, Nat.add_sub_cancel]
  have h0 : lerp a b (((0 : Nat) : Rat) / ((m + 1 : Nat) : Rat)) = a := by simp [lerp_zero]
  have h1 : lerp a b (((1 + m : Nat) : Rat) / ((m + 1 : Nat) : Rat)) = b := by
    have : ((1 + m : Nat) : Rat) / ((m + 1 : Nat) : Rat) = 1 := by
      rw [Nat.add_comm 1 m]; exact div_self hne
    rw [this, lerp_one]
  rw [h0, h1]
  simp only [List.cons_append, List.nil_append, List.cons.injEq, true_and,
    List.append_cancel_right_eq]
  apply List.map_congr_left
  intro k _
  congr 1
  ring

/-- [T] densifying a Line: no piece is longer than `max`. -/
theorem densify_line_pieces {len : Len} (hl : LenAx len) (hh : LenLerp len) (a b : Pt) (mx : Rat)
    (hmx : 0 < mx) : ∀ s ∈ Interp.segs (densifyLine len a b mx), len s.1 s.2 ≤ mx := by
  by_cases h0 : len a b = 0
  · intro s hs
    simp only [densifyLine, densify_between_zero len a b mx h0, List.append_nil, List.singleton_append,
      Interp.segs, List.mem_singleton] at hs
    rw [hs, h0]; exact le_of_lt hmx
  · have hpos : 0 < len a b := lt_of_le_of_ne (hl.nonneg a b) (Ne.symm h0)
    obtain ⟨hn, hb, _⟩ := densify_piece_bound hl a b mx hmx hpos
    have hnq : (0 : Rat) < (numSegments len a b mx : Rat) := by exact_mod_cast hn
    intro s hs
    rw [densifyLine_eq_map len a b mx hn, segs_map_range'] at hs
    obtain ⟨k, _, rfl⟩ := List.mem_map.1 hs
    simp only
    rw [hh a b _ _ (by push_cast; rw [div_le_div_iff_of_pos_right hnq]; linarith)]
    have : ((k + 1 : Nat) : Rat) / (numSegments len a b mx : Rat) - (k : Rat) / (numSegments len a b mx : Rat)
        = 1 / (numSegments len a b mx : Rat) := by push_cast; field_simp; ring
    rw [this, one_div, inv_mul_eq_div]
    exact hb

/-- [T] densifying a Line leaves its length unchanged. -/
theorem densify_line_length {len : Len} (hl : LenAx len) (hh : LenLerp len) (a b : Pt) (mx : Rat)
    (hmx : 0 < mx) : sumLen len (Interp.segs (densifyLine len a b mx)) = len a b := by
  by_cases h0 : len a b = 0
  · simp [densifyLine, densify_between_zero len a b mx h0, Interp.segs, sumLen]
  · have hpos : 0 < len a b := lt_of_le_of_ne (hl.nonneg a b) (Ne.symm h0)
    obtain ⟨hn, _, _⟩ := densify_piece_bound hl a b mx hmx hpos
    have hnq : (0 : Rat) < (numSegments len a b mx : Rat) := by exact_mod_cast hn
    rw [densifyLine_eq_map len a b mx hn, segs_map_range']
    rw [sumLen_map_const len (len a b / (numSegments len a b mx : Rat))]
    · simp only [List.length_map, List.length_range']
      field_simp
    · intro s hs
      obtain ⟨k, _, rfl⟩ := List.mem_map.1 hs
      simp only
      rw [hh a b _ _ (by push_cast; rw [div_le_div_iff_of_pos_right hnq]; linarith)]
      push_cast; field_simp; ring

private theorem segs_densifyLS_cons2 (len : Len) (a b : Pt) (rest : List Pt) (mx : Rat) :
    Interp.segs (densifyLS len (a :: b :: rest) mx) =
      Interp.segs (densifyLine len a b mx) ++ Interp.segs (densifyLS len (b :: rest) mx) := by
  obtain ⟨Y, hY⟩ := densifyLS_head len b rest mx
  rw [densifyLS_cons2, hY]
  have e : a :: (densifyBetween len a b mx ++ b :: Y) = (a :: densifyBetween len a b mx) ++ b :: Y := rfl
  rw [e, segs_join]
  rfl

/-- [T] `densify(max)` on a LineString produces no segment longer than `max`. -/
theorem densify_ls_pieces {len : Len} (hl : LenAx len) (hh : LenLerp len) (mx : Rat) (hmx : 0 < mx) :
    ∀ cs : List Pt, ∀ s ∈ Interp.segs (densifyLS len cs mx), len s.1 s.2 ≤ mx
  | [], s, hs => by simp [densifyLS, Interp.segs] at hs
  | [a], s, hs => by simp [densifyLS, Interp.segs, densifySegs] at hs
  | a :: b :: rest, s, hs => by
    rw [segs_densifyLS_cons2, List.mem_append] at hs
    rcases hs with hs | hs
    · exact densify_line_pieces hl hh a b mx hmx s hs
    · exact densify_ls_pieces hl hh mx hmx (b :: rest) s hs

/-- [T] `densify(max)` leaves the total length of a LineString unchanged. -/
theorem densify_ls_length {len : Len} (hl : LenAx len) (hh : LenLerp len) (mx : Rat) (hmx : 0 < mx) :
    ∀ cs : List Pt, lsLength len (densifyLS len cs mx) = lsLength len cs
  | [] => by simp [densifyLS]
  | [a] => by simp [densifyLS, Interp.segs, densifySegs, lsLength]
  | a :: b :: rest => by
    have ih := densify_ls_length hl hh mx hmx (b :: rest)
    unfold lsLength at ih ⊢
    rw [segs_densifyLS_cons2, sumLen_append, densify_line_length hl hh a b mx hmx, ih]
    simp [Interp.segs, sumLen]

/-! ### the deprecated `line_interpolate_point` -/

private theorem lerp_div (len : Len) (a b : Pt) (x : Rat) :
    lerp a b (x / len a b) = pointAtDistanceBetween len a b x := by
  apply Pt.ext' <;> simp only [lerp, pointAtDistanceBetween] <;> ring

private theorem lipGo_onSegs {len : Len} (hl : LenAx len) (fl : Rat) :
    ∀ (ss : List (Pt × Pt)) (cum : Rat), cum ≤ fl → fl - cum ≤ sumLen len ss → ss ≠ [] →
      ∃ p, lipGo len fl ss cum = some p ∧ OnSegs len ss (fl - cum) p
  | [], _, _, _, h => absurd rfl h
  | (a, b) :: rest, cum, h0, h1, _ => by
    simp only [lipGo]
    by_cases hge : cum + len a b ≥ fl
    · rw [if_pos hge]
      by_cases hz : len a b = 0
      · rw [if_pos hz]
        refine ⟨a, by simp [lineInterpolatePoint, lerp_zero], Or.inl ⟨by linarith, by linarith, ?_⟩⟩
        have : fl - cum = 0 := by linarith
        rw [this, pdb_zero]
      · rw [if_neg hz]
        have hpos : 0 < len a b := lt_of_le_of_ne (hl.nonneg a b) (Ne.symm hz)
        have t0 : 0 ≤ (fl - cum) / len a b := div_nonneg (by linarith) (le_of_lt hpos)
        have t1 : (fl - cum) / len a b ≤ 1 := by rw [div_le_iff₀ hpos]; linarith
        refine ⟨lerp a b ((fl - cum) / len a b), by simp [lineInterpolatePoint, t0, t1],
          Or.inl ⟨by linarith, by linarith, ?_⟩⟩
        exact lerp_div len a b _
    · rw [if_neg hge]
      have hlt : cum + len a b < fl := not_le.1 hge
      simp only [sumLen] at h1
      have hne : rest ≠ [] := by
        intro e; subst e; simp only [sumLen] at h1; linarith
      obtain ⟨p, hp, hon⟩ := lipGo_onSegs hl fl rest (cum + len a b) (le_of_lt hlt) (by linarith) hne
      refine ⟨p, hp, Or.inr ?_⟩
      have e : fl - cum - len a b = fl - (cum + len a b) := by ring
      rw [e]; exact hon

/-- [T] the deprecated `LineString::line_interpolate_point(f)` (as repaired by the `fix:` commit)
returns the same point of the plane as `point_at_ratio_from_start(line, f)`, for every line
string — empty, single coordinate, repeated vertices, zero total length — and every fraction. -/
theorem deprecated_eq_ratio {len : Len} (hl : LenAx len) (cs : List Pt) (f : Rat) :
    lsLineInterpolatePoint len cs f = lsPointAtRatioFromStart len cs f := by
  have hL : 0 ≤ lsLength len cs := sumLen_nonneg hl _
  -- reduce the ratio form to the clamped fraction
  have hclamp : lsPointAtRatioFromStart len cs f =
      lsPointAtRatioFromStart len cs (if 0 ≤ f ∧ f ≤ 1 then f else if f < 0 then 0 else 1) := by
    by_cases h0 : f < 0
    · have : ¬ (0 ≤ f ∧ f ≤ 1) := fun h => absurd h.1 (not_le.2 h0)
      rw [if_neg this, if_pos h0, (ls_ratio_clamp hl cs f).1 (le_of_lt h0), (ls_ratio_clamp hl cs 0).1 (le_refl _)]
    · by_cases h1 : f ≤ 1
      · rw [if_pos ⟨not_lt.1 h0, h1⟩]
      · have : ¬ (0 ≤ f ∧ f ≤ 1) := fun h => h1 h.2
        rw [if_neg this, if_neg h0, (ls_ratio_clamp hl cs f).2 (le_of_lt (not_le.1 h1)),
          (ls_ratio_clamp hl cs 1).2 (le_refl _)]
  rw [hclamp]
  generalize hf' : (if 0 ≤ f ∧ f ≤ 1 then f else if f < 0 then 0 else 1) = f'
  have hf0 : 0 ≤ f' ∧ f' ≤ 1 := by
    rw [← hf']
    by_cases h : 0 ≤ f ∧ f ≤ 1
    · rw [if_pos h]; exact h
    · rw [if_neg h]; by_cases h0 : f < 0
      · rw [if_pos h0]; exact ⟨le_refl _, by norm_num⟩
      · rw [if_neg h0]; exact ⟨by norm_num, le_refl _⟩
  unfold lsLineInterpolatePoint
  simp only [hf']
  by_cases hne : Interp.segs cs = []
  · rw [hne]
    match cs, hne with
    | [], _ => simp [lipGo, lsPointAtRatioFromStart, lsPointAtDistanceFromStart, walk, Interp.segs]
    | [a], _ =>
      simp [lipGo, lsPointAtRatioFromStart, lsPointAtDistanceFromStart, Interp.segs, lsLength, sumLen,
        lineInterpolatePoint, lerp_zero]
  · have hd0 : 0 ≤ lsLength len cs * f' := mul_nonneg hL hf0.1
    have hd1 : lsLength len cs * f' ≤ lsLength len cs := by nlinarith [hf0.2]
    obtain ⟨p, hp, hon⟩ := lipGo_onSegs hl (lsLength len cs * f') (Interp.segs cs) 0 hd0
      (by rw [sub_zero]; exact hd1) hne
    obtain ⟨q, hq, hon'⟩ := ls_distance_onSegs hl cs (lsLength len cs * f') hne hd0 hd1
    rw [hp]
    unfold lsPointAtRatioFromStart
    rw [mul_comm f', hq]
    rw [sub_zero] at hon
    rw [onSegs_unique hl _ _ p q (chain_segs cs) hon hon']

/-- [T] witness of the defect repaired by the `fix:` commit: with the *pinned* loop a leading
repeated coordinate at fraction 0 gives `None` although the ratio form gives the coordinate. -/
theorem deprecated_pinned_witness :
    lsLineInterpolatePointPinned (fun a b => rabs (a.x - b.x) + rabs (a.y - b.y))
      [⟨0, 0⟩, ⟨0, 0⟩, ⟨1, 0⟩] 0 = none := by
  simp [lsLineInterpolatePointPinned, lipGoPinned, Interp.segs, lsLength, sumLen, rabs]

/-! ### locate inverts interpolate (LineString) -/

/-- [T] LineString round trip, pointwise form: for `0 < r ≤ 1` and a line of positive length, if the
interpolated point is at positive distance from every segment that ends before the one the walk
stops on (`EarlierApart` — a hypothesis about this one point, so it also covers non-simple lines
at the points where they have not been visited before), `line_locate_point` returns `r`.
The full statement — every simple line string (`SimpleLS`), every `r` — is `locate_interpolate_ls`
below, which discharges `EarlierApart` by `simple_earlierApart`; `r ≤ 0` is `locate_start`
(no hypothesis needed); `r > 1` reduces to `r = 1` by `ls_ratio_clamp`. -/
theorem locate_interpolate_ls_pointwise {len : Len} (hl : LenAx len) (cs : List Pt) (r : Rat)
    (h0 : 0 < r) (h1 : r ≤ 1) (hL : 0 < lsLength len cs) (p : Pt)
    (hp : lsPointAtRatioFromStart len cs r = some p)
    (hs : EarlierApart len cs (r * lsLength len cs) p) :
    lsLineLocatePoint len cs p = r := by
  have hd0 : 0 < r * lsLength len cs := mul_pos h0 hL
  have hd1 : r * lsLength len cs ≤ lsLength len cs := by nlinarith
  unfold lsPointAtRatioFromStart lsPointAtDistanceFromStart at hp
  rw [if_neg (not_le.2 hd0)] at hp
  match hw : walk len (Interp.segs cs) (r * lsLength len cs), hp with
  | none, _ =>
    have := walk_none (Interp.segs cs) _ hd0 hw
    exact absurd this (not_lt.2 hd1)
  | some (a, b, r'), hp =>
    simp only [Option.some.injEq] at hp
    obtain ⟨pre, post, e, hr', hpos, hle⟩ := walk_some (Interp.segs cs) _ hd0 hw
    have hlpos : 0 < len a b := lt_of_lt_of_le hpos hle
    have hab : a ≠ b := by
      intro h; rw [h, hl.self_zero] at hlpos; exact lt_irrefl _ hlpos
    have ht0 : 0 ≤ r' / len a b := le_of_lt (div_pos hpos hlpos)
    have ht1 : r' / len a b ≤ 1 := by rw [div_le_iff₀ hlpos]; linarith
    have hpl : p = lerp a b (r' / len a b) := by rw [← hp, lerp_div]
    have hz : segDistSq p a b = 0 := by rw [hpl]; exact segDistSq_lerp a b hab _ ht0 ht1
    have hloc : lineLocatePoint a b p = r' / len a b := by
      rw [hpl, locate_lerp a b hab, clamp01_eq]
      by_cases hz' : r' / len a b ≤ 0
      · have : r' / len a b = 0 := le_antisymm hz' ht0
        simp [this]
      · by_cases ho : 1 ≤ r' / len a b
        · have : r' / len a b = 1 := le_antisymm ht1 ho
          simp [this]
        · simp [hz', ho]
    have hpre := hs pre a b post e (by linarith) (by linarith)
    unfold lsLineLocatePoint
    simp only
    rw [if_neg (ne_of_gt hL), e,
      locateGo_first_hit len p a b post hz pre 0 none 0 (by intro c hc; cases hc) hpre, hloc]
    have : 0 + sumLen len pre + r' / len a b * len a b = r * lsLength len cs := by
      rw [div_mul_cancel₀ _ (ne_of_gt hlpos), hr']; ring
    rw [this, mul_div_assoc, div_self (ne_of_gt hL), mul_one]

/-- [T] the first coordinate (every ratio `≤ 0`) is located at fraction 0, whatever the line
does later (repeated vertices, self-intersections, zero total length). -/
theorem locate_start (len : Len) (a : Pt) (rest : List Pt) :
    lsLineLocatePoint len (a :: rest) a = 0 := by
  unfold lsLineLocatePoint
  simp only
  split
  · rfl
  · cases rest with
    | nil => simp [Interp.segs, locateGo]
    | cons b rest =>
      have hz : segDistSq a a b = 0 := by
        by_cases hab : a = b
        · subst hab; simp [segDistSq]
        · have := segDistSq_lerp a b hab 0 (le_refl _) (by norm_num)
          rwa [lerp_zero] at this
      have hfr : lineLocatePoint a b a = 0 := by
        unfold lineLocatePoint
        simp only [sub_self, mul_zero, add_zero, zero_div]
        split
        · rfl
        · rw [clamp01_eq]; simp
      simp only [Interp.segs, locateGo, hz, hfr, if_true, locateGo_done]
      simp

/-! ### on the line; polygons -/

/-- [T] a point at arc length `d` of a chain lies on one of its segments: it is `lerp a b t` for a
segment `(a,b)` of the chain and some `t ∈ [0,1]`. Together with `ls_distance_onSegs` this is
"`point_at_distance_from_start` lies on the line". -/
theorem onSegs_on_segment {len : Len} (hl : LenAx len) : ∀ (ss : List (Pt × Pt)) (d : Rat) (p : Pt),
    OnSegs len ss d p → ∃ s ∈ ss, ∃ t : Rat, 0 ≤ t ∧ t ≤ 1 ∧ p = lerp s.1 s.2 t
  | [], _, _, h => h.elim
  | (a, b) :: rest, d, p, h => by
    rcases h with ⟨h0, h1, hp⟩ | h
    · refine ⟨(a, b), by simp, d / len a b, ?_, ?_, ?_⟩
      · exact div_nonneg h0 (hl.nonneg a b)
      · by_cases hz : len a b = 0
        · rw [hz]; simp
        · have hpos : 0 < len a b := lt_of_le_of_ne (hl.nonneg a b) (Ne.symm hz)
          rw [div_le_iff₀ hpos]; linarith
      · rw [hp, lerp_div]
    · obtain ⟨s, hs, t, ht⟩ := onSegs_on_segment hl rest _ p h
      exact ⟨s, by simp [hs], t, ht⟩

/-- [T] Line: `from_start(d)` and `from_end(length − d)` are the same point for `0 ≤ d ≤ length`. -/
theorem line_distance_start_end {len : Len} (hl : LenAx len) (a b : Pt) (d : Rat)
    (h0 : 0 ≤ d) (h1 : d ≤ len a b) :
    linePointAtDistanceFromStart len a b d = linePointAtDistanceFromEnd len a b (len a b - d) := by
  unfold linePointAtDistanceFromStart linePointAtDistanceFromEnd
  by_cases hd0 : d ≤ 0
  · have e : d = 0 := le_antisymm hd0 h0
    subst e
    by_cases hz : len a b ≤ 0
    · have hz' : len a b = 0 := le_antisymm hz (hl.nonneg a b)
      have := hl.eq_of_zero a b hz'; subst this
      simp [hz']
    · simp [hz]
  · rw [if_neg hd0]
    by_cases hd1 : d ≥ len a b
    · have e : d = len a b := le_antisymm h1 hd1
      simp [e]
    · have h2 : ¬ (len a b - d ≤ 0) := by linarith [not_le.1 hd1]
      have h3 : ¬ (len a b - d ≥ len a b) := by intro h; apply hd0; linarith
      rw [if_neg hd1, if_neg h2, if_neg h3, pdb_flip hl]

/-- [T] Polygon / Rect / Triangle: a closed ring stays closed under densify, so `Polygon::new`
adds nothing and every ring of the result is the densified ring (with `densify_sublist`,
`densify_ls_pieces`, `densify_ls_length` applying to it). -/
theorem densify_poly_rings (len : Len) (mx : Rat) (p : Poly) (he : SM.isClosed p.ext = true)
    (hi : ∀ r ∈ p.ints, SM.isClosed r = true) :
    densifyPoly len p mx = ⟨densifyLS len p.ext mx, p.ints.map (fun r => densifyLS len r mx)⟩ := by
  unfold densifyPoly
  rw [densify_ring_closed len mx p.ext he]
  congr 1
  apply List.map_congr_left
  intro r hr
  exact densify_ring_closed len mx r (hi r hr)

/-- [T] the rings `Rect::to_polygon` / `Triangle::to_polygon` hand to densify are closed. -/
theorem rect_tri_rings_closed (mn mxp a b c : Pt) :
    SM.isClosed (rectToPoly mn mxp).ext = true ∧ SM.isClosed (triToPoly a b c).ext = true := by
  constructor <;> simp [SM.isClosed, rectToPoly, triToPoly]

/-! ### LineString round trip on simple line strings (geometric hypothesis `SimpleLS`) -/

private theorem segs_ne_nil_of_pos {len : Len} {cs : List Pt} (hL : 0 < lsLength len cs) :
    Interp.segs cs ≠ [] := by
  intro h; unfold lsLength at hL; rw [h] at hL; simp [sumLen] at hL

/-- [T] on a simple line string (`SimpleLS`: two segments share a point only at the junction
between them — stated with geo's `Line: Intersects<Coord>` kernel) every interpolated point with
`0 < r ≤ 1` is at positive distance from all segments before the one the walk stops on, i.e. the
hypothesis `EarlierApart` of `locate_interpolate_ls_pointwise` holds. Includes `r` exactly at a
vertex: the walk stops on the segment that *ends* there. -/
theorem simple_earlierApart {len : Len} (hl : LenAx len) (cs : List Pt) (hs : SimpleLS cs) (r : Rat)
    (h0 : 0 < r) (h1 : r ≤ 1) (hL : 0 < lsLength len cs) (p : Pt)
    (hp : lsPointAtRatioFromStart len cs r = some p) :
    EarlierApart len cs (r * lsLength len cs) p := by
  have hd0 : 0 < r * lsLength len cs := mul_pos h0 hL
  have hd1 : r * lsLength len cs ≤ lsLength len cs := by nlinarith
  obtain ⟨q, hq, hon⟩ := ls_distance_onSegs hl cs _ (segs_ne_nil_of_pos hL) (le_of_lt hd0) hd1
  unfold lsPointAtRatioFromStart at hp
  rw [hp] at hq
  cases hq
  exact earlierApart_of_simple hl cs hs _ p hon

/-- [T] `locate_interpolate_ls`: for every simple line string of positive total length and
**every** ratio `r`, `line_locate_point(point_at_ratio_from_start(line, r)) = clamp01 r`. -/
theorem locate_interpolate_ls {len : Len} (hl : LenAx len) (cs : List Pt) (hs : SimpleLS cs)
    (hL : 0 < lsLength len cs) (r : Rat) :
    (lsPointAtRatioFromStart len cs r).map (lsLineLocatePoint len cs) = some (clamp01 r) := by
  have hne := segs_ne_nil_of_pos hL
  have key : ∀ r', 0 < r' → r' ≤ 1 →
      (lsPointAtRatioFromStart len cs r').map (lsLineLocatePoint len cs) = some r' := by
    intro r' h0' h1'
    obtain ⟨p, hp, _⟩ := ls_distance_onSegs hl cs (r' * lsLength len cs) hne
      (le_of_lt (mul_pos h0' hL)) (by nlinarith)
    have hp' : lsPointAtRatioFromStart len cs r' = some p := hp
    rw [hp']
    simp only [Option.map_some]
    congr 1
    exact locate_interpolate_ls_pointwise hl cs r' h0' h1' hL p hp'
      (simple_earlierApart hl cs hs r' h0' h1' hL p hp')
  rw [clamp01_eq]
  by_cases h0 : r ≤ 0
  · rw [(ls_ratio_clamp hl cs r).1 h0, if_pos h0]
    match cs, hne with
    | a :: rest, _ => simp [locate_start]
  · rw [if_neg h0]
    by_cases h1 : 1 ≤ r
    · rw [(ls_ratio_clamp hl cs r).2 h1, ← (ls_ratio_clamp hl cs 1).2 (le_refl _), if_pos h1]
      exact key 1 (by norm_num) (le_refl _)
    · rw [if_neg h1]
      exact key r (not_le.1 h0) (le_of_lt (not_le.1 h1))

/-! ### the simplicity hypothesis is sharp -/

private theorem exists_first {α : Type} (P : α → Prop) : ∀ l : List α, (∃ x ∈ l, P x) →
    ∃ l1 x l2, l = l1 ++ x :: l2 ∧ P x ∧ ∀ y ∈ l1, ¬ P y
  | [], h => by obtain ⟨x, hx, _⟩ := h; simp at hx
  | a :: l, h => by
    by_cases ha : P a
    · exact ⟨[], a, l, rfl, ha, by simp⟩
    · obtain ⟨x, hx, hpx⟩ := h
      have hx' : x ∈ l := by
        rcases List.mem_cons.1 hx with rfl | h'
        · exact absurd hpx ha
        · exact h'
      obtain ⟨l1, y, l2, e, hy, hl1⟩ := exists_first P l ⟨x, hx', hpx⟩
      refine ⟨a :: l1, y, l2, by rw [e]; rfl, hy, ?_⟩
      intro z hz
      rcases List.mem_cons.1 hz with rfl | h'
      · exact ha
      · exact hl1 z h'

private theorem lineLocatePoint_range (a b p : Pt) :
    0 ≤ lineLocatePoint a b p ∧ lineLocatePoint a b p ≤ 1 := by
  unfold lineLocatePoint
  simp only
  split
  · exact ⟨le_refl _, by norm_num⟩
  · rw [clamp01_eq]
    split
    · exact ⟨le_refl _, by norm_num⟩
    · split
      · exact ⟨by norm_num, le_refl _⟩
      · rename_i h0 h1
        exact ⟨le_of_lt (not_le.1 h0), le_of_lt (not_le.1 h1)⟩

/-- [T] where the line has passed through the interpolated point *before* (the point lies on a
segment that ends before the one the walk stops on), `line_locate_point` reports that earlier
passage: a strictly smaller fraction. So the round trip fails there, on any line. -/
theorem locate_earlier_passage {len : Len} (hl : LenAx len) (cs : List Pt) (r : Rat)
    (hL : 0 < lsLength len cs) (p : Pt) (pre : List (Pt × Pt)) (a b : Pt) (post : List (Pt × Pt))
    (e : Interp.segs cs = pre ++ (a, b) :: post) (hlt : sumLen len pre < r * lsLength len cs)
    (hz : ∃ s ∈ pre, segDistSq p s.1 s.2 = 0) :
    lsLineLocatePoint len cs p < r := by
  obtain ⟨pre1, s1, rest1, epre, hs1, hpos⟩ := exists_first (fun s => segDistSq p s.1 s.2 = 0) pre hz
  obtain ⟨a1, b1⟩ := s1
  have hpos' : ∀ s ∈ pre1, 0 < segDistSq p s.1 s.2 := fun s hs =>
    lt_of_le_of_ne (segDistSq_nonneg p s.1 s.2) (Ne.symm (hpos s hs))
  have e' : Interp.segs cs = pre1 ++ (a1, b1) :: (rest1 ++ (a, b) :: post) := by
    rw [e, epre]; simp
  obtain ⟨f0, f1⟩ := lineLocatePoint_range a1 b1 p
  have hsum : sumLen len pre = sumLen len pre1 + (len a1 b1 + sumLen len rest1) := by
    rw [epre, sumLen_append]; rfl
  have hrest := sumLen_nonneg hl rest1
  have hl1 := hl.nonneg a1 b1
  unfold lsLineLocatePoint
  simp only
  rw [if_neg (ne_of_gt hL), e',
    locateGo_first_hit len p a1 b1 _ hs1 pre1 0 none 0 (by intro c hc; cases hc) hpos',
    div_lt_iff₀ hL]
  nlinarith

/-- [T] for `0 < r ≤ 1` on a line of positive length the round trip holds **exactly** where the
point has not been passed before: `line_locate_point(point_at_ratio_from_start(r)) = r ⇔
EarlierApart`. -/
theorem locate_interpolate_ls_iff {len : Len} (hl : LenAx len) (cs : List Pt) (r : Rat)
    (h0 : 0 < r) (h1 : r ≤ 1) (hL : 0 < lsLength len cs) (p : Pt)
    (hp : lsPointAtRatioFromStart len cs r = some p) :
    lsLineLocatePoint len cs p = r ↔ EarlierApart len cs (r * lsLength len cs) p := by
  constructor
  · intro heq pre a b post e hlt _ s hs
    by_contra hnot
    have hz : segDistSq p s.1 s.2 = 0 := le_antisymm (not_lt.1 hnot) (segDistSq_nonneg p s.1 s.2)
    have := locate_earlier_passage hl cs r hL p pre a b post e hlt ⟨s, hs, hz⟩
    rw [heq] at this
    exact lt_irrefl _ this
  · exact locate_interpolate_ls_pointwise hl cs r h0 h1 hL p hp

/-! ### every interpolated point lies on the line -/

/-- [T] an empty line string has no interpolated point (all four forms). -/
theorem ls_empty_none (len : Len) (x : Rat) :
    lsPointAtDistanceFromStart len [] x = none ∧ lsPointAtDistanceFromEnd len [] x = none ∧
    lsPointAtRatioFromStart len [] x = none ∧ lsPointAtRatioFromEnd len [] x = none := by
  simp [lsPointAtRatioFromStart, lsPointAtRatioFromEnd, lsPointAtDistanceFromStart,
    lsPointAtDistanceFromEnd, revSegs, Interp.segs, walk]

/-- [T] `point_at_distance_from_start` lies on the line string, for **every** distance
(negative and beyond the length included) and every non-empty line string. -/
theorem ls_distance_on_line {len : Len} (hl : LenAx len) (cs : List Pt) (hne : cs ≠ []) (d : Rat) :
    ∃ p, lsPointAtDistanceFromStart len cs d = some p ∧ OnLS cs p := by
  by_cases hs : Interp.segs cs = []
  · rcases segs_eq_nil hs with h | ⟨a, rfl⟩
    · exact absurd h hne
    · refine ⟨a, ?_, Or.inl rfl⟩
      unfold lsPointAtDistanceFromStart
      by_cases hd : d ≤ 0 <;> simp [hd, Interp.segs, walk]
  · have hL : 0 ≤ lsLength len cs := sumLen_nonneg hl _
    obtain ⟨d', h0, h1, he⟩ : ∃ d', 0 ≤ d' ∧ d' ≤ lsLength len cs ∧
        lsPointAtDistanceFromStart len cs d = lsPointAtDistanceFromStart len cs d' := by
      by_cases hd0 : d ≤ 0
      · exact ⟨0, le_refl _, hL, by
          rw [(ls_distance_clamp_lo len cs d hd0).1, (ls_distance_clamp_lo len cs 0 (le_refl _)).1]⟩
      · by_cases hd1 : lsLength len cs ≤ d
        · exact ⟨lsLength len cs, hL, le_refl _, by
            rw [ls_distance_clamp_hi hl cs d hd1, ls_distance_clamp_hi hl cs _ (le_refl _)]⟩
        · exact ⟨d, le_of_lt (not_le.1 hd0), le_of_lt (not_le.1 hd1), rfl⟩
    obtain ⟨p, hp, hon⟩ := ls_distance_onSegs hl cs d' hs h0 h1
    exact ⟨p, by rw [he, hp], onLS_of_lerp (onSegs_on_segment hl _ _ _ hon)⟩

/-- [T] `point_at_ratio_from_start` lies on the line string, for every ratio. -/
theorem ls_ratio_on_line {len : Len} (hl : LenAx len) (cs : List Pt) (hne : cs ≠ []) (r : Rat) :
    ∃ p, lsPointAtRatioFromStart len cs r = some p ∧ OnLS cs p :=
  ls_distance_on_line hl cs hne _

/-- [T] `point_at_distance_from_end` lies on the line string, for every distance. -/
theorem ls_distance_from_end_on_line {len : Len} (hl : LenAx len) (cs : List Pt) (hne : cs ≠ [])
    (d : Rat) : ∃ p, lsPointAtDistanceFromEnd len cs d = some p ∧ OnLS cs p := by
  rw [from_end_eq_reverse]
  obtain ⟨p, hp, hon⟩ := ls_distance_on_line hl cs.reverse (by simpa using hne) d
  exact ⟨p, hp, (onLS_reverse cs p).1 hon⟩

/-- [T] `point_at_ratio_from_end` lies on the line string, for every ratio. -/
theorem ls_ratio_from_end_on_line {len : Len} (hl : LenAx len) (cs : List Pt) (hne : cs ≠ [])
    (r : Rat) : ∃ p, lsPointAtRatioFromEnd len cs r = some p ∧ OnLS cs p :=
  ls_distance_from_end_on_line hl cs hne _

/-- [T] Line: the ratio forms return a point of the closed segment, for every ratio. -/
theorem line_ratio_on_line (a b : Pt) (r : Rat) :
    lineCoord a b (linePointAtRatioFromStart a b r) = true ∧
    lineCoord a b (linePointAtRatioFromEnd a b r) = true := by
  unfold linePointAtRatioFromStart linePointAtRatioFromEnd
  by_cases h0 : r ≤ 0
  · simp [h0, lineCoord_start, lineCoord_end]
  · by_cases h1 : r ≥ 1
    · simp [h0, h1, lineCoord_start, lineCoord_end]
    · simp only [h0, h1, if_false]
      refine ⟨lineCoord_lerp a b r (le_of_lt (not_le.1 h0)) (le_of_lt (not_le.1 h1)), ?_⟩
      rw [← lineCoord_swap]
      exact lineCoord_lerp b a r (le_of_lt (not_le.1 h0)) (le_of_lt (not_le.1 h1))

/-- [T] Line: the distance forms return a point of the closed segment, for every distance. -/
theorem line_distance_on_line {len : Len} (hl : LenAx len) (a b : Pt) (d : Rat) :
    lineCoord a b (linePointAtDistanceFromStart len a b d) = true ∧
    lineCoord a b (linePointAtDistanceFromEnd len a b d) = true := by
  unfold linePointAtDistanceFromStart linePointAtDistanceFromEnd
  by_cases h0 : d ≤ 0
  · simp [h0, lineCoord_start, lineCoord_end]
  · by_cases h1 : d ≥ len a b
    · simp [h0, h1, lineCoord_start, lineCoord_end]
    · simp only [h0, h1, if_false]
      have hd : 0 < d := not_le.1 h0
      have hlt : d < len a b := not_le.1 h1
      have hpos : 0 < len a b := lt_trans hd hlt
      have t0 : 0 ≤ d / len a b := le_of_lt (div_pos hd hpos)
      have t1 : d / len a b ≤ 1 := by rw [div_le_iff₀ hpos]; linarith
      refine ⟨?_, ?_⟩
      · rw [← lerp_div]; exact lineCoord_lerp a b _ t0 t1
      · rw [← lineCoord_swap, ← lerp_div, ← hl.symm a b]; exact lineCoord_lerp b a _ t0 t1

/-! ### densify on rings, polygons, Rect, Triangle and the multi-geometries -/

/-- [T] a polygon with closed rings (the geo-types invariant): the rings of the result are the
densified rings, one for one. -/
theorem densify_poly_rings_map (len : Len) (mx : Rat) (p : Poly) (hc : PolyClosed p) :
    polyRings (densifyPoly len p mx) = (polyRings p).map (fun r => densifyLS len r mx) := by
  rw [densify_poly_rings len mx p (hc _ (by simp [polyRings]))
    (fun r hr => hc r (by simp [polyRings, hr]))]
  simp [polyRings]

/-- [T] for every geometry that implements `Densifiable` (Line, LineString, MultiLineString,
Polygon, MultiPolygon, Rect, Triangle) the coordinate sequences of `densify(max)` are the
densified coordinate sequences of the input, one for one (polygon rings closed, as built by
`Polygon::new`; `Rect`/`Triangle` go through `to_polygon`, whose ring is closed). -/
theorem densify_geom_rings (len : Len) (mx : Rat) (g g' : Geom) (hc : GeomClosed g)
    (h : densify len mx g = some g') :
    geomRings g' = (geomRings g).map (fun r => densifyLS len r mx) := by
  cases g with
  | point p => simp [densify] at h
  | multiPoint ps => simp [densify] at h
  | collection gs => simp [densify] at h
  | line a b =>
    simp only [densify, Option.some.injEq] at h; subst h
    simp [geomRings, densifyLine_eq_LS]
  | lineString cs =>
    simp only [densify, Option.some.injEq] at h; subst h
    simp [geomRings]
  | multiLineString ls =>
    simp only [densify, Option.some.injEq] at h; subst h
    simp [geomRings]
  | polygon p =>
    simp only [densify, Option.some.injEq] at h; subst h
    exact densify_poly_rings_map len mx p hc
  | multiPolygon ps =>
    simp only [densify, Option.some.injEq] at h; subst h
    exact flatMap_map_rings _ _ ps (fun p hp => densify_poly_rings_map len mx p (hc p hp))
  | rect mn mxp =>
    simp only [densify, Option.some.injEq] at h; subst h
    exact densify_poly_rings_map len mx _ (polyClosed_rect mn mxp)
  | triangle a b c =>
    simp only [densify, Option.some.injEq] at h; subst h
    exact densify_poly_rings_map len mx _ (polyClosed_tri a b c)

/-- [T] `densify(max)` produces no segment longer than `max`, on every `Densifiable` geometry
(including the closing edge of Polygon / Rect / Triangle rings). -/
theorem densify_geom_pieces {len : Len} (hl : LenAx len) (hh : LenLerp len) (mx : Rat) (hmx : 0 < mx)
    (g g' : Geom) (hc : GeomClosed g) (h : densify len mx g = some g') :
    ∀ r ∈ geomRings g', ∀ s ∈ Interp.segs r, len s.1 s.2 ≤ mx := by
  rw [densify_geom_rings len mx g g' hc h]
  intro r hr
  obtain ⟨r0, _, rfl⟩ := List.mem_map.1 hr
  exact densify_ls_pieces hl hh mx hmx r0

/-- [T] `densify(max)` leaves the length of every coordinate sequence — hence the total length
/ perimeter — unchanged, on every `Densifiable` geometry. -/
theorem densify_geom_length {len : Len} (hl : LenAx len) (hh : LenLerp len) (mx : Rat) (hmx : 0 < mx)
    (g g' : Geom) (hc : GeomClosed g) (h : densify len mx g = some g') :
    (geomRings g').map (lsLength len) = (geomRings g).map (lsLength len) ∧
    geomLength len g' = geomLength len g := by
  have e : (geomRings g').map (lsLength len) = (geomRings g).map (lsLength len) := by
    rw [densify_geom_rings len mx g g' hc h, List.map_map]
    apply List.map_congr_left
    intro r _
    exact densify_ls_length hl hh mx hmx r
  exact ⟨e, by unfold geomLength; rw [e]⟩

/-- [T] every original coordinate sequence is kept, in order, inside its densified sequence, and
closed rings stay closed. -/
theorem densify_geom_vertices (len : Len) (mx : Rat) (g g' : Geom) (hc : GeomClosed g)
    (h : densify len mx g = some g') :
    List.Forall₂ (fun r r' => r.Sublist r' ∧ r'.head? = r.head? ∧ r'.getLast? = r.getLast?)
      (geomRings g) (geomRings g') := by
  rw [densify_geom_rings len mx g g' hc h]
  generalize geomRings g = rs
  induction rs with
  | nil => exact List.Forall₂.nil
  | cons r rs ih =>
    exact List.Forall₂.cons ⟨densify_sublist len mx r, densify_ends len mx r⟩ ih

/-- [T] the closedness hypothesis is needed: on an *unclosed* ring (not constructible through
`Polygon::new`) the closing edge added by `Polygon::new` after densifying is not split. -/
theorem densify_unclosed_witness :
    ∃ s ∈ Interp.segs (densifyPoly l1 ⟨[⟨0, 0⟩, ⟨4, 0⟩, ⟨4, 1⟩], []⟩ 4).ext, ¬ l1 s.1 s.2 ≤ 4 := by
  have e1 : densifyBetween l1 ⟨0, 0⟩ ⟨4, 0⟩ 4 = [] :=
    densify_between_short l1_ax _ _ 4 (by norm_num) (by norm_num [l1])
  have e2 : densifyBetween l1 ⟨4, 0⟩ ⟨4, 1⟩ 4 = [] :=
    densify_between_short l1_ax _ _ 4 (by norm_num) (by norm_num [l1])
  refine ⟨(⟨4, 1⟩, ⟨0, 0⟩), ?_, by norm_num [l1]⟩
  simp [densifyPoly, densifyLS, Interp.segs, densifySegs, e1, e2, SM.close, SM.isClosed]

/-! ### non-vacuity: the hypotheses are satisfiable, on a path with a repeated vertex

`l1` (taxicab length, `GeoProofs/Lemmas/C15.lean`) satisfies `LenAx` and `LenLerp`. -/

example : LenAx l1 := l1_ax
example : LenLerp l1 := l1_lerp

private def exPath : List Pt := [⟨0, 0⟩, ⟨0, 0⟩, ⟨2, 0⟩, ⟨2, 3⟩]

example : lsPointAtRatioFromStart l1 exPath (2 / 5) = lsPointAtRatioFromEnd l1 exPath (1 - 2 / 5) :=
  ratio_start_end l1_ax _ _
example : lsPointAtDistanceFromStart l1 exPath 7 = some ⟨2, 3⟩ :=
  ls_distance_clamp_hi l1_ax exPath 7 (by norm_num [exPath, lsLength, Interp.segs, sumLen, l1])
example : lsLineInterpolatePoint l1 exPath 0 = lsPointAtRatioFromStart l1 exPath 0 :=
  deprecated_eq_ratio l1_ax _ _
example : ∀ s ∈ Interp.segs (densifyLS l1 exPath (3 / 2)), l1 s.1 s.2 ≤ 3 / 2 :=
  densify_ls_pieces l1_ax l1_lerp _ (by norm_num) _
example : lsLength l1 (densifyLS l1 exPath (3 / 2)) = lsLength l1 exPath :=
  densify_ls_length l1_ax l1_lerp _ (by norm_num) _
example : 0 < numSegments l1 ⟨2, 0⟩ ⟨2, 3⟩ (3 / 2) ∧ l1 ⟨2, 0⟩ ⟨2, 3⟩ / (numSegments l1 ⟨2, 0⟩ ⟨2, 3⟩ (3 / 2) : Rat) ≤ 3 / 2 ∧
    ((numSegments l1 ⟨2, 0⟩ ⟨2, 3⟩ (3 / 2) : Rat) - 1) * (3 / 2) < l1 ⟨2, 0⟩ ⟨2, 3⟩ :=
  densify_piece_bound l1_ax _ _ _ (by norm_num) (by norm_num [l1])

example : densifyPoly l1 (rectToPoly ⟨0, 0⟩ ⟨4, 2⟩) 1 =
    ⟨densifyLS l1 (rectToPoly ⟨0, 0⟩ ⟨4, 2⟩).ext 1, []⟩ :=
  densify_poly_rings l1 1 _ (rect_tri_rings_closed _ _ ⟨0, 0⟩ ⟨0, 0⟩ ⟨0, 0⟩).1 (by simp [rectToPoly])
example : linePointAtDistanceFromStart l1 ⟨0, 0⟩ ⟨3, 4⟩ 2 = linePointAtDistanceFromEnd l1 ⟨0, 0⟩ ⟨3, 4⟩ (l1 ⟨0, 0⟩ ⟨3, 4⟩ - 2) :=
  line_distance_start_end l1_ax _ _ _ (by norm_num) (by norm_num [l1])

/-- the hypothesis of the pointwise theorem holds on a concrete simple path, at its end -/
example : EarlierApart l1 [⟨0, 0⟩, ⟨2, 0⟩, ⟨2, 3⟩] 5 ⟨2, 3⟩ := by
  intro pre a b post e h1 h2 s hs
  match pre, e, hs with
  | [x], e, hs =>
    simp only [Interp.segs, List.cons_append, List.nil_append, List.cons.injEq] at e
    simp only [List.mem_singleton] at hs
    rw [hs, ← e.1]
    norm_num [segDistSq]
  | x :: y :: z, e, _ => simp [Interp.segs] at e

/-- a concrete simple path (an L-shape) satisfies `SimpleLS` -/
private theorem exSimple : SimpleLS [⟨0, 0⟩, ⟨2, 0⟩, ⟨2, 3⟩] := by
  intro pre a b mid c d post q e hab hcd
  match pre, e with
  | [], e =>
    simp only [Interp.segs, List.nil_append, List.cons.injEq, Prod.mk.injEq] at e
    obtain ⟨⟨rfl, rfl⟩, e2⟩ := e
    match mid, e2 with
    | [], e2 =>
      simp only [List.nil_append, List.cons.injEq, Prod.mk.injEq] at e2
      obtain ⟨⟨rfl, rfl⟩, _⟩ := e2
      rw [Kernel.lineCoord_iff] at hab hcd
      obtain ⟨t, _, _, hx, hy⟩ := hab
      obtain ⟨u, _, _, hx', hy'⟩ := hcd
      have : q = ⟨2, 0⟩ := Pt.ext' (by simp only at hx' ⊢; linarith) (by simp only at hy ⊢; linarith)
      exact ⟨this, this, by simp⟩
    | [m], e2 => simp at e2
    | _ :: _ :: _, e2 => simp at e2
  | [x], e =>
    simp only [Interp.segs, List.cons_append, List.nil_append, List.cons.injEq] at e
    have h := e.2.2
    simp at h
  | _ :: _ :: _, e => simp [Interp.segs] at e

/-- the round trip exactly at the corner vertex (`r = 2/5` of length 5) and beyond both ends -/
example : (lsPointAtRatioFromStart l1 [⟨0, 0⟩, ⟨2, 0⟩, ⟨2, 3⟩] (2 / 5)).map
    (lsLineLocatePoint l1 [⟨0, 0⟩, ⟨2, 0⟩, ⟨2, 3⟩]) = some (clamp01 (2 / 5)) :=
  locate_interpolate_ls l1_ax _ exSimple (by norm_num [lsLength, Interp.segs, sumLen, l1]) _
example : (lsPointAtRatioFromStart l1 [⟨0, 0⟩, ⟨2, 0⟩, ⟨2, 3⟩] 7).map
    (lsLineLocatePoint l1 [⟨0, 0⟩, ⟨2, 0⟩, ⟨2, 3⟩]) = some (clamp01 7) :=
  locate_interpolate_ls l1_ax _ exSimple (by norm_num [lsLength, Interp.segs, sumLen, l1]) _
example : EarlierApart l1 [⟨0, 0⟩, ⟨2, 0⟩, ⟨2, 3⟩] (2 / 5 * lsLength l1 [⟨0, 0⟩, ⟨2, 0⟩, ⟨2, 3⟩]) ⟨2, 0⟩ :=
  simple_earlierApart l1_ax _ exSimple (2 / 5) (by norm_num) (by norm_num)
    (by norm_num [lsLength, Interp.segs, sumLen, l1]) _
    (by norm_num [lsPointAtRatioFromStart, lsPointAtDistanceFromStart, lsLength, Interp.segs, sumLen, l1,
      walk, pointAtDistanceBetween])

/-- a path that touches itself is not simple: the hypothesis excludes it -/
example : ¬ SimpleLS [⟨0, 0⟩, ⟨2, 0⟩, ⟨2, 2⟩, ⟨1, 0⟩] := by
  intro h
  have := (h [] ⟨0, 0⟩ ⟨2, 0⟩ [(⟨2, 0⟩, ⟨2, 2⟩)] ⟨2, 2⟩ ⟨1, 0⟩ [] ⟨1, 0⟩ rfl
    (by rw [Kernel.lineCoord_iff]; exact ⟨1 / 2, by norm_num, by norm_num, by norm_num, by norm_num⟩)
    (lineCoord_end _ _)).1
  simp at this

example : ∃ p, lsPointAtRatioFromStart l1 exPath (-3) = some p ∧ OnLS exPath p :=
  ls_ratio_on_line l1_ax _ (by simp [exPath]) _
example : ∃ p, lsPointAtDistanceFromEnd l1 exPath (9 / 2) = some p ∧ OnLS exPath p :=
  ls_distance_from_end_on_line l1_ax _ (by simp [exPath]) _
example : ∃ p, lsPointAtDistanceFromStart l1 exPath 100 = some p ∧ OnLS exPath p :=
  ls_distance_on_line l1_ax _ (by simp [exPath]) _
example : lineCoord ⟨0, 0⟩ ⟨3, 4⟩ (linePointAtDistanceFromEnd l1 ⟨0, 0⟩ ⟨3, 4⟩ 2) = true :=
  (line_distance_on_line l1_ax _ _ _).2

/-- Rect, Triangle, Polygon with a hole, MultiPolygon: the hypotheses of the densify theorems -/
example : ∀ r ∈ geomRings (.polygon (densifyPoly l1 (triToPoly ⟨0, 0⟩ ⟨4, 0⟩ ⟨0, 3⟩) 1)),
    ∀ s ∈ Interp.segs r, l1 s.1 s.2 ≤ 1 :=
  densify_geom_pieces l1_ax l1_lerp 1 (by norm_num) (.triangle ⟨0, 0⟩ ⟨4, 0⟩ ⟨0, 3⟩) _ trivial rfl
example : geomLength l1 (.polygon (densifyPoly l1 (rectToPoly ⟨0, 0⟩ ⟨4, 2⟩) (3 / 2))) =
    geomLength l1 (.rect ⟨0, 0⟩ ⟨4, 2⟩) :=
  (densify_geom_length l1_ax l1_lerp (3 / 2) (by norm_num) (.rect ⟨0, 0⟩ ⟨4, 2⟩) _ trivial rfl).2

private def exPoly : Poly :=
  ⟨[⟨0, 0⟩, ⟨9, 0⟩, ⟨9, 9⟩, ⟨0, 0⟩], [[⟨5, 2⟩, ⟨7, 2⟩, ⟨7, 4⟩, ⟨5, 2⟩]]⟩

private theorem exPoly_closed : PolyClosed exPoly := by
  intro r hr
  simp only [polyRings, exPoly, List.mem_cons, List.not_mem_nil, or_false] at hr
  rcases hr with rfl | rfl <;> simp [SM.isClosed]

example : ∀ r ∈ geomRings (.multiPolygon ([exPoly, exPoly].map (fun p => densifyPoly l1 p 2))),
    ∀ s ∈ Interp.segs r, l1 s.1 s.2 ≤ 2 :=
  densify_geom_pieces l1_ax l1_lerp 2 (by norm_num) (.multiPolygon [exPoly, exPoly]) _
    (by intro p hp; simp only [List.mem_cons, List.not_mem_nil, or_false, or_self] at hp
        rw [hp]; exact exPoly_closed) rfl
example : geomLength l1 (.polygon (densifyPoly l1 exPoly 2)) = geomLength l1 (.polygon exPoly) :=
  (densify_geom_length l1_ax l1_lerp 2 (by norm_num) (.polygon exPoly) _ exPoly_closed rfl).2

example : ∃ p, lsPointAtRatioFromEnd l1 exPath (1 / 3) = some p ∧ OnLS exPath p :=
  ls_ratio_from_end_on_line l1_ax _ (by simp [exPath]) _
example : polyRings (densifyPoly l1 exPoly 2) = (polyRings exPoly).map (fun r => densifyLS l1 r 2) :=
  densify_poly_rings_map l1 2 exPoly exPoly_closed
example : geomRings (.multiLineString ([exPath, []].map (fun l => densifyLS l1 l 1))) =
    (geomRings (.multiLineString [exPath, []])).map (fun r => densifyLS l1 r 1) :=
  densify_geom_rings l1 1 (.multiLineString [exPath, []]) _ trivial rfl
example : List.Forall₂ (fun r r' => r.Sublist r' ∧ r'.head? = r.head? ∧ r'.getLast? = r.getLast?)
    (geomRings (.polygon exPoly)) (geomRings (.polygon (densifyPoly l1 exPoly 2))) :=
  densify_geom_vertices l1 2 (.polygon exPoly) _ exPoly_closed rfl

/-- a back-tracking path: the point at `r = 3/4` was passed at `1/4`, which is what locate reports -/
example : lsLineLocatePoint l1 [⟨0, 0⟩, ⟨2, 0⟩, ⟨0, 0⟩] ⟨1, 0⟩ < 3 / 4 :=
  locate_earlier_passage l1_ax _ _ (by norm_num [lsLength, Interp.segs, sumLen, l1]) _
    [(⟨0, 0⟩, ⟨2, 0⟩)] ⟨2, 0⟩ ⟨0, 0⟩ [] rfl (by norm_num [lsLength, Interp.segs, sumLen, l1])
    ⟨_, List.mem_singleton.2 rfl, by norm_num [segDistSq]⟩

example : lsLineLocatePoint l1 [⟨0, 0⟩, ⟨2, 0⟩, ⟨2, 3⟩] ⟨2, 0⟩ = 2 / 5 ↔
    EarlierApart l1 [⟨0, 0⟩, ⟨2, 0⟩, ⟨2, 3⟩] (2 / 5 * lsLength l1 [⟨0, 0⟩, ⟨2, 0⟩, ⟨2, 3⟩]) ⟨2, 0⟩ :=
  locate_interpolate_ls_iff l1_ax _ (2 / 5) (by norm_num) (by norm_num)
    (by norm_num [lsLength, Interp.segs, sumLen, l1]) _
    (by norm_num [lsPointAtRatioFromStart, lsPointAtDistanceFromStart, lsLength, Interp.segs, sumLen, l1,
      walk, pointAtDistanceBetween])

/-! ### tie to the source -/

/-- [E2] `Line::line_locate_point` of the model is the term `translator/rs2lean.py` regenerates on every
run from the Rust body in geo/src/algorithm/line_locate_point.rs (with `Point::dot` from geo-types, and
`is_finite()` true of every rational): the zero-length guard `v_sq == 0`, the projection quotient and the
clamp `max(0).min(1)`. A changed guard, operand or clamp changes the regenerated definition and this
theorem stops checking. -/
theorem lineLocatePoint_eq_source (a b p : Pt) :
    Gen.lineLocatePoint a b p = some (lineLocatePoint a b p) := by
  unfold Gen.lineLocatePoint lineLocatePoint Gen.pointDot clamp01
  have hs : ∀ u v : Pt, (u - v).x = u.x - v.x ∧ (u - v).y = u.y - v.y := fun _ _ => ⟨rfl, rfl⟩
  simp only [(hs _ _).1, (hs _ _).2, beq_iff_eq, if_true]
  split <;> rfl

end Geo.Proofs.C15
