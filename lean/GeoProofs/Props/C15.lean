/-
  C15 — Interpolation, location and densification agree along a line.

  Property theorems only (helper lemmas: GeoProofs/Lemmas/C15.lean). Model: GeoModel/Interp.lean.
  Segment lengths enter through an abstract `len`; what a theorem needs of it is the hypothesis
  `LenAx len` (non-negative, symmetric, zero only between equal points) — all true of the Euclidean
  length — or is stated explicitly.
-/
import GeoModel.Interp
import GeoProofs.Lemmas.C15

namespace Geo.Proofs.C15
open Geo Geo.Interp

/-! ### ratio form, distance form, clamping -/

/-- [T] the ratio form of a LineString is the distance form at `r · length` (definitional). -/
theorem ratio_distance (len : Len) (cs : List Pt) (r : Rat) :
    lsPointAtRatioFromStart len cs r = lsPointAtDistanceFromStart len cs (r * lsLength len cs) := rfl

theorem ratio_distance_end (len : Len) (cs : List Pt) (r : Rat) :
    lsPointAtRatioFromEnd len cs r = lsPointAtDistanceFromEnd len cs (r * lsLength len cs) := rfl

/-- [T] Line: a ratio `≤ 0` gives the start, `≥ 1` the end (and mirrored from the end). -/
theorem line_ratio_clamp (a b : Pt) (r : Rat) :
    (r ≤ 0 → linePointAtRatioFromStart a b r = a ∧ linePointAtRatioFromEnd a b r = b) ∧
    (1 ≤ r → linePointAtRatioFromStart a b r = b ∧ linePointAtRatioFromEnd a b r = a) := by
  constructor
  · intro h; simp [linePointAtRatioFromStart, linePointAtRatioFromEnd, h]
  · intro h
    have h' : ¬ r ≤ 0 := by linarith
    simp [linePointAtRatioFromStart, linePointAtRatioFromEnd, h, h']

/-- [T] Line: a distance `≤ 0` gives the start, `≥ length` the end (as points of the plane). -/
theorem line_distance_clamp {len : Len} (hl : LenAx len) (a b : Pt) (d : Rat) :
    (d ≤ 0 → linePointAtDistanceFromStart len a b d = a ∧ linePointAtDistanceFromEnd len a b d = b) ∧
    (len a b ≤ d → linePointAtDistanceFromStart len a b d = b ∧ linePointAtDistanceFromEnd len a b d = a) := by
  constructor
  · intro h; simp [linePointAtDistanceFromStart, linePointAtDistanceFromEnd, h]
  · intro h
    by_cases h0 : d ≤ 0
    · have hz : len a b = 0 := by have := hl.nonneg a b; linarith
      have := hl.eq_of_zero a b hz; subst this
      simp [linePointAtDistanceFromStart, linePointAtDistanceFromEnd, h0]
    · simp [linePointAtDistanceFromStart, linePointAtDistanceFromEnd, h0, h]

/-- [T] Line: strictly inside, the distance form never divides by a zero length. -/
theorem line_distance_inside_pos (len : Len) (a b : Pt) (d : Rat) (h0 : 0 < d) (h1 : d < len a b) :
    0 < len a b ∧ linePointAtDistanceFromStart len a b d = pointAtDistanceBetween len a b d := by
  refine ⟨by linarith, ?_⟩
  simp [linePointAtDistanceFromStart, not_le.2 h0, not_le.2 h1]

/-- [T] Line: ratio form and distance form coincide, `r ↦ r · length`. -/
theorem line_ratio_distance {len : Len} (hl : LenAx len) (a b : Pt) (r : Rat) :
    linePointAtRatioFromStart a b r = linePointAtDistanceFromStart len a b (r * len a b) := by
  by_cases h0 : len a b = 0
  · have := hl.eq_of_zero a b h0; subst this
    simp only [linePointAtRatioFromStart, linePointAtDistanceFromStart, h0, mul_zero, le_refl, if_true]
    split
    · rfl
    · split
      · rfl
      · apply Pt.ext' <;> simp [lerp]
  · have hp : 0 < len a b := lt_of_le_of_ne (hl.nonneg a b) (Ne.symm h0)
    simp only [linePointAtRatioFromStart, linePointAtDistanceFromStart]
    by_cases hr0 : r ≤ 0
    · have : r * len a b ≤ 0 := mul_nonpos_of_nonpos_of_nonneg hr0 (le_of_lt hp)
      simp [hr0, this]
    · have hr0' : 0 < r := not_le.1 hr0
      have : ¬ r * len a b ≤ 0 := not_le.2 (mul_pos hr0' hp)
      simp only [hr0, this, if_false]
      by_cases hr1 : r ≥ 1
      · have : r * len a b ≥ len a b := by nlinarith
        simp [hr1, this]
      · have : ¬ r * len a b ≥ len a b := by
          intro h; apply hr1; have := not_le.1 hr1; nlinarith
        simp only [hr1, this, if_false]
        apply Pt.ext' <;> simp only [lerp, pointAtDistanceBetween] <;> field_simp

/-- [T] Line: `from_start(r)` and `from_end(1 − r)` are the same point, for every `r`. -/
theorem line_ratio_start_end (a b : Pt) (r : Rat) :
    linePointAtRatioFromStart a b r = linePointAtRatioFromEnd a b (1 - r) := by
  simp only [linePointAtRatioFromStart, linePointAtRatioFromEnd]
  by_cases h0 : r ≤ 0
  · have : 1 - r ≥ 1 := by linarith
    have h' : ¬ (1 - r ≤ 0) := by linarith
    simp [h0, this, h']
  · by_cases h1 : r ≥ 1
    · have : 1 - r ≤ 0 := by linarith
      simp [h0, h1, this]
    · have h2 : ¬ (1 - r ≤ 0) := by linarith
      have h3 : ¬ (1 - r ≥ 1) := by intro h; apply h0; linarith
      simp only [h0, h1, h2, h3, if_false]
      apply Pt.ext' <;> simp only [lerp] <;> ring

/-- [T] LineString: a distance `≤ 0` gives the first coordinate (from the end: the last). -/
theorem ls_distance_clamp_lo (len : Len) (cs : List Pt) (d : Rat) (h : d ≤ 0) :
    lsPointAtDistanceFromStart len cs d = cs.head? ∧ lsPointAtDistanceFromEnd len cs d = cs.getLast? := by
  simp [lsPointAtDistanceFromStart, lsPointAtDistanceFromEnd, h]

/-! ### the walk -/

/-- [T] `walk_arclength`: for `0 < d` the walk stops on the segment `(a,b)` whose cumulative
interval contains `d` — `Σ pre < d ≤ Σ pre + len a b` — with remaining distance
`d − Σ pre`; that segment has positive length (a zero-length segment is skipped, never divided
by). -/
theorem walk_arclength (len : Len) (ss : List (Pt × Pt)) (d : Rat) (a b : Pt) (r : Rat) (hd : 0 < d)
    (h : walk len ss d = some (a, b, r)) :
    ∃ pre post, ss = pre ++ (a, b) :: post ∧ r = d - sumLen len pre ∧
      sumLen len pre < d ∧ d ≤ sumLen len pre + len a b ∧ 0 < len a b := by
  obtain ⟨pre, post, e, hr, hpos, hle⟩ := walk_some ss d hd h
  exact ⟨pre, post, e, hr, by linarith, by linarith, by linarith⟩

/-- [T] the walk runs off the end exactly when `d` exceeds the total length. -/
theorem walk_off_end {len : Len} (hl : LenAx len) (ss : List (Pt × Pt)) (d : Rat) (hd : 0 < d) :
    walk len ss d = none ↔ sumLen len ss < d :=
  ⟨walk_none ss d hd, walk_eq_none hl ss d⟩

/-- [T] `from_end` is `from_start` of the reversed line string (same walk over `rev_lines`). -/
theorem from_end_eq_reverse (len : Len) (cs : List Pt) (d : Rat) :
    lsPointAtDistanceFromEnd len cs d = lsPointAtDistanceFromStart len cs.reverse d := by
  simp only [lsPointAtDistanceFromEnd, lsPointAtDistanceFromStart, revSegs_eq_flipRev, segs_reverse,
    List.head?_reverse, List.getLast?_reverse]

/-! ### arc-length characterisation and the start/end symmetry -/

private theorem segs_head {cs : List Pt} {a b : Pt} {rest : List (Pt × Pt)}
    (h : segs cs = (a, b) :: rest) : cs.head? = some a := by
  match cs, h with
  | x :: y :: t, h => simp only [segs, List.cons.injEq, Prod.mk.injEq] at h; simp [h.1.1]

private theorem segs_last : ∀ {cs : List Pt} {init : List (Pt × Pt)} {a b : Pt},
    segs cs = init ++ [(a, b)] → cs.getLast? = some b
  | [], init, a, b, h => by simp [segs] at h
  | [_], init, a, b, h => by simp [segs] at h
  | [x, y], init, a, b, h => by
    cases init with
    | nil => simp only [segs, List.nil_append, List.cons.injEq, Prod.mk.injEq, and_true] at h; simp [h.2]
    | cons i is => simp [segs] at h
  | x :: y :: z :: t, init, a, b, h => by
    cases init with
    | nil => simp [segs] at h
    | cons i is =>
      simp only [segs, List.cons_append, List.cons.injEq] at h
      have := segs_last (cs := y :: z :: t) (init := is) (a := a) (b := b) (by simpa [segs] using h.2)
      simpa using this

/-- [T] `lies on the line at arc length d`: for `0 ≤ d ≤ length` (and at least one segment) the
distance form returns a point that is at arc length `d` on the chain of segments (`OnSegs`: on
a segment whose cumulative interval contains `d`, at `len`-distance `d − Σ before` from its
start); by `onSegs_unique` that point is unique. -/
theorem ls_distance_onSegs {len : Len} (hl : LenAx len) (cs : List Pt) (d : Rat) (hne : segs cs ≠ [])
    (h0 : 0 ≤ d) (h1 : d ≤ lsLength len cs) :
    ∃ p, lsPointAtDistanceFromStart len cs d = some p ∧ OnSegs len (segs cs) d p := by
  unfold lsPointAtDistanceFromStart
  by_cases hd : d ≤ 0
  · have hd0 : d = 0 := le_antisymm hd h0
    rw [if_pos hd]
    match hs : segs cs, hne with
    | (a, b) :: rest, _ =>
      exact ⟨a, segs_head hs, Or.inl ⟨h0, by rw [hd0]; exact hl.nonneg a b, by rw [hd0, pdb_zero]⟩⟩
  · rw [if_neg hd]
    have hpos : 0 < d := not_le.1 hd
    match hw : walk len (segs cs) d with
    | some (a, b, r) => exact ⟨_, rfl, walk_onSegs (segs cs) d hpos hw⟩
    | none =>
      have := walk_none (segs cs) d hpos hw
      unfold lsLength at h1
      linarith

/-- [T] LineString: a distance `≥ length` gives the last coordinate, as a point of the plane
(for `d = length` the walk stops at the end of the last segment of positive length, which is
the last coordinate because everything after it has zero length). -/
theorem ls_distance_clamp_hi {len : Len} (hl : LenAx len) (cs : List Pt) (d : Rat)
    (h : lsLength len cs ≤ d) : lsPointAtDistanceFromStart len cs d = cs.getLast? := by
  by_cases hne : segs cs = []
  · -- no segment: at most one coordinate
    unfold lsPointAtDistanceFromStart
    rw [hne]
    match cs, hne with
    | [], _ => simp [walk]
    | [a], _ => simp [walk]
  · have hL : 0 ≤ lsLength len cs := sumLen_nonneg hl _
    by_cases hgt : lsLength len cs < d
    · unfold lsPointAtDistanceFromStart
      have hd : ¬ d ≤ 0 := by linarith
      rw [if_neg hd, walk_eq_none hl _ _ hgt]
    · have hd : d = lsLength len cs := le_antisymm (not_lt.1 hgt) h
      obtain ⟨p, hp, hon⟩ := ls_distance_onSegs hl cs d hne (by linarith) (le_of_eq hd)
      rw [hp]
      -- the last coordinate is also at arc length `length`
      obtain ⟨init, s, hs⟩ : ∃ init s, segs cs = init ++ [s] :=
        ⟨(segs cs).dropLast, (segs cs).getLast hne, (List.dropLast_append_getLast hne).symm⟩
      obtain ⟨a, b⟩ := s
      have hlast : OnSegs len (segs cs) d b := by
        rw [hs, onSegs_append]
        right
        have : d - sumLen len init = len a b := by
          rw [hd]; unfold lsLength; rw [hs, sumLen_append]; simp [sumLen]
        rw [this]
        exact Or.inl ⟨hl.nonneg a b, le_refl _, (pdb_full hl a b).symm⟩
      rw [segs_last hs, onSegs_unique hl _ d p b (chain_segs cs) hon hlast]

/-- [T] `from_start(d)` and `from_end(length − d)` are the same point of the plane, for every
`0 ≤ d ≤ length` — including `d` exactly at a vertex, repeated vertices and zero-length
segments. -/
theorem distance_start_end {len : Len} (hl : LenAx len) (cs : List Pt) (d : Rat)
    (h0 : 0 ≤ d) (h1 : d ≤ lsLength len cs) :
    lsPointAtDistanceFromStart len cs d = lsPointAtDistanceFromEnd len cs (lsLength len cs - d) := by
  rw [from_end_eq_reverse]
  by_cases hne : segs cs = []
  · match cs, hne with
    | [], _ => simp [lsPointAtDistanceFromStart, walk, segs]
    | [a], _ => simp [lsPointAtDistanceFromStart, walk, segs]
  · have hrev : segs cs.reverse = flipRev (segs cs) := segs_reverse cs
    have hLrev : lsLength len cs.reverse = lsLength len cs := by
      unfold lsLength; rw [hrev, sumLen_flipRev hl]
    have hne' : segs cs.reverse ≠ [] := by
      rw [hrev]; unfold flipRev; simpa using hne
    obtain ⟨p, hp, hon⟩ := ls_distance_onSegs hl cs d hne h0 h1
    obtain ⟨q, hq, hon'⟩ := ls_distance_onSegs hl cs.reverse (lsLength len cs - d) hne'
      (by linarith) (by rw [hLrev]; linarith)
    rw [hp, hq]
    have := onSegs_flipRev hl (segs cs) d p hon
    rw [← hrev] at this
    rw [onSegs_unique hl _ _ p q (chain_segs cs.reverse) this hon']

/-- [T] `point_at_ratio_from_start(line, r)` coincides with `point_at_ratio_from_end(line, 1 − r)`
as a point of the plane, for **every** ratio `r` (negative and beyond 1 included: both clamp). -/
theorem ratio_start_end {len : Len} (hl : LenAx len) (cs : List Pt) (r : Rat) :
    lsPointAtRatioFromStart len cs r = lsPointAtRatioFromEnd len cs (1 - r) := by
  have hL : 0 ≤ lsLength len cs := sumLen_nonneg hl _
  have hLrev : lsLength len cs.reverse = lsLength len cs := by
    unfold lsLength; rw [segs_reverse, sumLen_flipRev hl]
  unfold lsPointAtRatioFromStart lsPointAtRatioFromEnd
  by_cases h0 : r < 0
  · -- start side clamps to the first coordinate; end side is at ≥ length from the end
    rw [(ls_distance_clamp_lo len cs _ (by nlinarith)).1, from_end_eq_reverse,
      ls_distance_clamp_hi hl cs.reverse _ (by rw [hLrev]; nlinarith)]
    simp
  · by_cases h1 : 1 < r
    · rw [ls_distance_clamp_hi hl cs _ (by nlinarith),
        (ls_distance_clamp_lo len cs _ (by nlinarith)).2]
    · have e : (1 - r) * lsLength len cs = lsLength len cs - r * lsLength len cs := by ring
      rw [e]
      exact distance_start_end hl cs _ (by nlinarith [not_lt.1 h0]) (by nlinarith [not_lt.1 h1])

/-- [T] clamping of the ratio form: `r ≤ 0` gives the first coordinate, `r ≥ 1` the last. -/
theorem ls_ratio_clamp {len : Len} (hl : LenAx len) (cs : List Pt) (r : Rat) :
    (r ≤ 0 → lsPointAtRatioFromStart len cs r = cs.head?) ∧
    (1 ≤ r → lsPointAtRatioFromStart len cs r = cs.getLast?) := by
  have hL : 0 ≤ lsLength len cs := sumLen_nonneg hl _
  exact ⟨fun h => (ls_distance_clamp_lo len cs _ (by nlinarith)).1,
    fun h => ls_distance_clamp_hi hl cs _ (by nlinarith)⟩

end Geo.Proofs.C15
