/-
  C13 — Affine transforms obey matrix algebra and commute with the algorithms.

  Property theorems only. Model: GeoModel/Affine.lean (`Affine K` mirrors
  `AffineTransform<T>` entry by entry; the scalar type is a parameter as in the Rust code).

  The algebraic laws are proved for every commutative ring `K` (so for the integer scalar types
  as mathematical integers and for the rationals that carry every finite float), the inverse laws
  for every field, the integer inverse in its `_partial` form (known finding K3). The commutation
  laws are about the exact kernel quantities of GeoModel/Orient.lean.
-/
import GeoModel.Affine
import GeoModel.Gen.AffineGen
import Mathlib.Tactic.Ring
import Mathlib.Tactic.FieldSimp
import Mathlib.Tactic.Linarith
import Mathlib.Tactic.LinearCombination
import Mathlib.Tactic.NormNum

namespace Geo.Proofs.C13
open Geo Geo.Affine

variable {K : Type}

/-! ### the type invariant: third row `[0, 0, 1]` -/

/-- [T] `new` (hence every public constructor) yields third row `[0,0,1]`. -/
theorem new_wf [CommRing K] (a b xoff d e yoff : K) : (new a b xoff d e yoff).WF := ⟨rfl, rfl, rfl⟩

theorem identity_wf [CommRing K] : (identity : Affine K).WF := ⟨rfl, rfl, rfl⟩

/-- [T] `compose` keeps the third row `[0,0,1]` ("this section isn't technically necessary"). -/
theorem compose_wf [CommRing K] (a b : Affine K) (ha : a.WF) (hb : b.WF) : (a.compose b).WF := by
  obtain ⟨h0, h1, h2⟩ := ha
  obtain ⟨g0, g1, g2⟩ := hb
  simp only [WF, compose, h0, h1, h2, g0, g1, g2]
  refine ⟨by ring, by ring, by ring⟩

example : (compose (new (1 : Int) 2 5 3 4 6) (new 7 8 11 9 10 12)).WF := ⟨by decide, by decide, by decide⟩

/-! ### compose / apply -/

/-- [T] Applying `compose(a, b)` to a coordinate equals applying `a`, then `b` — for every
matrix pair over every commutative ring. (`a.WF` is the type invariant of `AffineTransform`.) -/
theorem apply_compose [CommRing K] (a b : Affine K) (ha : a.WF) (x y : K) :
    (a.compose b).apply x y = b.apply (a.apply x y).1 (a.apply x y).2 := by
  obtain ⟨h0, h1, h2⟩ := ha
  simp only [compose, apply, h0, h1, h2, Prod.mk.injEq]
  constructor <;> ring

example : ((new (1 : Int) 2 5 3 4 6).compose (new 7 8 11 9 10 12)).apply 1 1 = (171, 214) := by decide

/-- [T] composition is associative (all nine entries, no invariant needed). -/
theorem compose_assoc [CommRing K] (a b c : Affine K) :
    (a.compose b).compose c = a.compose (b.compose c) := by
  simp only [compose, Affine.mk.injEq]
  refine ⟨?_, ?_, ?_, ?_, ?_, ?_, ?_, ?_, ?_⟩ <;> ring

/-- [T] `identity` is a right unit … -/
theorem compose_id_right [CommRing K] (a : Affine K) : a.compose identity = a := by
  cases a
  simp only [compose, identity, new, Affine.mk.injEq]
  refine ⟨?_, ?_, ?_, ?_, ?_, ?_, ?_, ?_, ?_⟩ <;> ring

/-- [T] … and a left unit. -/
theorem compose_id_left [CommRing K] (a : Affine K) : identity.compose a = a := by
  cases a
  simp only [compose, identity, new, Affine.mk.injEq]
  refine ⟨?_, ?_, ?_, ?_, ?_, ?_, ?_, ?_, ?_⟩ <;> ring

/-- [T] `identity.apply p = p`. -/
theorem identity_apply [CommRing K] (x y : K) : (identity : Affine K).apply x y = (x, y) := by
  simp only [identity, new, apply, Prod.mk.injEq]
  constructor <;> ring

private theorem compose_foldl [CommRing K] (a : Affine K) (ts : List (Affine K)) :
    ∀ acc : Affine K, a.compose (ts.foldl (fun acc t => acc.compose t) acc)
      = ts.foldl (fun acc t => acc.compose t) (a.compose acc) := by
  induction ts with
  | nil => intro acc; rfl
  | cons t ts ih => intro acc; simp only [List.foldl_cons]; rw [ih, compose_assoc]

/-- [T] `compose_many` (which folds from the identity and composes once more) is the left fold of
`compose` starting at `self`, for every chain. -/
theorem composeMany_fold [CommRing K] (m : Affine K) (ts : List (Affine K)) :
    m.composeMany ts = ts.foldl (fun acc t => acc.compose t) m := by
  unfold composeMany; rw [compose_foldl, compose_id_right]

private theorem foldl_wf [CommRing K] (ts : List (Affine K)) (hts : ∀ t ∈ ts, t.WF) :
    ∀ m : Affine K, m.WF → (ts.foldl (fun acc t => acc.compose t) m).WF := by
  induction ts with
  | nil => intro m hm; exact hm
  | cons t ts ih =>
    intro m hm
    simp only [List.foldl_cons]
    exact ih (fun u hu => hts u (List.mem_cons_of_mem _ hu)) _
      (compose_wf m t hm (hts t List.mem_cons_self))

/-- [T] every chain of composed transforms keeps the invariant. -/
theorem composeMany_wf [CommRing K] (m : Affine K) (ts : List (Affine K)) (hm : m.WF)
    (hts : ∀ t ∈ ts, t.WF) : (m.composeMany ts).WF := by
  rw [composeMany_fold]; exact foldl_wf ts hts m hm

/-- [T] Applying a composed chain equals applying the transforms one after the other, for
every chain length. -/
theorem composeMany_apply [CommRing K] (ts : List (Affine K)) (hts : ∀ t ∈ ts, t.WF) :
    ∀ (m : Affine K), m.WF → ∀ p : K × K,
      (m.composeMany ts).apply p.1 p.2 =
        ts.foldl (fun q t => t.apply q.1 q.2) (m.apply p.1 p.2) := by
  induction ts with
  | nil => intro m _ p; rw [composeMany_fold]; rfl
  | cons t ts ih =>
    intro m hm p
    have h := ih (fun u hu => hts u (List.mem_cons_of_mem _ hu)) (m.compose t)
      (compose_wf m t hm (hts t List.mem_cons_self)) p
    rw [composeMany_fold] at h ⊢
    simp only [List.foldl_cons]
    rw [h, apply_compose m t hm]

example : ((new (1 : Int) 0 1 0 1 1).composeMany [new 2 0 0 0 2 0, new 0 1 0 1 0 0]).apply 1 0 = (2, 4) := by
  decide

/-! ### inverse -/

/-- [T] `inverse` is `None` exactly for singular matrices (any field). -/
theorem inverse_none_iff [Field K] [DecidableEq K] (a : Affine K) :
    a.inverse = none ↔ a.det = 0 := by
  simp only [inverse, inverseWith, det]
  split <;> simp_all

/-- shape of a successful inverse, with the reciprocal of the determinant abstracted -/
private theorem inverse_some [Field K] [DecidableEq K] (a i : Affine K) (h : a.inverse = some i) :
    ∃ u : K, (a.m00 * a.m11 - a.m01 * a.m10) * u = 1 ∧
      i = new (a.m11 * u) (-a.m01 * u) ((a.m01 * a.m12 - a.m11 * a.m02) * u)
              (-a.m10 * u) (a.m00 * u) ((a.m10 * a.m02 - a.m00 * a.m12) * u) := by
  simp only [inverse, inverseWith] at h
  split at h
  · simp at h
  · rename_i hd
    simp only [Option.some.injEq] at h
    exact ⟨1 / (a.m00 * a.m11 - a.m01 * a.m10), by field_simp, h.symm⟩

/-- [T] the inverse again satisfies the invariant. -/
theorem inverse_wf [Field K] [DecidableEq K] (a i : Affine K) (h : a.inverse = some i) : i.WF := by
  obtain ⟨u, _, rfl⟩ := inverse_some a i h
  exact ⟨rfl, rfl, rfl⟩

/-- [T] Composing a transform with its inverse yields the identity matrix (all nine entries). -/
theorem inverse_right [Field K] [DecidableEq K] (a i : Affine K) (ha : a.WF)
    (h : a.inverse = some i) : a.compose i = identity := by
  obtain ⟨h0, h1, h2⟩ := ha
  obtain ⟨u, hu, rfl⟩ := inverse_some a i h
  simp only [compose, identity, new, h0, h1, h2, Affine.mk.injEq]
  refine ⟨?_, ?_, ?_, ?_, ?_, ?_, ?_, ?_, ?_⟩ <;> first | ring1 | linear_combination hu

/-- [T] … on the other side too. -/
theorem inverse_left [Field K] [DecidableEq K] (a i : Affine K) (ha : a.WF)
    (h : a.inverse = some i) : i.compose a = identity := by
  obtain ⟨h0, h1, h2⟩ := ha
  obtain ⟨u, hu, rfl⟩ := inverse_some a i h
  simp only [compose, identity, new, h0, h1, h2, Affine.mk.injEq]
  refine ⟨?_, ?_, ?_, ?_, ?_, ?_, ?_, ?_, ?_⟩ <;>
    first | ring1 | linear_combination hu | linear_combination (-a.m02) * hu
          | linear_combination (-a.m12) * hu

/-- [T] `inverse` undoes the transform on every coordinate. -/
theorem inverse_apply [Field K] [DecidableEq K] (a i : Affine K) (ha : a.WF)
    (h : a.inverse = some i) (x y : K) :
    i.apply (a.apply x y).1 (a.apply x y).2 = (x, y) := by
  rw [← apply_compose a i ha, inverse_right a i ha h, identity_apply]

/-- [T] … and the transform undoes its inverse. -/
theorem apply_inverse [Field K] [DecidableEq K] (a i : Affine K) (ha : a.WF)
    (h : a.inverse = some i) (x y : K) :
    a.apply (i.apply x y).1 (i.apply x y).2 = (x, y) := by
  rw [← apply_compose i a (inverse_wf a i h), inverse_left a i ha h, identity_apply]

example : (new (2 : Rat) 0 2 0 2 2).inverse = some (new (1/2) 0 (-1) 0 (1/2) (-1)) := by
  simp only [inverse, inverseWith, new]; norm_num

/- Integer scalar types. Full statement (false for the code as it is):
     `inverseInt a = some i → a.WF → a.compose i = identity`.
   The code computes `T::one() / determinant` in the integers, which is 0 unless `det = ±1`;
   proved under that hypothesis, with the counter-example and the exact failure class below. -/

private theorem inverseInt_some (a : Affine Int) (hd : a.det ≠ 0) :
    inverseInt a =
      some (new (a.m11 * Int.tdiv 1 a.det) (-a.m01 * Int.tdiv 1 a.det)
              ((a.m01 * a.m12 - a.m11 * a.m02) * Int.tdiv 1 a.det)
              (-a.m10 * Int.tdiv 1 a.det) (a.m00 * Int.tdiv 1 a.det)
              ((a.m10 * a.m02 - a.m00 * a.m12) * Int.tdiv 1 a.det)) := by
  simp only [det] at hd
  simp only [inverseInt, inverseWith, det, hd, if_false]

/-- [T, partial] integer inverse is a two-sided inverse when `det = ±1`. -/
theorem inverse_int_partial (a : Affine Int) (ha : a.WF) (hd : a.det = 1 ∨ a.det = -1) :
    ∃ i, inverseInt a = some i ∧ a.compose i = identity ∧ i.compose a = identity := by
  obtain ⟨h0, h1, h2⟩ := ha
  have hne : a.det ≠ 0 := by rcases hd with h | h <;> rw [h] <;> decide
  have hu : (a.m00 * a.m11 - a.m01 * a.m10) * Int.tdiv 1 a.det = 1 := by
    rcases hd with h | h <;> rw [h] <;> simp only [det] at h <;> rw [h] <;> decide
  refine ⟨_, inverseInt_some a hne, ?_, ?_⟩
  · generalize Int.tdiv 1 a.det = u at hu ⊢
    simp only [compose, identity, new, h0, h1, h2, Affine.mk.injEq]
    refine ⟨?_, ?_, ?_, ?_, ?_, ?_, ?_, ?_, ?_⟩ <;> first | ring1 | linear_combination hu
  · generalize Int.tdiv 1 a.det = u at hu ⊢
    simp only [compose, identity, new, h0, h1, h2, Affine.mk.injEq]
    refine ⟨?_, ?_, ?_, ?_, ?_, ?_, ?_, ?_, ?_⟩ <;>
      first | ring1 | linear_combination hu | linear_combination (-a.m02) * hu
            | linear_combination (-a.m12) * hu

example : inverseInt (new 2 1 3 1 1 4) = some (new 1 (-1) 1 (-1) 2 (-5)) := by decide

/-- [T] witness for K3: `AffineTransform::<i32>::new(2,0,0,0,1,0).inverse()` is `Some` of the
zero matrix, and composing with it does not give the identity. -/
theorem inverse_int_witness :
    inverseInt (new 2 0 0 0 1 0) = some (new 0 0 0 0 0 0) ∧
    (new (2 : Int) 0 0 0 1 0).compose (new 0 0 0 0 0 0) ≠ identity := by decide

/-- [T] the failing class exactly: whenever `|det| ≥ 2` the integer inverse is the zero matrix. -/
theorem inverse_int_zero (a : Affine Int) (hd : 2 ≤ a.det.natAbs) :
    inverseInt a = some (new 0 0 0 0 0 0) := by
  have hne : a.det ≠ 0 := by intro h; rw [h] at hd; simp at hd
  have ht : Int.tdiv 1 a.det = 0 := by
    rcases Int.natAbs_eq a.det with h' | h'
    · rw [h']; apply Int.tdiv_eq_zero_of_lt (by decide); omega
    · rw [h', Int.tdiv_neg, Int.tdiv_eq_zero_of_lt (by decide) (by omega)]; rfl
  rw [inverseInt_some a hne, ht]
  simp [new]

/-- [T] for the integer types too, `None` is returned exactly for singular matrices. -/
theorem inverse_int_none_iff (a : Affine Int) : inverseInt a = none ↔ a.det = 0 := by
  simp only [inverseInt, inverseWith, det]
  split <;> simp_all

/-! ### constructors = the documented matrix about the documented origin -/

/-- [T] `scale(fx, fy, o)` scales the offset from `o`. -/
theorem scale_apply [CommRing K] (fx fy x0 y0 x y : K) :
    (scale fx fy x0 y0).apply x y = (x0 + fx * (x - x0), y0 + fy * (y - y0)) := by
  simp only [scale, new, apply, Prod.mk.injEq]
  constructor <;> ring

/-- [T] `translate(dx, dy)` adds the offsets. -/
theorem translate_apply [CommRing K] (dx dy x y : K) :
    (translate dx dy).apply x y = (x + dx, y + dy) := by
  simp only [translate, new, apply, Prod.mk.injEq]
  constructor <;> ring

/-- [T] `rotate(θ, o)` is `o + R(θ)(p − o)` (for any values of `cos`/`sin`). -/
theorem rotate_apply [CommRing K] (c s x0 y0 x y : K) :
    (rotate c s x0 y0).apply x y =
      (x0 + (c * (x - x0) - s * (y - y0)), y0 + (s * (x - x0) + c * (y - y0))) := by
  simp only [rotate, new, apply, Prod.mk.injEq]
  constructor <;> ring

/-- [T] `skew(xs, ys, o)` shears the offset from `o`: `x' = x + tan(xs)·(y − y0)`, `y' = y + tan(ys)·(x − x0)`. -/
theorem skewT_apply [CommRing K] (tx ty x0 y0 x y : K) :
    (skewT tx ty x0 y0).apply x y = (x + tx * (y - y0), y + ty * (x - x0)) := by
  simp only [skewT, new, apply, Prod.mk.injEq]
  constructor <;> ring

/-- [T] the rational `skew` with the `2.5e-16` clamp. -/
theorem skew_apply (tx ty : Rat) (o p : Pt) :
    (skew tx ty o).applyPt p =
      ⟨p.x + skewClamp tx * (p.y - o.y), p.y + skewClamp ty * (p.x - o.x)⟩ := by
  simp only [applyPt, skew, skewT_apply]

/-- [T] the clamp only ever replaces a tangent below `2.5e-16` by zero. -/
theorem skewClamp_cases (t : Rat) : skewClamp t = t ∨ (skewClamp t = 0 ∧ rabs t < skewEps) := by
  unfold skewClamp; split <;> simp_all

/-- [T] the origin is a fixed point of `scale`, `rotate` (when `c² + s² = 1` is not even needed)
and `skew`. -/
theorem origin_fixed [CommRing K] (f g x0 y0 : K) :
    (scale f g x0 y0).apply x0 y0 = (x0, y0) ∧ (rotate f g x0 y0).apply x0 y0 = (x0, y0) ∧
    (skewT f g x0 y0).apply x0 y0 = (x0, y0) := by
  rw [scale_apply, rotate_apply, skewT_apply]
  refine ⟨?_, ?_, ?_⟩ <;> simp

/-- [T] all constructors satisfy the invariant. -/
theorem ctor_wf [CommRing K] (f g x0 y0 : K) :
    (scale f g x0 y0).WF ∧ (translate f g).WF ∧ (rotate f g x0 y0).WF ∧ (skewT f g x0 y0).WF :=
  ⟨⟨rfl, rfl, rfl⟩, ⟨rfl, rfl, rfl⟩, ⟨rfl, rfl, rfl⟩, ⟨rfl, rfl, rfl⟩⟩

/-- [T] the cumulative forms `scaled` / `translated` / `rotated` apply the existing transform
first, then the new one. -/
theorem cumulative_apply [CommRing K] (m : Affine K) (hm : m.WF) (f g x0 y0 x y : K) :
    (m.scaled f g x0 y0).apply x y = (scale f g x0 y0).apply (m.apply x y).1 (m.apply x y).2 ∧
    (m.translated f g).apply x y = (translate f g).apply (m.apply x y).1 (m.apply x y).2 ∧
    (m.rotated f g x0 y0).apply x y = (rotate f g x0 y0).apply (m.apply x y).1 (m.apply x y).2 :=
  ⟨apply_compose m _ hm x y, apply_compose m _ hm x y, apply_compose m _ hm x y⟩

/-- [T] determinants: `scale` has `fx·fy`, `translate` 1, `rotate` `c² + s²`, `skew` `1 − tx·ty`;
`det` is multiplicative. -/
theorem det_formulas [CommRing K] (f g x0 y0 : K) (a b : Affine K) :
    (scale f g x0 y0).det = f * g ∧ (translate f g).det = 1 ∧ (rotate f g x0 y0).det = f * f + g * g ∧
    (skewT f g x0 y0).det = 1 - f * g ∧ (a.WF → (a.compose b).det = a.det * b.det) := by
  refine ⟨?_, ?_, ?_, ?_, ?_⟩
  · simp [scale, new, det]
  · simp [translate, new, det]
  · simp only [rotate, new, det]; ring
  · simp only [skewT, new, det]; ring
  · rintro ⟨h0, h1, h2⟩; simp only [compose, det, h0, h1, h2]; ring

/-! ### trait layers -/

/-- [T] empty geometry (no bounding box / no centroid) ⇒ the trait methods return it unchanged;
otherwise they are `*_around_point` about the bounding-box centre / the centroid. -/
theorem trait_origin (fx fy c s : Rat) (g : Geom) :
    (boundingRect g = none → scaleXY fx fy g = g ∧ skewXY fx fy g = g ∧ rotateAroundCenter c s g = g) ∧
    (∀ r, boundingRect g = some r →
      scaleXY fx fy g = scaleAroundPoint fx fy (rectCenter r) g ∧
      skewXY fx fy g = skewAroundPoint fx fy (rectCenter r) g ∧
      rotateAroundCenter c s g = rotateAroundPoint c s (rectCenter r) g) ∧
    rotateAroundCentroid c s none g = g ∧
    (∀ o, rotateAroundCentroid c s (some o) g = rotateAroundPoint c s o g) := by
  refine ⟨?_, ?_, rfl, fun _ => rfl⟩
  · intro h; simp [scaleXY, skewXY, rotateAroundCenter, h]
  · intro r h; simp [scaleXY, skewXY, rotateAroundCenter, h]

/-- [T] on a point the trait methods are the documented maps. -/
theorem trait_point (fx fy dx dy c s : Rat) (o p : Pt) :
    scaleAroundPoint fx fy o (.point p) = .point ⟨o.x + fx * (p.x - o.x), o.y + fy * (p.y - o.y)⟩ ∧
    translateG dx dy (.point p) = .point ⟨p.x + dx, p.y + dy⟩ ∧
    rotateAroundPoint c s o (.point p) =
      .point ⟨o.x + (c * (p.x - o.x) - s * (p.y - o.y)), o.y + (s * (p.x - o.x) + c * (p.y - o.y))⟩ := by
  simp only [scaleAroundPoint, translateG, rotateAroundPoint, affineTransform, mapCoords, applyPt,
    scale_apply, translate_apply, rotate_apply, and_self]

/-! ### commutation with the exact kernel -/

/-- [T] every affine map multiplies the orientation determinant by its own determinant. -/
theorem cross_apply (m : Affine Rat) (p q r : Pt) :
    cross (m.applyPt p) (m.applyPt q) (m.applyPt r) = m.det * cross p q r := by
  simp only [cross, applyPt, apply, det]; ring

/-- [T] … and `Point::cross_prod` (used by `Triangle::new`). -/
theorem crossProd_apply (m : Affine Rat) (p q r : Pt) :
    crossProd (m.applyPt p) (m.applyPt q) (m.applyPt r) = m.det * crossProd p q r := by
  simp only [crossProd, applyPt, apply, det]; ring

/-- [T] orientation-preserving maps (`det > 0`) leave `orient2d` unchanged. -/
theorem orient_apply_pos (m : Affine Rat) (hd : 0 < m.det) (p q r : Pt) :
    orient (m.applyPt p) (m.applyPt q) (m.applyPt r) = orient p q r := by
  simp only [orient, cross_apply]
  rcases lt_trichotomy (cross p q r) 0 with h | h | h
  · have : m.det * cross p q r < 0 := mul_neg_of_pos_of_neg hd h
    simp [this, h, not_lt.mpr (le_of_lt this), not_lt.mpr (le_of_lt h)]
  · simp [h]
  · have : 0 < m.det * cross p q r := mul_pos hd h
    simp [this, h]

/-- [T] orientation-reversing maps (`det < 0`: axis swap, reflections) flip it exactly. -/
theorem orient_apply_neg (m : Affine Rat) (hd : m.det < 0) (p q r : Pt) :
    orient (m.applyPt p) (m.applyPt q) (m.applyPt r) = Ori.flip (orient p q r) := by
  simp only [orient, cross_apply]
  rcases lt_trichotomy (cross p q r) 0 with h | h | h
  · have : 0 < m.det * cross p q r := mul_pos_of_neg_of_neg hd h
    simp [this, h, not_lt.mpr (le_of_lt h), Ori.flip]
  · simp [h, Ori.flip]
  · have : m.det * cross p q r < 0 := mul_neg_of_neg_of_pos hd h
    simp [this, h, not_lt.mpr (le_of_lt this), Ori.flip]

example : orient (Affine.applyPt (.new 0 1 0 1 0 0) ⟨0, 0⟩) (Affine.applyPt (.new 0 1 0 1 0 0) ⟨1, 0⟩)
    (Affine.applyPt (.new 0 1 0 1 0 0) ⟨0, 1⟩) = .cw := by
  simp [orient, cross, Affine.applyPt, Affine.apply, Affine.new]

/-- [T] collinearity is invariant under every non-singular affine map. -/
theorem collinear_apply (m : Affine Rat) (hd : m.det ≠ 0) (p q r : Pt) :
    orient (m.applyPt p) (m.applyPt q) (m.applyPt r) = .col ↔ orient p q r = .col := by
  rcases lt_or_gt_of_ne hd with h | h
  · rw [orient_apply_neg m h]; cases orient p q r <;> simp [Ori.flip]
  · rw [orient_apply_pos m h]

/-- [T] the driver's decidable test is `IsSim`. -/
theorem simScale2_iff (m : Affine Rat) (s2 : Rat) : m.simScale2? = some s2 ↔ IsSim m s2 := by
  simp only [simScale2?, IsSim]
  constructor
  · intro h
    split at h
    · rename_i hc; simp only [Option.some.injEq] at h; subst h; exact ⟨rfl, hc.1, hc.2⟩
    · simp at h
  · rintro ⟨h1, h2, h3⟩
    simp [h1, h2, h3]

/-- [T] similarities multiply squared distances by `s2` (lengths and distances by `s`). -/
theorem sim_dist2 (m : Affine Rat) (s2 : Rat) (h : IsSim m s2) (p q : Pt) :
    dist2 (m.applyPt p) (m.applyPt q) = s2 * dist2 p q := by
  obtain ⟨h1, h2, h3⟩ := h
  simp only [dist2, applyPt, apply]
  linear_combination ((p.x - q.x) * (p.x - q.x)) * h1 + ((p.y - q.y) * (p.y - q.y)) * h2 +
    (2 * (p.x - q.x) * (p.y - q.y)) * h3

/-- [T] … and have `det² = s2²`, i.e. areas scale by `±s2`. -/
theorem sim_det_sq (m : Affine Rat) (s2 : Rat) (h : IsSim m s2) : m.det * m.det = s2 * s2 := by
  obtain ⟨h1, h2, h3⟩ := h
  simp only [det]
  linear_combination (m.m01 * m.m01 + m.m11 * m.m11) * h1 + s2 * h2 - (m.m00 * m.m01 + m.m10 * m.m11) * h3

/-- [T] similarities are closed under `compose`, the factors multiply. -/
theorem sim_compose (a b : Affine Rat) (s t : Rat) (ha : a.WF) (hs : IsSim a s) (ht : IsSim b t) :
    IsSim (a.compose b) (s * t) := by
  obtain ⟨h0, h1, h2⟩ := ha
  obtain ⟨s1, s2, s3⟩ := hs
  obtain ⟨t1, t2, t3⟩ := ht
  simp only [IsSim, compose, h0, h1, h2]
  refine ⟨?_, ?_, ?_⟩
  · linear_combination (a.m00 * a.m00) * t1 + (a.m10 * a.m10) * t2 + (2 * a.m00 * a.m10) * t3 + t * s1
  · linear_combination (a.m01 * a.m01) * t1 + (a.m11 * a.m11) * t2 + (2 * a.m01 * a.m11) * t3 + t * s2
  · linear_combination (a.m00 * a.m01) * t1 + (a.m10 * a.m11) * t2 +
      (a.m00 * a.m11 + a.m10 * a.m01) * t3 + t * s3

/-- [T] every generator named by the property (integer translation, `2^k` scaling, axis swap,
reflections, quarter turn) is a similarity with the stated factor and satisfies the invariant. -/
theorem sim_generators (g : ExactSim) : IsSim g.toAffine g.scale2 ∧ g.toAffine.WF := by
  cases g <;> refine ⟨?_, ⟨rfl, rfl, rfl⟩⟩ <;>
    simp [IsSim, ExactSim.toAffine, ExactSim.scale2, Affine.new, Affine.translate]

/-- [T] every chain of generators is a similarity whose squared factor is the product of the
generators' factors — so `dist2` scales by it (`sim_dist2`) and `cross` by `det = ±` that
(`cross_apply`, `sim_det_sq`). -/
theorem sim_chain (gs : List ExactSim) :
    IsSim (ExactSim.chain gs) ((gs.map ExactSim.scale2).foldl (· * ·) 1) ∧ (ExactSim.chain gs).WF := by
  unfold ExactSim.chain
  suffices h : ∀ (acc : Affine Rat) (s : Rat), IsSim acc s → acc.WF →
      IsSim (gs.foldl (fun acc g => acc.compose g.toAffine) acc) ((gs.map ExactSim.scale2).foldl (· * ·) s) ∧
      (gs.foldl (fun acc g => acc.compose g.toAffine) acc).WF by
    exact h identity 1 (by simp [IsSim, identity, new]) ⟨rfl, rfl, rfl⟩
  induction gs with
  | nil => intro acc s h w; exact ⟨h, w⟩
  | cons g gs ih =>
    intro acc s h w
    simp only [List.foldl_cons, List.map_cons]
    exact ih _ _ (sim_compose acc _ s _ w h (sim_generators g).1) (compose_wf acc _ w (sim_generators g).2)

/-- [T] the shoelace sum of `twice_signed_ring_area` is multiplied by `det` under every affine
map (`shift` moves with the ring). -/
theorem detSum_apply (m : Affine Rat) (s : Pt) (r : List Pt) :
    detSum (m.applyPt s) (r.map m.applyPt) = m.det * detSum s r := by
  induction r with
  | nil => simp [detSum]
  | cons a t ih =>
    cases t with
    | nil => simp [detSum]
    | cons b t' =>
      simp only [List.map_cons, detSum] at ih ⊢
      rw [ih]
      simp only [applyPt, apply, det]; ring

/-- [T] `twice_signed_ring_area` of a closed ring (every ring of a `Polygon` is closed, C18) is
multiplied by `det` under every affine map; the signed area therefore scales by `det` and flips
sign under reflections and the axis swap. -/
theorem ringArea_apply_closed (m : Affine Rat) (r : List Pt) (hc : r.head? = r.getLast?) :
    affTwiceSignedRingArea (r.map m.applyPt) = m.det * affTwiceSignedRingArea r := by
  unfold affTwiceSignedRingArea
  have hc' : (r.map m.applyPt).head? = (r.map m.applyPt).getLast? := by
    rw [List.head?_map, List.getLast?_map, hc]
  simp only [List.length_map, hc, hc', ne_eq, not_true_eq_false, if_false]
  split
  · simp
  · cases r with
    | nil => simp
    | cons s t => simp only [List.map_cons]; rw [← List.map_cons, detSum_apply]

example : affTwiceSignedRingArea [⟨0, 0⟩, ⟨2, 0⟩, ⟨0, 2⟩, ⟨0, 0⟩] = 4 := by
  simp [affTwiceSignedRingArea, detSum]; norm_num

/-- [T] `affine_transform` maps the coordinates of the point / line types one by one (no
constructor re-normalisation is involved for these types). -/
theorem affineTransform_coords (m : Affine Rat) (p a b : Pt) (cs : List Pt) (ls : List (List Pt)) :
    coordsIter (affineTransform m (.point p)) = [m.applyPt p] ∧
    coordsIter (affineTransform m (.line a b)) = [m.applyPt a, m.applyPt b] ∧
    coordsIter (affineTransform m (.lineString cs)) = cs.map m.applyPt ∧
    coordsIter (affineTransform m (.multiPoint cs)) = cs.map m.applyPt ∧
    coordsIter (affineTransform m (.multiLineString ls)) = ls.flatten.map m.applyPt := by
  simp [affineTransform, mapCoords, coordsIter, List.map_flatten]

/-! ### tie to the source: the algebraic core regenerated from `affine_ops.rs` -/

/-- [E2] The hand-written model of the algebraic core of `AffineTransform` (at the exact scalars that
carry every finite float) is, definition by definition, the term which `translator/rs2lean.py`
regenerates from the bodies of `new`, `identity`, `compose`, `apply`, `scale`, `translate`, `rotate`
(with `degrees.to_radians().sin_cos()` as a parameter) and `inverse` in
geo/src/algorithm/affine_ops.rs on every run. A change of an index, a sign, an operand order or
the determinant guard in those Rust functions changes the regenerated definitions and this theorem
stops checking. -/
theorem affine_kernels_eq_source :
    (∀ a b xoff d e yoff : Rat, Affine.new a b xoff d e yoff = Gen.affNew a b xoff d e yoff) ∧
    ((Affine.identity : Affine Rat) = Gen.affIdentity) ∧
    (∀ a b : Affine Rat, a.compose b = Gen.affCompose a b) ∧
    (∀ (m : Affine Rat) (p : Pt), m.apply p.x p.y = ((Gen.affApply m p).x, (Gen.affApply m p).y)) ∧
    (∀ fx fy x0 y0 : Rat, Affine.scale fx fy x0 y0 = Gen.affScale fx fy (x0, y0)) ∧
    (∀ dx dy : Rat, Affine.translate dx dy = Gen.affTranslate dx dy) ∧
    (∀ c s x0 y0 : Rat, Affine.rotate c s x0 y0 = Gen.affRotate (s, c) (x0, y0)) ∧
    (∀ m : Affine Rat, m.inverse = Gen.affInverse m) := by
  refine ⟨fun _ _ _ _ _ _ => rfl, rfl, fun _ _ => rfl, fun _ _ => rfl, fun _ _ _ _ => rfl,
    fun _ _ => rfl, fun _ _ _ _ => rfl, fun m => ?_⟩
  unfold Affine.inverse Affine.inverseWith Gen.affInverse
  simp only [beq_iff_eq]
  rfl

end Geo.Proofs.C13
