/-
  C03 — Orientation and point-location predicates are exact.
  Property theorems only. Model: GeoModel/Orient.lean, GeoModel/Segment.lean, GeoModel/Ops/C03.lean
  (integer kernel).  The model *is* exact arithmetic; "exact" therefore means (i) the predicates
  obey the laws of the real-geometry definitions and (ii) the integer formula evaluated in
  wrapping 64-bit arithmetic equals the unbounded one whenever the intermediates fit.
-/
import GeoModel.Segment
import GeoModel.Ops.C03

namespace Geo.Proofs.C03
open Geo

/-- [T] the determinant is invariant under translation. -/
theorem cross_translate (p q r t : Pt) : cross (p + t) (q + t) (r + t) = cross p q r := by
  have hx : ∀ a b : Pt, (a + b).x = a.x + b.x := fun _ _ => rfl
  have hy : ∀ a b : Pt, (a + b).y = a.y + b.y := fun _ _ => rfl
  simp only [cross, hx, hy]
  grind

/-- [T] swapping the last two arguments negates the determinant (orientation reverses). -/
theorem cross_swap (p q r : Pt) : cross p r q = - cross p q r := by
  simp only [cross]; grind

/-- [T] cyclic rotation of the arguments keeps the determinant. -/
theorem cross_cyclic (p q r : Pt) : cross q r p = cross p q r := by
  simp only [cross]; grind

/-- [T] uniform scaling by `k` multiplies the determinant by `k²` (so the orientation is kept
for every `k ≠ 0`). -/
theorem cross_scale (k : Rat) (p q r : Pt) :
    cross (Pt.smul k p) (Pt.smul k q) (Pt.smul k r) = k * k * cross p q r := by
  simp only [cross, Pt.smul]; grind

/-- [T] a repeated point is collinear with anything. -/
theorem orient_degenerate (p q : Pt) : orient p p q = .col ∧ orient p q q = .col ∧ orient p q p = .col := by
  have h1 : cross p p q = 0 := by simp only [cross]; grind
  have h2 : cross p q q = 0 := by simp only [cross]; grind
  have h3 : cross p q p = 0 := by simp only [cross]; grind
  simp [orient, h1, h2, h3]

/-- [T] wrapping to 64 bits is the identity on values that fit. -/
theorem wrap64_of_fits (n : Int) (h : Ops.C03.fits64 n = true) : Ops.C03.wrap64 n = n := by
  simp only [Ops.C03.fits64, Bool.and_eq_true, decide_eq_true_eq] at h
  unfold Ops.C03.wrap64
  have h1 := h.1
  have h2 := h.2
  by_cases hn : 0 ≤ n
  · have : n % 2 ^ 64 = n := Int.emod_eq_of_lt hn (by omega)
    simp only [this]
    split <;> omega
  · have : n % 2 ^ 64 = n + 2 ^ 64 := by omega
    simp only [this]
    split <;> omega

/-- [T] the integer clause of the property: whenever every intermediate of the SimpleKernel
formula fits `i64`, the wrapped evaluation equals the unbounded integer determinant (so the
reported orientation is the exact one). -/
theorem cross_i64_exact (px py qx qy rx ry : Int)
    (h : Ops.C03.intermediatesFit px py qx qy rx ry = true) :
    Ops.C03.crossI64 px py qx qy rx ry = Ops.C03.crossInt px py qx qy rx ry := by
  simp only [Ops.C03.intermediatesFit, Bool.and_eq_true] at h
  obtain ⟨⟨⟨⟨⟨⟨h1, h2⟩, h3⟩, h4⟩, h5⟩, h6⟩, h7⟩ := h
  unfold Ops.C03.crossI64
  rw [wrap64_of_fits _ h1, wrap64_of_fits _ h2, wrap64_of_fits _ h3, wrap64_of_fits _ h4,
    wrap64_of_fits _ h5, wrap64_of_fits _ h6]
  exact wrap64_of_fits _ h7

/-- Non-vacuity: coordinates up to 2^30 satisfy the hypothesis. -/
example : Ops.C03.intermediatesFit 1073741824 (-1073741824) (-1073741824) 1073741824 7 (-9) = true := by
  decide

/-- [T] witness that the bound matters: beyond it, wrap-around flips the sign. -/
theorem cross_i64_overflow_witness :
    Ops.C03.signOri (Ops.C03.crossI64 0 0 4294967296 0 0 4294967296) ≠
    Ops.C03.signOri (Ops.C03.crossInt 0 0 4294967296 0 0 4294967296) := by
  decide

end Geo.Proofs.C03
