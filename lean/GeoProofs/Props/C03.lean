/-
  C03 — Orientation and point-location predicates are exact.
  Property theorems only. Model: GeoModel/Orient.lean, GeoModel/Segment.lean, GeoModel/Ops/C03.lean
  (integer kernel).  The model *is* exact arithmetic; "exact" therefore means (i) the predicates
  obey the laws of the real-geometry definitions and (ii) the integer formula evaluated in
  wrapping 64-bit arithmetic equals the unbounded one whenever the intermediates fit.
-/
import GeoProofs.Lemmas.GenKernel
import GeoProofs.Lemmas.TRANCoordPos
import GeoProofs.Lemmas.TRANArea
import GeoModel.Segment
import GeoModel.Ops.C03
import GeoProofs.Lemmas.SegmentSpec
import GeoProofs.Lemmas.RingSpec

namespace Geo.Proofs.C03
open Geo Geo.Proofs.Kernel

/-- [T] the determinant is invariant under translation. -/
theorem cross_translate (p q r t : Pt) : cross (p + t) (q + t) (r + t) = cross p q r := by
  have hx : ∀ a b : Pt, (a + b).x = a.x + b.x := fun _ _ => rfl
  have hy : ∀ a b : Pt, (a + b).y = a.y + b.y := fun _ _ => rfl
  simp only [cross, hx, hy]
  grind

/-- [T] swapping the last two arguments negates the determinant (orientation reverses). -/
theorem cross_swap (p q r : Pt) : cross p r q = - cross p q r := by
  simp only [cross]; grind

/-- [T] cyclic rotation of the arguments keeps the determinant. -/
theorem cross_cyclic (p q r : Pt) : cross q r p = cross p q r := by
  simp only [cross]; grind

/-- [T] uniform scaling by `k` multiplies the determinant by `k²` (so the orientation is kept
for every `k ≠ 0`). -/
theorem cross_scale (k : Rat) (p q r : Pt) :
    cross (Pt.smul k p) (Pt.smul k q) (Pt.smul k r) = k * k * cross p q r := by
  simp only [cross, Pt.smul]; grind

/-- [T] a repeated point is collinear with anything. -/
theorem orient_degenerate (p q : Pt) : orient p p q = .col ∧ orient p q q = .col ∧ orient p q p = .col := by
  have h1 : cross p p q = 0 := by simp only [cross]; grind
  have h2 : cross p q q = 0 := by simp only [cross]; grind
  have h3 : cross p q p = 0 := by simp only [cross]; grind
  simp [orient, h1, h2, h3]

/-- [T] wrapping to 64 bits is the identity on values that fit. -/
theorem wrap64_of_fits (n : Int) (h : Ops.C03.fits64 n = true) : Ops.C03.wrap64 n = n := by
  simp only [Ops.C03.fits64, Bool.and_eq_true, decide_eq_true_eq] at h
  unfold Ops.C03.wrap64
  have h1 := h.1
  have h2 := h.2
  by_cases hn : 0 ≤ n
  · have : n % 2 ^ 64 = n := Int.emod_eq_of_lt hn (by omega)
    simp only [this]
    split <;> omega
  · have : n % 2 ^ 64 = n + 2 ^ 64 := by omega
    simp only [this]
    split <;> omega

/-- [T] the integer clause of the property: whenever every intermediate of the SimpleKernel
formula fits `i64`, the wrapped evaluation equals the unbounded integer determinant (so the
reported orientation is the exact one). -/
theorem cross_i64_exact (px py qx qy rx ry : Int)
    (h : Ops.C03.intermediatesFit px py qx qy rx ry = true) :
    Ops.C03.crossI64 px py qx qy rx ry = Ops.C03.crossInt px py qx qy rx ry := by
  simp only [Ops.C03.intermediatesFit, Bool.and_eq_true] at h
  obtain ⟨⟨⟨⟨⟨⟨h1, h2⟩, h3⟩, h4⟩, h5⟩, h6⟩, h7⟩ := h
  unfold Ops.C03.crossI64
  rw [wrap64_of_fits _ h1, wrap64_of_fits _ h2, wrap64_of_fits _ h3, wrap64_of_fits _ h4,
    wrap64_of_fits _ h5, wrap64_of_fits _ h6]
  exact wrap64_of_fits _ h7

/-- Non-vacuity: coordinates up to 2^30 satisfy the hypothesis. -/
example : Ops.C03.intermediatesFit 1073741824 (-1073741824) (-1073741824) 1073741824 7 (-9) = true := by
  decide

/-- [T] witness that the bound matters: beyond it, wrap-around flips the sign. -/
theorem cross_i64_overflow_witness :
    Ops.C03.signOri (Ops.C03.crossI64 0 0 4294967296 0 0 4294967296) ≠
    Ops.C03.signOri (Ops.C03.crossInt 0 0 4294967296 0 0 4294967296) := by
  decide


/-! ### orientation-level corollaries of the determinant laws -/

/-- [T] the orientation is invariant under translation. -/
theorem orient_translate (p q r t : Pt) : orient (p + t) (q + t) (r + t) = orient p q r := by
  rw [orient_oriOf, orient_oriOf, cross_translate]

/-- [T] swapping the last two arguments reverses the orientation. -/
theorem orient_swap (p q r : Pt) : orient p r q = oriRev (orient p q r) := by
  rw [orient_oriOf, orient_oriOf, cross_swap]
  rcases lt_trichotomy (cross p q r) 0 with h | h | h
  · rw [oriOf_neg h, oriOf_pos (by linarith)]; rfl
  · rw [h, neg_zero, oriOf_zero]; rfl
  · rw [oriOf_pos h, oriOf_neg (by linarith)]; rfl

/-- [T] cyclic rotation of the arguments keeps the orientation. -/
theorem orient_cyclic (p q r : Pt) : orient q r p = orient p q r := by
  rw [orient_oriOf, orient_oriOf, cross_cyclic]

/-- [T] uniform scaling by a non-zero factor keeps the orientation (in particular for `k > 0`;
`k < 0` is a point reflection, which also preserves orientation in the plane). -/
theorem orient_scale_pos (k : Rat) (hk : k ≠ 0) (p q r : Pt) :
    orient (Pt.smul k p) (Pt.smul k q) (Pt.smul k r) = orient p q r := by
  rw [orient_oriOf, orient_oriOf, cross_scale]
  have hkk : 0 < k * k := mul_self_pos.mpr hk
  rcases lt_trichotomy (cross p q r) 0 with h | h | h
  · rw [oriOf_neg h, oriOf_neg (mul_neg_of_pos_of_neg hkk h)]
  · rw [h, mul_zero]
  · rw [oriOf_pos h, oriOf_pos (mul_pos hkk h)]

example : orient (Pt.smul 3 ⟨0, 0⟩) (Pt.smul 3 ⟨1, 0⟩) (Pt.smul 3 ⟨0, 1⟩) = orient ⟨0, 0⟩ ⟨1, 0⟩ ⟨0, 1⟩ :=
  orient_scale_pos 3 (by norm_num) _ _ _

/-! ### point-on-segment and the boundary test of `coord_pos_relative_to_ring` -/

/-- [T] `Line: Intersects<Coord>` is membership in the closed segment
(`SegMem p a b := ∃ t ∈ [0,1], p = a + t (b - a)`). -/
theorem lineCoord_iff_segMem (a b p : Pt) : lineCoord a b p = true ↔ SegMem p a b :=
  lineCoord_iff a b p

/-- [T] one edge visit of the winding loop reports "on boundary" only for points of that edge. -/
theorem ringEdge_none_sub (p s e : Pt) (h : ringEdge p s e = none) : lineCoord s e p = true :=
  lineCoord_of_ringEdge_none h

/-- [T] for any coordinate list with at least two coordinates, `OnBoundary` implies that the point
lies on one of the edges. -/
theorem ringPos_boundary_sub (p : Pt) (ring : List Pt) (h2 : 2 ≤ ring.length)
    (h : ringPos p ring = .onBoundary) : ∃ edge ∈ segs ring, lineCoord edge.1 edge.2 p = true :=
  Kernel.ringPos_boundary_sub p ring h2 h

/-- [T] For a *closed* ring with at least two coordinates the boundary test is exactly "the point
lies on some edge": the loop visits an edge only when `p.y` is in its (half-open) y-range and then
tests `value_in_between` on x, which together with collinearity is `lineCoord`; the one point an
edge visit skips (the start vertex of a downward edge) is the end vertex of the preceding edge.
Full statement (only `2 ≤ ring.length`): false for an open coordinate list, see
`ringPos_open_ring_witness`; closedness is the function's own precondition
(`debug_assert!(linestring.is_closed())`). -/
theorem ringPos_boundary_iff_partial (p : Pt) (ring : List Pt) (h2 : 2 ≤ ring.length)
    (hclosed : ring.head? = ring.getLast?) :
    ringPos p ring = .onBoundary ↔ ∃ edge ∈ segs ring, lineCoord edge.1 edge.2 p = true :=
  ringPos_boundary_iff_closed p ring h2 hclosed

example : ringPos ⟨2, 1⟩ [⟨0, 0⟩, ⟨2, 0⟩, ⟨2, 2⟩, ⟨0, 0⟩] = .onBoundary := by
  rw [ringPos_boundary_iff_partial _ _ (by simp) (by simp)]
  refine ⟨(⟨2, 0⟩, ⟨2, 2⟩), by simp [segs], ?_⟩
  rw [lineCoord_iff]
  exact ⟨1/2, by norm_num, by norm_num, by norm_num, by norm_num⟩

/-- [T] witness that closedness is needed: on the open list `[(0,1), (0,0)]` the start vertex
`(0,1)` of the single (downward) edge is on that edge but reported `Outside`. -/
theorem ringPos_open_ring_witness :
    ringPos ⟨0, 1⟩ [⟨0, 1⟩, ⟨0, 0⟩] = .outside ∧ lineCoord ⟨0, 1⟩ ⟨0, 0⟩ ⟨0, 1⟩ = true := by
  constructor
  · norm_num [ringPos, segs, ringWinding, ringEdge]
  · rw [lineCoord_iff]; exact SegMem_left _ _

/-- [T] the same witness seen through the full statement of `ringPos_boundary_iff_partial`: without closedness
the equivalence fails (right-hand side true, left-hand side false). Run through the real code
(`C03.ring 2 0 1 0 0 0 1`, release build): `Outside`, as the model says — so this is the function's documented
precondition (`debug_assert!(linestring.is_closed())`; every caller passes a `Polygon` ring, closed by construction),
a limit of the statement and not a defect of geo. -/
theorem ringPos_boundary_iff_partial_witness :
    ¬ (ringPos ⟨0, 1⟩ [⟨0, 1⟩, ⟨0, 0⟩] = .onBoundary ↔
      ∃ edge ∈ segs [(⟨0, 1⟩ : Pt), ⟨0, 0⟩], lineCoord edge.1 edge.2 ⟨0, 1⟩ = true) := by
  obtain ⟨h1, h2⟩ := ringPos_open_ring_witness
  intro h
  have := h.mpr ⟨(⟨0, 1⟩, ⟨0, 0⟩), by simp [segs], h2⟩
  rw [h1] at this; cases this

/-- [T] `ringPos_boundary_iff`: the boundary test on **every closed coordinate list**, the length hypothesis of
`ringPos_boundary_iff_partial` removed: `OnBoundary` exactly when the list is the single coordinate `p` (the
one-coordinate prologue of `coord_pos_relative_to_ring`) or `p` lies on one of its edges. Closedness is the domain
of the function (its `debug_assert!`), shown necessary by `ringPos_boundary_iff_partial_witness`. -/
theorem ringPos_boundary_iff (p : Pt) (ring : List Pt) (hclosed : ring.head? = ring.getLast?) :
    ringPos p ring = .onBoundary ↔
      ring = [p] ∨ ∃ edge ∈ segs ring, lineCoord edge.1 edge.2 p = true := by
  match ring, hclosed with
  | [], _ => simp [ringPos, segs]
  | [c], _ =>
    by_cases h : p = c
    · subst h; simp [ringPos]
    · have h' : c ≠ p := fun e => h e.symm
      simp [ringPos, segs, h, h']
  | a :: b :: rest, hclosed =>
    rw [ringPos_boundary_iff_partial p (a :: b :: rest) (by simp) hclosed]
    constructor
    · exact Or.inr
    · rintro (h | h)
      · simp at h
      · exact h

example : ringPos ⟨3, 4⟩ [⟨3, 4⟩] = .onBoundary :=
  (ringPos_boundary_iff _ _ rfl).mpr (Or.inl rfl)

example : ringPos ⟨1, 1⟩ [⟨0, 0⟩, ⟨2, 2⟩, ⟨0, 0⟩] = .onBoundary :=
  (ringPos_boundary_iff _ _ rfl).mpr (Or.inr ⟨(⟨0, 0⟩, ⟨2, 2⟩), by simp [segs], by
    rw [lineCoord_iff]; exact ⟨1 / 2, by norm_num, by norm_num, by norm_num, by norm_num⟩⟩)

/-- [T] (translator tie) the orientation and point-on-segment kernels of the model are, definition for
definition, what `translator/rs2lean.py` regenerates from the Rust bodies on this run
(`Kernel::orient2d`, `Line: Intersects<Coord>`, `Line: Intersects<Line>`, `point_in_rect`,
`value_in_between`, `square_euclidean_distance`, `Point::cross_prod`, and the per-edge body of the winding
loop of `coord_pos_relative_to_ring`). A change of a comparison, an
argument order or a branch in those Rust functions changes the regenerated definitions and this
theorem stops checking. -/
theorem orientation_kernels_eq_source :
    (∀ p q r, orient p q r = Gen.orient2d p q r) ∧
    (∀ a b p, lineCoord a b p = Gen.lineCoord a b p) ∧
    (∀ a b c d, lineLine a b c d = Gen.lineLine a b c d) ∧
    (∀ p a b, pointInRect p a b = Gen.pointInRect p a b) ∧
    (∀ v a b, valueInBetween v a b = Gen.valueInBetween v a b) ∧
    (∀ p q, dist2 p q = Gen.squareEuclideanDistance p q) ∧
    (∀ a b c, crossProd a b c = Gen.crossProd a b c) ∧
    (∀ p s e, ringEdge p s e = Gen.ringEdge p s e) :=
  ⟨GenKernel.orient_eq, GenKernel.lineCoord_eq, GenKernel.lineLine_eq, GenKernel.pointInRect_eq,
   GenKernel.valueInBetween_eq, GenKernel.dist2_eq, GenKernel.crossProd_eq, GenKernel.ringEdge_eq⟩

/-- [T] (translator tie, TRAN) the point-in-ring and point-in-triangle predicates as *whole functions*:
`coord_pos_relative_to_ring` (empty / one-coordinate prologue, the winding loop over `lines()` with the early
`return CoordPos::OnBoundary`, the final `winding_number == 0` test), `Triangle::calculate_coordinate_position`
(orientations of `to_lines()` with the `on_boundary` flag set inside the closure, the `windows(2).all(..)` test) and
`Triangle: Intersects<Coord>` (`sort()`, `windows(2).any(..)`), regenerated from the Rust bodies on this run, equal
`ringPos`, `calcTriangle` and `triCoord`. -/
theorem pointLocation_eq_source :
    (∀ p ring, ringPos p ring = Gen.coordPosRelativeToRing p ring) ∧
    (∀ a b c p acc, calcTriangle a b c p acc = Gen.triangleCalc a b c p acc) ∧
    (∀ a b c p, triCoord a b c p = Gen.triangleCoord a b c p) :=
  ⟨Geo.Proofs.TRANCoordPos.ringPos_eq, Geo.Proofs.TRANCoordPos.calcTriangle_eq, Geo.Proofs.TRANArea.triCoord_eq⟩

end Geo.Proofs.C03
