/-
  C14 — Validation accepts exactly the well-formed geometries.

  Property theorems only. Model: GeoModel/Validation.lean (one visitor per type, generic in the
  handler's monad, as `visit_validation` is generic in the handler). Specification:
  GeoModel/ValidationSpec.lean, GeoModel/Valid.lean (`ringSimple`), GeoModel/RelateSpec.lean.
-/
import GeoModel.ValidationSpec
import GeoProofs.Lemmas.C14Visit

namespace Geo.Proofs.C14
open Geo Geo.V

/-! ## 1. Every visitor, run with any (lawful) handler, feeds the handler the entries of one
plain list of errors, in order — so the fail-fast visitor stops at the first error the collecting
one lists. -/

section visit
variable {m : Type → Type} [Monad m] [LawfulMonad m]

theorem visitLine_eq (h : LnErr → m PUnit) (a b : XPt) :
    visitLine h a b = forM (lineErrs a b) h := by
  simp only [visitLine, lineErrs, emit_eq, List.forM_append, bind_assoc]

theorem visitLineString_eq (h : LsErr → m PUnit) (cs : List XPt) :
    visitLineString h cs = forM (lineStringErrs cs) h := by
  unfold visitLineString lineStringErrs
  split
  · simp
  · simp only [emit_eq, List.forM_eq_forM, List.forM_append, forM_flatMap]

theorem visitRing_eq (o : Oracle) (h : PolyErr → m PUnit) (role : Role) (ring : XRing) :
    visitRing o h role ring = forM (ringErrs o role ring) h := by
  unfold visitRing ringErrs
  split
  · simp
  · simp only [emit_eq, List.forM_eq_forM, List.forM_append, forM_flatMap]
    congr 1
    split
    · simp
    · split <;> simp

theorem visitRingPairs_eq (o : Oracle) (h : PolyErr → m PUnit) (q : Poly) :
    visitRingPairs o h q = forM (ringPairErrs o q) h := by
  unfold visitRingPairs ringPairErrs
  simp only [List.forM_eq_forM, ← forM_flatMap]
  apply forM_congr'
  intro hi _
  split
  · simp
  · simp only [emit_eq, List.forM_append, holePairErrs, bind_assoc, ← forM_flatMap]

theorem visitPolygon_eq (o : Oracle) (h : PolyErr → m PUnit) (p : XPoly) :
    visitPolygon o h p = forM (polyErrs o p) h := by
  unfold visitPolygon polyErrs
  split
  · simp
  · simp only [List.forM_eq_forM, visitRing_eq, forM_flatMap, List.forM_append]
    congr 1
    funext _
    split
    · simp
    · exact visitRingPairs_eq o h _

theorem visitMemberPair_eq (o : Oracle) (h : MPolyErr → m PUnit) (p : XPoly) (i : Nat) (p2 : XPoly)
    (j : Nat) : visitMemberPair o h p i p2 j = forM (memberPairErrs o p i p2 j) h := by
  unfold visitMemberPair memberPairErrs
  split
  · simp only [emit_eq, List.forM_append]
  · simp

theorem visitMultiPolygon_eq (o : Oracle) (h : MPolyErr → m PUnit) (ps : List XPoly) :
    visitMultiPolygon o h ps = forM (multiPolyErrs o ps) h := by
  unfold visitMultiPolygon multiPolyErrs
  simp only [List.forM_eq_forM, ← forM_flatMap]
  apply forM_congr'
  intro pi _
  simp only [visitPolygon_eq, visitMemberPair_eq, List.forM_append, List.forM_map, forM_flatMap]

theorem visitRect_eq (h : RcErr → m PUnit) (mn mx : XPt) :
    visitRect h mn mx = forM (rectErrs mn mx) h := by
  simp only [visitRect, rectErrs, emit_eq, List.forM_append]

theorem visitTriangle_eq (h : TrErr → m PUnit) (a b c : XPt) :
    visitTriangle h a b c = forM (triangleErrs a b c) h := by
  simp only [visitTriangle, triangleErrs, emit_eq, List.forM_append, bind_assoc]

mutual
/-- [T] `visit_validation` of a `Geometry`, with ANY handler, is the handler run over
`geomErrs` in order. -/
theorem visitGeom_eq (o : Oracle) : ∀ (g : XGeom) (h : GErr → m PUnit),
    visitGeom o h g = forM (geomErrs o g) h
  | .point p, h => by
      simp only [visitGeom, geomErrs, visitPoint, emit_eq]
      cases notFinite p <;> simp
  | .line a b, h => by simp only [visitGeom, geomErrs, visitLine_eq, List.forM_map]
  | .lineString cs, h => by simp only [visitGeom, geomErrs, visitLineString_eq, List.forM_map]
  | .polygon p, h => by simp only [visitGeom, geomErrs, visitPolygon_eq, List.forM_map]
  | .multiPoint ps, h => by
      simp only [visitGeom, geomErrs, visitMultiPoint, visitPoint, emit_eq, List.forM_eq_forM,
        ← forM_flatMap]
      apply forM_congr'
      intro pi _
      cases notFinite pi.1 <;> simp
  | .multiLineString ls, h => by
      simp only [visitGeom, geomErrs, visitMultiLineString, visitLineString_eq, List.forM_eq_forM,
        ← forM_flatMap, List.forM_map]
  | .multiPolygon ps, h => by simp only [visitGeom, geomErrs, visitMultiPolygon_eq, List.forM_map]
  | .rect mn mx, h => by simp only [visitGeom, geomErrs, visitRect_eq, List.forM_map]
  | .triangle a b c, h => by simp only [visitGeom, geomErrs, visitTriangle_eq, List.forM_map]
  | .collection gs, h => by simp only [visitGeom, geomErrs]; exact visitList_eq o gs 0 h
theorem visitList_eq (o : Oracle) : ∀ (gs : List XGeom) (i : Nat) (h : GErr → m PUnit),
    visitList o h i gs = forM (listErrs o i gs) h
  | [], i, h => by simp [visitList, listErrs]
  | g :: gs, i, h => by
      simp only [visitList, listErrs, List.forM_append, List.forM_map]
      rw [visitGeom_eq o g, visitList_eq o gs]
end

end visit

/-! ## 2. The three observables -/

private theorem collect_run (l : List GErr) : ∀ acc : List GErr,
    (forM (m := StateM (List GErr)) l (fun e => modify (fun acc => acc ++ [e]))).run acc = (⟨⟩, acc ++ l) := by
  induction l with
  | nil => intro acc; simp [StateT.run, pure, StateT.pure]
  | cons e t ih =>
    intro acc
    simp only [List.forM_cons, StateT.run_bind]
    have : (modify (fun acc => acc ++ [e]) : StateM (List GErr) PUnit).run acc = (⟨⟩, acc ++ [e]) := rfl
    rw [this]
    simp only [ih]
    show (PUnit.unit, acc ++ [e] ++ t) = _
    simp

private theorem failfast_run (l : List GErr) :
    forM (m := Except GErr) l (fun e => Except.error e) =
      (match l with | [] => .ok ⟨⟩ | e :: _ => .error e) := by
  cases l with
  | nil => rfl
  | cons e t => rfl

/-- [T] `validation_errors` (the collecting handler) returns exactly `geomErrs`. -/
theorem validationErrors_eq (o : Oracle) (g : XGeom) : validationErrors o g = geomErrs o g := by
  unfold validationErrors
  rw [visitGeom_eq, collect_run]
  simp

/-- [T] `check_validation` (the fail-fast handler `Err`) returns the FIRST entry of the list the
collecting visitor returns, and `Ok` when that list is empty. -/
theorem checkValidation_eq (o : Oracle) (g : XGeom) :
    checkValidation o g = (match validationErrors o g with | [] => .ok ⟨⟩ | e :: _ => .error e) := by
  rw [validationErrors_eq]
  unfold checkValidation
  rw [visitGeom_eq, failfast_run]

/-- [T] `is_valid` is true exactly when `validation_errors` is empty … -/
theorem isValid_iff_no_errors (o : Oracle) (g : XGeom) :
    isValid o g = true ↔ validationErrors o g = [] := by
  unfold isValid
  rw [checkValidation_eq]
  cases validationErrors o g <;> simp

/-- [T] … i.e. `validation_errors` is non-empty exactly when `is_valid` is false — for both
visitors: the fail-fast one and the collecting one. -/
theorem errors_nonempty_iff_not_valid (o : Oracle) (g : XGeom) :
    validationErrors o g ≠ [] ↔ isValid o g = false := by
  rw [← Bool.not_eq_true, isValid_iff_no_errors]

/-- [T] the error `check_validation` returns is the head of `validation_errors`. -/
theorem check_error_is_first_listed (o : Oracle) (g : XGeom) (e : GErr) :
    checkValidation o g = .error e ↔ (validationErrors o g).head? = some e := by
  rw [checkValidation_eq]
  cases validationErrors o g <;> simp

example : validationErrors ⟨relateSpec, fun _ => false⟩
    (.line ⟨.nan, .fin 0⟩ ⟨.nan, .fin 0⟩) = [.ln (.nonFinite 0), .ln (.nonFinite 1)] := by
  rw [validationErrors_eq]; decide

end Geo.Proofs.C14
