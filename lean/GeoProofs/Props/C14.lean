/-
  C14 — Validation accepts exactly the well-formed geometries.

  Property theorems only. Model: GeoModel/Validation.lean (one visitor per type, generic in the
  handler's monad, as `visit_validation` is generic in the handler). Specification:
  GeoModel/ValidationSpec.lean, GeoModel/Valid.lean (`ringSimple`), GeoModel/RelateSpec.lean.
-/
import GeoModel.ValidationSpec
import GeoProofs.Lemmas.C14Visit
import GeoProofs.Lemmas.C14Flat
import GeoProofs.Lemmas.C14PRing
import GeoProofs.Lemmas.C14PPairs
import GeoProofs.Lemmas.SMLXHolePair
import GeoProofs.Lemmas.TRAN2Valid
import Mathlib.Tactic.Ring

namespace Geo.Proofs.C14
open Geo Geo.V

/-! ## 1. Every visitor, run with any (lawful) handler, feeds the handler the entries of one
plain list of errors, in order — so the fail-fast visitor stops at the first error the collecting
one lists. -/

section visit
variable {m : Type → Type} [Monad m] [LawfulMonad m]

theorem visitLine_eq (h : LnErr → m PUnit) (a b : XPt) :
    visitLine h a b = forM (lineErrs a b) h := by
  simp only [visitLine, lineErrs, emit_eq, List.forM_append, bind_assoc]

theorem visitLineString_eq (h : LsErr → m PUnit) (cs : List XPt) :
    visitLineString h cs = forM (lineStringErrs cs) h := by
  unfold visitLineString lineStringErrs
  split
  · simp
  · simp only [emit_eq, List.forM_eq_forM, List.forM_append, forM_flatMap]

theorem visitRing_eq (o : Oracle) (h : PolyErr → m PUnit) (role : Role) (ring : XRing) :
    visitRing o h role ring = forM (ringErrs o role ring) h := by
  unfold visitRing ringErrs
  split
  · simp
  · simp only [emit_eq, List.forM_eq_forM, List.forM_append, forM_flatMap]
    congr 1
    split
    · simp
    · split <;> simp

theorem visitRingPairs_eq (o : Oracle) (h : PolyErr → m PUnit) (q : Poly) :
    visitRingPairs o h q = forM (ringPairErrs o q) h := by
  unfold visitRingPairs ringPairErrs
  simp only [List.forM_eq_forM, ← forM_flatMap]
  apply forM_congr'
  intro hi _
  split
  · simp
  · simp only [emit_eq, List.forM_append, holePairErrs, bind_assoc, ← forM_flatMap]

theorem visitPolygon_eq (o : Oracle) (h : PolyErr → m PUnit) (p : XPoly) :
    visitPolygon o h p = forM (polyErrs o p) h := by
  unfold visitPolygon polyErrs
  split
  · simp
  · simp only [List.forM_eq_forM, visitRing_eq, forM_flatMap, List.forM_append]
    congr 1
    funext _
    split
    · simp
    · exact visitRingPairs_eq o h _

theorem visitMemberPair_eq (o : Oracle) (h : MPolyErr → m PUnit) (p : XPoly) (i : Nat) (p2 : XPoly)
    (j : Nat) : visitMemberPair o h p i p2 j = forM (memberPairErrs o p i p2 j) h := by
  unfold visitMemberPair memberPairErrs
  split
  · simp only [emit_eq, List.forM_append]
  · simp

theorem visitMultiPolygon_eq (o : Oracle) (h : MPolyErr → m PUnit) (ps : List XPoly) :
    visitMultiPolygon o h ps = forM (multiPolyErrs o ps) h := by
  unfold visitMultiPolygon multiPolyErrs
  simp only [List.forM_eq_forM, ← forM_flatMap]
  apply forM_congr'
  intro pi _
  simp only [visitPolygon_eq, visitMemberPair_eq, List.forM_append, List.forM_map, forM_flatMap]

theorem visitRect_eq (h : RcErr → m PUnit) (mn mx : XPt) :
    visitRect h mn mx = forM (rectErrs mn mx) h := by
  simp only [visitRect, rectErrs, emit_eq, List.forM_append]

theorem visitTriangle_eq (h : TrErr → m PUnit) (a b c : XPt) :
    visitTriangle h a b c = forM (triangleErrs a b c) h := by
  simp only [visitTriangle, triangleErrs, emit_eq, List.forM_append, bind_assoc]

mutual
/-- [T] `visit_validation` of a `Geometry`, with ANY handler, is the handler run over
`geomErrs` in order. -/
theorem visitGeom_eq (o : Oracle) : ∀ (g : XGeom) (h : GErr → m PUnit),
    visitGeom o h g = forM (geomErrs o g) h
  | .point p, h => by
      simp only [visitGeom, geomErrs, visitPoint, emit_eq]
      cases notFinite p <;> simp
  | .line a b, h => by simp only [visitGeom, geomErrs, visitLine_eq, List.forM_map]
  | .lineString cs, h => by simp only [visitGeom, geomErrs, visitLineString_eq, List.forM_map]
  | .polygon p, h => by simp only [visitGeom, geomErrs, visitPolygon_eq, List.forM_map]
  | .multiPoint ps, h => by
      simp only [visitGeom, geomErrs, visitMultiPoint, visitPoint, emit_eq, List.forM_eq_forM,
        ← forM_flatMap]
      apply forM_congr'
      intro pi _
      cases notFinite pi.1 <;> simp
  | .multiLineString ls, h => by
      simp only [visitGeom, geomErrs, visitMultiLineString, visitLineString_eq, List.forM_eq_forM,
        ← forM_flatMap, List.forM_map]
  | .multiPolygon ps, h => by simp only [visitGeom, geomErrs, visitMultiPolygon_eq, List.forM_map]
  | .rect mn mx, h => by simp only [visitGeom, geomErrs, visitRect_eq, List.forM_map]
  | .triangle a b c, h => by simp only [visitGeom, geomErrs, visitTriangle_eq, List.forM_map]
  | .collection gs, h => by simp only [visitGeom, geomErrs]; exact visitList_eq o gs 0 h
theorem visitList_eq (o : Oracle) : ∀ (gs : List XGeom) (i : Nat) (h : GErr → m PUnit),
    visitList o h i gs = forM (listErrs o i gs) h
  | [], i, h => by simp [visitList, listErrs]
  | g :: gs, i, h => by
      simp only [visitList, listErrs, List.forM_append, List.forM_map]
      rw [visitGeom_eq o g, visitList_eq o gs]
end

end visit

/-! ## 2. The three observables -/

private theorem collect_run (l : List GErr) : ∀ acc : List GErr,
    (forM (m := StateM (List GErr)) l (fun e => modify (fun acc => acc ++ [e]))).run acc = (⟨⟩, acc ++ l) := by
  induction l with
  | nil => intro acc; simp [StateT.run, pure, StateT.pure]
  | cons e t ih =>
    intro acc
    simp only [List.forM_cons, StateT.run_bind]
    have : (modify (fun acc => acc ++ [e]) : StateM (List GErr) PUnit).run acc = (⟨⟩, acc ++ [e]) := rfl
    rw [this]
    simp only [ih]
    show (PUnit.unit, acc ++ [e] ++ t) = _
    simp

private theorem failfast_run (l : List GErr) :
    forM (m := Except GErr) l (fun e => Except.error e) =
      (match l with | [] => .ok ⟨⟩ | e :: _ => .error e) := by
  cases l with
  | nil => rfl
  | cons e t => rfl

/-- [T] `validation_errors` (the collecting handler) returns exactly `geomErrs`. -/
theorem validationErrors_eq (o : Oracle) (g : XGeom) : validationErrors o g = geomErrs o g := by
  unfold validationErrors
  rw [visitGeom_eq, collect_run]
  simp

/-- [T] `check_validation` (the fail-fast handler `Err`) returns the FIRST entry of the list the
collecting visitor returns, and `Ok` when that list is empty. -/
theorem checkValidation_eq (o : Oracle) (g : XGeom) :
    checkValidation o g = (match validationErrors o g with | [] => .ok ⟨⟩ | e :: _ => .error e) := by
  rw [validationErrors_eq]
  unfold checkValidation
  rw [visitGeom_eq, failfast_run]

/-- [T] `is_valid` is true exactly when `validation_errors` is empty … -/
theorem isValid_iff_no_errors (o : Oracle) (g : XGeom) :
    isValid o g = true ↔ validationErrors o g = [] := by
  unfold isValid
  rw [checkValidation_eq]
  cases validationErrors o g <;> simp

/-- [T] … i.e. `validation_errors` is non-empty exactly when `is_valid` is false — for both
visitors: the fail-fast one and the collecting one. -/
theorem errors_nonempty_iff_not_valid (o : Oracle) (g : XGeom) :
    validationErrors o g ≠ [] ↔ isValid o g = false := by
  rw [← Bool.not_eq_true, isValid_iff_no_errors]

/-- [T] the error `check_validation` returns is the head of `validation_errors`. -/
theorem check_error_is_first_listed (o : Oracle) (g : XGeom) (e : GErr) :
    checkValidation o g = .error e ↔ (validationErrors o g).head? = some e := by
  rw [checkValidation_eq]
  cases validationErrors o g <;> simp

example : validationErrors ⟨relateSpec, fun _ => false⟩
    (.line ⟨.nan, .fin 0⟩ ⟨.nan, .fin 0⟩) = [.ln (.nonFinite 0), .ln (.nonFinite 1)] := by
  rw [validationErrors_eq]; decide

/-! ## 3. Ring-local clauses -/

private theorem ceq_ofPt (a b : Pt) : ceq (XPt.ofPt a) (XPt.ofPt b) = (a == b) := by
  cases a; cases b
  rw [Bool.eq_iff_iff]
  simp [ceq, feq, XPt.ofPt, Pt.mk.injEq]

private theorem go_len (l : List Pt) : ∀ a : Pt,
    (dedupBy.go ceq (XPt.ofPt a) (l.map XPt.ofPt)).length + 1 = (dedupConsecutive (a :: l)).length := by
  induction l with
  | nil => intro a; simp [dedupBy.go, dedupConsecutive]
  | cons b t ih =>
    intro a
    simp only [List.map_cons, dedupBy.go, dedupConsecutive, ceq_ofPt]
    by_cases hab : a = b
    · subst hab; simp [ih a]
    · have hba : (b == a) = false := by simp [Ne.symm hab]
      have hab' : (a == b) = false := by simp [hab]
      simp [hba, hab', ih b]

/-- `Vec::dedup` (keeps the first of a run, f64 equality) and the specification's
`dedupConsecutive` (keeps the last, exact equality) leave the same number of coordinates. -/
theorem dedup_length (r : List Pt) :
    (dedupBy ceq (r.map XPt.ofPt)).length = (dedupConsecutive r).length := by
  cases r with
  | nil => simp [dedupBy, dedupConsecutive]
  | cons a t => simp [dedupBy, go_len]

/-- [T] `TooFewPointsInRing` fires exactly when fewer than 4 coordinates remain after removing
consecutive repeats (finite ring) … -/
theorem tooFew_iff (r : List Pt) :
    tooFew (r.map XPt.ofPt) true = true ↔ (dedupConsecutive r).length < 4 := by
  simp [tooFew, dedup_length]

/-- [T] … and `TooFewPoints` of a LineString exactly when fewer than 2 remain. -/
theorem tooFew_lineString_iff (r : List Pt) :
    tooFew (r.map XPt.ofPt) false = true ↔ (dedupConsecutive r).length < 2 := by
  simp [tooFew, dedup_length]

example : tooFew ([⟨0, 0⟩, ⟨0, 0⟩, ⟨1, 1⟩, ⟨1, 1⟩, ⟨0, 0⟩].map XPt.ofPt) true = true := by
  rw [tooFew_iff]; decide

private theorem toPt?_ofPt (c : XPt) (p : Pt) (h : c.toPt? = some p) : c = XPt.ofPt p := by
  cases c with
  | mk x y =>
    cases x <;> cases y <;> simp [XPt.toPt?, XPt.ofPt] at h ⊢
    subst h
    exact ⟨rfl, rfl⟩

/-- a ring all of whose coordinates are finite is the image of its rational ring -/
theorem ringToPts?_eq : ∀ (r : XRing) (q : List Pt), ringToPts? r = some q → r = q.map XPt.ofPt
  | [], q, h => by
      simp [ringToPts?] at h; subst h; rfl
  | c :: t, q, h => by
      simp only [ringToPts?, List.mapM_cons, Option.bind_eq_bind, Option.bind_eq_some_iff] at h
      obtain ⟨p, hp, q', hq', hq⟩ := h
      simp at hq
      subst hq
      simp only [List.map_cons]
      rw [← toPt?_ofPt c p hp, ← ringToPts?_eq t q' hq']

/-- what a `NonFiniteCoord` entry of the per-ring error list means -/
theorem nonFinite_mem_ringErrs (o : Oracle) (role r' : Role) (ring : XRing) (i : Nat) :
    PolyErr.nonFinite r' i ∈ ringErrs o role ring ↔
      r' = role ∧ ∃ c, ring[i]? = some c ∧ notFinite c = true := by
  unfold ringErrs
  by_cases he : ring.isEmpty = true
  · have : ring = [] := List.isEmpty_iff.mp he
    subst this; simp
  · simp only [he, if_false, Bool.false_eq_true, List.mem_append, List.mem_flatMap]
    constructor
    · rintro (h | ⟨ci, hci, hm⟩)
      · split at h
        · simp at h
        · split at h <;> simp at h
      · rw [List.mem_zipIdx_iff_getElem?] at hci
        split at hm
        · simp at hm
          obtain ⟨h1, h2⟩ := hm
          subst h1; subst h2
          exact ⟨rfl, ci.1, hci, by assumption⟩
        · simp at hm
    · rintro ⟨hr, c, hc, hn⟩
      subst hr
      right
      refine ⟨(c, i), ?_, ?_⟩
      · rw [List.mem_zipIdx_iff_getElem?]; exact hc
      · simp [hn]

/-- [T] `nonFinite_iff`: the ring's error list contains a `NonFiniteCoord` exactly when the ring
has a non-finite coordinate; and the index it carries is the index of such a coordinate. -/
theorem nonFinite_iff (o : Oracle) (role : Role) (ring : XRing) :
    (∃ i, PolyErr.nonFinite role i ∈ ringErrs o role ring) ↔ ∃ c ∈ ring, notFinite c = true := by
  constructor
  · rintro ⟨i, h⟩
    obtain ⟨_, c, hc, hn⟩ := (nonFinite_mem_ringErrs o role role ring i).mp h
    exact ⟨c, List.mem_of_getElem? hc, hn⟩
  · rintro ⟨c, hc, hn⟩
    obtain ⟨i, hi, hget⟩ := List.getElem_of_mem hc
    exact ⟨i, (nonFinite_mem_ringErrs o role role ring i).mpr
      ⟨rfl, c, by rw [List.getElem?_eq_getElem hi, hget], hn⟩⟩

/-- what a `TooFewPointsInRing` entry of the per-ring error list means -/
theorem tooFew_mem_ringErrs (o : Oracle) (role r' : Role) (ring : XRing) :
    PolyErr.tooFew r' ∈ ringErrs o role ring ↔
      r' = role ∧ ring.isEmpty = false ∧ tooFew ring true = true := by
  unfold ringErrs
  by_cases he : ring.isEmpty = true
  · simp [he]
  · simp only [he, if_false, Bool.false_eq_true, List.mem_append, List.mem_flatMap]
    constructor
    · rintro (h | ⟨ci, _, hm⟩)
      · split at h
        · simp at h; exact ⟨h, by simp at he; simp, by assumption⟩
        · split at h <;> simp at h
      · split at hm <;> simp at hm
    · rintro ⟨hr, _, ht⟩
      subst hr
      left
      simp [ht]

/-- what a `SelfIntersection` entry of the per-ring error list means: the ring is not too short
and the pairwise segment test fired -/
theorem selfInt_mem_ringErrs (o : Oracle) (role r' : Role) (ring : XRing) :
    PolyErr.selfInt r' ∈ ringErrs o role ring ↔
      r' = role ∧ ring.isEmpty = false ∧ tooFew ring true = false ∧ selfInt o ring = true := by
  unfold ringErrs
  by_cases he : ring.isEmpty = true
  · simp [he]
  · simp only [he, if_false, Bool.false_eq_true, List.mem_append, List.mem_flatMap]
    constructor
    · rintro (h | ⟨ci, _, hm⟩)
      · split at h
        · simp at h
        · rename_i ht
          split at h
          · simp at h; exact ⟨h, by simp at he; simp, by simpa using ht, by assumption⟩
          · simp at h
      · split at hm <;> simp at hm
    · rintro ⟨hr, _, ht, hs⟩
      subst hr
      left
      simp [ht, hs]

/-! ### error soundness, ring-local: every `TooFewPointsInRing(r)` / `NonFiniteCoord(r, i)` the
model lists names a ring (and a coordinate) that has that defect according to the specification
(`polyErrSound`, which does not mention the model). -/

private theorem getRing_roleOf (p : XPoly) (idx : Nat) : getRing p (roleOf idx) = p.rings[idx]? := by
  cases idx with
  | zero => simp [roleOf, getRing, XPoly.rings]
  | succ k => simp [roleOf, getRing, XPoly.rings]

private theorem tooFew_not_pair (o : Oracle) (q : Poly) (r : Role) :
    PolyErr.tooFew r ∉ ringPairErrs o q := by
  simp [ringPairErrs, holePairErrs]

private theorem nonFinite_not_pair (o : Oracle) (q : Poly) (r : Role) (i : Nat) :
    PolyErr.nonFinite r i ∉ ringPairErrs o q := by
  simp [ringPairErrs, holePairErrs]

/-- a ring-local entry of a polygon's error list comes from the per-ring pass over one of its
rings, whose role it carries -/
private theorem ringLocal_mem (o : Oracle) (p : XPoly) (e : PolyErr) (he : e ∈ polyErrs o p)
    (hnp : ∀ q, e ∉ ringPairErrs o q) :
    ∃ idx ring, p.rings[idx]? = some ring ∧ e ∈ ringErrs o (roleOf idx) ring := by
  unfold polyErrs at he
  split at he
  · simp at he
  · rw [List.mem_append] at he
    rcases he with he | he
    · rw [List.mem_flatMap] at he
      obtain ⟨ri, hri, hm⟩ := he
      rw [List.mem_zipIdx_iff_getElem?] at hri
      exact ⟨ri.2, ri.1, hri, hm⟩
    · split at he
      · simp at he
      · exact absurd he (hnp _)

/-- [T] error soundness: `TooFewPointsInRing(role)` names an existing, non-empty ring that has
fewer than 4 coordinates after removing consecutive repeats (or is not finite). -/
theorem tooFew_sound (o : Oracle) (p : XPoly) (role : Role)
    (he : PolyErr.tooFew role ∈ polyErrs o p) : polyErrSound p (.tooFew role) = true := by
  obtain ⟨idx, ring, hring, hm⟩ := ringLocal_mem o p _ he (fun q => tooFew_not_pair o q role)
  obtain ⟨hr, hne, ht⟩ := (tooFew_mem_ringErrs o _ _ _).mp hm
  subst hr
  simp only [polyErrSound, getRing_roleOf, hring, hne, Bool.not_false, Bool.true_and]
  split
  · rename_i q hq
    have := ringToPts?_eq ring q hq
    subst this
    simpa using (tooFew_iff q).mp ht
  · rfl

/-- [T] error soundness: `NonFiniteCoord(role, i)` names an existing ring and the index of a
coordinate of it that is not finite. -/
theorem nonFinite_sound (o : Oracle) (p : XPoly) (role : Role) (i : Nat)
    (he : PolyErr.nonFinite role i ∈ polyErrs o p) : polyErrSound p (.nonFinite role i) = true := by
  obtain ⟨idx, ring, hring, hm⟩ := ringLocal_mem o p _ he (fun q => nonFinite_not_pair o q role i)
  obtain ⟨hr, c, hc, hn⟩ := (nonFinite_mem_ringErrs o _ _ _ _).mp hm
  subst hr
  simp [polyErrSound, getRing_roleOf, hring, hc, hn]

/-- [T] completeness of the non-finite clause: a polygon (non-empty exterior) with a non-finite
coordinate anywhere is never valid, whatever the oracle. -/
theorem nonFinite_rejected (o : Oracle) (p : XPoly) (hext : p.ext.isEmpty = false)
    (idx : Nat) (ring : XRing) (hring : p.rings[idx]? = some ring) (c : XPt) (hc : c ∈ ring)
    (hn : notFinite c = true) : polyErrs o p ≠ [] := by
  obtain ⟨i, hi⟩ := (nonFinite_iff o (roleOf idx) ring).mpr ⟨c, hc, hn⟩
  have : PolyErr.nonFinite (roleOf idx) i ∈ polyErrs o p := by
    unfold polyErrs
    simp only [hext, Bool.false_eq_true, if_false, List.mem_append, List.mem_flatMap]
    left
    exact ⟨(ring, idx), by rw [List.mem_zipIdx_iff_getElem?]; exact hring, hi⟩
  intro h
  rw [h] at this
  simp at this

/-! ## 4. The F8 class: rings flattened onto a line -/

/-- [T] witness lemma for F8 (`collinear_ring_accepted`, in general form): on the pinned tree NO
ring of three segments was ever reported — all six ordered pairs are skipped — collinear ones
included: `POLYGON((0 0,1 0,2 0,0 0))` passed with no errors. -/
theorem three_segment_ring_accepted_on_pinned_tree (a b c : Pt) :
    hasSelfIntersectionPinned [a, b, c, a] = false := by
  simp [hasSelfIntersectionPinned, segs, List.zipIdx]

/-- [T] after the fix: a ring of three distinct collinear points is always reported. -/
theorem flat_ring_has_self_intersection (a b c : Pt) (hab : a ≠ b) (hbc : b ≠ c) (hca : c ≠ a)
    (hcol : orient a b c = .col) : hasSelfIntersection [a, b, c, a] = true := by
  have h0 : cross a b c = 0 := (orient_col_iff a b c).mp hcol
  have hcol2 : orient b c a = .col := (orient_col_iff b c a).mpr (by rw [cross_cyc]; exact h0)
  have hcol3 : orient c a b = .col :=
    (orient_col_iff c a b).mpr (by rw [cross_cyc, cross_cyc]; exact h0)
  rw [hsi3]
  rcases three_on_a_line a b c hab hbc hca h0 with h | h | h
  · simp [pairBad_chain a b c hab hbc hcol h]
  · simp [pairBad_chain b c a hbc hca hcol2 h]
  · simp [pairBad_chain c a b hca hab hcol3 h]

example : hasSelfIntersection [⟨0, 0⟩, ⟨1, 0⟩, ⟨2, 0⟩, ⟨0, 0⟩] = true :=
  flat_ring_has_self_intersection ⟨0, 0⟩ ⟨1, 0⟩ ⟨2, 0⟩ (by decide) (by decide) (by decide)
    (by simp [orient, cross])

private theorem ringToPts?_map (q : List Pt) : ringToPts? (q.map XPt.ofPt) = some q := by
  induction q with
  | nil => rfl
  | cons a t ih =>
    simp only [ringToPts?, List.map_cons, List.mapM_cons] at ih ⊢
    simp [ih, XPt.toPt?, XPt.ofPt]

/-- [T] F8 at the level of the API: a polygon whose exterior is three distinct collinear points
is invalid (`is_valid = false`, hence `validation_errors` non-empty), whatever `relate` answers. -/
theorem flat_ring_polygon_invalid (o : Oracle) (a b c : Pt) (hab : a ≠ b) (hbc : b ≠ c) (hca : c ≠ a)
    (hcol : orient a b c = .col) :
    isValid o (.polygon ⟨[a, b, c, a].map XPt.ofPt, []⟩) = false := by
  rw [← errors_nonempty_iff_not_valid, validationErrors_eq]
  have hmem : PolyErr.selfInt .ext ∈ polyErrs o ⟨[a, b, c, a].map XPt.ofPt, []⟩ := by
    have hr : PolyErr.selfInt .ext ∈ ringErrs o (roleOf 0) ([a, b, c, a].map XPt.ofPt) := by
      rw [selfInt_mem_ringErrs]
      refine ⟨rfl, rfl, ?_, ?_⟩
      · have h4 : ¬ (dedupConsecutive [a, b, c, a]).length < 4 := by
          have h1 : (a == b) = false := by simp [hab]
          have h2 : (b == c) = false := by simp [hbc]
          have h3 : (c == a) = false := by simp [hca]
          simp [dedupConsecutive, h1, h2, h3]
        cases ht : tooFew ([a, b, c, a].map XPt.ofPt) true
        · rfl
        · exact absurd ((tooFew_iff _).mp ht) h4
      · simp only [selfInt, ringToPts?_map]
        exact flat_ring_has_self_intersection a b c hab hbc hca hcol
    unfold polyErrs
    have hne : ([a, b, c, a].map XPt.ofPt).isEmpty = false := rfl
    simp only [XPoly.rings, List.zipIdx, hne, Bool.false_eq_true, if_false, List.mem_append]
    left
    simpa using hr
  intro h
  simp only [geomErrs, List.map_eq_nil_iff] at h
  rw [h] at hmem
  simp at hmem

/-! ## 5. What the pairwise segment test reports, pair by pair (ring-local), and the loop against
the specification's `ringSimple` (`selfIntersection_iff`, §5b below; helper lemmas in
GeoProofs/Lemmas/C14PGeom.lean and C14PRing.lean). -/

/-- [T] the double loop fires exactly when some ordered pair of distinct segments is `pairBad` -/
theorem selfIntersection_iff_pair (r : List Pt) :
    hasSelfIntersection r = true ↔
      ∃ (i j : Nat) (l o : Pt × Pt), i ≠ j ∧ (segs r)[i]? = some l ∧ (segs r)[j]? = some o ∧ pairBad l o = true := by
  simp only [hasSelfIntersection, List.any_eq_true, Bool.and_eq_true, bne_iff_ne, ne_eq]
  constructor
  · rintro ⟨li, hli, oj, hoj, hne, hb⟩
    rw [List.mem_zipIdx_iff_getElem?] at hli hoj
    exact ⟨li.2, oj.2, li.1, oj.1, hne, hli, hoj, hb⟩
  · rintro ⟨i, j, l, o, hne, hl, ho, hb⟩
    exact ⟨(l, i), by rw [List.mem_zipIdx_iff_getElem?]; exact hl,
      (o, j), by rw [List.mem_zipIdx_iff_getElem?]; exact ho, hne, hb⟩

/-- [T] two segments that are not chained (neither starts where the other ends) are reported
exactly when they have a point in common (`Line: Intersects<Line>`) -/
theorem pairBad_unchained (l o : Pt × Pt) (h1 : l.1 ≠ o.2) (h2 : l.2 ≠ o.1) :
    pairBad l o = lineLine l.1 l.2 o.1 o.2 := by
  have e1 : (l.1 != o.2) = true := by simp [h1]
  have e2 : (l.2 != o.1) = true := by simp [h2]
  simp [pairBad, e1, e2]

/-- [T] the F8 fix, pair-local: two consecutive non-degenerate segments `a→b`, `b→c` (with
`c ≠ a`) are reported exactly when `a`, `b`, `c` are collinear and `a`, `c` lie on the same side
of the shared vertex `b` — i.e. when the second segment runs back over the first. On the pinned
tree such a pair was never reported (`three_segment_ring_accepted_on_pinned_tree`). -/
theorem chained_pair_flagged_iff (a b c : Pt) (hab : a ≠ b) (hbc : b ≠ c) :
    pairBad (a, b) (b, c) = true ↔
      orient a b c = .col ∧ (sameSide a.x b.x c.x || sameSide a.y b.y c.y) = true := by
  constructor
  · intro h
    have hab' : (a == b) = false := by simp [hab]
    have hbc' : (b == c) = false := by simp [hbc]
    simp only [pairBad, chainedOverlap, hab', hbc', bne_self_eq_false, Bool.and_false,
      Bool.false_or, Bool.or_self, Bool.false_eq_true, if_false, beq_self_eq_true, if_true,
      Bool.and_eq_true, beq_iff_eq] at h
    exact ⟨h.2.1, by simpa using h.2.2⟩
  · rintro ⟨hcol, hs⟩
    exact pairBad_chain a b c hab hbc hcol hs

example : pairBad (⟨0, 0⟩, ⟨2, 0⟩) (⟨2, 0⟩, ⟨1, 0⟩) = true :=
  (chained_pair_flagged_iff ⟨0, 0⟩ ⟨2, 0⟩ ⟨1, 0⟩ (by decide) (by decide)).mpr
    ⟨by simp [orient, cross], by simp [sameSide]⟩

/-! ## 5b. The loop against the specification (`ringSimple`) -/

private theorem notFinite_ofPt (p : Pt) : notFinite (XPt.ofPt p) = false := by
  simp [notFinite, XPt.ofPt, XNum.isFinite]

/-- [T] per-pair class "consecutive segments", point-set meaning of the implementation's test:
two consecutive segments `a→b`, `b→c` of positive length are flagged (in either operand order —
the loop visits both) exactly when they share a point other than the common vertex `b`. -/
theorem chained_pair_flagged_iff_common_point (a b c : Pt) (hab : a ≠ b) (hbc : b ≠ c) :
    (pairBad (a, b) (b, c) = true ↔ ∃ z, z ≠ b ∧ Kernel.SegMem z a b ∧ Kernel.SegMem z b c) ∧
    (pairBad (b, c) (a, b) = true ↔ ∃ z, z ≠ b ∧ Kernel.SegMem z a b ∧ Kernel.SegMem z b c) :=
  ⟨C14P.pairBad_fwd a b c hab hbc, C14P.pairBad_bwd a b c hab hbc⟩

example : pairBad (⟨2, 0⟩, ⟨1, 0⟩) (⟨0, 0⟩, ⟨2, 0⟩) = true :=
  (chained_pair_flagged_iff_common_point ⟨0, 0⟩ ⟨2, 0⟩ ⟨1, 0⟩ (by decide +kernel) (by decide +kernel)).2.mpr
    ⟨⟨1, 0⟩, by decide +kernel, ⟨1/2, by norm_num, by norm_num, by norm_num, by norm_num⟩,
      ⟨1, by norm_num, by norm_num, by norm_num, by norm_num⟩⟩

/-- [T] per-pair class "consecutive segments", point-set meaning of the specification's test:
`adjacentOk` (`line_intersection` answers the single point `b`) holds exactly when `b` is the only
common point of the two segments. -/
theorem adjacentOk_iff_single_common_point (a b c : Pt) (hab : a ≠ b) (hbc : b ≠ c) :
    adjacentOk (a, b) (b, c) b = true ↔ ¬ ∃ z, z ≠ b ∧ Kernel.SegMem z a b ∧ Kernel.SegMem z b c :=
  C14P.adjacentOk_iff a b c hab hbc

example : adjacentOk (⟨0, 0⟩, ⟨2, 0⟩) (⟨2, 0⟩, ⟨1, 0⟩) ⟨2, 0⟩ = false := by
  rw [← Bool.not_eq_true, adjacentOk_iff_single_common_point _ _ _ (by decide +kernel) (by decide +kernel),
    not_not]
  exact ⟨⟨1, 0⟩, by decide +kernel, ⟨1/2, by norm_num, by norm_num, by norm_num, by norm_num⟩,
      ⟨1, by norm_num, by norm_num, by norm_num, by norm_num⟩⟩

/-- [T] per-pair class "consecutive segments": for two segments of positive length, the second
starting where the first ends (this covers the wrap-around pair last/first of a closed ring), the
specification accepts the pair exactly when the loop body flags it in neither operand order. -/
theorem adjacent_pair_agrees (s t : Pt × Pt) (hs : s.1 ≠ s.2) (ht : t.1 ≠ t.2) (hst : s.2 = t.1) :
    adjacentOk s t s.2 = !pairBad s t ∧ adjacentOk s t s.2 = !pairBad t s :=
  C14P.adjacent_agree s t hs ht hst

example : adjacentOk (⟨0, 0⟩, ⟨1, 0⟩) (⟨1, 0⟩, ⟨1, 1⟩) ⟨1, 0⟩ = !pairBad (⟨1, 0⟩, ⟨1, 1⟩) (⟨0, 0⟩, ⟨1, 0⟩) :=
  (adjacent_pair_agrees (⟨0, 0⟩, ⟨1, 0⟩) (⟨1, 0⟩, ⟨1, 1⟩) (by decide +kernel) (by decide +kernel) rfl).2

/-- [T] per-pair class "not consecutive, but chained by coordinates" (the ring revisits a vertex, so
the loop's coordinate comparison `line.start != other.end && line.end != other.start` skips a pair
the specification rejects): two segments of positive length that end — or start — at the same
coordinate are always flagged; this is the neighbouring pair at which such a ring is caught. -/
theorem shared_end_pair_flagged (s t : Pt × Pt) (hs : s.1 ≠ s.2) (ht : t.1 ≠ t.2)
    (h : s.2 = t.2 ∨ s.1 = t.1) : pairBad s t = true := by
  rcases h with h | h
  · exact C14P.pairBad_end_end s t hs ht h
  · exact C14P.pairBad_start_start s t hs ht h

example : pairBad (⟨0, 0⟩, ⟨1, 1⟩) (⟨2, 0⟩, ⟨1, 1⟩) = true :=
  shared_end_pair_flagged _ _ (by decide +kernel) (by decide +kernel) (Or.inl rfl)

/-- [T] dedup interplay: the loop (which the code runs on the ring as given) reports a ring exactly
when it reports the ring with consecutive repeats removed — a zero-length segment is flagged only
against a segment through its coordinate, and then a neighbouring segment of positive length is
flagged too. No hypothesis on the ring. -/
theorem selfIntersection_dedup (r : List Pt) :
    hasSelfIntersection r = hasSelfIntersection (dedupConsecutive r) := by
  have h := C14P.noBad_dedup r
  rw [← C14P.hsi_false_iff, ← C14P.hsi_false_iff] at h
  cases h1 : hasSelfIntersection r <;> cases h2 : hasSelfIntersection (dedupConsecutive r) <;> simp_all

/-- [T] `selfIntersection_iff` (DESIGN §7 C14, full statement; the hypothesis of the earlier
`_partial` form — no two adjacent segments collinear-overlapping — is gone with fix F8): on a
closed ring that keeps at least 4 coordinates when consecutive repeats are removed (i.e. one on
which `TooFewPointsInRing` did not fire), `linestring_has_self_intersection` answers `false`
exactly when the ring is simple in the sense of the specification. Rings with exactly three
segments and the wrap-around pair are covered; the ring may contain repeated coordinates. -/
theorem selfIntersection_iff (r : List Pt) (hclosed : r.head? = r.getLast?)
    (h4 : (dedupConsecutive r).length ≥ 4) : hasSelfIntersection r = false ↔ ringSimple r = true :=
  C14P.hsi_iff_ringSimple r hclosed h4

example : hasSelfIntersection [⟨0, 0⟩, ⟨1, 0⟩, ⟨1, 0⟩, ⟨1, 1⟩, ⟨0, 0⟩] = false :=
  (selfIntersection_iff [⟨0, 0⟩, ⟨1, 0⟩, ⟨1, 0⟩, ⟨1, 1⟩, ⟨0, 0⟩] (by decide +kernel) (by decide +kernel)).mpr
    (by decide +kernel)

/-- bow-tie: rejected by the specification, hence reported by the loop -/
example : hasSelfIntersection [⟨0, 0⟩, ⟨1, 1⟩, ⟨1, 0⟩, ⟨0, 1⟩, ⟨0, 0⟩] = true := by
  rw [← Bool.not_eq_false, selfIntersection_iff _ (by decide +kernel) (by decide +kernel)]
  decide +kernel

/-- [T] one direction needs no hypothesis at all (`ringSimple` itself demands a closed ring of at
least three segments): a ring the specification accepts is never reported. -/
theorem ringSimple_not_reported (r : List Pt) (h : ringSimple r = true) : hasSelfIntersection r = false :=
  C14P.ringSimple_noBad r h

/-- [T] the per-ring pass on a finite, non-empty, closed ring lists no error exactly when the ring
is simple (`ringSimple` includes: at least 4 coordinates after removing consecutive repeats). -/
theorem ringErrs_nil_iff_ringSimple (o : Oracle) (role : Role) (q : List Pt) (hne : q ≠ [])
    (hclosed : q.head? = q.getLast?) :
    ringErrs o role (q.map XPt.ofPt) = [] ↔ ringSimple q = true := by
  have hemp : (q.map XPt.ofPt).isEmpty = false := by
    cases q with
    | nil => exact absurd rfl hne
    | cons a t => rfl
  have hnf : (List.map XPt.ofPt q).zipIdx.flatMap
      (fun ci => if notFinite ci.1 = true then [PolyErr.nonFinite role ci.2] else []) = [] := by
    rw [List.flatMap_eq_nil_iff]
    intro ci hci
    have hmem := List.mem_zipIdx_iff_getElem?.mp hci
    have : ci.1 ∈ List.map XPt.ofPt q := List.mem_of_getElem? hmem
    obtain ⟨p, _, hp⟩ := List.mem_map.mp this
    rw [← hp, notFinite_ofPt]; simp
  unfold ringErrs
  simp only [hemp, Bool.false_eq_true, if_false, hnf, List.append_nil, selfInt, ringToPts?_map]
  by_cases h4 : (dedupConsecutive q).length < 4
  · have ht := (tooFew_iff q).mpr h4
    have hs : ringSimple q = false := by
      rw [C14P.ringSimple_def, C14P.segs_length]
      have : ¬ ((dedupConsecutive q).length - 1 ≥ 3) := by omega
      simp [this]
    simp [ht, hs]
  · have ht : tooFew (q.map XPt.ofPt) true = false := by
      cases h : tooFew (q.map XPt.ofPt) true
      · rfl
      · exact absurd ((tooFew_iff q).mp h) h4
    have hiff := selfIntersection_iff q hclosed (by omega)
    simp only [ht, Bool.false_eq_true, if_false]
    cases hh : hasSelfIntersection q
    · simp [hiff.mp hh]
    · have : ringSimple q ≠ true := fun e => by rw [hiff.mpr e] at hh; cases hh
      simp [this]

example : ringErrs ⟨relateSpec, fun _ => false⟩ .ext
    ([⟨0, 0⟩, ⟨1, 0⟩, ⟨1, 1⟩, ⟨0, 0⟩].map XPt.ofPt) = [] :=
  (ringErrs_nil_iff_ringSimple _ _ [⟨0, 0⟩, ⟨1, 0⟩, ⟨1, 1⟩, ⟨0, 0⟩] (by simp) (by decide +kernel)).mpr
    (by decide +kernel)

private theorem selfInt_not_pair (o : Oracle) (q : Poly) (r : Role) :
    PolyErr.selfInt r ∉ ringPairErrs o q := by
  simp [ringPairErrs, holePairErrs]

/-- [T] error soundness: `SelfIntersection(role)` names an existing, non-empty ring that is not
simple according to the specification (or is not finite). No closedness or length hypothesis:
whenever the loop fires, `ringSimple` is false. -/
theorem selfInt_sound (o : Oracle) (p : XPoly) (role : Role)
    (he : PolyErr.selfInt role ∈ polyErrs o p) : polyErrSound p (.selfInt role) = true := by
  obtain ⟨idx, ring, hring, hm⟩ := ringLocal_mem o p _ he (fun q => selfInt_not_pair o q role)
  obtain ⟨hr, hne, _, hs⟩ := (selfInt_mem_ringErrs o _ _ _).mp hm
  subst hr
  simp only [polyErrSound, getRing_roleOf, hring, hne, Bool.not_false, Bool.true_and]
  split
  · rename_i q hq
    simp only [selfInt, hq] at hs
    cases hrs : ringSimple q
    · rfl
    · rw [ringSimple_not_reported q hrs] at hs; cases hs
  · rfl

example : polyErrSound ⟨[⟨0, 0⟩, ⟨1, 1⟩, ⟨1, 0⟩, ⟨0, 1⟩, ⟨0, 0⟩].map XPt.ofPt, []⟩ (.selfInt .ext) = true :=
  selfInt_sound ⟨relateSpec, fun _ => false⟩ _ _ (by decide +kernel)

/-! ## 6. The one-line rules of the other types against the specification -/

private theorem dedup_pos (b : Pt) (t : List Pt) : 1 ≤ (dedupConsecutive (b :: t)).length := by
  induction t generalizing b with
  | nil => simp [dedupConsecutive]
  | cons c t ih =>
    simp only [dedupConsecutive]
    split
    · exact ih c
    · simp

private theorem dedup_one (t : List Pt) : ∀ a : Pt,
    (dedupConsecutive (a :: t)).length = 1 ↔ ∀ x ∈ t, x = a := by
  induction t with
  | nil => intro a; simp [dedupConsecutive]
  | cons b t ih =>
    intro a
    simp only [dedupConsecutive]
    by_cases hab : a = b
    · subst hab
      simp [ih a]
    · have h1 : (a == b) = false := by simp [hab]
      simp only [h1, Bool.false_eq_true, if_false, List.length_cons, List.mem_cons, forall_eq_or_imp]
      have := dedup_pos b t
      constructor
      · intro h; omega
      · intro h; exact absurd h.1.symm hab

private theorem lsSpec_cons (a : Pt) (t : List Pt) :
    lineStringSpec (a :: t) = false ↔ ∀ x ∈ t, x = a := by
  simp only [lineStringSpec, List.isEmpty_cons, Bool.false_or]
  rw [← Bool.not_eq_true, List.any_eq_true]
  constructor
  · intro h x hx
    by_contra hne
    apply h
    exact ⟨x, by simp [hx], by rw [List.any_eq_true]; exact ⟨a, by simp, by simp [hne]⟩⟩
  · rintro h ⟨c, hc, hd⟩
    rw [List.any_eq_true] at hd
    obtain ⟨d, hd, hcd⟩ := hd
    have hc' : c = a := by
      rcases List.mem_cons.mp hc with h1 | h1
      · exact h1
      · exact h c h1
    have hd' : d = a := by
      rcases List.mem_cons.mp hd with h1 | h1
      · exact h1
      · exact h d h1
    simp [hc', hd'] at hcd

/-- [T] LineString: `TooFewPoints` fires exactly when the (non-empty, finite) line string does not
have two different coordinates — the specification's `lineStringSpec`. -/
theorem lineString_tooFew_iff_spec (r : List Pt) (hne : r ≠ []) :
    tooFew (r.map XPt.ofPt) false = true ↔ lineStringSpec r = false := by
  rw [tooFew_lineString_iff]
  cases r with
  | nil => exact absurd rfl hne
  | cons a t =>
    rw [lsSpec_cons, ← dedup_one t a]
    have := dedup_pos a t
    omega

/-- [T] LineString, finite coordinates: the error list is empty (`is_valid`) exactly when the
specification holds. -/
theorem lineString_valid_iff_spec (r : List Pt) :
    lineStringErrs (r.map XPt.ofPt) = [] ↔ lineStringSpec r = true := by
  by_cases hne : r = []
  · subst hne; simp [lineStringErrs, lineStringSpec]
  · have hnf : (List.map XPt.ofPt r).zipIdx.flatMap
        (fun ci => if notFinite ci.1 = true then [LsErr.nonFinite ci.2] else []) = [] := by
      rw [List.flatMap_eq_nil_iff]
      intro ci hci
      have hmem := List.mem_zipIdx_iff_getElem?.mp hci
      have : ci.1 ∈ List.map XPt.ofPt r := List.mem_of_getElem? hmem
      obtain ⟨p, _, hp⟩ := List.mem_map.mp this
      rw [← hp, notFinite_ofPt]; simp
    have hemp : (List.map XPt.ofPt r).isEmpty = false := by
      cases r with
      | nil => exact absurd rfl hne
      | cons a t => rfl
    unfold lineStringErrs
    simp only [hemp, Bool.false_eq_true, if_false, hnf, List.append_nil]
    cases hs : lineStringSpec r
    · have := (lineString_tooFew_iff_spec r hne).mpr hs
      simp [this]
    · have : tooFew (List.map XPt.ofPt r) false = false := by
        cases ht : tooFew (List.map XPt.ofPt r) false
        · rfl
        · have := (lineString_tooFew_iff_spec r hne).mp ht
          rw [hs] at this; cases this
      simp [this]

private theorem collinearX_ofPt (a b c : Pt) :
    collinearX (XPt.ofPt a) (XPt.ofPt b) (XPt.ofPt c) = (orient a b c == .col) := by
  simp [collinearX, XPt.toPt?, XPt.ofPt]

private theorem orient_col_of_eq (a b c : Pt) (h : a = b ∨ a = c ∨ b = c) : orient a b c = .col := by
  rw [orient_col_iff]
  rcases h with h | h | h <;> subst h <;> unfold cross <;> ring

/-- [T] Triangle, finite coordinates: no error is listed (`is_valid`) exactly when the three
corners are not collinear (which includes: are distinct). -/
theorem triangle_valid_iff_spec (a b c : Pt) :
    triangleErrs (XPt.ofPt a) (XPt.ofPt b) (XPt.ofPt c) = [] ↔ orient a b c ≠ .col := by
  simp only [triangleErrs, notFinite_ofPt, ceq_ofPt, collinearX_ofPt, Bool.false_eq_true, if_false,
    List.nil_append]
  constructor
  · intro h hcol
    by_cases hab : a = b
    · simp [hab] at h
    · by_cases hac : a = c
      · simp [hac] at h
      · by_cases hbc : b = c
        · simp [hbc] at h
        · simp [hab, hac, hbc, hcol] at h
  · intro h
    have hab : a ≠ b := fun e => h (orient_col_of_eq a b c (Or.inl e))
    have hac : a ≠ c := fun e => h (orient_col_of_eq a b c (Or.inr (Or.inl e)))
    have hbc : b ≠ c := fun e => h (orient_col_of_eq a b c (Or.inr (Or.inr e)))
    simp [hab, hac, hbc, h]

/-! ## 7. Ring-versus-ring clauses, with `relate` instantiated by the DE-9IM specification

What follows from the *shape* of `relateParts` alone (the matrix is the maximum over arrangement
atoms). The shell-versus-hole clause is NOT an unfolding: the code relates the shell polygon with
the hole as a *LineString* (`is_contains`, `BI = 1`), the specification `polyValidRings` relates
the hole as a *Polygon* with the shell polygon (`II ≠ F`, `IE = F`, `BE = F`, `dim BB ≤ 0`); their
agreement rests on the adequacy of the DE-9IM specification (DESIGN S1) and is left to the
correspondence. Likewise the `→` direction of the area clause needs "`II` of two polygons is `F`
or `2`" (S1): `holePair_iff_partial`.
-- full statement kept for the record:
-- theorem ringPairErrs_nil_iff_polyValidRings (f) (q : Poly) (hrings : all rings ringSimple) :
--     ringPairErrs ⟨relateSpec, f⟩ q = [] ↔ (the two relate clauses of polyValidRings (Poly.solid q))
-/

/-- [T] structural: in the DE-9IM specification a cell whose row or column is a boundary never
has dimension 2 — so the specification's "boundaries meet in points at most" (`dim BB ≤ 0`) is
exactly the negation of the code's test `BB = 1`. -/
theorem boundary_cells_never_area (pa pb : Parts) (x y : Pos) (h : x = .onBoundary ∨ y = .onBoundary) :
    (relateParts pa pb).get x y ≠ .two :=
  C14P.relateParts_boundary_ne_two pa pb x y h

example : (relateSpec (.polygon ⟨[⟨0, 0⟩, ⟨1, 0⟩, ⟨0, 1⟩, ⟨0, 0⟩], []⟩)
    (.polygon ⟨[⟨0, 0⟩, ⟨1, 0⟩, ⟨0, 1⟩, ⟨0, 0⟩], []⟩)).bb ≠ .two :=
  boundary_cells_never_area _ _ .onBoundary .onBoundary (Or.inl rfl)

/-- [T] the line clause, exact: `dimLe0 BB` (specification) ⇔ `BB ≠ 1` (code). -/
theorem boundaries_meet_in_points_iff (a b : List Pt) :
    dimLe0 (relateParts (polyOf a) (polyOf b)).bb = !ringsShareLine a b := by
  rw [Bool.eq_iff_iff, C14P.dimLe0_bb_iff]
  simp [ringsShareLine]

/-- [T] the ring-versus-ring pass of the Polygon visitor, with `relate` = the specification, lists
no error exactly when every non-empty hole — as a LineString — is contained in the shell polygon
(`T*****FF*`) with `BI ≠ 1`, and has `II ≠ 2` and `BB ≠ 1` with every later hole (as polygons). -/
theorem ringPairErrs_nil_iff_relateSpec (f : XRing → Bool) (q : Poly) :
    ringPairErrs ⟨relateSpec, f⟩ q = [] ↔
      ∀ (i : Nat) (hi : List Pt), q.ints[i]? = some hi → hi ≠ [] →
        isContains (relateParts (polyOf q.ext) ⟨[], [hi], []⟩) = true ∧
        (relateParts (polyOf q.ext) ⟨[], [hi], []⟩).bi ≠ .one ∧
        ∀ (j : Nat) (hj : List Pt), i < j → q.ints[j]? = some hj →
          (relateParts (polyOf hi) (polyOf hj)).ii ≠ .two ∧ (relateParts (polyOf hi) (polyOf hj)).bb ≠ .one :=
  C14P.ringPairErrs_nil_iff f q

/-- [T] hole-versus-hole clause, completeness side: a pair of holes that satisfies the
specification's clause (`II = F`, `dim BB ≤ 0` of `polyValidRings`) draws no error. -/
theorem holePair_no_error_of_spec (f : XRing → Bool) (h1 h2 : List Pt) (i j : Nat)
    (h : C14P.holePairSpec h1 h2 = true) : holePairErrs ⟨relateSpec, f⟩ h1 i h2 j = [] :=
  C14P.holePair_spec_imp f h1 h2 i j h

example : holePairErrs ⟨relateSpec, fun _ => false⟩ [⟨0, 0⟩, ⟨1, 0⟩, ⟨0, 1⟩, ⟨0, 0⟩] 0
    [⟨5, 5⟩, ⟨6, 5⟩, ⟨5, 6⟩, ⟨5, 5⟩] 1 = [] :=
  holePair_no_error_of_spec _ _ _ _ _ (by decide +kernel)

/-- [T] … in particular a polygon that satisfies the specification's `polyValidRings` draws no
hole-versus-hole error. -/
theorem polyValidRings_no_holePair_errors (f : XRing → Bool) (q : Poly)
    (h : polyValid.polyValidRings q = true) (i j : Nat) (hi hj : List Pt) (hij : i < j)
    (hgi : q.ints[i]? = some hi) (hgj : q.ints[j]? = some hj) :
    holePairErrs ⟨relateSpec, f⟩ hi i hj j = [] := by
  apply holePair_no_error_of_spec
  simp only [polyValid.polyValidRings, Bool.and_eq_true] at h
  obtain ⟨_, hall⟩ := h
  rw [C14P.allPairs_iff] at hall
  have := hall i j _ _ hij (by rw [List.getElem?_map, hgi]; rfl) (by rw [List.getElem?_map, hgj]; rfl)
  simpa [hgi, hgj, C14P.holePairSpec] using this

example : holePairErrs ⟨relateSpec, fun _ => false⟩ [⟨1, 1⟩, ⟨2, 1⟩, ⟨1, 2⟩, ⟨1, 1⟩] 0
    [⟨5, 5⟩, ⟨6, 5⟩, ⟨5, 6⟩, ⟨5, 5⟩] 1 = [] :=
  polyValidRings_no_holePair_errors _
    ⟨[⟨0, 0⟩, ⟨9, 0⟩, ⟨9, 9⟩, ⟨0, 9⟩, ⟨0, 0⟩],
      [[⟨1, 1⟩, ⟨2, 1⟩, ⟨1, 2⟩, ⟨1, 1⟩], [⟨5, 5⟩, ⟨6, 5⟩, ⟨5, 6⟩, ⟨5, 5⟩]]⟩
    (by decide +kernel) 0 1 _ _ (by omega) rfl rfl

/-- [Tp] hole-versus-hole clause, both directions, given that `II` of the two hole polygons is
`F` or `2` (true of the point sets; for `relateParts` it is part of S1).
Full statement: without `hS1`. -/
theorem holePair_iff_partial (f : XRing → Bool) (h1 h2 : List Pt) (i j : Nat)
    (hS1 : (relateParts (polyOf h1) (polyOf h2)).ii = .empty ∨ (relateParts (polyOf h1) (polyOf h2)).ii = .two) :
    holePairErrs ⟨relateSpec, f⟩ h1 i h2 j = [] ↔ C14P.holePairSpec h1 h2 = true :=
  C14P.holePair_iff_of_area f h1 h2 i j hS1

example : C14P.holePairSpec [⟨0, 0⟩, ⟨2, 0⟩, ⟨0, 2⟩, ⟨0, 0⟩] [⟨0, 0⟩, ⟨2, 0⟩, ⟨0, 2⟩, ⟨0, 0⟩] = false := by
  rw [← Bool.not_eq_true, ← holePair_iff_partial (fun _ => false) _ _ 0 1 (Or.inr (by decide +kernel))]
  decide +kernel

/-- [T] the hypothesis of `holePair_iff_partial` holds for *every* pair of coordinate lists: the `II`
cell of the specification for two ring polygons is `F` or `2`. Atoms of dimension 0 and 1 (arrangement
vertices, midpoints of pieces of segments) lie on one of the two rings, so they are located on the
boundary of that ring's polygon, never `(Interior, Interior)`; only face samples can be. -/
theorem holePair_ii_area (h1 h2 : List Pt) :
    (relateParts (polyOf h1) (polyOf h2)).ii = .empty ∨ (relateParts (polyOf h1) (polyOf h2)).ii = .two :=
  Geo.Proofs.SMLX.relateParts_polyOf_ii h1 h2

/-- [T] hole-versus-hole clause, both directions, **no hypothesis** (the full statement of
`holePair_iff_partial`): with `relate` = the DE-9IM specification the model's two tests on a pair of
holes (`II = 2` → `IntersectingRingsOnAnArea`, `BB = 1` → `IntersectingRingsOnALine`) draw no error exactly
when the specification's clause for the pair holds (`II = F` and `dim BB ≤ 0`). -/
theorem holePair_iff (f : XRing → Bool) (h1 h2 : List Pt) (i j : Nat) :
    holePairErrs ⟨relateSpec, f⟩ h1 i h2 j = [] ↔ C14P.holePairSpec h1 h2 = true :=
  holePair_iff_partial f h1 h2 i j (holePair_ii_area h1 h2)

/-- the iff used right to left on a pair of disjoint holes, and left to right (contrapositive) on two equal
holes; no side condition to discharge -/
example : holePairErrs ⟨relateSpec, fun _ => false⟩ [⟨0, 0⟩, ⟨2, 0⟩, ⟨0, 2⟩, ⟨0, 0⟩] 0
    [⟨0, 0⟩, ⟨2, 0⟩, ⟨0, 2⟩, ⟨0, 0⟩] 1 ≠ [] := by
  rw [Ne, holePair_iff]
  decide +kernel

/-- [T] error soundness: `IntersectingRingsOnAnArea(a, b)` names two different existing,
non-empty holes whose interiors intersect according to the specification. -/
theorem onArea_sound (f : XRing → Bool) (p : XPoly) (a b : Role)
    (he : PolyErr.onArea a b ∈ polyErrs ⟨relateSpec, f⟩ p) : polyErrSound p (.onArea a b) = true := by
  obtain ⟨q, hq, i, j, hi, hj, hij, hgi, hgj, hne, hm⟩ :=
    C14P.holePair_mem_polyErrs f p _ (fun _ => by simp) (fun _ => by simp) (fun _ _ => by simp)
      (fun _ => by simp) (fun _ => by simp) he
  obtain ⟨rfl, rfl, hii⟩ := (C14P.onArea_mem_holePairErrs f hi hj i j a b).mp hm
  have hnej : hj ≠ [] := by
    intro e
    rw [e] at hii
    have := C14P.relateParts_nil_right (polyOf hi) .inside .inside (by simp)
    rw [show (relateParts (polyOf hi) (polyOf [])).get .inside .inside =
      (relateParts (polyOf hi) (polyOf [])).ii from rfl, hii] at this
    cases this
  have e1 : hi.isEmpty = false := by cases hi <;> simp_all
  have e2 : hj.isEmpty = false := by cases hj <;> simp_all
  have e3 : (Role.int i != Role.int j) = true := by simp; omega
  simp [polyErrSound, hq, getRingQ, hgi, hgj, e1, e2, e3, ringsShareArea, hii]

/-- [T] error soundness: `IntersectingRingsOnALine(int i, int j)` between two holes names two
different existing, non-empty holes whose boundaries share a line according to the specification.
(For the shell-versus-hole form `IntersectingRingsOnALine(ext, int k)` see the remark above.) -/
theorem onLine_holes_sound (f : XRing → Bool) (p : XPoly) (i j : Nat)
    (he : PolyErr.onLine (.int i) (.int j) ∈ polyErrs ⟨relateSpec, f⟩ p) :
    polyErrSound p (.onLine (.int i) (.int j)) = true := by
  obtain ⟨q, hq, i', j', hi, hj, hij, hgi, hgj, hne, hm⟩ :=
    C14P.holePair_mem_polyErrs f p _ (fun _ => by simp) (fun _ => by simp) (fun _ _ => by simp)
      (fun _ => by simp) (fun _ => by simp) he
  obtain ⟨e1, e2, hbb⟩ := (C14P.onLine_mem_holePairErrs f hi hj i' j' _ _).mp hm
  injection e1 with e1; injection e2 with e2
  subst e1; subst e2
  have hnej : hj ≠ [] := by
    intro e
    rw [e] at hbb
    have := C14P.relateParts_nil_right (polyOf hi) .onBoundary .onBoundary (by simp)
    rw [show (relateParts (polyOf hi) (polyOf [])).get .onBoundary .onBoundary =
      (relateParts (polyOf hi) (polyOf [])).bb from rfl, hbb] at this
    cases this
  have e1 : hi.isEmpty = false := by cases hi <;> simp_all
  have e2 : hj.isEmpty = false := by cases hj <;> simp_all
  have e3 : (Role.int i != Role.int j) = true := by simp; omega
  simp [polyErrSound, hq, getRingQ, hgi, hgj, e1, e2, e3, ringsShareLine, hbb]

/-! ### tie to the source -/

/-- [E2] (translator tie) the helper predicates of validation/utils.rs in the model are the terms `translator/rs2lean.py`
regenerates on every run from the Rust bodies (`GeoModel/Gen/ValidGen.lean`): `check_coord_is_not_finite` (both components
finite), `check_too_few_points` (4 for a ring, 2 otherwise, strict `<`, after `remove_repeated_points`),
`chained_lines_overlap` (the zero-length guards, which end is the pivot, collinearity and the same-side test in x or y) and
`linestring_has_self_intersection` on finite coordinates (the double loop over `lines().enumerate()`, `i != j`, the
`intersects` test, the shared-end-point exemption, the early returns). A changed constant, comparison, operand or branch
changes the regenerated definition and this theorem stops checking. -/
theorem validationUtils_eq_source :
    (∀ c : XPt, Gen.checkCoordIsNotFinite c = notFinite c) ∧
    (∀ (r : XRing) (isRing : Bool), Gen.checkTooFewPoints r isRing = tooFew r isRing) ∧
    (∀ l o : Pt × Pt, Gen.chainedLinesOverlap l o = chainedOverlap l o) ∧
    (∀ r : List Pt, Gen.linestringHasSelfIntersection r = hasSelfIntersection r) :=
  ⟨Geo.Proofs.TRAN2Valid.notFinite_eq, Geo.Proofs.TRAN2Valid.tooFew_eq, Geo.Proofs.TRAN2Valid.chainedOverlap_eq,
   Geo.Proofs.TRAN2Valid.hasSelfIntersection_eq⟩

end Geo.Proofs.C14

