/-
  C05 — Planar area and ring orientation are exact up to rounding.

  Property theorems only. Model: GeoModel/Area.lean, GeoModel/Winding.lean; helper lemmas in
  GeoProofs/Lemmas/C05Area.lean and C05Winding.lean.

  Rings of a `Polygon` are closed by construction (C18 `inv_run`), so `r.head? = r.getLast?` is the
  type invariant of a ring, not an extra hypothesis; where a statement also holds for open
  coordinate lists (on which the code returns 0) it is stated without it.
-/
import GeoModel.Area
import GeoModel.Winding
import GeoProofs.Lemmas.C05Area
import GeoProofs.Lemmas.C05Winding
import GeoProofs.Lemmas.C05PConvex
import GeoProofs.Lemmas.C05PRotate
import GeoProofs.Lemmas.C05PFloat
import GeoProofs.Lemmas.TRANArea
import GeoProofs.Lemmas.SMLXPivot
import GeoProofs.Lemmas.SMLXMain
import GeoProofs.Lemmas.SMLXSimpleEq
import Mathlib.Tactic.NormNum

namespace Geo.Proofs.C05
open Geo Geo.Proofs.C05L

/-! ### The conditioning shift changes nothing in exact arithmetic -/

/-- [T] `shift_invariance`: on a closed ring the sum of segment determinants after shifting by
*any* point `s` equals the unshifted shoelace sum (telescoping). -/
theorem shift_invariance (s : Pt) (r : List Pt) (hc : r.head? = r.getLast?) :
    sumRat (shiftedDets s r) = shoelace2 r := by
  cases r with
  | nil => simp [shiftedDets, shoelace2, sumRat]
  | cons a t => rw [sum_shiftedDets, lastD_of_closed hc]; ring

/-- [T] the code's `twice_signed_ring_area` (early returns, shift to the first vertex, left fold)
is the textbook shoelace sum on every closed ring, including the degenerate ones. -/
theorem twice_eq_shoelace (r : List Pt) (hc : r.head? = r.getLast?) :
    twiceSignedRingArea r = shoelace2 r := twice_closed r hc

example : twiceSignedRingArea [⟨100, 100⟩, ⟨104, 100⟩, ⟨104, 103⟩, ⟨100, 100⟩] = 12 := by
  rw [twice_eq_shoelace _ (by decide)]; norm_num [shoelace2, det]

/-- [T] `area_translate`: translating a coordinate list (closed or not) leaves the result
unchanged. -/
theorem area_translate (v : Pt) (r : List Pt) :
    twiceSignedRingArea (r.map (· + v)) = twiceSignedRingArea r := by
  have hinj : Function.Injective (fun p : Pt => p + v) := by
    intro p q h
    have hx : (p + v).x = (q + v).x := congrArg Pt.x h
    have hy : (p + v).y = (q + v).y := congrArg Pt.y h
    simp only [add_x, add_y] at hx hy
    cases p; cases q; simp only [Pt.mk.injEq]; constructor <;> linarith
  by_cases hc : r.head? = r.getLast?
  · have hc' := (head?_map_inj hinj r).2 hc
    rw [twice_closed _ hc', twice_closed _ hc]
    have hm : r.map (· + v) = r.map (· - (⟨-v.x, -v.y⟩ : Pt)) := by
      apply List.map_congr_left; intro p _
      show p + v = p - ⟨-v.x, -v.y⟩
      cases p; cases v
      show Pt.mk _ _ = Pt.mk _ _
      simp only [Pt.mk.injEq]; constructor <;> ring
    rw [hm, shoelace2_map_sub, shift_invariance _ _ hc]
  · have hc' : ¬ (r.map (· + v)).head? = (r.map (· + v)).getLast? :=
      fun h => hc ((head?_map_inj hinj r).1 h)
    rw [twice_open _ hc', twice_open _ hc]

private theorem shoelace2_smul (k : Rat) (l : List Pt) :
    shoelace2 (l.map (Pt.smul k)) = k * k * shoelace2 l := by
  induction l with
  | nil => simp [shoelace2]
  | cons a t ih =>
    cases t with
    | nil => simp [shoelace2]
    | cons b t' =>
      simp only [List.map_cons, shoelace2] at ih ⊢
      rw [ih]; simp only [det, Pt.smul]; ring

/-- [T] `area_scale`: scaling a ring by `k` multiplies the area by `k²`. -/
theorem area_scale (k : Rat) (r : List Pt) (hc : r.head? = r.getLast?) :
    twiceSignedRingArea (r.map (Pt.smul k)) = k * k * twiceSignedRingArea r := by
  have hc' : (r.map (Pt.smul k)).head? = (r.map (Pt.smul k)).getLast? := by
    rw [List.head?_map, List.getLast?_map, hc]
  rw [twice_closed _ hc', twice_closed _ hc, shoelace2_smul]

private theorem shoelace2_swap (l : List Pt) :
    shoelace2 (l.map (fun p => (⟨p.y, p.x⟩ : Pt))) = - shoelace2 l := by
  induction l with
  | nil => simp [shoelace2]
  | cons a t ih =>
    cases t with
    | nil => simp [shoelace2]
    | cons b t' =>
      simp only [List.map_cons, shoelace2] at ih ⊢
      rw [ih]; simp only [det]; ring

/-- [T] `area_swap_axes`: exchanging the axes (a reflection) negates the area. -/
theorem area_swap_axes (r : List Pt) (hc : r.head? = r.getLast?) :
    twiceSignedRingArea (r.map (fun p => (⟨p.y, p.x⟩ : Pt))) = - twiceSignedRingArea r := by
  have hc' : (r.map (fun p => (⟨p.y, p.x⟩ : Pt))).head? = (r.map (fun p => (⟨p.y, p.x⟩ : Pt))).getLast? := by
    rw [List.head?_map, List.getLast?_map, hc]
  rw [twice_closed _ hc', twice_closed _ hc, shoelace2_swap]

/-! ### Direction and start vertex of a ring -/

/-- [T] `ringArea_reverse`: reversing a coordinate list negates `twice_signed_ring_area`
(closed or open: an open list stays open). -/
theorem ringArea_reverse (r : List Pt) : twiceSignedRingArea r.reverse = - twiceSignedRingArea r := by
  by_cases hc : r.head? = r.getLast?
  · have hc' : r.reverse.head? = r.reverse.getLast? := by
      rw [List.head?_reverse, List.getLast?_reverse, hc]
    rw [twice_closed _ hc', twice_closed _ hc, shoelace2_reverse]
  · have hc' : ¬ r.reverse.head? = r.reverse.getLast? := by
      rw [List.head?_reverse, List.getLast?_reverse]; exact fun h => hc h.symm
    rw [twice_open _ hc', twice_open _ hc]; ring

/-- [T] `ringArea_rotate`: the start vertex of a closed ring is irrelevant (one step; any
rotation is an iterate). -/
theorem ringArea_rotate (r : List Pt) (hc : r.head? = r.getLast?) :
    twiceSignedRingArea (rotate1 r) = twiceSignedRingArea r := by
  match r, hc with
  | [], _ => rfl
  | [a], _ => rfl
  | a :: b :: t, hc =>
    have hl : (b :: t).getLast? = some a := by
      have : (a :: b :: t).getLast? = (b :: t).getLast? := List.getLast?_cons_cons
      rw [← this, ← hc]; rfl
    have hc' : (rotate1 (a :: b :: t)).head? = (rotate1 (a :: b :: t)).getLast? := by
      show some b = ((b :: t) ++ [b]).getLast?
      rw [List.getLast?_concat]
    rw [twice_closed _ hc', twice_closed _ hc]
    show shoelace2 ((b :: t) ++ [b]) = _
    rw [shoelace2_snoc, hl]; simp only [shoelace2]; ring

example : rotate1 [⟨0, 0⟩, ⟨4, 0⟩, ⟨4, 3⟩, ⟨0, 0⟩] = [⟨4, 0⟩, ⟨4, 3⟩, ⟨0, 0⟩, ⟨4, 0⟩] := by decide

/-! ### Polygons: sign convention with mixed hole windings -/

/-- [T] `signed_area` of a polygon is `|exterior| − Σ|holes|`, carrying the sign of the exterior
(closed form of the fold in `impl Area for Polygon`). -/
theorem polygonArea_formula (p : Poly) :
    p.signedArea =
      (if ringArea p.ext < 0 then -1 else 1) *
        (rabs (ringArea p.ext) - sumRat (p.ints.map (fun h => rabs (ringArea h)))) := by
  unfold Poly.signedArea
  simp only [foldl_sub_map (fun h => rabs (ringArea h))]
  split <;> ring

/-- [T] for a polygon whose rings are closed, `signed_area` is the specification: the shoelace
area of the exterior minus that of the holes (by magnitude), signed like the exterior. -/
theorem polygonArea_eq_spec (p : Poly) (he : p.ext.head? = p.ext.getLast?)
    (hi : ∀ h ∈ p.ints, h.head? = h.getLast?) : p.signedArea = specPoly p := by
  have hr : ringArea p.ext = specRing p.ext := by simp only [ringArea, specRing, twice_closed _ he]
  have hm : p.ints.map (fun h => rabs (ringArea h)) = p.ints.map (fun h => rabs (specRing h)) := by
    apply List.map_congr_left; intro h hh
    simp only [ringArea, specRing, twice_closed _ (hi h hh)]
  rw [polygonArea_formula, specPoly, hr, hm]
  split <;> ring

example : (Poly.mk [⟨0, 0⟩, ⟨0, 8⟩, ⟨8, 8⟩, ⟨8, 0⟩, ⟨0, 0⟩]
    [[⟨1, 1⟩, ⟨3, 1⟩, ⟨3, 3⟩, ⟨1, 3⟩, ⟨1, 1⟩], [⟨5, 5⟩, ⟨5, 7⟩, ⟨7, 7⟩, ⟨7, 5⟩, ⟨5, 5⟩]]).signedArea = -56 := by
  rw [polygonArea_eq_spec _ (by decide) (by decide)]
  norm_num [specPoly, specRing, shoelace2, det, sumRat, rabs]

private theorem holes_abs_eq {ints ints' : List (List Pt)}
    (h : List.Forall₂ (fun a b => b = a ∨ b = a.reverse) ints ints') :
    ints'.map (fun h => rabs (ringArea h)) = ints.map (fun h => rabs (ringArea h)) := by
  induction h with
  | nil => rfl
  | cons hab _ ih =>
    simp only [List.map_cons, ih]
    rcases hab with rfl | rfl
    · rfl
    · simp only [ringArea, ringArea_reverse, neg_div, rabs_neg]

/-- [T] `polygonArea_hole_winding`: the result does not depend on the direction of any hole. -/
theorem polygonArea_hole_winding (ext : List Pt) (ints ints' : List (List Pt))
    (h : List.Forall₂ (fun a b => b = a ∨ b = a.reverse) ints ints') :
    (Poly.mk ext ints').signedArea = (Poly.mk ext ints).signedArea := by
  rw [polygonArea_formula, polygonArea_formula]
  simp only [holes_abs_eq h]

/-- [T] `polygonArea_sign`: when the holes do not outweigh the exterior, `signed_area` is positive
exactly when the exterior's shoelace area is positive (counter-clockwise), negative exactly when
it is negative. -/
theorem polygonArea_sign (p : Poly)
    (hw : sumRat (p.ints.map (fun h => rabs (ringArea h))) < rabs (ringArea p.ext)) :
    (0 < p.signedArea ↔ 0 < ringArea p.ext) ∧ (p.signedArea < 0 ↔ ringArea p.ext < 0) := by
  rw [polygonArea_formula]
  have hS : 0 ≤ sumRat (p.ints.map (fun h => rabs (ringArea h))) := by
    generalize p.ints = l
    induction l with
    | nil => simp [sumRat]
    | cons a t ih => simp only [List.map_cons, sumRat]; have := rabs_nonneg (ringArea a); linarith
  by_cases hn : ringArea p.ext < 0
  · rw [if_pos hn]
    constructor <;> constructor <;> intro h <;> linarith
  · rw [if_neg hn]
    have h0 : rabs (ringArea p.ext) = ringArea p.ext := rabs_of_nonneg (by linarith)
    have hs := rabs_nonneg (ringArea p.ext)
    constructor <;> constructor <;> intro h <;> linarith

example : 0 < (Poly.mk [⟨0, 0⟩, ⟨4, 0⟩, ⟨4, 4⟩, ⟨0, 4⟩, ⟨0, 0⟩] [[⟨1, 1⟩, ⟨1, 2⟩, ⟨2, 2⟩, ⟨1, 1⟩]]).signedArea := by
  norm_num [Poly.signedArea, ringArea, twiceSignedRingArea, shiftedDets, det, rabs]

/-- [T] `unsigned_area` of a polygon is the absolute value of `signed_area`, hence non-negative. -/
theorem polygon_unsigned_eq_abs (p : Poly) : p.unsignedArea = rabs p.signedArea ∧ 0 ≤ p.unsignedArea :=
  ⟨rfl, rabs_nonneg _⟩

/-- [T] closed form of `unsigned_area`: `| |exterior| − Σ|holes| |` — it depends on each ring only
through the magnitude of its area. -/
theorem polygon_unsigned_formula (p : Poly) :
    p.unsignedArea =
      rabs (rabs (ringArea p.ext) - sumRat (p.ints.map (fun h => rabs (ringArea h)))) := by
  unfold Poly.unsignedArea
  rw [polygonArea_formula]
  split
  · rw [show ∀ x : Rat, (-1) * x = -x from fun x => by ring, rabs_neg]
  · rw [one_mul]

/-! ### Rect and Triangle against their polygon form -/

private theorem noHoles_signed (ext : List Pt) : (Poly.mk ext []).signedArea = ringArea ext := by
  rw [polygonArea_formula]
  simp only [List.map_nil, sumRat]
  by_cases h : ringArea ext < 0
  · rw [if_pos h, rabs_of_neg h]; ring
  · rw [if_neg h, rabs_of_nonneg (by linarith)]; ring

/-- [T] `Rect` area (`width * height`, signed and unsigned) equals the signed area of
`to_polygon()`, for every pair of corners. -/
theorem rect_eq_polygon_form (mn mx : Pt) :
    signedArea (.rect mn mx) = (rectToPoly mn mx).signedArea ∧
    unsignedArea (.rect mn mx) = (rectToPoly mn mx).signedArea := by
  have h : (rectToPoly mn mx).signedArea = rectArea mn mx := by
    rw [rectToPoly, noHoles_signed, ringArea, twice_closed _ (by rfl)]
    simp only [shoelace2, det, rectArea]; ring
  simp only [signedArea, unsignedArea, h, and_self]

/-- [T] for a `Rect` as built by `Rect::new` (`min ≤ max`) the area is non-negative, so the
unsigned area of the polygon form agrees as well. -/
theorem rect_unsigned_eq_polygon_form (mn mx : Pt) (hx : mn.x ≤ mx.x) (hy : mn.y ≤ mx.y) :
    unsignedArea (.rect mn mx) = (rectToPoly mn mx).unsignedArea := by
  have h := (rect_eq_polygon_form mn mx).2
  have hs := (rect_eq_polygon_form mn mx).1
  rw [Poly.unsignedArea, ← h, rabs_of_nonneg]
  simp only [unsignedArea, rectArea]
  exact mul_nonneg (by linarith) (by linarith)

example : unsignedArea (.rect ⟨1, 2⟩ ⟨4, 7⟩) = (rectToPoly ⟨1, 2⟩ ⟨4, 7⟩).unsignedArea :=
  rect_unsigned_eq_polygon_form _ _ (by norm_num) (by norm_num)

/-- [T] `Triangle` signed and unsigned areas equal those of `to_polygon()`, for every corner
order (either orientation, degenerate triangles included). -/
theorem triangle_eq_polygon_form (a b c : Pt) :
    signedArea (.triangle a b c) = (triToPoly a b c).signedArea ∧
    unsignedArea (.triangle a b c) = (triToPoly a b c).unsignedArea := by
  have h : (triToPoly a b c).signedArea = triSignedArea a b c := by
    rw [triToPoly, noHoles_signed]
    simp [ringArea, twiceSignedRingArea, shiftedDets, triSignedArea]
  simp only [signedArea, unsignedArea, triUnsignedArea, Poly.unsignedArea, h, and_self]

/-- [T] the triangle area is the shoelace area `½·Σ det` of its corners (the shift to the first
corner introduced by the fix changes nothing exactly). -/
theorem triangle_eq_shoelace (a b c : Pt) :
    signedArea (.triangle a b c) = (det a b + det b c + det c a) / 2 := by
  simp only [signedArea, triSignedArea, det, sub_x, sub_y]; ring


/-! ### Collections are sums of their members -/

/-- [T] `MultiPolygon`: signed area is the sum of the members' signed areas, unsigned area the sum
of their unsigned areas. -/
theorem multiPolygon_additive (ps : List Poly) :
    signedArea (.multiPolygon ps) = sumRat (ps.map Poly.signedArea) ∧
    unsignedArea (.multiPolygon ps) = sumRat (ps.map Poly.unsignedArea) := by
  constructor
  · simp only [signedArea, multiPolySigned]
    rw [foldl_add_map Poly.signedArea]; ring
  · simp only [unsignedArea, multiPolyUnsigned]
    rw [foldl_add_map (fun p : Poly => rabs p.signedArea)]
    show _ = sumRat (ps.map (fun p : Poly => rabs p.signedArea)); ring

private theorem signedFold_eq (gs : List Geom) (acc : Rat) :
    signedAreaFold acc gs = acc + sumRat (gs.map signedArea) := by
  induction gs generalizing acc with
  | nil => simp [signedAreaFold, sumRat]
  | cons g t ih => simp only [signedAreaFold, ih, List.map_cons, sumRat]; ring

private theorem unsignedFold_eq (gs : List Geom) (acc : Rat) :
    unsignedAreaFold acc gs = acc + sumRat (gs.map unsignedArea) := by
  induction gs generalizing acc with
  | nil => simp [unsignedAreaFold, sumRat]
  | cons g t ih => simp only [unsignedAreaFold, ih, List.map_cons, sumRat]; ring

/-- [T] `GeometryCollection` (any nesting): signed / unsigned area is the sum over the members. -/
theorem collection_additive (gs : List Geom) :
    signedArea (.collection gs) = sumRat (gs.map signedArea) ∧
    unsignedArea (.collection gs) = sumRat (gs.map unsignedArea) := by
  constructor
  · simp only [signedArea, signedFold_eq]; ring
  · simp only [unsignedArea, unsignedFold_eq]; ring

/-- [T] appending collections adds areas (so the order and grouping of members is irrelevant). -/
theorem collection_append (gs hs : List Geom) :
    signedArea (.collection (gs ++ hs)) = signedArea (.collection gs) + signedArea (.collection hs) := by
  simp only [(collection_additive _).1, List.map_append]
  induction gs with
  | nil => simp [sumRat]
  | cons g t ih => simp only [List.map_cons, List.cons_append, sumRat, ih]; ring

mutual
/-- [T] every geometry whose `Rect`s satisfy the `Rect::new` invariant `min ≤ max` (C18) has a
non-negative unsigned area. -/
theorem unsigned_nonneg_of_rect_ordered : ∀ g : Geom, RectsOrdered g → 0 ≤ unsignedArea g
  | .point _, _ => by simp [unsignedArea]
  | .line _ _, _ => by simp [unsignedArea]
  | .lineString _, _ => by simp [unsignedArea]
  | .polygon p, _ => by simp only [unsignedArea]; exact rabs_nonneg _
  | .multiPoint _, _ => by simp [unsignedArea]
  | .multiLineString _, _ => by simp [unsignedArea]
  | .multiPolygon ps, _ => by
      rw [(multiPolygon_additive ps).2]
      have key : ∀ l : List Poly, 0 ≤ sumRat (l.map Poly.unsignedArea) := by
        intro l
        induction l with
        | nil => simp [sumRat]
        | cons p t ih =>
          simp only [List.map_cons, sumRat, Poly.unsignedArea] at ih ⊢
          have := rabs_nonneg p.signedArea; linarith
      exact key ps
  | .rect mn mx, h => by
      simp only [unsignedArea, rectArea]
      simp only [RectsOrdered] at h
      exact mul_nonneg (by linarith [h.1]) (by linarith [h.2])
  | .triangle a b c, _ => by simp only [unsignedArea, triUnsignedArea]; exact rabs_nonneg _
  | .collection gs, h => by
      simp only [unsignedArea, unsignedFold_eq]
      simp only [RectsOrdered] at h
      have := unsigned_nonneg_list gs h
      linarith
theorem unsigned_nonneg_list : ∀ gs : List Geom, RectsOrderedList gs → 0 ≤ sumRat (gs.map unsignedArea)
  | [], _ => by simp [sumRat]
  | g :: gs, h => by
      simp only [RectsOrderedList] at h
      simp only [List.map_cons, sumRat]
      have := unsigned_nonneg_of_rect_ordered g h.1
      have := unsigned_nonneg_list gs h.2
      linarith
end

/-! ### The whole geometry tree against the specification -/

mutual
/-- [T] `area_eq_spec`: for every geometry satisfying the geo-types invariants (rings closed, `Rect`
corners ordered; C18), at every nesting depth, `signed_area` / `unsigned_area` of the model (the
code's early returns, shift, folds) equal the specification built from the unshifted shoelace
formula: exterior minus holes by magnitude, signed like the exterior; Rect and Triangle through
their polygon form; collections as sums of their members. -/
theorem area_eq_spec : ∀ g : Geom, TypeInv g →
    signedArea g = specSigned g ∧ unsignedArea g = specUnsigned g
  | .point _, _ => ⟨rfl, rfl⟩
  | .line _ _, _ => ⟨rfl, rfl⟩
  | .lineString _, _ => ⟨rfl, rfl⟩
  | .multiPoint _, _ => ⟨rfl, rfl⟩
  | .multiLineString _, _ => ⟨rfl, rfl⟩
  | .polygon p, h => by
      simp only [TypeInv, PolyClosed] at h
      simp only [signedArea, unsignedArea, specSigned, specUnsigned, Poly.unsignedArea,
        polygonArea_eq_spec p h.1 h.2, and_self]
  | .multiPolygon ps, h => by
      simp only [TypeInv, PolyClosed] at h
      rw [(multiPolygon_additive ps).1, (multiPolygon_additive ps).2]
      simp only [specSigned, specUnsigned]
      constructor
      · congr 1; apply List.map_congr_left; intro p hp
        exact polygonArea_eq_spec p (h p hp).1 (h p hp).2
      · congr 1; apply List.map_congr_left; intro p hp
        simp only [Poly.unsignedArea, polygonArea_eq_spec p (h p hp).1 (h p hp).2]
  | .rect mn mx, h => by
      simp only [TypeInv] at h
      have hs := (rect_eq_polygon_form mn mx).1
      have hu := rect_unsigned_eq_polygon_form mn mx h.1 h.2
      have hp := polygonArea_eq_spec (rectToPoly mn mx) (by rfl) (by intro h hh; cases hh)
      rw [hs, hu]
      simp only [specSigned, specUnsigned, Poly.unsignedArea, hp, and_self]
  | .triangle a b c, _ => by
      have hp := polygonArea_eq_spec (triToPoly a b c) (by simp [triToPoly]) (by intro h hh; cases hh)
      rw [(triangle_eq_polygon_form a b c).1, (triangle_eq_polygon_form a b c).2]
      simp only [specSigned, specUnsigned, Poly.unsignedArea, hp, and_self]
  | .collection gs, h => by
      simp only [TypeInv] at h
      rw [(collection_additive gs).1, (collection_additive gs).2]
      simp only [specSigned, specUnsigned]
      exact area_eq_spec_list gs h
theorem area_eq_spec_list : ∀ gs : List Geom, TypeInvList gs →
    sumRat (gs.map signedArea) = specSignedList gs ∧ sumRat (gs.map unsignedArea) = specUnsignedList gs
  | [], _ => ⟨rfl, rfl⟩
  | g :: gs, h => by
      simp only [TypeInvList] at h
      have h1 := area_eq_spec g h.1
      have h2 := area_eq_spec_list gs h.2
      simp only [List.map_cons, sumRat, specSignedList, specUnsignedList, h1.1, h1.2, h2.1, h2.2, and_self]
end

example : TypeInv (.collection [.rect ⟨0, 0⟩ ⟨2, 3⟩, .collection [.triangle ⟨0, 0⟩ ⟨1, 0⟩ ⟨0, 1⟩],
    .polygon ⟨[⟨0, 0⟩, ⟨1, 0⟩, ⟨1, 1⟩, ⟨0, 0⟩], []⟩]) := by
  simp only [TypeInv, TypeInvList, PolyClosed]
  refine ⟨⟨by norm_num, by norm_num⟩, ⟨trivial, trivial⟩, ⟨by decide, by simp⟩, trivial⟩

/-! ### winding_order -/

/-- [T] `winding_order` is `CounterClockwise` exactly when the ring has at least 4 coordinates, is
closed, has a pivot triple, and the exact orientation determinant at the pivot is positive. -/
theorem windingOrder_ccw_iff (r : List Pt) :
    windingOrder r = some .ccw ↔
      4 ≤ r.length ∧ ringClosed r = true ∧
        ∃ pv p nx, pivotTriple r = some (pv, p, nx) ∧ 0 < cross pv p nx := by
  unfold windingOrder
  by_cases h1 : r.length < 4
  · simp [h1]
  by_cases h2 : ringClosed r = true
  · have hc : (r.length < 4 || !ringClosed r) = false := by simp [h1, h2]
    rw [if_neg (by simp [hc])]
    cases hp : pivotTriple r with
    | none => simp
    | some t =>
      obtain ⟨pv, p, nx⟩ := t
      simp only [orient]
      by_cases c1 : cross pv p nx > 0
      · simp [c1, h2]; omega
      · by_cases c2 : cross pv p nx < 0
        · simp [c1, c2]
        · simp [c1, c2]
  · have h2' : ringClosed r = false := by simpa using h2
    simp [h2']

/-- [T] the same for `Clockwise` with a negative determinant. -/
theorem windingOrder_cw_iff (r : List Pt) :
    windingOrder r = some .cw ↔
      4 ≤ r.length ∧ ringClosed r = true ∧
        ∃ pv p nx, pivotTriple r = some (pv, p, nx) ∧ cross pv p nx < 0 := by
  unfold windingOrder
  by_cases h1 : r.length < 4
  · simp [h1]
  by_cases h2 : ringClosed r = true
  · have hc : (r.length < 4 || !ringClosed r) = false := by simp [h1, h2]
    rw [if_neg (by simp [hc])]
    cases hp : pivotTriple r with
    | none => simp
    | some t =>
      obtain ⟨pv, p, nx⟩ := t
      simp only [orient]
      by_cases c1 : cross pv p nx > 0
      · simp [c1]; intro _ _; linarith
      · by_cases c2 : cross pv p nx < 0
        · simp [c1, c2, h2]; omega
        · simp [c1, c2]
  · have h2' : ringClosed r = false := by simpa using h2
    simp [h2']

/-- [T] `windingOrder_none_iff`: `None` exactly for rings with fewer than 4 coordinates, open
rings, rings without a pivot triple (see `pivotTriple_none_iff`: all coordinates equal), and rings
whose pivot triple is collinear. -/
theorem windingOrder_none_iff (r : List Pt) :
    windingOrder r = none ↔
      r.length < 4 ∨ ringClosed r = false ∨ pivotTriple r = none ∨
        ∃ pv p nx, pivotTriple r = some (pv, p, nx) ∧ cross pv p nx = 0 := by
  have hccw := windingOrder_ccw_iff r
  have hcw := windingOrder_cw_iff r
  constructor
  · intro hn
    by_cases h1 : r.length < 4
    · exact Or.inl h1
    by_cases h2 : ringClosed r = true
    · cases hp : pivotTriple r with
      | none => exact Or.inr (Or.inr (Or.inl rfl))
      | some t =>
        obtain ⟨pv, p, nx⟩ := t
        refine Or.inr (Or.inr (Or.inr ⟨pv, p, nx, rfl, ?_⟩))
        rcases lt_trichotomy (cross pv p nx) 0 with c | c | c
        · have := hcw.2 ⟨by omega, h2, pv, p, nx, hp, c⟩; rw [hn] at this; cases this
        · exact c
        · have := hccw.2 ⟨by omega, h2, pv, p, nx, hp, c⟩; rw [hn] at this; cases this
    · exact Or.inr (Or.inl (by simpa using h2))
  · intro h
    cases hw : windingOrder r with
    | none => rfl
    | some w =>
      exfalso
      cases w with
      | ccw =>
        obtain ⟨hl, hcl, pv, p, nx, hp, hc⟩ := hccw.1 hw
        rcases h with h | h | h | ⟨pv', p', nx', hp', hc'⟩
        · omega
        · rw [hcl] at h; cases h
        · rw [hp] at h; cases h
        · rw [hp] at hp'; cases hp'; linarith
      | cw =>
        obtain ⟨hl, hcl, pv, p, nx, hp, hc⟩ := hcw.1 hw
        rcases h with h | h | h | ⟨pv', p', nx', hp', hc'⟩
        · omega
        · rw [hcl] at h; cases h
        · rw [hp] at h; cases h
        · rw [hp] at hp'; cases hp'; linarith

example : windingOrder [⟨0, 0⟩, ⟨1, 1⟩, ⟨2, 2⟩, ⟨0, 0⟩] = none := by
  rw [windingOrder_none_iff]; right; right; right
  exact ⟨⟨2, 2⟩, ⟨0, 0⟩, ⟨1, 1⟩, by decide, by norm_num [cross]⟩

/-- [T] `pivot_spec`: the pivot is a coordinate of the ring, no coordinate is lexicographically
smaller, and its two partners are coordinates of the ring different from the pivot. -/
theorem pivot_spec (r : List Pt) (pv p nx : Pt) (h : pivotTriple r = some (pv, p, nx)) :
    p ∈ r ∧ pv ∈ r ∧ nx ∈ r ∧ pv ≠ p ∧ nx ≠ p ∧ ∀ q ∈ r, lexLt q p = false := by
  obtain ⟨i, hl, hn, hv⟩ := (pivotTriple_some_iff r pv p nx).1 h
  obtain ⟨hidx, hmin⟩ := leastIndex_spec hl
  have hnx := List.find?_some hn
  have hpv := List.find?_some hv
  have hnm := List.mem_of_find?_eq_some hn
  have hpm := (mem_cycBefore r i _).1 (List.mem_of_find?_eq_some hv)
  exact ⟨(mem_cyc hidx _).2 (Or.inl rfl), (mem_cyc hidx _).2 (Or.inr hpm),
    (mem_cyc hidx _).2 (Or.inr hnm), by simpa using hpv, by simpa using hnx, hmin⟩

/-- [T] `pivotTriple_none_iff`: there is no pivot triple exactly when the list is empty or all
its coordinates are equal ("not enough unique coords"). -/
theorem pivotTriple_none_iff (r : List Pt) :
    pivotTriple r = none ↔ r = [] ∨ ∃ p, ∀ q ∈ r, q = p := by
  constructor
  · intro h
    cases r with
    | nil => exact Or.inl rfl
    | cons a t =>
      right
      obtain ⟨i, p, hl⟩ := leastIndex_isSome (r := a :: t) (by simp)
      obtain ⟨hidx, _⟩ := leastIndex_spec hl
      refine ⟨p, ?_⟩
      intro q hq
      rcases (mem_cyc hidx q).1 hq with rfl | hq'
      · rfl
      · rcases pivotTriple_none_cases h hl with hn | hv
        · have := List.find?_eq_none.1 hn q hq'
          simpa using this
        · have := List.find?_eq_none.1 hv q ((mem_cycBefore _ i q).2 hq')
          simpa using this
  · rintro (rfl | ⟨p, hp⟩)
    · rfl
    · cases hp' : pivotTriple r with
      | none => rfl
      | some t =>
        obtain ⟨pv, p0, nx⟩ := t
        obtain ⟨hp0, hpv, _, hne, _⟩ := pivot_spec r pv p0 nx hp'
        exact absurd ((hp pv hpv).trans (hp p0 hp0).symm) hne

/-! ### Winding order against the sign of the area

Full statement: for every simple closed ring `r`,
  windingOrder r = some .ccw ↔ 0 < shoelace2 r   and   windingOrder r = some .cw ↔ shoelace2 r < 0.
It needs the global fact that the lexicographically least vertex of a simple polygon is strictly
convex, with the turn of the polygon's orientation. It is proved further down as
`windingOrder_eq_sign_area_simple` (for `ringSimple` rings, no other hypothesis); first for triangles,
where every vertex is a valid pivot, and for convex rings (fan argument). -/

private theorem triangle_pivot (a b c : Pt) (hab : a ≠ b) (hbc : b ≠ c) (hca : c ≠ a) :
    ∃ pv p nx, pivotTriple [a, b, c, a] = some (pv, p, nx) ∧
      cross pv p nx = shoelace2 [a, b, c, a] := by
  obtain ⟨i, p, hl⟩ := leastIndex_isSome (r := [a, b, c, a]) (by simp)
  obtain ⟨hidx, hmin⟩ := leastIndex_spec hl
  have hp : p ∈ [a, b, c, a] := List.mem_of_getElem? hidx
  simp only [List.mem_cons, List.not_mem_nil, or_false] at hp
  have hsh : shoelace2 [a, b, c, a] = det a b + det b c + det c a := by
    simp only [shoelace2]; ring
  rcases hp with rfl | rfl | rfl | rfl
  · refine ⟨c, p, b, ?_, ?_⟩
    · have := pivotTriple_shape1 [b, c] p (by simp [hab, hca.symm]) hmin
      simpa [tripleOf] using this
    · rw [hsh]; simp only [cross, det]; ring
  · refine ⟨a, p, c, ?_, ?_⟩
    · have := pivotTriple_shape2 [a] [c, a] p (by simp [hab.symm]) (by simp [hbc, hab.symm]) hmin
      simpa [tripleOf] using this
    · rw [hsh]; simp only [cross, det]; ring
  · refine ⟨b, p, a, ?_, ?_⟩
    · have := pivotTriple_shape2 [a, b] [a] p (by simp [hca, hbc.symm]) (by simp [hca]) hmin
      simpa [tripleOf] using this
    · rw [hsh]; simp only [cross, det]; ring
  · refine ⟨c, p, b, ?_, ?_⟩
    · have := pivotTriple_shape1 [b, c] p (by simp [hab, hca.symm]) hmin
      simpa [tripleOf] using this
    · rw [hsh]; simp only [cross, det]; ring

/-- [Tp] `windingOrder_eq_sign_area` for triangles (closed rings of three distinct points): the
winding order is counter-clockwise exactly when the exact shoelace area is positive, clockwise
exactly when it is negative, `None` exactly when it is zero. -/
theorem windingOrder_eq_sign_area_triangle_partial (a b c : Pt)
    (hab : a ≠ b) (hbc : b ≠ c) (hca : c ≠ a) :
    (windingOrder [a, b, c, a] = some .ccw ↔ 0 < shoelace2 [a, b, c, a]) ∧
    (windingOrder [a, b, c, a] = some .cw ↔ shoelace2 [a, b, c, a] < 0) ∧
    (windingOrder [a, b, c, a] = none ↔ shoelace2 [a, b, c, a] = 0) := by
  obtain ⟨pv, p, nx, hp, hc⟩ := triangle_pivot a b c hab hbc hca
  have hcl : ringClosed [a, b, c, a] = true := by simp [ringClosed]
  refine ⟨?_, ?_, ?_⟩
  · rw [windingOrder_ccw_iff]
    constructor
    · rintro ⟨_, _, pv', p', nx', hp', hc'⟩
      rw [hp] at hp'; cases hp'; rw [← hc]; exact hc'
    · intro h; exact ⟨by simp, hcl, pv, p, nx, hp, by rw [hc]; exact h⟩
  · rw [windingOrder_cw_iff]
    constructor
    · rintro ⟨_, _, pv', p', nx', hp', hc'⟩
      rw [hp] at hp'; cases hp'; rw [← hc]; exact hc'
    · intro h; exact ⟨by simp, hcl, pv, p, nx, hp, by rw [hc]; exact h⟩
  · rw [windingOrder_none_iff]
    constructor
    · rintro (h | h | h | ⟨pv', p', nx', hp', hc'⟩)
      · simp at h
      · rw [hcl] at h; cases h
      · rw [hp] at h; cases h
      · rw [hp] at hp'; cases hp'; rw [← hc]; exact hc'
    · intro h; exact Or.inr (Or.inr (Or.inr ⟨pv, p, nx, hp, by rw [hc]; exact h⟩))

example : windingOrder [⟨5, 1⟩, ⟨0, 0⟩, ⟨2, 7⟩, ⟨5, 1⟩] = some .cw := by
  rw [(windingOrder_eq_sign_area_triangle_partial ⟨5, 1⟩ ⟨0, 0⟩ ⟨2, 7⟩
    (by simp) (by simp) (by simp)).2.1]
  norm_num [shoelace2, det]

/-! ### Winding order against the sign of the area: convex rings

`convexRing r` (GeoProofs/Lemmas/C05PConvex.lean): every coordinate of the ring lies on one closed side
of every edge line, the same side for all edges — the half-plane definition of a convex polygon, in
non-strict form, so repeated coordinates, collinear vertices, flat and short rings are all admitted.

Why not "all consecutive turns have the same strict sign": that local condition also holds for star
polygons (a pentagram turns left at every vertex, total turning 4π), and for those the fan
triangles from the pivot do *not* all have the same orientation (`pentagram_fan_counterexample`
below), so the fan argument does not go through; the half-plane condition is what "convex" means
and is what the proof uses. Statement kept for reference, not proved ([S]):
  (∀ consecutive triples (a, b, c) of r, cyclically, 0 < cross a b c) →
     (windingOrder r = some .ccw ↔ 0 < twiceSignedRingArea r)
(true also for star polygons, but it needs a winding-number argument, not a fan).

Proof: `shoelace2 r = Σ_{(a,b) edge} cross s a b` for *every* apex `s` (the fan decomposition is the
shift invariance read with `det (a-s) (b-s) = cross s a b`). With `s` a vertex of a convex ring all
terms have the sign of the ring. The pivot triple `(pv, p, nx)` of `winding_order` consists of two
edges `(pv, p)`, `(p, nx)` of the ring (after skipping copies of `p`); its determinant is the fan
term of the edge `(p, nx)` seen from `pv`, so it has the sign of the ring and, when non-zero, makes
the sum non-zero; when it is zero, `pv`, `nx` lie on one ray from the lexicographically least point
`p`, the two half-plane conditions squeeze every coordinate onto that ray's line, and the area is
zero. -/

private theorem mem_of_mem_edges {r : List Pt} {e : Pt × Pt} (h : e ∈ edges r) : e.1 ∈ r ∧ e.2 ∈ r := by
  obtain ⟨a, b⟩ := e
  have := List.of_mem_zip h
  exact ⟨this.1, List.mem_of_mem_tail this.2⟩

private theorem convex_sign_core {σ : Rat} (hσ : σ * σ = 1) {r : List Pt}
    (hc : r.head? = r.getLast?) (hcv : convexSgn σ r) {pv p nx : Pt}
    (hp : pivotTriple r = some (pv, p, nx)) :
    0 ≤ σ * cross pv p nx ∧ (0 < σ * cross pv p nx → 0 < σ * shoelace2 r) ∧
      (cross pv p nx = 0 → shoelace2 r = 0) := by
  obtain ⟨i, hl, hn, hv⟩ := (pivotTriple_some_iff r pv p nx).1 hp
  obtain ⟨hidx, _⟩ := leastIndex_spec hl
  obtain ⟨_, hpvm, _, hpvne, hnxne, hmin⟩ := pivot_spec r pv p nx hp
  have e1 := pivot_next_edge hc hidx hn
  have e2 := pivot_prev_edge hc hidx hv
  refine ⟨?_, ?_, ?_⟩
  · have := hcv _ e1 pv hpvm
    simp only at this
    rwa [cross_cyc] at this
  · intro hpos
    exact convex_area_pos hc hcv e1 hpvm hpos
  · intro hz
    have hline : ∀ q ∈ r, cross p nx q = 0 := fun q hq =>
      collinear_pivot_zero hσ hz (hmin pv hpvm) (hmin nx (mem_of_mem_edges e1).2) hpvne hnxne
        (hcv _ e1 q hq) (hcv _ e2 q hq)
    rw [shoelace2_eq_fan p r hc]
    apply sumRat_map_zero
    intro e he
    obtain ⟨ha, hb⟩ := mem_of_mem_edges he
    exact cross_zero_of_collinear hnxne (hline _ ha) (hline _ hb)

private theorem shoelace2_short (r : List Pt) (hc : r.head? = r.getLast?) (hl : r.length < 4) :
    shoelace2 r = 0 := by
  match r, hc, hl with
  | [], _, _ => rfl
  | [a], _, _ => rfl
  | [a, b], hc, _ =>
    have : a = b := by simpa using hc
    subst this
    simp only [shoelace2, det_self]; ring
  | [a, b, c], hc, _ =>
    have : a = c := by simpa using hc
    subst this
    simp only [shoelace2, det_swap a b]; ring
  | _ :: _ :: _ :: _ :: _, _, hl => simp at hl; omega

/-- [T] `windingOrder_eq_sign_area_convex`: for every convex ring (no further hypothesis: open,
short, flat rings, repeated coordinates and collinear vertices included) `winding_order` is the
sign of the exact area computed by `twice_signed_ring_area`: counter-clockwise iff positive,
clockwise iff negative, `None` iff zero. This is the convex case of the full statement
`windingOrder_eq_sign_area_simple` (all simple rings, proved below); it also covers convex rings
that are not simple (flat, short, open). -/
theorem windingOrder_eq_sign_area_convex (r : List Pt) (hcv : convexRing r) :
    (windingOrder r = some .ccw ↔ 0 < twiceSignedRingArea r) ∧
    (windingOrder r = some .cw ↔ twiceSignedRingArea r < 0) ∧
    (windingOrder r = none ↔ twiceSignedRingArea r = 0) := by
  by_cases hc : r.head? = r.getLast?
  swap
  · have hcl : ringClosed r = false := by simp [ringClosed, hc]
    have hn : windingOrder r = none := (windingOrder_none_iff r).2 (Or.inr (Or.inl hcl))
    rw [twice_open r hc, hn]; simp
  have hcl : ringClosed r = true := by simp [ringClosed, hc]
  rw [twice_closed r hc]
  by_cases hlen : r.length < 4
  · have hn : windingOrder r = none := (windingOrder_none_iff r).2 (Or.inl hlen)
    rw [shoelace2_short r hc hlen, hn]; simp
  cases hp : pivotTriple r with
  | none =>
    have hn : windingOrder r = none := (windingOrder_none_iff r).2 (Or.inr (Or.inr (Or.inl hp)))
    have hz : shoelace2 r = 0 := by
      rcases (pivotTriple_none_iff r).1 hp with rfl | ⟨p, hall⟩
      · rfl
      · rw [shoelace2_eq_fan p r hc]
        apply sumRat_map_zero
        intro e he
        obtain ⟨ha, hb⟩ := mem_of_mem_edges he
        rw [hall _ ha, hall _ hb]; simp only [cross]; ring
    rw [hz, hn]; simp
  | some t =>
    obtain ⟨pv, p, nx⟩ := t
    have hccw : windingOrder r = some .ccw ↔ 0 < cross pv p nx := by
      rw [windingOrder_ccw_iff]
      constructor
      · rintro ⟨_, _, pv', p', nx', hp', hc'⟩
        rw [hp] at hp'; cases hp'; exact hc'
      · intro h; exact ⟨by omega, hcl, pv, p, nx, hp, h⟩
    have hcw : windingOrder r = some .cw ↔ cross pv p nx < 0 := by
      rw [windingOrder_cw_iff]
      constructor
      · rintro ⟨_, _, pv', p', nx', hp', hc'⟩
        rw [hp] at hp'; cases hp'; exact hc'
      · intro h; exact ⟨by omega, hcl, pv, p, nx, hp, h⟩
    have hnone : windingOrder r = none ↔ cross pv p nx = 0 := by
      rw [windingOrder_none_iff]
      constructor
      · rintro (h | h | h | ⟨pv', p', nx', hp', hc'⟩)
        · exact absurd h hlen
        · rw [hcl] at h; cases h
        · rw [hp] at h; cases h
        · rw [hp] at hp'; cases hp'; exact hc'
      · intro h; exact Or.inr (Or.inr (Or.inr ⟨pv, p, nx, hp, h⟩))
    rw [hccw, hcw, hnone]
    rcases hcv with hcv | hcv
    · obtain ⟨h0, hpos, hzero⟩ := convex_sign_core (σ := 1) (by ring) hc ((convexCcw_iff r).1 hcv) hp
      simp only [one_mul] at h0 hpos
      rcases lt_or_eq_of_le h0 with h | h
      · have := hpos h
        exact ⟨⟨fun _ => this, fun _ => h⟩, ⟨fun h' => by linarith, fun h' => by linarith⟩,
          ⟨fun h' => by linarith, fun h' => by linarith⟩⟩
      · have := hzero h.symm
        rw [this, ← h]; simp
    · obtain ⟨h0, hpos, hzero⟩ := convex_sign_core (σ := -1) (by ring) hc ((convexCw_iff r).1 hcv) hp
      simp only [neg_mul, one_mul] at h0 hpos
      rcases lt_or_eq_of_le h0 with h | h
      · have := hpos h
        exact ⟨⟨fun h' => by linarith, fun h' => by linarith⟩, ⟨fun _ => by linarith, fun _ => by linarith⟩,
          ⟨fun h' => by linarith, fun h' => by linarith⟩⟩
      · have hz : cross pv p nx = 0 := by linarith
        have := hzero hz
        rw [this, hz]; simp

/-- a convex quadrilateral given clockwise, start vertex not the least one, with a repeated
coordinate and a collinear vertex -/
example : windingOrder [⟨4, 0⟩, ⟨2, 0⟩, ⟨0, 0⟩, ⟨0, 0⟩, ⟨0, 3⟩, ⟨4, 3⟩, ⟨4, 0⟩] = some .cw := by
  have hcv : convexRing [⟨4, 0⟩, ⟨2, 0⟩, ⟨0, 0⟩, ⟨0, 0⟩, ⟨0, 3⟩, ⟨4, 3⟩, ⟨4, 0⟩] := by
    right
    intro e he q hq
    simp only [edges, List.tail_cons, List.zip_cons_cons, List.zip_nil_right, List.mem_cons,
      List.not_mem_nil, or_false] at he hq
    rcases he with rfl | rfl | rfl | rfl | rfl | rfl <;>
      rcases hq with rfl | rfl | rfl | rfl | rfl | rfl | rfl <;> norm_num [cross]
  rw [(windingOrder_eq_sign_area_convex _ hcv).2.1, twice_eq_shoelace _ (by decide)]
  norm_num [shoelace2, det]

/-- Why `convexRing` is not "all turns have the same sign": in the pentagram below every turn is a
strict left turn, yet the fan triangle `(p, v₃, v₄)` from its lexicographically least vertex
`p = (-10, 3)` is clockwise. (Its winding order and area are nevertheless both positive.) -/
theorem pentagram_fan_counterexample :
    let v0 : Pt := ⟨0, 10⟩; let v1 : Pt := ⟨-6, -8⟩; let v2 : Pt := ⟨10, 3⟩
    let v3 : Pt := ⟨-10, 3⟩; let v4 : Pt := ⟨6, -8⟩
    (0 < cross v0 v1 v2 ∧ 0 < cross v1 v2 v3 ∧ 0 < cross v2 v3 v4 ∧ 0 < cross v3 v4 v0 ∧
      0 < cross v4 v0 v1) ∧ cross v3 v0 v1 < 0 ∧
      windingOrder [v0, v1, v2, v3, v4, v0] = some .ccw ∧ 0 < twiceSignedRingArea [v0, v1, v2, v3, v4, v0] ∧
      ¬ convexRing [v0, v1, v2, v3, v4, v0] := by
  intro v0 v1 v2 v3 v4
  refine ⟨by norm_num [cross, v0, v1, v2, v3, v4], by norm_num [cross, v0, v1, v3], by decide +kernel, ?_, ?_⟩
  · rw [twice_eq_shoelace _ (by decide)]
    norm_num [shoelace2, det, v0, v1, v2, v3, v4]
  · rintro (h | h)
    · have := h (v0, v1) (by simp [edges]) v3 (by simp)
      norm_num [cross, v0, v1, v3] at this
    · have := h (v0, v1) (by simp [edges]) v2 (by simp)
      norm_num [cross, v0, v1, v2] at this

/-! ### orient -/

private theorem toWinding_cases (w : WO) (r : List Pt) : toWinding w r = r ∨ toWinding w r = r.reverse := by
  cases w <;> simp only [toWinding, makeCw, makeCcw] <;> split <;> simp

private theorem closed_reverse {r : List Pt} (h : SM.isClosed r = true) : SM.isClosed r.reverse = true := by
  simp only [SM.isClosed, decide_eq_true_eq] at h ⊢
  rw [List.head?_reverse, List.getLast?_reverse, h]

private theorem close_toWinding (w : WO) (r : List Pt) (h : SM.isClosed r = true) :
    SM.close (toWinding w r) = r ∨ SM.close (toWinding w r) = r.reverse := by
  rcases toWinding_cases w r with e | e <;> rw [e]
  · left; simp [SM.close, h]
  · right; simp [SM.close, closed_reverse h]

/-- [T] `orient_rings`: for a polygon (rings closed, C18) `orient` returns the same rings in the
same positions, each either untouched or reversed — no coordinate is added, dropped or moved
between rings. -/
theorem orient_rings (d : Direction) (p : Poly) (he : SM.isClosed p.ext = true)
    (hi : ∀ h ∈ p.ints, SM.isClosed h = true) :
    ((orientPoly d p).ext = p.ext ∨ (orientPoly d p).ext = p.ext.reverse) ∧
      List.Forall₂ (fun a b => b = a ∨ b = a.reverse) p.ints (orientPoly d p).ints := by
  refine ⟨close_toWinding _ _ he, ?_⟩
  simp only [orientPoly, List.map_map]
  generalize p.ints = l at hi
  induction l with
  | nil => exact List.Forall₂.nil
  | cons a t ih =>
    refine List.Forall₂.cons ?_ (ih (fun h hh => hi h (List.mem_cons_of_mem _ hh)))
    exact close_toWinding _ _ (hi a (List.mem_cons_self))

private theorem close_closed' (r : List Pt) : SM.isClosed (SM.close r) = true := by
  unfold SM.close
  split
  · assumption
  · cases r with
    | nil => simp [SM.isClosed]
    | cons a t =>
      have : (a :: (t ++ [a])).getLast? = some a := by
        rw [← List.cons_append]; exact List.getLast?_concat
      simp [SM.isClosed, this]

/-- [T] `orient_closed`: every ring of the result is closed, for every input. -/
theorem orient_closed (d : Direction) (p : Poly) :
    SM.isClosed (orientPoly d p).ext = true ∧ ∀ h ∈ (orientPoly d p).ints, SM.isClosed h = true := by
  refine ⟨close_closed' _, ?_⟩
  intro h hh
  simp only [orientPoly, List.mem_map] at hh
  obtain ⟨a, _, rfl⟩ := hh
  exact close_closed' _

/-- [T] `orient_area`: orienting changes at most the sign of the area: the unsigned area of the
result equals that of the input. -/
theorem orient_area (d : Direction) (p : Poly) (he : SM.isClosed p.ext = true)
    (hi : ∀ h ∈ p.ints, SM.isClosed h = true) :
    (orientPoly d p).unsignedArea = p.unsignedArea := by
  obtain ⟨hext, hints⟩ := orient_rings d p he hi
  rw [polygon_unsigned_formula, polygon_unsigned_formula, holes_abs_eq hints]
  rcases hext with e | e <;> rw [e]
  simp only [ringArea, ringArea_reverse, neg_div, rabs_neg]

example : (orientPoly .default ⟨[⟨0, 0⟩, ⟨0, 4⟩, ⟨4, 4⟩, ⟨4, 0⟩, ⟨0, 0⟩], []⟩).unsignedArea =
    (Poly.mk [⟨0, 0⟩, ⟨0, 4⟩, ⟨4, 4⟩, ⟨4, 0⟩, ⟨0, 0⟩] []).unsignedArea :=
  orient_area _ _ (by decide) (by decide)

/-! ### Reversal, and the winding of what `orient` returns

The full statements (for *every* ring) are false: `winding_order` looks at one occurrence of the
lexicographically least point only, and a ring that passes through that point twice (pinched,
non-simple) can have the same winding reported for it and for its reverse, so `make_ccw_winding`
need not produce a ring whose `winding_order` is not `Clockwise`. Such rings are outside the
property's domain ("simple closed rings"); the hypothesis `PivotOnce` (the least point occurs once,
or only as first and closing coordinate) is what the proofs need.

Full statements kept for reference:
  windingOrder_reverse : windingOrder r.reverse = (windingOrder r).map WO.flip
  orient_post          : windingOrder (orientPoly d p).ext ≠ some d.extW.flip ∧ (holes likewise)
  orient_idem          : orientPoly d (orientPoly d p) = orientPoly d p
-/

/-- [Tp] reversing a ring flips `winding_order` (and keeps `None`). -/
theorem windingOrder_reverse_partial (r : List Pt) (h : PivotOnce r) :
    windingOrder r.reverse = (windingOrder r).map WO.flip := windingOrder_reverse' h

example : PivotOnce [⟨1, 0⟩, ⟨2, 2⟩, ⟨0, 1⟩, ⟨1, 0⟩] :=
  ⟨⟨0, 1⟩, by
    intro q hq
    simp only [List.mem_cons, List.not_mem_nil, or_false] at hq
    rcases hq with rfl | rfl | rfl | rfl <;> simp [lexLt],
   Or.inl ⟨[⟨1, 0⟩, ⟨2, 2⟩], [⟨1, 0⟩], rfl, by simp, by simp⟩⟩

private theorem toWinding_not_flip' {w : WO} {r : List Pt}
    (h : windingOrder r.reverse = (windingOrder r).map WO.flip) :
    windingOrder (toWinding w r) ≠ some (WO.flip w) := by
  cases w
  · -- want cw: result must not be ccw
    simp only [toWinding, makeCw, WO.flip]
    split
    · rename_i hw
      rw [h, hw]; simp [WO.flip]
    · assumption
  · simp only [toWinding, makeCcw, WO.flip]
    split
    · rename_i hw
      rw [h, hw]; simp [WO.flip]
    · assumption

private theorem toWinding_not_flip {w : WO} {r : List Pt} (h : PivotOnce r) :
    windingOrder (toWinding w r) ≠ some (WO.flip w) := toWinding_not_flip' (windingOrder_reverse' h)

private theorem toWinding_of_not_flip {w : WO} {r : List Pt} (h : windingOrder r ≠ some (WO.flip w)) :
    toWinding w r = r := by
  cases w <;> simp only [toWinding, makeCw, makeCcw, WO.flip] at h ⊢ <;> rw [if_neg h]

private theorem close_toWinding_eq (w : WO) (r : List Pt) (h : SM.isClosed r = true) :
    SM.close (toWinding w r) = toWinding w r := by
  rcases toWinding_cases w r with e | e <;> rw [e]
  · simp [SM.close, h]
  · simp [SM.close, closed_reverse h]

/-- what `orient_post` and `orient_idem` need of each ring: reversal flips its winding order -/
private theorem orient_post_of_rev (d : Direction) (p : Poly) (he : SM.isClosed p.ext = true)
    (hi : ∀ h ∈ p.ints, SM.isClosed h = true)
    (pe : windingOrder p.ext.reverse = (windingOrder p.ext).map WO.flip)
    (pi : ∀ h ∈ p.ints, windingOrder h.reverse = (windingOrder h).map WO.flip) :
    windingOrder (orientPoly d p).ext ≠ some (WO.flip d.extW) ∧
      ∀ h ∈ (orientPoly d p).ints, windingOrder h ≠ some (WO.flip d.intW) := by
  constructor
  · show windingOrder (SM.close (toWinding d.extW p.ext)) ≠ _
    rw [close_toWinding_eq _ _ he]; exact toWinding_not_flip' pe
  · intro h hh
    simp only [orientPoly, List.map_map, List.mem_map, Function.comp] at hh
    obtain ⟨a, ha, rfl⟩ := hh
    rw [close_toWinding_eq _ _ (hi a ha)]; exact toWinding_not_flip' (pi a ha)

private theorem orient_idem_of_rev (d : Direction) (p : Poly) (he : SM.isClosed p.ext = true)
    (hi : ∀ h ∈ p.ints, SM.isClosed h = true)
    (pe : windingOrder p.ext.reverse = (windingOrder p.ext).map WO.flip)
    (pi : ∀ h ∈ p.ints, windingOrder h.reverse = (windingOrder h).map WO.flip) :
    orientPoly d (orientPoly d p) = orientPoly d p := by
  have hstep : ∀ (w : WO) (r : List Pt), SM.isClosed r = true →
      windingOrder r.reverse = (windingOrder r).map WO.flip →
      SM.close (toWinding w (SM.close (toWinding w r))) = SM.close (toWinding w r) := by
    intro w r hc hp
    rw [close_toWinding_eq w r hc, toWinding_of_not_flip (toWinding_not_flip' hp)]
    exact close_toWinding_eq w r hc
  show Poly.mk _ _ = Poly.mk _ _
  congr 1
  · exact hstep _ _ he pe
  · simp only [orientPoly, List.map_map]
    apply List.map_congr_left
    intro a ha
    exact hstep _ _ (hi a ha) (pi a ha)

/-- [Tp] `orient_post`: the exterior of the result does not have the winding opposite to the
requested one, and no hole has the winding opposite to the one requested for holes. -/
theorem orient_post_partial (d : Direction) (p : Poly) (he : SM.isClosed p.ext = true)
    (hi : ∀ h ∈ p.ints, SM.isClosed h = true) (pe : PivotOnce p.ext) (pi : ∀ h ∈ p.ints, PivotOnce h) :
    windingOrder (orientPoly d p).ext ≠ some (WO.flip d.extW) ∧
      ∀ h ∈ (orientPoly d p).ints, windingOrder h ≠ some (WO.flip d.intW) := by
  constructor
  · show windingOrder (SM.close (toWinding d.extW p.ext)) ≠ _
    rw [close_toWinding_eq _ _ he]; exact toWinding_not_flip pe
  · intro h hh
    simp only [orientPoly, List.map_map, List.mem_map, Function.comp] at hh
    obtain ⟨a, ha, rfl⟩ := hh
    rw [close_toWinding_eq _ _ (hi a ha)]; exact toWinding_not_flip (pi a ha)

/-- [Tp] `orient` is idempotent. -/
theorem orient_idem_partial (d : Direction) (p : Poly) (he : SM.isClosed p.ext = true)
    (hi : ∀ h ∈ p.ints, SM.isClosed h = true) (pe : PivotOnce p.ext) (pi : ∀ h ∈ p.ints, PivotOnce h) :
    orientPoly d (orientPoly d p) = orientPoly d p := by
  have hstep : ∀ (w : WO) (r : List Pt), SM.isClosed r = true → PivotOnce r →
      SM.close (toWinding w (SM.close (toWinding w r))) = SM.close (toWinding w r) := by
    intro w r hc hp
    rw [close_toWinding_eq w r hc, toWinding_of_not_flip (toWinding_not_flip hp)]
    exact close_toWinding_eq w r hc
  show Poly.mk _ _ = Poly.mk _ _
  congr 1
  · exact hstep _ _ he pe
  · simp only [orientPoly, List.map_map]
    apply List.map_congr_left
    intro a ha
    exact hstep _ _ (hi a ha) (pi a ha)

/-! ### Start vertex of a ring

Full statement (false in general, for the same reason as reversal: a ring that passes through its
least point twice has two candidate pivots and `least_index` takes the first in list order, which
depends on the start vertex — see the pinched ring below):
  windingOrder_rotate : r.head? = r.getLast? → windingOrder (rotate1 r) = windingOrder r -/

/-- [Tp] `windingOrder_rotate`: moving the start vertex of a closed ring by any number of steps
does not change `winding_order`, when the least point is visited once (`PivotOnce`; preserved by
rotation, as is closedness). -/
theorem windingOrder_rotate_partial (k : Nat) (r : List Pt) (hc : r.head? = r.getLast?)
    (h : PivotOnce r) :
    windingOrder (rotateN k r) = windingOrder r ∧ PivotOnce (rotateN k r) ∧
      (rotateN k r).head? = (rotateN k r).getLast? := windingOrder_rotateN k hc h

example : rotateN 2 [⟨1, 0⟩, ⟨2, 2⟩, ⟨0, 1⟩, ⟨1, 0⟩] = [⟨0, 1⟩, ⟨1, 0⟩, ⟨2, 2⟩, ⟨0, 1⟩] := by decide

/-- witness that `PivotOnce` cannot be dropped: a ring pinched at its least point `(0,0)`, one lobe
counter-clockwise, the other clockwise; the reported winding depends on the start vertex -/
theorem windingOrder_rotate_pinched_witness :
    let r : List Pt := [⟨0, 0⟩, ⟨2, 1⟩, ⟨2, 2⟩, ⟨0, 0⟩, ⟨1, 3⟩, ⟨2, 3⟩, ⟨0, 0⟩]
    windingOrder r = some .ccw ∧ windingOrder (rotate1 r) = some .cw := by
  decide +kernel

/-! ### Simple rings: `PivotOnce`, reversal, start vertex and `orient` without extra hypothesis

`ringSimple` (GeoModel/Valid.lean) is the domain of the property ("all simple closed rings"): closed, at least
three distinct vertices after merging repeated consecutive coordinates, edges meet only in the common vertex of
consecutive ones. On that domain the hypothesis `PivotOnce` of the `_partial` theorems above is discharged: the
merged ring visits every point once (GeoProofs/Lemmas/SMLXSimple.lean), so every point has one predecessor and
one successor along the ring, and the pivot triple of `winding_order` — the least point with the two ring edges
at it — is the same for every start vertex and is swapped by reversal (GeoProofs/Lemmas/SMLXPivot.lean).
Repeated consecutive coordinates (for which `PivotOnce r` itself is false when the repeated point is the least
one) are covered. -/

/-- [T] `ringSimple r → PivotOnce (merged r)`: after merging repeated consecutive coordinates a simple ring
visits its lexicographically least point once. -/
theorem pivotOnce_of_simple (r : List Pt) (h : ringSimple r = true) : PivotOnce (dedupConsecutive r) :=
  Geo.Proofs.SMLX.pivotOnce_dedup_of_simple h

/-- [T] `ringSimple r → PivotOnce r` for a ring without repeated consecutive coordinates. (With a repeated
least point, e.g. `[p, p, a, b, p]`, `PivotOnce r` is false although the ring is simple; the theorems below do
not need it.) -/
theorem pivotOnce_of_simple_norepeat (r : List Pt) (h : ringSimple r = true)
    (hd : dedupConsecutive r = r) : PivotOnce r := by
  have := pivotOnce_of_simple r h
  rwa [hd] at this

example : PivotOnce [⟨1, 0⟩, ⟨2, 2⟩, ⟨0, 1⟩, ⟨1, 0⟩] :=
  pivotOnce_of_simple_norepeat _ (by decide +kernel) (by decide +kernel)

/-- [T] `windingOrder_reverse` for simple rings (the full statement of `windingOrder_reverse_partial` on the
property's domain): reversing a simple ring flips `winding_order`. -/
theorem windingOrder_reverse_simple (r : List Pt) (h : ringSimple r = true) :
    windingOrder r.reverse = (windingOrder r).map WO.flip :=
  Geo.Proofs.SMLX.windingOrder_reverse_simple h

/-- a simple ring whose least point is repeated (`PivotOnce` fails for it) -/
example : windingOrder ([⟨0, 0⟩, ⟨0, 0⟩, ⟨3, 1⟩, ⟨1, 3⟩, ⟨0, 0⟩] : List Pt).reverse =
    (windingOrder [⟨0, 0⟩, ⟨0, 0⟩, ⟨3, 1⟩, ⟨1, 3⟩, ⟨0, 0⟩]).map WO.flip :=
  windingOrder_reverse_simple _ (by decide +kernel)

/-- [T] `windingOrder_rotate` for simple rings (the full statement of `windingOrder_rotate_partial` on the
property's domain): moving the start vertex of a simple ring by any number of steps does not change
`winding_order`. -/
theorem windingOrder_rotate_simple (k : Nat) (r : List Pt) (h : ringSimple r = true) :
    windingOrder (rotateN k r) = windingOrder r :=
  Geo.Proofs.SMLX.windingOrder_rotateN_simple k h

example : windingOrder (rotateN 3 [⟨0, 0⟩, ⟨0, 0⟩, ⟨3, 1⟩, ⟨1, 3⟩, ⟨0, 0⟩]) =
    windingOrder [⟨0, 0⟩, ⟨0, 0⟩, ⟨3, 1⟩, ⟨1, 3⟩, ⟨0, 0⟩] :=
  windingOrder_rotate_simple 3 _ (by decide +kernel)

/-- [T] `orient_post` for polygons whose rings are simple (the full statement of `orient_post_partial` on the
property's domain; see `orient_exact_simple` below for the sharper form "equals the requested winding"). -/
theorem orient_post_simple (d : Direction) (p : Poly) (he : ringSimple p.ext = true)
    (hi : ∀ h ∈ p.ints, ringSimple h = true) :
    windingOrder (orientPoly d p).ext ≠ some (WO.flip d.extW) ∧
      ∀ h ∈ (orientPoly d p).ints, windingOrder h ≠ some (WO.flip d.intW) :=
  orient_post_of_rev d p (by simp [SM.isClosed, Geo.Proofs.C12.closed_of_simple he])
    (fun h hh => by simp [SM.isClosed, Geo.Proofs.C12.closed_of_simple (hi h hh)])
    (windingOrder_reverse_simple _ he) (fun h hh => windingOrder_reverse_simple _ (hi h hh))

example : windingOrder (orientPoly .reversed
      ⟨[⟨0, 0⟩, ⟨0, 0⟩, ⟨0, 9⟩, ⟨9, 9⟩, ⟨9, 0⟩, ⟨0, 0⟩], [[⟨1, 1⟩, ⟨5, 2⟩, ⟨2, 5⟩, ⟨1, 1⟩]]⟩).ext ≠ some .ccw :=
  (orient_post_simple .reversed _ (by decide +kernel) (by decide +kernel)).1

/-- [T] `orient_idem` for polygons whose rings are simple (the full statement of `orient_idem_partial` on the
property's domain). -/
theorem orient_idem_simple (d : Direction) (p : Poly) (he : ringSimple p.ext = true)
    (hi : ∀ h ∈ p.ints, ringSimple h = true) :
    orientPoly d (orientPoly d p) = orientPoly d p :=
  orient_idem_of_rev d p (by simp [SM.isClosed, Geo.Proofs.C12.closed_of_simple he])
    (fun h hh => by simp [SM.isClosed, Geo.Proofs.C12.closed_of_simple (hi h hh)])
    (windingOrder_reverse_simple _ he) (fun h hh => windingOrder_reverse_simple _ (hi h hh))

example : orientPoly .default (orientPoly .default
      ⟨[⟨0, 0⟩, ⟨0, 0⟩, ⟨0, 9⟩, ⟨9, 9⟩, ⟨9, 0⟩, ⟨0, 0⟩], [[⟨1, 1⟩, ⟨5, 2⟩, ⟨2, 5⟩, ⟨1, 1⟩]]⟩) =
    orientPoly .default ⟨[⟨0, 0⟩, ⟨0, 0⟩, ⟨0, 9⟩, ⟨9, 9⟩, ⟨9, 0⟩, ⟨0, 0⟩], [[⟨1, 1⟩, ⟨5, 2⟩, ⟨2, 5⟩, ⟨1, 1⟩]]⟩ :=
  orient_idem_simple _ _ (by decide +kernel) (by decide +kernel)

/-! ### Winding order against the sign of the area: every simple ring

The full statement announced at the top of the triangle section. Proof (GeoProofs/Lemmas/SMLX*.lean, on top of
the Jordan-curve lemmas of the WIND files): a simple ring has a side constant `L ∈ {0, 1}` — beside every point
of the ring the left face sample has winding number `L`, the right one `L − 1` (`simple_faces`).
(1) *Area.* On a closed ring `Σ det = Σ (a.x + b.x)(b.y − a.y)`; cutting every trapezoid at the ordinates of all
coordinates turns the sum into `Σ_slabs 2·height·F(middle level)`, `F(y) = Σ_crossings ±abscissa`
(`shoelace2_slabs`; exact because a crossing abscissa is linear in the level). On a level that avoids the
coordinates the signed count of the crossings from a crossing on is the winding number just left of it, `L` or
`L − 1` by the direction of the edge (`crossing_suffix`), and summation by parts over the sorted crossings gives
`(2L − 1)·F(y) > 0` (`level_sign`), hence `(2L − 1)·area > 0` (`area_sign`).
(2) *Pivot.* In the slab just above (or below) the least coordinate `p` two edges cannot exchange their
left-to-right order without meeting (`no_cross`), so the left-most crossing of its middle level is on an edge that
ends at `p`; the left-most crossing has the exterior on its left, which gives `L` from the direction of that
edge, and `(2L − 1)·cross pv p nx > 0` follows (`pivot_side`). -/

/-- [T] `windingOrder_eq_sign_area`: **for every simple closed ring `winding_order` is CounterClockwise exactly
when the exact area computed by `twice_signed_ring_area` is positive, Clockwise exactly when it is negative; it
is never `None` and the area is never 0.** Repeated consecutive coordinates are allowed (`ringSimple` merges
them). -/
theorem windingOrder_eq_sign_area_simple (r : List Pt) (h : ringSimple r = true) :
    (windingOrder r = some .ccw ↔ 0 < twiceSignedRingArea r) ∧
    (windingOrder r = some .cw ↔ twiceSignedRingArea r < 0) ∧
    windingOrder r ≠ none ∧ twiceSignedRingArea r ≠ 0 := by
  have hc := Geo.Proofs.C12.closed_of_simple h
  have hcl : ringClosed r = true := by simp [ringClosed, hc]
  have hlen := Geo.Proofs.SMLX.simple_length h
  rw [twice_closed r hc]
  obtain ⟨pv, p, nx, hp, hs⟩ := Geo.Proofs.SMLX.simple_pivot_area h
  have hccw : windingOrder r = some .ccw ↔ 0 < cross pv p nx := by
    rw [windingOrder_ccw_iff]
    constructor
    · rintro ⟨_, _, pv', p', nx', hp', hc'⟩
      rw [hp] at hp'; cases hp'; exact hc'
    · intro h; exact ⟨by omega, hcl, pv, p, nx, hp, h⟩
  have hcw : windingOrder r = some .cw ↔ cross pv p nx < 0 := by
    rw [windingOrder_cw_iff]
    constructor
    · rintro ⟨_, _, pv', p', nx', hp', hc'⟩
      rw [hp] at hp'; cases hp'; exact hc'
    · intro h; exact ⟨by omega, hcl, pv, p, nx, hp, h⟩
  rcases hs with ⟨c1, c2⟩ | ⟨c1, c2⟩
  · have hw := hccw.2 c1
    refine ⟨⟨fun _ => c2, fun _ => hw⟩, ⟨fun h' => ?_, fun h' => by linarith⟩, by rw [hw]; simp, ne_of_gt c2⟩
    rw [hw] at h'; cases h'
  · have hw := hcw.2 c1
    refine ⟨⟨fun h' => ?_, fun h' => by linarith⟩, ⟨fun _ => c2, fun _ => hw⟩, by rw [hw]; simp, ne_of_lt c2⟩
    rw [hw] at h'; cases h'

/-- [T] the two definitions of "simple closed ring" are one Boolean function: `simpleRing`
(GeoModel/SimpleRing.lean — CLRS orientation tests on the array of merged coordinates; the definition the C05
driver uses to decide whether a ring is in the domain of the winding clauses) equals `ringSimple`
(GeoModel/Valid.lean — `line_intersection` / `Line: Intersects<Line>` on the merged segments; the domain of the
topological properties, for which the lemmas are proved). Pair by pair: `segsMeet a b c d` ⇔ the closed segments
share a point ⇔ `lineLine`; `foldsBack` ⇔ two consecutive segments share more than their common end ⇔
`¬ adjacentOk`. -/
theorem simpleRing_eq_ringSimple (r : List Pt) : simpleRing r = ringSimple r :=
  Geo.Proofs.SMLX.simpleRing_eq_ringSimple r

/-- [T] `windingOrder_eq_sign_area`, **the winding clause of the property exactly as the driver evaluates it**: for
every ring the driver classifies as simple (`simpleRing r = true`), `winding_order` is CounterClockwise iff the
exact area is positive, Clockwise iff it is negative, never `None`. -/
theorem windingOrder_eq_sign_area (r : List Pt) (h : simpleRing r = true) :
    (windingOrder r = some .ccw ↔ 0 < twiceSignedRingArea r) ∧
    (windingOrder r = some .cw ↔ twiceSignedRingArea r < 0) ∧
    windingOrder r ≠ none ∧ twiceSignedRingArea r ≠ 0 :=
  windingOrder_eq_sign_area_simple r (by rw [← simpleRing_eq_ringSimple]; exact h)

example : windingOrder [⟨0, 0⟩, ⟨4, 0⟩, ⟨4, 4⟩, ⟨2, 1⟩, ⟨0, 4⟩, ⟨0, 0⟩] = some .ccw := by
  rw [(windingOrder_eq_sign_area _ (by decide +kernel)).1, twice_eq_shoelace _ (by decide)]
  norm_num [shoelace2, det]

/-- a non-convex simple ring (an arrow head), given clockwise, with a repeated coordinate -/
example : windingOrder [⟨0, 0⟩, ⟨2, 1⟩, ⟨0, 4⟩, ⟨0, 4⟩, ⟨6, 1⟩, ⟨0, 0⟩] = some .cw := by
  rw [(windingOrder_eq_sign_area_simple _ (by decide +kernel)).2.1, twice_eq_shoelace _ (by decide)]
  norm_num [shoelace2, det]

private theorem toWinding_exact (w : WO) (r : List Pt) (h : ringSimple r = true) :
    windingOrder (toWinding w r) = some w := by
  obtain ⟨_, _, hne, _⟩ := windingOrder_eq_sign_area_simple r h
  have hrev := windingOrder_reverse_simple r h
  cases w
  · simp only [toWinding, makeCw]
    split
    · rename_i hw; rw [hrev, hw]; rfl
    · rename_i hw
      cases hwo : windingOrder r with
      | none => exact absurd hwo hne
      | some w' => cases w' <;> simp_all
  · simp only [toWinding, makeCcw]
    split
    · rename_i hw; rw [hrev, hw]; rfl
    · rename_i hw
      cases hwo : windingOrder r with
      | none => exact absurd hwo hne
      | some w' => cases w' <;> simp_all

/-- [T] `orient_exact`: **for a polygon whose rings are simple, `orient` returns the exterior with exactly the
requested winding and every hole with the opposite one** (`Direction::Default`: exterior counter-clockwise,
holes clockwise; `Reversed`: the other way round) — the sharp form of `orient_post`. -/
theorem orient_exact_simple (d : Direction) (p : Poly) (he : ringSimple p.ext = true)
    (hi : ∀ h ∈ p.ints, ringSimple h = true) :
    windingOrder (orientPoly d p).ext = some d.extW ∧
      ∀ h ∈ (orientPoly d p).ints, windingOrder h = some d.intW := by
  constructor
  · show windingOrder (SM.close (toWinding d.extW p.ext)) = _
    rw [close_toWinding_eq _ _ (by simp [SM.isClosed, Geo.Proofs.C12.closed_of_simple he])]
    exact toWinding_exact _ _ he
  · intro h hh
    simp only [orientPoly, List.map_map, List.mem_map, Function.comp] at hh
    obtain ⟨a, ha, rfl⟩ := hh
    rw [close_toWinding_eq _ _ (by simp [SM.isClosed, Geo.Proofs.C12.closed_of_simple (hi a ha)])]
    exact toWinding_exact _ _ (hi a ha)

example : windingOrder (orientPoly .default
      ⟨[⟨0, 0⟩, ⟨0, 9⟩, ⟨9, 9⟩, ⟨9, 0⟩, ⟨0, 0⟩], [[⟨1, 1⟩, ⟨5, 2⟩, ⟨2, 5⟩, ⟨1, 1⟩]]⟩).ext = some .ccw :=
  (orient_exact_simple .default _ (by decide +kernel) (by decide +kernel)).1

/-- [T] the area of a simple ring is positive exactly when `winding_order` says counter-clockwise. -/
theorem ringArea_pos_iff_ccw_simple (r : List Pt) (h : ringSimple r = true) :
    0 < ringArea r ↔ windingOrder r = some .ccw := by
  rw [(windingOrder_eq_sign_area_simple r h).1]
  unfold ringArea
  constructor <;> intro h' <;> linarith

example : 0 < ringArea [⟨0, 0⟩, ⟨4, 0⟩, ⟨4, 4⟩, ⟨2, 1⟩, ⟨0, 4⟩, ⟨0, 0⟩] := by
  rw [ringArea_pos_iff_ccw_simple _ (by decide +kernel)]
  decide +kernel

/-- [T] `polygonArea_pos_iff_ccw`: **`signed_area` of a polygon is positive exactly when its exterior is
counter-clockwise** (and negative exactly when it is clockwise), for a simple exterior ring not outweighed by the
holes (true of every valid polygon: the holes lie inside the shell). -/
theorem polygonArea_pos_iff_ccw (p : Poly) (he : simpleRing p.ext = true)
    (hw : sumRat (p.ints.map (fun h => rabs (ringArea h))) < rabs (ringArea p.ext)) :
    (0 < p.signedArea ↔ windingOrder p.ext = some .ccw) ∧
    (p.signedArea < 0 ↔ windingOrder p.ext = some .cw) := by
  obtain ⟨h1, h2, _, _⟩ := windingOrder_eq_sign_area p.ext he
  obtain ⟨s1, s2⟩ := polygonArea_sign p hw
  rw [s1, s2, h1, h2]
  unfold ringArea
  constructor <;> constructor <;> intro h' <;> linarith

example : 0 < (Poly.mk [⟨0, 0⟩, ⟨4, 0⟩, ⟨4, 4⟩, ⟨2, 1⟩, ⟨0, 4⟩, ⟨0, 0⟩] []).signedArea := by
  rw [(polygonArea_pos_iff_ccw _ (by decide +kernel) (by
    norm_num [sumRat, ringArea, twiceSignedRingArea, shiftedDets, det, rabs])).1]
  decide +kernel

/-! ### Convex rings: reversal, `orient` without `PivotOnce`

A convex ring may visit its least point several times in a row (repeated coordinates) — `PivotOnce`
fails for it — but its winding order is the sign of its area, and the area is negated by reversal. -/

/-- [T] reversing a convex ring flips `winding_order` (and keeps `None`). -/
theorem windingOrder_reverse_convex (r : List Pt) (h : convexRing r) :
    windingOrder r.reverse = (windingOrder r).map WO.flip := by
  obtain ⟨a1, a2, a3⟩ := windingOrder_eq_sign_area_convex r h
  obtain ⟨b1, b2, b3⟩ := windingOrder_eq_sign_area_convex r.reverse (convexRing_reverse h)
  rw [ringArea_reverse] at b1 b2 b3
  rcases lt_trichotomy (twiceSignedRingArea r) 0 with hlt | heq | hgt
  · rw [a2.2 hlt, b1.2 (by linarith)]; rfl
  · rw [a3.2 heq, b3.2 (by linarith)]; rfl
  · rw [a1.2 hgt, b2.2 (by linarith)]; rfl

/-- [T] `orient_post` for polygons with convex rings. -/
theorem orient_post_convex (d : Direction) (p : Poly) (he : SM.isClosed p.ext = true)
    (hi : ∀ h ∈ p.ints, SM.isClosed h = true) (ce : convexRing p.ext) (ci : ∀ h ∈ p.ints, convexRing h) :
    windingOrder (orientPoly d p).ext ≠ some (WO.flip d.extW) ∧
      ∀ h ∈ (orientPoly d p).ints, windingOrder h ≠ some (WO.flip d.intW) :=
  orient_post_of_rev d p he hi (windingOrder_reverse_convex _ ce)
    (fun h hh => windingOrder_reverse_convex _ (ci h hh))

/-- [T] `orient_idem` for polygons with convex rings, without `PivotOnce`. -/
theorem orient_idem_convex (d : Direction) (p : Poly) (he : SM.isClosed p.ext = true)
    (hi : ∀ h ∈ p.ints, SM.isClosed h = true) (ce : convexRing p.ext) (ci : ∀ h ∈ p.ints, convexRing h) :
    orientPoly d (orientPoly d p) = orientPoly d p :=
  orient_idem_of_rev d p he hi (windingOrder_reverse_convex _ ce)
    (fun h hh => windingOrder_reverse_convex _ (ci h hh))

/-- [T] every triangle ring is convex — so `windingOrder_eq_sign_area_convex` contains the triangle
case without the distinctness hypotheses of `windingOrder_eq_sign_area_triangle_partial`. -/
theorem convexRing_triangle (a b c : Pt) : convexRing [a, b, c, a] := by
  have key : ∀ e ∈ edges [a, b, c, a], ∀ q ∈ [a, b, c, a],
      cross e.1 e.2 q = cross a b c ∨ cross e.1 e.2 q = 0 := by
    intro e he q hq
    simp only [edges, List.tail_cons, List.zip_cons_cons, List.zip_nil_right, List.mem_cons,
      List.not_mem_nil, or_false] at he hq
    rcases he with rfl | rfl | rfl <;> rcases hq with rfl | rfl | rfl | rfl <;>
      (first | (left; rfl) | (right; simp only [cross]; ring1) | (left; simp only [cross]; ring1))
  rcases le_total 0 (cross a b c) with h | h
  · left
    intro e he q hq
    rcases key e he q hq with h' | h'
    · rw [h']; exact h
    · rw [h']
  · right
    intro e he q hq
    rcases key e he q hq with h' | h'
    · rw [h']; exact h
    · rw [h']

/-- [T] winding order = sign of the area for *every* triangle ring (degenerate ones included). -/
theorem windingOrder_eq_sign_area_triangle (a b c : Pt) :
    (windingOrder [a, b, c, a] = some .ccw ↔ 0 < twiceSignedRingArea [a, b, c, a]) ∧
    (windingOrder [a, b, c, a] = some .cw ↔ twiceSignedRingArea [a, b, c, a] < 0) ∧
    (windingOrder [a, b, c, a] = none ↔ twiceSignedRingArea [a, b, c, a] = 0) :=
  windingOrder_eq_sign_area_convex _ (convexRing_triangle a b c)

/-- [T] the polygon form of every `Rect` is a convex ring. -/
theorem convexRing_rect (mn mx : Pt) : convexRing (rectToPoly mn mx).ext := by
  have key : ∀ e ∈ edges (rectToPoly mn mx).ext, ∀ q ∈ (rectToPoly mn mx).ext,
      cross e.1 e.2 q = (mx.x - mn.x) * (mx.y - mn.y) ∨ cross e.1 e.2 q = 0 := by
    intro e he q hq
    simp only [rectToPoly, edges, List.tail_cons, List.zip_cons_cons, List.zip_nil_right,
      List.mem_cons, List.not_mem_nil, or_false] at he hq
    rcases he with rfl | rfl | rfl | rfl <;> rcases hq with rfl | rfl | rfl | rfl | rfl <;>
      (first | (right; simp only [cross]; ring1) | (left; simp only [cross]; ring1))
  rcases le_total 0 ((mx.x - mn.x) * (mx.y - mn.y)) with h | h
  · left
    intro e he q hq
    rcases key e he q hq with h' | h'
    · rw [h']; exact h
    · rw [h']
  · right
    intro e he q hq
    rcases key e he q hq with h' | h'
    · rw [h']; exact h
    · rw [h']

example : orientPoly .default (orientPoly .default (rectToPoly ⟨0, 0⟩ ⟨3, 2⟩)) =
    orientPoly .default (rectToPoly ⟨0, 0⟩ ⟨3, 2⟩) :=
  orient_idem_convex _ _ (by decide) (by decide) (convexRing_rect _ _) (by simp [rectToPoly])

/-- closes `cross … = cross …` / `cross … = 0` identities -/
local macro "cross_ring" : tactic => `(tactic| first | rfl | (simp only [cross]; ring1))

/-- [T] a quadrilateral ring whose four turns have the same sign is convex: with four vertices every
(edge, vertex) pair is a consecutive triple. (From five vertices on this fails: pentagram.) -/
theorem convexRing_quad (a b c d : Pt)
    (h : (0 ≤ cross a b c ∧ 0 ≤ cross b c d ∧ 0 ≤ cross c d a ∧ 0 ≤ cross d a b) ∨
      (cross a b c ≤ 0 ∧ cross b c d ≤ 0 ∧ cross c d a ≤ 0 ∧ cross d a b ≤ 0)) :
    convexRing [a, b, c, d, a] := by
  have key : ∀ e ∈ edges [a, b, c, d, a], ∀ q ∈ [a, b, c, d, a],
      cross e.1 e.2 q = 0 ∨ cross e.1 e.2 q = cross a b c ∨ cross e.1 e.2 q = cross b c d ∨
        cross e.1 e.2 q = cross c d a ∨ cross e.1 e.2 q = cross d a b := by
    intro e he q hq
    simp only [edges, List.tail_cons, List.zip_cons_cons, List.zip_nil_right, List.mem_cons,
      List.not_mem_nil, or_false] at he hq
    rcases he with rfl | rfl | rfl | rfl <;> rcases hq with rfl | rfl | rfl | rfl | rfl <;>
      (first
        | (left; cross_ring)
        | (right; left; cross_ring)
        | (right; right; left; cross_ring)
        | (right; right; right; left; cross_ring)
        | (right; right; right; right; cross_ring))
  rcases h with ⟨h1, h2, h3, h4⟩ | ⟨h1, h2, h3, h4⟩
  · left
    intro e he q hq
    rcases key e he q hq with h' | h' | h' | h' | h' <;> rw [h'] <;> assumption
  · right
    intro e he q hq
    rcases key e he q hq with h' | h' | h' | h' | h' <;> rw [h'] <;> assumption

example : convexRing [⟨0, 0⟩, ⟨4, 1⟩, ⟨5, 5⟩, ⟨1, 3⟩, ⟨0, 0⟩] :=
  convexRing_quad _ _ _ _ (Or.inl (by norm_num [cross]))

/-! ### T3: rounding-error bound for `twice_signed_ring_area` under the standard model

`fl : Rat → Rat` is an arbitrary rounding function with `|fl x − x| ≤ u·|x|` for all `x`
(`RoundsWithin fl u`; binary64 round-to-nearest: `u = 2^-53`, no underflow/overflow). The computation
`flTwiceSignedRingArea fl` (GeoProofs/Lemmas/C05PFloat.lean) applies `fl` after every subtraction of
the shift, every product, every determinant subtraction and every accumulation; with `fl = id` it is
the model (`flTwice_id`).

The bound is in terms of the magnitudes of the two *products* of each shifted determinant,
`|aᵢ.x−s.x|·|aᵢ₊₁.y−s.y| + |aᵢ.y−s.y|·|aᵢ₊₁.x−s.x|` — not of `|detᵢ|` as written in DESIGN §7: a
determinant of two nearly parallel shifted vectors is small while the rounding errors of its
products are not, so no bound proportional to `Σ|detᵢ|` holds. Each product magnitude is at most
`D²` (`D` the bounding-box diagonal), which is how the shift makes the error independent of the
distance from the origin. (`flSum_error` below is the `Σ|dᵢ|` form for the summation alone.) -/

/-- [T] T3: `|fl_area − area| ≤ ((1+u)^(n+3) − 1)·Σ|products|`, `n` the number of coordinates. -/
theorem area_rounding_error {fl : Rat → Rat} {u : Rat} (hu : 0 ≤ u) (hfl : RoundsWithin fl u)
    (s : Pt) (t : List Pt) :
    |flTwiceSignedRingArea fl (s :: t) - twiceSignedRingArea (s :: t)| ≤
      ((1 + u) ^ ((s :: t).length + 3) - 1) * sumRat (detMags s (s :: t)) :=
  flTwice_error hu hfl s t

/-- [T] T3 with the explicit constant `γ = (n+3)u / (1 − (n+3)u)`. -/
theorem area_rounding_error_gamma {fl : Rat → Rat} {u : Rat} (hu : 0 ≤ u) (hfl : RoundsWithin fl u)
    (s : Pt) (t : List Pt) (hk : (((s :: t).length + 3 : Nat) : Rat) * u < 1) :
    |flTwiceSignedRingArea fl (s :: t) - twiceSignedRingArea (s :: t)| ≤
      ((((s :: t).length + 3 : Nat) : Rat) * u / (1 - (((s :: t).length + 3 : Nat) : Rat) * u)) *
        sumRat (detMags s (s :: t)) :=
  flTwice_error_gamma hu hfl s t hk

example : |flTwiceSignedRingArea (fun x => x * (1 + 1 / 1024))
      [⟨100, 100⟩, ⟨104, 100⟩, ⟨104, 103⟩, ⟨100, 100⟩] -
    twiceSignedRingArea [⟨100, 100⟩, ⟨104, 100⟩, ⟨104, 103⟩, ⟨100, 100⟩]| ≤
    (((4 + 3 : Nat) : Rat) * (1 / 1024) / (1 - ((4 + 3 : Nat) : Rat) * (1 / 1024))) *
      sumRat (detMags ⟨100, 100⟩ [⟨100, 100⟩, ⟨104, 100⟩, ⟨104, 103⟩, ⟨100, 100⟩]) :=
  area_rounding_error_gamma (by norm_num) (by
    intro x
    have : x * (1 + 1 / 1024) - x = 1 / 1024 * x := by ring
    simp only [this, abs_mul]
    norm_num) ⟨100, 100⟩ [⟨104, 100⟩, ⟨104, 103⟩, ⟨100, 100⟩] (by norm_num)

/-- [T] the accumulation loop alone, for any values `ds`:
`|fl_sum − Σ ds| ≤ ((1+u)^n − 1)·Σ|dᵢ|`. -/
theorem sum_rounding_error {fl : Rat → Rat} {u : Rat} (hu : 0 ≤ u) (hfl : RoundsWithin fl u)
    (ds : List Rat) :
    |flSum fl 0 ds - sumRat ds| ≤ ((1 + u) ^ ds.length - 1) * sumRat (ds.map (fun d => |d|)) :=
  flSum_error hu hfl ds

/-- a rounding function that is not the identity: always 2^-10 too large in magnitude -/
example : RoundsWithin (fun x => x * (1 + 1 / 1024)) (1 / 1024) := by
  intro x
  have : x * (1 + 1 / 1024) - x = 1 / 1024 * x := by ring
  simp only [this, abs_mul]
  norm_num

example : |flTwiceSignedRingArea (fun x => x * (1 + 1 / 1024))
      [⟨100, 100⟩, ⟨104, 100⟩, ⟨104, 103⟩, ⟨100, 100⟩] - 12| ≤
    ((1 + 1 / 1024) ^ 7 - 1) * 12 := by
  have hfl : RoundsWithin (fun x => x * (1 + 1 / 1024)) (1 / 1024) := by
    intro x
    have : x * (1 + 1 / 1024) - x = 1 / 1024 * x := by ring
    simp only [this, abs_mul]
    norm_num
  have h := area_rounding_error (by norm_num) hfl ⟨100, 100⟩ [⟨104, 100⟩, ⟨104, 103⟩, ⟨100, 100⟩]
  have e1 : twiceSignedRingArea [⟨100, 100⟩, ⟨104, 100⟩, ⟨104, 103⟩, ⟨100, 100⟩] = 12 := by
    rw [twice_eq_shoelace _ (by decide)]; norm_num [shoelace2, det]
  have e2 : sumRat (detMags ⟨100, 100⟩ [⟨100, 100⟩, ⟨104, 100⟩, ⟨104, 103⟩, ⟨100, 100⟩]) = 12 := by
    norm_num [detMags, sumRat]
  rw [e1, e2] at h
  exact h

/-! ### TRAN: the area model is the term read off area.rs -/

/-- [T] (translator tie) `twice_signed_ring_area` (length and closedness guards, shift to the first coordinate, the
accumulating loop `tmp = tmp + line.map_coords(|c| c - shift).determinant()` over `lines()` as a left fold),
`get_linestring_area`, `Polygon::{signed_area, unsigned_area}` (fold over the interiors, sign from the exterior),
`MultiPolygon::{signed_area, unsigned_area}` and `Triangle::signed_area`, regenerated from the Rust bodies on this run,
equal the hand-written model (for the triangle: the model's sum of three shifted determinants and the source's single
cross product are the same rational number). -/
theorem area_eq_source :
    (∀ r, twiceSignedRingArea r = Gen.twiceSignedRingArea r) ∧
    (∀ r, ringArea r = Gen.getLinestringArea r) ∧
    (∀ q : Poly, q.signedArea = Gen.polygonSignedArea q) ∧
    (∀ q : Poly, q.unsignedArea = Gen.polygonUnsignedArea q) ∧
    (∀ ps, multiPolySigned ps = Gen.multiPolygonSignedArea ps) ∧
    (∀ ps, multiPolyUnsigned ps = Gen.multiPolygonUnsignedArea ps) ∧
    (∀ a b c, triSignedArea a b c = Gen.triangleSignedArea a b c) :=
  ⟨Geo.Proofs.TRANArea.twiceSignedRingArea_eq, Geo.Proofs.TRANArea.ringArea_eq, Geo.Proofs.TRANArea.polySignedArea_eq,
   Geo.Proofs.TRANArea.polyUnsignedArea_eq, Geo.Proofs.TRANArea.multiPolySigned_eq,
   Geo.Proofs.TRANArea.multiPolyUnsigned_eq, Geo.Proofs.TRANArea.triSignedArea_eq⟩

end Geo.Proofs.C05
