/-
  C05 — Planar area and ring orientation are exact up to rounding.

  Property theorems only. Model: GeoModel/Area.lean, GeoModel/Winding.lean; helper lemmas in
  GeoProofs/Lemmas/C05Area.lean and C05Winding.lean.

  Rings of a `Polygon` are closed by construction (C18 `inv_run`), so `r.head? = r.getLast?` is the
  type invariant of a ring, not an extra hypothesis; where a statement also holds for open
  coordinate lists (on which the code returns 0) it is stated without it.
-/
import GeoModel.Area
import GeoModel.Winding
import GeoProofs.Lemmas.C05Area
import GeoProofs.Lemmas.C05Winding
import Mathlib.Tactic.NormNum

namespace Geo.Proofs.C05
open Geo Geo.Proofs.C05L

/-! ### The conditioning shift changes nothing in exact arithmetic -/

/-- [T] `shift_invariance`: on a closed ring the sum of segment determinants after shifting by
*any* point `s` equals the unshifted shoelace sum (telescoping). -/
theorem shift_invariance (s : Pt) (r : List Pt) (hc : r.head? = r.getLast?) :
    sumRat (shiftedDets s r) = shoelace2 r := by
  cases r with
  | nil => simp [shiftedDets, shoelace2, sumRat]
  | cons a t => rw [sum_shiftedDets, lastD_of_closed hc]; ring

/-- [T] the code's `twice_signed_ring_area` (early returns, shift to the first vertex, left fold)
is the textbook shoelace sum on every closed ring, including the degenerate ones. -/
theorem twice_eq_shoelace (r : List Pt) (hc : r.head? = r.getLast?) :
    twiceSignedRingArea r = shoelace2 r := twice_closed r hc

example : twiceSignedRingArea [⟨100, 100⟩, ⟨104, 100⟩, ⟨104, 103⟩, ⟨100, 100⟩] = 12 := by
  rw [twice_eq_shoelace _ (by decide)]; norm_num [shoelace2, det]

/-- [T] `area_translate`: translating a coordinate list (closed or not) leaves the result
unchanged. -/
theorem area_translate (v : Pt) (r : List Pt) :
    twiceSignedRingArea (r.map (· + v)) = twiceSignedRingArea r := by
  have hinj : Function.Injective (fun p : Pt => p + v) := by
    intro p q h
    have hx : (p + v).x = (q + v).x := congrArg Pt.x h
    have hy : (p + v).y = (q + v).y := congrArg Pt.y h
    simp only [add_x, add_y] at hx hy
    cases p; cases q; simp only [Pt.mk.injEq]; constructor <;> linarith
  by_cases hc : r.head? = r.getLast?
  · have hc' := (head?_map_inj hinj r).2 hc
    rw [twice_closed _ hc', twice_closed _ hc]
    have hm : r.map (· + v) = r.map (· - (⟨-v.x, -v.y⟩ : Pt)) := by
      apply List.map_congr_left; intro p _
      show p + v = p - ⟨-v.x, -v.y⟩
      cases p; cases v
      show Pt.mk _ _ = Pt.mk _ _
      simp only [Pt.mk.injEq]; constructor <;> ring
    rw [hm, shoelace2_map_sub, shift_invariance _ _ hc]
  · have hc' : ¬ (r.map (· + v)).head? = (r.map (· + v)).getLast? :=
      fun h => hc ((head?_map_inj hinj r).1 h)
    rw [twice_open _ hc', twice_open _ hc]

private theorem shoelace2_smul (k : Rat) (l : List Pt) :
    shoelace2 (l.map (Pt.smul k)) = k * k * shoelace2 l := by
  induction l with
  | nil => simp [shoelace2]
  | cons a t ih =>
    cases t with
    | nil => simp [shoelace2]
    | cons b t' =>
      simp only [List.map_cons, shoelace2] at ih ⊢
      rw [ih]; simp only [det, Pt.smul]; ring

/-- [T] `area_scale`: scaling a ring by `k` multiplies the area by `k²`. -/
theorem area_scale (k : Rat) (r : List Pt) (hc : r.head? = r.getLast?) :
    twiceSignedRingArea (r.map (Pt.smul k)) = k * k * twiceSignedRingArea r := by
  have hc' : (r.map (Pt.smul k)).head? = (r.map (Pt.smul k)).getLast? := by
    rw [List.head?_map, List.getLast?_map, hc]
  rw [twice_closed _ hc', twice_closed _ hc, shoelace2_smul]

private theorem shoelace2_swap (l : List Pt) :
    shoelace2 (l.map (fun p => (⟨p.y, p.x⟩ : Pt))) = - shoelace2 l := by
  induction l with
  | nil => simp [shoelace2]
  | cons a t ih =>
    cases t with
    | nil => simp [shoelace2]
    | cons b t' =>
      simp only [List.map_cons, shoelace2] at ih ⊢
      rw [ih]; simp only [det]; ring

/-- [T] `area_swap_axes`: exchanging the axes (a reflection) negates the area. -/
theorem area_swap_axes (r : List Pt) (hc : r.head? = r.getLast?) :
    twiceSignedRingArea (r.map (fun p => (⟨p.y, p.x⟩ : Pt))) = - twiceSignedRingArea r := by
  have hc' : (r.map (fun p => (⟨p.y, p.x⟩ : Pt))).head? = (r.map (fun p => (⟨p.y, p.x⟩ : Pt))).getLast? := by
    rw [List.head?_map, List.getLast?_map, hc]
  rw [twice_closed _ hc', twice_closed _ hc, shoelace2_swap]

/-! ### Direction and start vertex of a ring -/

/-- [T] `ringArea_reverse`: reversing a coordinate list negates `twice_signed_ring_area`
(closed or open: an open list stays open). -/
theorem ringArea_reverse (r : List Pt) : twiceSignedRingArea r.reverse = - twiceSignedRingArea r := by
  by_cases hc : r.head? = r.getLast?
  · have hc' : r.reverse.head? = r.reverse.getLast? := by
      rw [List.head?_reverse, List.getLast?_reverse, hc]
    rw [twice_closed _ hc', twice_closed _ hc, shoelace2_reverse]
  · have hc' : ¬ r.reverse.head? = r.reverse.getLast? := by
      rw [List.head?_reverse, List.getLast?_reverse]; exact fun h => hc h.symm
    rw [twice_open _ hc', twice_open _ hc]; ring

/-- moving the start of a closed ring to its second vertex -/
def rotate1 : List Pt → List Pt
  | _ :: b :: t => b :: t ++ [b]
  | r => r

/-- [T] `ringArea_rotate`: the start vertex of a closed ring is irrelevant (one step; any
rotation is an iterate). -/
theorem ringArea_rotate (r : List Pt) (hc : r.head? = r.getLast?) :
    twiceSignedRingArea (rotate1 r) = twiceSignedRingArea r := by
  match r, hc with
  | [], _ => rfl
  | [a], _ => rfl
  | a :: b :: t, hc =>
    have hl : (b :: t).getLast? = some a := by
      have : (a :: b :: t).getLast? = (b :: t).getLast? := List.getLast?_cons_cons
      rw [← this, ← hc]; rfl
    have hc' : (rotate1 (a :: b :: t)).head? = (rotate1 (a :: b :: t)).getLast? := by
      show some b = ((b :: t) ++ [b]).getLast?
      rw [List.getLast?_concat]
    rw [twice_closed _ hc', twice_closed _ hc]
    show shoelace2 ((b :: t) ++ [b]) = _
    rw [shoelace2_snoc, hl]; simp only [shoelace2]; ring

example : rotate1 [⟨0, 0⟩, ⟨4, 0⟩, ⟨4, 3⟩, ⟨0, 0⟩] = [⟨4, 0⟩, ⟨4, 3⟩, ⟨0, 0⟩, ⟨4, 0⟩] := by decide

/-! ### Polygons: sign convention with mixed hole windings -/

/-- [T] `signed_area` of a polygon is `|exterior| − Σ|holes|`, carrying the sign of the exterior
(closed form of the fold in `impl Area for Polygon`). -/
theorem polygonArea_formula (p : Poly) :
    p.signedArea =
      (if ringArea p.ext < 0 then -1 else 1) *
        (rabs (ringArea p.ext) - sumRat (p.ints.map (fun h => rabs (ringArea h)))) := by
  unfold Poly.signedArea
  simp only [foldl_sub_map (fun h => rabs (ringArea h))]
  split <;> ring

/-- [T] for a polygon whose rings are closed, `signed_area` is the specification: the shoelace
area of the exterior minus that of the holes (by magnitude), signed like the exterior. -/
theorem polygonArea_eq_spec (p : Poly) (he : p.ext.head? = p.ext.getLast?)
    (hi : ∀ h ∈ p.ints, h.head? = h.getLast?) : p.signedArea = specPoly p := by
  have hr : ringArea p.ext = specRing p.ext := by simp only [ringArea, specRing, twice_closed _ he]
  have hm : p.ints.map (fun h => rabs (ringArea h)) = p.ints.map (fun h => rabs (specRing h)) := by
    apply List.map_congr_left; intro h hh
    simp only [ringArea, specRing, twice_closed _ (hi h hh)]
  rw [polygonArea_formula, specPoly, hr, hm]
  split <;> ring

example : (Poly.mk [⟨0, 0⟩, ⟨0, 8⟩, ⟨8, 8⟩, ⟨8, 0⟩, ⟨0, 0⟩]
    [[⟨1, 1⟩, ⟨3, 1⟩, ⟨3, 3⟩, ⟨1, 3⟩, ⟨1, 1⟩], [⟨5, 5⟩, ⟨5, 7⟩, ⟨7, 7⟩, ⟨7, 5⟩, ⟨5, 5⟩]]).signedArea = -56 := by
  rw [polygonArea_eq_spec _ (by decide) (by decide)]
  norm_num [specPoly, specRing, shoelace2, det, sumRat, rabs]

/-- [T] `polygonArea_hole_winding`: the result does not depend on the direction of any hole. -/
theorem polygonArea_hole_winding (ext : List Pt) (ints ints' : List (List Pt))
    (h : List.Forall₂ (fun a b => b = a ∨ b = a.reverse) ints ints') :
    (Poly.mk ext ints').signedArea = (Poly.mk ext ints).signedArea := by
  have hm : ints'.map (fun h => rabs (ringArea h)) = ints.map (fun h => rabs (ringArea h)) := by
    induction h with
    | nil => rfl
    | cons hab _ ih =>
      simp only [List.map_cons, ih]
      rcases hab with rfl | rfl
      · rfl
      · simp only [ringArea, ringArea_reverse, neg_div, rabs_neg]
  rw [polygonArea_formula, polygonArea_formula]
  simp only [hm]

/-- [T] `polygonArea_sign`: when the holes do not outweigh the exterior, `signed_area` is positive
exactly when the exterior's shoelace area is positive (counter-clockwise), negative exactly when
it is negative. -/
theorem polygonArea_sign (p : Poly)
    (hw : sumRat (p.ints.map (fun h => rabs (ringArea h))) < rabs (ringArea p.ext)) :
    (0 < p.signedArea ↔ 0 < ringArea p.ext) ∧ (p.signedArea < 0 ↔ ringArea p.ext < 0) := by
  rw [polygonArea_formula]
  have hS : 0 ≤ sumRat (p.ints.map (fun h => rabs (ringArea h))) := by
    generalize p.ints = l
    induction l with
    | nil => simp [sumRat]
    | cons a t ih => simp only [List.map_cons, sumRat]; have := rabs_nonneg (ringArea a); linarith
  by_cases hn : ringArea p.ext < 0
  · rw [if_pos hn]
    constructor <;> constructor <;> intro h <;> linarith
  · rw [if_neg hn]
    have h0 : rabs (ringArea p.ext) = ringArea p.ext := rabs_of_nonneg (by linarith)
    have hs := rabs_nonneg (ringArea p.ext)
    constructor <;> constructor <;> intro h <;> linarith

example : 0 < (Poly.mk [⟨0, 0⟩, ⟨4, 0⟩, ⟨4, 4⟩, ⟨0, 4⟩, ⟨0, 0⟩] [[⟨1, 1⟩, ⟨1, 2⟩, ⟨2, 2⟩, ⟨1, 1⟩]]).signedArea := by
  norm_num [Poly.signedArea, ringArea, twiceSignedRingArea, shiftedDets, det, rabs]

/-- [T] `unsigned_area` of a polygon is the absolute value of `signed_area`, hence non-negative. -/
theorem polygon_unsigned_eq_abs (p : Poly) : p.unsignedArea = rabs p.signedArea ∧ 0 ≤ p.unsignedArea :=
  ⟨rfl, rabs_nonneg _⟩

end Geo.Proofs.C05
