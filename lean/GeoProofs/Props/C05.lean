/-
  C05 — Planar area and ring orientation are exact up to rounding.

  Property theorems only. Model: GeoModel/Area.lean, GeoModel/Winding.lean; helper lemmas in
  GeoProofs/Lemmas/C05Area.lean and C05Winding.lean.
-/
import GeoModel.Area
import GeoModel.Winding
import GeoProofs.Lemmas.C05Area
import GeoProofs.Lemmas.C05Winding

namespace Geo.Proofs.C05
open Geo Geo.Proofs.C05L

/-- [T] `unsigned_area` of a polygon is the absolute value of `signed_area`. -/
theorem poly_unsigned_eq_abs (p : Poly) : p.unsignedArea = rabs p.signedArea := rfl

end Geo.Proofs.C05
