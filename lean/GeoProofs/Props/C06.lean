/-
  C06 — Centroid is the centre of mass of the highest-dimensional part.

  Property theorems only. Model and specification: GeoModel/Centroid.lean (one Lean function per
  `CentroidOperation` method; `atoms`/`centroidSpec` the stateless specification). Helper layers:
  GeoProofs/Lemmas/C06*.lean. Segment lengths enter through an arbitrary function `len`; where a
  theorem needs a fact about lengths it is an explicit hypothesis.
-/
import GeoProofs.Lemmas.C06Dom
import GeoProofs.Lemmas.C06Spec
import GeoProofs.Lemmas.C06Translate
import GeoProofs.Lemmas.C06PSpec
import GeoProofs.Lemmas.C06PScale
import GeoProofs.Lemmas.C06PHull
import GeoProofs.Lemmas.C06PPos
import GeoProofs.Lemmas.C06PHullA
import GeoProofs.Lemmas.C06XSep
import GeoProofs.Lemmas.C06XMoment
import GeoProofs.Lemmas.TRAN2Centroid
import Mathlib.Tactic.NormNum

namespace Geo.Proofs.C06
open Geo Geo.Cen

/-! ### T1 dimension dominance -/

/-- [T] `fold_dominance`: folding `add_weighted_centroid` (i.e. `WeightedCentroid::add_assign`)
over any non-empty list of contributions, from an empty accumulator, yields exactly: the maximal
dimension present, and the sums of the weights and of the accumulated coordinates of the
contributions *of that dimension*; every lower-dimensional contribution is discarded whatever
its position in the list. -/
theorem fold_dominance (l : List WC) (hl : l ≠ []) :
    l.foldl addWC none =
      some ⟨mDim l,
        sumR ((l.filter (fun c => c.dim = mDim l)).map (·.weight)),
        sumP ((l.filter (fun c => c.dim = mDim l)).map (·.acc))⟩ := by
  have h := foldWC_none l
  unfold foldWC at h
  rw [h]
  cases l with
  | nil => exact absurd rfl hl
  | cons c t => simp only [dominant, wSum_eq_filter, aSum_eq_filter]

example : [(⟨1, 1, ⟨5, 5⟩⟩ : WC), ⟨3, 2, ⟨2, 4⟩⟩, ⟨2, 7, ⟨1, 1⟩⟩, ⟨3, 1, ⟨1, 0⟩⟩].foldl addWC none
    = some ⟨3, 3, ⟨3, 4⟩⟩ := by
  simp only [List.foldl, addWC, WC.addAssign]
  norm_num
  apply Pt.ext' <;> simp
  norm_num

/-- [T] the same for an accumulator that already holds something: the state after any sequence of
additions depends only on the multiset of maximal-dimension contributions. -/
theorem fold_dominance_from (c : WC) (l : List WC) :
    l.foldl addWC (some c) = dominant (c :: l) := foldWC_some c l

/-- [T] every `add_*` method — with its early returns (`add_line_string` / `add_multi_line_string`
under a 2-D accumulator, `add_multi_point` above dimension 0) and the sub-operations of
`add_polygon` — is the fold of `add_weighted_centroid` over a contribution list that does not
depend on the accumulator: the early returns are redundant but sound. For every nesting of
collections and every starting state. -/
theorem addGeom_is_fold (len : Pt → Pt → Rat) (g : Geom) (o : Op) :
    addGeom len o g = (contribs len g).foldl addWC o := addGeom_eq len g o

/-- [T] hence the accumulator after a whole geometry is "the contributions of maximal dimension,
summed", for every geometry. -/
theorem addGeom_dominant (len : Pt → Pt → Rat) (g : Geom) :
    addGeom len none g = dominant (contribs len g) := by
  rw [addGeom_eq, foldWC_none]

/-! ### T1 `None` exactly for empty geometries -/

/-- [T] `centroid_none_iff`: the centroid is `None` exactly when the geometry is empty in the
sense of `HasDimensions::is_empty` (no coordinates; a polygon is empty when its exterior is), for
every type and every nesting of collections. -/
theorem centroid_none_iff (len : Pt → Pt → Rat) (g : Geom) :
    centroid len g = none ↔ isEmpty g = true := by
  have key : ∀ g : Geom, (addGeom len none g).centroid = none ↔ isEmpty g = true := by
    intro g
    rw [addGeom_eq, ← contribs_eq_nil len g]
    simp only [Op.centroid, Option.map_eq_none_iff]
    rw [foldWC_eq_none_iff]
    simp
  cases g with
  | point p => simp [centroid, isEmpty]
  | line a b => simp [centroid, isEmpty]
  | rect mn mx => simp [centroid, isEmpty]
  | lineString cs => simpa [centroid] using key (.lineString cs)
  | polygon p => simpa [centroid] using key (.polygon p)
  | multiPoint ps => simpa [centroid] using key (.multiPoint ps)
  | multiLineString ls => simpa [centroid] using key (.multiLineString ls)
  | multiPolygon ps => simpa [centroid] using key (.multiPolygon ps)
  | triangle a b c => simpa [centroid] using key (.triangle a b c)
  | collection gs => simpa [centroid] using key (.collection gs)

example : centroid (fun _ _ => 1) (.collection [.multiPolygon [], .lineString [], .polygon ⟨[], [[⟨1, 1⟩]]⟩]) = none := by
  rw [centroid_none_iff]; rfl

/-! ### T1 the ring formula -/

/-- [T] the shifted shoelace sum used by `twice_signed_ring_area` equals the textbook sum
`Σ det(pᵢ, pᵢ₊₁)` (both are 0 for open rings and for fewer than 3 coordinates). -/
theorem ringArea_shift (r : List Pt) : ringArea r = twiceAreaText r / 2 := ringArea_eq_text r

/-- [T] `ringCentroid_shift`: for a ring with area, the centroid `add_ring` computes from the
ring shifted to its first coordinate equals the textbook `Σ (pᵢ+pᵢ₊₁)·det(pᵢ,pᵢ₊₁) / (6A)`. -/
theorem ringCentroid_shift_text (s : Pt) (t : List Pt) (h : ringArea (s :: t) ≠ 0) :
    Pt.divS (ringAccum s (s :: t)) (6 * ringArea (s :: t)) + s = ringCentroidText (s :: t) :=
  ringCentroid_shift s t h

example : ringArea [⟨1, 1⟩, ⟨3, 1⟩, ⟨3, 4⟩, ⟨1, 1⟩] ≠ 0 := by
  simp [ringArea, twiceArea, isClosed, windows2, det]; norm_num

/-- [T] ring level: `add_ring` contributes exactly the specification's atoms of the ring: weight
`|A|` at the textbook centroid (so a ring's direction does not matter), the outline for a ring
without area, the point for a collapsed ring, nothing for an empty ring. -/
theorem ring_contribution_spec (len : Pt → Pt → Rat) (o : Op) (r : List Pt) :
    addRing len o r = ((ringAtoms len r).map Atom.toWC).foldl addWC o := by
  rw [addRing_eq, ringC_eq_atoms]; rfl

/-! ### T1 degenerate fallbacks -/

/-- [T] a ring without area that is not a single point is treated as a line string. -/
theorem ring_flat_is_linestring (len : Pt → Pt → Rat) (o : Op) (r : List Pt)
    (h : ringArea r = 0) (hd : lsDims r = 2) : addRing len o r = addLineString len o r := by
  simp [addRing, h, hd]

/-- [T] a ring collapsed to one point is that point. -/
theorem ring_point_is_point (len : Pt → Pt → Rat) (o : Op) (c : Pt) (t : List Pt)
    (h : ringArea (c :: t) = 0) (hd : lsDims (c :: t) = 1) : addRing len o (c :: t) = addCoord o c := by
  simp [addRing, h, hd]

example : ringArea [⟨0, 0⟩, ⟨2, 0⟩, ⟨0, 0⟩] = 0 ∧ lsDims [⟨0, 0⟩, ⟨2, 0⟩, ⟨0, 0⟩] = 2 := by
  constructor
  · simp [ringArea, twiceArea, isClosed, windows2, det]
  · simp [lsDims]

/-- [T] a polygon whose holes (with area) exactly cancel its exterior contributes the exterior as
a line string, whatever the accumulator holds. -/
theorem polygon_zero_weight_fallback (len : Pt → Pt → Rat) (o : Op) (p : Poly) (e i : WC)
    (he : addRing len none p.ext = some e) (hi : p.ints.foldl (addRing len) none = some i)
    (h3 : i.dim = 3) (hw : (e.subAssign i).weight = 0) :
    addPolygon len o p = addLineString len o p.ext := by
  simp [addPolygon, he, hi, h3, hw]

private theorem foldWC_dims_le (k : Nat) (o : Op) (l : List WC) (ho : o.dims ≤ k)
    (hl : ∀ w ∈ l, w.dim ≤ k) : (foldWC o l).dims ≤ k := by
  induction l generalizing o with
  | nil => exact ho
  | cons w t ih =>
    rw [foldWC_cons]
    apply ih
    · cases o with
      | none => simpa [addWC, Op.dims] using hl w (by simp)
      | some c =>
        have hw := hl w (by simp)
        simp only [Op.dims] at ho
        simp only [addWC, Op.dims, WC.addAssign]
        split
        · exact hw
        · split <;> exact ho
    · intro w' hw'; exact hl w' (by simp [hw'])

private theorem ringC_flat_dims (len : Pt → Pt → Rat) (r : List Pt) (h : ringArea r = 0) :
    ∀ w ∈ ringC len r, w.dim ≤ 2 := by
  intro w hw
  rw [ringC_eq_atoms] at hw
  have ht : twiceAreaText r = 0 := by
    have := ringArea_eq_text r; rw [h] at this; linarith
  simp only [ringAtoms, if_pos ht] at hw
  cases r with
  | nil => simp at hw
  | cons f t =>
    simp only at hw
    split at hw
    · simp at hw; subst hw; simp [Atom.toWC]
    · rw [← lineStringC_eq_atoms] at hw
      exact lineStringC_dim_le len _ w hw

private theorem foldl_addRing_dims (len : Pt → Pt → Rat) (rs : List (List Pt)) (o : Op) (ho : o.dims ≤ 2)
    (h : ∀ r ∈ rs, ringArea r = 0) : (rs.foldl (addRing len) o).dims ≤ 2 := by
  induction rs generalizing o with
  | nil => exact ho
  | cons r t ih =>
    rw [List.foldl_cons]
    apply ih
    · rw [addRing_eq]
      exact foldWC_dims_le 2 o _ ho (ringC_flat_dims len r (h r (by simp)))
    · intro r' hr'; exact h r' (by simp [hr'])

/-- [T] `polygon_flat_fallback`: a polygon without area (flat exterior; interiors without area,
which are ignored) has the centroid of its outline, the exterior ring taken as a line string. -/
theorem polygon_flat_fallback (len : Pt → Pt → Rat) (p : Poly)
    (h0 : ringArea p.ext = 0) (hd : lsDims p.ext = 2) (hh : ∀ r ∈ p.ints, ringArea r = 0) :
    centroid len (.polygon p) = centroid len (.lineString p.ext) := by
  have hext : addRing len none p.ext = addLineString len none p.ext :=
    ring_flat_is_linestring len none p.ext h0 hd
  have hint : (p.ints.foldl (addRing len) none).dims ≤ 2 :=
    foldl_addRing_dims len p.ints none (by simp [Op.dims]) hh
  simp only [centroid, addGeom, addPolygon, hext]
  cases hX : addLineString len none p.ext with
  | none => rfl
  | some e =>
    cases hI : p.ints.foldl (addRing len) none with
    | none => rfl
    | some i =>
      have : i.dim ≠ 3 := by
        rw [hI] at hint; simp only [Op.dims] at hint; omega
      simp [this, addWC]

example : centroid (fun _ _ => 2) (.polygon ⟨[⟨0, 0⟩, ⟨2, 0⟩, ⟨0, 0⟩], [[⟨5, 5⟩, ⟨6, 5⟩, ⟨5, 5⟩]]⟩)
    = centroid (fun _ _ => 2) (.lineString [⟨0, 0⟩, ⟨2, 0⟩, ⟨0, 0⟩]) := by
  apply polygon_flat_fallback
  · simp [ringArea, twiceArea, isClosed, windows2, det]
  · simp [lsDims]
  · intro r hr
    simp at hr; subst hr
    simp [ringArea, twiceArea, isClosed, windows2, det]

/-! ### T1 translation -/

/-- [T] the accumulator of a translated geometry is the translated accumulator (same dimension,
same weight, accumulated coordinate moved by `weight · d`): every branch condition of every
`add_*` method (area = 0, coincident points, net weight = 0, dimensions) is translation invariant.
For every geometry, every nesting; `len` only needs to be translation invariant. -/
theorem accumulator_translate (len : Pt → Pt → Rat) (d : Pt)
    (hlen : ∀ a b, len (a + d) (b + d) = len a b) (g : Geom) :
    addGeom len none (mapG (· + d) g) = (addGeom len none g).map (trW d) :=
  addGeom_tr len d hlen g

/-- [Tp] `centroid_translate`: the centroid moves with the geometry under translation.
Full statement: `centroid len (mapG (· + d) g) = (centroid len g).map (· + d)` for every `g`.
Proved under the hypothesis that the final accumulated weight is not 0 (it is 0 only when negative
polygon weights — holes larger than their shell — cancel, or when `len` vanishes on distinct
points; the real code then divides 0/0; the model's `x / 0 = 0` does not move with `d`). -/
theorem centroid_translate_partial (len : Pt → Pt → Rat) (d : Pt)
    (hlen : ∀ a b, len (a + d) (b + d) = len a b) (g : Geom)
    (hw : ∀ w, addGeom len none g = some w → w.weight ≠ 0) :
    centroid len (mapG (· + d) g) = (centroid len g).map (· + d) := by
  have key : (addGeom len none (mapG (· + d) g)).centroid = ((addGeom len none g).centroid).map (· + d) := by
    rw [addGeom_tr len d hlen g]
    cases h : addGeom len none g with
    | none => rfl
    | some w =>
      simp only [Op.centroid, Option.map_some]
      rw [centroid_trW d w (hw w h)]
  cases g with
  | point p => simp [centroid, mapG]
  | line a b => simp [centroid, mapG, mid_tr]
  | rect mn mx =>
    simp only [centroid, mapG, Option.map_some, Option.some.injEq]
    apply Pt.ext' <;> simp [rectCenter] <;> ring
  | lineString cs => simpa [centroid, mapG] using key
  | polygon p => simpa [centroid, mapG] using key
  | multiPoint ps => simpa [centroid, mapG] using key
  | multiLineString ls => simpa [centroid, mapG] using key
  | multiPolygon ps => simpa [centroid, mapG] using key
  | triangle a b c => simpa [centroid, mapG] using key
  | collection gs => simpa [centroid, mapG] using key

example : ∀ w, addGeom (fun _ _ => 1) none (.collection [.point ⟨1, 2⟩, .line ⟨0, 0⟩ ⟨2, 0⟩]) = some w → w.weight ≠ 0 := by
  intro w h
  simp [addGeom, addGeoms, addCoord, addLine, addCentroid, addWC, WC.addAssign] at h
  rw [← h]; norm_num

/-! ### T1 the centroid is the specification's centroid -/

/-- [T] polygon level: `add_polygon` — exterior sub-operation, interior sub-operation, `sub_assign`
(including its `Less => *self = b` arm when the exterior has no area), the zero-net-weight fallback
to the exterior outline — contributes exactly what the specification's signed atoms contribute
(`|A_ext|` at the exterior centroid, `−|A_h|` at the centroid of every interior with area; the
outline when they cancel; the interiors, positively, under an exterior without area). For every
accumulator state and every polygon: no validity assumption, the interiors may be larger than the
exterior (the net weight is then negative on both sides). -/
theorem polygon_contribution_spec (len : Pt → Pt → Rat) (o : Op) (p : Poly) :
    addPolygon len o p = ((polyAtoms len p).map Atom.toWC).foldl addWC o := by
  rw [addPolygon_eq]; exact polyC_equiv_atoms len p o

/-- [T] accumulator level: the centroid of the `CentroidOperation` after `add_geometry` is the
specification's centroid (weighted mean of the atoms of maximal dimension), for every geometry and
every nesting. No hypothesis on the geometry and none on `len`: where the total weight is 0 (holes
outweighing shells across a multi-polygon, `len` vanishing) both sides are the same `x / 0`. -/
theorem accumulator_centroid_eq_spec (len : Pt → Pt → Rat) (g : Geom) :
    (addGeom len none g).centroid = centroidSpec len g := acc_centroid_eq_spec len g

/-- What the three closed forms (`Point`, `Line`, `Rect` do not go through `CentroidOperation`) need
of the length function: a non-degenerate `Line` has non-zero length; a flat non-degenerate `Rect`
has non-zero outline length. Nothing for the other seven types. -/
def lenOK (len : Pt → Pt → Rat) : Geom → Prop
  | .line a b => a ≠ b → len a b ≠ 0
  | .rect mn mx => mn ≠ mx → (mn.x = mx.x ∨ mn.y = mx.y) → len mn mx + len mx mn ≠ 0
  | _ => True

theorem lenOK_of_pos (len : Pt → Pt → Rat) (hpos : ∀ a b, a ≠ b → 0 < len a b) (g : Geom) : lenOK len g := by
  cases g with
  | line a b => intro h; exact ne_of_gt (hpos a b h)
  | rect mn mx =>
    intro h _
    have h1 := hpos mn mx h
    have h2 := hpos mx mn (fun h' => h h'.symm)
    exact ne_of_gt (by linarith)
  | _ => trivial

/-- [T] `centroid_eq_spec`: `Centroid::centroid` equals the specification for every geometry, every
nesting, polygons with any holes. The only hypothesis is `lenOK` — on the abstract length, for a
top-level `Line` / flat `Rect` only (their closed forms `(a+b)/2`, `Rect::center` never look at the
length, the specification's weighted mean divides by it); `centroid_eq_spec_needs_len` shows it
cannot be dropped. Total hole area ≤ exterior area is *not* needed. -/
theorem centroid_eq_spec (len : Pt → Pt → Rat) (g : Geom) (hlen : lenOK len g) :
    centroid len g = centroidSpec len g := by
  rw [← acc_centroid_eq_spec]
  cases g with
  | point p =>
    simp only [centroid, addGeom, addCoord, addCentroid, addWC, Op.centroid, Option.map_some, Option.some.injEq]
    apply Pt.ext' <;> simp
  | line a b =>
    simp only [lenOK] at hlen
    by_cases h : a = b
    · subst h
      simp only [centroid, addGeom, addLine, if_true, addCoord, addCentroid, addWC, Op.centroid, Option.map_some,
        Option.some.injEq]
      apply Pt.ext' <;> simp [mid]
    · have hl := hlen h
      simp only [centroid, addGeom, addLine, if_neg h, addCentroid, addWC, Op.centroid, Option.map_some,
        Option.some.injEq]
      apply Pt.ext' <;> simp <;> field_simp
  | rect mn mx =>
    simp only [lenOK] at hlen
    simp only [centroid, addGeom, addRect, rectDims]
    by_cases h1 : mn = mx
    · subst h1
      simp only [if_true, addCoord, addCentroid, addWC, Op.centroid, Option.map_some, Option.some.injEq]
      apply Pt.ext' <;> simp [rectCenter]
    · by_cases h2 : mn.x = mx.x ∨ mn.y = mx.y
      · have hl := hlen h1 h2
        have hne : ¬ mx = mn := fun h => h1 h.symm
        simp only [if_neg h1, if_pos h2, addLine, if_true, if_neg hne, addCoord, addCentroid, addWC,
          WC.addAssign, Op.centroid, Option.map_some, Option.some.injEq]
        norm_num
        apply Pt.ext' <;> simp [rectCenter, mid] <;> field_simp <;> ring
      · have hA : (mx.x - mn.x) * (mx.y - mn.y) ≠ 0 := by
          intro h0
          rcases mul_eq_zero.1 h0 with h | h
          · exact h2 (Or.inl (by linarith))
          · exact h2 (Or.inr (by linarith))
        have hx : mx.x - mn.x ≠ 0 := left_ne_zero_of_mul hA
        have hy : mx.y - mn.y ≠ 0 := right_ne_zero_of_mul hA
        simp only [if_neg h1, if_neg h2, addCentroid, addWC, Op.centroid, Option.map_some, Option.some.injEq]
        apply Pt.ext' <;> simp <;> field_simp
  | lineString cs => rfl
  | polygon p => rfl
  | multiPoint ps => rfl
  | multiLineString ls => rfl
  | multiPolygon ps => rfl
  | triangle a b c => rfl
  | collection gs => rfl

example : lenOK (fun a b => rabs (b.x - a.x) + rabs (b.y - a.y)) (.rect ⟨0, 1⟩ ⟨3, 1⟩) := by
  intro _ _; simp [rabs]; norm_num

/-- [T] with a length that is positive on distinct points (as the Euclidean length is) the
hypothesis is met by every geometry -/
theorem centroid_eq_spec_of_pos (len : Pt → Pt → Rat) (hpos : ∀ a b, a ≠ b → 0 < len a b) (g : Geom) :
    centroid len g = centroidSpec len g := centroid_eq_spec len g (lenOK_of_pos len hpos g)

/-- [T] witness that `lenOK` is needed: under a length function that vanishes on a non-degenerate
line, `Line::centroid` is the midpoint while the specification's weighted mean is `0/0`. -/
theorem centroid_eq_spec_needs_len :
    centroid (fun _ _ => 0) (.line ⟨0, 0⟩ ⟨2, 0⟩) ≠ centroidSpec (fun _ _ => 0) (.line ⟨0, 0⟩ ⟨2, 0⟩) := by
  decide +kernel

/-- a polygon whose holes outweigh its shell (not a valid polygon): model and specification agree
on the negative net weight -/
example : centroid (fun _ _ => 1)
      (.polygon ⟨[⟨0, 0⟩, ⟨1, 0⟩, ⟨1, 1⟩, ⟨0, 1⟩, ⟨0, 0⟩], [[⟨0, 0⟩, ⟨2, 0⟩, ⟨2, 2⟩, ⟨0, 2⟩, ⟨0, 0⟩]]⟩)
    = some ⟨7 / 6, 7 / 6⟩ := by decide +kernel

/-! ### T1 translation: the zero-weight case -/

/-- [T] witness that the hypothesis of `centroid_translate_partial` (final weight ≠ 0) cannot be
dropped *in the model*: two polygons, the first with a hole larger than its shell (net weight −3),
the second of area 3; the accumulated weight is 0, the model's `x / 0 = 0` stays at the origin when
the geometry moves. The real code divides the accumulated sum by the zero weight there: run on this
input and on its translate (`C06.cen MPG 2 2 5 0 0 1 0 1 1 0 1 0 0 5 0 0 2 0 2 2 0 2 0 0 1 5 0 0 3 0 3 1 0 1 0 0`
and the same moved by (1,0)) it returns `Some((+inf, -inf))` both times (`NaN` where the accumulated
coordinate is 0 too), so the property "the centroid moves with the geometry" is void for such inputs,
not violated (the driver answers `SKIP zero-total-weight`); with `len` positive on distinct points a
zero final weight needs holes that outweigh their shells — not a valid polygon — so this is a limit of the
statement, not a defect of geo (see `centroid_translate` below for the statement on the domain `WF`). -/
theorem centroid_translate_needs_weight :
    centroid (fun _ _ => 1) (mapG (· + (⟨1, 0⟩ : Pt)) (.multiPolygon
        [⟨[⟨0, 0⟩, ⟨1, 0⟩, ⟨1, 1⟩, ⟨0, 1⟩, ⟨0, 0⟩], [[⟨0, 0⟩, ⟨2, 0⟩, ⟨2, 2⟩, ⟨0, 2⟩, ⟨0, 0⟩]]⟩,
         ⟨[⟨0, 0⟩, ⟨3, 0⟩, ⟨3, 1⟩, ⟨0, 1⟩, ⟨0, 0⟩], []⟩])) ≠
      (centroid (fun _ _ => 1) (.multiPolygon
        [⟨[⟨0, 0⟩, ⟨1, 0⟩, ⟨1, 1⟩, ⟨0, 1⟩, ⟨0, 0⟩], [[⟨0, 0⟩, ⟨2, 0⟩, ⟨2, 2⟩, ⟨0, 2⟩, ⟨0, 0⟩]]⟩,
         ⟨[⟨0, 0⟩, ⟨3, 0⟩, ⟨3, 1⟩, ⟨0, 1⟩, ⟨0, 0⟩], []⟩])).map (· + (⟨1, 0⟩ : Pt)) := by
  decide +kernel

/-- [T] `centroid_translate`: the centroid moves with the geometry under translation, for every type
and nesting, on the domain where no weight can cancel: `len` translation invariant and positive on
distinct points, no polygon's holes outweigh its shell, rectangles stored min ≤ max (`WF`; both are
guaranteed for valid geometries / by `Rect::new`). Outside this domain the final weight can be 0
and the statement fails in the model (`centroid_translate_needs_weight`); the code returns NaN. -/
theorem centroid_translate (len : Pt → Pt → Rat) (d : Pt)
    (hlen : ∀ a b, len (a + d) (b + d) = len a b) (hpos : ∀ a b, a ≠ b → 0 < len a b)
    (g : Geom) (hg : WF g) :
    centroid len (mapG (· + d) g) = (centroid len g).map (· + d) :=
  centroid_translate_partial len d hlen g
    (fun w h => ne_of_gt (final_weight_pos len hpos g hg w h))

example : WF (.collection [.rect ⟨0, 0⟩ ⟨2, 1⟩, .polygon
    ⟨[⟨0, 0⟩, ⟨4, 0⟩, ⟨4, 4⟩, ⟨0, 4⟩, ⟨0, 0⟩], [[⟨1, 1⟩, ⟨1, 2⟩, ⟨2, 2⟩, ⟨2, 1⟩, ⟨1, 1⟩]]⟩]) := by
  simp only [WF, WFList, polyWF, and_true]
  refine ⟨by norm_num, fun _ => ?_⟩
  norm_num [twiceAreaText, isClosed, windows2, det, sumR, rabs]

/-! ### T1 uniform scaling -/

/-- [T] the accumulator of a geometry scaled by `k ≠ 0` is the scaled accumulator: weights grow by
1, |k|, k² in dimension 0, 1, 2; every branch condition (area = 0, coincident points, net weight
= 0, dimensions) is scale invariant. `len` only needs to be homogeneous for this `k`. -/
theorem accumulator_scale (len : Pt → Pt → Rat) (k : Rat) (hk : k ≠ 0)
    (hlen : ∀ a b, len (Pt.smul k a) (Pt.smul k b) = rabs k * len a b) (g : Geom) :
    addGeom len none (mapG (Pt.smul k) g) = (addGeom len none g).map (scW k) :=
  addGeom_sc len k hk hlen g

/-- [T] `centroid_scale`: the centroid scales with the geometry, for every geometry and every
nesting, negative factors included, and with no condition on the final weight (`x / 0 = 0` scales
like everything else). -/
theorem centroid_scale (len : Pt → Pt → Rat) (k : Rat) (hk : k ≠ 0)
    (hlen : ∀ a b, len (Pt.smul k a) (Pt.smul k b) = rabs k * len a b) (g : Geom) :
    centroid len (mapG (Pt.smul k) g) = (centroid len g).map (Pt.smul k) := by
  have key : (addGeom len none (mapG (Pt.smul k) g)).centroid =
      ((addGeom len none g).centroid).map (Pt.smul k) := by
    rw [addGeom_sc len k hk hlen g]
    cases h : addGeom len none g with
    | none => rfl
    | some w =>
      simp only [Op.centroid, Option.map_some]
      rw [centroid_scW k hk w]
  cases g with
  | point p => simp [centroid, mapG]
  | line a b => simp [centroid, mapG, mid_sc]
  | rect mn mx =>
    simp only [centroid, mapG, Option.map_some, Option.some.injEq]
    apply Pt.ext' <;> simp [rectCenter] <;> ring
  | lineString cs => simpa [centroid, mapG] using key
  | polygon p => simpa [centroid, mapG] using key
  | multiPoint ps => simpa [centroid, mapG] using key
  | multiLineString ls => simpa [centroid, mapG] using key
  | multiPolygon ps => simpa [centroid, mapG] using key
  | triangle a b c => simpa [centroid, mapG] using key
  | collection gs => simpa [centroid, mapG] using key

example : ∀ a b : Pt, (fun a b : Pt => rabs (b.x - a.x)) (Pt.smul (-2) a) (Pt.smul (-2) b) =
    rabs (-2) * (fun a b : Pt => rabs (b.x - a.x)) a b := by
  intro a b
  simp only [smul_x]
  rw [← rabs_mul]; congr 1; ring

/-! ### T2 hull membership -/

/-- [T] `centroid_in_hull`, dimension-0 and dimension-1 results: when nothing areal was accumulated
the centroid is an explicit convex combination (non-negative weights summing to 1) of the
geometry's coordinates — for every type and nesting (flat polygons, polygons exactly covered by
their holes, degenerate rectangles and triangles included). `len` must be positive on distinct
points. -/
theorem centroid_in_hull (len : Pt → Pt → Rat) (hpos : ∀ a b, a ≠ b → 0 < len a b) (g : Geom)
    (hd : (addGeom len none g).dims ≤ 2) (c : Pt) (h : centroid len g = some c) :
    InHull (coordsIter g) c := by
  rw [centroid_eq_spec_of_pos len hpos g] at h
  exact spec_in_hull_low len hpos g (by rw [← acc_dims_eq_maxDim]; exact hd) c h

example : (addGeom (fun _ _ => 1) none (.collection [.point ⟨1, 2⟩, .line ⟨0, 0⟩ ⟨2, 0⟩])).dims ≤ 2 := by
  decide +kernel

private theorem addPolygon_noholes (len : Pt → Pt → Rat) (r : List Pt) :
    addGeom len none (.polygon ⟨r, []⟩) = addRing len none r := by
  simp only [addGeom, addPolygon, List.foldl_nil]
  cases addRing len none r <;> rfl

/-- [T] `centroid_in_hull`, a single polygon without holes whose ring is in convex position
(every vertex on or to the same side of every edge; either orientation): the centroid is an explicit
convex combination of the ring's vertices. Fan triangulation from the first vertex — which is what
the code's shifted moment sum is: every fan triangle has non-negative (resp. non-positive) area.
A convex ring without area falls under the dimension-0/1 case. -/
theorem centroid_in_hull_convex (len : Pt → Pt → Rat) (hpos : ∀ a b, a ≠ b → 0 < len a b) (r : List Pt)
    (hconv : ConvexCCW r ∨ ConvexCW r) (c : Pt) (h : centroid len (.polygon ⟨r, []⟩) = some c) :
    InHull r c := by
  by_cases hA : ringArea r = 0
  · have hd : (addGeom len none (.polygon ⟨r, []⟩)).dims ≤ 2 := by
      rw [addPolygon_noholes, addRing_eq]
      exact foldWC_dims_le 2 none _ (by simp [Op.dims]) (ringC_flat_dims len r hA)
    have := centroid_in_hull len hpos _ hd c h
    refine inHull_mono ?_ this
    intro q hq
    simpa [coordsIter, Poly.coords] using hq
  · cases r with
    | nil => exact absurd (by simp [ringArea, twiceArea_nil]) hA
    | cons s t =>
      have hc : centroid len (.polygon ⟨s :: t, []⟩) =
          some (Pt.divS (ringAccum s (s :: t)) (6 * ringArea (s :: t)) + s) := by
        have hr : rabs (ringArea (s :: t)) ≠ 0 := fun h0 => hA ((rabs_eq_zero_iff _).1 h0)
        show (addGeom len none (.polygon ⟨s :: t, []⟩)).centroid = _
        rw [addPolygon_noholes]
        simp only [addRing, if_neg hA, addCentroid, addWC, Op.centroid, Option.map_some, Option.some.injEq]
        apply Pt.ext' <;> simp <;> field_simp
      rw [hc] at h
      rw [← Option.some.inj h]
      exact convex_ring_centroid_in_hull s t hconv hA

example : ConvexCCW [⟨0, 0⟩, ⟨2, 0⟩, ⟨2, 2⟩, ⟨0, 2⟩, ⟨0, 0⟩] := by
  intro l hl p hp
  simp [windows2] at hl hp
  rcases hl with rfl | rfl | rfl | rfl <;> rcases hp with rfl | rfl | rfl | rfl | rfl <;>
    norm_num [crossProd]

/-- [T] `centroid_in_hull`, areal results whose areal members are all convex (`ConvexG`: polygons
without holes with the ring in convex position, rectangles stored min ≤ max, triangles), alone, in
multi-polygons or nested in collections together with points and lines of any kind: the centroid is
an explicit convex combination of the geometry's coordinates, whatever the dimension of the result.
(Polygons with holes carry negative weights; for them hull membership is only checked by the
driver.) -/
theorem centroid_in_hull_convex_members (len : Pt → Pt → Rat) (hpos : ∀ a b, a ≠ b → 0 < len a b)
    (g : Geom) (hg : ConvexG g) (c : Pt) (h : centroid len g = some c) : InHull (coordsIter g) c := by
  rw [centroid_eq_spec_of_pos len hpos g] at h
  exact spec_in_hull_convex len hpos g hg c h

example : ConvexG (.collection [.point ⟨5, 5⟩, .rect ⟨0, 0⟩ ⟨2, 1⟩, .triangle ⟨0, 0⟩ ⟨1, 0⟩ ⟨0, 1⟩,
    .multiPolygon [⟨[⟨0, 0⟩, ⟨2, 0⟩, ⟨0, 2⟩, ⟨0, 0⟩], []⟩]]) := by
  simp only [ConvexG, ConvexGList, polyConvex, and_true, true_and]
  refine ⟨by norm_num, ?_⟩
  intro p hp
  simp at hp; subst hp
  refine ⟨rfl, Or.inl ?_⟩
  intro l hl q hq
  simp [windows2] at hl hq
  rcases hl with rfl | rfl | rfl <;> rcases hq with rfl | rfl | rfl | rfl <;> norm_num [crossProd]

/-! ### T2 hull membership: the dual description, and polygons with holes -/

/-- [T] finite separation in the rational plane: for a non-empty coordinate list, "explicit convex
combination" (`InHull`) is the same as "in every closed half-plane `α x + β y + γ ≥ 0` that contains the
list" (`InHalfPlanes`). The hard direction has no convexity library behind it: a point in no triangle of
`S` sees `S` inside an angle smaller than a straight angle (most clockwise / most counter-clockwise point
by induction, the replaced extreme closing a triangle around the point otherwise), and a line through the
point, lowered by the least value on `S`, separates. -/
theorem hull_iff_halfplanes (S : List Pt) (hS : S ≠ []) (c : Pt) : InHull S c ↔ InHalfPlanes S c :=
  inHull_iff_halfPlanes hS c

example : InHalfPlanes [⟨0, 0⟩, ⟨4, 0⟩, ⟨0, 4⟩] ⟨1, 1⟩ := by
  intro α β γ h
  have h1 := h ⟨0, 0⟩ (by simp)
  have h2 := h ⟨4, 0⟩ (by simp)
  have h3 := h ⟨0, 4⟩ (by simp)
  simp only at h1 h2 h3 ⊢
  linarith

/-- [T] the centroid of a polygon with an areal shell and non-zero net area, as moments: for every affine
`f = α x + β y + γ`, `f(centroid) · (|A_shell| − Σ |A_hole|) = |∫_shell f| − Σ |∫_hole f|`, the integrals in
shoelace form (`ringMoment`: `Σ det(p, q)(f p + f q + f 0)/6`, taken with the sign of the ring's area). For
every polygon of that kind, holes anywhere and of any size. -/
theorem polygon_centroid_moment (len : Pt → Pt → Rat) (hpos : ∀ a b, a ≠ b → 0 < len a b) (p : Poly)
    (hA : twiceAreaText p.ext ≠ 0) (hnet : netArea p ≠ 0) (c : Pt)
    (h : centroid len (.polygon p) = some c) (α β γ : Rat) :
    (α * c.x + β * c.y + γ) * netArea p = polyMoment α β γ p := by
  rw [centroid_eq_spec_of_pos len hpos] at h
  have hat : atoms len (.polygon p) = polyAtoms len p := by simp [atoms]
  have hne : (polyAtoms len p).isEmpty = false := by rw [polyAtoms_areal len p hA hnet]; rfl
  simp only [centroidSpec, hat, hne, Bool.false_eq_true, if_false, Option.some.injEq,
    polyAtoms_top len p hA hnet] at h
  have hW := poly_weight len p hA hnet
  rw [← h, weightedMean_affine α β γ _ (by rw [hW]; exact hnet), hW, poly_atomMoment len α β γ p hA hnet]
  field_simp

example : twiceAreaText [⟨0, 0⟩, ⟨4, 0⟩, ⟨4, 4⟩, ⟨0, 4⟩, ⟨0, 0⟩] ≠ 0 := by
  norm_num [twiceAreaText, isClosed, windows2, det, sumR]

/-- [Tp] `centroid_in_hull` for a polygon with holes.
Full statement: for every OGC-valid polygon (`polyValid`) the centroid is a convex combination of the
shell's vertices.
Proved here: the statement for *every* polygon with an areal shell and positive net area under the one
hypothesis `hM` — for every closed half-plane `f ≥ 0` containing the shell's vertices the net first moment
`|∫_shell f| − Σ |∫_hole f|` (shoelace form, `polyMoment`) is non-negative. That is what "the holes lie
inside the shell and do not overlap" gives (the integrand `f · (1_shell − Σ 1_hole)` is non-negative: `f ≥ 0`
on the shell, which lies in the hull of its vertices); deriving `hM` from `polyValid` — the shoelace moments
as integrals over slabs of the region between the rings — is the part that is not proved. No hypothesis
on the centroid itself, the weights of the holes are negative, the conclusion names shell vertices only. -/
theorem centroid_in_hull_polygon_partial (len : Pt → Pt → Rat) (hpos : ∀ a b, a ≠ b → 0 < len a b)
    (p : Poly) (hA : twiceAreaText p.ext ≠ 0) (hnet : 0 < netArea p)
    (hM : ∀ α β γ : Rat, (∀ s ∈ p.ext, 0 ≤ α * s.x + β * s.y + γ) → 0 ≤ polyMoment α β γ p)
    (c : Pt) (h : centroid len (.polygon p) = some c) : InHull p.ext c := by
  have hne' : p.ext ≠ [] := by
    intro h0; rw [h0] at hA; exact hA (by simp [twiceAreaText])
  apply inHull_of_halfPlanes hne'
  intro α β γ hs
  have hm := polygon_centroid_moment len hpos p hA (ne_of_gt hnet) c h α β γ
  have := hM α β γ hs
  rw [← hm] at this
  by_contra hn
  have hneg : α * c.x + β * c.y + γ < 0 := not_le.1 hn
  nlinarith

/-- the hypotheses of `centroid_in_hull_polygon_partial` on a square with a square hole -/
example :
    let p : Poly := ⟨[⟨0, 0⟩, ⟨4, 0⟩, ⟨4, 4⟩, ⟨0, 4⟩, ⟨0, 0⟩], [[⟨1, 1⟩, ⟨1, 2⟩, ⟨2, 2⟩, ⟨2, 1⟩, ⟨1, 1⟩]]⟩
    twiceAreaText p.ext ≠ 0 ∧ 0 < netArea p ∧
      ∀ α β γ : Rat, (∀ s ∈ p.ext, 0 ≤ α * s.x + β * s.y + γ) → 0 ≤ polyMoment α β γ p := by
  intro p
  have hh : arealHoles p = [[⟨1, 1⟩, ⟨1, 2⟩, ⟨2, 2⟩, ⟨2, 1⟩, ⟨1, 1⟩]] := by
    simp only [arealHoles, p]
    rw [List.filter_cons_of_pos (by norm_num [twiceAreaText, isClosed, windows2, det, sumR])]
    rfl
  refine ⟨by norm_num [p, twiceAreaText, isClosed, windows2, det, sumR], ?_, ?_⟩
  · rw [netArea, hh]
    norm_num [p, twiceAreaText, isClosed, windows2, det, sumR, rabs]
  · intro α β γ hs
    have h1 := hs ⟨0, 0⟩ (by simp [p])
    have h2 := hs ⟨4, 0⟩ (by simp [p])
    have h3 := hs ⟨4, 4⟩ (by simp [p])
    have h4 := hs ⟨0, 4⟩ (by simp [p])
    rw [polyMoment, hh]
    norm_num [p, absRingMoment, ringMoment, twiceAreaText, isClosed, windows2, det, sumR] at h1 h2 h3 h4 ⊢
    linarith

/-! ### tie to the source -/

/-- [E2] (translator tie) the accumulator of centroid.rs in the model is the term `translator/rs2lean.py` regenerates on
every run from the Rust bodies (`GeoModel/Gen/CentroidGen.lean`): the `Coord` operators of geo-types it is written with
(`+`, `-`, `* t`, `/ t`), `WeightedCentroid::{add_assign, sub_assign}` (the three-way `cmp` on dimensions, what each arm
assigns), `CentroidOperation::{centroid, centroid_dimensions, add_weighted_centroid, add_centroid, add_coord}`, `Line::centroid`,
`add_line` (dimension match), `add_line_string` (the early return above dimension 1, the one-coordinate case, the loop over
`lines()`), `add_multi_line_string`, `add_multi_point`, `add_ring` (zero-area match on the ring's dimensions; the shifted
moment fold, `/ (6 · area) + shift`, weight `|area|`), `add_rect` (dimension match, the four degenerate lines in order) and
`add_polygon` (two sub-operations, holes counted only when two-dimensional, `sub_assign`, the zero-weight degeneration to the
exterior line string). `Euclidean.length(line)` is the same parameter `len` on both sides, so there is no hypothesis.
A changed comparison, operand, branch or order changes the regenerated definition and this theorem stops checking. -/
theorem centroidOperation_eq_source (len : Pt → Pt → Rat) :
    (∀ a b : Pt, a + b = Gen.coordAdd a b ∧ a - b = Gen.coordSub a b) ∧
    (∀ (c : Pt) (w : Rat), Gen.coordMul c w = Pt.smul w c ∧ Gen.coordDiv c w = Cen.Pt.divS c w) ∧
    (∀ a b : Cen.WC, Gen.wcAddAssign a b = a.addAssign b ∧ Gen.wcSubAssign a b = a.subAssign b) ∧
    (∀ o : Cen.Op, Gen.opCentroid o = o.centroid ∧ Gen.centroidDimensions o = o.dims) ∧
    (∀ o w, Gen.addWeightedCentroid o w = Cen.addWC o w) ∧
    (∀ o d c w, Gen.addCentroid o d c w = Cen.addCentroid o d c w) ∧
    (∀ o c, Gen.addCoord o c = Cen.addCoord o c) ∧
    (∀ a b, Gen.lineCentroid a b = Cen.mid a b) ∧
    (∀ o (l : Pt × Pt), Gen.addLine len o l = Cen.addLine len o l.1 l.2) ∧
    (∀ o cs, Gen.addLineString len o cs = Cen.addLineString len o cs) ∧
    (∀ o ls, Gen.addMultiLineString len o ls = Cen.addMultiLineString len o ls) ∧
    (∀ o ps, Gen.addMultiPoint o ps = Cen.addMultiPoint o ps) ∧
    (∀ o r, Gen.addRing len o r = Cen.addRing len o r) ∧
    (∀ o mn mx, Gen.addRect len o ⟨mn, mx⟩ = Cen.addRect len o mn mx) ∧
    (∀ o p, Gen.addPolygon len o p = Cen.addPolygon len o p) :=
  ⟨fun a b => ⟨Geo.Proofs.TRAN2Centroid.coordAdd_eq a b, Geo.Proofs.TRAN2Centroid.coordSub_eq a b⟩,
   fun c w => ⟨Geo.Proofs.TRAN2Centroid.mul_eq_smul c w, Geo.Proofs.TRAN2Centroid.div_eq_divS c w⟩,
   fun a b => ⟨Geo.Proofs.TRAN2Centroid.wcAddAssign_eq a b, Geo.Proofs.TRAN2Centroid.wcSubAssign_eq a b⟩,
   fun o => ⟨Geo.Proofs.TRAN2Centroid.opCentroid_eq o, Geo.Proofs.TRAN2Centroid.centroidDimensions_eq o⟩,
   Geo.Proofs.TRAN2Centroid.addWeightedCentroid_eq, Geo.Proofs.TRAN2Centroid.addCentroid_eq,
   Geo.Proofs.TRAN2Centroid.addCoord_eq, Geo.Proofs.TRAN2Centroid.lineCentroid_eq,
   Geo.Proofs.TRAN2Centroid.addLine_eq len, Geo.Proofs.TRAN2Centroid.addLineString_eq len,
   Geo.Proofs.TRAN2Centroid.addMultiLineString_eq len, Geo.Proofs.TRAN2Centroid.addMultiPoint_eq,
   Geo.Proofs.TRAN2Centroid.addRing_eq len, Geo.Proofs.TRAN2Centroid.addRect_eq len,
   Geo.Proofs.TRAN2Centroid.addPolygon_eq len⟩

end Geo.Proofs.C06

