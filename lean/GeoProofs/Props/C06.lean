/-
  C06 — Centroid is the centre of mass of the highest-dimensional part.

  Property theorems only. Model and specification: GeoModel/Centroid.lean (one Lean function per
  `CentroidOperation` method; `atoms`/`centroidSpec` the stateless specification). Helper layers:
  GeoProofs/Lemmas/C06*.lean. Segment lengths enter through an arbitrary function `len`; where a
  theorem needs a fact about lengths it is an explicit hypothesis.
-/
import GeoProofs.Lemmas.C06Dom
import Mathlib.Tactic.NormNum

namespace Geo.Proofs.C06
open Geo Geo.Cen

/-! ### T1 dimension dominance -/

/-- [T] `fold_dominance`: folding `add_weighted_centroid` (i.e. `WeightedCentroid::add_assign`)
over any non-empty list of contributions, from an empty accumulator, yields exactly: the maximal
dimension present, and the sums of the weights and of the accumulated coordinates of the
contributions *of that dimension*; every lower-dimensional contribution is discarded whatever
its position in the list. -/
theorem fold_dominance (l : List WC) (hl : l ≠ []) :
    l.foldl addWC none =
      some ⟨mDim l,
        sumR ((l.filter (fun c => c.dim = mDim l)).map (·.weight)),
        sumP ((l.filter (fun c => c.dim = mDim l)).map (·.acc))⟩ := by
  have h := foldWC_none l
  unfold foldWC at h
  rw [h]
  cases l with
  | nil => exact absurd rfl hl
  | cons c t => simp only [dominant, wSum_eq_filter, aSum_eq_filter]

example : [(⟨1, 1, ⟨5, 5⟩⟩ : WC), ⟨3, 2, ⟨2, 4⟩⟩, ⟨2, 7, ⟨1, 1⟩⟩, ⟨3, 1, ⟨1, 0⟩⟩].foldl addWC none
    = some ⟨3, 3, ⟨3, 4⟩⟩ := by
  simp only [List.foldl, addWC, WC.addAssign]
  norm_num
  apply Pt.ext' <;> simp
  norm_num

/-- [T] the same for an accumulator that already holds something: the state after any sequence of
additions depends only on the multiset of maximal-dimension contributions. -/
theorem fold_dominance_from (c : WC) (l : List WC) :
    l.foldl addWC (some c) = dominant (c :: l) := foldWC_some c l

/-- [T] every `add_*` method — with its early returns (`add_line_string` / `add_multi_line_string`
under a 2-D accumulator, `add_multi_point` above dimension 0) and the sub-operations of
`add_polygon` — is the fold of `add_weighted_centroid` over a contribution list that does not
depend on the accumulator: the early returns are redundant but sound. For every nesting of
collections and every starting state. -/
theorem addGeom_is_fold (len : Pt → Pt → Rat) (g : Geom) (o : Op) :
    addGeom len o g = (contribs len g).foldl addWC o := addGeom_eq len g o

/-- [T] hence the accumulator after a whole geometry is "the contributions of maximal dimension,
summed", for every geometry. -/
theorem addGeom_dominant (len : Pt → Pt → Rat) (g : Geom) :
    addGeom len none g = dominant (contribs len g) := by
  rw [addGeom_eq, foldWC_none]

/-! ### T1 `None` exactly for empty geometries -/

/-- [T] `centroid_none_iff`: the centroid is `None` exactly when the geometry is empty in the
sense of `HasDimensions::is_empty` (no coordinates; a polygon is empty when its exterior is), for
every type and every nesting of collections. -/
theorem centroid_none_iff (len : Pt → Pt → Rat) (g : Geom) :
    centroid len g = none ↔ isEmpty g = true := by
  have key : ∀ g : Geom, (addGeom len none g).centroid = none ↔ isEmpty g = true := by
    intro g
    rw [addGeom_eq, ← contribs_eq_nil len g]
    simp only [Op.centroid, Option.map_eq_none_iff]
    rw [foldWC_eq_none_iff]
    simp
  cases g with
  | point p => simp [centroid, isEmpty]
  | line a b => simp [centroid, isEmpty]
  | rect mn mx => simp [centroid, isEmpty]
  | lineString cs => simpa [centroid] using key (.lineString cs)
  | polygon p => simpa [centroid] using key (.polygon p)
  | multiPoint ps => simpa [centroid] using key (.multiPoint ps)
  | multiLineString ls => simpa [centroid] using key (.multiLineString ls)
  | multiPolygon ps => simpa [centroid] using key (.multiPolygon ps)
  | triangle a b c => simpa [centroid] using key (.triangle a b c)
  | collection gs => simpa [centroid] using key (.collection gs)

example : centroid (fun _ _ => 1) (.collection [.multiPolygon [], .lineString [], .polygon ⟨[], [[⟨1, 1⟩]]⟩]) = none := by
  rw [centroid_none_iff]; rfl

end Geo.Proofs.C06
