/-
  C06 — Centroid is the centre of mass of the highest-dimensional part.

  Property theorems only. Model and specification: GeoModel/Centroid.lean (one Lean function per
  `CentroidOperation` method; `atoms`/`centroidSpec` the stateless specification). Helper layers:
  GeoProofs/Lemmas/C06*.lean. Segment lengths enter through an arbitrary function `len`; where a
  theorem needs a fact about lengths it is an explicit hypothesis.
-/
import GeoProofs.Lemmas.C06Dom
import GeoProofs.Lemmas.C06Spec
import GeoProofs.Lemmas.C06Translate
import Mathlib.Tactic.NormNum

namespace Geo.Proofs.C06
open Geo Geo.Cen

/-! ### T1 dimension dominance -/

/-- [T] `fold_dominance`: folding `add_weighted_centroid` (i.e. `WeightedCentroid::add_assign`)
over any non-empty list of contributions, from an empty accumulator, yields exactly: the maximal
dimension present, and the sums of the weights and of the accumulated coordinates of the
contributions *of that dimension*; every lower-dimensional contribution is discarded whatever
its position in the list. -/
theorem fold_dominance (l : List WC) (hl : l ≠ []) :
    l.foldl addWC none =
      some ⟨mDim l,
        sumR ((l.filter (fun c => c.dim = mDim l)).map (·.weight)),
        sumP ((l.filter (fun c => c.dim = mDim l)).map (·.acc))⟩ := by
  have h := foldWC_none l
  unfold foldWC at h
  rw [h]
  cases l with
  | nil => exact absurd rfl hl
  | cons c t => simp only [dominant, wSum_eq_filter, aSum_eq_filter]

example : [(⟨1, 1, ⟨5, 5⟩⟩ : WC), ⟨3, 2, ⟨2, 4⟩⟩, ⟨2, 7, ⟨1, 1⟩⟩, ⟨3, 1, ⟨1, 0⟩⟩].foldl addWC none
    = some ⟨3, 3, ⟨3, 4⟩⟩ := by
  simp only [List.foldl, addWC, WC.addAssign]
  norm_num
  apply Pt.ext' <;> simp
  norm_num

/-- [T] the same for an accumulator that already holds something: the state after any sequence of
additions depends only on the multiset of maximal-dimension contributions. -/
theorem fold_dominance_from (c : WC) (l : List WC) :
    l.foldl addWC (some c) = dominant (c :: l) := foldWC_some c l

/-- [T] every `add_*` method — with its early returns (`add_line_string` / `add_multi_line_string`
under a 2-D accumulator, `add_multi_point` above dimension 0) and the sub-operations of
`add_polygon` — is the fold of `add_weighted_centroid` over a contribution list that does not
depend on the accumulator: the early returns are redundant but sound. For every nesting of
collections and every starting state. -/
theorem addGeom_is_fold (len : Pt → Pt → Rat) (g : Geom) (o : Op) :
    addGeom len o g = (contribs len g).foldl addWC o := addGeom_eq len g o

/-- [T] hence the accumulator after a whole geometry is "the contributions of maximal dimension,
summed", for every geometry. -/
theorem addGeom_dominant (len : Pt → Pt → Rat) (g : Geom) :
    addGeom len none g = dominant (contribs len g) := by
  rw [addGeom_eq, foldWC_none]

/-! ### T1 `None` exactly for empty geometries -/

/-- [T] `centroid_none_iff`: the centroid is `None` exactly when the geometry is empty in the
sense of `HasDimensions::is_empty` (no coordinates; a polygon is empty when its exterior is), for
every type and every nesting of collections. -/
theorem centroid_none_iff (len : Pt → Pt → Rat) (g : Geom) :
    centroid len g = none ↔ isEmpty g = true := by
  have key : ∀ g : Geom, (addGeom len none g).centroid = none ↔ isEmpty g = true := by
    intro g
    rw [addGeom_eq, ← contribs_eq_nil len g]
    simp only [Op.centroid, Option.map_eq_none_iff]
    rw [foldWC_eq_none_iff]
    simp
  cases g with
  | point p => simp [centroid, isEmpty]
  | line a b => simp [centroid, isEmpty]
  | rect mn mx => simp [centroid, isEmpty]
  | lineString cs => simpa [centroid] using key (.lineString cs)
  | polygon p => simpa [centroid] using key (.polygon p)
  | multiPoint ps => simpa [centroid] using key (.multiPoint ps)
  | multiLineString ls => simpa [centroid] using key (.multiLineString ls)
  | multiPolygon ps => simpa [centroid] using key (.multiPolygon ps)
  | triangle a b c => simpa [centroid] using key (.triangle a b c)
  | collection gs => simpa [centroid] using key (.collection gs)

example : centroid (fun _ _ => 1) (.collection [.multiPolygon [], .lineString [], .polygon ⟨[], [[⟨1, 1⟩]]⟩]) = none := by
  rw [centroid_none_iff]; rfl

/-! ### T1 the ring formula -/

/-- [T] the shifted shoelace sum used by `twice_signed_ring_area` equals the textbook sum
`Σ det(pᵢ, pᵢ₊₁)` (both are 0 for open rings and for fewer than 3 coordinates). -/
theorem ringArea_shift (r : List Pt) : ringArea r = twiceAreaText r / 2 := ringArea_eq_text r

/-- [T] `ringCentroid_shift`: for a ring with area, the centroid `add_ring` computes from the
ring shifted to its first coordinate equals the textbook `Σ (pᵢ+pᵢ₊₁)·det(pᵢ,pᵢ₊₁) / (6A)`. -/
theorem ringCentroid_shift_text (s : Pt) (t : List Pt) (h : ringArea (s :: t) ≠ 0) :
    Pt.divS (ringAccum s (s :: t)) (6 * ringArea (s :: t)) + s = ringCentroidText (s :: t) :=
  ringCentroid_shift s t h

example : ringArea [⟨1, 1⟩, ⟨3, 1⟩, ⟨3, 4⟩, ⟨1, 1⟩] ≠ 0 := by
  simp [ringArea, twiceArea, isClosed, windows2, det]; norm_num

/-- [T] ring level: `add_ring` contributes exactly the specification's atoms of the ring: weight
`|A|` at the textbook centroid (so a ring's direction does not matter), the outline for a ring
without area, the point for a collapsed ring, nothing for an empty ring. -/
theorem ring_contribution_spec (len : Pt → Pt → Rat) (o : Op) (r : List Pt) :
    addRing len o r = ((ringAtoms len r).map Atom.toWC).foldl addWC o := by
  rw [addRing_eq, ringC_eq_atoms]; rfl

/-! ### T1 degenerate fallbacks -/

/-- [T] a ring without area that is not a single point is treated as a line string. -/
theorem ring_flat_is_linestring (len : Pt → Pt → Rat) (o : Op) (r : List Pt)
    (h : ringArea r = 0) (hd : lsDims r = 2) : addRing len o r = addLineString len o r := by
  simp [addRing, h, hd]

/-- [T] a ring collapsed to one point is that point. -/
theorem ring_point_is_point (len : Pt → Pt → Rat) (o : Op) (c : Pt) (t : List Pt)
    (h : ringArea (c :: t) = 0) (hd : lsDims (c :: t) = 1) : addRing len o (c :: t) = addCoord o c := by
  simp [addRing, h, hd]

example : ringArea [⟨0, 0⟩, ⟨2, 0⟩, ⟨0, 0⟩] = 0 ∧ lsDims [⟨0, 0⟩, ⟨2, 0⟩, ⟨0, 0⟩] = 2 := by
  constructor
  · simp [ringArea, twiceArea, isClosed, windows2, det]
  · simp [lsDims]

/-- [T] a polygon whose holes (with area) exactly cancel its exterior contributes the exterior as
a line string, whatever the accumulator holds. -/
theorem polygon_zero_weight_fallback (len : Pt → Pt → Rat) (o : Op) (p : Poly) (e i : WC)
    (he : addRing len none p.ext = some e) (hi : p.ints.foldl (addRing len) none = some i)
    (h3 : i.dim = 3) (hw : (e.subAssign i).weight = 0) :
    addPolygon len o p = addLineString len o p.ext := by
  simp [addPolygon, he, hi, h3, hw]

private theorem foldWC_dims_le (k : Nat) (o : Op) (l : List WC) (ho : o.dims ≤ k)
    (hl : ∀ w ∈ l, w.dim ≤ k) : (foldWC o l).dims ≤ k := by
  induction l generalizing o with
  | nil => exact ho
  | cons w t ih =>
    rw [foldWC_cons]
    apply ih
    · cases o with
      | none => simpa [addWC, Op.dims] using hl w (by simp)
      | some c =>
        have hw := hl w (by simp)
        simp only [Op.dims] at ho
        simp only [addWC, Op.dims, WC.addAssign]
        split
        · exact hw
        · split <;> exact ho
    · intro w' hw'; exact hl w' (by simp [hw'])

private theorem ringC_flat_dims (len : Pt → Pt → Rat) (r : List Pt) (h : ringArea r = 0) :
    ∀ w ∈ ringC len r, w.dim ≤ 2 := by
  intro w hw
  rw [ringC_eq_atoms] at hw
  have ht : twiceAreaText r = 0 := by
    have := ringArea_eq_text r; rw [h] at this; linarith
  simp only [ringAtoms, if_pos ht] at hw
  cases r with
  | nil => simp at hw
  | cons f t =>
    simp only at hw
    split at hw
    · simp at hw; subst hw; simp [Atom.toWC]
    · rw [← lineStringC_eq_atoms] at hw
      exact lineStringC_dim_le len _ w hw

private theorem foldl_addRing_dims (len : Pt → Pt → Rat) (rs : List (List Pt)) (o : Op) (ho : o.dims ≤ 2)
    (h : ∀ r ∈ rs, ringArea r = 0) : (rs.foldl (addRing len) o).dims ≤ 2 := by
  induction rs generalizing o with
  | nil => exact ho
  | cons r t ih =>
    rw [List.foldl_cons]
    apply ih
    · rw [addRing_eq]
      exact foldWC_dims_le 2 o _ ho (ringC_flat_dims len r (h r (by simp)))
    · intro r' hr'; exact h r' (by simp [hr'])

/-- [T] `polygon_flat_fallback`: a polygon without area (flat exterior; interiors without area,
which are ignored) has the centroid of its outline, the exterior ring taken as a line string. -/
theorem polygon_flat_fallback (len : Pt → Pt → Rat) (p : Poly)
    (h0 : ringArea p.ext = 0) (hd : lsDims p.ext = 2) (hh : ∀ r ∈ p.ints, ringArea r = 0) :
    centroid len (.polygon p) = centroid len (.lineString p.ext) := by
  have hext : addRing len none p.ext = addLineString len none p.ext :=
    ring_flat_is_linestring len none p.ext h0 hd
  have hint : (p.ints.foldl (addRing len) none).dims ≤ 2 :=
    foldl_addRing_dims len p.ints none (by simp [Op.dims]) hh
  simp only [centroid, addGeom, addPolygon, hext]
  cases hX : addLineString len none p.ext with
  | none => rfl
  | some e =>
    cases hI : p.ints.foldl (addRing len) none with
    | none => rfl
    | some i =>
      have : i.dim ≠ 3 := by
        rw [hI] at hint; simp only [Op.dims] at hint; omega
      simp [this, addWC]

example : centroid (fun _ _ => 2) (.polygon ⟨[⟨0, 0⟩, ⟨2, 0⟩, ⟨0, 0⟩], [[⟨5, 5⟩, ⟨6, 5⟩, ⟨5, 5⟩]]⟩)
    = centroid (fun _ _ => 2) (.lineString [⟨0, 0⟩, ⟨2, 0⟩, ⟨0, 0⟩]) := by
  apply polygon_flat_fallback
  · simp [ringArea, twiceArea, isClosed, windows2, det]
  · simp [lsDims]
  · intro r hr
    simp at hr; subst hr
    simp [ringArea, twiceArea, isClosed, windows2, det]

/-! ### T1 translation -/

/-- [T] the accumulator of a translated geometry is the translated accumulator (same dimension,
same weight, accumulated coordinate moved by `weight · d`): every branch condition of every
`add_*` method (area = 0, coincident points, net weight = 0, dimensions) is translation invariant.
For every geometry, every nesting; `len` only needs to be translation invariant. -/
theorem accumulator_translate (len : Pt → Pt → Rat) (d : Pt)
    (hlen : ∀ a b, len (a + d) (b + d) = len a b) (g : Geom) :
    addGeom len none (mapG (· + d) g) = (addGeom len none g).map (trW d) :=
  addGeom_tr len d hlen g

/-- [Tp] `centroid_translate`: the centroid moves with the geometry under translation.
Full statement: `centroid len (mapG (· + d) g) = (centroid len g).map (· + d)` for every `g`.
Proved under the hypothesis that the final accumulated weight is not 0 (it is 0 only when negative
polygon weights — holes larger than their shell — cancel, or when `len` vanishes on distinct
points; the real code then divides 0/0; the model's `x / 0 = 0` does not move with `d`). -/
theorem centroid_translate_partial (len : Pt → Pt → Rat) (d : Pt)
    (hlen : ∀ a b, len (a + d) (b + d) = len a b) (g : Geom)
    (hw : ∀ w, addGeom len none g = some w → w.weight ≠ 0) :
    centroid len (mapG (· + d) g) = (centroid len g).map (· + d) := by
  have key : (addGeom len none (mapG (· + d) g)).centroid = ((addGeom len none g).centroid).map (· + d) := by
    rw [addGeom_tr len d hlen g]
    cases h : addGeom len none g with
    | none => rfl
    | some w =>
      simp only [Op.centroid, Option.map_some]
      rw [centroid_trW d w (hw w h)]
  cases g with
  | point p => simp [centroid, mapG]
  | line a b => simp [centroid, mapG, mid_tr]
  | rect mn mx =>
    simp only [centroid, mapG, Option.map_some, Option.some.injEq]
    apply Pt.ext' <;> simp [rectCenter] <;> ring
  | lineString cs => simpa [centroid, mapG] using key
  | polygon p => simpa [centroid, mapG] using key
  | multiPoint ps => simpa [centroid, mapG] using key
  | multiLineString ls => simpa [centroid, mapG] using key
  | multiPolygon ps => simpa [centroid, mapG] using key
  | triangle a b c => simpa [centroid, mapG] using key
  | collection gs => simpa [centroid, mapG] using key

example : ∀ w, addGeom (fun _ _ => 1) none (.collection [.point ⟨1, 2⟩, .line ⟨0, 0⟩ ⟨2, 0⟩]) = some w → w.weight ≠ 0 := by
  intro w h
  simp [addGeom, addGeoms, addCoord, addLine, addCentroid, addWC, WC.addAssign] at h
  rw [← h]; norm_num

end Geo.Proofs.C06
