/-
  C12 — Closest and interior points lie on the geometry.

  Property theorems only. Models: GeoModel/Closest.lean (`Geo.CP`), GeoModel/InteriorPoint.lean
  (`Geo.IP`). Helper layers: GeoProofs/Lemmas/C12{Line,Fold,Closest,Interior}.lean and
  C12Q{Cross,Scan,Simple,Fold,Valid}.lean (crossing structure of the scan line), WIND*.lean (winding
  jump across an edge, Jordan-curve property of a simple ring, cross-ring facts of a valid polygon).

  closest_point: `Spec p H L c` (Lemmas/C12Line) says what an answer `c` must satisfy w.r.t. the
  hit condition `H` and the candidate locus `L`; `closest_spec_all` proves it for every geometry
  with `H = hits g p` (the kernel `intersects` tests the code performs, zero-length segments
  excluded) and `L = Locus g` (isolated points and non-degenerate segments of `g`).

  interior_point: segment lengths enter through an arbitrary `len`, `polygon.relate(&midpoint)`
  through an arbitrary location function `loc`/`locOf`; every theorem holds for all of them.
-/
import GeoProofs.Lemmas.C12Closest
import GeoProofs.Lemmas.C12Interior
import GeoProofs.Lemmas.C12QScan
import GeoProofs.Lemmas.C12QSimple
import GeoProofs.Lemmas.C12QFold
import GeoProofs.Lemmas.C12QValid
import GeoProofs.Lemmas.WINDJordan
import GeoProofs.Lemmas.TRAN2Closest
import Mathlib.Tactic.NormNum

namespace Geo.Proofs.C12
open Geo Geo.CP Geo.IP Geo.Proofs.Kernel

/-! ## closest_point -/

/-! ### T1 the `Line` kernel -/

/-- [T] `line_closest_intersection_iff`: for a segment of positive length the answer is
`Intersection` exactly when the kernel test `Line::intersects(p)` holds, i.e. exactly when `p` is
a point of the segment. -/
theorem line_closest_intersection_iff (a b p : Pt) (hab : a ≠ b) :
    (∃ x, lineClosest a b p = .intersection x) ↔ lineCoord a b p = true := by
  have h := line_closest_spec a b p
  constructor
  · rintro ⟨x, hx⟩
    rw [hx] at h
    exact (lineCoord_iff a b p).2 h.2.2
  · intro hc
    have hon : OnSeg a b p := ⟨hab, (lineCoord_iff a b p).1 hc⟩
    cases hr : lineClosest a b p with
    | intersection x => exact ⟨x, rfl⟩
    | single x => rw [hr] at h; exact absurd hon h.2.1
    | indeterminate => rw [hr] at h; exact absurd hon h.1

example : lineClosest ⟨0, 0⟩ ⟨4, 2⟩ ⟨2, 1⟩ = .intersection ⟨2, 1⟩ := by decide +kernel

/-- [T] the reported intersection point is the query point itself (the projection of a point of
the segment is that point). -/
theorem line_closest_intersection_eq (a b p x : Pt) (h : lineClosest a b p = .intersection x) :
    x = p := by
  have hs := line_closest_spec a b p
  rw [h] at hs
  exact hs.1

/-- [T] `line_closest_min`: whatever point the `Line` impl returns lies on the segment, and no
point of the segment is closer to `p` (the clamped projection is the minimiser). -/
theorem line_closest_min (a b p x : Pt) (h : (lineClosest a b p).pt? = some x) :
    SegMem x a b ∧ ∀ q, SegMem q a b → dist2 x p ≤ dist2 q p := by
  have hs := line_closest_spec a b p
  cases hr : lineClosest a b p with
  | intersection y =>
    rw [hr] at hs h
    simp only [Closest.pt?, Option.some.injEq] at h
    subst h
    have hy : y = p := hs.1
    refine ⟨hy ▸ hs.2.2, ?_⟩
    intro q _
    rw [hy]
    have : dist2 p p = 0 := by simp [dist2]
    rw [this]
    simp only [dist2]
    nlinarith [mul_self_nonneg (q.x - p.x), mul_self_nonneg (q.y - p.y)]
  | single y =>
    rw [hr] at hs h
    simp only [Closest.pt?, Option.some.injEq] at h
    subst h
    exact ⟨hs.1.2, fun q hq => hs.2.2 q ⟨hs.1.1, hq⟩⟩
  | indeterminate => rw [hr] at h; simp [Closest.pt?] at h

example : lineClosest ⟨0, 0⟩ ⟨4, 0⟩ ⟨1, 3⟩ = .single ⟨1, 0⟩ := by decide +kernel
example : lineClosest ⟨0, 0⟩ ⟨4, 0⟩ ⟨-2, 3⟩ = .single ⟨0, 0⟩ := by decide +kernel

/-- [T] `Indeterminate` from a `Line` exactly for zero length. -/
theorem line_closest_indeterminate_iff (a b p : Pt) :
    lineClosest a b p = .indeterminate ↔ a = b := by
  unfold lineClosest
  by_cases h : a = b
  · simp [h]
  · simp only [h, if_false, iff_false]
    split
    · simp
    · split
      · simp
      · split <;> simp

/-! ### T1 the fold -/

/-- [T] `bestOfTwo_min`: see `bestOfTwo_spec`; stated for two `SinglePoint`s: the result is one of
the two and is at most as far as either (ties keep `self`). -/
theorem bestOfTwo_min (l r p : Pt) :
    (bestOfTwo (.single l) (.single r) p = .single l ∧ dist2 l p ≤ dist2 r p) ∨
    (bestOfTwo (.single l) (.single r) p = .single r ∧ dist2 r p < dist2 l p) := by
  simp only [bestOfTwo]
  by_cases h : dist2 l p ≤ dist2 r p
  · left; simp [h]
  · right; simp [h, not_le.1 h]

/-- [T] `closestOf_argmin`: `closest_of` over elements whose individual answers are sound is
sound for the union: `Intersection` iff some element is hit (so the early exit loses nothing),
otherwise a candidate of minimal squared distance among all candidates of all elements,
`Indeterminate` iff no element has a candidate. -/
theorem closestOf_argmin {ι : Type} (p : Pt) (f : ι → Closest) (H : ι → Prop) (L : ι → Pt → Prop)
    (l : List ι) (hl : ∀ e ∈ l, Spec p (H e) (L e) (f e)) :
    Spec p (∃ e ∈ l, H e) (fun q => ∃ e ∈ l, L e q) (closestOf f p l) :=
  closestOf_spec p f H L l hl

/-! ### T1 every geometry -/

/-- [T] `closest_spec`: for every geometry (every type, every nesting of collections) and every
query point the answer satisfies `Spec` w.r.t. `hits g p` and `Locus g`. -/
theorem closest_spec (g : Geom) (p : Pt) : Spec p (hits g p = true) (Locus g) (closest g p) :=
  closest_spec_all g p

/-- [T] `closest_intersection_iff`: `Intersection` exactly when one of the kernel `intersects(p)`
tests the code relies on holds (`hits`: point equality, `Line`/`Rect`/`Triangle::intersects`,
`Polygon::coordinate_position ≠ Outside`; a zero-length segment never reports a hit). -/
theorem closest_intersection_iff (g : Geom) (p : Pt) :
    (∃ x, closest g p = .intersection x) ↔ hits g p = true := by
  have h := closest_spec g p
  constructor
  · rintro ⟨x, hx⟩; rw [hx] at h; exact h.2
  · intro hh
    cases hr : closest g p with
    | intersection x => exact ⟨x, rfl⟩
    | single x => rw [hr] at h; exact absurd hh h.2.1
    | indeterminate => rw [hr] at h; exact absurd hh h.1

/-- [T] the point carried by `Intersection` is the query point. -/
theorem closest_intersection_eq (g : Geom) (p x : Pt) (h : closest g p = .intersection x) : x = p := by
  have hs := closest_spec g p
  rw [h] at hs
  exact hs.1

/-- [T] `closest_single_min`: a `SinglePoint(x)` lies on the geometry's candidate locus, the query
point is not hit, and no candidate point of the geometry is closer. -/
theorem closest_single_min (g : Geom) (p x : Pt) (h : closest g p = .single x) :
    Locus g x ∧ hits g p = false ∧ ∀ q, Locus g q → dist2 x p ≤ dist2 q p := by
  have hs := closest_spec g p
  rw [h] at hs
  exact ⟨hs.1, by simpa using hs.2.1, hs.2.2⟩

/-- [T] `closest_indeterminate_iff`: `Indeterminate` exactly when the query point is not hit and
the geometry has no candidate at all (no isolated point, every segment of zero length: empty or
zero-length input). -/
theorem closest_indeterminate_iff (g : Geom) (p : Pt) :
    closest g p = .indeterminate ↔ hits g p = false ∧ ∀ q, ¬ Locus g q := by
  have hs := closest_spec g p
  constructor
  · intro h; rw [h] at hs; exact ⟨by simpa using hs.1, hs.2⟩
  · rintro ⟨hh, hl⟩
    cases hr : closest g p with
    | intersection x => rw [hr] at hs; rw [hh] at hs; exact absurd hs.2 (by simp)
    | single x => rw [hr] at hs; exact absurd hs.1 (hl x)
    | indeterminate => rfl

example : closest (.collection [.lineString [⟨0, 0⟩, ⟨0, 0⟩], .multiPoint []]) ⟨1, 1⟩ = .indeterminate := by
  decide +kernel
example : closest (.polygon ⟨[⟨0, 0⟩, ⟨4, 0⟩, ⟨4, 4⟩, ⟨0, 4⟩, ⟨0, 0⟩], []⟩) ⟨6, 2⟩ = .single ⟨4, 2⟩ := by
  decide +kernel

mutual
/-- no areal member at any depth -/
def isLinear : Geom → Bool
  | .point _ => true
  | .line _ _ => true
  | .lineString _ => true
  | .multiPoint _ => true
  | .multiLineString _ => true
  | .collection gs => isLinearList gs
  | _ => false
def isLinearList : List Geom → Bool
  | [] => true
  | g :: gs => isLinear g && isLinearList gs
end

/-! ### `hits` against the kernel `Intersects<Point>` of each type -/

mutual
/-- geo's `Intersects<Point>` per type (`LineString`: any segment; areal types: the kernel test the
`closest_point` impl itself calls) -/
def isx : Geom → Pt → Bool
  | .point q, p => q == p
  | .line a b, p => lineCoord a b p
  | .lineString cs, p => (segs cs).any (fun s => lineCoord s.1 s.2 p)
  | .polygon poly, p => coordPos (.polygon poly) p != .outside
  | .multiPoint qs, p => qs.any (· == p)
  | .multiLineString ls, p => ls.any (fun cs => (segs cs).any (fun s => lineCoord s.1 s.2 p))
  | .multiPolygon ps, p => ps.any (fun poly => coordPos (.polygon poly) p != .outside)
  | .rect mn mx, p => rectCoord mn mx p
  | .triangle a b c, p => triCoord a b c p
  | .collection gs, p => isxList gs p
def isxList : List Geom → Pt → Bool
  | [], _ => false
  | g :: gs, p => isx g p || isxList gs p
end

private theorem any_congr' {α : Type} (f g : α → Bool) :
    ∀ l : List α, (∀ x ∈ l, f x = g x) → l.any f = l.any g
  | [], _ => rfl
  | a :: l, h => by
    simp only [List.any_cons]
    rw [h a List.mem_cons_self, any_congr' f g l (fun x hx => h x (List.mem_cons_of_mem _ hx))]

private theorem onSegsNZ_eq_any (ss : List (Pt × Pt)) (p : Pt) (h : ∀ s ∈ ss, s.1 ≠ s.2) :
    onSegsNZ ss p = ss.any (fun s => lineCoord s.1 s.2 p) := by
  unfold onSegsNZ
  apply any_congr'
  intro s hs
  simp [h s hs]

mutual
/-- [T] `hits_eq_intersects_linear`: for geometries made of points and linework without
zero-length segments, the condition under which `closest_point` answers `Intersection` *is* geo's
`intersects(p)`; with `closest_intersection_iff`: `Intersection` ⇔ `g.intersects(p)`. (A zero-length
`Line` answers `Indeterminate` even for `p` on it — the "zero-length input" exception of the
property; for areal types the impl asks `intersects(p)` itself before anything else.) -/
theorem hits_eq_intersects_linear (p : Pt) :
    ∀ g : Geom, isLinear g = true → (∀ s ∈ segSet g, s.1 ≠ s.2) → hits g p = isx g p
  | .point _, _, _ => rfl
  | .line a b, _, h => by
    have : a ≠ b := h (a, b) (by simp [segSet])
    simp [hits, isx, this]
  | .lineString cs, _, h => by
    simp only [hits, isx]; exact onSegsNZ_eq_any _ p h
  | .multiPoint _, _, _ => rfl
  | .multiLineString ls, _, h => by
    simp only [hits, isx]
    apply any_congr'
    intro cs hcs
    exact onSegsNZ_eq_any _ p (fun s hs => h s (by simp only [segSet, List.mem_flatMap]; exact ⟨cs, hcs, hs⟩))
  | .collection gs, hl, h => by
    simp only [hits, isx]
    exact hitsList_eq_isxList p gs (by simpa [isLinear] using hl) (by simpa [segSet] using h)
  | .polygon _, hl, _ => by simp [isLinear] at hl
  | .multiPolygon _, hl, _ => by simp [isLinear] at hl
  | .rect _ _, hl, _ => by simp [isLinear] at hl
  | .triangle _ _ _, hl, _ => by simp [isLinear] at hl
theorem hitsList_eq_isxList (p : Pt) :
    ∀ gs : List Geom, isLinearList gs = true → (∀ s ∈ segSetList gs, s.1 ≠ s.2) →
      hitsList gs p = isxList gs p
  | [], _, _ => rfl
  | g :: gs, hl, h => by
    simp only [isLinearList, Bool.and_eq_true] at hl
    simp only [hitsList, isxList]
    rw [hits_eq_intersects_linear p g hl.1 (fun s hs => h s (by simp [segSetList, hs])),
      hitsList_eq_isxList p gs hl.2 (fun s hs => h s (by simp [segSetList, hs]))]
end

/-- [T] for the areal types the first thing the impl does is ask the type's own `intersects(p)`:
whenever that holds the answer is `Intersection(p)`. -/
theorem closest_areal_intersects (g : Geom) (p : Pt) (hg : isLinear g = false)
    (hc : ∀ gs, g ≠ .collection gs) (h : isx g p = true) : closest g p = .intersection p := by
  cases g with
  | polygon poly => simp only [isx] at h; simp [closest, polyClosest, h]
  | multiPolygon ps =>
    simp only [isx, List.any_eq_true] at h
    obtain ⟨poly, hp, hh⟩ := h
    have hhit : hits (.multiPolygon ps) p = true := by
      simp only [hits, List.any_eq_true]
      exact ⟨poly, hp, by simp [polyHits, hh]⟩
    obtain ⟨x, hx⟩ := (closest_intersection_iff _ p).2 hhit
    rw [hx, closest_intersection_eq _ p x hx]
  | rect mn mx => simp only [isx] at h; simp [closest, rectClosest, h]
  | triangle a b c => simp only [isx] at h; simp [closest, triClosest, h]
  | collection gs => exact absurd rfl (hc gs)
  | point _ => simp [isLinear] at hg
  | line _ _ => simp [isLinear] at hg
  | lineString _ => simp [isLinear] at hg
  | multiPoint _ => simp [isLinear] at hg
  | multiLineString _ => simp [isLinear] at hg

/-! ## interior_point -/

/-! ### T1 the polygon scan: the verified branch -/

/-- [T] `interior_verified_branch`: whatever `polygon_interior_point_with_segment_length` returns is
(i) the single coordinate of a one-point exterior, or (ii) a scan candidate that passed the
location test (`loc x ≠ Outside`), whose width is counted exactly when it is `Inside`, or (iii) the
first vertex, and then only because *no* scan candidate passed. -/
theorem interior_verified_branch (loc : Pt → Pos) (poly : Poly) (x : Pt) (w : Rat)
    (h : polyScan loc poly = some (x, w)) :
    (poly.ext = [x] ∧ w = 0) ∨
    (∃ mn mx w', getBoundingRect poly.ext = some (mn, mx) ∧ (x, w') ∈ scanCands poly mn mx ∧
        loc x ≠ .outside ∧ w = (if loc x == .inside then w' else 0)) ∨
    (∃ mn mx, getBoundingRect poly.ext = some (mn, mx) ∧ poly.coords.head? = some x ∧ w = 0 ∧
        ∀ c ∈ scanCands poly mn mx, loc c.1 = .outside) := by
  unfold polyScan at h
  split at h
  · rename_i c hc
    simp only [Option.some.injEq, Prod.mk.injEq] at h
    left; rw [hc, ← h.1]; exact ⟨rfl, h.2.symm⟩
  · cases hb : getBoundingRect poly.ext with
    | none => rw [hb] at h; simp at h
    | some r =>
      obtain ⟨mn, mx⟩ := r
      rw [hb] at h
      simp only at h
      cases hf : firstVerified loc (scanCands poly mn mx) with
      | some r =>
        rw [hf] at h
        simp only [Option.some.injEq] at h
        rw [h] at hf
        obtain ⟨w', hm, hl, hw⟩ := firstVerified_some hf
        right; left; exact ⟨mn, mx, w', rfl, hm, hl, hw⟩
      | none =>
        rw [hf] at h
        simp only [Option.map_eq_some_iff, Prod.mk.injEq] at h
        obtain ⟨c, hc, hx, hw⟩ := h
        right; right
        exact ⟨mn, mx, rfl, by rw [hc, hx], hw.symm, firstVerified_none hf⟩

/-- [T] a non-zero recorded width certifies `Inside` (what the MultiPolygon ranking relies on). -/
theorem interior_width_inside (loc : Pt → Pos) (poly : Poly) (x : Pt) (w : Rat)
    (h : polyScan loc poly = some (x, w)) (hw : w ≠ 0) : loc x = .inside := by
  rcases interior_verified_branch loc poly x w h with ⟨_, h0⟩ | ⟨mn, mx, w', _, _, _, hw'⟩ | ⟨_, _, _, _, h0, _⟩
  · exact absurd h0 hw
  · by_cases hi : loc x = .inside
    · exact hi
    · simp [hi] at hw'; exact absurd hw' hw
  · exact absurd h0 hw

/-- [T] `interior_polygon_on_geometry`: the polygon answer is never a point that failed the
location test, unless it is one of the polygon's own coordinates (one-point exterior / vertex
fallback). -/
theorem interior_polygon_on_geometry (loc : Pt → Pos) (poly : Poly) (x : Pt) (w : Rat)
    (h : polyScan loc poly = some (x, w)) : loc x ≠ .outside ∨ x ∈ poly.coords := by
  rcases interior_verified_branch loc poly x w h with ⟨he, _⟩ | ⟨_, _, _, _, _, hl, _⟩ | ⟨_, _, _, hh, _, _⟩
  · right; simp [Poly.coords, he]
  · left; exact hl
  · right; exact List.mem_of_mem_head? hh

/- Full statement (not provable about the model alone; it is a fact about valid polygons):
     ∀ valid poly, ∃ x w, polyScan (locate (.polygon poly)) poly = some (x, w) ∧ locate (.polygon poly) x = .inside
   It needs: a horizontal line strictly between two vertex ordinates meets the interior of a valid
   polygon in an interval of positive width whose midpoint is off the boundary. That existence
   statement is PROVED below: for hole-free polygons with a simple exterior ring
   (`interior_strict_ringSimple`, `interior_polygon_inside_simple`), for `polyValid` polygons with
   holes under three explicit cross-ring hypotheses (`interior_strict_valid_partial`), and — the
   hypotheses discharged from `polyValid` through the winding-number theory of Lemmas/WIND*.lean — for
   EVERY OGC-valid polygon (`interior_strict_valid`, `interior_polygon_inside_valid`,
   `interior_multipolygon_inside_valid`). -/
/-- [Tp] `interior_strict_partial`: *if* no scan midpoint lies on the boundary and some scan
midpoint is `Inside`, the returned point is `Inside`. -/
theorem interior_strict_partial (loc : Pt → Pos) (poly : Poly) (mn mx : Pt)
    (hext : ∀ c, poly.ext ≠ [c]) (hb : getBoundingRect poly.ext = some (mn, mx))
    (hnb : ∀ c ∈ scanCands poly mn mx, loc c.1 ≠ .onBoundary)
    (hin : ∃ c ∈ scanCands poly mn mx, loc c.1 = .inside) :
    ∃ x w, polyScan loc poly = some (x, w) ∧ loc x = .inside := by
  obtain ⟨c, hc, hci⟩ := hin
  obtain ⟨r, hr⟩ := firstVerified_of_mem (loc := loc) hc (by rw [hci]; simp)
  have hps : polyScan loc poly = some r := by
    unfold polyScan
    split
    · rename_i c' hc'; exact absurd hc' (hext c')
    · rw [hb]; simp only [hr]
  obtain ⟨x, w⟩ := r
  refine ⟨x, w, hps, ?_⟩
  obtain ⟨w', hm, hl, _⟩ := firstVerified_some hr
  have hnb' := hnb _ hm
  cases hlx : loc x with
  | inside => rfl
  | outside => exact absurd hlx hl
  | onBoundary => exact absurd hlx hnb'

/-- witness for the hypotheses of `interior_strict_partial`: the unit-2 square -/
example :
    polyScan (fun q => if 0 < q.x ∧ q.x < 2 ∧ 0 < q.y ∧ q.y < 2 then .inside else .outside)
      ⟨[⟨0, 0⟩, ⟨2, 0⟩, ⟨2, 2⟩, ⟨0, 2⟩, ⟨0, 0⟩], []⟩ = some (⟨1, 1⟩, 2) := by decide +kernel

/-! ### T1 `None` only for empty geometries -/

mutual
/-- [T] `interior_none_iff`: `interior_point` is `None` exactly for empty geometries
(`HasDimensions::is_empty`), for every type and nesting, every `len` and every location function. -/
theorem interior_none_iff (len : Pt → Pt → Rat) (locOf : Poly → Pt → Pos) :
    ∀ g : Geom, interior len locOf g = none ↔ Cen.isEmpty g = true
  | .point _ => by simp [interior, Cen.isEmpty]
  | .line _ _ => by simp [interior, Cen.isEmpty]
  | .lineString cs => by
    simp only [interior, Cen.isEmpty, lsInterior_eq_none, List.isEmpty_iff]
  | .polygon poly => by
    simp only [interior, polyInterior, Option.map_eq_none_iff, polyScan_eq_none, Cen.isEmpty,
      List.isEmpty_iff]
  | .multiPoint ps => by
    simp only [interior, mptInterior, Cen.isEmpty]
    cases h : Cen.centroid len (.multiPoint ps) with
    | none =>
      have := (Geo.Proofs.C06.centroid_none_iff len _).1 h
      simpa [Cen.isEmpty] using this
    | some c =>
      have hne : ¬ (Cen.isEmpty (.multiPoint ps) = true) := by
        intro he
        have := (Geo.Proofs.C06.centroid_none_iff len _).2 he
        rw [h] at this; simp at this
      simp only [Cen.isEmpty, List.isEmpty_iff] at hne
      simp only [minByKey_eq_none, List.isEmpty_iff]
  | .multiLineString ls => by
    simp only [interior, Cen.isEmpty, mlsInterior_eq_none]
  | .multiPolygon ps => by
    simp only [interior, Cen.isEmpty, mpolyInterior_eq_none]
  | .rect _ _ => by simp [interior, Cen.isEmpty]
  | .triangle a b c => by
    simp only [interior]
    exact Geo.Proofs.C06.centroid_none_iff len _
  | .collection gs => by
    simp only [interior, Cen.isEmpty]
    cases h : Cen.centroid len (.collection gs) with
    | none =>
      have := (Geo.Proofs.C06.centroid_none_iff len _).1 h
      simpa [Cen.isEmpty] using this
    | some c =>
      have hne : ¬ (Cen.isEmptyList gs = true) := by
        intro he
        have := (Geo.Proofs.C06.centroid_none_iff len (.collection gs)).2 (by simpa [Cen.isEmpty] using he)
        rw [h] at this; simp at this
      simp only [Option.map_eq_none_iff, minByKey_eq_none, interiorCands_nil_iff len locOf gs]
/-- the members contribute no candidate exactly when all of them are empty -/
theorem interiorCands_nil_iff (len : Pt → Pt → Rat) (locOf : Poly → Pt → Pos) :
    ∀ gs : List Geom, interiorCands len locOf gs = [] ↔ Cen.isEmptyList gs = true
  | [] => by simp [interiorCands, Cen.isEmptyList]
  | g :: gs => by
    simp only [interiorCands, Cen.isEmptyList, Bool.and_eq_true]
    cases h : interior len locOf g with
    | none =>
      simp only [(interior_none_iff len locOf g).1 h, true_and]
      exact interiorCands_nil_iff len locOf gs
    | some x =>
      have : ¬ (Cen.isEmpty g = true) := fun he => by
        rw [(interior_none_iff len locOf g).2 he] at h; simp at h
      simp [this]
end

example : interior (fun _ _ => 1) (fun _ _ => .outside)
    (.collection [.multiPolygon [], .lineString [], .polygon ⟨[], [[⟨1, 1⟩]]⟩]) = none := by
  rw [interior_none_iff]; rfl

/-! ### T1 linear and point types: the result is a vertex of the geometry -/

theorem lsInterior_mem (len : Pt → Pt → Rat) (cs : List Pt) (x : Pt) (h : lsInterior len cs = some x) :
    x ∈ cs := by
  match cs with
  | [] => simp [lsInterior] at h
  | [a] => simp [lsInterior] at h; simp [h]
  | [a, b] => simp [lsInterior] at h; simp [h]
  | a :: b :: c :: rest =>
    simp only [lsInterior] at h
    cases hc : Cen.centroid len (.lineString (a :: b :: c :: rest)) with
    | none => rw [hc] at h; simp at h
    | some cc =>
      rw [hc] at h
      have := minByKey_mem _ h
      exact List.mem_cons_of_mem _ (List.mem_of_mem_dropLast this)

/-- [T] the interior point of a `LineString` with at least three coordinates is a *non-endpoint*
vertex position: it comes from `coords[1 .. n-1]`, and it is one closest to the centroid. -/
theorem ls_interior_inner_vertex (len : Pt → Pt → Rat) (a b c : Pt) (rest : List Pt) (x : Pt)
    (h : lsInterior len (a :: b :: c :: rest) = some x) :
    x ∈ (b :: c :: rest).dropLast ∧
    ∀ cc, Cen.centroid len (.lineString (a :: b :: c :: rest)) = some cc →
      ∀ q ∈ (b :: c :: rest).dropLast, dist2 x cc ≤ dist2 q cc := by
  simp only [lsInterior] at h
  cases hc : Cen.centroid len (.lineString (a :: b :: c :: rest)) with
  | none => rw [hc] at h; simp at h
  | some cc =>
    rw [hc] at h
    refine ⟨minByKey_mem _ h, ?_⟩
    intro cc' hcc' q hq
    simp only [Option.some.injEq] at hcc'
    subst hcc'
    exact minByKey_min (fun q => dist2 q cc) h q hq

mutual
/-- [T] `interior_linear_vertex`: for geometries made of points and linework only, the interior
point is one of the geometry's own coordinates (hence a point of the geometry, exactly — no
arithmetic is performed on it). -/
theorem interior_linear_vertex (len : Pt → Pt → Rat) (locOf : Poly → Pt → Pos) :
    ∀ (g : Geom) (x : Pt), isLinear g = true → interior len locOf g = some x → x ∈ coordsIter g
  | .point p, x, _, h => by simp [interior] at h; simp [coordsIter, h]
  | .line a b, x, _, h => by simp [interior] at h; simp [coordsIter, h]
  | .lineString cs, x, _, h => by
    simp only [interior] at h
    exact lsInterior_mem len cs x h
  | .multiPoint ps, x, _, h => by
    simp only [interior, mptInterior] at h
    cases hc : Cen.centroid len (.multiPoint ps) with
    | none => rw [hc] at h; simp at h
    | some c => rw [hc] at h; exact minByKey_mem _ h
  | .multiLineString ls, x, _, h => by
    simp only [interior, mlsInterior] at h
    cases hc : Cen.centroid len (.multiLineString ls) with
    | none => rw [hc] at h; simp at h
    | some c =>
      rw [hc] at h
      have hm := minByKey_mem _ h
      obtain ⟨cs, hcs, hx⟩ := List.mem_filterMap.1 hm
      simp only [coordsIter, List.mem_flatten]
      exact ⟨cs, hcs, lsInterior_mem len cs x hx⟩
  | .collection gs, x, hl, h => by
    simp only [interior] at h
    cases hc : Cen.centroid len (.collection gs) with
    | none => rw [hc] at h; simp at h
    | some c =>
      rw [hc] at h
      simp only [Option.map_eq_some_iff] at h
      obtain ⟨pd, hpd, hx⟩ := h
      have hm := minByKey_mem _ hpd
      simp only [coordsIter]
      rw [← hx]
      exact interiorCands_linear_vertex len locOf gs (by simpa [isLinear] using hl) pd hm
  | .polygon _, _, hl, _ => by simp [isLinear] at hl
  | .multiPolygon _, _, hl, _ => by simp [isLinear] at hl
  | .rect _ _, _, hl, _ => by simp [isLinear] at hl
  | .triangle _ _ _, _, hl, _ => by simp [isLinear] at hl
theorem interiorCands_linear_vertex (len : Pt → Pt → Rat) (locOf : Poly → Pt → Pos) :
    ∀ (gs : List Geom), isLinearList gs = true →
      ∀ pd ∈ interiorCands len locOf gs, pd.1 ∈ coordsIterList gs
  | [], _, pd, h => by simp [interiorCands] at h
  | g :: gs, hl, pd, h => by
    simp only [isLinearList, Bool.and_eq_true] at hl
    simp only [interiorCands] at h
    simp only [coordsIterList, List.mem_append]
    cases hi : interior len locOf g with
    | none =>
      rw [hi] at h
      exact Or.inr (interiorCands_linear_vertex len locOf gs hl.2 pd h)
    | some y =>
      rw [hi] at h
      rcases List.mem_cons.1 h with h | h
      · left; rw [h]; exact interior_linear_vertex len locOf g y hl.1 hi
      · exact Or.inr (interiorCands_linear_vertex len locOf gs hl.2 pd h)
end

/-! ### K1: the start point of a two-vertex line is what `Line`/`LineString` return -/

/-- [T] witness of known finding K1: `Line::interior_point` (and a 2-coordinate `LineString`)
returns the start point — an end point of the segment, i.e. a *boundary* point of a
1-dimensional geometry, although the segment has interior points. -/
theorem interior_line_is_start (len : Pt → Pt → Rat) (locOf : Poly → Pt → Pos) (a b : Pt) :
    interior len locOf (.line a b) = some a ∧ interior len locOf (.lineString [a, b]) = some a := by
  simp [interior, lsInterior]

/-! ### MultiPolygon: the widest verified scan segment -/

/-- [T] the `MultiPolygon` answer is the scan result of one of its polygons, of maximal recorded
width among all polygons' scan results. -/
theorem mpoly_interior_widest (locOf : Poly → Pt → Pos) (ps : List Poly) (x : Pt)
    (h : mpolyInterior locOf ps = some x) :
    ∃ poly ∈ ps, ∃ w, polyScan (locOf poly) poly = some (x, w) ∧
      ∀ poly' ∈ ps, ∀ x' w', polyScan (locOf poly') poly' = some (x', w') → w' ≤ w := by
  unfold mpolyInterior at h
  simp only [Option.map_eq_some_iff] at h
  obtain ⟨r, hr, hx⟩ := h
  have hm := minByKey_mem _ hr
  obtain ⟨poly, hp, hs⟩ := List.mem_filterMap.1 hm
  obtain ⟨y, w⟩ := r
  simp only at hx
  subst hx
  refine ⟨poly, hp, w, hs, ?_⟩
  intro poly' hp' x' w' hs'
  have hmem : (x', w') ∈ ps.filterMap (fun poly => polyScan (locOf poly) poly) :=
    List.mem_filterMap.2 ⟨poly', hp', hs'⟩
  have hr' : minByKey (fun (y x : Pt × Rat) => decide (-y.2 < -x.2))
      (ps.filterMap (fun poly => polyScan (locOf poly) poly)) = some (y, w) := by
    rw [← hr]; congr 1; funext a b; simp
  have := minByKey_min (fun (c : Pt × Rat) => -c.2) hr' (x', w') hmem
  simp only at this
  linarith

/-! ### Rect and Triangle: the returned point is strictly inside -/

/-- [T] the centre of a non-degenerate `Rect` is strictly inside it (`Rect: Contains<Coord>`). -/
theorem rect_interior_strict (len : Pt → Pt → Rat) (locOf : Poly → Pt → Pos) (mn mx : Pt)
    (hx : mn.x < mx.x) (hy : mn.y < mx.y) :
    ∃ x, interior len locOf (.rect mn mx) = some x ∧ rectContainsCoord mn mx x = true := by
  refine ⟨Cen.rectCenter mn mx, by simp [interior], ?_⟩
  rw [rectContainsCoord_iff]
  simp only [Cen.rectCenter]
  refine ⟨?_, ?_, ?_, ?_⟩ <;> linarith

example : interior (fun _ _ => 1) (fun _ _ => .outside) (.rect ⟨0, 0⟩ ⟨4, 2⟩) = some ⟨2, 1⟩ := by
  decide +kernel

theorem triangle_centroid_eq (len : Pt → Pt → Rat) (a b c : Pt) (h : crossProd a b c ≠ 0) :
    Cen.centroid len (.triangle a b c) = some (Cen.Pt.divS (a + b + c) 3) := by
  have hw : rabs (Cen.triArea a b c) ≠ 0 := by
    have : Cen.triArea a b c = crossProd a b c / 2 := by
      simp only [Cen.triArea, Cen.det, crossProd, sub_x, sub_y]
    rw [this]
    unfold rabs
    split
    · intro h0; apply h; linarith
    · intro h0; apply h; linarith
  simp only [Cen.centroid, Cen.addGeom, Cen.addTriangle, Cen.triDims, h, if_false]
  simp only [Cen.addCentroid, Cen.addWC, Cen.Op.centroid, Option.map_some, Option.some.injEq]
  generalize rabs (Cen.triArea a b c) = w at hw
  apply Pt.ext'
  · simp only [Cen.Pt.divS, Pt.smul]; field_simp
  · simp only [Cen.Pt.divS, Pt.smul]; field_simp

@[simp] private theorem add_x (a b : Pt) : (a + b).x = a.x + b.x := rfl
@[simp] private theorem add_y (a b : Pt) : (a + b).y = a.y + b.y := rfl

/-- [T] the interior point of a non-degenerate `Triangle` is its vertex average and lies strictly
inside it (`Triangle: Contains<Coord>`: strictly the same side of all three edges). -/
theorem triangle_interior_strict (len : Pt → Pt → Rat) (locOf : Poly → Pt → Pos) (a b c : Pt)
    (h : crossProd a b c ≠ 0) :
    ∃ x, interior len locOf (.triangle a b c) = some x ∧ triContainsCoord a b c x = true := by
  refine ⟨Cen.Pt.divS (a + b + c) 3, by simp only [interior]; exact triangle_centroid_eq len a b c h, ?_⟩
  rw [triContainsCoord_iff]
  have e1 : cross a b (Cen.Pt.divS (a + b + c) 3) = crossProd a b c / 3 := by
    simp only [cross, crossProd, Cen.Pt.divS, add_x, add_y]; ring
  have e2 : cross b c (Cen.Pt.divS (a + b + c) 3) = crossProd a b c / 3 := by
    simp only [cross, crossProd, Cen.Pt.divS, add_x, add_y]; ring
  have e3 : cross c a (Cen.Pt.divS (a + b + c) 3) = crossProd a b c / 3 := by
    simp only [cross, crossProd, Cen.Pt.divS, add_x, add_y]; ring
  rw [e1, e2, e3]
  rcases lt_or_gt_of_ne h with hn | hp
  · right; refine ⟨?_, ?_, ?_⟩ <;> linarith
  · left; refine ⟨?_, ?_, ?_⟩ <;> linarith

example : interior (fun _ _ => 1) (fun _ _ => .outside) (.triangle ⟨0, 0⟩ ⟨3, 0⟩ ⟨0, 3⟩) = some ⟨1, 1⟩ := by
  decide +kernel

/-! ### the scan line avoids every vertex -/

/-- [T] `yMid_avoids_vertices`: as soon as the polygon's coordinates do not all share the middle
ordinate, the chosen scan ordinate differs from the ordinate of *every* coordinate (so the scan
line crosses edges only in their relative interiors — the "reduce the likelihood of collinear
intersections" comment is in fact a guarantee). -/
theorem yMid_avoids_vertices (mn mx : Pt) (coords : List Pt)
    (h : ∃ c ∈ coords, c.y ≠ (mn.y + mx.y) / 2) : ∀ c ∈ coords, c.y ≠ yMid mn mx coords := by
  intro v hv
  unfold yMid
  simp only
  by_cases hany : (coords.any fun c => c.y == (mn.y + mx.y) / 2) = true
  · simp only [hany, if_true]
    obtain ⟨c0, hc0, hne0⟩ := h
    have hmem0 : c0.y ∈ (coords.filter (fun c => !(c.y == (mn.y + mx.y) / 2))).map (·.y) :=
      List.mem_map.2 ⟨c0, List.mem_filter.2 ⟨hc0, by simpa using hne0⟩, rfl⟩
    obtain ⟨m, hm⟩ := minByKey_isSome
      (fun (y x : Rat) => decide (rabs (y - (mn.y + mx.y) / 2) < rabs (x - (mn.y + mx.y) / 2)))
      (List.ne_nil_of_mem hmem0)
    rw [hm]
    simp only
    have hmin := minByKey_min (fun y : Rat => rabs (y - (mn.y + mx.y) / 2)) hm
    have hmm := minByKey_mem _ hm
    obtain ⟨cm, hcm, hcmy⟩ := List.mem_map.1 hmm
    have hmne : m ≠ (mn.y + mx.y) / 2 := by
      have := (List.mem_filter.1 hcm).2
      rw [← hcmy]; simpa using this
    intro heq
    by_cases hvy : v.y = (mn.y + mx.y) / 2
    · apply hmne; linarith
    · have hvm : v.y ∈ (coords.filter (fun c => !(c.y == (mn.y + mx.y) / 2))).map (·.y) :=
        List.mem_map.2 ⟨v, List.mem_filter.2 ⟨hv, by simpa using hvy⟩, rfl⟩
      have hle := hmin _ hvm
      have hv2 : v.y - (mn.y + mx.y) / 2 = (m - (mn.y + mx.y) / 2) / 2 := by rw [heq]; ring
      rw [hv2] at hle
      have hpos : 0 < rabs (m - (mn.y + mx.y) / 2) := by
        unfold rabs; split
        · linarith
        · rename_i hge
          have : m - (mn.y + mx.y) / 2 ≠ 0 := fun h0 => hmne (by linarith)
          rcases lt_or_gt_of_ne this with h1 | h1
          · exact absurd h1 hge
          · exact h1
      have hhalf : rabs ((m - (mn.y + mx.y) / 2) / 2) = rabs (m - (mn.y + mx.y) / 2) / 2 := by
        unfold rabs
        by_cases hneg : m - (mn.y + mx.y) / 2 < 0
        · have : (m - (mn.y + mx.y) / 2) / 2 < 0 := by linarith
          simp only [hneg, this, if_true]; ring
        · have : ¬ (m - (mn.y + mx.y) / 2) / 2 < 0 := by linarith
          simp only [hneg, this, if_false]
      rw [hhalf] at hle
      linarith
  · simp only [hany]
    intro heq
    apply hany
    rw [List.any_eq_true]
    exact ⟨v, hv, by simpa using heq⟩

example : yMid ⟨0, 0⟩ ⟨2, 2⟩ [⟨0, 0⟩, ⟨2, 1⟩, ⟨0, 2⟩] = 1 / 2 := by decide +kernel

/-- [T] every scan candidate lies on the scan line `y = yMid`. -/
theorem scanCands_on_scan_line (poly : Poly) (mn mx : Pt) :
    ∀ c ∈ scanCands poly mn mx, c.1.y = yMid mn mx poly.coords := by
  intro c hc
  simp only [scanCands, List.mem_map] at hc
  obtain ⟨c', _, rfl⟩ := hc
  rfl

/-! ### every scan candidate is the midpoint of two boundary crossings -/

private theorem mem_insertBy {α : Type} (le : α → α → Bool) (a x : α) :
    ∀ l : List α, x ∈ insertBy le a l ↔ x = a ∨ x ∈ l
  | [] => by simp [insertBy]
  | b :: bs => by
    simp only [insertBy]
    split
    · simp
    · simp only [List.mem_cons, mem_insertBy le a x bs]
      constructor
      · rintro (h | h | h)
        · exact Or.inr (Or.inl h)
        · exact Or.inl h
        · exact Or.inr (Or.inr h)
      · rintro (h | h | h)
        · exact Or.inr (Or.inl h)
        · exact Or.inl h
        · exact Or.inr (Or.inr h)

private theorem mem_isort {α : Type} (le : α → α → Bool) (x : α) :
    ∀ l : List α, x ∈ isort le l ↔ x ∈ l
  | [] => by simp [isort]
  | a :: l => by
    have ih := mem_isort le x l
    simp only [isort, List.foldr_cons] at ih ⊢
    rw [mem_insertBy, ih, List.mem_cons]

private theorem pairsMid_mem : ∀ (xs : List Rat) (c : Rat × Rat), c ∈ pairsMid xs →
    ∃ a ∈ xs, ∃ b ∈ xs, c.1 = (a + b) / 2 ∧ c.2 = b - a
  | [], c, h => by simp [pairsMid] at h
  | [_], c, h => by simp [pairsMid] at h
  | a :: b :: rest, c, h => by
    simp only [pairsMid, List.mem_cons] at h
    rcases h with h | h
    · exact ⟨a, by simp, b, by simp, by rw [h], by rw [h]⟩
    · obtain ⟨a', ha', b', hb', h1, h2⟩ := pairsMid_mem (b :: rest) c h
      exact ⟨a', List.mem_cons_of_mem _ ha', b', List.mem_cons_of_mem _ hb', h1, h2⟩

/-- [T] `scanCands_midpoint`: every candidate the scan tries is `((a + b) / 2, yMid)` with recorded
width `b − a`, where `a` and `b` are abscissae at which `line_intersection` reports that a polygon
edge (exterior or interior ring) meets the scan line. -/
theorem scanCands_midpoint (poly : Poly) (mn mx : Pt) (c : Pt × Rat) (hc : c ∈ scanCands poly mn mx) :
    ∃ e1 ∈ poly.lines, ∃ e2 ∈ poly.lines,
      ∃ a ∈ hitXs ⟨mn.x, yMid mn mx poly.coords⟩ ⟨mx.x, yMid mn mx poly.coords⟩ e1,
      ∃ b ∈ hitXs ⟨mn.x, yMid mn mx poly.coords⟩ ⟨mx.x, yMid mn mx poly.coords⟩ e2,
        c.1 = ⟨(a + b) / 2, yMid mn mx poly.coords⟩ ∧ c.2 = b - a := by
  simp only [scanCands, List.mem_map] at hc
  obtain ⟨c', hc', rfl⟩ := hc
  rw [mem_isort] at hc'
  obtain ⟨a, ha, b, hb, h1, h2⟩ := pairsMid_mem _ c' hc'
  rw [mem_isort, List.mem_flatMap] at ha hb
  obtain ⟨e1, he1, ha⟩ := ha
  obtain ⟨e2, he2, hb⟩ := hb
  exact ⟨e1, he1, e2, he2, a, ha, b, hb, by simp only [h1], h2⟩

/-! ### crossing structure of a horizontal line with a closed ring -/

/-- [T] `level_winding_crossings`: on a level `y` that is the ordinate of no vertex of the closed
ring `r`, the winding number of `(x, y)` is minus the signed count (`+1` upward, `−1` downward:
`sgnE`) of the edges that straddle `y` and cross it at an abscissa `≤ x` (equivalently, the signed
count of those crossing at an abscissa `> x`, the total being 0). -/
theorem level_winding_crossings (x y : Rat) (r : List Pt) (hc : r.head? = r.getLast?)
    (hy : ∀ v ∈ r, v.y ≠ y) :
    windingE (EPt.ofPt ⟨x, y⟩) r =
      - ((segs r).map (fun e => if xAt y e ≤ x then sgnE y e else 0)).sum ∧
    ((segs r).map (sgnE y)).sum = 0 := by
  refine ⟨?_, sum_sgnE_closed y r hc hy⟩
  rw [winding_level x y r hc hy]
  simp only [psum, decide_eq_true_eq]

/-- [T] `level_winding_step`: moving the point to the right across exactly one crossing changes the
winding number by `±1`. -/
theorem level_winding_step (x x' y : Rat) (r : List Pt) (hc : r.head? = r.getLast?)
    (hy : ∀ v ∈ r, v.y ≠ y) (hxx : x ≤ x')
    (hone : (((segs r).flatMap (crossXs y)).filter (fun t => decide (x < t) && decide (t ≤ x'))).length = 1) :
    windingE (EPt.ofPt ⟨x', y⟩) r = windingE (EPt.ofPt ⟨x, y⟩) r + 1 ∨
    windingE (EPt.ofPt ⟨x', y⟩) r = windingE (EPt.ofPt ⟨x, y⟩) r - 1 :=
  winding_step x x' y r hc hy hxx hone

/-- [T] `level_winding_first_interval`: left of all crossings the winding number is 0; with exactly
one crossing at or left of the point (between the first and the second crossing) it is `±1`. -/
theorem level_winding_first_interval (x y : Rat) (r : List Pt) (hc : r.head? = r.getLast?)
    (hy : ∀ v ∈ r, v.y ≠ y) :
    ((∀ t ∈ (segs r).flatMap (crossXs y), ¬ t ≤ x) → windingE (EPt.ofPt ⟨x, y⟩) r = 0) ∧
    ((((segs r).flatMap (crossXs y)).filter (fun t => decide (t ≤ x))).length = 1 →
      (windingE (EPt.ofPt ⟨x, y⟩) r = 1 ∨ windingE (EPt.ofPt ⟨x, y⟩) r = -1)) :=
  ⟨winding_zero_of_none x y r hc hy, winding_pm_one_of_one x y r hc hy⟩

/-- [T] `level_crossing_exists`: a closed ring with a vertex strictly below and a vertex strictly
above a level that avoids its vertices has an edge that straddles the level (discrete intermediate
value), an even number of crossings, hence at least two. -/
theorem level_crossing_exists (y : Rat) (r : List Pt) (hc : r.head? = r.getLast?)
    (hy : ∀ v ∈ r, v.y ≠ y) (hlo : ∃ v ∈ r, v.y < y) (hhi : ∃ v ∈ r, y < v.y) :
    (∃ e ∈ segs r, sgnE y e ≠ 0) ∧ ((segs r).flatMap (crossXs y)).length % 2 = 0 ∧
      2 ≤ ((segs r).flatMap (crossXs y)).length :=
  ⟨exists_straddle y r hy hlo hhi, crossings_even y r hc hy, two_crossings y r hc hy hlo hhi⟩

/-- the unit-2 square on the level 1: crossings at 2 (upward) and 0 (downward); winding number 1 at
`x = 1`, 0 at `x = -1` -/
example : (segs [⟨0, 0⟩, ⟨2, 0⟩, ⟨2, 2⟩, ⟨0, 2⟩, (⟨0, 0⟩ : Pt)]).flatMap (crossXs 1) = [2, 0] ∧
    windingE (EPt.ofPt ⟨1, 1⟩) [⟨0, 0⟩, ⟨2, 0⟩, ⟨2, 2⟩, ⟨0, 2⟩, ⟨0, 0⟩] = 1 ∧
    windingE (EPt.ofPt ⟨-1, 1⟩) [⟨0, 0⟩, ⟨2, 0⟩, ⟨2, 2⟩, ⟨0, 2⟩, ⟨0, 0⟩] = 0 := by decide +kernel

/-- the hypotheses of the `level_…` theorems on that square -/
example : windingE (EPt.ofPt ⟨1, 1⟩) [⟨0, 0⟩, ⟨2, 0⟩, ⟨2, 2⟩, ⟨0, 2⟩, ⟨0, 0⟩] = 1 ∨
    windingE (EPt.ofPt ⟨1, 1⟩) [⟨0, 0⟩, ⟨2, 0⟩, ⟨2, 2⟩, ⟨0, 2⟩, ⟨0, 0⟩] = -1 :=
  (level_winding_first_interval 1 1 _ (by decide +kernel) (by decide +kernel)).2 (by decide +kernel)
example : windingE (EPt.ofPt ⟨3, 1⟩) [⟨0, 0⟩, ⟨2, 0⟩, ⟨2, 2⟩, ⟨0, 2⟩, ⟨0, 0⟩] =
      windingE (EPt.ofPt ⟨1, 1⟩) [⟨0, 0⟩, ⟨2, 0⟩, ⟨2, 2⟩, ⟨0, 2⟩, ⟨0, 0⟩] + 1 ∨
    windingE (EPt.ofPt ⟨3, 1⟩) [⟨0, 0⟩, ⟨2, 0⟩, ⟨2, 2⟩, ⟨0, 2⟩, ⟨0, 0⟩] =
      windingE (EPt.ofPt ⟨1, 1⟩) [⟨0, 0⟩, ⟨2, 0⟩, ⟨2, 2⟩, ⟨0, 2⟩, ⟨0, 0⟩] - 1 :=
  level_winding_step 1 3 1 _ (by decide +kernel) (by decide +kernel) (by norm_num) (by decide +kernel)
example : 2 ≤ ((segs [⟨0, 0⟩, ⟨2, 0⟩, ⟨2, 2⟩, ⟨0, 2⟩, (⟨0, 0⟩ : Pt)]).flatMap (crossXs 1)).length :=
  (level_crossing_exists 1 _ (by decide +kernel) (by decide +kernel) ⟨⟨0, 0⟩, by simp, by norm_num⟩
    ⟨⟨2, 2⟩, by simp, by norm_num⟩).2.2

/-! ### an `Inside` scan midpoint exists: the existence hypothesis of `interior_strict_partial` removed -/

/- Full statement: for every `polyValid` polygon the model's `interior_point` is `Inside`.
   Proved here from the crossing structure of the scan line (Lemmas/C12QCross, C12QScan: on a level
   that avoids all vertices the winding number of a closed ring around `(x, y)` is minus the signed
   count of the crossings at or left of `x`; a closed ring has an even number of crossings; the first
   midpoint has exactly one crossing to its left) under explicit hypotheses that validity implies:
   (a) all rings closed, (b) the hit abscissae pairwise distinct (a repeated abscissa is a point where
   two edges meet off their vertices, excluded by simplicity), (c) hole coordinates inside the bounding
   box of the exterior ring and (d) every hole crossing has an exterior-ring crossing to its left
   (holes lie inside the shell). `interior_strict_valid_partial` below derives (a), (c) and the
   one-ring part of (b) from `polyValid`. -/
/-- set-up shared by the theorems below: the scan level avoids every vertex and lies strictly
between the lowest and the highest vertex of the exterior ring -/
private theorem scan_setup (poly : Poly) (mn mx : Pt)
    (hflat : ∃ c ∈ poly.ext, ∃ c' ∈ poly.ext, c.y ≠ c'.y)
    (hb : getBoundingRect poly.ext = some (mn, mx))
    (hin : ∀ v ∈ poly.coords, (mn.x ≤ v.x ∧ v.x ≤ mx.x) ∧ (mn.y ≤ v.y ∧ v.y ≤ mx.y))
    (hnd : (poly.lines.flatMap
      (hitXs ⟨mn.x, yMid mn mx poly.coords⟩ ⟨mx.x, yMid mn mx poly.coords⟩)).Nodup) :
    ScanOK poly mn mx ∧ (∀ c, poly.ext ≠ [c]) ∧
      (∃ v ∈ poly.ext, v.y < yMid mn mx poly.coords) ∧ (∃ v ∈ poly.ext, yMid mn mx poly.coords < v.y) := by
  obtain ⟨hbd, _, _, ⟨pl, hpl, hply⟩, ⟨ph, hph, hphy⟩⟩ :=
    Geo.Proofs.C19.getBoundingRect_bounds poly.ext mn mx hb
  obtain ⟨c, hc, c', hc', hcc⟩ := hflat
  have hlt : mn.y < mx.y := by
    have b1 := hbd c hc
    have b2 := hbd c' hc'
    by_contra hge
    apply hcc
    linarith [b1.2.2.1, b1.2.2.2, b2.2.2.1, b2.2.2.2]
  have hextc : ∀ v ∈ poly.ext, v ∈ poly.coords := fun v hv => by
    unfold Poly.coords; exact List.mem_append_left _ hv
  have hy := yMid_avoids_vertices mn mx poly.coords ⟨pl, hextc _ hpl, by rw [hply]; linarith⟩
  obtain ⟨s1, s2⟩ := yMid_strict mn mx poly.coords hlt (fun v hv => (hin v hv).2)
  refine ⟨⟨hy, fun v hv => (hin v hv).1, hnd⟩, ?_, ⟨pl, hpl, by rw [hply]; exact s1⟩,
    ⟨ph, hph, by rw [hphy]; exact s2⟩⟩
  intro c0 he
  rw [he] at hc hc'
  simp only [List.mem_singleton] at hc hc'
  exact hcc (by rw [hc, hc'])

private theorem mem_lines_ext {poly : Poly} {e : Pt × Pt} (he : e ∈ windows2 poly.ext) : e ∈ poly.lines := by
  unfold Poly.lines; exact List.mem_append_left _ he

private theorem mem_lines_hole {poly : Poly} {hole : List Pt} (hh : hole ∈ poly.ints) {e : Pt × Pt}
    (he : e ∈ windows2 hole) : e ∈ poly.lines := by
  unfold Poly.lines
  exact List.mem_append_right _ (List.mem_flatten.2 ⟨_, List.mem_map.2 ⟨hole, hh, rfl⟩, he⟩)

/-- [Tp] `interior_strict_holes_partial`: polygon with holes, all rings closed, exterior ring not
flat; hit abscissae pairwise distinct; hole coordinates inside the exterior bounding box and every
hole crossing preceded by an exterior crossing. Then the midpoint of the first two crossings is
`Inside`, no candidate is on the boundary, and the model's result is `Inside`. -/
theorem interior_strict_holes_partial (poly : Poly) (mn mx : Pt)
    (hclosed : ∀ r ∈ poly.rings, r.head? = r.getLast?)
    (hflat : ∃ c ∈ poly.ext, ∃ c' ∈ poly.ext, c.y ≠ c'.y)
    (hb : getBoundingRect poly.ext = some (mn, mx))
    (hin : ∀ v ∈ poly.coords, (mn.x ≤ v.x ∧ v.x ≤ mx.x) ∧ (mn.y ≤ v.y ∧ v.y ≤ mx.y))
    (hnd : (poly.lines.flatMap
      (hitXs ⟨mn.x, yMid mn mx poly.coords⟩ ⟨mx.x, yMid mn mx poly.coords⟩)).Nodup)
    (hfirst : ∀ hole ∈ poly.ints, ∀ e ∈ windows2 hole,
      ∀ t ∈ hitXs ⟨mn.x, yMid mn mx poly.coords⟩ ⟨mx.x, yMid mn mx poly.coords⟩ e,
      ∃ e' ∈ windows2 poly.ext,
        ∃ t' ∈ hitXs ⟨mn.x, yMid mn mx poly.coords⟩ ⟨mx.x, yMid mn mx poly.coords⟩ e', t' < t) :
    ∃ x w, polyScan (locate (.polygon poly)) poly = some (x, w) ∧
      locate (.polygon poly) x = .inside := by
  obtain ⟨hok, hext, hlo, hhi⟩ := scan_setup poly mn mx hflat hb hin hnd
  have hfirst' : ∀ hole ∈ poly.ints, ∀ t ∈ (segs hole).flatMap (crossXs (yMid mn mx poly.coords)),
      ∃ t' ∈ (segs poly.ext).flatMap (crossXs (yMid mn mx poly.coords)), t' < t := by
    intro hole hh t ht
    rw [List.mem_flatMap] at ht
    obtain ⟨e, he, hte⟩ := ht
    rw [← windows2_eq_segs] at he
    rw [← ScanOK.hit_edge poly mn mx hok (mem_lines_hole hh he)] at hte
    obtain ⟨e', he', t', ht', hlt'⟩ := hfirst hole hh e he t hte
    refine ⟨t', ?_, hlt'⟩
    rw [List.mem_flatMap]
    refine ⟨e', by rw [← windows2_eq_segs]; exact he', ?_⟩
    rw [← ScanOK.hit_edge poly mn mx hok (mem_lines_ext he')]; exact ht'
  exact interior_strict_partial _ poly mn mx hext hb (scan_not_boundary poly mn mx hok)
    (scan_first_inside poly mn mx hok hclosed hlo hhi hfirst')

/-- [Tp] `interior_strict_holes_wound_partial`: the same with "holes lie inside the shell" in its
geometric form — the exterior ring winds around every point where a hole edge meets the scan
line — in place of the order hypothesis. -/
theorem interior_strict_holes_wound_partial (poly : Poly) (mn mx : Pt)
    (hclosed : ∀ r ∈ poly.rings, r.head? = r.getLast?)
    (hflat : ∃ c ∈ poly.ext, ∃ c' ∈ poly.ext, c.y ≠ c'.y)
    (hb : getBoundingRect poly.ext = some (mn, mx))
    (hin : ∀ v ∈ poly.coords, (mn.x ≤ v.x ∧ v.x ≤ mx.x) ∧ (mn.y ≤ v.y ∧ v.y ≤ mx.y))
    (hnd : (poly.lines.flatMap
      (hitXs ⟨mn.x, yMid mn mx poly.coords⟩ ⟨mx.x, yMid mn mx poly.coords⟩)).Nodup)
    (hwound : ∀ hole ∈ poly.ints, ∀ e ∈ windows2 hole,
      ∀ t ∈ hitXs ⟨mn.x, yMid mn mx poly.coords⟩ ⟨mx.x, yMid mn mx poly.coords⟩ e,
        windingE (EPt.ofPt ⟨t, yMid mn mx poly.coords⟩) poly.ext ≠ 0) :
    ∃ x w, polyScan (locate (.polygon poly)) poly = some (x, w) ∧
      locate (.polygon poly) x = .inside := by
  obtain ⟨hok, hext, hlo, hhi⟩ := scan_setup poly mn mx hflat hb hin hnd
  have hw' : ∀ hole ∈ poly.ints, ∀ t ∈ (segs hole).flatMap (crossXs (yMid mn mx poly.coords)),
      windingE (EPt.ofPt ⟨t, yMid mn mx poly.coords⟩) poly.ext ≠ 0 := by
    intro hole hh t ht
    rw [List.mem_flatMap] at ht
    obtain ⟨e, he, hte⟩ := ht
    rw [← windows2_eq_segs] at he
    rw [← ScanOK.hit_edge poly mn mx hok (mem_lines_hole hh he)] at hte
    exact hwound hole hh e he t hte
  exact interior_strict_partial _ poly mn mx hext hb (scan_not_boundary poly mn mx hok)
    (scan_first_inside poly mn mx hok hclosed hlo hhi
      (first_of_wound poly mn mx hok (hclosed _ (by simp [Poly.rings])) hw'))

/-- a square with a square hole: the hypotheses of `interior_strict_holes_wound_partial` hold and the
scan returns the midpoint of the first interval -/
example : polyScan (locate (.polygon ⟨[⟨0, 0⟩, ⟨6, 0⟩, ⟨6, 6⟩, ⟨0, 6⟩, ⟨0, 0⟩],
      [[⟨2, 2⟩, ⟨2, 5⟩, ⟨4, 5⟩, ⟨4, 2⟩, ⟨2, 2⟩]]⟩))
    ⟨[⟨0, 0⟩, ⟨6, 0⟩, ⟨6, 6⟩, ⟨0, 6⟩, ⟨0, 0⟩], [[⟨2, 2⟩, ⟨2, 5⟩, ⟨4, 5⟩, ⟨4, 2⟩, ⟨2, 2⟩]]⟩ =
    some (⟨1, 3⟩, 2) := by decide +kernel

/-- the hypotheses of both `…_holes_…partial` theorems on that polygon -/
example : ∃ x w, polyScan (locate (.polygon ⟨[⟨0, 0⟩, ⟨6, 0⟩, ⟨6, 6⟩, ⟨0, 6⟩, ⟨0, 0⟩],
      [[⟨2, 2⟩, ⟨2, 5⟩, ⟨4, 5⟩, ⟨4, 2⟩, ⟨2, 2⟩]]⟩))
      ⟨[⟨0, 0⟩, ⟨6, 0⟩, ⟨6, 6⟩, ⟨0, 6⟩, ⟨0, 0⟩], [[⟨2, 2⟩, ⟨2, 5⟩, ⟨4, 5⟩, ⟨4, 2⟩, ⟨2, 2⟩]]⟩ = some (x, w) ∧
    locate (.polygon ⟨[⟨0, 0⟩, ⟨6, 0⟩, ⟨6, 6⟩, ⟨0, 6⟩, ⟨0, 0⟩],
      [[⟨2, 2⟩, ⟨2, 5⟩, ⟨4, 5⟩, ⟨4, 2⟩, ⟨2, 2⟩]]⟩) x = .inside :=
  interior_strict_holes_partial _ ⟨0, 0⟩ ⟨6, 6⟩ (by decide +kernel)
    ⟨⟨0, 0⟩, by simp, ⟨6, 6⟩, by simp, by norm_num⟩ (by decide +kernel) (by decide +kernel)
    (by decide +kernel) (by decide +kernel)
example : ∃ x w, polyScan (locate (.polygon ⟨[⟨0, 0⟩, ⟨6, 0⟩, ⟨6, 6⟩, ⟨0, 6⟩, ⟨0, 0⟩],
      [[⟨2, 2⟩, ⟨2, 5⟩, ⟨4, 5⟩, ⟨4, 2⟩, ⟨2, 2⟩]]⟩))
      ⟨[⟨0, 0⟩, ⟨6, 0⟩, ⟨6, 6⟩, ⟨0, 6⟩, ⟨0, 0⟩], [[⟨2, 2⟩, ⟨2, 5⟩, ⟨4, 5⟩, ⟨4, 2⟩, ⟨2, 2⟩]]⟩ = some (x, w) ∧
    locate (.polygon ⟨[⟨0, 0⟩, ⟨6, 0⟩, ⟨6, 6⟩, ⟨0, 6⟩, ⟨0, 0⟩],
      [[⟨2, 2⟩, ⟨2, 5⟩, ⟨4, 5⟩, ⟨4, 2⟩, ⟨2, 2⟩]]⟩) x = .inside :=
  interior_strict_holes_wound_partial _ ⟨0, 0⟩ ⟨6, 6⟩ (by decide +kernel)
    ⟨⟨0, 0⟩, by simp, ⟨6, 6⟩, by simp, by norm_num⟩ (by decide +kernel) (by decide +kernel)
    (by decide +kernel) (by decide +kernel)

/- Full statement: `polyValid poly = true → getBoundingRect poly.ext = some (mn, mx) → …` (the model's
   `interior_point` of every OGC-valid polygon is `Inside`). Derived from `polyValid` here: every ring
   simple and closed, shell bounding box proper, crossings of one ring pairwise distinct, hole
   coordinates inside the shell's bounding box (clause `BE = F` of the hole/shell matrix). Not derived
   in this theorem (they need the topology of the arrangement, not only point location): two different
   rings do not cross the scan line at the same abscissa (they could only meet there off their
   vertices), and the shell winds around the points where holes cross the scan line. They ARE derived
   from `polyValid` in `valid_scan_crossings` below, which gives `interior_strict_valid`. -/
/-- [Tp] `interior_strict_valid_partial`: an OGC-valid polygon (`polyValid`) with holes, under the
three explicit cross-ring hypotheses above: the model's `interior_point` is `Inside`. -/
theorem interior_strict_valid_partial (poly : Poly) (mn mx : Pt)
    (hv : polyValid poly = true)
    (hb : getBoundingRect poly.ext = some (mn, mx))
    (hce : ∀ hole ∈ poly.ints,
      ∀ t ∈ (windows2 hole).flatMap (hitXs ⟨mn.x, yMid mn mx poly.coords⟩ ⟨mx.x, yMid mn mx poly.coords⟩),
        t ∉ (windows2 poly.ext).flatMap (hitXs ⟨mn.x, yMid mn mx poly.coords⟩ ⟨mx.x, yMid mn mx poly.coords⟩))
    (hch : poly.ints.Pairwise (fun h1 h2 =>
      ∀ t ∈ (windows2 h1).flatMap (hitXs ⟨mn.x, yMid mn mx poly.coords⟩ ⟨mx.x, yMid mn mx poly.coords⟩),
        t ∉ (windows2 h2).flatMap (hitXs ⟨mn.x, yMid mn mx poly.coords⟩ ⟨mx.x, yMid mn mx poly.coords⟩)))
    (hwound : ∀ hole ∈ poly.ints,
      ∀ t ∈ (windows2 hole).flatMap (hitXs ⟨mn.x, yMid mn mx poly.coords⟩ ⟨mx.x, yMid mn mx poly.coords⟩),
        windingE (EPt.ofPt ⟨t, yMid mn mx poly.coords⟩) poly.ext ≠ 0) :
    ∃ x w, polyScan (locate (.polygon poly)) poly = some (x, w) ∧
      locate (.polygon poly) x = .inside := by
  obtain ⟨hsimple, hclosed, ⟨hx, hyy⟩, hin⟩ := valid_scan_facts hv hb
  obtain ⟨hbd, _, _, ⟨pl, hpl, hply⟩, ⟨ph, hph, hphy⟩⟩ :=
    Geo.Proofs.C19.getBoundingRect_bounds poly.ext mn mx hb
  have hflat : ∃ c ∈ poly.ext, ∃ c' ∈ poly.ext, c.y ≠ c'.y :=
    ⟨pl, hpl, ph, hph, by rw [hply, hphy]; exact ne_of_lt hyy⟩
  have hextc : ∀ v ∈ poly.ext, v ∈ poly.coords := fun v hv => by
    unfold Poly.coords; exact List.mem_append_left _ hv
  have hy := yMid_avoids_vertices mn mx poly.coords ⟨pl, hextc _ hpl, by rw [hply]; linarith⟩
  have hnd := hits_nodup_of_rings poly mn.x mx.x _ hy (fun v hv => (hin v hv).1) hx hsimple hce hch
  apply interior_strict_holes_wound_partial poly mn mx hclosed hflat hb hin hnd
  intro hole hh e he t ht
  exact hwound hole hh t (List.mem_flatMap.2 ⟨e, he, ht⟩)

/-- the square with a square hole is `polyValid` and satisfies the cross-ring hypotheses -/
example : ∃ x w, polyScan (locate (.polygon ⟨[⟨0, 0⟩, ⟨6, 0⟩, ⟨6, 6⟩, ⟨0, 6⟩, ⟨0, 0⟩],
      [[⟨2, 2⟩, ⟨2, 5⟩, ⟨4, 5⟩, ⟨4, 2⟩, ⟨2, 2⟩]]⟩))
      ⟨[⟨0, 0⟩, ⟨6, 0⟩, ⟨6, 6⟩, ⟨0, 6⟩, ⟨0, 0⟩], [[⟨2, 2⟩, ⟨2, 5⟩, ⟨4, 5⟩, ⟨4, 2⟩, ⟨2, 2⟩]]⟩ = some (x, w) ∧
    locate (.polygon ⟨[⟨0, 0⟩, ⟨6, 0⟩, ⟨6, 6⟩, ⟨0, 6⟩, ⟨0, 0⟩],
      [[⟨2, 2⟩, ⟨2, 5⟩, ⟨4, 5⟩, ⟨4, 2⟩, ⟨2, 2⟩]]⟩) x = .inside :=
  interior_strict_valid_partial _ ⟨0, 0⟩ ⟨6, 6⟩ (by decide +kernel) (by decide +kernel)
    (by decide +kernel) (by decide +kernel) (by decide +kernel)

/-- [T] `interior_strict_simple`: a polygon without holes whose exterior ring is closed and not flat
(two distinct ordinates) and meets the scan line at pairwise distinct abscissae (true of every simple
ring: the scan level contains no vertex, so a repeated abscissa is a point where two edges meet off
their vertices): the midpoint of the first two crossings is `Inside`, so the existence hypothesis of
`interior_strict_partial` holds and the model's `interior_point` is `Inside`. -/
theorem interior_strict_simple (poly : Poly) (mn mx : Pt)
    (hholes : poly.ints = [])
    (hclosed : poly.ext.head? = poly.ext.getLast?)
    (hflat : ∃ c ∈ poly.ext, ∃ c' ∈ poly.ext, c.y ≠ c'.y)
    (hb : getBoundingRect poly.ext = some (mn, mx))
    (hnd : (poly.lines.flatMap
      (hitXs ⟨mn.x, yMid mn mx poly.coords⟩ ⟨mx.x, yMid mn mx poly.coords⟩)).Nodup) :
    ∃ x w, polyScan (locate (.polygon poly)) poly = some (x, w) ∧
      locate (.polygon poly) x = .inside := by
  apply interior_strict_holes_partial poly mn mx _ hflat hb _ hnd
  · intro hole hh; rw [hholes] at hh; simp at hh
  · intro r hr
    simp only [Poly.rings, hholes, List.mem_singleton] at hr
    rw [hr]; exact hclosed
  · intro v hv
    have hv' : v ∈ poly.ext := by simpa [Poly.coords, hholes] using hv
    have := (Geo.Proofs.C19.getBoundingRect_bounds poly.ext mn mx hb).1 v hv'
    exact ⟨⟨this.1, this.2.1⟩, this.2.2⟩

/-- the scan finds the first midpoint of an L-shaped hexagon (centroid side does not matter) -/
example : polyScan (locate (.polygon ⟨[⟨0, 0⟩, ⟨4, 0⟩, ⟨4, 1⟩, ⟨1, 1⟩, ⟨1, 3⟩, ⟨0, 3⟩, ⟨0, 0⟩], []⟩))
    ⟨[⟨0, 0⟩, ⟨4, 0⟩, ⟨4, 1⟩, ⟨1, 1⟩, ⟨1, 3⟩, ⟨0, 3⟩, ⟨0, 0⟩], []⟩ = some (⟨1 / 2, 3 / 2⟩, 1) := by
  decide +kernel

/-- the hypotheses of `interior_strict_simple` on that hexagon -/
example : ∃ x w, polyScan (locate (.polygon ⟨[⟨0, 0⟩, ⟨4, 0⟩, ⟨4, 1⟩, ⟨1, 1⟩, ⟨1, 3⟩, ⟨0, 3⟩, ⟨0, 0⟩], []⟩))
      ⟨[⟨0, 0⟩, ⟨4, 0⟩, ⟨4, 1⟩, ⟨1, 1⟩, ⟨1, 3⟩, ⟨0, 3⟩, ⟨0, 0⟩], []⟩ = some (x, w) ∧
    locate (.polygon ⟨[⟨0, 0⟩, ⟨4, 0⟩, ⟨4, 1⟩, ⟨1, 1⟩, ⟨1, 3⟩, ⟨0, 3⟩, ⟨0, 0⟩], []⟩) x = .inside :=
  interior_strict_simple _ ⟨0, 0⟩ ⟨4, 3⟩ rfl (by decide +kernel)
    ⟨⟨0, 0⟩, by simp, ⟨0, 3⟩, by simp, by norm_num⟩ (by decide +kernel) (by decide +kernel)

/-- [T] `interior_strict_ringSimple`: a polygon without holes whose exterior ring is simple
(`ringSimple`, GeoModel/Valid.lean: closed, ≥ 3 edges after merging repeated coordinates, edges meet
only at shared vertices of consecutive edges): the bounding box has positive width and height (a
simple ring does not fold back along a line), the hit abscissae are pairwise distinct, the midpoint
of the first two crossings is `Inside`, and the model's `interior_point` is `Inside`. No hypothesis
besides simplicity: for hole-free polygons the existence statement [S] of `interior_strict_partial`
is proved. -/
theorem interior_strict_ringSimple (poly : Poly) (mn mx : Pt)
    (hholes : poly.ints = [])
    (hsimple : ringSimple poly.ext = true)
    (hb : getBoundingRect poly.ext = some (mn, mx)) :
    ∃ x w, polyScan (locate (.polygon poly)) poly = some (x, w) ∧
      locate (.polygon poly) x = .inside := by
  obtain ⟨hx, hyy⟩ := bbox_proper_of_simple hsimple hb
  obtain ⟨hbd, _, _, ⟨pl, hpl, hply⟩, ⟨ph, hph, hphy⟩⟩ :=
    Geo.Proofs.C19.getBoundingRect_bounds poly.ext mn mx hb
  have hflat : ∃ c ∈ poly.ext, ∃ c' ∈ poly.ext, c.y ≠ c'.y :=
    ⟨pl, hpl, ph, hph, by rw [hply, hphy]; exact ne_of_lt hyy⟩
  have hcoords : ∀ v ∈ poly.coords, v ∈ poly.ext := fun v hv => by
    simpa [Poly.coords, hholes] using hv
  have hextc : ∀ v ∈ poly.ext, v ∈ poly.coords := fun v hv => by
    unfold Poly.coords; exact List.mem_append_left _ hv
  have hy := yMid_avoids_vertices mn mx poly.coords ⟨pl, hextc _ hpl, by rw [hply]; linarith⟩
  apply interior_strict_simple poly mn mx hholes (closed_of_simple hsimple) hflat hb
  apply hits_nodup_of_simple poly _ _ _ hholes hsimple hy _ hx
  intro v hv
  have := hbd v (hcoords v hv)
  exact ⟨this.1, this.2.1⟩

/-- the L-shaped hexagon is `ringSimple` -/
example : ∃ x w, polyScan (locate (.polygon ⟨[⟨0, 0⟩, ⟨4, 0⟩, ⟨4, 1⟩, ⟨1, 1⟩, ⟨1, 3⟩, ⟨0, 3⟩, ⟨0, 0⟩], []⟩))
      ⟨[⟨0, 0⟩, ⟨4, 0⟩, ⟨4, 1⟩, ⟨1, 1⟩, ⟨1, 3⟩, ⟨0, 3⟩, ⟨0, 0⟩], []⟩ = some (x, w) ∧
    locate (.polygon ⟨[⟨0, 0⟩, ⟨4, 0⟩, ⟨4, 1⟩, ⟨1, 1⟩, ⟨1, 3⟩, ⟨0, 3⟩, ⟨0, 0⟩], []⟩) x = .inside :=
  interior_strict_ringSimple _ ⟨0, 0⟩ ⟨4, 3⟩ rfl (by decide +kernel) (by decide +kernel)

/-- [T] the same as a statement about `interior_point` of the `Polygon` variant: for a hole-free
polygon with a simple exterior ring the model returns a point and that point is `Inside`. -/
theorem interior_polygon_inside_simple (len : Pt → Pt → Rat) (poly : Poly)
    (hholes : poly.ints = []) (hsimple : ringSimple poly.ext = true) :
    ∃ x, interior len (fun q => locate (.polygon q)) (.polygon poly) = some x ∧
      locate (.polygon poly) x = .inside := by
  cases hb : getBoundingRect poly.ext with
  | none =>
    exfalso
    rw [getBoundingRect_eq_none] at hb
    have := (ringSimple_spec hsimple).2.1
    rw [hb] at this
    simp [dedupConsecutive, segs] at this
  | some r =>
    obtain ⟨mn, mx⟩ := r
    obtain ⟨x, w, hs, hi⟩ := interior_strict_ringSimple poly mn mx hholes hsimple hb
    exact ⟨x, by simp [interior, polyInterior, hs], hi⟩

example : interior (fun _ _ => 1) (fun q => locate (.polygon q))
    (.polygon ⟨[⟨0, 0⟩, ⟨4, 0⟩, ⟨4, 1⟩, ⟨1, 1⟩, ⟨1, 3⟩, ⟨0, 3⟩, ⟨0, 0⟩], []⟩) = some ⟨1 / 2, 3 / 2⟩ := by
  decide +kernel
example : ∃ x, interior (fun _ _ => 1) (fun q => locate (.polygon q))
      (.polygon ⟨[⟨0, 0⟩, ⟨4, 0⟩, ⟨4, 1⟩, ⟨1, 1⟩, ⟨1, 3⟩, ⟨0, 3⟩, ⟨0, 0⟩], []⟩) = some x ∧
    locate (.polygon ⟨[⟨0, 0⟩, ⟨4, 0⟩, ⟨4, 1⟩, ⟨1, 1⟩, ⟨1, 3⟩, ⟨0, 3⟩, ⟨0, 0⟩], []⟩) x = .inside :=
  interior_polygon_inside_simple _ _ rfl (by decide +kernel)

/-- a point `Inside` one member polygon is `Inside` the `MultiPolygon` -/
private theorem locate_multiPolygon_of_member (ps : List Poly) (poly : Poly) (hp : poly ∈ ps) (x : Pt)
    (h : locate (.polygon poly) x = .inside) : locate (.multiPolygon ps) x = .inside := by
  have h' : locateParts ⟨[], [], [poly]⟩ x = .inside := h
  rw [Geo.Proofs.Spec.locateParts_eq] at h'
  have hin : Geo.Proofs.Spec.inAnyPoly [poly] x = true := by
    by_contra hc
    simp only [hc, Bool.false_eq_true, if_false, Geo.Proofs.Spec.onAnyCurve, List.any_nil] at h'
    split at h' <;> simp at h'
  show locateParts ⟨[], [], ps⟩ x = .inside
  apply Geo.Proofs.Spec.locateParts_inside_of_poly
  unfold Geo.Proofs.Spec.inAnyPoly at hin ⊢
  simp only [List.any_cons, List.any_nil, Bool.or_false] at hin
  exact List.any_eq_true.2 ⟨poly, hp, hin⟩

/-- [T] `interior_multipolygon_inside_simple`: for a non-empty `MultiPolygon` whose members are
hole-free with simple exterior rings the model's `interior_point` exists and is `Inside` (it is the
verified scan midpoint of a member of maximal width, `mpoly_interior_widest`). -/
theorem interior_multipolygon_inside_simple (len : Pt → Pt → Rat) (ps : List Poly) (hne : ps ≠ [])
    (hall : ∀ p ∈ ps, p.ints = [] ∧ ringSimple p.ext = true) :
    ∃ x, interior len (fun q => locate (.polygon q)) (.multiPolygon ps) = some x ∧
      locate (.multiPolygon ps) x = .inside := by
  simp only [interior]
  cases h : mpolyInterior (fun q => locate (.polygon q)) ps with
  | none =>
    exfalso
    rw [mpolyInterior_eq_none, List.all_eq_true] at h
    obtain ⟨p, hp⟩ := List.exists_mem_of_ne_nil ps hne
    have he := h p hp
    rw [List.isEmpty_iff] at he
    have := (ringSimple_spec (hall p hp).2).2.1
    rw [he] at this
    simp [dedupConsecutive, segs] at this
  | some x =>
    refine ⟨x, rfl, ?_⟩
    obtain ⟨poly, hp, w, hs, _⟩ := mpoly_interior_widest _ ps x h
    cases hb : getBoundingRect poly.ext with
    | none =>
      exfalso
      rw [getBoundingRect_eq_none] at hb
      have := (ringSimple_spec (hall poly hp).2).2.1
      rw [hb] at this
      simp [dedupConsecutive, segs] at this
    | some r =>
      obtain ⟨mn, mx⟩ := r
      obtain ⟨x', w', hs', hi⟩ := interior_strict_ringSimple poly mn mx (hall poly hp).1 (hall poly hp).2 hb
      rw [hs] at hs'
      simp only [Option.some.injEq, Prod.mk.injEq] at hs'
      rw [← hs'.1] at hi
      exact locate_multiPolygon_of_member ps poly hp x hi

example : interior (fun _ _ => 1) (fun q => locate (.polygon q))
    (.multiPolygon [⟨[⟨0, 0⟩, ⟨1, 0⟩, ⟨1, 1⟩, ⟨0, 0⟩], []⟩,
      ⟨[⟨5, 0⟩, ⟨9, 0⟩, ⟨9, 4⟩, ⟨5, 4⟩, ⟨5, 0⟩], []⟩]) = some ⟨7, 2⟩ := by decide +kernel

example : ∃ x, interior (fun _ _ => 1) (fun q => locate (.polygon q))
      (.multiPolygon [⟨[⟨0, 0⟩, ⟨1, 0⟩, ⟨1, 1⟩, ⟨0, 0⟩], []⟩,
        ⟨[⟨5, 0⟩, ⟨9, 0⟩, ⟨9, 4⟩, ⟨5, 4⟩, ⟨5, 0⟩], []⟩]) = some x ∧
    locate (.multiPolygon [⟨[⟨0, 0⟩, ⟨1, 0⟩, ⟨1, 1⟩, ⟨0, 0⟩], []⟩,
        ⟨[⟨5, 0⟩, ⟨9, 0⟩, ⟨9, 4⟩, ⟨5, 4⟩, ⟨5, 0⟩], []⟩]) x = .inside :=
  interior_multipolygon_inside_simple _ _ (by simp) (by decide +kernel)

/-! ### WIND: every OGC-valid polygon — the cross-ring hypotheses discharged -/

/-- [T] `ring_edge_one_side_outside` (Jordan-curve property of a simple ring, in the form the scan
needs): beside every point `P` of a simple ring that is not one of its coordinates, one of the two
face samples `P ± δ·n` of the specification has winding number `0` (and the other one `±1`,
`Geo.Proofs.WIND.windingE_jump`): one side of every edge is outside. Proved by walking the left face
sample along the ring (`edge_step`, `vertex_step`: the remaining edges contribute potential
differences that telescope, so no smallness argument is needed) and evaluating it at the left-most
crossing of a level. -/
theorem ring_edge_one_side_outside (r : List Pt) (hs : ringSimple r = true) (a b P : Pt)
    (hab : (a, b) ∈ segs r) (hP : SegMem P a b) (hnv : P ∉ r) :
    windingE ⟨P.x, -(b.y - a.y), P.y, b.x - a.x⟩ r = 0 ∨
      windingE ⟨P.x, - -(b.y - a.y), P.y, -(b.x - a.x)⟩ r = 0 :=
  Geo.Proofs.WIND.edgeJordan hs hab hP hnv

example : windingE ⟨2, -(0 - 0), 0, 4 - 0⟩ [⟨0, 0⟩, ⟨4, 0⟩, ⟨0, 4⟩, ⟨0, 0⟩] = 0 ∨
    windingE ⟨2, - -(0 - 0), 0, -(4 - 0)⟩ [⟨0, 0⟩, ⟨4, 0⟩, ⟨0, 4⟩, ⟨0, 0⟩] = 0 :=
  ring_edge_one_side_outside _ (by decide +kernel) ⟨0, 0⟩ ⟨4, 0⟩ ⟨2, 0⟩ (by simp [segs])
    ⟨1 / 2, by norm_num, by norm_num, by norm_num, by norm_num⟩ (by decide)

/-- [T] `valid_scan_crossings`: on a level that is the ordinate of no coordinate of an OGC-valid
polygon, (i) no hole crossing is a shell crossing, (ii) the crossings of two different holes are
disjoint, (iii) the shell winds around every hole crossing — the three cross-ring hypotheses of
`interior_strict_valid_partial`, from `polyValid` alone (`BE = F`, `BB ≤ 0` of the hole/shell clause
with the Jordan-curve property of the shell; `II = F`, `BB ≤ 0` of the hole-pair clause). -/
theorem valid_scan_crossings (poly : Poly) (hv : polyValid poly = true) (y : Rat)
    (hy : ∀ v ∈ poly.coords, v.y ≠ y) :
    (∀ hole ∈ poly.ints, ∀ t ∈ (segs hole).flatMap (crossXs y),
        t ∉ (segs poly.ext).flatMap (crossXs y)) ∧
    poly.ints.Pairwise (fun h1 h2 => ∀ t ∈ (segs h1).flatMap (crossXs y),
        t ∉ (segs h2).flatMap (crossXs y)) ∧
    (∀ hole ∈ poly.ints, ∀ t ∈ (segs hole).flatMap (crossXs y),
        windingE (EPt.ofPt ⟨t, y⟩) poly.ext ≠ 0) :=
  ⟨Geo.Proofs.WIND.valid_hole_shell_disjoint hv hy,
    Geo.Proofs.WIND.valid_hole_crossings_disjoint hv hy,
    Geo.Proofs.WIND.valid_shell_winds hv hy⟩

example : ∀ hole ∈ [[⟨2, 2⟩, ⟨2, 5⟩, ⟨4, 5⟩, ⟨4, 2⟩, (⟨2, 2⟩ : Pt)]],
    ∀ t ∈ (segs hole).flatMap (crossXs 3),
      t ∉ (segs [⟨0, 0⟩, ⟨6, 0⟩, ⟨6, 6⟩, ⟨0, 6⟩, (⟨0, 0⟩ : Pt)]).flatMap (crossXs 3) :=
  (valid_scan_crossings ⟨[⟨0, 0⟩, ⟨6, 0⟩, ⟨6, 6⟩, ⟨0, 6⟩, ⟨0, 0⟩],
    [[⟨2, 2⟩, ⟨2, 5⟩, ⟨4, 5⟩, ⟨4, 2⟩, ⟨2, 2⟩]]⟩ (by decide +kernel) 3 (by decide +kernel)).1

/-- [T] **`interior_strict_valid`: the model's `interior_point` scan of every OGC-valid polygon
(`polyValid`, holes included) returns a point that is strictly `Inside`** — the full statement behind
`interior_strict_partial` / `interior_strict_valid_partial`, no hypothesis besides validity. -/
theorem interior_strict_valid (poly : Poly) (mn mx : Pt) (hv : polyValid poly = true)
    (hb : getBoundingRect poly.ext = some (mn, mx)) :
    ∃ x w, polyScan (locate (.polygon poly)) poly = some (x, w) ∧
      locate (.polygon poly) x = .inside := by
  obtain ⟨hsimple, hclosed, ⟨hx, hyy⟩, hin⟩ := valid_scan_facts hv hb
  obtain ⟨hbd, _, _, ⟨pl, hpl, hply⟩, ⟨ph, hph, hphy⟩⟩ :=
    Geo.Proofs.C19.getBoundingRect_bounds poly.ext mn mx hb
  have hextc : ∀ v ∈ poly.ext, v ∈ poly.coords := fun v hv => by
    unfold Poly.coords; exact List.mem_append_left _ hv
  have hy := yMid_avoids_vertices mn mx poly.coords ⟨pl, hextc _ hpl, by rw [hply]; linarith⟩
  have hxb : ∀ v ∈ poly.coords, mn.x ≤ v.x ∧ v.x ≤ mx.x := fun v hv => (hin v hv).1
  obtain ⟨c1, c2, c3⟩ := valid_scan_crossings poly hv _ hy
  have hext_r : poly.ext ∈ poly.rings := by simp [Poly.rings]
  have hhole_r : ∀ hole ∈ poly.ints, hole ∈ poly.rings := fun hole hh => by simp [Poly.rings, hh]
  have hre := fun {r : List Pt} (hr : r ∈ poly.rings) =>
    ring_hits_eq poly mn.x mx.x (yMid mn mx poly.coords) hy hxb hx hr
  apply interior_strict_valid_partial poly mn mx hv hb
  · intro hole hh t ht
    rw [hre (hhole_r hole hh)] at ht
    rw [hre hext_r]
    exact c1 hole hh t ht
  · refine List.Pairwise.imp_of_mem ?_ c2
    intro h1 h2 m1 m2 hd t ht
    rw [hre (hhole_r h1 m1)] at ht
    rw [hre (hhole_r h2 m2)]
    exact hd t ht
  · intro hole hh t ht
    rw [hre (hhole_r hole hh)] at ht
    exact c3 hole hh t ht

/-- a square with two holes, one touching the other at a vertex: `polyValid`, and the scan result is
`Inside` -/
example : ∃ x w, polyScan (locate (.polygon ⟨[⟨0, 0⟩, ⟨10, 0⟩, ⟨10, 10⟩, ⟨0, 10⟩, ⟨0, 0⟩],
      [[⟨2, 2⟩, ⟨2, 4⟩, ⟨4, 4⟩, ⟨4, 2⟩, ⟨2, 2⟩], [⟨4, 4⟩, ⟨6, 8⟩, ⟨8, 8⟩, ⟨8, 6⟩, ⟨4, 4⟩]]⟩))
      ⟨[⟨0, 0⟩, ⟨10, 0⟩, ⟨10, 10⟩, ⟨0, 10⟩, ⟨0, 0⟩],
      [[⟨2, 2⟩, ⟨2, 4⟩, ⟨4, 4⟩, ⟨4, 2⟩, ⟨2, 2⟩], [⟨4, 4⟩, ⟨6, 8⟩, ⟨8, 8⟩, ⟨8, 6⟩, ⟨4, 4⟩]]⟩ = some (x, w) ∧
    locate (.polygon ⟨[⟨0, 0⟩, ⟨10, 0⟩, ⟨10, 10⟩, ⟨0, 10⟩, ⟨0, 0⟩],
      [[⟨2, 2⟩, ⟨2, 4⟩, ⟨4, 4⟩, ⟨4, 2⟩, ⟨2, 2⟩], [⟨4, 4⟩, ⟨6, 8⟩, ⟨8, 8⟩, ⟨8, 6⟩, ⟨4, 4⟩]]⟩) x = .inside :=
  interior_strict_valid _ ⟨0, 0⟩ ⟨10, 10⟩ (by decide +kernel) (by decide +kernel)

/-- [T] **`interior_polygon_inside_valid`: for every OGC-valid polygon the model's `interior_point`
exists and is strictly `Inside`.** -/
theorem interior_polygon_inside_valid (len : Pt → Pt → Rat) (poly : Poly)
    (hv : polyValid poly = true) :
    ∃ x, interior len (fun q => locate (.polygon q)) (.polygon poly) = some x ∧
      locate (.polygon poly) x = .inside := by
  have hsimple := (polyValid_spec hv).1
  cases hb : getBoundingRect poly.ext with
  | none =>
    exfalso
    rw [getBoundingRect_eq_none] at hb
    have := (ringSimple_spec hsimple).2.1
    rw [hb] at this
    simp [dedupConsecutive, segs] at this
  | some r =>
    obtain ⟨mn, mx⟩ := r
    obtain ⟨x, w, hs, hi⟩ := interior_strict_valid poly mn mx hv hb
    exact ⟨x, by simp [interior, polyInterior, hs], hi⟩

example : ∃ x, interior (fun _ _ => 1) (fun q => locate (.polygon q))
      (.polygon ⟨[⟨0, 0⟩, ⟨6, 0⟩, ⟨6, 6⟩, ⟨0, 6⟩, ⟨0, 0⟩], [[⟨2, 2⟩, ⟨2, 5⟩, ⟨4, 5⟩, ⟨4, 2⟩, ⟨2, 2⟩]]⟩) = some x ∧
    locate (.polygon ⟨[⟨0, 0⟩, ⟨6, 0⟩, ⟨6, 6⟩, ⟨0, 6⟩, ⟨0, 0⟩],
      [[⟨2, 2⟩, ⟨2, 5⟩, ⟨4, 5⟩, ⟨4, 2⟩, ⟨2, 2⟩]]⟩) x = .inside :=
  interior_polygon_inside_valid _ _ (by decide +kernel)

/-- [T] `interior_multipolygon_inside_valid`: for a non-empty `MultiPolygon` whose members are
OGC-valid polygons the model's `interior_point` exists and is `Inside` (the verified scan midpoint
of a member of maximal width). -/
theorem interior_multipolygon_inside_valid (len : Pt → Pt → Rat) (ps : List Poly) (hne : ps ≠ [])
    (hall : ∀ p ∈ ps, polyValid p = true) :
    ∃ x, interior len (fun q => locate (.polygon q)) (.multiPolygon ps) = some x ∧
      locate (.multiPolygon ps) x = .inside := by
  simp only [interior]
  cases h : mpolyInterior (fun q => locate (.polygon q)) ps with
  | none =>
    exfalso
    rw [mpolyInterior_eq_none, List.all_eq_true] at h
    obtain ⟨p, hp⟩ := List.exists_mem_of_ne_nil ps hne
    have he := h p hp
    rw [List.isEmpty_iff] at he
    have := (ringSimple_spec (polyValid_spec (hall p hp)).1).2.1
    rw [he] at this
    simp [dedupConsecutive, segs] at this
  | some x =>
    refine ⟨x, rfl, ?_⟩
    obtain ⟨poly, hp, w, hs, _⟩ := mpoly_interior_widest _ ps x h
    cases hb : getBoundingRect poly.ext with
    | none =>
      exfalso
      rw [getBoundingRect_eq_none] at hb
      have := (ringSimple_spec (polyValid_spec (hall poly hp)).1).2.1
      rw [hb] at this
      simp [dedupConsecutive, segs] at this
    | some r =>
      obtain ⟨mn, mx⟩ := r
      obtain ⟨x', w', hs', hi⟩ := interior_strict_valid poly mn mx (hall poly hp) hb
      rw [hs] at hs'
      simp only [Option.some.injEq, Prod.mk.injEq] at hs'
      rw [← hs'.1] at hi
      exact locate_multiPolygon_of_member ps poly hp x hi

example : ∃ x, interior (fun _ _ => 1) (fun q => locate (.polygon q))
      (.multiPolygon [⟨[⟨0, 0⟩, ⟨1, 0⟩, ⟨1, 1⟩, ⟨0, 0⟩], []⟩,
        ⟨[⟨5, 0⟩, ⟨9, 0⟩, ⟨9, 4⟩, ⟨5, 4⟩, ⟨5, 0⟩], [[⟨6, 1⟩, ⟨6, 3⟩, ⟨8, 3⟩, ⟨8, 1⟩, ⟨6, 1⟩]]⟩]) = some x ∧
    locate (.multiPolygon [⟨[⟨0, 0⟩, ⟨1, 0⟩, ⟨1, 1⟩, ⟨0, 0⟩], []⟩,
        ⟨[⟨5, 0⟩, ⟨9, 0⟩, ⟨9, 4⟩, ⟨5, 4⟩, ⟨5, 0⟩], [[⟨6, 1⟩, ⟨6, 3⟩, ⟨8, 3⟩, ⟨8, 1⟩, ⟨6, 1⟩]]⟩]) x = .inside :=
  interior_multipolygon_inside_valid _ _ (by simp) (by decide +kernel)

/-! ### GeometryCollection: a member of the highest dimension present -/

private theorem interiorCands_mem (len : Pt → Pt → Rat) (locOf : Poly → Pt → Pos) :
    ∀ (gs : List Geom) (pd : Pt × Dim), pd ∈ interiorCands len locOf gs ↔
      ∃ g ∈ gs, interior len locOf g = some pd.1 ∧ dims g = pd.2
  | [], pd => by simp [interiorCands]
  | g :: gs, pd => by
    simp only [interiorCands]
    cases hi : interior len locOf g with
    | none =>
      rw [interiorCands_mem len locOf gs pd]
      constructor
      · rintro ⟨g', hg', h⟩; exact ⟨g', List.mem_cons_of_mem _ hg', h⟩
      · rintro ⟨g', hg', h⟩
        rcases List.mem_cons.1 hg' with rfl | hg'
        · rw [hi] at h; simp at h
        · exact ⟨g', hg', h⟩
    | some y =>
      rw [List.mem_cons, interiorCands_mem len locOf gs pd]
      constructor
      · rintro (h | ⟨g', hg', h⟩)
        · exact ⟨g, List.mem_cons_self, by rw [hi, h], by rw [h]⟩
        · exact ⟨g', List.mem_cons_of_mem _ hg', h⟩
      · rintro ⟨g', hg', h⟩
        rcases List.mem_cons.1 hg' with rfl | hg'
        · left
          rw [hi] at h
          simp only [Option.some.injEq] at h
          exact Prod.ext h.1.symm h.2.symm
        · exact Or.inr ⟨g', hg', h⟩

/-- the fold of `min_by` with the `(Reverse(dimensions), distance)` key never ends on an element of
lower dimension than one it has seen -/
private theorem foldPick_collLt_dim (c : Pt) :
    ∀ (as : List (Pt × Dim)) (a : Pt × Dim),
      ∀ b ∈ a :: as, b.2.rank ≤ (as.foldl (fun x y => if collLt c y x then y else x) a).2.rank
  | [], a => by intro b hb; simp only [List.mem_singleton] at hb; simp [hb]
  | d :: ds, a => by
    intro b hb
    simp only [List.foldl_cons]
    have ih := foldPick_collLt_dim c ds (if collLt c d a then d else a)
    have hstart : a.2.rank ≤ (if collLt c d a then d else a).2.rank ∧
        d.2.rank ≤ (if collLt c d a then d else a).2.rank := by
      by_cases hl : collLt c d a = true
      · simp only [hl, if_true]
        simp only [collLt, Bool.or_eq_true, decide_eq_true_eq, Bool.and_eq_true, beq_iff_eq] at hl
        rcases hl with hl | hl
        · exact ⟨le_of_lt hl, le_refl _⟩
        · exact ⟨le_of_eq hl.1.symm, le_refl _⟩
      · simp only [hl]
        simp only [collLt, Bool.or_eq_true, decide_eq_true_eq, Bool.and_eq_true, beq_iff_eq, not_or] at hl
        exact ⟨le_refl _, not_lt.1 hl.1⟩
    rcases List.mem_cons.1 hb with rfl | hb
    · exact le_trans hstart.1 (ih _ List.mem_cons_self)
    · rcases List.mem_cons.1 hb with rfl | hb
      · exact le_trans hstart.2 (ih _ List.mem_cons_self)
      · exact ih b (List.mem_cons_of_mem _ hb)

/-- [T] `collection_interior_top_dim`: the interior point of a `GeometryCollection` is the interior
point of one of its members, and that member has the highest dimension among all members that have
an interior point at all ("maximize dimensions" wins over distance). -/
theorem collection_interior_top_dim (len : Pt → Pt → Rat) (locOf : Poly → Pt → Pos) (gs : List Geom)
    (x : Pt) (h : interior len locOf (.collection gs) = some x) :
    ∃ g ∈ gs, interior len locOf g = some x ∧
      ∀ g' ∈ gs, interior len locOf g' ≠ none → (dims g').rank ≤ (dims g).rank := by
  simp only [interior] at h
  cases hc : Cen.centroid len (.collection gs) with
  | none => rw [hc] at h; simp at h
  | some c =>
    rw [hc] at h
    simp only [Option.map_eq_some_iff] at h
    obtain ⟨pd, hpd, hx⟩ := h
    have hm := minByKey_mem _ hpd
    obtain ⟨g, hg, hig, hdg⟩ := (interiorCands_mem len locOf gs pd).1 hm
    refine ⟨g, hg, by rw [hig, hx], ?_⟩
    intro g' hg' hne
    cases hi' : interior len locOf g' with
    | none => exact absurd hi' hne
    | some y =>
      have hm' : (y, dims g') ∈ interiorCands len locOf gs :=
        (interiorCands_mem len locOf gs (y, dims g')).2 ⟨g', hg', hi', rfl⟩
      cases hl : interiorCands len locOf gs with
      | nil => rw [hl] at hm'; simp at hm'
      | cons a as =>
        rw [hl] at hpd hm'
        simp only [minByKey, Option.some.injEq] at hpd
        have := foldPick_collLt_dim c as a _ hm'
        rw [hpd] at this
        rw [hdg]; exact this

/-! ### tie to the source -/

/-- [E2] (translator tie) `closest_point.rs` and `Closest::best_of_two` (types.rs) of the model are the terms
`translator/rs2lean.py` regenerates on every run from the Rust bodies (`GeoModel/Gen/ClosestGen.lean`): the
three-way early return of `best_of_two` and its `<=` on distances; `Point::closest_point`; `Line::closest_point` (zero-length
guard, projection parameter `t = to_p·d / d·d`, the `t < 0` / `t > 1` case split, `start + (t·x, t·y)`, the `intersects`
test that picks the variant); the loop of `closest_of` with its short circuit on `Intersection`; the LineString, Polygon
(interiors chained with the exterior), Triangle and Rect (`to_lines()` read off geo-types) impls and the four
`closest_of(self.iter(), p)` impls, member functions instantiated with the model's. A changed comparison, operand, guard,
branch order or ring order changes the regenerated definition and this theorem stops checking.
The two square roots of the code are parameters: `dist` (`Euclidean.distance`, assumed to order pairs like the squared
distance) and `len` (`Euclidean.length` of a line, assumed zero exactly on zero-length lines). Full statement (`dist`, `len` the
Euclidean distance / length themselves): no model over the rationals; the hypotheses are instantiated below. -/
theorem closestPoint_eq_source_partial (dist : Pt → Pt → Rat) (len : Pt × Pt → Rat)
    (hd : Geo.Proofs.TRAN2Closest.DistOk dist) (hl : Geo.Proofs.TRAN2Closest.LenOk len) :
    (∀ s o p, Gen.closestBestOfTwo dist s o p = bestOfTwo s o p) ∧
    (∀ q p, Gen.pointClosestPoint q p = pointClosest q p) ∧
    (∀ a b p, Gen.lineClosestPoint len a b p = lineClosest a b p) ∧
    (∀ (f : Geom → Pt → Closest) l p, Gen.closestOf dist f l p = closestOf (fun x => f x p) p l) ∧
    (∀ cs p, Gen.lineStringClosestPoint dist (Geo.Proofs.TRAN2Closest.lineFn len) cs p = lsClosest cs p) ∧
    (∀ poly p, Gen.polygonClosestPoint dist (fun q p => coordPos (.polygon q) p != .outside) (fun r p => lsClosest r p) poly p
      = polyClosest poly p) ∧
    (∀ a b c p, Gen.triangleClosestPoint dist (Geo.Proofs.TRAN2Closest.lineFn len) a b c p = triClosest a b c p) ∧
    (∀ mn mx p, Gen.rectClosestPoint dist (Geo.Proofs.TRAN2Closest.lineFn len) mn mx p = rectClosest mn mx p) ∧
    (∀ qs p, Gen.multiPointClosestPoint dist pointClosest qs p = closest (.multiPoint qs) p) ∧
    (∀ ls p, Gen.multiLineStringClosestPoint dist lsClosest ls p = closest (.multiLineString ls) p) ∧
    (∀ ps p, Gen.multiPolygonClosestPoint dist polyClosest ps p = closest (.multiPolygon ps) p) ∧
    (∀ gs p, Gen.geometryCollectionClosestPoint dist closest gs p = closest (.collection gs) p) :=
  ⟨Geo.Proofs.TRAN2Closest.bestOfTwo_eq dist hd, Geo.Proofs.TRAN2Closest.pointClosest_eq,
   Geo.Proofs.TRAN2Closest.lineClosest_eq len hl, fun f l p => Geo.Proofs.TRAN2Closest.closestOf_eq dist hd f l p,
   Geo.Proofs.TRAN2Closest.lsClosest_eq dist len hd hl, Geo.Proofs.TRAN2Closest.polyClosest_eq dist hd,
   Geo.Proofs.TRAN2Closest.triClosest_eq dist len hd hl, Geo.Proofs.TRAN2Closest.rectClosest_eq dist len hd hl,
   fun qs p => (Geo.Proofs.TRAN2Closest.multi_eq dist hd p).1 qs, fun ls p => (Geo.Proofs.TRAN2Closest.multi_eq dist hd p).2.1 ls,
   fun ps p => (Geo.Proofs.TRAN2Closest.multi_eq dist hd p).2.2.1 ps, fun gs p => (Geo.Proofs.TRAN2Closest.multi_eq dist hd p).2.2.2 gs⟩

/-- the hypotheses hold for the squared distance / squared length (what the model compares) -/
example : Gen.lineStringClosestPoint (fun a p => dist2 a p) (Geo.Proofs.TRAN2Closest.lineFn (fun s => dist2 s.1 s.2))
    [⟨0, 0⟩, ⟨4, 0⟩, ⟨4, 3⟩] ⟨1, 2⟩ = lsClosest [⟨0, 0⟩, ⟨4, 0⟩, ⟨4, 3⟩] ⟨1, 2⟩ :=
  (closestPoint_eq_source_partial _ _ Geo.Proofs.TRAN2Closest.distOk_dist2 Geo.Proofs.TRAN2Closest.lenOk_dist2).2.2.2.2.1 _ _

end Geo.Proofs.C12

