/-
  C08 — Convex hull is the smallest convex polygon containing the input.

  Model: GeoModel/Hull.lean (exact mirrors of `quick_hull`, `hull_set`, `graham_hull`,
  `trivial_hull`, `ConvexHull::convex_hull`, skeleton of `minimum_rotated_rect`, checker
  `isStrictHull`). Helper lemmas: GeoProofs/Lemmas/C08Mem.lean.

  Every theorem quantifies over *all* coordinate lists (duplicates, collinear, fewer than three
  points) and over an *arbitrary* rounding function `rnd` applied to the non-predicate arithmetic
  (so it covers `i64`, `f64` and any other scalar type).

  Not proved (kept visible, decided on every generated case by running the verified checker on the
  implementation's output):
    theorem quickHull_isStrictHull (pts) : hasTriangle pts → isStrictHull (quickHull rnd pts) pts
    theorem grahamHull_isStrictHull (pts) : hasTriangle pts → isStrictHull (grahamHull rnd pts false) pts
-/
import GeoModel.Hull
import GeoProofs.Lemmas.C08Mem
import GeoProofs.Lemmas.C08Trivial
import Mathlib.Tactic.Linarith
import Mathlib.Tactic.Ring

namespace Geo.Proofs.C08
open Geo Geo.Hull

/-! ### T1: hull vertices are input coordinates; the ring is closed -/

/-- [T] `trivial_hull` (fewer than four points) only returns input coordinates. -/
theorem trivialHull_subset (pts : List Pt) (incl : Bool) : ∀ x ∈ trivialHull pts incl, x ∈ pts :=
  trivialHull_subset' pts incl

/-- [T] `graham_hull` only returns input coordinates (any rounding, both `include_on_hull`). -/
theorem grahamHull_subset (rnd : Rat → Rat) (pts : List Pt) (incl : Bool) :
    ∀ x ∈ grahamHull rnd pts incl, x ∈ pts :=
  grahamHull_subset' rnd pts incl

/-- [T] `hull_set` pushes only coordinates of its slice, and leaves a slice of the same coordinates. -/
theorem hullSet_no_new_points (rnd : Rat → Rat) (fuel : Nat) (a b : Pt) (set : List Pt) :
    (∀ x ∈ (hullSet rnd fuel a b set).1, x ∈ set) ∧ (∀ x ∈ (hullSet rnd fuel a b set).2, x ∈ set) :=
  hullSet_subset rnd fuel a b set

/-- [T] `quick_hull` (with its Graham fallback) only returns input coordinates. -/
theorem quickHull_subset (rnd : Rat → Rat) (pts : List Pt) : ∀ x ∈ quickHull rnd pts, x ∈ pts := by
  intro x hx
  unfold quickHull at hx
  split at hx
  · exact trivialHull_subset' _ _ x hx
  · rename_i hlen
    have h2 : 2 ≤ pts.length := by omega
    have hraw := quickHullRaw_subset rnd pts h2
    dsimp only at hx
    split at hx
    · exact hraw.1 x (grahamHull_subset' _ _ _ x hx)
    · exact hraw.2 x hx

/-- [T] `ConvexHull::convex_hull` only returns input coordinates. -/
theorem convexHull_subset (rnd : Rat → Rat) (pts : List Pt) : ∀ x ∈ convexHull rnd pts, x ∈ pts :=
  fun x hx => quickHull_subset rnd pts x (close_subset _ x hx)

/-- [T] the ring returned by `trivial_hull` is closed (first = last; the empty ring counts). -/
theorem trivialHull_closed (pts : List Pt) (incl : Bool) :
    (trivialHull pts incl).head? = (trivialHull pts incl).getLast? :=
  trivialHull_closed' pts incl

/-- [T] the ring returned by `graham_hull` is closed. -/
theorem grahamHull_closed (rnd : Rat → Rat) (pts : List Pt) (incl : Bool) :
    (grahamHull rnd pts incl).head? = (grahamHull rnd pts incl).getLast? :=
  grahamHull_closed' rnd pts incl

/-- [T] the ring returned by `quick_hull` is closed. -/
theorem quickHull_closed (rnd : Rat → Rat) (pts : List Pt) :
    (quickHull rnd pts).head? = (quickHull rnd pts).getLast? := by
  unfold quickHull
  split
  · exact trivialHull_closed' _ _
  · dsimp only
    split
    · exact grahamHull_closed' _ _ _
    · unfold quickHullRaw; exact close_closed _

/-- [T] `Polygon::new` does not alter the ring of `quick_hull`: it is already closed. -/
theorem convexHull_eq_quickHull (rnd : Rat → Rat) (pts : List Pt) :
    convexHull rnd pts = quickHull rnd pts := by
  unfold convexHull
  have h := quickHull_closed rnd pts
  generalize quickHull rnd pts = r at h
  cases r with
  | nil => rfl
  | cons a t =>
    simp only [close]
    rw [if_pos]
    simpa using h.symm

/-- [T] what `quick_hull` returns for four or more points: its own ring when that ring is verified
(every turn strictly left, winds once) or has at most three coordinates (all points collinear),
otherwise the ring of the Graham scan. -/
theorem quickHull_verified_or_graham (rnd : Rat → Rat) (pts : List Pt) (h : 4 ≤ pts.length) :
    (quickHull rnd pts = (quickHullRaw rnd pts).2 ∧
      ((quickHullRaw rnd pts).2.length ≤ 3 ∨ isStrictCcwHull (quickHullRaw rnd pts).2 = true)) ∨
    quickHull rnd pts = grahamHull rnd (quickHullRaw rnd pts).1 false := by
  unfold quickHull
  rw [if_neg (by omega)]
  dsimp only
  split
  · right; rfl
  · rename_i hc
    left
    refine ⟨rfl, ?_⟩
    by_cases hl : (quickHullRaw rnd pts).2.length ≤ 3
    · exact Or.inl hl
    · right
      have hl' : decide ((quickHullRaw rnd pts).2.length > 3) = true := by simp; omega
      cases hv : isStrictCcwHull (quickHullRaw rnd pts).2 with
      | true => rfl
      | false => simp [hl', hv] at hc


/-! ### T1: soundness of the checker `isStrictHull` (the per-case property verdict) -/

/-- [T] `orient` is the sign of the exact determinant. -/
theorem orient_ccw_iff (a b c : Pt) : orient a b c = .ccw ↔ 0 < cross a b c := by
  unfold orient
  dsimp only
  constructor
  · intro h
    split at h
    · assumption
    · split at h <;> simp at h
  · intro h
    rw [if_pos h]

private theorem triplesCcw_get (l : List Pt) (h : triplesCcw l = true) :
    ∀ (i : Nat) (a b c : Pt), l[i]? = some a → l[i + 1]? = some b → l[i + 2]? = some c →
      0 < cross a b c := by
  induction l with
  | nil => intro i a b c ha; simp at ha
  | cons x t ih =>
    intro i a b c ha hb hc
    cases t with
    | nil => simp at hb
    | cons y u =>
      cases u with
      | nil => simp at hc
      | cons z w =>
        simp only [triplesCcw, Bool.and_eq_true, beq_iff_eq] at h
        cases i with
        | zero =>
          simp at ha hb hc
          subst ha hb hc
          exact (orient_ccw_iff _ _ _).1 h.1
        | succ j =>
          exact ih h.2 j a b c (by simpa using ha) (by simpa using hb) (by simpa using hc)

private theorem cyc_get (v : List Pt) (hn : 2 ≤ v.length) (i k : Nat) (hi : i < v.length) (hk : k ≤ 2) :
    (v ++ v.take 2)[i + k]? = v[(i + k) % v.length]? := by
  by_cases hlt : i + k < v.length
  · rw [List.getElem?_append_left hlt, Nat.mod_eq_of_lt hlt]
  · have hge : v.length ≤ i + k := by omega
    rw [List.getElem?_append_right hge, List.getElem?_take]
    have hmod : (i + k) % v.length = i + k - v.length := by
      rw [Nat.mod_eq_sub_mod hge, Nat.mod_eq_of_lt (by omega)]
    rw [hmod, if_pos (by omega)]

/-- [T] the turn test of the checker, spelled out: at every vertex `i` of the (unclosed) vertex list
`v` the cyclically consecutive vertices make a strict left turn. -/
theorem cycTriplesCcw_spec (v : List Pt) (h : cycTriplesCcw v = true) :
    ∀ i, i < v.length → ∀ a b c : Pt, v[i]? = some a → v[(i + 1) % v.length]? = some b →
      v[(i + 2) % v.length]? = some c → 0 < cross a b c := by
  unfold cycTriplesCcw at h
  simp only [Bool.and_eq_true, decide_eq_true_eq] at h
  intro i hi a b c ha hb hc
  have h0 := cyc_get v h.1 i 0 hi (by omega)
  have h1 := cyc_get v h.1 i 1 hi (by omega)
  have h2 := cyc_get v h.1 i 2 hi (by omega)
  rw [Nat.add_zero, Nat.mod_eq_of_lt hi] at h0
  exact triplesCcw_get _ h.2 i a b c (by rw [← ha]; simpa using h0) (by rw [← hb]; exact h1)
    (by rw [← hc]; exact h2)

/-- [T] a strict left turn excludes a repeated vertex and a vertex on the line through its
neighbours (in particular on the segment between them). -/
theorem strict_turn_not_degenerate (a b c : Pt) (h : 0 < cross a b c) :
    a ≠ b ∧ b ≠ c ∧ ¬ ∃ t : Rat, b.x = a.x + t * (c.x - a.x) ∧ b.y = a.y + t * (c.y - a.y) := by
  refine ⟨?_, ?_, ?_⟩
  · intro hab; subst hab
    simp [cross] at h
  · intro hbc; subst hbc
    simp [cross] at h
  · rintro ⟨t, hx, hy⟩
    have : cross a b c = 0 := by
      unfold cross; rw [hx, hy]; ring
    linarith

/-- [T] checker soundness, shape: an accepted ring is closed and has at least 4 coordinates. -/
theorem isStrictHull_closed (h pts : List Pt) (hs : isStrictHull h pts = true) :
    4 ≤ h.length ∧ h.head? = h.getLast? := by
  unfold isStrictHull at hs
  simp only [Bool.and_eq_true, decide_eq_true_eq, beq_iff_eq] at hs
  exact ⟨hs.1.1.1.1, hs.1.1.1.2⟩

/-- [T] checker soundness, turns: every cyclically consecutive triple of vertices of an accepted
ring is strictly counter-clockwise. -/
theorem isStrictHull_turns (h pts : List Pt) (hs : isStrictHull h pts = true) :
    ∀ i, i < h.dropLast.length → ∀ a b c : Pt, h.dropLast[i]? = some a →
      h.dropLast[(i + 1) % h.dropLast.length]? = some b →
      h.dropLast[(i + 2) % h.dropLast.length]? = some c → 0 < cross a b c := by
  unfold isStrictHull at hs
  simp only [Bool.and_eq_true] at hs
  exact cycTriplesCcw_spec _ hs.1.1.2

/-- [T] checker soundness, vertices: every coordinate of an accepted ring is an input coordinate. -/
theorem isStrictHull_vertices (h pts : List Pt) (hs : isStrictHull h pts = true) :
    ∀ v ∈ h, v ∈ pts := by
  unfold isStrictHull at hs
  simp only [Bool.and_eq_true, List.all_eq_true, List.contains_eq_mem, decide_eq_true_eq] at hs
  exact hs.1.2

/-- [T] checker soundness, containment: every input coordinate is left of or on every edge of an
accepted ring (exact orientation). -/
theorem isStrictHull_contains (h pts : List Pt) (hs : isStrictHull h pts = true) :
    ∀ p ∈ pts, ∀ e ∈ edges h, 0 ≤ cross e.1 e.2 p := by
  unfold isStrictHull at hs
  simp only [Bool.and_eq_true, List.all_eq_true, decide_eq_true_eq] at hs
  exact hs.2

/-- [T] conversely the checker accepts whenever the four clauses hold (it demands nothing more). -/
theorem isStrictHull_complete (h pts : List Pt) (h1 : 4 ≤ h.length) (h2 : h.head? = h.getLast?)
    (h3 : cycTriplesCcw h.dropLast = true) (h4 : ∀ v ∈ h, v ∈ pts)
    (h5 : ∀ p ∈ pts, ∀ e ∈ edges h, 0 ≤ cross e.1 e.2 p) : isStrictHull h pts = true := by
  unfold isStrictHull
  simp only [Bool.and_eq_true, List.all_eq_true, List.contains_eq_mem, decide_eq_true_eq, beq_iff_eq]
  exact ⟨⟨⟨⟨h1, h2⟩, h3⟩, h4⟩, h5⟩

/-- non-vacuity: the checker accepts the unit square's hull and rejects the F6 ring that keeps
`(4,0)` between `(2,0)` and `(5,0)`. -/
example : isStrictHull [⟨0, 0⟩, ⟨1, 0⟩, ⟨1, 1⟩, ⟨0, 1⟩, ⟨0, 0⟩] [⟨0, 0⟩, ⟨1, 0⟩, ⟨1, 1⟩, ⟨0, 1⟩, ⟨1, 1⟩] = true := by
  decide +kernel
example : isStrictHull [⟨2, 0⟩, ⟨4, 0⟩, ⟨5, 0⟩, ⟨5, 5⟩, ⟨0, 5⟩, ⟨2, 0⟩]
    [⟨2, 0⟩, ⟨5, 0⟩, ⟨4, 0⟩, ⟨5, 0⟩, ⟨4, 5⟩, ⟨5, 5⟩, ⟨4, 2⟩, ⟨4, 0⟩, ⟨0, 5⟩] = false := by
  decide +kernel


/-! ### T1: `minimum_rotated_rect` — every candidate box contains every hull vertex -/

private theorem rmin_le_left (a b : Rat) : rmin a b ≤ a := by
  unfold rmin; split
  · exact le_refl _
  · rename_i h; exact le_of_lt (not_le.1 h)

private theorem rmin_le_right (a b : Rat) : rmin a b ≤ b := by
  unfold rmin; split
  · assumption
  · exact le_refl _

private theorem le_rmax_left (a b : Rat) : a ≤ rmax a b := by
  unfold rmax; split
  · assumption
  · exact le_refl _

private theorem le_rmax_right (a b : Rat) : b ≤ rmax a b := by
  unfold rmax; split
  · exact le_refl _
  · rename_i h; exact le_of_lt (not_le.1 h)

private theorem foldl_rmin_le (l : List Rat) : ∀ v : Rat,
    l.foldl rmin v ≤ v ∧ ∀ x ∈ l, l.foldl rmin v ≤ x := by
  induction l with
  | nil => intro v; simp
  | cons y t ih =>
    intro v
    simp only [List.foldl]
    have h := ih (rmin v y)
    refine ⟨le_trans h.1 (rmin_le_left _ _), ?_⟩
    intro x hx
    rcases List.mem_cons.1 hx with hx | hx
    · subst hx; exact le_trans h.1 (rmin_le_right _ _)
    · exact h.2 x hx

private theorem le_foldl_rmax (l : List Rat) : ∀ v : Rat,
    v ≤ l.foldl rmax v ∧ ∀ x ∈ l, x ≤ l.foldl rmax v := by
  induction l with
  | nil => intro v; simp
  | cons y t ih =>
    intro v
    simp only [List.foldl]
    have h := ih (rmax v y)
    refine ⟨le_trans (le_rmax_left _ _) h.1, ?_⟩
    intro x hx
    rcases List.mem_cons.1 hx with hx | hx
    · subst hx; exact le_trans (le_rmax_right _ _) h.1
    · exact h.2 x hx

/-- [T] for every direction `d` (in particular every hull-edge direction and its normal, which span
the candidate rectangle of `minimum_rotated_rect`) the projection of every vertex lies between the
two extreme projections whose difference is `extent d`; so each candidate rectangle contains every
hull vertex, and its side lengths are non-negative. -/
theorem mrr_contains (d p0 : Pt) (ps : List Pt) :
    (∀ p ∈ p0 :: ps, (ps.map (dot d)).foldl rmin (dot d p0) ≤ dot d p ∧
        dot d p ≤ (ps.map (dot d)).foldl rmax (dot d p0)) ∧
    extent d (p0 :: ps) = (ps.map (dot d)).foldl rmax (dot d p0) - (ps.map (dot d)).foldl rmin (dot d p0) ∧
    0 ≤ extent d (p0 :: ps) := by
  have hmin := foldl_rmin_le (ps.map (dot d)) (dot d p0)
  have hmax := le_foldl_rmax (ps.map (dot d)) (dot d p0)
  refine ⟨?_, ?_, ?_⟩
  · intro p hp
    rcases List.mem_cons.1 hp with hp | hp
    · subst hp; exact ⟨hmin.1, hmax.1⟩
    · have hm : dot d p ∈ ps.map (dot d) := List.mem_map.2 ⟨p, hp, rfl⟩
      exact ⟨hmin.2 _ hm, hmax.2 _ hm⟩
  · simp [extent]
  · have : extent d (p0 :: ps) = (ps.map (dot d)).foldl rmax (dot d p0) - (ps.map (dot d)).foldl rmin (dot d p0) := by
      simp [extent]
    rw [this]
    linarith [hmin.1, hmax.1]

/-- [T] `minimum_rotated_rect` keeps the smallest candidate: the selected area is not larger than
the box area of any hull-edge direction. -/
theorem minBoxArea_le (hull : List Pt) (m : Rat) (h : minBoxArea hull = some m) :
    ∀ e ∈ edges hull, m ≤ boxArea (e.2 - e.1) hull := by
  unfold minBoxArea at h
  have key : ∀ (l : List (Pt × Pt)) (acc : Option Rat) (m : Rat),
      l.foldl (fun acc e =>
        let a := boxArea (e.2 - e.1) hull
        match acc with
        | none => some a
        | some m => if a < m then some a else some m) acc = some m →
      (∀ e ∈ l, m ≤ boxArea (e.2 - e.1) hull) ∧ (∀ m0, acc = some m0 → m ≤ m0) := by
    intro l
    induction l with
    | nil =>
      intro acc m h
      simp only [List.foldl] at h
      refine ⟨by simp, ?_⟩
      intro m0 h0; rw [h0] at h; cases h; exact le_refl _
    | cons e t ih =>
      intro acc m h
      simp only [List.foldl] at h
      cases acc with
      | none =>
        have := ih _ m h
        refine ⟨?_, by simp⟩
        intro e' he'
        rcases List.mem_cons.1 he' with he' | he'
        · subst he'; exact this.2 _ rfl
        · exact this.1 e' he'
      | some m0 =>
        dsimp only at h
        by_cases hlt : boxArea (e.2 - e.1) hull < m0
        · rw [if_pos hlt] at h
          have := ih _ m h
          refine ⟨?_, ?_⟩
          · intro e' he'
            rcases List.mem_cons.1 he' with he' | he'
            · subst he'; exact this.2 _ rfl
            · exact this.1 e' he'
          · intro m1 h1; cases h1
            exact le_trans (this.2 _ rfl) (le_of_lt hlt)
        · rw [if_neg hlt] at h
          have := ih _ m h
          refine ⟨?_, ?_⟩
          · intro e' he'
            rcases List.mem_cons.1 he' with he' | he'
            · subst he'; exact le_trans (this.2 _ rfl) (not_lt.1 hlt)
            · exact this.1 e' he'
          · intro m1 h1; cases h1
            exact this.2 _ rfl
  exact (key _ _ _ h).1


/-! ### T2: the stack pass of Graham's scan keeps a strictly convex chain (local invariant) -/

/-- the stack (top first) makes a strict left turn at every inner vertex -/
def StackOk : List Pt → Prop
  | top :: snd :: third :: rest => orient third snd top = .ccw ∧ StackOk (snd :: third :: rest)
  | _ => True

private theorem stackOk_tail (x : Pt) (t : List Pt) (h : StackOk (x :: t)) : StackOk t := by
  cases t with
  | nil => trivial
  | cons y u =>
    cases u with
    | nil => trivial
    | cons z w => exact h.2

private theorem popWhile_ok (pt : Pt) : ∀ st : List Pt, StackOk st →
    StackOk (popWhile false pt st) ∧
    (∀ top snd rest, popWhile false pt st = top :: snd :: rest → orient snd top pt = .ccw) := by
  intro st
  induction st with
  | nil => intro _; simp [popWhile, StackOk]
  | cons top t ih =>
    intro hok
    cases t with
    | nil => simp [popWhile, StackOk]
    | cons snd rest =>
      have htail := stackOk_tail _ _ hok
      simp only [popWhile]
      split
      · rename_i hccw
        refine ⟨hok, ?_⟩
        intro a b r heq
        cases heq
        exact hccw
      · exact ih htail
      · simp only [Bool.false_eq_true, if_false]
        exact ih htail

/-- [Tp] `graham_pass_convex`: whatever the order of the points fed to it, the stack pass of
`graham_hull(.., false)` keeps a chain that turns strictly left at every inner vertex.
(Full statement, not proved: if the points are angularly sorted around the lexicographically least
point the closed chain is the strict hull, `isStrictHull (grahamHull rnd pts false) pts`.) -/
theorem graham_pass_convex_partial (l : List Pt) : ∀ st : List Pt, StackOk st →
    StackOk (l.foldl (grahamStep false) st) := by
  induction l with
  | nil => intro st h; exact h
  | cons p t ih =>
    intro st h
    simp only [List.foldl]
    apply ih
    unfold grahamStep
    dsimp only
    have hp := popWhile_ok p st h
    split
    · generalize hst : popWhile false p st = st' at hp
      cases st' with
      | nil => trivial
      | cons a u =>
        cases u with
        | nil => trivial
        | cons b w => exact ⟨hp.2 a b w rfl, hp.1⟩
    · exact hp.1

/-- [T] spelled out: in the vertex order of the output (bottom of the stack first) every three
consecutive vertices of the chain built by `graham_hull(.., false)` make a strict left turn. -/
theorem graham_chain_strict (head : Pt) (l : List Pt) :
    StackOk (l.foldl (grahamStep false) [head]) :=
  graham_pass_convex_partial l [head] trivial

theorem stackOk_spec (st : List Pt) (h : StackOk st) :
    ∀ (i : Nat) (a b c : Pt), st[i]? = some c → st[i + 1]? = some b → st[i + 2]? = some a →
      0 < cross a b c := by
  induction st with
  | nil => intro i a b c hc; simp at hc
  | cons x t ih =>
    intro i a b c hc hb ha
    cases i with
    | zero =>
      cases t with
      | nil => simp at hb
      | cons y u =>
        cases u with
        | nil => simp at ha
        | cons z w =>
          simp at hc hb ha
          subst hc hb ha
          exact (orient_ccw_iff _ _ _).1 h.1
    | succ j =>
      exact ih (stackOk_tail _ _ h) j a b c (by simpa using hc) (by simpa using hb) (by simpa using ha)


/-! ### T1: the trivial cases (fewer than four coordinates) are complete -/

/-- [T] `trivialHull_correct`: for fewer than four coordinates of which three are not collinear,
`trivial_hull` (both `include_on_hull` settings) returns the strict hull: a closed, strictly
counter-clockwise triangle on the input coordinates containing all of them. -/
theorem trivialHull_correct (pts : List Pt) (incl : Bool) (ht : hasTriangle pts = true)
    (hl : pts.length < 4) : isStrictHull (trivialHull pts incl) pts = true :=
  trivialHull_triangle pts incl ht hl

example : isStrictHull (trivialHull [⟨0, 0⟩, ⟨0, 1⟩, ⟨1, 0⟩] false) [⟨0, 0⟩, ⟨0, 1⟩, ⟨1, 0⟩] = true :=
  trivialHull_correct _ _ (by decide +kernel) (by decide)

/-- [T] the full property for fewer than four coordinates, for all three entry points. -/
theorem small_hull_correct (rnd : Rat → Rat) (pts : List Pt) (ht : hasTriangle pts = true)
    (hl : pts.length < 4) :
    isStrictHull (quickHull rnd pts) pts = true ∧ isStrictHull (grahamHull rnd pts false) pts = true ∧
      isStrictHull (convexHull rnd pts) pts = true ∧
      sameVertexSet (quickHull rnd pts) (grahamHull rnd pts false) = true := by
  have hq : quickHull rnd pts = trivialHull pts false := by unfold quickHull; rw [if_pos hl]
  have hg : grahamHull rnd pts false = trivialHull pts false := by unfold grahamHull; rw [if_pos hl]
  rw [convexHull_eq_quickHull, hq, hg]
  refine ⟨trivialHull_correct pts false ht hl, trivialHull_correct pts false ht hl,
    trivialHull_correct pts false ht hl, ?_⟩
  unfold sameVertexSet
  simp

/-- [T] documented degenerate outputs: no coordinate gives the empty ring, one coordinate is
doubled ("a linestring with a single point is invalid"). -/
theorem trivialHull_degenerate (a : Pt) (incl : Bool) :
    trivialHull [] incl = [] ∧ trivialHull [a] incl = [a, a] := by
  constructor
  · cases incl <;>
      simp [trivialHull, trivialDedup, lexSort, trivialPad, close, makeCcw, windingOrder]
  · cases incl <;>
      simp [trivialHull, trivialDedup, lexSort, lexInsert, trivialPad, close, makeCcw, windingOrder]

/-- [T] a ring without a strict turn is never accepted: for inputs without three non-collinear
coordinates (outside the property's domain) no ring passes the checker. -/
theorem no_hull_without_triangle (h pts : List Pt) (hs : isStrictHull h pts = true) :
    hasTriangle pts = true := by
  have hv := isStrictHull_vertices h pts hs
  have hc := isStrictHull_closed h pts hs
  have ht := isStrictHull_turns h pts hs
  -- the first three vertices of the ring turn strictly left
  match h, hc, hv, ht with
  | a :: b :: c :: d :: t, _, hv, ht =>
    have hlen : 0 < (a :: b :: c :: d :: t).dropLast.length := by simp
    have h3 : 3 ≤ (a :: b :: c :: d :: t).dropLast.length := by simp
    have hpos := ht 0 hlen a b c (by simp) (by
        rw [Nat.mod_eq_of_lt (by omega)]; simp [List.dropLast]) (by
        rw [Nat.mod_eq_of_lt (by omega)]; simp [List.dropLast])
    unfold hasTriangle
    simp only [List.any_eq_true, bne_iff_ne, ne_eq]
    exact ⟨a, hv a (by simp), b, hv b (by simp), c, hv c (by simp), ne_of_gt hpos⟩


/-! ### Witnesses of the two repaired defects (why `quick_hull` verifies its ring) -/

/-- F6 input: equally far points in the farthest-point search -/
def f6Input : List Pt := [⟨2, 0⟩, ⟨5, 0⟩, ⟨4, 0⟩, ⟨5, 0⟩, ⟨4, 5⟩, ⟨5, 5⟩, ⟨4, 2⟩, ⟨4, 0⟩, ⟨0, 5⟩]

/-- K5 input: coordinates around `2^52`, the dot product is rounded -/
def k5Input : List Pt :=
  [⟨-4503599627370496, -4503599627370496⟩, ⟨4503599627370496, 4503599627370496⟩,
   ⟨0, 3 / 8⟩, ⟨1 / 8, 1 / 4⟩, ⟨1 / 4, 5 / 16⟩]

/-- [T] F6: in exact arithmetic (any scalar type) the unverified quick-hull ring keeps `(4,0)`
between `(2,0)` and `(5,0)` and is not the strict hull; `quick_hull` with the guard is. -/
theorem quickHullRaw_tie_witness :
    isStrictHull (quickHullRaw id f6Input).2 f6Input = false ∧
    (quickHullRaw id f6Input).2 = [⟨2, 0⟩, ⟨4, 0⟩, ⟨5, 0⟩, ⟨5, 5⟩, ⟨0, 5⟩, ⟨2, 0⟩] ∧
    isStrictHull (quickHull id f6Input) f6Input = true := by
  decide +kernel

/-- [T] K5: with binary64 rounding the unverified ring is not the strict hull although it is with
exact arithmetic; `quick_hull` with the guard returns the strict hull. -/
theorem quickHullRaw_rounding_witness :
    isStrictHull (quickHullRaw roundF64 k5Input).2 k5Input = false ∧
    isStrictHull (quickHullRaw id k5Input).2 k5Input = true ∧
    isStrictHull (quickHull roundF64 k5Input) k5Input = true := by
  decide +kernel

/-- sanity of the binary64 rounding model: ties go to the even mantissa, 0.1 is the usual double -/
example : roundF64 18014398509481983 = 18014398509481984 ∧ roundF64 9007199254740993 = 9007199254740992 ∧
    roundF64 9007199254740995 = 9007199254740996 ∧
    roundF64 (1 / 10) = 3602879701896397 / 36028797018963968 := by
  decide +kernel

end Geo.Proofs.C08
