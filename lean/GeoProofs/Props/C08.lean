/-
  C08 — Convex hull is the smallest convex polygon containing the input.

  Model: GeoModel/Hull.lean (exact mirrors of `quick_hull`, `hull_set`, `graham_hull`,
  `trivial_hull`, `ConvexHull::convex_hull`, skeleton of `minimum_rotated_rect`, checker
  `isStrictHull`). Helper lemmas: GeoProofs/Lemmas/C08Mem.lean.

  Every theorem quantifies over *all* coordinate lists (duplicates, collinear, fewer than three
  points) and over an *arbitrary* rounding function `rnd` applied to the non-predicate arithmetic
  (so it covers `i64`, `f64` and any other scalar type).

  Global correctness (section "T2: global correctness of the Graham scan"):
    grahamHull_isStrictHull_exact   — proved in full for exact scalar types (`rnd = id`)
    grahamHull_isStrictHull_partial — any rounding, under `DistExactPivot` (rounded squared distances
                                      order points collinear with the pivot like the exact ones)
    quickHull_isStrictHull_partial  — (wave 3) proved when the Graham fallback is taken; when quick-hull
                                      keeps its own ring, containment of that ring is a hypothesis `hraw`
  Section "T3: correctness of the quick-hull path" discharges `hraw`:
    strictCcwHull_is_convex           — what `is_strict_ccw_hull` establishes: an accepted ring is convex
    quickHull_ring_spans_input        — every input coordinate is in the convex hull of quick-hull's ring
                                        (from the structure of `hull_set`; any rounding, any tie-break)
    quickHull_kept_ring_isStrictHull  — so a ring kept after verification is the strict hull (any rounding)
    convexHull_isStrictHull_exact, quickHull_isStrictHull_exact — exact scalar types: no hypothesis
                                        beyond three non-collinear coordinates
    convexHull_isStrictHull_f64_partial, quickHull_isStrictHull_f64_partial — `f64`: outside the
                                        driver's SKIP class `grahamTie`
    strict_hull_unique, quick_graham_same_vertices_exact — the strict hull is unique as a vertex set
    convexHull_degenerate             — inputs without three non-collinear coordinates
  Not provable as stated (kept visible):
    theorem quickHull_isStrictHull (rnd pts) : hasTriangle pts → isStrictHull (quickHull rnd pts) pts
    theorem grahamHull_isStrictHull (rnd pts) : hasTriangle pts → isStrictHull (grahamHull rnd pts false) pts
      (as stated, for an *arbitrary* function `rnd`, this is false: a rounding that maps every
      distance to 0 lets a nearer collinear point follow a farther one, and the scan drops the
      farther one; see `DistExactPivot`. For quick-hull only the Graham fallback needs the hypothesis.)
-/
import GeoModel.Hull
import GeoProofs.Lemmas.C08Mem
import GeoProofs.Lemmas.C08Trivial
import GeoProofs.Lemmas.C08QAlg
import GeoProofs.Lemmas.C08QSort
import GeoProofs.Lemmas.C08QScan
import GeoProofs.Lemmas.C08QHull
import GeoProofs.Lemmas.C08QQuick
import GeoProofs.Lemmas.C08QRound
import GeoProofs.Lemmas.C08QF64
import GeoProofs.Lemmas.QHULMain
import GeoProofs.Lemmas.QHULUniq
import GeoProofs.Lemmas.QHULDegen
import GeoProofs.Lemmas.TRAN2Hull
import Mathlib.Tactic.Linarith
import Mathlib.Tactic.Ring

namespace Geo.Proofs.C08
open Geo Geo.Hull

/-! ### T1: hull vertices are input coordinates; the ring is closed -/

/-- [T] `trivial_hull` (fewer than four points) only returns input coordinates. -/
theorem trivialHull_subset (pts : List Pt) (incl : Bool) : ∀ x ∈ trivialHull pts incl, x ∈ pts :=
  trivialHull_subset' pts incl

/-- [T] `graham_hull` only returns input coordinates (any rounding, both `include_on_hull`). -/
theorem grahamHull_subset (rnd : Rat → Rat) (pts : List Pt) (incl : Bool) :
    ∀ x ∈ grahamHull rnd pts incl, x ∈ pts :=
  grahamHull_subset' rnd pts incl

/-- [T] `hull_set` pushes only coordinates of its slice, and leaves a slice of the same coordinates. -/
theorem hullSet_no_new_points (rnd : Rat → Rat) (fuel : Nat) (a b : Pt) (set : List Pt) :
    (∀ x ∈ (hullSet rnd fuel a b set).1, x ∈ set) ∧ (∀ x ∈ (hullSet rnd fuel a b set).2, x ∈ set) :=
  hullSet_subset rnd fuel a b set

/-- [T] `quick_hull` (with its Graham fallback) only returns input coordinates. -/
theorem quickHull_subset (rnd : Rat → Rat) (pts : List Pt) : ∀ x ∈ quickHull rnd pts, x ∈ pts := by
  intro x hx
  unfold quickHull at hx
  split at hx
  · exact trivialHull_subset' _ _ x hx
  · rename_i hlen
    have h2 : 2 ≤ pts.length := by omega
    have hraw := quickHullRaw_subset rnd pts h2
    dsimp only at hx
    split at hx
    · exact hraw.1 x (grahamHull_subset' _ _ _ x hx)
    · exact hraw.2 x hx

/-- [T] `ConvexHull::convex_hull` only returns input coordinates. -/
theorem convexHull_subset (rnd : Rat → Rat) (pts : List Pt) : ∀ x ∈ convexHull rnd pts, x ∈ pts :=
  fun x hx => quickHull_subset rnd pts x (close_subset _ x hx)

/-- [T] the ring returned by `trivial_hull` is closed (first = last; the empty ring counts). -/
theorem trivialHull_closed (pts : List Pt) (incl : Bool) :
    (trivialHull pts incl).head? = (trivialHull pts incl).getLast? :=
  trivialHull_closed' pts incl

/-- [T] the ring returned by `graham_hull` is closed. -/
theorem grahamHull_closed (rnd : Rat → Rat) (pts : List Pt) (incl : Bool) :
    (grahamHull rnd pts incl).head? = (grahamHull rnd pts incl).getLast? :=
  grahamHull_closed' rnd pts incl

/-- [T] the ring returned by `quick_hull` is closed. -/
theorem quickHull_closed (rnd : Rat → Rat) (pts : List Pt) :
    (quickHull rnd pts).head? = (quickHull rnd pts).getLast? := by
  unfold quickHull
  split
  · exact trivialHull_closed' _ _
  · dsimp only
    split
    · exact grahamHull_closed' _ _ _
    · unfold quickHullRaw; exact close_closed _

/-- [T] `Polygon::new` does not alter the ring of `quick_hull`: it is already closed. -/
theorem convexHull_eq_quickHull (rnd : Rat → Rat) (pts : List Pt) :
    convexHull rnd pts = quickHull rnd pts := by
  unfold convexHull
  have h := quickHull_closed rnd pts
  generalize quickHull rnd pts = r at h
  cases r with
  | nil => rfl
  | cons a t =>
    simp only [close]
    rw [if_pos]
    simpa using h.symm

/-- [T] what `quick_hull` returns for four or more points: its own ring when that ring is verified
(every turn strictly left, winds once) or has at most three coordinates (all points collinear),
otherwise the ring of the Graham scan. -/
theorem quickHull_verified_or_graham (rnd : Rat → Rat) (pts : List Pt) (h : 4 ≤ pts.length) :
    (quickHull rnd pts = (quickHullRaw rnd pts).2 ∧
      ((quickHullRaw rnd pts).2.length ≤ 3 ∨ isStrictCcwHull (quickHullRaw rnd pts).2 = true)) ∨
    quickHull rnd pts = grahamHull rnd (quickHullRaw rnd pts).1 false := by
  unfold quickHull
  rw [if_neg (by omega)]
  dsimp only
  split
  · right; rfl
  · rename_i hc
    left
    refine ⟨rfl, ?_⟩
    by_cases hl : (quickHullRaw rnd pts).2.length ≤ 3
    · exact Or.inl hl
    · right
      have hl' : decide ((quickHullRaw rnd pts).2.length > 3) = true := by simp; omega
      cases hv : isStrictCcwHull (quickHullRaw rnd pts).2 with
      | true => rfl
      | false => simp [hl', hv] at hc


/-! ### T1: soundness of the checker `isStrictHull` (the per-case property verdict) -/

/-- [T] `orient` is the sign of the exact determinant. -/
theorem orient_ccw_iff (a b c : Pt) : orient a b c = .ccw ↔ 0 < cross a b c := by
  unfold orient
  dsimp only
  constructor
  · intro h
    split at h
    · assumption
    · split at h <;> simp at h
  · intro h
    rw [if_pos h]

private theorem triplesCcw_get (l : List Pt) (h : triplesCcw l = true) :
    ∀ (i : Nat) (a b c : Pt), l[i]? = some a → l[i + 1]? = some b → l[i + 2]? = some c →
      0 < cross a b c := by
  induction l with
  | nil => intro i a b c ha; simp at ha
  | cons x t ih =>
    intro i a b c ha hb hc
    cases t with
    | nil => simp at hb
    | cons y u =>
      cases u with
      | nil => simp at hc
      | cons z w =>
        simp only [triplesCcw, Bool.and_eq_true, beq_iff_eq] at h
        cases i with
        | zero =>
          simp at ha hb hc
          subst ha hb hc
          exact (orient_ccw_iff _ _ _).1 h.1
        | succ j =>
          exact ih h.2 j a b c (by simpa using ha) (by simpa using hb) (by simpa using hc)

private theorem cyc_get (v : List Pt) (hn : 2 ≤ v.length) (i k : Nat) (hi : i < v.length) (hk : k ≤ 2) :
    (v ++ v.take 2)[i + k]? = v[(i + k) % v.length]? := by
  by_cases hlt : i + k < v.length
  · rw [List.getElem?_append_left hlt, Nat.mod_eq_of_lt hlt]
  · have hge : v.length ≤ i + k := by omega
    rw [List.getElem?_append_right hge, List.getElem?_take]
    have hmod : (i + k) % v.length = i + k - v.length := by
      rw [Nat.mod_eq_sub_mod hge, Nat.mod_eq_of_lt (by omega)]
    rw [hmod, if_pos (by omega)]

/-- [T] the turn test of the checker, spelled out: at every vertex `i` of the (unclosed) vertex list
`v` the cyclically consecutive vertices make a strict left turn. -/
theorem cycTriplesCcw_spec (v : List Pt) (h : cycTriplesCcw v = true) :
    ∀ i, i < v.length → ∀ a b c : Pt, v[i]? = some a → v[(i + 1) % v.length]? = some b →
      v[(i + 2) % v.length]? = some c → 0 < cross a b c := by
  unfold cycTriplesCcw at h
  simp only [Bool.and_eq_true, decide_eq_true_eq] at h
  intro i hi a b c ha hb hc
  have h0 := cyc_get v h.1 i 0 hi (by omega)
  have h1 := cyc_get v h.1 i 1 hi (by omega)
  have h2 := cyc_get v h.1 i 2 hi (by omega)
  rw [Nat.add_zero, Nat.mod_eq_of_lt hi] at h0
  exact triplesCcw_get _ h.2 i a b c (by rw [← ha]; simpa using h0) (by rw [← hb]; exact h1)
    (by rw [← hc]; exact h2)

/-- [T] a strict left turn excludes a repeated vertex and a vertex on the line through its
neighbours (in particular on the segment between them). -/
theorem strict_turn_not_degenerate (a b c : Pt) (h : 0 < cross a b c) :
    a ≠ b ∧ b ≠ c ∧ ¬ ∃ t : Rat, b.x = a.x + t * (c.x - a.x) ∧ b.y = a.y + t * (c.y - a.y) := by
  refine ⟨?_, ?_, ?_⟩
  · intro hab; subst hab
    simp [cross] at h
  · intro hbc; subst hbc
    simp [cross] at h
  · rintro ⟨t, hx, hy⟩
    have : cross a b c = 0 := by
      unfold cross; rw [hx, hy]; ring
    linarith

/-- [T] checker soundness, shape: an accepted ring is closed and has at least 4 coordinates. -/
theorem isStrictHull_closed (h pts : List Pt) (hs : isStrictHull h pts = true) :
    4 ≤ h.length ∧ h.head? = h.getLast? := by
  unfold isStrictHull at hs
  simp only [Bool.and_eq_true, decide_eq_true_eq, beq_iff_eq] at hs
  exact ⟨hs.1.1.1.1, hs.1.1.1.2⟩

/-- [T] checker soundness, turns: every cyclically consecutive triple of vertices of an accepted
ring is strictly counter-clockwise. -/
theorem isStrictHull_turns (h pts : List Pt) (hs : isStrictHull h pts = true) :
    ∀ i, i < h.dropLast.length → ∀ a b c : Pt, h.dropLast[i]? = some a →
      h.dropLast[(i + 1) % h.dropLast.length]? = some b →
      h.dropLast[(i + 2) % h.dropLast.length]? = some c → 0 < cross a b c := by
  unfold isStrictHull at hs
  simp only [Bool.and_eq_true] at hs
  exact cycTriplesCcw_spec _ hs.1.1.2

/-- [T] checker soundness, vertices: every coordinate of an accepted ring is an input coordinate. -/
theorem isStrictHull_vertices (h pts : List Pt) (hs : isStrictHull h pts = true) :
    ∀ v ∈ h, v ∈ pts := by
  unfold isStrictHull at hs
  simp only [Bool.and_eq_true, List.all_eq_true, List.contains_eq_mem, decide_eq_true_eq] at hs
  exact hs.1.2

/-- [T] checker soundness, containment: every input coordinate is left of or on every edge of an
accepted ring (exact orientation). -/
theorem isStrictHull_contains (h pts : List Pt) (hs : isStrictHull h pts = true) :
    ∀ p ∈ pts, ∀ e ∈ edges h, 0 ≤ cross e.1 e.2 p := by
  unfold isStrictHull at hs
  simp only [Bool.and_eq_true, List.all_eq_true, decide_eq_true_eq] at hs
  exact hs.2

/-- [T] conversely the checker accepts whenever the four clauses hold (it demands nothing more). -/
theorem isStrictHull_complete (h pts : List Pt) (h1 : 4 ≤ h.length) (h2 : h.head? = h.getLast?)
    (h3 : cycTriplesCcw h.dropLast = true) (h4 : ∀ v ∈ h, v ∈ pts)
    (h5 : ∀ p ∈ pts, ∀ e ∈ edges h, 0 ≤ cross e.1 e.2 p) : isStrictHull h pts = true := by
  unfold isStrictHull
  simp only [Bool.and_eq_true, List.all_eq_true, List.contains_eq_mem, decide_eq_true_eq, beq_iff_eq]
  exact ⟨⟨⟨⟨h1, h2⟩, h3⟩, h4⟩, h5⟩

/-- non-vacuity: the checker accepts the unit square's hull and rejects the F6 ring that keeps
`(4,0)` between `(2,0)` and `(5,0)`. -/
example : isStrictHull [⟨0, 0⟩, ⟨1, 0⟩, ⟨1, 1⟩, ⟨0, 1⟩, ⟨0, 0⟩] [⟨0, 0⟩, ⟨1, 0⟩, ⟨1, 1⟩, ⟨0, 1⟩, ⟨1, 1⟩] = true := by
  decide +kernel
example : isStrictHull [⟨2, 0⟩, ⟨4, 0⟩, ⟨5, 0⟩, ⟨5, 5⟩, ⟨0, 5⟩, ⟨2, 0⟩]
    [⟨2, 0⟩, ⟨5, 0⟩, ⟨4, 0⟩, ⟨5, 0⟩, ⟨4, 5⟩, ⟨5, 5⟩, ⟨4, 2⟩, ⟨4, 0⟩, ⟨0, 5⟩] = false := by
  decide +kernel


/-! ### T1: `minimum_rotated_rect` — every candidate box contains every hull vertex -/

private theorem rmin_le_left (a b : Rat) : rmin a b ≤ a := by
  unfold rmin; split
  · exact le_refl _
  · rename_i h; exact le_of_lt (not_le.1 h)

private theorem rmin_le_right (a b : Rat) : rmin a b ≤ b := by
  unfold rmin; split
  · assumption
  · exact le_refl _

private theorem le_rmax_left (a b : Rat) : a ≤ rmax a b := by
  unfold rmax; split
  · assumption
  · exact le_refl _

private theorem le_rmax_right (a b : Rat) : b ≤ rmax a b := by
  unfold rmax; split
  · exact le_refl _
  · rename_i h; exact le_of_lt (not_le.1 h)

private theorem foldl_rmin_le (l : List Rat) : ∀ v : Rat,
    l.foldl rmin v ≤ v ∧ ∀ x ∈ l, l.foldl rmin v ≤ x := by
  induction l with
  | nil => intro v; simp
  | cons y t ih =>
    intro v
    simp only [List.foldl]
    have h := ih (rmin v y)
    refine ⟨le_trans h.1 (rmin_le_left _ _), ?_⟩
    intro x hx
    rcases List.mem_cons.1 hx with hx | hx
    · subst hx; exact le_trans h.1 (rmin_le_right _ _)
    · exact h.2 x hx

private theorem le_foldl_rmax (l : List Rat) : ∀ v : Rat,
    v ≤ l.foldl rmax v ∧ ∀ x ∈ l, x ≤ l.foldl rmax v := by
  induction l with
  | nil => intro v; simp
  | cons y t ih =>
    intro v
    simp only [List.foldl]
    have h := ih (rmax v y)
    refine ⟨le_trans (le_rmax_left _ _) h.1, ?_⟩
    intro x hx
    rcases List.mem_cons.1 hx with hx | hx
    · subst hx; exact le_trans (le_rmax_right _ _) h.1
    · exact h.2 x hx

/-- [T] for every direction `d` (in particular every hull-edge direction and its normal, which span
the candidate rectangle of `minimum_rotated_rect`) the projection of every vertex lies between the
two extreme projections whose difference is `extent d`; so each candidate rectangle contains every
hull vertex, and its side lengths are non-negative. -/
theorem mrr_contains (d p0 : Pt) (ps : List Pt) :
    (∀ p ∈ p0 :: ps, (ps.map (dot d)).foldl rmin (dot d p0) ≤ dot d p ∧
        dot d p ≤ (ps.map (dot d)).foldl rmax (dot d p0)) ∧
    extent d (p0 :: ps) = (ps.map (dot d)).foldl rmax (dot d p0) - (ps.map (dot d)).foldl rmin (dot d p0) ∧
    0 ≤ extent d (p0 :: ps) := by
  have hmin := foldl_rmin_le (ps.map (dot d)) (dot d p0)
  have hmax := le_foldl_rmax (ps.map (dot d)) (dot d p0)
  refine ⟨?_, ?_, ?_⟩
  · intro p hp
    rcases List.mem_cons.1 hp with hp | hp
    · subst hp; exact ⟨hmin.1, hmax.1⟩
    · have hm : dot d p ∈ ps.map (dot d) := List.mem_map.2 ⟨p, hp, rfl⟩
      exact ⟨hmin.2 _ hm, hmax.2 _ hm⟩
  · simp [extent]
  · have : extent d (p0 :: ps) = (ps.map (dot d)).foldl rmax (dot d p0) - (ps.map (dot d)).foldl rmin (dot d p0) := by
      simp [extent]
    rw [this]
    linarith [hmin.1, hmax.1]

/-- [T] `minimum_rotated_rect` keeps the smallest candidate: the selected area is not larger than
the box area of any hull-edge direction. -/
theorem minBoxArea_le (hull : List Pt) (m : Rat) (h : minBoxArea hull = some m) :
    ∀ e ∈ edges hull, m ≤ boxArea (e.2 - e.1) hull := by
  unfold minBoxArea at h
  have key : ∀ (l : List (Pt × Pt)) (acc : Option Rat) (m : Rat),
      l.foldl (fun acc e =>
        let a := boxArea (e.2 - e.1) hull
        match acc with
        | none => some a
        | some m => if a < m then some a else some m) acc = some m →
      (∀ e ∈ l, m ≤ boxArea (e.2 - e.1) hull) ∧ (∀ m0, acc = some m0 → m ≤ m0) := by
    intro l
    induction l with
    | nil =>
      intro acc m h
      simp only [List.foldl] at h
      refine ⟨by simp, ?_⟩
      intro m0 h0; rw [h0] at h; cases h; exact le_refl _
    | cons e t ih =>
      intro acc m h
      simp only [List.foldl] at h
      cases acc with
      | none =>
        have := ih _ m h
        refine ⟨?_, by simp⟩
        intro e' he'
        rcases List.mem_cons.1 he' with he' | he'
        · subst he'; exact this.2 _ rfl
        · exact this.1 e' he'
      | some m0 =>
        dsimp only at h
        by_cases hlt : boxArea (e.2 - e.1) hull < m0
        · rw [if_pos hlt] at h
          have := ih _ m h
          refine ⟨?_, ?_⟩
          · intro e' he'
            rcases List.mem_cons.1 he' with he' | he'
            · subst he'; exact this.2 _ rfl
            · exact this.1 e' he'
          · intro m1 h1; cases h1
            exact le_trans (this.2 _ rfl) (le_of_lt hlt)
        · rw [if_neg hlt] at h
          have := ih _ m h
          refine ⟨?_, ?_⟩
          · intro e' he'
            rcases List.mem_cons.1 he' with he' | he'
            · subst he'; exact le_trans (this.2 _ rfl) (not_lt.1 hlt)
            · exact this.1 e' he'
          · intro m1 h1; cases h1
            exact this.2 _ rfl
  exact (key _ _ _ h).1


/-! ### T2: the stack pass of Graham's scan keeps a strictly convex chain (local invariant) -/

/-- the stack (top first) makes a strict left turn at every inner vertex -/
def StackOk : List Pt → Prop
  | top :: snd :: third :: rest => orient third snd top = .ccw ∧ StackOk (snd :: third :: rest)
  | _ => True

private theorem stackOk_tail (x : Pt) (t : List Pt) (h : StackOk (x :: t)) : StackOk t := by
  cases t with
  | nil => trivial
  | cons y u =>
    cases u with
    | nil => trivial
    | cons z w => exact h.2

private theorem popWhile_ok (pt : Pt) : ∀ st : List Pt, StackOk st →
    StackOk (popWhile false pt st) ∧
    (∀ top snd rest, popWhile false pt st = top :: snd :: rest → orient snd top pt = .ccw) := by
  intro st
  induction st with
  | nil => intro _; simp [popWhile, StackOk]
  | cons top t ih =>
    intro hok
    cases t with
    | nil => simp [popWhile, StackOk]
    | cons snd rest =>
      have htail := stackOk_tail _ _ hok
      simp only [popWhile]
      split
      · rename_i hccw
        refine ⟨hok, ?_⟩
        intro a b r heq
        cases heq
        exact hccw
      · exact ih htail
      · simp only [Bool.false_eq_true, if_false]
        exact ih htail

/-- [Tp] `graham_pass_convex`: whatever the order of the points fed to it, the stack pass of
`graham_hull(.., false)` keeps a chain that turns strictly left at every inner vertex.
(Full statement, not proved: if the points are angularly sorted around the lexicographically least
point the closed chain is the strict hull, `isStrictHull (grahamHull rnd pts false) pts`.) -/
theorem graham_pass_convex_partial (l : List Pt) : ∀ st : List Pt, StackOk st →
    StackOk (l.foldl (grahamStep false) st) := by
  induction l with
  | nil => intro st h; exact h
  | cons p t ih =>
    intro st h
    simp only [List.foldl]
    apply ih
    unfold grahamStep
    dsimp only
    have hp := popWhile_ok p st h
    split
    · generalize hst : popWhile false p st = st' at hp
      cases st' with
      | nil => trivial
      | cons a u =>
        cases u with
        | nil => trivial
        | cons b w => exact ⟨hp.2 a b w rfl, hp.1⟩
    · exact hp.1

/-- [T] spelled out: in the vertex order of the output (bottom of the stack first) every three
consecutive vertices of the chain built by `graham_hull(.., false)` make a strict left turn. -/
theorem graham_chain_strict (head : Pt) (l : List Pt) :
    StackOk (l.foldl (grahamStep false) [head]) :=
  graham_pass_convex_partial l [head] trivial

theorem stackOk_spec (st : List Pt) (h : StackOk st) :
    ∀ (i : Nat) (a b c : Pt), st[i]? = some c → st[i + 1]? = some b → st[i + 2]? = some a →
      0 < cross a b c := by
  induction st with
  | nil => intro i a b c hc; simp at hc
  | cons x t ih =>
    intro i a b c hc hb ha
    cases i with
    | zero =>
      cases t with
      | nil => simp at hb
      | cons y u =>
        cases u with
        | nil => simp at ha
        | cons z w =>
          simp at hc hb ha
          subst hc hb ha
          exact (orient_ccw_iff _ _ _).1 h.1
    | succ j =>
      exact ih (stackOk_tail _ _ h) j a b c (by simpa using hc) (by simpa using hb) (by simpa using ha)


/-! ### T1: the trivial cases (fewer than four coordinates) are complete -/

/-- [T] `trivialHull_correct`: for fewer than four coordinates of which three are not collinear,
`trivial_hull` (both `include_on_hull` settings) returns the strict hull: a closed, strictly
counter-clockwise triangle on the input coordinates containing all of them. -/
theorem trivialHull_correct (pts : List Pt) (incl : Bool) (ht : hasTriangle pts = true)
    (hl : pts.length < 4) : isStrictHull (trivialHull pts incl) pts = true :=
  trivialHull_triangle pts incl ht hl

example : isStrictHull (trivialHull [⟨0, 0⟩, ⟨0, 1⟩, ⟨1, 0⟩] false) [⟨0, 0⟩, ⟨0, 1⟩, ⟨1, 0⟩] = true :=
  trivialHull_correct _ _ (by decide +kernel) (by decide)

/-- [T] the full property for fewer than four coordinates, for all three entry points. -/
theorem small_hull_correct (rnd : Rat → Rat) (pts : List Pt) (ht : hasTriangle pts = true)
    (hl : pts.length < 4) :
    isStrictHull (quickHull rnd pts) pts = true ∧ isStrictHull (grahamHull rnd pts false) pts = true ∧
      isStrictHull (convexHull rnd pts) pts = true ∧
      sameVertexSet (quickHull rnd pts) (grahamHull rnd pts false) = true := by
  have hq : quickHull rnd pts = trivialHull pts false := by unfold quickHull; rw [if_pos hl]
  have hg : grahamHull rnd pts false = trivialHull pts false := by unfold grahamHull; rw [if_pos hl]
  rw [convexHull_eq_quickHull, hq, hg]
  refine ⟨trivialHull_correct pts false ht hl, trivialHull_correct pts false ht hl,
    trivialHull_correct pts false ht hl, ?_⟩
  unfold sameVertexSet
  simp

/-- [T] documented degenerate outputs: no coordinate gives the empty ring, one coordinate is
doubled ("a linestring with a single point is invalid"). -/
theorem trivialHull_degenerate (a : Pt) (incl : Bool) :
    trivialHull [] incl = [] ∧ trivialHull [a] incl = [a, a] := by
  constructor
  · cases incl <;>
      simp [trivialHull, trivialDedup, lexSort, trivialPad, close, makeCcw, windingOrder]
  · cases incl <;>
      simp [trivialHull, trivialDedup, lexSort, lexInsert, trivialPad, close, makeCcw, windingOrder]

/-- [T] a ring without a strict turn is never accepted: for inputs without three non-collinear
coordinates (outside the property's domain) no ring passes the checker. -/
theorem no_hull_without_triangle (h pts : List Pt) (hs : isStrictHull h pts = true) :
    hasTriangle pts = true := by
  have hv := isStrictHull_vertices h pts hs
  have hc := isStrictHull_closed h pts hs
  have ht := isStrictHull_turns h pts hs
  -- the first three vertices of the ring turn strictly left
  match h, hc, hv, ht with
  | a :: b :: c :: d :: t, _, hv, ht =>
    have hlen : 0 < (a :: b :: c :: d :: t).dropLast.length := by simp
    have h3 : 3 ≤ (a :: b :: c :: d :: t).dropLast.length := by simp
    have hpos := ht 0 hlen a b c (by simp) (by
        rw [Nat.mod_eq_of_lt (by omega)]; simp [List.dropLast]) (by
        rw [Nat.mod_eq_of_lt (by omega)]; simp [List.dropLast])
    unfold hasTriangle
    simp only [List.any_eq_true, bne_iff_ne, ne_eq]
    exact ⟨a, hv a (by simp), b, hv b (by simp), c, hv c (by simp), ne_of_gt hpos⟩


/-! ### Witnesses of the two repaired defects (why `quick_hull` verifies its ring) -/

/-- F6 input: equally far points in the farthest-point search -/
def f6Input : List Pt := [⟨2, 0⟩, ⟨5, 0⟩, ⟨4, 0⟩, ⟨5, 0⟩, ⟨4, 5⟩, ⟨5, 5⟩, ⟨4, 2⟩, ⟨4, 0⟩, ⟨0, 5⟩]

/-- K5 input: coordinates around `2^52`, the dot product is rounded -/
def k5Input : List Pt :=
  [⟨-4503599627370496, -4503599627370496⟩, ⟨4503599627370496, 4503599627370496⟩,
   ⟨0, 3 / 8⟩, ⟨1 / 8, 1 / 4⟩, ⟨1 / 4, 5 / 16⟩]

/-- [T] F6: in exact arithmetic (any scalar type) the unverified quick-hull ring keeps `(4,0)`
between `(2,0)` and `(5,0)` and is not the strict hull; `quick_hull` with the guard is. -/
theorem quickHullRaw_tie_witness :
    isStrictHull (quickHullRaw id f6Input).2 f6Input = false ∧
    (quickHullRaw id f6Input).2 = [⟨2, 0⟩, ⟨4, 0⟩, ⟨5, 0⟩, ⟨5, 5⟩, ⟨0, 5⟩, ⟨2, 0⟩] ∧
    isStrictHull (quickHull id f6Input) f6Input = true := by
  decide +kernel

/-- [T] K5: with binary64 rounding the unverified ring is not the strict hull although it is with
exact arithmetic; `quick_hull` with the guard returns the strict hull. -/
theorem quickHullRaw_rounding_witness :
    isStrictHull (quickHullRaw roundF64 k5Input).2 k5Input = false ∧
    isStrictHull (quickHullRaw id k5Input).2 k5Input = true ∧
    isStrictHull (quickHull roundF64 k5Input) k5Input = true := by
  decide +kernel

/-- sanity of the binary64 rounding model: ties go to the even mantissa, 0.1 is the usual double -/
example : roundF64 18014398509481983 = 18014398509481984 ∧ roundF64 9007199254740993 = 9007199254740992 ∧
    roundF64 9007199254740995 = 9007199254740996 ∧
    roundF64 (1 / 10) = 3602879701896397 / 36028797018963968 := by
  decide +kernel


/-! ### T2: global correctness of the Graham scan

Helper lemmas: GeoProofs/Lemmas/C08QAlg.lean (polynomial facts), C08QSort.lean (sort step),
C08QScan.lean (stack pass), C08QHull.lean (pivot, ring, assembly), C08QQuick.lean (fallback). -/

/-- [T] transitivity of the orientation order in a half-plane: as seen from a point `p₀`
lexicographically less than `a`, `b`, `c` (the pivot of `graham_hull`), "counter-clockwise of or
collinear with" is transitive. -/
theorem orientation_order_trans (p₀ a b c : Pt) (ha : lexLt p₀ a = true) (hb : lexLt p₀ b = true)
    (hc : lexLt p₀ c = true) (h1 : 0 ≤ cross p₀ a b) (h2 : 0 ≤ cross p₀ b c) : 0 ≤ cross p₀ a c :=
  cross_trans_nonneg ((inH_iff_lexLt _ _).2 ha) ((inH_iff_lexLt _ _).2 hb) ((inH_iff_lexLt _ _).2 hc)
    h1 h2

example : 0 ≤ cross ⟨0, 0⟩ ⟨3, -1⟩ ⟨0, 5⟩ :=
  orientation_order_trans ⟨0, 0⟩ ⟨3, -1⟩ ⟨2, 2⟩ ⟨0, 5⟩ (by decide +kernel) (by decide +kernel)
    (by decide +kernel) (by norm_num [cross]) (by norm_num [cross])

/-- without the half-plane the order is cyclic, not transitive -/
example : 0 ≤ cross ⟨0, 0⟩ ⟨1, 0⟩ ⟨-1, 1⟩ ∧ 0 ≤ cross ⟨0, 0⟩ ⟨-1, 1⟩ ⟨-1, -1⟩ ∧
    ¬ 0 ≤ cross ⟨0, 0⟩ ⟨1, 0⟩ ⟨-1, -1⟩ := by
  norm_num [cross]

/-- [T] the comparator of `graham_hull` is total, whatever the rounding of the distances. -/
theorem graham_cmp_total (rnd : Rat → Rat) (head q r : Pt) :
    grahamLe rnd head q r = true ∨ grahamLe rnd head r q = true := by
  by_cases h : grahamLe rnd head q r = true
  · exact Or.inl h
  · exact Or.inr (grahamLe_total rnd head q r h)

/-- [T] the exact comparator `Le0` (strictly counter-clockwise around the pivot, or on a common
line through it and not farther) is transitive on the pivot's repetitions and the points
lexicographically greater than it — with totality: a total preorder. -/
theorem graham_cmp_trans (p₀ a b c : Pt) (ha : a = p₀ ∨ lexLt p₀ a = true)
    (hb : b = p₀ ∨ lexLt p₀ b = true) (hc : c = p₀ ∨ lexLt p₀ c = true)
    (h1 : Le0 p₀ a b) (h2 : Le0 p₀ b c) : Le0 p₀ a c :=
  le0_trans (ha.imp id (inH_iff_lexLt _ _).2) (hb.imp id (inH_iff_lexLt _ _).2)
    (hc.imp id (inH_iff_lexLt _ _).2) h1 h2

example : Le0 ⟨0, 0⟩ ⟨1, 1⟩ ⟨0, 3⟩ :=
  graham_cmp_trans ⟨0, 0⟩ ⟨1, 1⟩ ⟨2, 2⟩ ⟨0, 3⟩ (Or.inr (by decide +kernel)) (Or.inr (by decide +kernel))
    (Or.inr (by decide +kernel)) (Or.inr (by norm_num [cross, dist2])) (Or.inl (by norm_num [cross]))

/-- [T] **sortedness, model comparator**: the sort step of the model (insertion sort mirroring
`sort_unstable_by`) returns a list whose consecutive elements are in comparator order, for every
rounding function. -/
theorem graham_sort_sorted (rnd : Rat → Rat) (head : Pt) (l : List Pt) :
    GrahamSorted rnd head (grahamSort rnd head l) :=
  grahamSort_sorted rnd head l

/-- [Tp] **sortedness, exact terms**: consecutive elements `a, b` of the sorted list satisfy
`cross p₀ a b > 0`, or `= 0` with `a` not farther from `p₀` — when the rounded distances order
points collinear with the pivot like the exact ones (`DistExact`).
(Full statement `∀ rnd, SortedAround head (grahamSort rnd head l)` is false for a rounding that
collapses distinct distances.) -/
theorem graham_sort_sortedAround_partial (rnd : Rat → Rat) (head : Pt) (l : List Pt)
    (hd : DistExact rnd head l) : SortedAround head (grahamSort rnd head l) :=
  grahamSort_sortedAround rnd head l hd

example : SortedAround ⟨0, 0⟩ (grahamSort id ⟨0, 0⟩ [⟨2, 2⟩, ⟨1, 1⟩, ⟨3, 0⟩]) :=
  graham_sort_sortedAround_partial id _ _ (distExact_id _ _)

/-- [T] … which is the case for exact scalar types (`i64` without overflow: nothing is rounded). -/
theorem graham_sort_sortedAround_exact (head : Pt) (l : List Pt) :
    SortedAround head (grahamSort id head l) :=
  grahamSort_sortedAround id head l (distExact_id head l)

example : SortedAround ⟨0, 0⟩ (grahamSort id ⟨0, 0⟩ [⟨0, 2⟩, ⟨2, 2⟩, ⟨1, 1⟩, ⟨3, 0⟩]) :=
  graham_sort_sortedAround_exact _ _

/-- [T] a list sorted around the pivot (consecutive elements) whose elements are the pivot or
lexicographically greater is *pairwise* sorted. -/
theorem sortedAround_pairwise (p₀ : Pt) (l : List Pt) (hH : ∀ x ∈ l, x = p₀ ∨ lexLt p₀ x = true)
    (h : SortedAround p₀ l) : l.Pairwise (Le0 p₀) :=
  h.pairwise (fun x hx => (hH x hx).imp id (inH_iff_lexLt _ _).2)

example : [(⟨3, 0⟩ : Pt), ⟨1, 1⟩, ⟨2, 2⟩].Pairwise (Le0 ⟨0, 0⟩) :=
  sortedAround_pairwise ⟨0, 0⟩ _ (by decide +kernel)
    ⟨Or.inl (by norm_num [cross]), Or.inr (by norm_num [cross, dist2]), trivial⟩

/-- [T] the key geometric lemma: a point `top` popped by the stack pass (no strict left turn
`snd → top → p`) lies in the triangle pivot – `snd` – `p`: every closed half-plane
`cross u v · ≥ 0` that contains `p₀`, `snd` and `p` contains `top`. (`snd` is the pivot itself or
a stack point strictly clockwise of `top`.) -/
theorem graham_popped_in_triangle (p₀ snd top p : Pt)
    (hsnd : snd = p₀ ∨ (lexLt p₀ snd = true ∧ 0 < cross p₀ snd top))
    (htop : lexLt p₀ top = true) (hp : lexLt p₀ p = true) (hle : Le0 p₀ top p)
    (hpop : cross snd top p ≤ 0) (u v : Pt) (h0 : 0 ≤ cross u v p₀) (h1 : 0 ≤ cross u v snd)
    (h2 : 0 ≤ cross u v p) : 0 ≤ cross u v top := by
  have := pop_inside (hsnd.imp id (fun h => ⟨(inH_iff_lexLt _ _).2 h.1, h.2⟩))
    ((inH_iff_lexLt _ _).2 htop) ((inH_iff_lexLt _ _).2 hp) hle hpop
  apply this u v
  intro s hs
  simp only [List.mem_cons, List.not_mem_nil, or_false] at hs
  rcases hs with hs | hs | hs <;> subst hs <;> assumption

example : 0 ≤ cross ⟨0, 3⟩ ⟨0, 0⟩ ⟨2, 1⟩ :=
  graham_popped_in_triangle ⟨0, 0⟩ ⟨3, 0⟩ ⟨2, 1⟩ ⟨1, 3⟩ (Or.inr ⟨by decide +kernel, by norm_num [cross]⟩)
    (by decide +kernel) (by decide +kernel) (Or.inl (by norm_num [cross])) (by norm_num [cross])
    ⟨0, 3⟩ ⟨0, 0⟩ (by norm_num [cross]) (by norm_num [cross]) (by norm_num [cross])

/-- [Tp] **stack pass, global invariant** — "input already `SortedAround`": for a list `l` sorted
around `p₀` whose elements are `p₀` or lexicographically greater, the stack pass ends with
`up ++ [p₀]` where `p₀` followed by `up` reversed is in strictly convex position (`UpOk`: every
ordered triple of vertices turns strictly left, every point of `up` is greater than `p₀`), and
every point of `p₀ :: l` lies in the convex hull of the stack (`Inside`: in every closed
half-plane containing the stack).
(Full statement: with `l` the output of the sort step; see `grahamHull_isStrictHull_partial`.) -/
theorem graham_pass_global_partial (p₀ : Pt) (l : List Pt)
    (hH : ∀ x ∈ l, x = p₀ ∨ lexLt p₀ x = true) (hs : SortedAround p₀ l) :
    ∃ up, l.foldl (grahamStep false) [p₀] = up ++ [p₀] ∧ UpOk p₀ up ∧
      ∀ x ∈ p₀ :: l, Inside (up ++ [p₀]) x := by
  have hH' : ∀ x ∈ l, InH0 p₀ x := fun x hx => (hH x hx).imp id (inH_iff_lexLt _ _).2
  obtain ⟨up, hfold, hok, _, hall⟩ := grahamFold_main l [] (hs.pairwise hH') hH' (UpOk.nil p₀)
    (by simp)
  refine ⟨up, hfold, hok, ?_⟩
  intro x hx
  rcases List.mem_cons.1 hx with hx | hx
  · subst hx; exact Inside.of_mem (by simp)
  · exact hall x hx

example : ∃ up, [(⟨3, 0⟩ : Pt), ⟨1, 1⟩, ⟨2, 2⟩].foldl (grahamStep false) [⟨0, 0⟩] = up ++ [⟨0, 0⟩] ∧
    UpOk ⟨0, 0⟩ up ∧ ∀ x ∈ [(⟨0, 0⟩ : Pt), ⟨3, 0⟩, ⟨1, 1⟩, ⟨2, 2⟩], Inside (up ++ [⟨0, 0⟩]) x :=
  graham_pass_global_partial ⟨0, 0⟩ _ (by decide +kernel)
    ⟨Or.inl (by norm_num [cross]), Or.inr (by norm_num [cross, dist2]), trivial⟩

/-- [T] exact scalar types satisfy `DistExactPivot` (seen from the pivot, rounded squared distances
order collinear points like the exact ones — all the scan needs from the scalar arithmetic). -/
theorem distExactPivot_exact (pts : List Pt) : DistExactPivot id pts := distExactPivot_id pts

/-- [T] so does every monotone rounding that fixes 0 on inputs without a distance tie: two
coordinates collinear with a third get the same rounded squared distance from it only if they are
equally far. -/
theorem distExactPivot_monotone (rnd : Rat → Rat) (hmono : ∀ x y, x ≤ y → rnd x ≤ rnd y)
    (h0 : rnd 0 = 0) (pts : List Pt)
    (hnotie : ∀ o ∈ pts, ∀ q ∈ pts, ∀ r ∈ pts, cross o q r = 0 →
      dist2r rnd o q = dist2r rnd o r → dist2 o q = dist2 o r) : DistExactPivot rnd pts :=
  distExactPivot_of_monotone rnd hmono h0 pts hnotie

example : DistExactPivot (fun x => (Rat.floor (2 * x) : Rat) / 2) [⟨0, 0⟩, ⟨1, 1⟩, ⟨2, 2⟩, ⟨0, 2⟩] := by
  apply distExactPivot_monotone
  · intro x y h
    have : Rat.floor (2 * x) ≤ Rat.floor (2 * y) := Rat.floor_monotone (by linarith)
    have : ((Rat.floor (2 * x) : Int) : Rat) ≤ ((Rat.floor (2 * y) : Int) : Rat) := by exact_mod_cast this
    linarith
  · decide +kernel
  · decide +kernel

/-- [Tp] **`grahamHull_isStrictHull`** under `DistExactPivot`: for every coordinate list with three
non-collinear coordinates the verified checker accepts the model's `graham_hull(.., false)`: the
ring is closed, turns strictly left at every vertex, its vertices are input coordinates and every
input coordinate is left of or on every edge.
(Full statement, false for arbitrary `rnd`:
  `∀ rnd pts, hasTriangle pts → isStrictHull (grahamHull rnd pts false) pts`.) -/
theorem grahamHull_isStrictHull_partial (rnd : Rat → Rat) (pts : List Pt)
    (ht : hasTriangle pts = true) (hd : DistExactPivot rnd pts) :
    isStrictHull (grahamHull rnd pts false) pts = true := by
  by_cases hl : pts.length < 4
  · exact (small_hull_correct rnd pts ht hl).2.1
  · apply grahamHull_correct_of_distExact rnd pts hl ht
    have hne : pts ≠ [] := by intro h; simp [h] at hl
    intro q hq r hr
    exact hd _ (swapRemove_fst_mem _ _ hne) (pivot_least pts) q (swapRemove_snd_subset _ _ q hq) r
      (swapRemove_snd_subset _ _ r hr)

example : isStrictHull (grahamHull id [⟨1, 1⟩, ⟨2, 0⟩, ⟨0, 0⟩, ⟨2, 2⟩, ⟨0, 2⟩] false)
    [⟨1, 1⟩, ⟨2, 0⟩, ⟨0, 0⟩, ⟨2, 2⟩, ⟨0, 2⟩] = true :=
  grahamHull_isStrictHull_partial id _ (by decide +kernel) (distExactPivot_exact _)

/-- [Tp] **`grahamHull_isStrictHull`, rounding scalar types**: for a monotone rounding that fixes 0
(the properties of IEEE round-to-nearest; not proved here for the model's `roundF64`) the checker
accepts `graham_hull(.., false)` on every input that is not in the driver's SKIP class `grahamTie`
(two distinct coordinates collinear with the pivot with the same rounded squared distance — the
only inputs where the sorted order depends on `sort_unstable_by`'s internals). -/
theorem grahamHull_isStrictHull_notie_partial (rnd : Rat → Rat)
    (hmono : ∀ x y, x ≤ y → rnd x ≤ rnd y) (h0 : rnd 0 = 0) (pts : List Pt)
    (ht : hasTriangle pts = true)
    (hnt : grahamTie rnd (swapRemove pts (leastIndex pts)).1 (swapRemove pts (leastIndex pts)).2 = false) :
    isStrictHull (grahamHull rnd pts false) pts = true := by
  by_cases hl : pts.length < 4
  · exact (small_hull_correct rnd pts ht hl).2.1
  · apply grahamHull_correct_of_distExact rnd pts hl ht
    apply distExact_of_monotone rnd hmono h0
    · intro x hx
      rcases lexLt_tricho x _ (pivot_least pts x (swapRemove_snd_subset _ _ x hx)) with h | h
      · exact Or.inl h
      · exact Or.inr ((inH_iff_lexLt _ x).2 h)
    · intro q hq r hr hc hdd
      rw [grahamTie_false hnt q hq r hr hc hdd]

/-- a rounding to multiples of 1/2 … (floor): monotone, fixes 0; concrete instance -/
example : isStrictHull
    (grahamHull (fun x => (Rat.floor (2 * x) : Rat) / 2) [⟨1, 1⟩, ⟨2, 0⟩, ⟨0, 0⟩, ⟨2, 2⟩, ⟨0, 2⟩] false)
    [⟨1, 1⟩, ⟨2, 0⟩, ⟨0, 0⟩, ⟨2, 2⟩, ⟨0, 2⟩] = true := by
  apply grahamHull_isStrictHull_notie_partial
  · intro x y h
    have : Rat.floor (2 * x) ≤ Rat.floor (2 * y) := Rat.floor_monotone (by linarith)
    have : ((Rat.floor (2 * x) : Int) : Rat) ≤ ((Rat.floor (2 * y) : Int) : Rat) := by exact_mod_cast this
    linarith
  · decide +kernel
  · decide +kernel
  · decide +kernel

/-- [T] the model's binary64 rounding `roundF64` (round to nearest, ties to even, subnormals) is
monotone and fixes 0. -/
theorem roundF64_monotone : (∀ x y : Rat, x ≤ y → roundF64 x ≤ roundF64 y) ∧ roundF64 0 = 0 :=
  ⟨roundF64_mono, roundF64_zero⟩

/-- [Tp] **`grahamHull_isStrictHull` for `f64`** (distances rounded with `roundF64` after every
operation, as the model does for the `f64` scalar): the checker accepts `graham_hull(.., false)`
on every input outside the driver's SKIP class `grahamTie`.
(Full statement without `hnt` fails: with two distinct collinear coordinates of equal rounded
distance the order after the sort is not determined by the comparator.) -/
theorem grahamHull_isStrictHull_f64_partial (pts : List Pt) (ht : hasTriangle pts = true)
    (hnt : grahamTie roundF64 (swapRemove pts (leastIndex pts)).1 (swapRemove pts (leastIndex pts)).2 = false) :
    isStrictHull (grahamHull roundF64 pts false) pts = true :=
  grahamHull_isStrictHull_notie_partial roundF64 roundF64_mono roundF64_zero pts ht hnt

example : isStrictHull
    (grahamHull roundF64 [⟨1 / 10, 1⟩, ⟨2, 0⟩, ⟨0, 0⟩, ⟨1, 0⟩, ⟨2, 2⟩, ⟨0, 2⟩, ⟨1 / 3, 1 / 3⟩] false)
    [⟨1 / 10, 1⟩, ⟨2, 0⟩, ⟨0, 0⟩, ⟨1, 0⟩, ⟨2, 2⟩, ⟨0, 2⟩, ⟨1 / 3, 1 / 3⟩] = true :=
  grahamHull_isStrictHull_f64_partial _ (by decide +kernel) (by decide +kernel)

/-- [T] the driver SKIPs a case when `grahamTie rnd pivot pts` holds (evaluated on *all* input
coordinates); outside that class the tie hypothesis of the two theorems above holds. -/
theorem graham_skip_class_covers (rnd : Rat → Rat) (pts : List Pt)
    (h : grahamTie rnd (swapRemove pts (leastIndex pts)).1 pts = false) :
    grahamTie rnd (swapRemove pts (leastIndex pts)).1 (swapRemove pts (leastIndex pts)).2 = false :=
  grahamTie_mono (swapRemove_snd_subset pts _) h

example : grahamTie roundF64 ⟨0, 0⟩ (swapRemove [⟨1, 1⟩, ⟨0, 0⟩, ⟨3, 3⟩] (leastIndex [⟨1, 1⟩, ⟨0, 0⟩, ⟨3, 3⟩])).2 = false :=
  graham_skip_class_covers roundF64 [⟨1, 1⟩, ⟨0, 0⟩, ⟨3, 3⟩] (by decide +kernel)

/-- [T] **`grahamHull_isStrictHull`, exact scalar types** (`rnd = id`; `i64` without overflow):
the Graham scan of the model returns the strict convex hull, for all inputs with three
non-collinear coordinates — duplicates, collinear runs and any input order included. -/
theorem grahamHull_isStrictHull_exact (pts : List Pt) (ht : hasTriangle pts = true) :
    isStrictHull (grahamHull id pts false) pts = true :=
  grahamHull_isStrictHull_partial id pts ht (distExactPivot_id pts)

example : isStrictHull
    (grahamHull id [⟨1, 1⟩, ⟨2, 0⟩, ⟨0, 0⟩, ⟨1, 0⟩, ⟨2, 2⟩, ⟨0, 2⟩, ⟨0, 0⟩, ⟨0, 1⟩] false)
    [⟨1, 1⟩, ⟨2, 0⟩, ⟨0, 0⟩, ⟨1, 0⟩, ⟨2, 2⟩, ⟨0, 2⟩, ⟨0, 0⟩, ⟨0, 1⟩] = true :=
  grahamHull_isStrictHull_exact _ (by decide +kernel)

/-- [Tp] **`graham_contains`**: every input coordinate is left of or on every edge of the ring of
`graham_hull(.., false)` (≥ 3 non-collinear coordinates, `DistExactPivot`). -/
theorem graham_contains_partial (rnd : Rat → Rat) (pts : List Pt) (ht : hasTriangle pts = true)
    (hd : DistExactPivot rnd pts) :
    ∀ p ∈ pts, ∀ e ∈ edges (grahamHull rnd pts false), 0 ≤ cross e.1 e.2 p :=
  isStrictHull_contains _ _ (grahamHull_isStrictHull_partial rnd pts ht hd)

/-- [T] `graham_contains` for exact scalar types -/
theorem graham_contains_exact (pts : List Pt) (ht : hasTriangle pts = true) :
    ∀ p ∈ pts, ∀ e ∈ edges (grahamHull id pts false), 0 ≤ cross e.1 e.2 p :=
  graham_contains_partial id pts ht (distExactPivot_id pts)

example : 0 ≤ cross ⟨2, 0⟩ ⟨2, 2⟩ ⟨1, 1⟩ :=
  graham_contains_exact [⟨1, 1⟩, ⟨2, 0⟩, ⟨0, 0⟩, ⟨2, 2⟩, ⟨0, 2⟩] (by decide +kernel) ⟨1, 1⟩ (by simp)
    (⟨2, 0⟩, ⟨2, 2⟩) (by decide +kernel)

/-- [T] the slice handed to the Graham fallback by `quick_hull` has exactly the input coordinates -/
theorem quickHullRaw_same_coords (rnd : Rat → Rat) (pts : List Pt) (h : 2 ≤ pts.length) :
    ∀ x, x ∈ (quickHullRaw rnd pts).1 ↔ x ∈ pts :=
  fun x => ⟨(quickHullRaw_subset rnd pts h).1 x, quickHullRaw_cover rnd pts x⟩

example : (⟨4, 2⟩ : Pt) ∈ (quickHullRaw id f6Input).1 :=
  (quickHullRaw_same_coords id f6Input (by decide) _).2 (by decide +kernel)

/-- [Tp] **`quickHull_isStrictHull`**: the checker accepts `quick_hull` of the model whenever the
Graham fallback is taken (proved, under `DistExactPivot`) and for fewer than four coordinates
(proved); when quick-hull keeps its own ring (it passed `is_strict_ccw_hull`, or has at most three
coordinates) acceptance of that ring is the hypothesis `hraw`.
(Full statement: `∀ rnd pts, hasTriangle pts → isStrictHull (quickHull rnd pts) pts`; missing:
containment for the recursive `hull_set`.) -/
theorem quickHull_isStrictHull_partial (rnd : Rat → Rat) (pts : List Pt)
    (ht : hasTriangle pts = true) (hd : DistExactPivot rnd pts)
    (hraw : 4 ≤ pts.length → quickHull rnd pts = (quickHullRaw rnd pts).2 →
      isStrictHull (quickHullRaw rnd pts).2 pts = true) :
    isStrictHull (quickHull rnd pts) pts = true := by
  by_cases hl : pts.length < 4
  · exact (small_hull_correct rnd pts ht hl).1
  · have h4 : 4 ≤ pts.length := by omega
    rcases quickHull_verified_or_graham rnd pts h4 with ⟨heq, _⟩ | heq
    · rw [heq]; exact hraw h4 heq
    · rw [heq]
      have hm := quickHullRaw_same_coords rnd pts (by omega)
      rw [← isStrictHull_congr _ _ _ hm]
      apply grahamHull_isStrictHull_partial
      · rw [hasTriangle_congr _ _ hm]; exact ht
      · exact distExactPivot_congr rnd pts _ hm hd

/-- [Tp] the same for `ConvexHull::convex_hull`. -/
theorem convexHull_isStrictHull_partial (rnd : Rat → Rat) (pts : List Pt)
    (ht : hasTriangle pts = true) (hd : DistExactPivot rnd pts)
    (hraw : 4 ≤ pts.length → quickHull rnd pts = (quickHullRaw rnd pts).2 →
      isStrictHull (quickHullRaw rnd pts).2 pts = true) :
    isStrictHull (convexHull rnd pts) pts = true := by
  rw [convexHull_eq_quickHull]; exact quickHull_isStrictHull_partial rnd pts ht hd hraw

example : isStrictHull (convexHull id f6Input) f6Input = true :=
  convexHull_isStrictHull_partial id f6Input (by decide +kernel) (distExactPivot_id _)
    (fun _ h => absurd h (by decide +kernel))

/-- the F6 input takes the fallback: the hypothesis `hraw` is vacuous there and the theorem gives
the strict hull -/
example : isStrictHull (quickHull id f6Input) f6Input = true :=
  quickHull_isStrictHull_partial id f6Input (by decide +kernel) (distExactPivot_id _)
    (fun _ h => absurd h (by decide +kernel))

/-! ### T3: correctness of the quick-hull path

`quick_hull` accepts its ring only after `is_strict_ccw_hull`, which tests convexity of the ring
*locally* (every turn strictly left) plus one winding (two lexicographic direction changes). It does
not test containment of the input. Containment follows from the structure of the recursion: a point
dropped by `hull_set` lies in a triangle of three coordinates that end up in the ring — whatever
point the rounded farthest-point search picked.
Helper lemmas: GeoProofs/Lemmas/QHULCyc.lean (two monotone runs ⇒ convex), QHULRing.lean (lists),
QHULPart.lean (`partition_slice`, extremes), QHULSet.lean (`hull_set` invariant), QHULMain.lean,
QHULUniq.lean (uniqueness), QHULDegen.lean (degenerate inputs). -/

/-- [T] **what `is_strict_ccw_hull` establishes**: a closed ring whose cyclically consecutive
vertices all turn strictly left and whose edges switch between lexicographically increasing and
decreasing exactly twice is a convex polygon traversed once counter-clockwise — every vertex is
left of or on *every* edge (not only the adjacent ones). -/
theorem strictCcwHull_is_convex (ring : List Pt) (hc : ring.head? = ring.getLast?)
    (h : isStrictCcwHull ring = true) : ∀ e ∈ edges ring, ∀ w ∈ ring, 0 ≤ cross e.1 e.2 w :=
  isStrictCcwHull_convex ring hc h

example : 0 ≤ cross ⟨1, 0⟩ ⟨1, 1⟩ ⟨0, 1⟩ :=
  strictCcwHull_is_convex [⟨0, 0⟩, ⟨1, 0⟩, ⟨1, 1⟩, ⟨0, 1⟩, ⟨0, 0⟩] (by decide +kernel) (by decide +kernel)
    (⟨1, 0⟩, ⟨1, 1⟩) (by decide +kernel) ⟨0, 1⟩ (by decide +kernel)

/-- the winding clause is needed: the pentagram turns strictly left at every vertex, but winds
twice (four direction changes); it is rejected, and it is not convex -/
example : cycTriplesCcw [⟨0, 3⟩, ⟨-2, -3⟩, ⟨3, 1⟩, ⟨-3, 1⟩, ⟨2, -3⟩] = true ∧
    isStrictCcwHull [⟨0, 3⟩, ⟨-2, -3⟩, ⟨3, 1⟩, ⟨-3, 1⟩, ⟨2, -3⟩, ⟨0, 3⟩] = false ∧
    cross ⟨0, 3⟩ ⟨-2, -3⟩ ⟨-3, 1⟩ < 0 := by
  refine ⟨by decide +kernel, by decide +kernel, by norm_num [cross]⟩

/-- [T] **containment from the structure of quick-hull**: every input coordinate lies in the convex
hull of the ring built by `quick_hull` before verification (`Inside`: in every closed half-plane
that contains the ring's coordinates) — for every rounding function, every tie-break of the
farthest-point search, also when the ring itself is not convex. -/
theorem quickHull_ring_spans_input (rnd : Rat → Rat) (pts : List Pt) (h2 : 2 ≤ pts.length) :
    ∀ p ∈ pts, Inside (quickHullRaw rnd pts).2 p :=
  quickHullRaw_inside rnd pts h2

example : Inside (quickHullRaw roundF64 k5Input).2 ⟨1 / 8, 1 / 4⟩ :=
  quickHull_ring_spans_input roundF64 k5Input (by decide) _ (by decide +kernel)

/-- [T] `hull_set(a, b, set)` for a slice strictly left of `a → b`: every point of the slice is in
the convex hull of `a`, `b` and the coordinates the call pushes (the recursion invariant). -/
theorem hullSet_spans_slice (rnd : Rat → Rat) (a b : Pt) (set : List Pt)
    (hleft : ∀ x ∈ set, 0 < cross a b x) :
    ∀ x ∈ set, Inside (a :: b :: (hullSet rnd set.length a b set).2) x :=
  hullSet_inside rnd set.length a b set (le_refl _) hleft

example : Inside (⟨0, 0⟩ :: ⟨4, 0⟩ :: (hullSet id 3 ⟨0, 0⟩ ⟨4, 0⟩ [⟨1, 1⟩, ⟨2, 3⟩, ⟨3, 1⟩]).2) ⟨1, 1⟩ :=
  hullSet_spans_slice id ⟨0, 0⟩ ⟨4, 0⟩ [⟨1, 1⟩, ⟨2, 3⟩, ⟨3, 1⟩] (by decide +kernel) _ (by decide +kernel)

/-- [T] `partition_slice` partitions: the first part satisfies the predicate, the second does not,
and no element is lost or added. -/
theorem partition_slice_spec (pred : Pt → Bool) (xs : List Pt) :
    (∀ x ∈ (partition pred xs).1, pred x = true) ∧ (∀ x ∈ (partition pred xs).2, pred x = false) ∧
    (partition pred xs).1.length + (partition pred xs).2.length = xs.length :=
  partition_spec pred xs

/-- [T] the first two coordinates `quick_hull` removes are a lexicographically least and a
lexicographically greatest coordinate (`least_and_greatest_index` and the index fix-up after the
first `swap_with_first_and_remove`). -/
theorem quickHull_min_max (pts : List Pt) (h2 : 2 ≤ pts.length) :
    let mm := leastGreatest pts
    let s1 := swapRemove pts mm.1
    let s2 := swapRemove s1.2 ((if mm.2 = 0 then mm.1 else mm.2) - 1)
    (∀ x ∈ pts, ¬ lexLt x s1.1 = true) ∧ (∀ x ∈ pts, ¬ lexLt s2.1 x = true) :=
  quickHull_extremes pts h2

example : ∀ x ∈ f6Input, ¬ lexLt x ⟨0, 5⟩ = true := (quickHull_min_max f6Input (by decide)).1

/-- [T] a closed ring that passes `is_strict_ccw_hull`, consists of input coordinates and spans the
input is accepted by the checker `isStrictHull` (closed, strict turns, vertices ⊆ input, every
input coordinate left of or on every edge). -/
theorem verified_ring_is_strict_hull (ring pts : List Pt) (hc : ring.head? = ring.getLast?)
    (hv : isStrictCcwHull ring = true) (hsub : ∀ v ∈ ring, v ∈ pts)
    (hins : ∀ p ∈ pts, Inside ring p) : isStrictHull ring pts = true :=
  verified_ring_isStrictHull ring pts hc hv hsub hins

example : isStrictHull [⟨0, 0⟩, ⟨2, 0⟩, ⟨0, 2⟩, ⟨0, 0⟩] [⟨0, 0⟩, ⟨2, 0⟩, ⟨0, 2⟩] = true :=
  verified_ring_is_strict_hull _ _ (by decide +kernel) (by decide +kernel) (by decide +kernel)
    (fun p hp => Inside.of_mem (by
      simp only [List.mem_cons, List.not_mem_nil, or_false] at hp ⊢
      tauto))

/-- [T] **the ring quick-hull keeps after its verification is the strict hull of the input** —
every rounding function, no hypothesis on the scalar arithmetic: this is the hypothesis `hraw` of
`quickHull_isStrictHull_partial`, proved. -/
theorem quickHull_kept_ring_isStrictHull (rnd : Rat → Rat) (pts : List Pt) (h2 : 2 ≤ pts.length)
    (hv : isStrictCcwHull (quickHullRaw rnd pts).2 = true) :
    isStrictHull (quickHullRaw rnd pts).2 pts = true :=
  quickHullRaw_verified rnd pts h2 hv

example : isStrictHull (quickHullRaw roundF64 [⟨1 / 10, 1⟩, ⟨2, 0⟩, ⟨0, 0⟩, ⟨1, 0⟩, ⟨2, 2⟩, ⟨0, 2⟩]).2
    [⟨1 / 10, 1⟩, ⟨2, 0⟩, ⟨0, 0⟩, ⟨1, 0⟩, ⟨2, 2⟩, ⟨0, 2⟩] = true :=
  quickHull_kept_ring_isStrictHull roundF64 _ (by decide) (by decide +kernel)

/-- [T] with three non-collinear coordinates the ring of quick-hull has at least four coordinates:
the branch "at most three coordinates, returned unverified" is only taken for collinear input. -/
theorem quickHull_ring_verified_when_triangle (rnd : Rat → Rat) (pts : List Pt)
    (h2 : 2 ≤ pts.length) (ht : hasTriangle pts = true) : 4 ≤ (quickHullRaw rnd pts).2.length :=
  quickHullRaw_ring_long rnd pts h2 ht

example : 4 ≤ (quickHullRaw id f6Input).2.length :=
  quickHull_ring_verified_when_triangle id f6Input (by decide) (by decide +kernel)

/-- [T] `quick_hull` whenever its own ring passes the verification: the strict hull, for every
rounding function (nothing is assumed about the arithmetic of the farthest-point search). -/
theorem quickHull_isStrictHull_of_verified (rnd : Rat → Rat) (pts : List Pt) (h4 : 4 ≤ pts.length)
    (hv : isStrictCcwHull (quickHullRaw rnd pts).2 = true) :
    isStrictHull (quickHull rnd pts) pts = true := by
  have hk := quickHull_kept_ring_isStrictHull rnd pts (by omega) hv
  unfold quickHull
  rw [if_neg (by omega)]
  dsimp only
  rw [if_neg (by simp [hv])]
  exact hk

example : isStrictHull (quickHull roundF64 [⟨1 / 10, 1⟩, ⟨2, 0⟩, ⟨0, 0⟩, ⟨1, 0⟩, ⟨2, 2⟩, ⟨0, 2⟩])
    [⟨1 / 10, 1⟩, ⟨2, 0⟩, ⟨0, 0⟩, ⟨1, 0⟩, ⟨2, 2⟩, ⟨0, 2⟩] = true :=
  quickHull_isStrictHull_of_verified roundF64 _ (by decide) (by decide +kernel)

/-- [Tp] **`quickHull_isStrictHull`** with `hraw` discharged: the only hypothesis left is the one
the *Graham fallback* needs from the scalar arithmetic (`DistExactPivot`).
(Full statement `∀ rnd pts, hasTriangle pts → isStrictHull (quickHull rnd pts) pts` is false for an
arbitrary function `rnd`, because of the fallback; see `grahamHull_isStrictHull_partial`.) -/
theorem quickHull_isStrictHull_distExact_partial (rnd : Rat → Rat) (pts : List Pt)
    (ht : hasTriangle pts = true) (hd : DistExactPivot rnd pts) :
    isStrictHull (quickHull rnd pts) pts = true :=
  quickHull_isStrictHull_partial rnd pts ht hd (fun h4 heq => by
    rcases quickHull_verified_or_graham rnd pts h4 with ⟨_, hl | hv⟩ | hg
    · have := quickHull_ring_verified_when_triangle rnd pts (by omega) ht
      omega
    · exact quickHull_kept_ring_isStrictHull rnd pts (by omega) hv
    · rw [← heq, hg]
      have hm := quickHullRaw_same_coords rnd pts (by omega)
      rw [← isStrictHull_congr _ _ _ hm]
      apply grahamHull_isStrictHull_partial
      · rw [hasTriangle_congr _ _ hm]; exact ht
      · exact distExactPivot_congr rnd pts _ hm hd)

example : isStrictHull (quickHull id k5Input) k5Input = true :=
  quickHull_isStrictHull_distExact_partial id k5Input (by decide +kernel) (distExactPivot_id _)

/-- [T] the hypothesis `hraw` of `quickHull_isStrictHull_partial` / `convexHull_isStrictHull_partial`
holds (under their other hypotheses): it is no longer an assumption. -/
theorem quickHull_hraw (rnd : Rat → Rat) (pts : List Pt) (ht : hasTriangle pts = true)
    (hd : DistExactPivot rnd pts) : 4 ≤ pts.length → quickHull rnd pts = (quickHullRaw rnd pts).2 →
      isStrictHull (quickHullRaw rnd pts).2 pts = true := by
  intro _ heq
  rw [← heq]
  exact quickHull_isStrictHull_distExact_partial rnd pts ht hd

example : isStrictHull (quickHullRaw id k5Input).2 k5Input = true :=
  quickHull_hraw id k5Input (by decide +kernel) (distExactPivot_id _) (by decide) (by decide +kernel)

/-- [T] **`quickHull_isStrictHull`, exact scalar types** (`rnd = id`; `i64` without overflow): for
every coordinate list with three non-collinear coordinates `quick_hull` returns a closed ring that
turns strictly left at every vertex (no repeated vertex, none on the segment between its
neighbours), whose vertices are input coordinates and which has every input coordinate left of or
on every edge. No further hypothesis. -/
theorem quickHull_isStrictHull_exact (pts : List Pt) (ht : hasTriangle pts = true) :
    isStrictHull (quickHull id pts) pts = true :=
  quickHull_isStrictHull_distExact_partial id pts ht (distExactPivot_id pts)

example : isStrictHull (quickHull id f6Input) f6Input = true :=
  quickHull_isStrictHull_exact f6Input (by decide +kernel)

/-- [T] **`convexHull_isStrictHull`, exact scalar types**: the same for `ConvexHull::convex_hull`. -/
theorem convexHull_isStrictHull_exact (pts : List Pt) (ht : hasTriangle pts = true) :
    isStrictHull (convexHull id pts) pts = true := by
  rw [convexHull_eq_quickHull]; exact quickHull_isStrictHull_exact pts ht

example : isStrictHull (convexHull id f6Input) f6Input = true :=
  convexHull_isStrictHull_exact f6Input (by decide +kernel)

/-- [T] consequence, spelled out: containment of every input coordinate in `convex_hull`'s ring. -/
theorem convexHull_contains_exact (pts : List Pt) (ht : hasTriangle pts = true) :
    ∀ p ∈ pts, ∀ e ∈ edges (convexHull id pts), 0 ≤ cross e.1 e.2 p :=
  isStrictHull_contains _ _ (convexHull_isStrictHull_exact pts ht)

example : 0 ≤ cross ⟨5, 0⟩ ⟨5, 5⟩ ⟨4, 2⟩ :=
  convexHull_contains_exact f6Input (by decide +kernel) ⟨4, 2⟩ (by decide +kernel) (⟨5, 0⟩, ⟨5, 5⟩)
    (by decide +kernel)

/-- [Tp] **`quickHull_isStrictHull` for `f64`** (dot products and distances rounded with `roundF64`
after every operation): the strict hull on every input outside the driver's SKIP class `grahamTie`
(two distinct coordinates collinear with the lexicographically least one at the same rounded
distance from it — the only inputs on which the Graham fallback's `sort_unstable_by` is not
determined). The rounding of the farthest-point search needs no hypothesis.
(Full statement without `hnt`: not provable about the model, whose fallback sort is an insertion
sort; the hypothesis is only used when the fallback is taken.) -/
theorem quickHull_isStrictHull_f64_partial (pts : List Pt) (ht : hasTriangle pts = true)
    (hnt : grahamTie roundF64 (swapRemove pts (leastIndex pts)).1 pts = false) :
    isStrictHull (quickHull roundF64 pts) pts = true :=
  quickHull_isStrictHull_distExact_partial roundF64 pts ht
    (distExactPivot_of_notie roundF64 roundF64_mono roundF64_zero pts hnt)

example : isStrictHull (quickHull roundF64 k5Input) k5Input = true :=
  quickHull_isStrictHull_f64_partial k5Input (by decide +kernel) (by decide +kernel)

/-- [Tp] the same for `ConvexHull::convex_hull` on `f64`. -/
theorem convexHull_isStrictHull_f64_partial (pts : List Pt) (ht : hasTriangle pts = true)
    (hnt : grahamTie roundF64 (swapRemove pts (leastIndex pts)).1 pts = false) :
    isStrictHull (convexHull roundF64 pts) pts = true := by
  rw [convexHull_eq_quickHull]; exact quickHull_isStrictHull_f64_partial pts ht hnt

example : isStrictHull (convexHull roundF64 k5Input) k5Input = true :=
  convexHull_isStrictHull_f64_partial k5Input (by decide +kernel) (by decide +kernel)

/-! ### T3: uniqueness — quick-hull and Graham agree -/

/-- [T] **the strict hull is unique**: two rings accepted by the checker for the same coordinates
have the same vertex set (each vertex of one is the unique minimiser over the input of an affine
function, and such a minimiser is a vertex of the other). -/
theorem strict_hull_unique (h k pts : List Pt) (hh : isStrictHull h pts = true)
    (hk : isStrictHull k pts = true) : sameVertexSet h k = true :=
  strictHull_unique h k pts hh hk

example : sameVertexSet [⟨0, 0⟩, ⟨1, 0⟩, ⟨1, 1⟩, ⟨0, 1⟩, ⟨0, 0⟩] [⟨1, 1⟩, ⟨0, 1⟩, ⟨0, 0⟩, ⟨1, 0⟩, ⟨1, 1⟩] = true :=
  strict_hull_unique _ _ [⟨0, 0⟩, ⟨1, 0⟩, ⟨1, 1⟩, ⟨0, 1⟩, ⟨1, 1⟩] (by decide +kernel) (by decide +kernel)

/-- [T] **quick-hull and the Graham scan give the same vertex set**, exact scalar types, all inputs
with three non-collinear coordinates (what the driver compares on every case). -/
theorem quick_graham_same_vertices_exact (pts : List Pt) (ht : hasTriangle pts = true) :
    sameVertexSet (quickHull id pts) (grahamHull id pts false) = true :=
  strict_hull_unique _ _ pts (quickHull_isStrictHull_exact pts ht) (grahamHull_isStrictHull_exact pts ht)

example : sameVertexSet (quickHull id f6Input) (grahamHull id f6Input false) = true :=
  quick_graham_same_vertices_exact f6Input (by decide +kernel)

/-- [Tp] the same for `f64`, outside the SKIP class `grahamTie`. -/
theorem quick_graham_same_vertices_f64_partial (pts : List Pt) (ht : hasTriangle pts = true)
    (hnt : grahamTie roundF64 (swapRemove pts (leastIndex pts)).1 pts = false) :
    sameVertexSet (quickHull roundF64 pts) (grahamHull roundF64 pts false) = true :=
  strict_hull_unique _ _ pts (quickHull_isStrictHull_f64_partial pts ht hnt)
    (grahamHull_isStrictHull_f64_partial pts ht
      (graham_skip_class_covers roundF64 pts hnt))

example : sameVertexSet (quickHull roundF64 k5Input) (grahamHull roundF64 k5Input false) = true :=
  quick_graham_same_vertices_f64_partial k5Input (by decide +kernel) (by decide +kernel)

/-! ### T3: degenerate inputs (no three non-collinear coordinates) -/

/-- [T] `quick_hull` of four or more collinear (or equal) coordinates: neither partition finds a
point strictly beside `min → max`, the ring is `max, min`, closed: `[M, m, M]`, or `[m, m]` when all
coordinates are equal. It has at most three coordinates and is returned unverified. -/
theorem quickHull_collinear_ring (rnd : Rat → Rat) (pts : List Pt) (h4 : 4 ≤ pts.length)
    (hnt : hasTriangle pts = false) :
    ∃ m M, m ∈ pts ∧ M ∈ pts ∧ (∀ x ∈ pts, ¬ lexLt x m = true) ∧ (∀ x ∈ pts, ¬ lexLt M x = true) ∧
      quickHull rnd pts = close [M, m] :=
  quickHull_collinear rnd pts h4 hnt

example : ∃ m M, m ∈ [(⟨1, 1⟩ : Pt), ⟨3, 3⟩, ⟨0, 0⟩, ⟨2, 2⟩, ⟨1, 1⟩] ∧ M ∈ [(⟨1, 1⟩ : Pt), ⟨3, 3⟩, ⟨0, 0⟩, ⟨2, 2⟩, ⟨1, 1⟩] ∧
    (∀ x ∈ [(⟨1, 1⟩ : Pt), ⟨3, 3⟩, ⟨0, 0⟩, ⟨2, 2⟩, ⟨1, 1⟩], ¬ lexLt x m = true) ∧
    (∀ x ∈ [(⟨1, 1⟩ : Pt), ⟨3, 3⟩, ⟨0, 0⟩, ⟨2, 2⟩, ⟨1, 1⟩], ¬ lexLt M x = true) ∧
    quickHull roundF64 [(⟨1, 1⟩ : Pt), ⟨3, 3⟩, ⟨0, 0⟩, ⟨2, 2⟩, ⟨1, 1⟩] = close [M, m] :=
  quickHull_collinear_ring roundF64 _ (by decide) (by decide +kernel)

/-- [T] the closed pair, spelled out: no repeated vertex except the closing one, unless the two
ends coincide -/
theorem close_pair_eq (a b : Pt) : close [a, b] = if b = a then [a, b] else [a, b, a] :=
  close_pair a b

/-- [T] **degenerate inputs of `convex_hull`** (non-empty, no three non-collinear coordinates: all
collinear, all equal, one or two points; any number of coordinates, any rounding): the ring consists
of a lexicographically least coordinate `m` and a greatest one `M` — the two ends of the segment —
as `close [m, M]` (fewer than four coordinates: `[m, M, m]`) or `close [M, m]` (four or more:
`[M, m, M]`); when all coordinates are equal both are `[m, m]`. -/
theorem convexHull_degenerate (rnd : Rat → Rat) (pts : List Pt) (hne : pts ≠ [])
    (hnt : hasTriangle pts = false) :
    ∃ m M, m ∈ pts ∧ M ∈ pts ∧ (∀ x ∈ pts, ¬ lexLt x m = true) ∧ (∀ x ∈ pts, ¬ lexLt M x = true) ∧
      (convexHull rnd pts = close [m, M] ∨ convexHull rnd pts = close [M, m]) := by
  rw [convexHull_eq_quickHull]
  by_cases hl : pts.length < 4
  · obtain ⟨m, M, h1, h2, h3, h4, h5⟩ := trivialHull_collinear pts hne hl hnt
    refine ⟨m, M, h1, h2, h3, h4, Or.inl ?_⟩
    unfold quickHull; rw [if_pos hl]; exact h5
  · obtain ⟨m, M, h1, h2, h3, h4, h5⟩ := quickHull_collinear rnd pts (by omega) hnt
    exact ⟨m, M, h1, h2, h3, h4, Or.inr h5⟩

example : ∃ m M, m ∈ [(⟨2, 2⟩ : Pt), ⟨0, 0⟩, ⟨1, 1⟩] ∧ M ∈ [(⟨2, 2⟩ : Pt), ⟨0, 0⟩, ⟨1, 1⟩] ∧
    (∀ x ∈ [(⟨2, 2⟩ : Pt), ⟨0, 0⟩, ⟨1, 1⟩], ¬ lexLt x m = true) ∧
    (∀ x ∈ [(⟨2, 2⟩ : Pt), ⟨0, 0⟩, ⟨1, 1⟩], ¬ lexLt M x = true) ∧
    (convexHull id [(⟨2, 2⟩ : Pt), ⟨0, 0⟩, ⟨1, 1⟩] = close [m, M] ∨
      convexHull id [(⟨2, 2⟩ : Pt), ⟨0, 0⟩, ⟨1, 1⟩] = close [M, m]) :=
  convexHull_degenerate id _ (by simp) (by decide +kernel)

/-- the two degenerate shapes, evaluated: three collinear points, and five equal points -/
example : convexHull id [⟨2, 2⟩, ⟨0, 0⟩, ⟨1, 1⟩] = [⟨0, 0⟩, ⟨2, 2⟩, ⟨0, 0⟩] ∧
    convexHull id [⟨1, 1⟩, ⟨3, 3⟩, ⟨0, 0⟩, ⟨2, 2⟩, ⟨1, 1⟩] = [⟨3, 3⟩, ⟨0, 0⟩, ⟨3, 3⟩] ∧
    convexHull id [⟨1, 2⟩, ⟨1, 2⟩, ⟨1, 2⟩, ⟨1, 2⟩, ⟨1, 2⟩] = [⟨1, 2⟩, ⟨1, 2⟩] := by
  decide +kernel

/-! ### tie to the source -/

/-- [E2] (translator tie) `utils::lex_cmp` (x first, then y) and the comparator closure of `graham_hull` (orientation about the
head point: counter-clockwise = Greater, clockwise = Less, collinear = by squared distance from the head) are, in the model, the
terms `translator/rs2lean.py` regenerates on every run from utils.rs / graham.rs (`GeoModel/Gen/HullGen.lean`): `lexLt` is
"Less" of the regenerated `lex_cmp`, `grahamLe rnd` is "not Greater" of the regenerated comparator with the kernel's
`square_euclidean_distance` instantiated by the model's rounded `dist2r rnd`, for every rounding function. A changed arm,
operand order or comparison changes the regenerated definition and this theorem stops checking. -/
theorem hullComparators_eq_source :
    (∀ p q : Pt, (Gen.lexCmp p q == .lt) = lexLt p q) ∧
    (∀ (rnd : Rat → Rat) (head q r : Pt), (Gen.grahamCmp (dist2r rnd) head q r != .gt) = grahamLe rnd head q r) :=
  ⟨Geo.Proofs.TRAN2Hull.lexCmp_lt, Geo.Proofs.TRAN2Hull.grahamCmp_le⟩

/-- [E2] (translator tie) `utils::least_index` (the lexicographic-minimum selection: `enumerate().min_by(lex_cmp)`, the FIRST
minimum, its index) of the model is the term regenerated from utils.rs on every run. -/
theorem leastIndex_eq_source (pts : List Pt) : Gen.leastIndex pts = leastIndex pts :=
  Geo.Proofs.TRAN2Hull.leastIndex_eq pts

/-- [E2] (translator tie) the body of `for pt in points.iter()` of `graham_hull` — the `while output.len() > 1` loop that pops
while the two top points and `pt` do not make a left turn (`break` on counter-clockwise, pop on clockwise, on collinear
`break` iff `include_on_hull`), followed by the push unless `pt` repeats the top — is, in the model, the term regenerated
from graham.rs on every run (`Gen.grahamLoopBody`, on the Vec = the reversed stack): it answers `some` (the iteration bound
`output.len()` the job claims for the `while` always suffices) and the value is `grahamStep`. A changed loop condition, arm,
`break` / `pop` or push condition changes the regenerated definition and this theorem stops checking.
Hypothesis: the stack is not empty (in `graham_hull` it always holds the head point; on an empty Vec `last().unwrap()`
panics, which the model does not mirror). Full statement without it: false for `st = []`, `pt = (0, 0)`, `incl = false`
(`Gen.unwrap none` is the default point). -/
theorem grahamLoopBody_eq_source_partial (incl : Bool) (st : List Pt) (pt : Pt) (hne : st ≠ []) :
    Gen.grahamLoopBody incl st.reverse pt = some ((grahamStep incl st pt).reverse) :=
  Geo.Proofs.TRAN2Hull.grahamLoopBody_eq incl st pt hne

example : Gen.grahamLoopBody false ([⟨2, 1⟩, ⟨2, 0⟩, ⟨0, 0⟩] : List Pt).reverse ⟨1, 3⟩
    = some ((grahamStep false [⟨2, 1⟩, ⟨2, 0⟩, ⟨0, 0⟩] ⟨1, 3⟩).reverse) :=
  grahamLoopBody_eq_source_partial _ _ _ (by simp)

end Geo.Proofs.C08
